#[doc(hidden)]
pub mod __private229 {
    #[doc(hidden)]
    pub use crate::private::*;
}
