#[doc(hidden)]
pub mod __private229 {
    #[doc(hidden)]
    pub use crate::private::*;
}
use serde_core::__private229 as serde_core_private;
