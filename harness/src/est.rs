//! Uniform view of the single-sample estimators (Mean, Variance, Skewness, Kurtosis, define_moments! types,
//! Min, Max) and instantiations of the macros that the crate's own test-suite never makes.
use crate::obs::*;
use average::{Estimate, Merge};
use std::panic::{catch_unwind, AssertUnwindSafe};

pub mod m4 { average::define_moments!(M4, 4); }
pub mod m5 { average::define_moments!(M5, 5); }
pub mod m6 { average::define_moments!(M6, 6); }
pub mod m8 { average::define_moments!(M8, 8); }
pub mod m10 { average::define_moments!(M10, 10); }
pub mod m7 { average::define_moments!(M7, 7); }
pub mod m9 { average::define_moments!(M9, 9); }
pub mod m12 { average::define_moments!(M12, 12); }
pub mod m3 { average::define_moments!(M3, 3); }
pub mod m13 { average::define_moments!(M13, 13); }
pub mod m16 { average::define_moments!(M16, 16); }
// (orders above 34 need [f64; 33+] arrays, for which serde has no impls: with the `serde` feature such a type does not compile)
pub mod m34 { average::define_moments!(M34, 33); }
pub use m34::M34;
pub use m13::M13;
pub use m16::M16;
pub use m3::M3;
pub use m12::M12;
pub use m7::M7;
pub use m9::M9;
pub use m10::M10;
pub use m4::M4;
pub use m5::M5;
pub use m6::M6;
pub use m8::M8;

average::define_histogram!(h1, 1);
average::define_histogram!(h2, 2);
average::define_histogram!(h3, 3);
average::define_histogram!(h4, 4);
average::define_histogram!(h100, 100);
average::define_histogram!(h5, 5);
average::define_histogram!(h7, 7);
average::define_histogram!(h8, 8);
average::define_histogram!(h16, 16);
average::define_histogram!(h17, 17);
average::define_histogram!(h25, 25);
average::define_histogram!(h64, 64);
average::define_histogram!(h255, 255);
average::define_histogram!(h70000, 70000);
pub use h70000::Histogram as H70000;
pub use h16::Histogram as H16;
pub use h17::Histogram as H17;
pub use h25::Histogram as H25;
pub use h255::Histogram as H255;
pub use h5::Histogram as H5;
pub use h64::Histogram as H64;
pub use h7::Histogram as H7;
pub use h8::Histogram as H8;
pub use average::Histogram10 as H10;
pub use h1::Histogram as H1;
pub use h100::Histogram as H100;
pub use h2::Histogram as H2;
pub use h3::Histogram as H3;
pub use h4::Histogram as H4;

#[derive(Clone, Debug, PartialEq)]
pub enum Val { F(f64), I(i128), B(bool), Panic }
impl Val {
    pub fn word(&self) -> String {
        match self { Val::F(x) => fw(*x), Val::I(i) => iw(*i), Val::B(b) => bw(*b), Val::Panic => "panic".into() }
    }
    pub fn f(&self) -> f64 { match self { Val::F(x) => *x, _ => f64::NAN } }
}

pub fn guarded<F: FnOnce() -> f64>(f: F) -> Val {
    match catch_unwind(AssertUnwindSafe(f)) { Ok(x) => Val::F(x), Err(_) => Val::Panic }
}

/// one accessor observation: protocol op name, oracle statistic name ("" if none), value
pub struct Acc { pub op: String, pub stat: &'static str, pub val: Val }
fn acc(op: &str, stat: &'static str, val: Val) -> Acc { Acc { op: op.to_string(), stat, val } }

pub trait Est: Clone + std::fmt::Debug + Default {
    const NAME: &'static str;
    /// order of the moments estimator (0 for the fixed types)
    const ORDER: usize = 0;
    fn new() -> Self;
    fn add(&mut self, x: f64);
    fn merge(&mut self, o: &Self);
    fn len(&self) -> Option<u64>;
    fn accessors(&self) -> Vec<Acc>;
    fn from_iter_val(v: &[f64]) -> Self;
    fn from_iter_ref(v: &[f64]) -> Self;
    fn extend_val(&mut self, v: &[f64]);
    fn extend_ref(&mut self, v: &[f64]);
    /// the same paths fed by iterators whose size_hint has lower bound 0 (filter, take_while, from_fn)
    fn from_iter_lazy(v: &[f64]) -> Self;
    fn extend_lazy(&mut self, v: &[f64], kind: usize);
    /// extend from a closure-driven iterator (the closure may panic)
    fn extend_lazy_from(&mut self, f: &mut dyn FnMut() -> Option<f64>);
    fn headline(&self) -> Option<(String, f64)> { None }
    fn estimate(&self) -> Option<f64> { None }
    /// `from_value(x)` where the type has it (Min, Max)
    fn from_value(_x: f64) -> Option<Self> { None }
    /// a copy that went through serialisation and back (None when the state cannot be written as JSON)
    fn roundtrip(&self) -> Option<Self>;
    /// the same through the positional binary format (`binfmt`), which can carry every state
    fn roundtrip_bin(&self) -> Option<Self>;
    /// a rayon parallel collect of the kept items (`keep[i]` false: filtered away inside the parallel iterator)
    fn from_par(v: &[f64], keep: &[bool]) -> Self;
}

macro_rules! ingest_impl {
    () => {
        fn roundtrip(&self) -> Option<Self> { serde_json::to_string(self).ok().and_then(|js| serde_json::from_str(&js).ok()) }
        fn roundtrip_bin(&self) -> Option<Self> { crate::binfmt::to_bytes(self).ok().and_then(|b| crate::binfmt::from_bytes(&b).ok()) }
        fn from_par(v: &[f64], keep: &[bool]) -> Self { use rayon::prelude::*; v.par_iter().zip(keep.par_iter()).filter(|(_, k)| **k).map(|(x, _)| *x).collect() }
        fn from_iter_val(v: &[f64]) -> Self { v.iter().cloned().collect() }
        fn from_iter_ref(v: &[f64]) -> Self { v.iter().collect() }
        fn extend_val(&mut self, v: &[f64]) { self.extend(v.iter().cloned()) }
        fn extend_ref(&mut self, v: &[f64]) { self.extend(v.iter()) }
        fn from_iter_lazy(v: &[f64]) -> Self { v.iter().cloned().filter(|_| true).collect() }
        fn extend_lazy_from(&mut self, f: &mut dyn FnMut() -> Option<f64>) { self.extend(std::iter::from_fn(|| f())) }
        fn extend_lazy(&mut self, v: &[f64], kind: usize) {
            match kind % 5 {
                // an iterator whose size_hint claims an exact length that is too small (the hint is advisory)
                4 => { struct Short<'a>(std::slice::Iter<'a, f64>, usize); impl<'a> Iterator for Short<'a> { type Item = f64; fn next(&mut self) -> Option<f64> { self.0.next().cloned() } fn size_hint(&self) -> (usize, Option<usize>) { (self.1, Some(self.1)) } }
                       self.extend(Short(v.iter(), v.len() / 2)) }
                0 => self.extend(v.iter().cloned().filter(|_| true)),
                1 => self.extend(v.iter().take_while(|_| true)),
                2 => { let mut i = 0; self.extend(std::iter::from_fn(|| { let r = v.get(i).cloned(); i += 1; r })) }
                // an iterator that is not fused: after its first None it would yield again - a consumer must stop at the None
                _ => { let mut i = 0; let n = v.len(); self.extend(std::iter::from_fn(|| { i += 1; if i <= n { Some(v[i - 1]) } else if i == n + 1 || i > n + 4 { None } else { Some(1e9 * i as f64) } })) }
            }
        }
    };
}

impl Est for average::Mean {
    const NAME: &'static str = "Mean";
    fn new() -> Self { average::Mean::new() }
    fn add(&mut self, x: f64) { Estimate::add(self, x) }
    fn merge(&mut self, o: &Self) { Merge::merge(self, o) }
    fn len(&self) -> Option<u64> { Some(average::Mean::len(self)) }
    fn accessors(&self) -> Vec<Acc> {
        vec![acc("mean", "mean", Val::F(self.mean())), acc("len", "len", Val::I(self.len() as i128)),
             acc("is_empty", "", Val::B(self.is_empty())), acc("estimate", "", Val::F(Estimate::estimate(self)))]
    }
    ingest_impl!();
    fn headline(&self) -> Option<(String, f64)> { Some(("mean".into(), self.mean())) }
    fn estimate(&self) -> Option<f64> { Some(Estimate::estimate(self)) }
}

impl Est for average::Variance {
    const NAME: &'static str = "Variance";
    fn new() -> Self { average::Variance::new() }
    fn add(&mut self, x: f64) { Estimate::add(self, x) }
    fn merge(&mut self, o: &Self) { Merge::merge(self, o) }
    fn len(&self) -> Option<u64> { Some(average::Variance::len(self)) }
    fn accessors(&self) -> Vec<Acc> {
        vec![acc("mean", "mean", Val::F(self.mean())), acc("len", "len", Val::I(self.len() as i128)),
             acc("is_empty", "", Val::B(self.is_empty())),
             acc("sample_variance", "samplevar", Val::F(self.sample_variance())),
             acc("population_variance", "popvar", Val::F(self.population_variance())),
             acc("variance_of_mean", "varmean", Val::F(self.variance_of_mean())),
             acc("error", "error", Val::F(self.error())),
             acc("estimate", "", Val::F(Estimate::estimate(self)))]
    }
    ingest_impl!();
    fn headline(&self) -> Option<(String, f64)> { Some(("population_variance".into(), self.population_variance())) }
    fn estimate(&self) -> Option<f64> { Some(Estimate::estimate(self)) }
}

impl Est for average::Skewness {
    const NAME: &'static str = "Skewness";
    fn new() -> Self { average::Skewness::new() }
    fn add(&mut self, x: f64) { Estimate::add(self, x) }
    fn merge(&mut self, o: &Self) { Merge::merge(self, o) }
    fn len(&self) -> Option<u64> { Some(average::Skewness::len(self)) }
    fn accessors(&self) -> Vec<Acc> {
        vec![acc("mean", "mean", Val::F(self.mean())), acc("len", "len", Val::I(self.len() as i128)),
             acc("is_empty", "", Val::B(self.is_empty())),
             acc("sample_variance", "samplevar", Val::F(self.sample_variance())),
             acc("population_variance", "popvar", Val::F(self.population_variance())),
             acc("error_mean", "error", Val::F(self.error_mean())),
             acc("skewness", "skew", guarded(|| self.skewness())),
             acc("estimate", "", guarded(|| Estimate::estimate(self)))]
    }
    ingest_impl!();
    fn headline(&self) -> Option<(String, f64)> { Some(("skewness".into(), self.skewness())) }
    fn estimate(&self) -> Option<f64> { Some(Estimate::estimate(self)) }
}

impl Est for average::Kurtosis {
    const NAME: &'static str = "Kurtosis";
    fn new() -> Self { average::Kurtosis::new() }
    fn add(&mut self, x: f64) { Estimate::add(self, x) }
    fn merge(&mut self, o: &Self) { Merge::merge(self, o) }
    fn len(&self) -> Option<u64> { Some(average::Kurtosis::len(self)) }
    fn accessors(&self) -> Vec<Acc> {
        vec![acc("mean", "mean", Val::F(self.mean())), acc("len", "len", Val::I(self.len() as i128)),
             acc("is_empty", "", Val::B(self.is_empty())),
             acc("sample_variance", "samplevar", Val::F(self.sample_variance())),
             acc("population_variance", "popvar", Val::F(self.population_variance())),
             acc("error_mean", "error", Val::F(self.error_mean())),
             acc("skewness", "skew", guarded(|| self.skewness())),
             acc("kurtosis", "kurt", guarded(|| self.kurtosis())),
             acc("estimate", "", guarded(|| Estimate::estimate(self)))]
    }
    ingest_impl!();
    fn headline(&self) -> Option<(String, f64)> { Some(("kurtosis".into(), self.kurtosis())) }
    fn estimate(&self) -> Option<f64> { Some(Estimate::estimate(self)) }
}

pub const CM_STATS: [&str; 37] = ["cm0", "cm1", "cm2", "cm3", "cm4", "cm5", "cm6", "cm7", "cm8", "cm9", "cm10", "cm11", "cm12", "cm13", "cm14", "cm15", "cm16", "cm17", "cm18", "cm19", "cm20", "cm21", "cm22", "cm23", "cm24", "cm25", "cm26", "cm27", "cm28", "cm29", "cm30", "cm31", "cm32", "cm33", "cm34", "cm35", "cm36"];
pub const SM_STATS: [&str; 37] = ["sm0", "sm1", "sm2", "sm3", "sm4", "sm5", "sm6", "sm7", "sm8", "sm9", "sm10", "sm11", "sm12", "sm13", "sm14", "sm15", "sm16", "sm17", "sm18", "sm19", "sm20", "sm21", "sm22", "sm23", "sm24", "sm25", "sm26", "sm27", "sm28", "sm29", "sm30", "sm31", "sm32", "sm33", "sm34", "sm35", "sm36"];

macro_rules! moments_impl {
    ($t:ty, $name:expr, $n:expr) => {
        impl Est for $t {
            const NAME: &'static str = $name;
            const ORDER: usize = $n;
            fn new() -> Self { <$t>::new() }
            fn add(&mut self, x: f64) { <$t>::add(self, x) }
            fn merge(&mut self, o: &Self) { Merge::merge(self, o) }
            fn len(&self) -> Option<u64> { Some(<$t>::len(self)) }
            fn accessors(&self) -> Vec<Acc> {
                let mut v = vec![acc("mean", "mean", Val::F(self.mean())), acc("len", "len", Val::I(self.len() as i128)),
                    acc("is_empty", "", Val::B(self.is_empty())),
                    acc("sample_variance", "samplevar", Val::F(self.sample_variance())),
                    acc("sample_skewness", "sskew", guarded(|| self.sample_skewness()))];
                // (an estimator of order three has no fourth moment: the accessor asserts p <= N, by design)
                if $n >= 4 { v.push(acc("sample_excess_kurtosis", "sexkurt", guarded(|| self.sample_excess_kurtosis()))); }
                for p in 0..=$n {
                    v.push(acc(&format!("central_moment:{}", p), CM_STATS[p], guarded(|| self.central_moment(p))));
                    v.push(acc(&format!("standardized_moment:{}", p), SM_STATS[p], guarded(|| self.standardized_moment(p))));
                }
                v
            }
            ingest_impl!();
        }
    };
}
moments_impl!(M4, "M4", 4);
moments_impl!(M5, "M5", 5);
moments_impl!(M6, "M6", 6);
moments_impl!(M8, "M8", 8);
moments_impl!(M10, "M10", 10);
moments_impl!(M7, "M7", 7);
moments_impl!(M9, "M9", 9);
moments_impl!(M12, "M12", 12);
moments_impl!(M3, "M3", 3);
moments_impl!(M13, "M13", 13);
moments_impl!(M16, "M16", 16);
moments_impl!(M34, "M33", 33);
// the crate's own instantiation
impl Est for average::Moments4 {
    const NAME: &'static str = "M4";
    const ORDER: usize = 4;
    fn new() -> Self { average::Moments4::new() }
    fn add(&mut self, x: f64) { average::Moments4::add(self, x) }
    fn merge(&mut self, o: &Self) { Merge::merge(self, o) }
    fn len(&self) -> Option<u64> { Some(average::Moments4::len(self)) }
    fn accessors(&self) -> Vec<Acc> {
        let mut v = vec![acc("mean", "mean", Val::F(self.mean())), acc("len", "len", Val::I(self.len() as i128)),
            acc("is_empty", "", Val::B(self.is_empty())),
            acc("sample_variance", "samplevar", Val::F(self.sample_variance())),
            acc("sample_skewness", "sskew", guarded(|| self.sample_skewness())),
            acc("sample_excess_kurtosis", "sexkurt", guarded(|| self.sample_excess_kurtosis()))];
        for p in 0..=4 {
            v.push(acc(&format!("central_moment:{}", p), CM_STATS[p], guarded(|| self.central_moment(p))));
            v.push(acc(&format!("standardized_moment:{}", p), SM_STATS[p], guarded(|| self.standardized_moment(p))));
        }
        v
    }
    ingest_impl!();
}

impl Est for average::Min {
    const NAME: &'static str = "Min";
    fn new() -> Self { average::Min::new() }
    fn add(&mut self, x: f64) { Estimate::add(self, x) }
    fn merge(&mut self, o: &Self) { Merge::merge(self, o) }
    fn len(&self) -> Option<u64> { None }
    fn accessors(&self) -> Vec<Acc> {
        vec![acc("min", "min", Val::F(self.min())), acc("estimate", "", Val::F(Estimate::estimate(self)))]
    }
    ingest_impl!();
    fn from_value(x: f64) -> Option<Self> { Some(average::Min::from_value(x)) }
    fn headline(&self) -> Option<(String, f64)> { Some(("min".into(), self.min())) }
    fn estimate(&self) -> Option<f64> { Some(Estimate::estimate(self)) }
}

impl Est for average::Max {
    const NAME: &'static str = "Max";
    fn new() -> Self { average::Max::new() }
    fn add(&mut self, x: f64) { Estimate::add(self, x) }
    fn merge(&mut self, o: &Self) { Merge::merge(self, o) }
    fn len(&self) -> Option<u64> { None }
    fn accessors(&self) -> Vec<Acc> {
        vec![acc("max", "max", Val::F(self.max())), acc("estimate", "", Val::F(Estimate::estimate(self)))]
    }
    fn from_iter_val(v: &[f64]) -> Self { v.iter().cloned().collect() }
    fn from_iter_ref(v: &[f64]) -> Self { v.iter().collect() }
    // Max has no Extend impl in the crate; fall back to add
    fn extend_val(&mut self, v: &[f64]) { for x in v { Estimate::add(self, *x) } }
    fn extend_ref(&mut self, v: &[f64]) { for x in v { Estimate::add(self, *x) } }
    fn from_iter_lazy(v: &[f64]) -> Self { v.iter().cloned().filter(|_| true).collect() }
    fn extend_lazy(&mut self, v: &[f64], _kind: usize) { for x in v { Estimate::add(self, *x) } }
    fn extend_lazy_from(&mut self, f: &mut dyn FnMut() -> Option<f64>) { while let Some(x) = f() { Estimate::add(self, x) } }
    fn roundtrip(&self) -> Option<Self> { serde_json::to_string(self).ok().and_then(|js| serde_json::from_str(&js).ok()) }
    fn roundtrip_bin(&self) -> Option<Self> { crate::binfmt::to_bytes(self).ok().and_then(|b| crate::binfmt::from_bytes(&b).ok()) }
    fn from_par(v: &[f64], keep: &[bool]) -> Self { use rayon::prelude::*; v.par_iter().zip(keep.par_iter()).filter(|(_, k)| **k).map(|(x, _)| *x).collect() }
    fn from_value(x: f64) -> Option<Self> { Some(average::Max::from_value(x)) }
    fn headline(&self) -> Option<(String, f64)> { Some(("max".into(), self.max())) }
    fn estimate(&self) -> Option<f64> { Some(Estimate::estimate(self)) }
}
