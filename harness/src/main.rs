#![cfg_attr(feature = "nightly", feature(generic_const_exprs))]
#![cfg_attr(feature = "nightly", allow(incomplete_features))]
mod binfmt;
mod common;
mod concat;
mod data;
mod est;
mod obs;
mod out;
mod props_mom;
mod props_quant;
mod props_io;
mod props_struct;
mod props_pair;
mod props_hist;
mod rng;

use out::Out;
use rng::Rng;

fn main() {
    // panics inside catch_unwind are expected observations; keep stderr quiet
    std::panic::set_hook(Box::new(|_| {}));
    let args: Vec<String> = std::env::args().collect();
    if args.len() >= 3 && args[1] == "data" {
        // replay an explicit single-pass case: avgh data <Type> <hex words...>  (pairs for the pair estimators)
        let mut out = Out::new("DATA", None);
        let mut rng = Rng::new(1);
        let vals: Vec<f64> = args[3..].iter().map(|w| f64::from_bits(u64::from_str_radix(w, 16).expect("hex word"))).collect();
        if !props_struct::replay_data(&mut out, &mut rng, &args[2], &vals) { eprintln!("unknown type {}", args[2]); std::process::exit(2); }
        out.finish();
        return;
    }
    if args.len() >= 3 && args[1] == "tree" {
        // replay an explicit merge tree: avgh tree <Type> ( [ w w ] [ w ] )
        let mut out = Out::new("DATA", None);
        let mut rng = Rng::new(1);
        if !props_struct::replay_tree(&mut out, &mut rng, &args[2], &args[3..]) { eprintln!("unknown type or malformed tree"); std::process::exit(2); }
        out.finish();
        return;
    }
    if args.len() < 5 || args[1] != "gen" {
        eprintln!("usage: avgh gen <property> <quick|thorough> <seed> [--only <case>]");
        std::process::exit(2);
    }
    let prop = args[2].as_str();
    let tier = args[3].as_str();
    let seed: u64 = args[4].parse().expect("seed");
    let only = if args.len() >= 7 && args[5] == "--only" { Some(args[6].parse::<u64>().expect("case")) } else { None };
    let mut out = Out::new(prop, only);
    let mut rng = Rng::new(seed ^ 0xA5A5_0000 ^ (prop.bytes().fold(0u64, |a, b| a.wrapping_mul(131).wrapping_add(b as u64))));
    // a panic that escapes an operation (outside the places where a panic is an expected observation) is a
    // violation in itself: report it against the running case instead of dying
    use std::sync::Mutex;
    static LAST_PANIC: Mutex<String> = Mutex::new(String::new());
    std::panic::set_hook(Box::new(|info| { if let Ok(mut g) = LAST_PANIC.lock() { *g = format!("{}", info).replace('\n', " "); } }));
    let r = std::panic::catch_unwind(std::panic::AssertUnwindSafe(|| {
        match prop {
            "C01" => props_mom::c01(&mut out, tier, &mut rng),
            "C02" => props_mom::c02(&mut out, tier, &mut rng),
            "C03" => props_mom::c03(&mut out, tier, &mut rng),
            "C04" => props_mom::c04(&mut out, tier, &mut rng),
            "C10" => props_mom::c10(&mut out, tier, &mut rng),
            "C05" => props_quant::c05(&mut out, tier, &mut rng),
            "C07" => props_quant::c07(&mut out, tier, &mut rng),
            "C08" => props_pair::c08(&mut out, tier, &mut rng),
            "C09" => props_pair::c09(&mut out, tier, &mut rng),
            "C14" => props_pair::c14(&mut out, tier, &mut rng),
            "C06" => props_hist::c06(&mut out, tier, &mut rng),
            "C12" => props_hist::c12(&mut out, tier, &mut rng),
            "C13" => props_hist::c13(&mut out, tier, &mut rng),
            "C11" => props_struct::c11(&mut out, tier, &mut rng),
            "C16" => props_struct::c16(&mut out, tier, &mut rng),
            "C17" => props_struct::c17(&mut out, tier, &mut rng),
            "C20" => props_struct::c20(&mut out, tier, &mut rng),
            "C18" => props_io::c18(&mut out, tier, &mut rng),
            "C19" => props_io::c19(&mut out, tier, &mut rng),
            "C15" => props_quant::c15(&mut out, tier, &mut rng),
            _ => { eprintln!("unknown property {}", prop); std::process::exit(2); }
        }
    }));
    if r.is_err() {
        let msg = LAST_PANIC.lock().map(|g| g.clone()).unwrap_or_default();
        out.active = true;
        out.x(false, || format!("an operation panicked where no panic is documented: {}", msg));
    }
    out.finish();
}
