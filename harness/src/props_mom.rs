//! C01-C04, C10: single-pass and merged estimators of the moment family against the exact oracle.
use crate::common::*;
use crate::data::*;
use crate::est::*;
use crate::obs::*;
use crate::out::Out;
use crate::rng::Rng;

fn allow_all(_: &str) -> bool { true }

pub fn single_pass<E: Est>(out: &mut Out, data: &[f64], trace: Trace, rng: &mut Rng, allow: &dyn Fn(&str) -> bool) {
    if !out.next_case() { return; }
    let mut e = E::new();
    feed(out, &mut e, data, trace, rng);
    let accs = observe(out, &e);
    oracle_mom(out, data, &accs, allow);
    out.note(&format!("{}:n<={}", E::NAME, bucket(data.len())));
}

/// the estimator is polled after every observation (every accessor is read, and compared with the exact values of
/// the prefix seen so far); with probability 1/3 the next observation is the current running mean itself
pub fn polled<E: Est>(out: &mut Out, data: &[f64], rng: &mut Rng, allow: &dyn Fn(&str) -> bool) {
    if !out.next_case() { return; }
    let mut e = E::new();
    let mut seen: Vec<f64> = Vec::new();
    for x in data {
        let x = if !seen.is_empty() && rng.below(3) == 0 { e.accessors()[0].val.f() } else { *x };
        let pre = words(&e);
        e.add(x);
        seen.push(x);
        out.t(E::NAME, "add", &pre, &fw(x), &words(&e));
        let accs = observe(out, &e);
        oracle_mom(out, &seen, &accs, allow);
    }
    out.note(&format!("{}:polled", E::NAME));
}

/// polled runs over small-integer data (running means are often whole numbers, sums often unchanged by an add)
pub fn polled_suite<E: Est>(out: &mut Out, tier: &str, rng: &mut Rng, allow: &dyn Fn(&str) -> bool) {
    polled::<E>(out, &[1.0, 2.0, 3.0, 10.0, 4.0, 4.0, 7.0], rng, allow);
    for _ in 0..(if tier == "thorough" { 40 } else { 8 }) {
        let n = 3 + rng.below(12);
        let d: Vec<f64> = (0..n).map(|_| (rng.below(13) as f64 - 4.0) * *rng.pick(&[1.0, 0.5, 1e6])).collect();
        polled::<E>(out, &d, rng, allow);
    }
}

/// streams built to sit just beside the exact special cases: an observation a few parts in 10^8..10^13 of the
/// spread away from the running mean (not equal to it), a prefix whose sum cancels to 8-13 digits (not exactly),
/// a jump in magnitude
pub fn near_suite<E: Est>(out: &mut Out, tier: &str, rng: &mut Rng, allow: &dyn Fn(&str) -> bool) {
    for rep in 0..(if tier == "thorough" { 120 } else { 30 }) {
        let n = 2 + rng.below(8);
        let scale = *rng.pick(&[1.0, 1.0, 2f64.powi(-90), 2f64.powi(90), 1e6]);
        let mut d: Vec<f64> = (0..n).map(|_| scale * (rng.below(17) as f64 - 6.0) * *rng.pick(&[1.0, 0.5, 0.25])).collect();
        if !spread_nonzero(&d) { d[0] += scale; }
        let mean = d.iter().sum::<f64>() / n as f64;
        let sd = (d.iter().map(|x| (x - mean) * (x - mean)).sum::<f64>() / n as f64).sqrt();
        let eps = 2f64.powi(-(20 + rng.below(26) as i32));
        match rep % 4 {
            0 => d.push(mean + sd * eps),                                  // beside the running mean
            1 => { let sum: f64 = d.iter().sum(); d.push(-sum * (1.0 + eps)); }   // the prefix sum cancels, but not exactly
            2 => { let sum: f64 = d.iter().sum(); d.push(-sum + scale * eps); d.push(scale * 3.0); }
            _ => { d.insert(0, scale * 1e-3); d.insert(1, scale * 1e6); }  // a jump by nine orders of magnitude right at the start
        }
        if rng.unit() < 0.5 { d.push(scale * (rng.below(9) as f64 - 4.0)); }
        single_pass::<E>(out, &d, Trace::All, rng, allow);
    }
}

pub fn bucket(n: usize) -> usize { let mut b = 1; while b < n { b *= 10; } b }

pub fn merged<E: Est>(out: &mut Out, t: &Tree, trace: Trace, rng: &mut Rng, allow: &dyn Fn(&str) -> bool) {
    if !out.next_case() { return; }
    out.tree_comment(E::NAME, &|| t.encode(), t.flatten().len());
    let e: E = eval_tree(out, t, trace, rng);
    let accs = observe(out, &e);
    let data = t.flatten();
    oracle_mom(out, &data, &accs, allow);
    out.note(&format!("{}:tree-leaves<={}", E::NAME, bucket(t.leaves())));
}

fn sizes(tier: &str) -> (usize, Vec<(usize, usize)>) {
    // (datasets per small n, [(n, how many)])
    if tier == "thorough" { (12, vec![(50, 40), (100, 40), (1000, 30), (10_000, 10), (100_000, 3), (1_000_000, 1)]) }
    else { (3, vec![(50, 8), (100, 8), (1000, 6), (10_000, 2), (70_000, 1), (150_000, 1)]) }
}

/// C01: Mean and Variance, one observation at a time
pub fn c01(out: &mut Out, tier: &str, rng: &mut Rng) {
    let (per_small, big) = sizes(tier);
    for n in 1..=20usize {
        for _ in 0..per_small {
            let (d, _) = dataset(rng, n, 3e11);
            single_pass::<average::Mean>(out, &d, Trace::All, rng, &allow_all);
            single_pass::<average::Variance>(out, &d, Trace::All, rng, &allow_all);
        }
    }
    // conditioning sweep and order clause
    for &off in OFFSETS {
        for fam in ["normal", "uniform", "exp_pos"] {
            let base = shape(rng, fam, 200);
            for sign in [1.0, -1.0] {
                let d = place(&base, 1.0, sign * off);
                let mut sorted = d.clone(); sorted.sort_by(|a, b| a.partial_cmp(b).unwrap());
                let mut rev = sorted.clone(); rev.reverse();
                let mut shuf = d.clone(); rng.shuffle(&mut shuf);
                for v in [&d, &sorted, &rev, &shuf] {
                    single_pass::<average::Mean>(out, v, Trace::Sparse, rng, &allow_all);
                    single_pass::<average::Variance>(out, v, Trace::Sparse, rng, &allow_all);
                }
            }
        }
    }
    for (n, count) in big {
        for _ in 0..count {
            // (the longest streams without a common offset, so that the envelope stays as tight as the spread)
            let (d, _) = dataset(rng, n, if n >= 70_000 { 0.0 } else { 3e11 });
            single_pass::<average::Mean>(out, &d, Trace::Sparse, rng, &allow_all);
            single_pass::<average::Variance>(out, &d, Trace::Sparse, rng, &allow_all);
        }
    }
    polled_suite::<average::Mean>(out, tier, rng, &allow_all);
    polled_suite::<average::Variance>(out, tier, rng, &allow_all);
    // `add` at counts that no add loop reaches (beyond 2^32 and 2^53; the state is built by self-merges)
    for (d, x) in HUGE_BASES.iter().chain(HUGE_BASES_VAR.iter()).chain(HUGE_BASES_SCALED.iter()) {
        huge_counts::<average::Mean>(out, d, x);
        huge_counts::<average::Variance>(out, d, x);
    }
    near_suite::<average::Mean>(out, tier, rng, &allow_all);
    near_suite::<average::Variance>(out, tier, rng, &allow_all);
}

fn exhaustive_trees<E: Est>(out: &mut Out, alphabet: &[f64], max_n: usize, max_k: usize, rng: &mut Rng, allow: &dyn Fn(&str) -> bool) {
    // all sequences would be |alphabet|^n; take a rotating window of the alphabet instead so every
    // composition x tree is covered for each n, over values that include an ill-conditioned pair
    for n in 0..=max_n {
        let data: Vec<f64> = (0..n).map(|i| alphabet[(i * 7 + n) % alphabet.len()]).collect();
        for k in 1..=max_k {
            for cuts in compositions(n, k) {
                let chunks = chunks_of(&data, &cuts);
                for t in all_trees(&chunks) {
                    merged::<E>(out, &t, Trace::None, rng, allow);
                }
            }
        }
    }
}

const ALPHABET: &[f64] = &[1.0, 2.5, -3.0, 1e9 + 1.0, 1e9 + 3.0, 0.0, 7.0e-3, 1.0];

fn random_tree_from(chunks: &[Vec<f64>]) -> Tree {
    let mut it = chunks.iter();
    let mut t = Tree::Leaf(it.next().unwrap().clone());
    for c in it { t = Tree::Node(Box::new(t), Box::new(Tree::Leaf(c.clone()))); }
    t
}

fn sampled_trees<E: Est>(out: &mut Out, tier: &str, rng: &mut Rng, allow: &dyn Fn(&str) -> bool, min_mag: f64, max_mag: f64) {
    let plan: Vec<(usize, usize)> = if tier == "thorough" { vec![(10, 60), (100, 60), (1000, 30), (10_000, 8)] } else { vec![(10, 12), (100, 12), (1000, 6), (10_000, 1)] };
    for (n, count) in plan {
        for c in 0..count {
            let (d, _) = dataset_in(rng, n, 3e11, min_mag, max_mag, FAMILIES);
            let k = 1 + rng.below(8.min(n + 1));
            let t = random_tree(rng, &d, k, c % 4);
            merged::<E>(out, &t, Trace::None, rng, allow);
        }
    }
}

/// C02: merge over all chunkings and trees
pub fn c02(out: &mut Out, tier: &str, rng: &mut Rng) {
    let (max_n, max_k) = if tier == "thorough" { (6, 5) } else { (5, 4) };
    exhaustive_trees::<average::Mean>(out, ALPHABET, max_n, max_k, rng, &allow_all);
    exhaustive_trees::<average::Variance>(out, ALPHABET, max_n, max_k, rng, &allow_all);
    exhaustive_trees::<average::Skewness>(out, ALPHABET, max_n, max_k, rng, &allow_all);
    exhaustive_trees::<average::Kurtosis>(out, ALPHABET, max_n, max_k, rng, &allow_all);
    exhaustive_trees::<M4>(out, ALPHABET, max_n, max_k.min(4), rng, &allow_all);
    exhaustive_trees::<M6>(out, ALPHABET, max_n.min(5), max_k.min(4), rng, &allow_all);
    for t in special_trees() {
        merged::<average::Mean>(out, &t, Trace::None, rng, &allow_all);
        merged::<average::Variance>(out, &t, Trace::None, rng, &allow_all);
        merged::<average::Skewness>(out, &t, Trace::None, rng, &allow_all);
        merged::<average::Kurtosis>(out, &t, Trace::None, rng, &allow_all);
        merged::<average::Moments4>(out, &t, Trace::None, rng, &allow_all);
        merged::<M6>(out, &t, Trace::None, rng, &allow_all);
    }
    // large chunks (counts beyond 2^16 on both sides of a merge), different chunk means
    {
        let n = if tier == "thorough" { 600_000 } else { 150_000 };
        let mut d = shape(rng, "exp_pos", n);
        for (i, x) in d.iter_mut().enumerate() { if i >= n / 2 { *x += 3.0; } }
        let cuts_list: Vec<Vec<usize>> = vec![vec![n / 2], vec![n / 3, 2 * n / 3]];
        for cuts in cuts_list {
            let chunks = chunks_of(&d, &cuts);
            let t = random_tree_from(&chunks);
            merged::<average::Kurtosis>(out, &t, Trace::None, rng, &allow_all);
            merged::<average::Moments4>(out, &t, Trace::None, rng, &allow_all);
            merged::<average::Variance>(out, &t, Trace::None, rng, &allow_all);
        }
    }
    // lopsided merges (one side thousands of times longer than the other), counts beyond 2^32 and 2^53
    for t in lopsided_trees(rng, tier != "thorough") {
        merged::<average::Mean>(out, &t, Trace::None, rng, &allow_all);
        merged::<average::Variance>(out, &t, Trace::None, rng, &allow_all);
        merged::<average::Skewness>(out, &t, Trace::None, rng, &allow_all);
        merged::<average::Kurtosis>(out, &t, Trace::None, rng, &allow_all);
        merged::<average::Moments4>(out, &t, Trace::None, rng, &allow_all);
        merged::<M6>(out, &t, Trace::None, rng, &allow_all);
    }
    for (d, x) in HUGE_BASES {
        huge_counts::<average::Mean>(out, d, x);
        huge_counts::<average::Variance>(out, d, x);
        huge_counts::<average::Skewness>(out, d, x);
        huge_counts::<average::Kurtosis>(out, d, x);
        huge_counts::<average::Moments4>(out, d, x);
        huge_counts::<M6>(out, d, x);
    }
    // a high order at huge counts (powers of the counts overflow long before the weights n_a/n, n_b/n do)
    huge_counts::<M34>(out, &[1.0, 2.0, 4.0, 8.0], &[3.0, 5.0]);
    // (orders above 16 are exercised for the code paths only: their entries are compared with the model, not with an envelope)
    sampled_trees::<M34>(out, tier, rng, &|s: &str| { let p: usize = s.trim_start_matches(|c: char| c.is_alphabetic()).parse().unwrap_or(0); p <= 16 }, -4.0, 4.0);
    sampled_trees::<average::Mean>(out, tier, rng, &allow_all, -25.0, 25.0);
    sampled_trees::<average::Variance>(out, tier, rng, &allow_all, -25.0, 25.0);
    sampled_trees::<average::Skewness>(out, tier, rng, &allow_all, -25.0, 25.0);
    sampled_trees::<average::Kurtosis>(out, tier, rng, &allow_all, -25.0, 25.0);
    sampled_trees::<average::Moments4>(out, tier, rng, &allow_all, -25.0, 25.0);
    sampled_trees::<M5>(out, tier, rng, &allow_all, -25.0, 25.0);
    sampled_trees::<M8>(out, tier, rng, &allow_all, -24.0, 24.0);
    sampled_trees::<M10>(out, tier, rng, &allow_all, -20.0, 20.0);
    sampled_trees::<M7>(out, tier, rng, &allow_all, -25.0, 25.0);
    sampled_trees::<M9>(out, tier, rng, &allow_all, -22.0, 22.0);
    sampled_trees::<M12>(out, tier, rng, &allow_all, -16.0, 16.0);
    sampled_trees::<M13>(out, tier, rng, &allow_all, -14.0, 14.0);
    sampled_trees::<M16>(out, tier, rng, &allow_all, -11.0, 11.0);
    // chunks whose means differ by a few parts in 10^8..10^13 of the spread (not equal), with different sizes and spreads
    for rep in 0..(if tier == "thorough" { 80 } else { 20 }) {
        let big = 2f64.powi(20 + rng.below(8) as i32);
        let a: Vec<f64> = (0..(2 + 2 * rng.below(3))).map(|i| if i % 2 == 0 { -big } else { big }).collect();
        let eps = 2f64.powi(-(2 + rng.below(20) as i32));
        let b: Vec<f64> = match rep % 3 { 0 => vec![-3.0 + eps, 5.0 - eps * 0.5], 1 => vec![eps, 2.0 * eps, -1.5 * eps, 7.0, -7.0], _ => vec![eps * big * 1e-9] };
        for t in [Tree::Node(Box::new(Tree::Leaf(a.clone())), Box::new(Tree::Leaf(b.clone()))), Tree::Node(Box::new(Tree::Leaf(b.clone())), Box::new(Tree::Leaf(a.clone())))] {
            merged::<average::Variance>(out, &t, Trace::All, rng, &allow_all);
            merged::<average::Skewness>(out, &t, Trace::All, rng, &allow_all);
            merged::<average::Kurtosis>(out, &t, Trace::All, rng, &allow_all);
            merged::<average::Moments4>(out, &t, Trace::All, rng, &allow_all);
        }
    }
}

const C03_FAMS: &[&str] = &["normal", "uniform", "exp_pos", "exp_neg", "bimodal", "outlier", "two_point", "arith", "heavy", "ties"];

/// C03: Skewness and Kurtosis
pub fn c03(out: &mut Out, tier: &str, rng: &mut Rng) {
    let (per_small, big) = sizes(tier);
    for n in 2..=20usize {
        for _ in 0..per_small {
            let (d, _) = dataset_in(rng, n, 1e9, -25.0, 25.0, C03_FAMS);
            if !spread_nonzero(&d) { continue; }
            single_pass::<average::Skewness>(out, &d, Trace::All, rng, &allow_all);
            single_pass::<average::Kurtosis>(out, &d, Trace::All, rng, &allow_all);
        }
    }
    for fam in C03_FAMS {
        for &off in &[0.0, 1e3, 1e6, 1e9] {
            for n in [30usize, 300] {
                let base = shape(rng, fam, n);
                let d = place(&base, 1.0, off);
                if !spread_nonzero(&d) { continue; }
                single_pass::<average::Skewness>(out, &d, Trace::Sparse, rng, &allow_all);
                single_pass::<average::Kurtosis>(out, &d, Trace::Sparse, rng, &allow_all);
                let neg: Vec<f64> = d.iter().map(|x| -x).collect();
                single_pass::<average::Skewness>(out, &neg, Trace::Sparse, rng, &allow_all);
                single_pass::<average::Kurtosis>(out, &neg, Trace::Sparse, rng, &allow_all);
            }
        }
    }
    for (n, count) in big {
        if n > 100_000 { continue; }
        for _ in 0..count {
            let (d, _) = dataset_in(rng, n, 1e9, -25.0, 25.0, C03_FAMS);
            if !spread_nonzero(&d) { continue; }
            single_pass::<average::Skewness>(out, &d, Trace::Sparse, rng, &allow_all);
            single_pass::<average::Kurtosis>(out, &d, Trace::Sparse, rng, &allow_all);
        }
    }
    polled_suite::<average::Skewness>(out, tier, rng, &allow_all);
    polled_suite::<average::Kurtosis>(out, tier, rng, &allow_all);
    // `add` and the accessors at counts that no add loop reaches (beyond 2^32 and 2^53)
    for (d, x) in HUGE_BASES {
        huge_counts::<average::Skewness>(out, d, x);
        huge_counts::<average::Kurtosis>(out, d, x);
    }
}

fn c04_for<E: Est>(out: &mut Out, tier: &str, rng: &mut Rng) {
    let order = E::ORDER as f64;
    let (per_small, big) = sizes(tier);
    let per_small = per_small.max(2);
    for n in 1..=12usize {
        for _ in 0..per_small {
            let max_mag = ((300.0 - (n as f64).log10()) / order - 5.5).floor().min(25.0);
            let (d, _) = dataset_in(rng, n, 3e11, (-240.0 / order).max(-25.0), max_mag, FAMILIES);
            single_pass::<E>(out, &d, Trace::All, rng, &allow_all);
        }
    }
    // the edge of the property's domain: n * max|x|^N just below 1e300 (no offset, so |x - mean| <~ max|x|)
    for &n in &[3usize, 40, 400, 3000] {
        for fam in ["uniform", "normal", "two_point", "exp_pos"] {
            let base = shape(rng, fam, n);
            let m = base.iter().map(|x| x.abs()).fold(0.0, f64::max);
            if m == 0.0 { continue; }
            let target = 10f64.powf((297.0 - (n as f64).log10()) / order).min(1e30);
            let d: Vec<f64> = base.iter().map(|x| x / m * target).collect();
            single_pass::<E>(out, &d, Trace::None, rng, &allow_all);
        }
    }
    for (n, count) in big {
        if n > 10_000 { continue; }
        for _ in 0..count.min(6) {
            let max_mag = ((300.0 - (n as f64).log10()) / order - 5.5).floor().min(25.0);
            let (d, _) = dataset_in(rng, n, 3e11, (-240.0 / order).max(-25.0), max_mag, FAMILIES);
            single_pass::<E>(out, &d, Trace::Sparse, rng, &allow_all);
        }
    }
}

/// agreement of define_moments! with the fixed estimators on the same data (within both envelopes,
/// which the oracle lines establish); here: the `T`/`O` lines for all five orders
pub fn c04(out: &mut Out, tier: &str, rng: &mut Rng) {
    c04_for::<average::Moments4>(out, tier, rng);
    c04_for::<M4>(out, tier, rng);
    c04_for::<M5>(out, tier, rng);
    c04_for::<M6>(out, tier, rng);
    c04_for::<M8>(out, tier, rng);
    c04_for::<M10>(out, tier, rng);
    c04_for::<M7>(out, tier, rng);
    c04_for::<M9>(out, tier, rng);
    c04_for::<M12>(out, tier, rng);
    c04_for::<M3>(out, tier, rng);
    c04_for::<M13>(out, tier, rng);
    c04_for::<M16>(out, tier, rng);
    // a long stream of small-magnitude data: (delta/n)^p is n^p times smaller than the term it produces
    {
        let n = if tier == "thorough" { 300_000 } else { 120_000 };
        let d: Vec<f64> = (0..n).map(|_| rng.unit() * 2f64.powi(-90)).collect();
        let mut e = M10::new(); for x in &d { e.add(*x); }
        if out.next_case() { let accs = observe(out, &e); oracle_mom(out, &d, &accs, &|s: &str| matches!(s, "mean" | "len" | "cm2" | "cm4" | "cm8" | "cm10" | "sm8" | "sm10")); }
        let mut e8 = M8::new(); for x in &d { e8.add(*x); }
        if out.next_case() { let accs = observe(out, &e8); oracle_mom(out, &d, &accs, &|s: &str| matches!(s, "mean" | "len" | "cm2" | "cm6" | "cm8" | "sm8")); }
    }
    polled_suite::<average::Moments4>(out, tier, rng, &allow_all);
    polled_suite::<M6>(out, tier, rng, &allow_all);
    for (d, x) in HUGE_BASES {
        huge_counts::<average::Moments4>(out, d, x);
        huge_counts::<M5>(out, d, x);
        huge_counts::<M8>(out, d, x);
    }
    // same data through Kurtosis and Moments4: both must sit inside the envelope of the same exact values
    for _ in 0..(if tier == "thorough" { 60 } else { 12 }) {
        let n = 2 + rng.below(200);
        let (d, _) = dataset_in(rng, n, 1e9, -25.0, 25.0, FAMILIES);
        single_pass::<average::Kurtosis>(out, &d, Trace::None, rng, &allow_all);
        single_pass::<average::Moments4>(out, &d, Trace::None, rng, &allow_all);
    }
}

/// C10: bias-corrected sample statistics
pub fn c10(out: &mut Out, tier: &str, rng: &mut Rng) {
    let allow = |s: &str| matches!(s, "len" | "samplevar" | "varmean" | "error" | "sskew" | "sexkurt" | "popvar");
    let reps = if tier == "thorough" { 20 } else { 4 };
    for n in 1..=12usize {
        for _ in 0..reps {
            let (d, _) = dataset_in(rng, n, 1e9, -25.0, 25.0, C03_FAMS);
            single_pass::<average::Variance>(out, &d, Trace::None, rng, &allow);
            single_pass::<average::Skewness>(out, &d, Trace::None, rng, &allow);
            single_pass::<average::Kurtosis>(out, &d, Trace::None, rng, &allow);
            single_pass::<average::Moments4>(out, &d, Trace::None, rng, &allow);
            single_pass::<M6>(out, &d, Trace::None, rng, &allow);
        }
    }
    // both skew directions, larger n
    for fam in ["exp_pos", "exp_neg", "outlier", "heavy", "bimodal", "two_point"] {
        for n in [3usize, 4, 5, 10, 100, 1000] {
            for _ in 0..reps.min(6) {
                let base = shape(rng, fam, n);
                for sign in [1.0, -1.0] {
                    let d: Vec<f64> = place(&base, 1.0, *rng.pick(&[0.0, 1e3, 1e6])).iter().map(|x| sign * x).collect();
                    if !spread_nonzero(&d) { continue; }
                    single_pass::<average::Moments4>(out, &d, Trace::None, rng, &allow);
                    single_pass::<M5>(out, &d, Trace::None, rng, &allow);
                    single_pass::<average::Variance>(out, &d, Trace::None, rng, &allow);
                }
            }
        }
    }
    // WeightedMeanWithError: sample variance of the unweighted observations, zero weights anywhere
    for n in 1..=9usize {
        for zp in 0..crate::props_pair::WEIGHT_PATTERNS {
            let (xs, _) = dataset_in(rng, n, 1e6, -20.0, 20.0, C03_FAMS);
            let ws = crate::props_pair::weights(rng, n, zp);
            let data: Vec<(f64, f64)> = xs.iter().cloned().zip(ws.iter().cloned()).collect();
            crate::props_pair::weighted_case::<average::WeightedMeanWithError>(out, &crate::props_pair::PTree::Leaf(data.clone()), Trace::None, rng);
            // the same through every two- and three-chunk merge (a chunk may consist of zero-weight observations only)
            if n <= 6 {
                for k in 2..=3 {
                    for cuts in compositions(n, k) {
                        for t in crate::props_pair::all_ptrees(&crate::props_pair::pchunks(&data, &cuts)) {
                            crate::props_pair::weighted_case::<average::WeightedMeanWithError>(out, &t, Trace::None, rng);
                        }
                    }
                }
            }
        }
    }
    // the same statistics after merges: every chunking and tree of short sequences (chunks of one or two
    // observations and symmetric chunks have third moments of exactly zero), the special chunkings
    {
        let (max_n, max_k) = if tier == "thorough" { (6, 4) } else { (5, 3) };
        exhaustive_trees::<average::Moments4>(out, ALPHABET, max_n, max_k, rng, &allow);
        exhaustive_trees::<M5>(out, &[0.0, 4.0, 8.0, 1.0, 9.0, 2.5, -3.0, 13.0], max_n, max_k, rng, &allow);
        exhaustive_trees::<average::Kurtosis>(out, &[0.0, 1.0, 10.0, 13.0, 4.0, 9.0, 2.5], max_n.min(5), max_k, rng, &allow);
        for t in special_trees() {
            merged::<average::Variance>(out, &t, Trace::None, rng, &allow);
            merged::<average::Moments4>(out, &t, Trace::None, rng, &allow);
            merged::<M6>(out, &t, Trace::None, rng, &allow);
        }
    }
    polled_suite::<average::Variance>(out, tier, rng, &allow);
    polled_suite::<average::Moments4>(out, tier, rng, &allow);
    // counts beyond 2^32 and 2^53 (reached by merging): the bias corrections use n as a float
    for (d, x) in HUGE_BASES {
        huge_counts::<average::Variance>(out, d, x);
        huge_counts::<average::Skewness>(out, d, x);
        huge_counts::<average::Kurtosis>(out, d, x);
        huge_counts::<average::Moments4>(out, d, x);
        huge_counts::<M5>(out, d, x);
    }
    for (d, x) in crate::props_pair::PHUGE_BASES { crate::props_pair::phuge_counts::<average::WeightedMeanWithError>(out, d, x); }
    // scales at which powers of the variance leave the representable range although every statistic is an ordinary number
    for &mag in &[-70i32, -60, -40, 40, 60, 70] {
        for fam in ["exp_pos", "exp_neg", "outlier", "two_point"] {
            let n = 3 + rng.below(12);
            let base = shape(rng, fam, n);
            let d: Vec<f64> = base.iter().map(|x| x * 10f64.powi(mag)).collect();
            if !spread_nonzero(&d) { continue; }
            single_pass::<M3>(out, &d, Trace::All, rng, &allow);
            single_pass::<average::Variance>(out, &d, Trace::All, rng, &allow);
            if mag.abs() <= 60 { single_pass::<average::Moments4>(out, &d, Trace::All, rng, &allow); }
        }
    }
    for (d, x) in HUGE_BASES_SCALED {
        huge_counts::<average::Variance>(out, d, x);
        huge_counts::<average::Moments4>(out, d, x);
    }
    near_suite::<average::Variance>(out, tier, rng, &allow);
    // the witness of the repaired defect
    for d in [vec![1.0, 2.0, 3.0, 10.0], vec![-1.0, -2.0, -3.0, -10.0]] {
        single_pass::<average::Moments4>(out, &d, Trace::All, rng, &allow);
    }
}
