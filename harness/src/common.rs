//! Building blocks shared by the property generators.
use crate::est::*;
use crate::obs::*;
use crate::out::Out;
use crate::rng::Rng;

#[derive(Clone, Debug)]
pub enum Tree { Leaf(Vec<f64>), Node(Box<Tree>, Box<Tree>) }
impl Tree {
    pub fn flatten(&self) -> Vec<f64> {
        match self { Tree::Leaf(v) => v.clone(), Tree::Node(l, r) => { let mut a = l.flatten(); a.extend(r.flatten()); a } }
    }
    pub fn shape(&self) -> String {
        match self { Tree::Leaf(v) => format!("{}", v.len()), Tree::Node(l, r) => format!("({} {})", l.shape(), r.shape()) }
    }
    /// `( [ w w ] ( [ w ] [ ] ) )`: leaves in brackets, nodes in parentheses, observations as hex words
    pub fn encode(&self) -> String {
        match self { Tree::Leaf(v) => format!("[ {} ]", fws(v)).replace("  ", " "), Tree::Node(l, r) => format!("( {} {} )", l.encode(), r.encode()) }
    }
    pub fn decode(tokens: &[String], pos: &mut usize) -> Option<Tree> {
        let t = tokens.get(*pos)?.as_str();
        *pos += 1;
        match t {
            "[" => {
                let mut v = Vec::new();
                loop {
                    let w = tokens.get(*pos)?; *pos += 1;
                    if w == "]" { return Some(Tree::Leaf(v)); }
                    v.push(f64::from_bits(u64::from_str_radix(w, 16).ok()?));
                }
            }
            "(" => { let l = Tree::decode(tokens, pos)?; let r = Tree::decode(tokens, pos)?; if tokens.get(*pos)? != ")" { return None; } *pos += 1; Some(Tree::Node(Box::new(l), Box::new(r))) }
            _ => None,
        }
    }
    pub fn leaves(&self) -> usize { match self { Tree::Leaf(_) => 1, Tree::Node(l, r) => l.leaves() + r.leaves() } }
}

/// how much of a stream of adds is written out as correspondence lines
#[derive(Clone, Copy)]
pub enum Trace { All, Sparse, None }

pub fn fws(v: &[f64]) -> String { v.iter().map(|x| fw(*x)).collect::<Vec<_>>().join(" ") }

/// an operation that must leave the estimator exactly as it is: clone, clone_from into another state, a serde
/// round trip (when the state can be written as JSON)
pub fn identity_op<E: Est>(out: &mut Out, e: &mut E, which: usize) {
    let before = words(e);
    let (name, copy): (&str, E) = match which % 4 {
        0 => ("clone()", e.clone()),
        1 => { let mut t = E::default(); t.add(1.5); t.clone_from(e); ("clone_from()", t) }
        2 => match e.roundtrip() { Some(r) => ("a serde round trip (JSON)", r), None => ("clone()", e.clone()) },
        // the binary format carries every state, so a failure to restore is itself a violation
        _ => match e.roundtrip_bin() { Some(r) => ("a serde round trip (positional binary format)", r), None => { out.x(false, || format!("{}: state {} does not survive a round trip through a positional binary serde format", E::NAME, before)); ("clone()", e.clone()) } },
    };
    out.x(words(&copy) == before, || format!("{}: {} changed the state: {} -> {}", E::NAME, name, before, words(&copy)));
    *e = copy;
}

/// feed the observations without correspondence lines, through one of the ingestion paths (every path builds the
/// same estimator as the add loop: property C20), interleaved with operations that must not change the state
pub fn feed_any<E: Est>(out: &mut Out, e: &mut E, xs: &[f64], rng: &mut Rng) {
    let n = xs.len();
    let route = rng.below(10);
    let h = if n > 1 { rng.below(n) } else { 0 };
    match route {
        // the source of an extend fails (panics) after h items and the caller recovers: what was consumed stays consumed,
        // exactly as with an add loop; the rest arrives afterwards
        8 => {
            let r = std::panic::catch_unwind(std::panic::AssertUnwindSafe(|| {
                let mut i = 0;
                e.extend_lazy_from(&mut || { if i == h { panic!("source failed") } let x = xs[i]; i += 1; Some(x) });
            }));
            out.x(r.is_err(), || "a panic inside the iterator handed to extend was swallowed".to_string());
            for x in &xs[h..] { e.add(*x) }
        }
        9 => { e.extend_lazy(&xs[..h], 4); for x in &xs[h..] { e.add(*x) } }
        0 | 1 => for x in xs { e.add(*x) },
        2 => e.extend_val(xs),
        3 => e.extend_ref(xs),
        4 => e.extend_lazy(xs, h),
        5 => { for x in &xs[..h] { e.add(*x) } e.extend_ref(&xs[h..]); }
        6 => { e.extend_val(&xs[..h]); identity_op(out, e, h); for x in &xs[h..] { e.add(*x) } }
        _ => { for x in &xs[..h] { e.add(*x) } identity_op(out, e, h + 1); e.extend_lazy(&xs[h..], h + 1); }
    }
}

/// add the observations one at a time, emitting `T <ty> add` lines
pub fn feed<E: Est>(out: &mut Out, e: &mut E, xs: &[f64], trace: Trace, rng: &mut Rng) {
    let n = xs.len();
    if let Trace::None = trace { if n > 0 && n <= 20_000 { feed_any(out, e, xs, rng); return; } }
    for (i, x) in xs.iter().enumerate() {
        let emit = match trace {
            Trace::All => true,
            Trace::Sparse => i < 6 || i + 3 >= n || rng.below(n) < 24,
            Trace::None => false,
        };
        if emit && out.active {
            let pre = words(e);
            e.add(*x);
            out.t(E::NAME, "add", &pre, &fw(*x), &words(e));
        } else {
            e.add(*x);
        }
    }
}

/// emit one `T` line per accessor and return the observations
pub fn observe<E: Est>(out: &mut Out, e: &E) -> Vec<Acc> {
    let accs = e.accessors();
    if out.active {
        let pre = words(e);
        for a in &accs { out.t(E::NAME, &a.op, &pre, "", &a.val.word()); }
    }
    accs
}

/// `O mom` line: the data and every statistic that has an exact counterpart
pub fn oracle_mom(out: &mut Out, data: &[f64], accs: &[Acc], allow: &dyn Fn(&str) -> bool) {
    if !out.active || data.is_empty() { return; }
    let mut stats = Vec::new();
    for a in accs {
        if a.stat.is_empty() || !allow(a.stat) { continue; }
        match &a.val {
            Val::F(x) => {
                // statistics that are documented NaN / panic for this sample size are not envelope material
                if x.is_nan() && nan_expected(a.stat, data) { continue; }
                stats.push(format!("{}={}", a.stat, fw(*x)));
            }
            Val::I(i) => stats.push(format!("{}={}", a.stat, iw(*i))),
            Val::Panic => { if !panic_expected(a.stat, data) { stats.push(format!("{}=panic", a.stat)); } }
            _ => {}
        }
    }
    out.o("mom", &[&fws(data), &stats.join(" ")]);
}

/// sample sizes / spreads for which the documented result is NaN (checked by C16, skipped here)
pub fn nan_expected(stat: &str, data: &[f64]) -> bool {
    let n = data.len();
    let flat = !crate::data::spread_nonzero(data);
    match stat {
        "samplevar" => n < 2,
        "sexkurt" => n < 4 || flat,
        "sskew" => n < 2 || flat,
        "skew" | "kurt" => false,
        s if s.starts_with("sm") => flat,
        _ => false,
    }
}
pub fn panic_expected(stat: &str, data: &[f64]) -> bool {
    // the documented zero-variance assertion concerns orders >= 3 only
    stat.starts_with("sm") && !matches!(stat, "sm0" | "sm1" | "sm2") && !data.is_empty() && !crate::data::spread_nonzero(data)
}

/// evaluate a merge tree with real estimators, emitting `T <ty> merge` lines
pub fn eval_tree<E: Est>(out: &mut Out, t: &Tree, trace: Trace, rng: &mut Rng) -> E {
    match t {
        Tree::Leaf(v) => { let mut e = E::new(); feed(out, &mut e, v, trace, rng); e }
        Tree::Node(l, r) => {
            let mut a: E = eval_tree(out, l, trace, rng);
            let b: E = eval_tree(out, r, trace, rng);
            let (pa, pb) = (words(&a), words(&b));
            a.merge(&b);
            out.t(E::NAME, "merge", &pa, &pb, &words(&a));
            a
        }
    }
}

/// all ways to cut `n` items into `k` contiguous, possibly empty chunks (as cut positions)
pub fn compositions(n: usize, k: usize) -> Vec<Vec<usize>> {
    fn rec(n: usize, k: usize, start: usize, cur: &mut Vec<usize>, acc: &mut Vec<Vec<usize>>) {
        if cur.len() == k - 1 { acc.push(cur.clone()); return; }
        for c in start..=n { cur.push(c); rec(n, k, c, cur, acc); cur.pop(); }
    }
    let mut acc = Vec::new();
    rec(n, k, 0, &mut Vec::new(), &mut acc);
    acc
}

/// all binary trees over the leaves `lo..hi` (indices into chunks)
pub fn all_trees(chunks: &[Vec<f64>]) -> Vec<Tree> {
    if chunks.len() == 1 { return vec![Tree::Leaf(chunks[0].clone())]; }
    let mut acc = Vec::new();
    for split in 1..chunks.len() {
        for l in all_trees(&chunks[..split]) {
            for r in all_trees(&chunks[split..]) {
                acc.push(Tree::Node(Box::new(l.clone()), Box::new(r.clone())));
            }
        }
    }
    acc
}

pub fn chunks_of(data: &[f64], cuts: &[usize]) -> Vec<Vec<f64>> {
    let mut v = Vec::new();
    let mut prev = 0;
    for c in cuts { v.push(data[prev..*c].to_vec()); prev = *c; }
    v.push(data[prev..].to_vec());
    v
}

/// a random tree over random contiguous chunks
pub fn random_tree(rng: &mut Rng, data: &[f64], k: usize, style: usize) -> Tree {
    let n = data.len();
    let mut cuts: Vec<usize> = (0..k.saturating_sub(1)).map(|_| rng.below(n + 1)).collect();
    cuts.sort();
    let chunks = chunks_of(data, &cuts);
    fn build(rng: &mut Rng, ch: &[Vec<f64>], style: usize) -> Tree {
        if ch.len() == 1 { return Tree::Leaf(ch[0].clone()); }
        let split = match style { 0 => ch.len() / 2, 1 => 1, 2 => ch.len() - 1, _ => 1 + rng.below(ch.len() - 1) };
        let split = split.max(1).min(ch.len() - 1);
        Tree::Node(Box::new(build(rng, &ch[..split], style)), Box::new(build(rng, &ch[split..], style)))
    }
    build(rng, &chunks, style)
}

/// chunkings built to hit "fast paths": chunks with bit-equal means, symmetric chunks (third moment 0),
/// constant chunks, an observation equal to the running mean, at ordinary, offset and tiny scales
pub fn special_trees() -> Vec<Tree> {
    let base: Vec<Vec<Vec<f64>>> = vec![
        vec![vec![1.0, 3.0], vec![2.0]],
        vec![vec![2.0], vec![1.0, 3.0]],
        vec![vec![1.0, 6.0], vec![2.0, 5.0], vec![3.0, 4.0]],
        vec![vec![1.0, 7.0, 4.0], vec![2.0, 6.0, 3.0, 5.0]],
        vec![vec![0.0, 4.0], vec![1.0, 3.0]],
        vec![vec![5.0, 5.0], vec![5.0], vec![5.0, 5.0, 5.0]],
        vec![vec![1.0, 2.0], vec![5.0, 7.0]],
        vec![vec![1.0, 2.0, 3.0], vec![4.0, 5.0, 6.0]],
        vec![vec![1.0, 2.0], vec![3.0, 4.0], vec![5.0, 6.0], vec![7.0, 8.0]],
        vec![vec![1.0, 3.0, 2.0, 10.0]],
        vec![vec![0.0], vec![0.0, 0.0], vec![4.0, -4.0]],
        vec![vec![4.0, 6.0], vec![3.0, 7.0], vec![5.0]],
        // chunk totals of opposite sign that cancel (exactly at offset 0), chunks of unequal length
        vec![vec![1.0, 3.0], vec![-4.0]],
        vec![vec![-2.0, -1.0], vec![0.0, 1.0, 2.0]],
        vec![vec![5.0], vec![-1.0, -3.0, -1.0]],
        vec![vec![-1.0, -3.0], vec![5.0], vec![-0.5, -0.5]],
    ];
    let mut out = Vec::new();
    for (scale, off) in [(1.0, 0.0), (1.0, 1e9), (1e-18, 0.0), (1e-20, 0.0), (1e12, 0.0), (0.5, -1e6)] {
        for chunks in &base {
            let ch: Vec<Vec<f64>> = chunks.iter().map(|c| c.iter().map(|x| x * scale + off).collect()).collect();
            out.extend(all_trees(&ch));
        }
    }
    out
}

/// the representable number `k` steps above (`k > 0`) or below (`k < 0`) a finite `x`
pub fn ulp_step(x: f64, k: i64) -> f64 {
    // map to a monotone integer line (negative floats mirrored), step, map back
    let b = x.to_bits() as i64;
    let line = if b < 0 { i64::MIN.wrapping_sub(b) } else { b };
    let l2 = line.saturating_add(k);
    let b2 = if l2 < 0 { i64::MIN.wrapping_sub(l2) } else { l2 };
    let y = f64::from_bits(b2 as u64);
    if y.is_nan() { x } else { y }
}

/// lengths around the powers of two that buffered / blocked / chunked ingestion would use
pub const BLOCK_LENS: &[usize] = &[15, 16, 17, 31, 32, 33, 63, 64, 65, 127, 128, 129, 255, 256, 257, 511, 512, 513,
    1023, 1024, 1025, 2047, 2048, 2049, 3072, 4095, 4096, 4097, 8192, 16384, 65535, 65536, 65537];

/// lopsided merges: a long chunk (a run sitting at one extreme of the data, or random data) merged with a very
/// short one, in both orders; sizes straddle 2^12 and 2^16
pub fn lopsided_trees(rng: &mut Rng, quick: bool) -> Vec<Tree> {
    let mut v = Vec::new();
    let sizes: &[usize] = if quick { &[4095, 4097, 9000, 70_000] } else { &[1000, 4095, 4096, 4097, 5000, 9000, 65_537, 70_000] };
    for &big in sizes {
        for kind in 0..3 {
            let long: Vec<f64> = match kind {
                0 => vec![5.0; big],
                1 => (0..big).map(|_| 3.0 + rng.unit()).collect(),
                _ => (0..big).map(|i| if i % 2 == 0 { -2.0 } else { -1.0 }).collect(),
            };
            for small in [vec![7.0], vec![-9.0, -8.5], vec![4.5, 6.0, 6.5]] {
                v.push(Tree::Node(Box::new(Tree::Leaf(long.clone())), Box::new(Tree::Leaf(small.clone()))));
                v.push(Tree::Node(Box::new(Tree::Leaf(small.clone())), Box::new(Tree::Leaf(long.clone()))));
            }
        }
    }
    v
}

fn rel_close(a: f64, b: f64, tol: f64) -> bool { a.is_finite() == b.is_finite() && ((a - b).abs() <= tol * (1.0 + a.abs().max(b.abs())) || a == b) }
/// closeness relative to the larger value or to the natural scale `floor` of the statistic, whichever is larger
fn scl_close(a: f64, b: f64, tol: f64, floor: f64) -> bool { a.is_finite() == b.is_finite() && ((a - b).abs() <= tol * a.abs().max(b.abs()).max(floor) || a == b) }
/// natural scale of a statistic for data of magnitude `m`
fn stat_scale(stat: &str, m: f64) -> f64 {
    match stat {
        "mean" | "error" => m,
        "popvar" | "samplevar" | "varmean" | "cm2" => m * m,
        "cm3" => m * m * m,
        "cm4" => m * m * m * m,
        _ => 1.0,
    }
}

/// Counts far beyond anything a loop of `add` reaches: the estimator is merged with a clone of itself until its
/// count passes 2^55. Every doubling, every accessor of the doubled state, one further `add` and a merge with a short
/// chunk (both ways round) are correspondence lines; in the harness the statistics of the doubled state are
/// compared with the textbook values (a sample repeated R times has the same mean, population variance, skewness
/// and kurtosis; the bias-corrected ones follow from those with N = R n).
pub fn huge_counts<E: Est>(out: &mut Out, data: &[f64], extra: &[f64]) {
    if !out.next_case() { return; }
    let mut e = E::new(); for x in data { e.add(*x) }
    let mut small = E::new(); for x in extra { small.add(*x) }
    let base = e.accessors();
    let get = |accs: &[Acc], stat: &str| accs.iter().find(|a| a.stat == stat).map(|a| a.val.f());
    let n0 = data.len() as f64;
    let mag = data.iter().chain(extra.iter()).map(|x| x.abs()).fold(0.0, f64::max);
    let (mean0, popvar0) = (get(&base, "mean"), get(&base, "popvar").or(get(&base, "cm2")));
    let (skew0, kurt0) = (get(&base, "skew").or(get(&base, "sm3")), get(&base, "kurt").or(get(&base, "sm4").map(|x| x - 3.0)));
    // a second estimator over `extra`, doubled in lockstep: merging the two is a merge of two huge chunks with
    // different means, whose population statistics are those of data ++ extra
    let mut e2 = small.clone();
    let mut union = E::new(); for x in data.iter().chain(extra.iter()) { union.add(*x) }
    let ubase = union.accessors();
    let mut reps = 1f64;
    // doublings up to a count of 2^62 (the merge of the two huge chunks below then reaches 2^63 at most)
    let rounds = 62 - (64 - (data.len().max(extra.len()) as u64 - 1).leading_zeros() as usize).min(8);
    for round in 0..rounds {
        let c = e.clone();
        let pa = words(&e);
        e.merge(&c);
        reps *= 2.0;
        out.t(E::NAME, "merge", &pa, &pa, &words(&e));
        { let c2 = e2.clone(); e2.merge(&c2); }
        {
            let mut u = e.clone(); let pu = words(&u); u.merge(&e2); out.t(E::NAME, "merge", &pu, &words(&e2), &words(&u));
            if let (Some(la), Some(lb)) = (e.len(), e2.len()) { out.x(u.len() == Some(la + lb), || format!("{}: merging {} and {} observations gives len() = {:?}", E::NAME, la, lb, u.len())); }
            let ua = u.accessors();
            // (when N times the square of the data magnitude is not representable the stored sums overflow by design)
            let representable = mag * mag * (n0 + extra.len() as f64) * reps < 1e300;
            for stat in ["mean", "popvar", "cm2", "skew", "kurt", "sm3", "sm4", "cm3", "cm4"] {
                if !representable && stat != "mean" { continue; }
                if let (Some(g), Some(w)) = (get(&ua, stat), get(&ubase, stat)) {
                    if w.is_finite() { out.x(scl_close(g, w, 1e-9, stat_scale(stat, mag)), || format!("{}: merge of {:?} x {} with {:?} x {}: {} = {:?}, textbook value {:?}", E::NAME, data, reps, extra, reps, stat, g, w)); }
                }
            }
        }
        let accs = observe(out, &e);
        let nn = n0 * reps;
        let tol = 1e-9; // doubling merges of equal halves are exact up to a few ulps per level
        let chk = |out: &mut Out, stat: &str, want: Option<f64>| {
            if let (Some(g), Some(w)) = (get(&accs, stat), want) {
                if w.is_finite() { out.x(scl_close(g, w, tol, stat_scale(stat, mag)), || format!("{}: after {} self-merges of {:?} (count {}), {} = {:?}, textbook value {:?}", E::NAME, round + 1, data, nn, stat, g, w)); }
            }
        };
        chk(out, "mean", mean0);
        chk(out, "popvar", popvar0);
        chk(out, "cm2", popvar0);
        chk(out, "skew", skew0);
        chk(out, "kurt", kurt0);
        chk(out, "sm3", skew0);
        chk(out, "sm4", kurt0.map(|k| k + 3.0));
        if let Some(v) = popvar0 {
            chk(out, "samplevar", Some(v * nn / (nn - 1.0)));
            chk(out, "varmean", Some(v / (nn - 1.0)));
            chk(out, "error", Some((v / (nn - 1.0)).sqrt()));
        }
        if let Some(s) = skew0 { chk(out, "sskew", Some(s * (nn * (nn - 1.0)).sqrt() / (nn - 2.0))); }
        if let Some(k) = kurt0 { chk(out, "sexkurt", Some((nn - 1.0) / ((nn - 2.0) * (nn - 3.0)) * ((nn + 1.0) * k + 6.0))); }
        if let Some(l) = e.len() { out.x(l as f64 == nn, || format!("{}: len() = {} after {} self-merges of {} observations", E::NAME, l, round + 1, data.len())); }
        // one more observation, and a short chunk merged in from either side
        let mut f = e.clone(); let pre = words(&f); f.add(extra[0]); out.t(E::NAME, "add", &pre, &fw(extra[0]), &words(&f));
        // textbook update of mean and variance by one observation x: mean + (x-mean)/(N+1), (N v + (x-mean)^2 N/(N+1))/(N+1)
        {
            let fa = f.accessors();
            let x = extra[0];
            if let (Some(m0), Some(g)) = (mean0, get(&fa, "mean")) {
                let want = m0 + (x - m0) / (nn + 1.0);
                out.x(scl_close(g, want, 1e-9, mag), || format!("{}: {:?} added to {} observations with mean {:?}: mean {:?}, textbook {:?}", E::NAME, x, nn, m0, g, want));
            }
            if let (Some(m0), Some(v0), Some(g)) = (mean0, popvar0, get(&fa, "popvar").or(get(&fa, "cm2"))) {
                let want = (nn * v0 + (x - m0) * ((x - m0) * (nn / (nn + 1.0)))) / (nn + 1.0);
                if want.is_finite() { out.x(scl_close(g, want, 1e-9, f64::MIN_POSITIVE), || format!("{}: {:?} added to {} observations with mean {:?} and variance {:?}: variance {:?}, textbook {:?}", E::NAME, x, nn, m0, v0, g, want)); }
            }
        }
        let mut g = e.clone(); let pg = words(&g); g.merge(&small); out.t(E::NAME, "merge", &pg, &words(&small), &words(&g));
        let mut h = small.clone(); let ph = words(&h); h.merge(&e); out.t(E::NAME, "merge", &ph, &words(&e), &words(&h));
        // lengths add exactly, however lopsided the operands
        if let (Some(le), Some(ls)) = (e.len(), small.len()) {
            out.x(g.len() == Some(le + ls) && h.len() == Some(le + ls) && f.len() == Some(le + 1),
                  || format!("{}: lengths do not add at count {}: merge(short chunk of {}) -> {:?}, short chunk.merge -> {:?}, add -> {:?}", E::NAME, le, ls, g.len(), h.len(), f.len()));
        }
        // merging the empty estimator, either way round, changes nothing
        { let mut z = e.clone(); z.merge(&E::new()); let mut y = E::default(); y.merge(&e);
          out.x(words(&z) == words(&e) && y.accessors().iter().zip(e.accessors().iter()).all(|(a, b)| a.val.word() == b.val.word()),
                || format!("{}: merging the empty estimator at count {} changed the state or the statistics", E::NAME, nn)); }
        // a short chunk of ordinary observations cannot move the statistics of 2^20 and more observations by much
        // (not asserted for the far-outlier bases: there the exact update above is the oracle, and Variance::merge
        // may overflow in delta^2 * n_a although the merged sum is representable - outside every property's claim)
        let dmag = data.iter().map(|x| x.abs()).fold(0.0, f64::max);
        let ordinary = extra.iter().all(|x| x.abs() <= 1e3 * dmag.max(f64::MIN_POSITIVE));
        if round >= 20 && ordinary {
            for (nm, s) in [("merge(short chunk)", &g), ("short chunk.merge", &h)] {
                let a = s.accessors();
                if let (Some(m0), Some(x)) = (mean0, get(&a, "mean")) { out.x(scl_close(x, m0, 1e-5, mag), || format!("{}: {} at count {}: mean {:?}, was {:?}", E::NAME, nm, nn, x, m0)); }
                if let (Some(v0), Some(x)) = (popvar0, get(&a, "popvar")) { out.x(scl_close(x, v0, 1e-4, mag * mag), || format!("{}: {} at count {}: variance {:?}, was {:?}", E::NAME, nm, nn, x, v0)); }
                if let (Some(k0), Some(x)) = (kurt0.filter(|k| k.is_finite()), get(&a, "kurt")) { out.x(rel_close(x, k0, 1e-3), || format!("{}: {} at count {}: kurtosis {:?}, was {:?}", E::NAME, nm, nn, x, k0)); }
                if let (Some(k0), Some(x)) = (skew0.filter(|k| k.is_finite()), get(&a, "skew")) { out.x(rel_close(x, k0, 1e-3), || format!("{}: {} at count {}: skewness {:?}, was {:?}", E::NAME, nm, nn, x, k0)); }
            }
        }
    }
    out.note(&format!("{}:huge-counts", E::NAME));
}

/// bases for estimators of order two only: a far outlier added at a huge count, data at the top of C17's range
pub const HUGE_BASES_VAR: &[(&[f64], &[f64])] = &[
    (&[1.0, 2.0, 4.0, 8.0], &[2e148]),
    (&[-3.0, 1.5, 2.0, 7.0, 11.0], &[-1e150]),
    (&[3e-140, 1e-140, -2e-140], &[1e-145]),
];
/// the same at scales where powers of the data are large or tiny (orders up to four stay representable)
pub const HUGE_BASES_SCALED: &[(&[f64], &[f64])] = &[
    (&[1e66, 2e66, 4e66, 8e66], &[3e66, 5e66]),
    (&[-3e-70, 1.5e-70, 2e-70, 7e-70, 11e-70], &[2e-70, 4e-70, 6e-70]),
];
pub const HUGE_BASES: &[(&[f64], &[f64])] = &[
    (&[1.0, 2.0, 4.0, 8.0], &[3.0, 5.0]),
    (&[0.0, 0.0, 0.0, 1.0], &[0.25]),
    (&[-3.0, 1.5, 2.0, 7.0, 11.0], &[2.0, 4.0, 6.0]),
    (&[2.5], &[2.5]),
];
