//! Building blocks shared by the property generators.
use crate::est::*;
use crate::obs::*;
use crate::out::Out;
use crate::rng::Rng;

#[derive(Clone, Debug)]
pub enum Tree { Leaf(Vec<f64>), Node(Box<Tree>, Box<Tree>) }
impl Tree {
    pub fn flatten(&self) -> Vec<f64> {
        match self { Tree::Leaf(v) => v.clone(), Tree::Node(l, r) => { let mut a = l.flatten(); a.extend(r.flatten()); a } }
    }
    pub fn shape(&self) -> String {
        match self { Tree::Leaf(v) => format!("{}", v.len()), Tree::Node(l, r) => format!("({} {})", l.shape(), r.shape()) }
    }
    pub fn leaves(&self) -> usize { match self { Tree::Leaf(_) => 1, Tree::Node(l, r) => l.leaves() + r.leaves() } }
}

/// how much of a stream of adds is written out as correspondence lines
#[derive(Clone, Copy)]
pub enum Trace { All, Sparse, None }

pub fn fws(v: &[f64]) -> String { v.iter().map(|x| fw(*x)).collect::<Vec<_>>().join(" ") }

/// add the observations one at a time, emitting `T <ty> add` lines
pub fn feed<E: Est>(out: &mut Out, e: &mut E, xs: &[f64], trace: Trace, rng: &mut Rng) {
    let n = xs.len();
    for (i, x) in xs.iter().enumerate() {
        let emit = match trace {
            Trace::All => true,
            Trace::Sparse => i < 6 || i + 3 >= n || rng.below(n) < 24,
            Trace::None => false,
        };
        if emit && out.active {
            let pre = words(e);
            e.add(*x);
            out.t(E::NAME, "add", &pre, &fw(*x), &words(e));
        } else {
            e.add(*x);
        }
    }
}

/// emit one `T` line per accessor and return the observations
pub fn observe<E: Est>(out: &mut Out, e: &E) -> Vec<Acc> {
    let accs = e.accessors();
    if out.active {
        let pre = words(e);
        for a in &accs { out.t(E::NAME, &a.op, &pre, "", &a.val.word()); }
    }
    accs
}

/// `O mom` line: the data and every statistic that has an exact counterpart
pub fn oracle_mom(out: &mut Out, data: &[f64], accs: &[Acc], allow: &dyn Fn(&str) -> bool) {
    if !out.active || data.is_empty() { return; }
    let mut stats = Vec::new();
    for a in accs {
        if a.stat.is_empty() || !allow(a.stat) { continue; }
        match &a.val {
            Val::F(x) => {
                // statistics that are documented NaN / panic for this sample size are not envelope material
                if x.is_nan() && nan_expected(a.stat, data) { continue; }
                stats.push(format!("{}={}", a.stat, fw(*x)));
            }
            Val::I(i) => stats.push(format!("{}={}", a.stat, iw(*i))),
            Val::Panic => { if !panic_expected(a.stat, data) { stats.push(format!("{}=panic", a.stat)); } }
            _ => {}
        }
    }
    out.o("mom", &[&fws(data), &stats.join(" ")]);
}

/// sample sizes / spreads for which the documented result is NaN (checked by C16, skipped here)
pub fn nan_expected(stat: &str, data: &[f64]) -> bool {
    let n = data.len();
    let flat = !crate::data::spread_nonzero(data);
    match stat {
        "samplevar" => n < 2,
        "sexkurt" => n < 4 || flat,
        "sskew" => n < 2 || flat,
        "skew" | "kurt" => false,
        s if s.starts_with("sm") => flat,
        _ => false,
    }
}
pub fn panic_expected(stat: &str, data: &[f64]) -> bool {
    stat.starts_with("sm") && !crate::data::spread_nonzero(data)
}

/// evaluate a merge tree with real estimators, emitting `T <ty> merge` lines
pub fn eval_tree<E: Est>(out: &mut Out, t: &Tree, trace: Trace, rng: &mut Rng) -> E {
    match t {
        Tree::Leaf(v) => { let mut e = E::new(); feed(out, &mut e, v, trace, rng); e }
        Tree::Node(l, r) => {
            let mut a: E = eval_tree(out, l, trace, rng);
            let b: E = eval_tree(out, r, trace, rng);
            let (pa, pb) = (words(&a), words(&b));
            a.merge(&b);
            out.t(E::NAME, "merge", &pa, &pb, &words(&a));
            a
        }
    }
}

/// all ways to cut `n` items into `k` contiguous, possibly empty chunks (as cut positions)
pub fn compositions(n: usize, k: usize) -> Vec<Vec<usize>> {
    fn rec(n: usize, k: usize, start: usize, cur: &mut Vec<usize>, acc: &mut Vec<Vec<usize>>) {
        if cur.len() == k - 1 { acc.push(cur.clone()); return; }
        for c in start..=n { cur.push(c); rec(n, k, c, cur, acc); cur.pop(); }
    }
    let mut acc = Vec::new();
    rec(n, k, 0, &mut Vec::new(), &mut acc);
    acc
}

/// all binary trees over the leaves `lo..hi` (indices into chunks)
pub fn all_trees(chunks: &[Vec<f64>]) -> Vec<Tree> {
    if chunks.len() == 1 { return vec![Tree::Leaf(chunks[0].clone())]; }
    let mut acc = Vec::new();
    for split in 1..chunks.len() {
        for l in all_trees(&chunks[..split]) {
            for r in all_trees(&chunks[split..]) {
                acc.push(Tree::Node(Box::new(l.clone()), Box::new(r.clone())));
            }
        }
    }
    acc
}

pub fn chunks_of(data: &[f64], cuts: &[usize]) -> Vec<Vec<f64>> {
    let mut v = Vec::new();
    let mut prev = 0;
    for c in cuts { v.push(data[prev..*c].to_vec()); prev = *c; }
    v.push(data[prev..].to_vec());
    v
}

/// a random tree over random contiguous chunks
pub fn random_tree(rng: &mut Rng, data: &[f64], k: usize, style: usize) -> Tree {
    let n = data.len();
    let mut cuts: Vec<usize> = (0..k.saturating_sub(1)).map(|_| rng.below(n + 1)).collect();
    cuts.sort();
    let chunks = chunks_of(data, &cuts);
    fn build(rng: &mut Rng, ch: &[Vec<f64>], style: usize) -> Tree {
        if ch.len() == 1 { return Tree::Leaf(ch[0].clone()); }
        let split = match style { 0 => ch.len() / 2, 1 => 1, 2 => ch.len() - 1, _ => 1 + rng.below(ch.len() - 1) };
        let split = split.max(1).min(ch.len() - 1);
        Tree::Node(Box::new(build(rng, &ch[..split], style)), Box::new(build(rng, &ch[split..], style)))
    }
    build(rng, &chunks, style)
}

/// chunkings built to hit "fast paths": chunks with bit-equal means, symmetric chunks (third moment 0),
/// constant chunks, an observation equal to the running mean, at ordinary, offset and tiny scales
pub fn special_trees() -> Vec<Tree> {
    let base: Vec<Vec<Vec<f64>>> = vec![
        vec![vec![1.0, 3.0], vec![2.0]],
        vec![vec![2.0], vec![1.0, 3.0]],
        vec![vec![1.0, 6.0], vec![2.0, 5.0], vec![3.0, 4.0]],
        vec![vec![1.0, 7.0, 4.0], vec![2.0, 6.0, 3.0, 5.0]],
        vec![vec![0.0, 4.0], vec![1.0, 3.0]],
        vec![vec![5.0, 5.0], vec![5.0], vec![5.0, 5.0, 5.0]],
        vec![vec![1.0, 2.0], vec![5.0, 7.0]],
        vec![vec![1.0, 2.0, 3.0], vec![4.0, 5.0, 6.0]],
        vec![vec![1.0, 2.0], vec![3.0, 4.0], vec![5.0, 6.0], vec![7.0, 8.0]],
        vec![vec![1.0, 3.0, 2.0, 10.0]],
        vec![vec![0.0], vec![0.0, 0.0], vec![4.0, -4.0]],
        vec![vec![4.0, 6.0], vec![3.0, 7.0], vec![5.0]],
    ];
    let mut out = Vec::new();
    for (scale, off) in [(1.0, 0.0), (1.0, 1e9), (1e-18, 0.0), (1e-20, 0.0), (1e12, 0.0), (0.5, -1e6)] {
        for chunks in &base {
            let ch: Vec<Vec<f64>> = chunks.iter().map(|c| c.iter().map(|x| x * scale + off).collect()).collect();
            out.extend(all_trees(&ch));
        }
    }
    out
}
