//! xoshiro256** seeded by splitmix64: every random choice of the harness derives from one seed.
pub struct Rng { s: [u64; 4] }
impl Rng {
    pub fn new(seed: u64) -> Rng {
        let mut z = seed.wrapping_add(0x9e3779b97f4a7c15);
        let mut s = [0u64; 4];
        for v in s.iter_mut() {
            z = z.wrapping_add(0x9e3779b97f4a7c15);
            let mut x = z;
            x = (x ^ (x >> 30)).wrapping_mul(0xbf58476d1ce4e5b9);
            x = (x ^ (x >> 27)).wrapping_mul(0x94d049bb133111eb);
            *v = x ^ (x >> 31);
        }
        Rng { s }
    }
    pub fn fork(&mut self, tag: u64) -> Rng { Rng::new(self.next_u64() ^ tag.wrapping_mul(0x2545f4914f6cdd1d)) }
    pub fn next_u64(&mut self) -> u64 {
        let r = self.s[1].wrapping_mul(5).rotate_left(7).wrapping_mul(9);
        let t = self.s[1] << 17;
        self.s[2] ^= self.s[0]; self.s[3] ^= self.s[1]; self.s[1] ^= self.s[2]; self.s[0] ^= self.s[3];
        self.s[2] ^= t; self.s[3] = self.s[3].rotate_left(45);
        r
    }
    /// uniform in [0,1)
    pub fn unit(&mut self) -> f64 { (self.next_u64() >> 11) as f64 / (1u64 << 53) as f64 }
    pub fn below(&mut self, n: usize) -> usize { (self.next_u64() % (n as u64)) as usize }
    pub fn range(&mut self, lo: f64, hi: f64) -> f64 { lo + (hi - lo) * self.unit() }
    pub fn normal(&mut self) -> f64 {
        let mut s = 0.0; for _ in 0..12 { s += self.unit(); } s - 6.0
    }
    pub fn pick<'a, T>(&mut self, v: &'a [T]) -> &'a T { &v[self.below(v.len())] }
    pub fn shuffle<T>(&mut self, v: &mut [T]) {
        for i in (1..v.len()).rev() { let j = self.below(i + 1); v.swap(i, j); }
    }
}
