//! A second serde format for the round-trip checks: positional (field names are not written), not
//! self-describing and not human readable - the opposite of JSON in every respect that a hand-written
//! `Serialize` / `Deserialize` / `serde(with = ..)` can depend on. Little-endian fixed-width scalars, u64 length
//! prefixes for sequences, maps and strings, a one-byte tag for options, a u32 index for enum variants.
use serde::de::{self, DeserializeSeed, EnumAccess, IntoDeserializer, MapAccess, SeqAccess, VariantAccess, Visitor};
use serde::ser::{self, Serialize};
use serde::Deserialize;
use std::fmt;

#[derive(Debug)]
pub struct Error(pub String);
impl fmt::Display for Error { fn fmt(&self, f: &mut fmt::Formatter) -> fmt::Result { write!(f, "{}", self.0) } }
impl std::error::Error for Error {}
impl ser::Error for Error { fn custom<T: fmt::Display>(m: T) -> Self { Error(m.to_string()) } }
impl de::Error for Error { fn custom<T: fmt::Display>(m: T) -> Self { Error(m.to_string()) } }

pub fn to_bytes<T: Serialize>(v: &T) -> Result<Vec<u8>, Error> {
    let mut s = Ser { out: Vec::new() };
    v.serialize(&mut s)?;
    Ok(s.out)
}
pub fn from_bytes<'a, T: Deserialize<'a>>(b: &'a [u8]) -> Result<T, Error> {
    let mut d = De { inp: b };
    let v = T::deserialize(&mut d)?;
    if d.inp.is_empty() { Ok(v) } else { Err(Error(format!("{} trailing bytes", d.inp.len()))) }
}

pub struct Ser { out: Vec<u8> }

macro_rules! ser_le { ($name:ident, $t:ty) => { fn $name(self, v: $t) -> Result<(), Error> { self.out.extend_from_slice(&v.to_le_bytes()); Ok(()) } }; }

impl<'a> ser::Serializer for &'a mut Ser {
    type Ok = (); type Error = Error;
    type SerializeSeq = Self; type SerializeTuple = Self; type SerializeTupleStruct = Self; type SerializeTupleVariant = Self;
    type SerializeMap = Self; type SerializeStruct = Self; type SerializeStructVariant = Self;
    fn is_human_readable(&self) -> bool { false }
    fn serialize_bool(self, v: bool) -> Result<(), Error> { self.out.push(v as u8); Ok(()) }
    ser_le!(serialize_i8, i8); ser_le!(serialize_i16, i16); ser_le!(serialize_i32, i32); ser_le!(serialize_i64, i64);
    ser_le!(serialize_u8, u8); ser_le!(serialize_u16, u16); ser_le!(serialize_u32, u32); ser_le!(serialize_u64, u64);
    ser_le!(serialize_i128, i128); ser_le!(serialize_u128, u128);
    fn serialize_f32(self, v: f32) -> Result<(), Error> { self.out.extend_from_slice(&v.to_bits().to_le_bytes()); Ok(()) }
    fn serialize_f64(self, v: f64) -> Result<(), Error> { self.out.extend_from_slice(&v.to_bits().to_le_bytes()); Ok(()) }
    fn serialize_char(self, v: char) -> Result<(), Error> { self.serialize_u32(v as u32) }
    fn serialize_str(self, v: &str) -> Result<(), Error> { self.serialize_bytes(v.as_bytes()) }
    fn serialize_bytes(self, v: &[u8]) -> Result<(), Error> { self.out.extend_from_slice(&(v.len() as u64).to_le_bytes()); self.out.extend_from_slice(v); Ok(()) }
    fn serialize_none(self) -> Result<(), Error> { self.out.push(0); Ok(()) }
    fn serialize_some<T: ?Sized + Serialize>(self, v: &T) -> Result<(), Error> { self.out.push(1); v.serialize(self) }
    fn serialize_unit(self) -> Result<(), Error> { Ok(()) }
    fn serialize_unit_struct(self, _: &'static str) -> Result<(), Error> { Ok(()) }
    fn serialize_unit_variant(self, _: &'static str, i: u32, _: &'static str) -> Result<(), Error> { self.serialize_u32(i) }
    fn serialize_newtype_struct<T: ?Sized + Serialize>(self, _: &'static str, v: &T) -> Result<(), Error> { v.serialize(self) }
    fn serialize_newtype_variant<T: ?Sized + Serialize>(self, _: &'static str, i: u32, _: &'static str, v: &T) -> Result<(), Error> { self.out.extend_from_slice(&i.to_le_bytes()); v.serialize(self) }
    fn serialize_seq(self, len: Option<usize>) -> Result<Self, Error> {
        let n = len.ok_or_else(|| Error("sequence of unknown length".into()))?;
        self.out.extend_from_slice(&(n as u64).to_le_bytes()); Ok(self)
    }
    fn serialize_tuple(self, _: usize) -> Result<Self, Error> { Ok(self) }
    fn serialize_tuple_struct(self, _: &'static str, _: usize) -> Result<Self, Error> { Ok(self) }
    fn serialize_tuple_variant(self, _: &'static str, i: u32, _: &'static str, _: usize) -> Result<Self, Error> { self.out.extend_from_slice(&i.to_le_bytes()); Ok(self) }
    fn serialize_map(self, len: Option<usize>) -> Result<Self, Error> {
        let n = len.ok_or_else(|| Error("map of unknown length".into()))?;
        self.out.extend_from_slice(&(n as u64).to_le_bytes()); Ok(self)
    }
    fn serialize_struct(self, _: &'static str, _: usize) -> Result<Self, Error> { Ok(self) }
    fn serialize_struct_variant(self, _: &'static str, i: u32, _: &'static str, _: usize) -> Result<Self, Error> { self.out.extend_from_slice(&i.to_le_bytes()); Ok(self) }
}
impl<'a> ser::SerializeSeq for &'a mut Ser { type Ok = (); type Error = Error;
    fn serialize_element<T: ?Sized + Serialize>(&mut self, v: &T) -> Result<(), Error> { v.serialize(&mut **self) } fn end(self) -> Result<(), Error> { Ok(()) } }
impl<'a> ser::SerializeTuple for &'a mut Ser { type Ok = (); type Error = Error;
    fn serialize_element<T: ?Sized + Serialize>(&mut self, v: &T) -> Result<(), Error> { v.serialize(&mut **self) } fn end(self) -> Result<(), Error> { Ok(()) } }
impl<'a> ser::SerializeTupleStruct for &'a mut Ser { type Ok = (); type Error = Error;
    fn serialize_field<T: ?Sized + Serialize>(&mut self, v: &T) -> Result<(), Error> { v.serialize(&mut **self) } fn end(self) -> Result<(), Error> { Ok(()) } }
impl<'a> ser::SerializeTupleVariant for &'a mut Ser { type Ok = (); type Error = Error;
    fn serialize_field<T: ?Sized + Serialize>(&mut self, v: &T) -> Result<(), Error> { v.serialize(&mut **self) } fn end(self) -> Result<(), Error> { Ok(()) } }
impl<'a> ser::SerializeMap for &'a mut Ser { type Ok = (); type Error = Error;
    fn serialize_key<T: ?Sized + Serialize>(&mut self, k: &T) -> Result<(), Error> { k.serialize(&mut **self) }
    fn serialize_value<T: ?Sized + Serialize>(&mut self, v: &T) -> Result<(), Error> { v.serialize(&mut **self) } fn end(self) -> Result<(), Error> { Ok(()) } }
impl<'a> ser::SerializeStruct for &'a mut Ser { type Ok = (); type Error = Error;
    fn serialize_field<T: ?Sized + Serialize>(&mut self, _: &'static str, v: &T) -> Result<(), Error> { v.serialize(&mut **self) } fn end(self) -> Result<(), Error> { Ok(()) } }
impl<'a> ser::SerializeStructVariant for &'a mut Ser { type Ok = (); type Error = Error;
    fn serialize_field<T: ?Sized + Serialize>(&mut self, _: &'static str, v: &T) -> Result<(), Error> { v.serialize(&mut **self) } fn end(self) -> Result<(), Error> { Ok(()) } }

pub struct De<'de> { inp: &'de [u8] }
impl<'de> De<'de> {
    fn take(&mut self, n: usize) -> Result<&'de [u8], Error> {
        if self.inp.len() < n { return Err(Error("unexpected end of input".into())); }
        let (a, b) = self.inp.split_at(n); self.inp = b; Ok(a)
    }
    fn u64_(&mut self) -> Result<u64, Error> { let b = self.take(8)?; Ok(u64::from_le_bytes(b.try_into().unwrap())) }
    fn u32_(&mut self) -> Result<u32, Error> { let b = self.take(4)?; Ok(u32::from_le_bytes(b.try_into().unwrap())) }
    fn len_(&mut self) -> Result<usize, Error> { let n = self.u64_()?; if n > (1 << 32) { Err(Error("implausible length".into())) } else { Ok(n as usize) } }
}

macro_rules! de_le { ($name:ident, $visit:ident, $t:ty, $n:expr) => {
    fn $name<V: Visitor<'de>>(self, v: V) -> Result<V::Value, Error> { let b = self.take($n)?; v.$visit(<$t>::from_le_bytes(b.try_into().unwrap())) } }; }

impl<'de, 'a> de::Deserializer<'de> for &'a mut De<'de> {
    type Error = Error;
    fn is_human_readable(&self) -> bool { false }
    fn deserialize_any<V: Visitor<'de>>(self, _: V) -> Result<V::Value, Error> { Err(Error("this format is not self-describing".into())) }
    fn deserialize_ignored_any<V: Visitor<'de>>(self, _: V) -> Result<V::Value, Error> { Err(Error("this format is not self-describing".into())) }
    fn deserialize_bool<V: Visitor<'de>>(self, v: V) -> Result<V::Value, Error> { let b = self.take(1)?[0]; match b { 0 => v.visit_bool(false), 1 => v.visit_bool(true), _ => Err(Error("bad bool".into())) } }
    de_le!(deserialize_i8, visit_i8, i8, 1); de_le!(deserialize_i16, visit_i16, i16, 2); de_le!(deserialize_i32, visit_i32, i32, 4); de_le!(deserialize_i64, visit_i64, i64, 8);
    de_le!(deserialize_u8, visit_u8, u8, 1); de_le!(deserialize_u16, visit_u16, u16, 2); de_le!(deserialize_u32, visit_u32, u32, 4); de_le!(deserialize_u64, visit_u64, u64, 8);
    de_le!(deserialize_i128, visit_i128, i128, 16); de_le!(deserialize_u128, visit_u128, u128, 16);
    fn deserialize_f32<V: Visitor<'de>>(self, v: V) -> Result<V::Value, Error> { let b = self.u32_()?; v.visit_f32(f32::from_bits(b)) }
    fn deserialize_f64<V: Visitor<'de>>(self, v: V) -> Result<V::Value, Error> { let b = self.u64_()?; v.visit_f64(f64::from_bits(b)) }
    fn deserialize_char<V: Visitor<'de>>(self, v: V) -> Result<V::Value, Error> { let c = self.u32_()?; v.visit_char(char::from_u32(c).ok_or_else(|| Error("bad char".into()))?) }
    fn deserialize_str<V: Visitor<'de>>(self, v: V) -> Result<V::Value, Error> { let n = self.len_()?; let b = self.take(n)?; v.visit_borrowed_str(std::str::from_utf8(b).map_err(|e| Error(e.to_string()))?) }
    fn deserialize_string<V: Visitor<'de>>(self, v: V) -> Result<V::Value, Error> { self.deserialize_str(v) }
    fn deserialize_bytes<V: Visitor<'de>>(self, v: V) -> Result<V::Value, Error> { let n = self.len_()?; let b = self.take(n)?; v.visit_borrowed_bytes(b) }
    fn deserialize_byte_buf<V: Visitor<'de>>(self, v: V) -> Result<V::Value, Error> { self.deserialize_bytes(v) }
    fn deserialize_option<V: Visitor<'de>>(self, v: V) -> Result<V::Value, Error> { match self.take(1)?[0] { 0 => v.visit_none(), 1 => v.visit_some(self), _ => Err(Error("bad option tag".into())) } }
    fn deserialize_unit<V: Visitor<'de>>(self, v: V) -> Result<V::Value, Error> { v.visit_unit() }
    fn deserialize_unit_struct<V: Visitor<'de>>(self, _: &'static str, v: V) -> Result<V::Value, Error> { v.visit_unit() }
    fn deserialize_newtype_struct<V: Visitor<'de>>(self, _: &'static str, v: V) -> Result<V::Value, Error> { v.visit_newtype_struct(self) }
    fn deserialize_seq<V: Visitor<'de>>(self, v: V) -> Result<V::Value, Error> { let n = self.len_()?; v.visit_seq(Counted { de: self, left: n }) }
    fn deserialize_tuple<V: Visitor<'de>>(self, n: usize, v: V) -> Result<V::Value, Error> { v.visit_seq(Counted { de: self, left: n }) }
    fn deserialize_tuple_struct<V: Visitor<'de>>(self, _: &'static str, n: usize, v: V) -> Result<V::Value, Error> { v.visit_seq(Counted { de: self, left: n }) }
    fn deserialize_map<V: Visitor<'de>>(self, v: V) -> Result<V::Value, Error> { let n = self.len_()?; v.visit_map(Counted { de: self, left: n }) }
    fn deserialize_struct<V: Visitor<'de>>(self, _: &'static str, fields: &'static [&'static str], v: V) -> Result<V::Value, Error> { v.visit_seq(Counted { de: self, left: fields.len() }) }
    fn deserialize_enum<V: Visitor<'de>>(self, _: &'static str, _: &'static [&'static str], v: V) -> Result<V::Value, Error> { v.visit_enum(self) }
    fn deserialize_identifier<V: Visitor<'de>>(self, _: V) -> Result<V::Value, Error> { Err(Error("field identifiers are not written in this format".into())) }
}

struct Counted<'a, 'de> { de: &'a mut De<'de>, left: usize }
impl<'a, 'de> SeqAccess<'de> for Counted<'a, 'de> {
    type Error = Error;
    fn next_element_seed<T: DeserializeSeed<'de>>(&mut self, seed: T) -> Result<Option<T::Value>, Error> {
        if self.left == 0 { return Ok(None); }
        self.left -= 1;
        seed.deserialize(&mut *self.de).map(Some)
    }
    fn size_hint(&self) -> Option<usize> { Some(self.left) }
}
impl<'a, 'de> MapAccess<'de> for Counted<'a, 'de> {
    type Error = Error;
    fn next_key_seed<K: DeserializeSeed<'de>>(&mut self, seed: K) -> Result<Option<K::Value>, Error> {
        if self.left == 0 { return Ok(None); }
        self.left -= 1;
        seed.deserialize(&mut *self.de).map(Some)
    }
    fn next_value_seed<V: DeserializeSeed<'de>>(&mut self, seed: V) -> Result<V::Value, Error> { seed.deserialize(&mut *self.de) }
}
impl<'a, 'de> EnumAccess<'de> for &'a mut De<'de> {
    type Error = Error; type Variant = Self;
    fn variant_seed<V: DeserializeSeed<'de>>(self, seed: V) -> Result<(V::Value, Self), Error> {
        let i = self.u32_()?;
        let val = seed.deserialize(i.into_deserializer())?;
        Ok((val, self))
    }
}
impl<'a, 'de> VariantAccess<'de> for &'a mut De<'de> {
    type Error = Error;
    fn unit_variant(self) -> Result<(), Error> { Ok(()) }
    fn newtype_variant_seed<T: DeserializeSeed<'de>>(self, seed: T) -> Result<T::Value, Error> { seed.deserialize(self) }
    fn tuple_variant<V: Visitor<'de>>(self, n: usize, v: V) -> Result<V::Value, Error> { de::Deserializer::deserialize_tuple(self, n, v) }
    fn struct_variant<V: Visitor<'de>>(self, fields: &'static [&'static str], v: V) -> Result<V::Value, Error> { de::Deserializer::deserialize_tuple(self, fields.len(), v) }
}
