//! Observation of estimator state through `Debug` (every estimator derives or implements it and
//! prints every field; `{:?}` of an f64 is the shortest string that parses back to the same bits).
use std::fmt::Debug;

pub fn fw(x: f64) -> String {
    if x.is_nan() { "7ff8000000000000".to_string() } else { format!("{:016x}", x.to_bits()) }
}
pub fn iw<T: Into<i128>>(n: T) -> String { format!("i{}", n.into()) }
pub fn bw(b: bool) -> String { if b { "b1".into() } else { "b0".into() } }

/// numeric tokens of a Debug rendering, in order, as protocol words
pub fn words_of_debug(s: &str) -> Vec<String> {
    let mut out = Vec::new();
    let cleaned: String = s.chars().map(|c| if "{}[](),:".contains(c) { ' ' } else { c }).collect();
    for tok in cleaned.split_whitespace() {
        let first = tok.chars().next().unwrap();
        let numeric_start = first.is_ascii_digit() || first == '-' || tok == "NaN" || tok == "inf";
        if !numeric_start { continue; }
        let is_int = tok.chars().enumerate().all(|(i, c)| c.is_ascii_digit() || (i == 0 && c == '-')) && tok != "-";
        if is_int {
            if let Ok(v) = tok.parse::<i64>() { out.push(iw(v)); continue; }
            if let Ok(v) = tok.parse::<u64>() { out.push(format!("i{}", v)); continue; }
        }
        if let Ok(v) = tok.parse::<f64>() { out.push(fw(v)); }
    }
    out
}

pub fn words<T: Debug>(t: &T) -> String { words_of_debug(&format!("{:?}", t)).join(" ") }

/// f64 fields of a state, for finiteness checks
pub fn floats_of<T: Debug>(t: &T) -> Vec<f64> {
    let s = format!("{:?}", t);
    let cleaned: String = s.chars().map(|c| if "{}[](),:".contains(c) { ' ' } else { c }).collect();
    let mut out = Vec::new();
    for tok in cleaned.split_whitespace() {
        let first = tok.chars().next().unwrap();
        if !(first.is_ascii_digit() || first == '-' || tok == "NaN" || tok == "inf") { continue; }
        let is_int = tok.chars().enumerate().all(|(i, c)| c.is_ascii_digit() || (i == 0 && c == '-'));
        if is_int { continue; }
        if let Ok(v) = tok.parse::<f64>() { out.push(v); }
    }
    out
}
