//! Emission of protocol lines.
use std::collections::BTreeMap;
use std::io::{BufWriter, Write};

/// case tag: `c` for the stable release build, `k` for the nightly build (histogram_const), `d` for the dev-profile
/// build (debug assertions and overflow checks of the crate enabled; thorough tier)
pub const TAG: char = if cfg!(feature = "nightly") { 'k' } else if cfg!(debug_assertions) { 'd' } else { 'c' };

pub struct Out {
    w: BufWriter<std::io::Stdout>,
    pub case: u64,
    pub only: Option<u64>,
    pub active: bool,
    pub x_ok: u64,
    pub x_fail: u64,
    pub dist: BTreeMap<String, u64>,
    pub prop: String,
}

impl Out {
    pub fn new(prop: &str, only: Option<u64>) -> Out {
        Out { w: BufWriter::with_capacity(1 << 20, std::io::stdout()), case: 0, only, active: true, x_ok: 0, x_fail: 0, dist: BTreeMap::new(), prop: prop.to_string() }
    }
    /// start a new case
    pub fn next_case(&mut self) -> bool {
        self.case += 1;
        self.active = match self.only { Some(c) => c == self.case, None => true };
        // always run the case (so that every random choice is consumed exactly as in the full run and a replay
        // with --only regenerates the very same case); only the output of the other cases is suppressed
        true
    }
    pub fn note(&mut self, key: &str) { if self.active { *self.dist.entry(key.to_string()).or_insert(0) += 1; } }
    pub fn t(&mut self, ty: &str, op: &str, pre: &str, args: &str, res: &str) {
        if !self.active { return; }
        writeln!(self.w, "T {} {} | {} | {} | {} #{}{}", ty, op, pre, args, res, TAG, self.case).unwrap();
    }
    pub fn o(&mut self, kind: &str, sections: &[&str]) {
        if !self.active { return; }
        let mut s = format!("O {}", kind);
        for sec in sections { s.push_str(" | "); s.push_str(sec); }
        writeln!(self.w, "{} #{}{}", s, TAG, self.case).unwrap();
    }
    /// an oracle evaluated in the harness itself (bit-for-bit comparisons between implementation runs)
    pub fn x<F: FnOnce() -> String>(&mut self, cond: bool, msg: F) {
        if !self.active { return; }
        if cond { self.x_ok += 1; } else {
            self.x_fail += 1;
            writeln!(self.w, "X {} FAIL {} #{}{}", self.prop, msg(), TAG, self.case).unwrap();
        }
    }
    /// like `x`, for a violation that belongs to a recorded known finding (KNOWN_FINDINGS.txt, `key=`)
    pub fn x_known<F: FnOnce() -> String>(&mut self, cond: bool, key: &str, msg: F) {
        if !self.active { return; }
        if cond { self.x_ok += 1; } else {
            writeln!(self.w, "X {} KNOWN {} {} #{}{}", self.prop, key, msg(), TAG, self.case).unwrap();
        }
    }
    /// in a single-case replay (`--only`), record the merge tree of the case so that it can be minimised
    pub fn tree_comment(&mut self, ty: &str, enc: &dyn Fn() -> String, n: usize) {
        if self.active && self.only.is_some() && n <= 5000 { let e = enc(); writeln!(self.w, "# tree {} {}", ty, e).unwrap(); }
    }
    pub fn comment(&mut self, s: &str) { if self.active { writeln!(self.w, "# {}", s).unwrap(); } }
    pub fn finish(mut self) {
        writeln!(self.w, "X {} TALLY ok={} fail={} cases={}", self.prop, self.x_ok, self.x_fail, self.case).unwrap();
        let d: Vec<String> = self.dist.iter().map(|(k, v)| format!("{}={}", k, v)).collect();
        writeln!(self.w, "X {} DIST {}", self.prop, d.join(" ")).unwrap();
        self.w.flush().unwrap();
    }
}
