//! Structured data generators (the C01 input domain: |x| in {0} U [1e-30, 1e30], kappa <= 1e12).
use crate::rng::Rng;

pub const FAMILIES: &[&str] = &[
    "uniform", "normal", "exp_pos", "exp_neg", "bimodal", "outlier", "two_point", "arith", "ties", "heavy",
];

/// a unit-scale sample of the given shape family (spread of order 1)
pub fn shape(rng: &mut Rng, family: &str, n: usize) -> Vec<f64> {
    let mut v = Vec::with_capacity(n);
    match family {
        "uniform" => for _ in 0..n { v.push(rng.unit() - 0.5) },
        "normal" => for _ in 0..n { v.push(rng.normal()) },
        "exp_pos" => for _ in 0..n { v.push(-(1.0 - rng.unit()).ln()) },
        "exp_neg" => for _ in 0..n { v.push((1.0 - rng.unit()).ln()) },
        "bimodal" => for _ in 0..n { v.push(if rng.unit() < 0.4 { -2.0 + 0.3 * rng.normal() } else { 3.0 + 0.2 * rng.normal() }) },
        "outlier" => { for _ in 0..n { v.push(0.1 * rng.normal()) } if n > 0 { let i = rng.below(n); v[i] = 25.0; } },
        "two_point" => { let q = rng.range(0.1, 0.9); for _ in 0..n { v.push(if rng.unit() < q { -1.0 } else { 2.0 }) } },
        "arith" => { let step = rng.range(0.5, 2.0); for i in 0..n { v.push(step * i as f64) } },
        "ties" => for _ in 0..n { v.push(rng.below(4) as f64) },
        "heavy" => for _ in 0..n { let z = rng.normal(); v.push(z * z * z) },
        _ => panic!("unknown family"),
    }
    v
}

/// scale by 10^mag and add an offset of `off` spreads (exact multiples are not needed)
pub fn place(v: &[f64], scale: f64, offset_spreads: f64) -> Vec<f64> {
    let off = offset_spreads * scale;
    v.iter().map(|x| clamp_domain(x * scale + off)).collect()
}

/// keep values inside {0} U [1e-30, 1e30] (the C01 domain)
pub fn clamp_domain(x: f64) -> f64 {
    let a = x.abs();
    if a == 0.0 { 0.0 } else if a < 1e-30 { 0.0 } else if a > 1e30 { 1e30f64.copysign(x) } else { x }
}

pub const OFFSETS: &[f64] = &[0.0, 1.0, 1e3, 1e6, 1e9, 3e11];

/// a data set from the C01 domain: random family, magnitude and conditioning
pub fn dataset(rng: &mut Rng, n: usize, max_offset: f64) -> (Vec<f64>, String) {
    dataset_in(rng, n, max_offset, -25.0, 25.0, FAMILIES)
}

pub fn dataset_in(rng: &mut Rng, n: usize, max_offset: f64, min_mag: f64, max_mag: f64, fams: &[&str]) -> (Vec<f64>, String) {
    let fam = *rng.pick(fams);
    let offs: Vec<f64> = OFFSETS.iter().cloned().filter(|o| *o <= max_offset).collect();
    let off = *rng.pick(&offs);
    // magnitude: keep |x| within the domain: scale*(off+30) <= 10^(max_mag+5)
    let hi = (max_mag + 5.0 - (off + 30.0).log10()).floor().min(max_mag);
    let hi = hi.max(min_mag);
    let mag = rng.range(min_mag, hi).round();
    let scale = 10f64.powi(mag as i32);
    let sign = if rng.unit() < 0.3 { -1.0 } else { 1.0 };
    let base = shape(rng, fam, n);
    let v = place(&base, scale, sign * off);
    (v, format!("{}:n{}:off{:e}:mag{}", fam, n, sign * off, mag))
}

pub fn spread_nonzero(v: &[f64]) -> bool { v.iter().any(|x| *x != v[0]) }
