//! C08 (WeightedMean, WeightedMeanWithError), C09 (Covariance), C14 (Min, Max).
use crate::common::*;
use crate::data::*;
use crate::est::*;
use crate::obs::*;
use crate::out::Out;
use crate::rng::Rng;
use average::{Covariance, Merge, WeightedMean, WeightedMeanWithError};

#[derive(Clone, Debug)]
pub enum PTree { Leaf(Vec<(f64, f64)>), Node(Box<PTree>, Box<PTree>) }
impl PTree {
    pub fn flatten(&self) -> Vec<(f64, f64)> {
        match self { PTree::Leaf(v) => v.clone(), PTree::Node(l, r) => { let mut a = l.flatten(); a.extend(r.flatten()); a } }
    }
}
impl PTree {
    /// the tree as a `Tree` over the interleaved words x w x w .. (for the textual encoding)
    pub fn interleaved(&self) -> Tree {
        match self { PTree::Leaf(v) => Tree::Leaf(v.iter().flat_map(|(a, b)| [*a, *b]).collect()), PTree::Node(l, r) => Tree::Node(Box::new(l.interleaved()), Box::new(r.interleaved())) }
    }
    pub fn from_interleaved(t: &Tree) -> PTree {
        match t { Tree::Leaf(v) => PTree::Leaf(v.chunks(2).filter(|c| c.len() == 2).map(|c| (c[0], c[1])).collect()), Tree::Node(l, r) => PTree::Node(Box::new(PTree::from_interleaved(l)), Box::new(PTree::from_interleaved(r))) }
    }
}
pub fn pws(v: &[(f64, f64)]) -> String { v.iter().map(|(a, b)| format!("{} {}", fw(*a), fw(*b))).collect::<Vec<_>>().join(" ") }

pub fn all_ptrees(chunks: &[Vec<(f64, f64)>]) -> Vec<PTree> {
    if chunks.len() == 1 { return vec![PTree::Leaf(chunks[0].clone())]; }
    let mut acc = Vec::new();
    for split in 1..chunks.len() {
        for l in all_ptrees(&chunks[..split]) { for r in all_ptrees(&chunks[split..]) { acc.push(PTree::Node(Box::new(l.clone()), Box::new(r.clone()))); } }
    }
    acc
}
pub fn pchunks(data: &[(f64, f64)], cuts: &[usize]) -> Vec<Vec<(f64, f64)>> {
    let mut v = Vec::new(); let mut prev = 0;
    for c in cuts { v.push(data[prev..*c].to_vec()); prev = *c; }
    v.push(data[prev..].to_vec()); v
}
pub fn random_ptree(rng: &mut Rng, data: &[(f64, f64)], k: usize, style: usize) -> PTree {
    let n = data.len();
    let mut cuts: Vec<usize> = (0..k.saturating_sub(1)).map(|_| rng.below(n + 1)).collect();
    cuts.sort();
    let chunks = pchunks(data, &cuts);
    fn build(rng: &mut Rng, ch: &[Vec<(f64, f64)>], style: usize) -> PTree {
        if ch.len() == 1 { return PTree::Leaf(ch[0].clone()); }
        let split = match style { 0 => ch.len() / 2, 1 => 1, 2 => ch.len() - 1, _ => 1 + rng.below(ch.len() - 1) };
        let split = split.max(1).min(ch.len() - 1);
        PTree::Node(Box::new(build(rng, &ch[..split], style)), Box::new(build(rng, &ch[split..], style)))
    }
    build(rng, &chunks, style)
}

// ---------------------------------------------------------------- weighted

pub trait PairEst: Clone + std::fmt::Debug + Default {
    const NAME: &'static str;
    fn new() -> Self;
    fn add(&mut self, a: f64, b: f64);
    fn merge(&mut self, o: &Self);
    fn accessors(&self) -> Vec<Acc>;
    fn from_iter_val(v: &[(f64, f64)]) -> Self;
    fn from_iter_ref(v: &[(f64, f64)]) -> Self;
    fn extend_val(&mut self, v: &[(f64, f64)]);
    fn extend_ref(&mut self, v: &[(f64, f64)]);
    fn from_iter_lazy(v: &[(f64, f64)]) -> Self;
    fn extend_lazy(&mut self, v: &[(f64, f64)]);
    fn extend_short_hint(&mut self, v: &[(f64, f64)]);
    fn from_iter_short_hint(v: &[(f64, f64)]) -> Self;
    fn extend_failing(&mut self, v: &[(f64, f64)], h: usize);
    fn roundtrip_json(&self) -> Option<Self>;
    fn roundtrip_bin(&self) -> Option<Self>;
}
fn acc(op: &str, stat: &'static str, val: Val) -> Acc { Acc { op: op.to_string(), stat, val } }

macro_rules! pair_ingest {
    () => {
        fn roundtrip_json(&self) -> Option<Self> { serde_json::to_string(self).ok().and_then(|js| serde_json::from_str(&js).ok()) }
        fn roundtrip_bin(&self) -> Option<Self> { crate::binfmt::to_bytes(self).ok().and_then(|b| crate::binfmt::from_bytes(&b).ok()) }
        fn from_iter_val(v: &[(f64, f64)]) -> Self { v.iter().cloned().collect() }
        fn from_iter_ref(v: &[(f64, f64)]) -> Self { v.iter().collect() }
        fn extend_val(&mut self, v: &[(f64, f64)]) { self.extend(v.iter().cloned()) }
        fn extend_ref(&mut self, v: &[(f64, f64)]) { self.extend(v.iter()) }
        fn from_iter_lazy(v: &[(f64, f64)]) -> Self { v.iter().filter(|_| true).collect() }
        fn extend_lazy(&mut self, v: &[(f64, f64)]) { self.extend(v.iter().cloned().filter(|_| true)) }
        fn extend_short_hint(&mut self, v: &[(f64, f64)]) {
            struct Short<'a>(std::slice::Iter<'a, (f64, f64)>, usize);
            impl<'a> Iterator for Short<'a> { type Item = (f64, f64); fn next(&mut self) -> Option<(f64, f64)> { self.0.next().cloned() } fn size_hint(&self) -> (usize, Option<usize>) { (self.1, Some(self.1)) } }
            self.extend(Short(v.iter(), v.len() / 2));
            }
        fn from_iter_short_hint(v: &[(f64, f64)]) -> Self {
            struct ShortR<'a>(std::slice::Iter<'a, (f64, f64)>, usize);
            impl<'a> Iterator for ShortR<'a> { type Item = &'a (f64, f64); fn next(&mut self) -> Option<&'a (f64, f64)> { self.0.next() } fn size_hint(&self) -> (usize, Option<usize>) { (self.1, Some(self.1)) } }
            ShortR(v.iter(), v.len() / 3).collect()
        }
        fn extend_failing(&mut self, v: &[(f64, f64)], h: usize) { let mut i = 0; self.extend(std::iter::from_fn(|| { if i == h { panic!("source failed") } let x = v[i]; i += 1; Some(x) })) }
    };
}

impl PairEst for WeightedMean {
    const NAME: &'static str = "WeightedMean";
    fn new() -> Self { WeightedMean::new() }
    fn add(&mut self, a: f64, b: f64) { WeightedMean::add(self, a, b) }
    fn merge(&mut self, o: &Self) { Merge::merge(self, o) }
    fn accessors(&self) -> Vec<Acc> {
        vec![acc("mean", "wmean", Val::F(self.mean())), acc("sum_weights", "sum_w", Val::F(self.sum_weights())), acc("is_empty", "", Val::B(self.is_empty()))]
    }
    pair_ingest!();
}
impl PairEst for WeightedMeanWithError {
    const NAME: &'static str = "WMWE";
    fn new() -> Self { WeightedMeanWithError::new() }
    fn add(&mut self, a: f64, b: f64) { WeightedMeanWithError::add(self, a, b) }
    fn merge(&mut self, o: &Self) { Merge::merge(self, o) }
    fn accessors(&self) -> Vec<Acc> {
        vec![acc("weighted_mean", "wmean", Val::F(self.weighted_mean())), acc("sum_weights", "sum_w", Val::F(self.sum_weights())),
             acc("sum_weights_sq", "sum_w_sq", Val::F(self.sum_weights_sq())), acc("effective_len", "eff_len", Val::F(self.effective_len())),
             acc("unweighted_mean", "umean", Val::F(self.unweighted_mean())), acc("len", "len", Val::I(self.len() as i128)),
             acc("is_empty", "", Val::B(self.is_empty())),
             acc("population_variance", "popvar", Val::F(self.population_variance())),
             acc("sample_variance", "samplevar", Val::F(self.sample_variance())),
             acc("variance_of_weighted_mean", "varwmean", Val::F(self.variance_of_weighted_mean())),
             acc("error", "werror", Val::F(self.error()))]
    }
    pair_ingest!();
}
impl PairEst for Covariance {
    const NAME: &'static str = "Covariance";
    fn new() -> Self { Covariance::new() }
    fn add(&mut self, a: f64, b: f64) { Covariance::add(self, a, b) }
    fn merge(&mut self, o: &Self) { Merge::merge(self, o) }
    fn accessors(&self) -> Vec<Acc> {
        vec![acc("len", "len", Val::I(self.len() as i128)), acc("is_empty", "", Val::B(self.is_empty())),
             acc("mean_x", "mean_x", Val::F(self.mean_x())), acc("mean_y", "mean_y", Val::F(self.mean_y())),
             acc("population_variance_x", "popvar_x", Val::F(self.population_variance_x())),
             acc("population_variance_y", "popvar_y", Val::F(self.population_variance_y())),
             acc("sample_variance_x", "samplevar_x", Val::F(self.sample_variance_x())),
             acc("sample_variance_y", "samplevar_y", Val::F(self.sample_variance_y())),
             acc("population_covariance", "popcov", Val::F(self.population_covariance())),
             acc("sample_covariance", "samplecov", Val::F(self.sample_covariance())),
             acc("pearson", "pearson", Val::F(self.pearson()))]
    }
    pair_ingest!();
}

/// the pair version of `common::feed_any`
pub fn pfeed_any<E: PairEst>(out: &mut Out, e: &mut E, xs: &[(f64, f64)], rng: &mut Rng) {
    let n = xs.len();
    let route = rng.below(11);
    let h = if n > 1 { rng.below(n) } else { 0 };
    if route == 8 {
        let r = std::panic::catch_unwind(std::panic::AssertUnwindSafe(|| e.extend_failing(xs, h)));
        out.x(r.is_err(), || "a panic inside the iterator handed to extend was swallowed".to_string());
        for (a, b) in &xs[h..] { e.add(*a, *b) }
        return;
    }
    if route == 9 { e.extend_short_hint(&xs[..h]); for (a, b) in &xs[h..] { e.add(*a, *b) } return; }
    if route == 10 { let mut f = E::from_iter_short_hint(&xs[..h]); std::mem::swap(e, &mut f); e.merge(&f); let _ = f; for (a, b) in &xs[h..] { e.add(*a, *b) } return; }
    let ident = |out: &mut Out, e: &mut E, which: usize| {
        let before = words(e);
        let copy = match which % 4 {
            0 => e.clone(),
            1 => { let mut t = E::default(); t.add(1.5, 2.0); t.clone_from(e); t }
            2 => e.roundtrip_json().unwrap_or_else(|| e.clone()),
            _ => match e.roundtrip_bin() { Some(r) => r, None => { out.x(false, || format!("{}: state {} does not survive a round trip through a positional binary serde format", E::NAME, before)); e.clone() } },
        };
        out.x(words(&copy) == before, || format!("{}: clone / clone_from / serde round trip (route {}) changed the state: {} -> {}", E::NAME, which % 4, before, words(&copy)));
        *e = copy;
    };
    match route {
        0 | 1 => for (a, b) in xs { e.add(*a, *b) },
        2 => e.extend_val(xs),
        3 => e.extend_ref(xs),
        4 => e.extend_lazy(xs),
        5 => { for (a, b) in &xs[..h] { e.add(*a, *b) } e.extend_ref(&xs[h..]); }
        6 => { e.extend_val(&xs[..h]); ident(out, e, h); for (a, b) in &xs[h..] { e.add(*a, *b) } }
        _ => { for (a, b) in &xs[..h] { e.add(*a, *b) } ident(out, e, h + 1); e.extend_lazy(&xs[h..]); }
    }
}

pub fn pfeed<E: PairEst>(out: &mut Out, e: &mut E, xs: &[(f64, f64)], trace: Trace, rng: &mut Rng) {
    let n = xs.len();
    if let Trace::None = trace { if n > 0 && n <= 20_000 { pfeed_any(out, e, xs, rng); return; } }
    for (i, (a, b)) in xs.iter().enumerate() {
        let emit = match trace { Trace::All => true, Trace::Sparse => i < 6 || i + 3 >= n || rng.below(n) < 24, Trace::None => false };
        if emit && out.active {
            let pre = words(e);
            e.add(*a, *b);
            out.t(E::NAME, "add", &pre, &format!("{} {}", fw(*a), fw(*b)), &words(e));
        } else { e.add(*a, *b); }
    }
}
pub fn pobserve<E: PairEst>(out: &mut Out, e: &E) -> Vec<Acc> {
    let accs = e.accessors();
    if out.active { let pre = words(e); for a in &accs { out.t(E::NAME, &a.op, &pre, "", &a.val.word()); } }
    accs
}
pub fn peval<E: PairEst>(out: &mut Out, t: &PTree, trace: Trace, rng: &mut Rng) -> E {
    match t {
        PTree::Leaf(v) => { let mut e = E::new(); pfeed(out, &mut e, v, trace, rng); e }
        PTree::Node(l, r) => {
            let mut a: E = peval(out, l, trace, rng);
            let b: E = peval(out, r, trace, rng);
            let (pa, pb) = (words(&a), words(&b));
            a.merge(&b);
            out.t(E::NAME, "merge", &pa, &pb, &words(&a));
            a
        }
    }
}

pub fn oracle_pairs_pub(out: &mut Out, kind: &str, data: &[(f64, f64)], accs: &[Acc]) { oracle_pairs(out, kind, data, accs) }

fn oracle_pairs(out: &mut Out, kind: &str, data: &[(f64, f64)], accs: &[Acc]) {
    if !out.active || data.is_empty() { return; }
    let n = data.len();
    let mut stats = Vec::new();
    for a in accs {
        if a.stat.is_empty() { continue; }
        match &a.val {
            Val::F(x) => {
                let needs2 = matches!(a.stat, "samplevar" | "samplevar_x" | "samplevar_y" | "samplecov" | "pearson" | "varwmean" | "werror");
                if needs2 && n < 2 { continue; }
                stats.push(format!("{}={}", a.stat, fw(*x)));
            }
            Val::I(i) => stats.push(format!("{}={}", a.stat, iw(*i))),
            _ => {}
        }
    }
    out.o(kind, &[&pws(data), &stats.join(" ")]);
}

/// number of weight patterns of `weights`
pub const WEIGHT_PATTERNS: usize = 10;

pub fn weights(rng: &mut Rng, n: usize, zero_pattern: usize) -> Vec<f64> {
    let mut w: Vec<f64> = (0..n).map(|_| if rng.unit() < 0.2 { 1.0 } else { 10f64.powf(rng.range(-6.0, 6.0)) }).collect();
    match zero_pattern {
        1 => if n > 0 { w[0] = 0.0 },                                   // first
        2 => for i in 0..(n / 3).max(1).min(n) { w[i] = 0.0 },          // prefix
        3 => for x in w.iter_mut() { if rng.unit() < 0.3 { *x = 0.0 } },  // scattered
        4 => if n > 0 { let i = rng.below(n); w[i] = 0.0 },
        5 => {                                                          // c(1 +- delta), deviations cancelling in pairs
            let delta = 2f64.powi(-*rng.pick(&[52, 45, 40, 30, 28, 27, 20, 10]));
            let c = *rng.pick(&[1.0, 1.0, 1.0, 0.5, 3.0]);
            for (i, x) in w.iter_mut().enumerate() { *x = if i + 1 == n && n % 2 == 1 { c } else if i % 2 == 0 { c * (1.0 + delta) } else { c * (1.0 - delta) }; }
        }
        6 => { let s = *rng.pick(&[1e-18, 1e-100, 2f64.powi(-60), 1e-30]); for x in w.iter_mut() { *x *= s; } }   // all tiny
        7 => { let s = *rng.pick(&[1e18, 1e100, 2f64.powi(200)]); for x in w.iter_mut() { *x *= s; } }              // all huge
        8 => { let c = *rng.pick(&[1.0, 0.5, 3.0, 1e-9, 1e-17]); for x in w.iter_mut() { *x = c; } }               // all equal
        9 => { for (i, x) in w.iter_mut().enumerate() { if i < (n + 1) / 2 { *x *= 1e-20; } } }                    // a tiny-weight prefix
        _ => {}
    }
    // a zero weight may carry either sign
    for x in w.iter_mut() { if *x == 0.0 && rng.unit() < 0.4 { *x = -0.0; } }
    if n > 0 && w.iter().all(|x| *x == 0.0) { let l = w.len(); w[l - 1] = 1.0; }
    w
}

pub fn weighted_case<E: PairEst>(out: &mut Out, t: &PTree, trace: Trace, rng: &mut Rng) {
    if !out.next_case() { return; }
    out.tree_comment(E::NAME, &|| t.interleaved().encode(), t.flatten().len());
    let e: E = peval(out, t, trace, rng);
    let accs = pobserve(out, &e);
    let data = t.flatten();
    if data.iter().map(|p| p.1).sum::<f64>() > 0.0 { oracle_pairs(out, "wt", &data, &accs); }
    out.note(&format!("{}:n<={}", E::NAME, crate::props_mom::bucket(data.len())));
}

/// a zero-weight observation changes only the unweighted statistics and len()
fn zero_weight_neutral(out: &mut Out, rng: &mut Rng, data: &[(f64, f64)]) {
    if !out.next_case() { return; }
    let mut a = WeightedMeanWithError::new();
    let mut b = WeightedMean::new();
    for (i, (x, w)) in data.iter().enumerate() {
        if rng.unit() < 0.3 || i == 0 {
            // insert a zero-weight observation here
            let z = rng.normal() * 10.0;
            let (wm, sw, sww) = (a.weighted_mean(), a.sum_weights(), a.sum_weights_sq());
            let (pa, pb) = (words(&a), words(&b));
            let len = a.len();
            a.add(z, 0.0); b.add(z, 0.0);
            out.t("WMWE", "add", &pa, &format!("{} {}", fw(z), fw(0.0)), &words(&a));
            out.t("WeightedMean", "add", &pb, &format!("{} {}", fw(z), fw(0.0)), &words(&b));
            let same = |u: f64, v: f64| u == v || (u.is_nan() && v.is_nan());
            out.x(same(a.weighted_mean(), wm) && same(a.sum_weights(), sw) && same(a.sum_weights_sq(), sww) && a.len() == len + 1,
                  || format!("zero-weight observation {:?} at position {} changed the weighted statistics: mean {:?}->{:?}, sum_w {:?}->{:?}", z, i, wm, a.weighted_mean(), sw, a.sum_weights()));
        }
        a.add(*x, *w); b.add(*x, *w);
    }
    let wsum: f64 = data.iter().map(|p| p.1).sum();
    if wsum > 0.0 {
        out.x(!a.weighted_mean().is_nan() && !b.mean().is_nan(), || format!("weighted mean is NaN although the total weight is {:?}; data {:?}", wsum, &data[..data.len().min(8)]));
    }
}

pub fn c08(out: &mut Out, tier: &str, rng: &mut Rng) {
    let reps = if tier == "thorough" { 10 } else { 3 };
    // the witness of the repaired defect
    weighted_case::<WeightedMean>(out, &PTree::Leaf(vec![(1.0, 0.0), (2.0, 1.0)]), Trace::All, rng);
    weighted_case::<WeightedMeanWithError>(out, &PTree::Leaf(vec![(1.0, 0.0), (2.0, 1.0)]), Trace::All, rng);
    for n in 1..=12usize {
        for zp in 0..WEIGHT_PATTERNS {
            for _ in 0..reps {
                let (xs, _) = dataset(rng, n, 1e9);
                let ws = weights(rng, n, zp);
                let data: Vec<(f64, f64)> = xs.iter().cloned().zip(ws.iter().cloned()).collect();
                weighted_case::<WeightedMean>(out, &PTree::Leaf(data.clone()), Trace::All, rng);
                weighted_case::<WeightedMeanWithError>(out, &PTree::Leaf(data.clone()), Trace::All, rng);
                zero_weight_neutral(out, rng, &data);
            }
        }
    }
    // all chunkings x trees on short sequences, zero weights at every position (first, prefix, a whole chunk)
    let (max_n, max_k) = if tier == "thorough" { (6, 4) } else { (5, 3) };
    for n in 0..=max_n {
        for zp in [0usize, 1, 2, 5, 9] {
            let xs: Vec<f64> = (0..n).map(|i| [1.0, 2.5, -3.0, 1e9 + 1.0, 1e9 + 3.0, 0.0][(i * 5 + n) % 6]).collect();
            let ws = weights(rng, n, zp);
            let data: Vec<(f64, f64)> = xs.iter().cloned().zip(ws.iter().cloned()).collect();
            for k in 1..=max_k {
                for cuts in compositions(n, k) {
                    for t in all_ptrees(&pchunks(&data, &cuts)) {
                        weighted_case::<WeightedMean>(out, &t, Trace::None, rng);
                        weighted_case::<WeightedMeanWithError>(out, &t, Trace::None, rng);
                    }
                }
            }
        }
    }
    // chunks with equal means / equal weighted means, constant chunks, all-zero-weight chunks
    for t in special_trees() {
        for wp in 0..3 {
            let pt = to_ptree(&t, &mut |i| match wp { 0 => 1.0, 1 => [2.0, 0.5, 1.0, 3.0][i % 4], _ => if i % 3 == 0 { 0.0 } else { 1.5 } });
            weighted_case::<WeightedMean>(out, &pt, Trace::None, rng);
            weighted_case::<WeightedMeanWithError>(out, &pt, Trace::None, rng);
        }
    }
    for (d, x) in PHUGE_BASES { phuge_counts::<WeightedMean>(out, d, x); phuge_counts::<WeightedMeanWithError>(out, d, x); }
    let plan: Vec<(usize, usize)> = if tier == "thorough" { vec![(50, 40), (1000, 20), (10_000, 6)] } else { vec![(50, 10), (1000, 5), (10_000, 1)] };
    for (n, count) in plan {
        for c in 0..count {
            let (xs, _) = dataset(rng, n, 1e9);
            let ws = weights(rng, n, c % WEIGHT_PATTERNS);
            let data: Vec<(f64, f64)> = xs.iter().cloned().zip(ws.iter().cloned()).collect();
            let k = 1 + rng.below(7);
            let t = random_ptree(rng, &data, k, c % 4);
            weighted_case::<WeightedMean>(out, &t, Trace::Sparse, rng);
            weighted_case::<WeightedMeanWithError>(out, &t, Trace::Sparse, rng);
        }
    }
}

/// counts beyond 2^32 and 2^53 for the pair estimators: repeated self-merges (see `common::huge_counts`)
pub fn phuge_counts<E: PairEst>(out: &mut Out, data: &[(f64, f64)], extra: &[(f64, f64)]) {
    if !out.next_case() { return; }
    let mut e = E::new(); for (a, b) in data { e.add(*a, *b) }
    let mut small = E::new(); for (a, b) in extra { small.add(*a, *b) }
    let base = e.accessors();
    let get = |accs: &[Acc], stat: &str| accs.iter().find(|a| a.stat == stat).map(|a| a.val.f());
    let n0 = data.len() as f64;
    let close = |a: f64, b: f64, tol: f64| a.is_finite() == b.is_finite() && ((a - b).abs() <= tol * (1.0 + a.abs().max(b.abs())) || a == b);
    let mut e2 = small.clone();
    let mut union = E::new(); for (a, b) in data.iter().chain(extra.iter()) { union.add(*a, *b) }
    let ubase = union.accessors();
    let mut reps = 1f64;
    // doublings up to a count of 2^62 (so that the merge of the two huge chunks below stays within u64)
    let rounds = 62 - (64 - (data.len().max(extra.len()) as u64 - 1).leading_zeros() as usize).min(8);
    for round in 0..rounds {
        let c = e.clone();
        let pa = words(&e);
        e.merge(&c);
        reps *= 2.0;
        out.t(E::NAME, "merge", &pa, &pa, &words(&e));
        { let c2 = e2.clone(); e2.merge(&c2); }
        {
            // two huge chunks with different means: the population statistics are those of data ++ extra
            let mut u = e.clone(); let pu = words(&u); u.merge(&e2); out.t(E::NAME, "merge", &pu, &words(&e2), &words(&u));
            for a in u.accessors() {
                if matches!(a.stat, "mean_x" | "mean_y" | "popvar_x" | "popvar_y" | "popcov" | "pearson" | "wmean" | "umean" | "popvar") {
                    if let (Some(w), Val::F(g)) = (get(&ubase, a.stat), &a.val) {
                        if w.is_finite() { out.x(close(*g, w, 1e-9), || format!("{}: merge of {:?} x {} with {:?} x {}: {} = {:?}, textbook value {:?}", E::NAME, data, reps, extra, reps, a.op, g, w)); }
                    }
                }
            }
        }
        let accs = pobserve(out, &e);
        let nn = n0 * reps;
        let bessel = nn / (nn - 1.0);
        for a in &accs {
            let b = |s: &str| get(&base, s);
            let want: Option<f64> = match a.stat {
                "mean_x" | "mean_y" | "popvar_x" | "popvar_y" | "popcov" | "pearson" | "wmean" | "umean" | "popvar" => b(a.stat),
                "samplevar_x" => b("popvar_x").map(|v| v * bessel),
                "samplevar_y" => b("popvar_y").map(|v| v * bessel),
                "samplecov" => b("popcov").map(|v| v * bessel),
                "samplevar" => b("popvar").map(|v| v * bessel),
                "sum_w" | "sum_w_sq" | "eff_len" => b(a.stat).map(|v| v * reps),
                "varwmean" => match (b("popvar"), b("sum_w"), b("sum_w_sq")) { (Some(v), Some(sw), Some(sww)) => Some(v * bessel * sww / (reps * sw * sw)), _ => None },
                "werror" => match (b("popvar"), b("sum_w"), b("sum_w_sq")) { (Some(v), Some(sw), Some(sww)) => Some((v * bessel * sww / (reps * sw * sw)).sqrt()), _ => None },
                _ => None,
            };
            if let (Some(w), Val::F(g)) = (want, &a.val) {
                if w.is_finite() { out.x(close(*g, w, 1e-9), || format!("{}: after {} self-merges of {:?} (count {}), {} = {:?}, textbook value {:?}", E::NAME, round + 1, data, nn, a.op, g, w)); }
            }
            if let Val::I(l) = a.val { if a.stat == "len" { out.x(l as f64 == nn, || format!("{}: len() = {} after {} self-merges of {} observations", E::NAME, l, round + 1, data.len())); } }
        }
        let mut f = e.clone(); let pre = words(&f); f.add(extra[0].0, extra[0].1);
        out.t(E::NAME, "add", &pre, &format!("{} {}", fw(extra[0].0), fw(extra[0].1)), &words(&f));
        let mut g = e.clone(); let pg = words(&g); g.merge(&small); out.t(E::NAME, "merge", &pg, &words(&small), &words(&g));
        let mut h = small.clone(); let ph = words(&h); h.merge(&e); out.t(E::NAME, "merge", &ph, &words(&e), &words(&h));
        {
            let len_of = |x: &E| x.accessors().iter().find(|a| a.stat == "len").map(|a| a.val.word());
            if let (Some(_), Some(ls)) = (len_of(&e), len_of(&small)) {
                let ls: f64 = ls[1..].parse().unwrap_or(0.0);
                let want = |k: f64| Some(iw(nn as u64 as i128 + k as i128));
                if nn < 4e18 { out.x(len_of(&g) == want(ls) && len_of(&h) == want(ls) && len_of(&f) == want(1.0), || format!("{}: lengths do not add at count {}: {:?} {:?} {:?}", E::NAME, nn, len_of(&g), len_of(&h), len_of(&f))); }
            }
            let mut z = e.clone(); z.merge(&E::new());
            out.x(words(&z) == words(&e), || format!("{}: merging the empty estimator at count {} changed the state", E::NAME, nn));
        }
        if round >= 20 {
            for (nm, s) in [("add", &f), ("merge(short chunk)", &g), ("short chunk.merge", &h)] {
                for a in s.accessors() {
                    if matches!(a.stat, "mean_x" | "mean_y" | "popvar_x" | "popvar_y" | "popcov" | "pearson" | "wmean" | "umean" | "popvar" | "samplevar_x" | "samplevar_y" | "samplecov" | "samplevar") {
                        let w = match a.stat { "samplevar_x" => get(&base, "popvar_x"), "samplevar_y" => get(&base, "popvar_y"), "samplecov" => get(&base, "popcov"), "samplevar" => get(&base, "popvar"), st => get(&base, st) };
                        if let (Some(w), Val::F(x)) = (w, &a.val) { if w.is_finite() { out.x(close(*x, w, 1e-4), || format!("{}: {} at count {}: {} = {:?}, was {:?}", E::NAME, nm, nn, a.op, x, w)); } }
                    }
                }
            }
        }
    }
    out.note(&format!("{}:huge-counts", E::NAME));
}

pub const PHUGE_BASES: &[(&[(f64, f64)], &[(f64, f64)])] = &[
    (&[(1.0, 2.0), (2.0, 1.0), (4.0, 0.5), (8.0, 3.0)], &[(3.0, 1.0), (5.0, 2.0)]),
    (&[(0.0, 1.0), (0.0, 1.0), (0.0, 1.0), (1.0, 1.0)], &[(0.25, 1.0)]),
    (&[(-3.0, 0.25), (1.5, 4.0), (2.0, 0.0), (7.0, 1.0), (11.0, 2.0)], &[(2.0, 0.5)]),
];

// ---------------------------------------------------------------- covariance

fn correlated(rng: &mut Rng, n: usize, rho: f64, offx: f64, offy: f64, sx: f64, sy: f64) -> Vec<(f64, f64)> {
    (0..n).map(|_| {
        let a = rng.normal(); let b = rng.normal();
        let x = a; let y = if rho.abs() == 1.0 { rho * a } else { rho * a + (1.0 - rho * rho).sqrt() * b };
        (clamp_domain(x * sx + offx * sx), clamp_domain(y * sy + offy * sy))
    }).collect()
}

pub fn cov_case(out: &mut Out, t: &PTree, trace: Trace, rng: &mut Rng) {
    if !out.next_case() { return; }
    out.tree_comment("Covariance", &|| t.interleaved().encode(), t.flatten().len());
    let e: Covariance = peval(out, t, trace, rng);
    let accs = pobserve(out, &e);
    let data = t.flatten();
    oracle_pairs(out, "pair", &data, &accs);
    // swapping the roles of x and y
    let swapped: Vec<(f64, f64)> = data.iter().map(|(a, b)| (*b, *a)).collect();
    let s: Covariance = swapped.iter().cloned().collect();
    let saccs = pobserve(out, &s);
    oracle_pairs(out, "pair", &swapped, &saccs);
    out.note(&format!("Covariance:n<={}", crate::props_mom::bucket(data.len())));
}

/// pair every observation of a tree with a second coordinate
pub fn to_ptree(t: &Tree, second: &mut dyn FnMut(usize) -> f64) -> PTree {
    fn go(t: &Tree, k: &mut usize, second: &mut dyn FnMut(usize) -> f64) -> PTree {
        match t {
            Tree::Leaf(v) => PTree::Leaf(v.iter().map(|x| { let w = second(*k); *k += 1; (*x, w) }).collect()),
            Tree::Node(l, r) => { let a = go(l, k, second); let b = go(r, k, second); PTree::Node(Box::new(a), Box::new(b)) }
        }
    }
    let mut k = 0;
    go(t, &mut k, second)
}

pub fn c09(out: &mut Out, tier: &str, rng: &mut Rng) {
    let rhos = [-1.0, -0.9, -0.3, 0.0, 0.5, 0.999, 1.0];
    // observations equal to the running means (leading origin, repeated leading pairs, centroid of the prefix)
    for d in [vec![(0.0, 0.0), (1.0, 2.0), (3.0, -1.0)], vec![(2.0, 5.0), (2.0, 5.0), (2.0, 5.0), (4.0, 1.0)],
              vec![(1.0, 5.0), (3.0, 1.0), (2.0, 3.0), (7.0, 7.0)], vec![(0.0, 0.0)], vec![(0.0, 0.0), (0.0, 0.0), (1.0, 1.0)],
              vec![(1e9, -1e9), (1e9 + 2.0, -1e9 + 4.0), (1e9 + 1.0, -1e9 + 2.0), (1e9 + 5.0, -1e9)]] {
        cov_case(out, &PTree::Leaf(d.clone()), Trace::All, rng);
        if d.len() >= 2 { cov_case(out, &PTree::Node(Box::new(PTree::Leaf(d[..1].to_vec())), Box::new(PTree::Leaf(d[1..].to_vec()))), Trace::All, rng); }
    }
    for t in special_trees() {
        for yp in 0..2 {
            let pt = to_ptree(&t, &mut |i| if yp == 0 { [2.0, -1.0, 4.0, 0.5, 3.0][i % 5] } else { 1e6 + (i * i % 7) as f64 });
            cov_case(out, &pt, Trace::None, rng);
        }
    }
    let reps = if tier == "thorough" { 6 } else { 2 };
    for n in 1..=10usize {
        for &rho in &rhos {
            for _ in 0..reps {
                let (ox, oy, sx, sy) = (*rng.pick(&[0.0, 1e3, 1e6]), *rng.pick(&[0.0, -1e3, 1e9]), 10f64.powi(rng.below(20) as i32 - 10), 10f64.powi(rng.below(20) as i32 - 10));
                let d = correlated(rng, n, rho, ox, oy, sx, sy);
                cov_case(out, &PTree::Leaf(d), Trace::All, rng);
            }
        }
    }
    let (max_n, max_k) = if tier == "thorough" { (6, 4) } else { (5, 3) };
    for n in 0..=max_n {
        let data: Vec<(f64, f64)> = (0..n).map(|i| ([1.0, 2.5, -3.0, 1e9 + 1.0, 1e9 + 3.0, 0.0][(i * 5 + n) % 6], [2.0, -1.0, 1e6, 4.0, 1e6 + 0.5, 3.0][(i * 7 + n) % 6])).collect();
        for k in 1..=max_k {
            for cuts in compositions(n, k) {
                for t in all_ptrees(&pchunks(&data, &cuts)) { cov_case(out, &t, Trace::None, rng); }
            }
        }
    }
    for (d, x) in PHUGE_BASES { phuge_counts::<Covariance>(out, d, x); }
    // x and y on very different scales (the product of the two sums of squares stays representable, their ratio does not)
    for &(sx, sy) in &[(1e-80, 1e80), (1e100, 1e-100), (1e-70, 1e-70), (1e70, 1e70), (1e-140, 1.0), (1.0, 1e140)] {
        for &rho in &[-1.0, -0.6, 0.3, 0.9, 1.0] {
            let n = 3 + rng.below(40);
            let d: Vec<(f64, f64)> = (0..n).map(|_| { let a = rng.normal(); let b = rng.normal(); let y: f64 = if (rho as f64).abs() == 1.0 { rho * a } else { rho * a + (1.0 - rho * rho as f64).sqrt() * b }; (a * sx, y * sy) }).collect();
            cov_case(out, &PTree::Leaf(d.clone()), Trace::None, rng);
            let k = 1 + rng.below(4);
            let t = random_ptree(rng, &d, k, 3);
            cov_case(out, &t, Trace::None, rng);
        }
    }
    let plan: Vec<(usize, usize)> = if tier == "thorough" { vec![(100, 40), (1000, 20), (10_000, 6)] } else { vec![(100, 10), (1000, 5), (10_000, 1)] };
    for (n, count) in plan {
        for c in 0..count {
            let (rho, ox, oy, sx, sy) = (*rng.pick(&rhos), *rng.pick(&[0.0, 1e3, 1e6, 1e9]), *rng.pick(&[0.0, -1e3, 1e6]), 10f64.powi(rng.below(30) as i32 - 15), 10f64.powi(rng.below(30) as i32 - 15));
            let d = correlated(rng, n, rho, ox, oy, sx, sy);
            let k = 1 + rng.below(7);
            let t = random_ptree(rng, &d, k, c % 4);
            cov_case(out, &t, Trace::Sparse, rng);
        }
    }
}

// ---------------------------------------------------------------- min / max

/// NaNs of every kind: the default quiet NaN, its negative (what x86 produces for inf - inf), a signalling NaN,
/// all bits set, a quiet NaN with a payload
const NANS: &[f64] = &[f64::NAN, f64::from_bits(0xfff8_0000_0000_0000), f64::from_bits(0x7ff0_0000_0000_0001),
    f64::from_bits(0xffff_ffff_ffff_ffff), f64::from_bits(0x7ff8_0000_dead_beef), f64::from_bits(0xfff0_0000_0000_0001)];
const MM_ALPHABET: &[f64] = &[f64::NEG_INFINITY, -1.0, -0.0, 0.0, 1.0, f64::INFINITY, f64::NAN];

/// like `eval_tree`, but the leaves are built through every ingestion path in turn (add, collect by value /
/// reference, extend by value / reference / from lazily sized iterators, in one or two pieces)
fn eval_tree_mixed<E: Est>(out: &mut Out, t: &Tree, k: &mut usize, rng: &mut Rng) -> E {
    match t {
        Tree::Leaf(v) => {
            *k += 1;
            // a one-element chunk may also be `from_value(v)` (as either operand of the merges above it)
            if v.len() == 1 && !v[0].is_nan() && *k % 2 == 0 { if let Some(e) = E::from_value(v[0]) { return e; } }
            match *k % 7 {
                0 => { let mut e = E::new(); feed(out, &mut e, v, Trace::All, rng); e }
                1 => E::from_iter_val(v),
                2 => E::from_iter_ref(v),
                3 => { let mut e = E::new(); e.extend_val(v); e }
                4 => { let mut e = E::default(); e.extend_ref(v); e }
                5 => { let mut e = E::new(); let h = v.len() / 2; e.extend_val(&v[..h]); e.extend_ref(&v[h..]); e }
                _ => { let mut e = E::from_iter_lazy(&v[..v.len() / 2]); e.extend_lazy(&v[v.len() / 2..], *k); e }
            }
        }
        Tree::Node(l, r) => {
            let mut a: E = eval_tree_mixed(out, l, k, rng);
            let b: E = eval_tree_mixed(out, r, k, rng);
            let (pa, pb) = (words(&a), words(&b));
            a.merge(&b);
            out.t(E::NAME, "merge", &pa, &pb, &words(&a));
            a
        }
    }
}

fn minmax_tree<E: Est>(out: &mut Out, t: &Tree, rng: &mut Rng, kind: &str) {
    if !out.next_case() { return; }
    let mut k = out.case as usize;
    let e: E = if out.case % 2 == 0 { eval_tree(out, t, Trace::All, rng) } else { eval_tree_mixed(out, t, &mut k, rng) };
    let mut e = e;
    identity_op(out, &mut e, out.case as usize / 2);
    let accs = observe(out, &e);
    let data = t.flatten();
    out.o(kind, &[&fws(&data), &fw(accs[0].val.f())]);
}

pub fn c14(out: &mut Out, tier: &str, rng: &mut Rng) {
    let (max_n, max_k) = if tier == "thorough" { (5, 4) } else { (4, 3) };
    // exhaustive: all sequences over the alphabet up to max_n (7^4 = 2401), all chunkings and trees for the shorter ones
    for n in 0..=max_n {
        let total = MM_ALPHABET.len().pow(n as u32);
        for code in 0..total {
            let mut c = code; let mut v = Vec::new();
            for i in 0..n { let x = MM_ALPHABET[c % 7]; v.push(if x.is_nan() { NANS[(code + i) % NANS.len()] } else { x }); c /= 7; }
            let kmax = if n <= 3 { max_k } else { 2 };
            for k in 1..=kmax {
                for cuts in compositions(n, k) {
                    for t in all_trees(&chunks_of(&v, &cuts)) {
                        minmax_tree::<average::Min>(out, &t, rng, "min");
                        minmax_tree::<average::Max>(out, &t, rng, "max");
                    }
                }
            }
        }
    }
    // permutations of longer random sequences, from_value
    for _ in 0..(if tier == "thorough" { 300 } else { 60 }) {
        let n = 1 + rng.below(40);
        let mut v: Vec<f64> = (0..n).map(|_| if rng.unit() < 0.15 { *rng.pick(MM_ALPHABET) } else if rng.unit() < 0.08 { *rng.pick(NANS) } else { rng.normal() * 10f64.powi(rng.below(40) as i32 - 20) }).collect();
        for _ in 0..3 {
            rng.shuffle(&mut v);
            let k = 1 + rng.below(5);
            let t = random_tree(rng, &v, k, 3);
            minmax_tree::<average::Min>(out, &t, rng, "min");
            minmax_tree::<average::Max>(out, &t, rng, "max");
        }
        // from_value(v0) behaves as an estimator that has already seen v0 (every non-NaN value of the alphabet in turn)
        if v.len() > 1 { let i = rng.below(MM_ALPHABET.len() - 1); v[0] = MM_ALPHABET[i]; }
        if !v[0].is_nan() && out.next_case() {
            let mut a = average::Min::from_value(v[0]);
            out.t("Min", "from_value", "", &fw(v[0]), &words(&a));
            let mut b = average::Max::from_value(v[0]);
            out.t("Max", "from_value", "", &fw(v[0]), &words(&b));
            for x in &v[1..] { average::Estimate::add(&mut a, *x); average::Estimate::add(&mut b, *x); }
            out.o("min", &[&fws(&v), &fw(a.min())]);
            out.o("max", &[&fws(&v), &fw(b.max())]);
        }
    }
    // lengths around the powers of two (a buffered or blocked ingestion path would use such sizes), with the
    // extreme at the very beginning, the very end, or on either side of a block boundary; every ingestion path
    for (li, &len) in BLOCK_LENS.iter().enumerate() {
        if tier != "thorough" && len > 8192 { continue; }
        for place in 0..4 {
            if tier != "thorough" && len > 300 && place != li % 4 { continue; }
            let mut v: Vec<f64> = (0..len).map(|_| rng.normal()).collect();
            let pos = match place { 0 => 0, 1 => len - 1, 2 => len / 2, _ => len - 1 - rng.below(len.min(1024)) };
            v[pos] = 50.0; let p2 = (pos + len / 3) % len; if p2 != pos { v[p2] = -50.0; }
            for path in 0..7 {
                if !out.next_case() { continue; }
                let mut k = path + 6;   // eval_tree_mixed increments before use
                let single = Tree::Leaf(v.clone());
                let t = if (li + place + path) % 3 == 0 { Tree::Node(Box::new(Tree::Leaf(v[..len / 2].to_vec())), Box::new(Tree::Leaf(v[len / 2..].to_vec()))) } else { single };
                let a: average::Min = eval_tree_mixed_quiet(&t, &mut k);
                let mut k = path + 6;
                let b: average::Max = eval_tree_mixed_quiet(&t, &mut k);
                out.o("min", &[&fws(&v), &fw(a.min())]);
                out.o("max", &[&fws(&v), &fw(b.max())]);
                out.note("block-lengths");
            }
        }
    }
}

/// `eval_tree_mixed` without correspondence lines (long leaves)
fn eval_tree_mixed_quiet<E: Est>(t: &Tree, k: &mut usize) -> E {
    match t {
        Tree::Leaf(v) => {
            *k += 1;
            match *k % 7 {
                0 => { let mut e = E::new(); for x in v { e.add(*x) } e }
                1 => E::from_iter_val(v),
                2 => E::from_iter_ref(v),
                3 => { let mut e = E::new(); e.extend_val(v); e }
                4 => { let mut e = E::default(); e.extend_ref(v); e }
                5 => { let mut e = E::new(); let h = v.len() / 2; e.extend_val(&v[..h]); e.extend_ref(&v[h..]); e }
                _ => { let mut e = E::from_iter_lazy(&v[..v.len() / 2]); e.extend_lazy(&v[v.len() / 2..], *k); e }
            }
        }
        Tree::Node(l, r) => { let mut a: E = eval_tree_mixed_quiet(l, k); let b: E = eval_tree_mixed_quiet(r, k); a.merge(&b); a }
    }
}
