//! C18 (serde round trip) and C19 (rayon parallel collection).
use crate::common::*;
use crate::data::*;
use crate::est::*;
use crate::obs::*;
use crate::out::Out;
use crate::props_hist::Hst;
use crate::rng::Rng;
use average::Merge;
use rayon::prelude::*;
use serde::{de::DeserializeOwned, Serialize};

// ------------------------------------------------------------------ C18

fn json_tokens(v: &serde_json::Value, out: &mut Vec<String>) {
    match v {
        serde_json::Value::Number(n) => {
            if n.is_f64() { out.push(fw(n.as_f64().unwrap())) } else if let Some(i) = n.as_i64() { out.push(format!("i:{}", i)) } else { out.push(format!("i:{}", n.as_u64().unwrap())) }
        }
        serde_json::Value::Array(a) => { out.push("[".into()); for x in a { json_tokens(x, out) } out.push("]".into()); }
        serde_json::Value::Object(m) => { out.push("{".into()); for (k, x) in m { out.push(format!("{}=", k)); json_tokens(x, out) } out.push("}".into()); }
        other => out.push(format!("?{}", other)),
    }
}

pub trait Ser: Clone + std::fmt::Debug + Serialize + DeserializeOwned {
    const NAME: &'static str;
    fn fresh(rng: &mut Rng) -> Self;
    fn step(&mut self, x: f64, w: f64);
    fn merge_with(&mut self, _o: &Self) -> bool { false }
    fn stats(&self) -> Vec<String>;
    /// observations that sit on decision boundaries of this state (histogram edges and their neighbours)
    fn probes(&self) -> Vec<f64> { Vec::new() }
    /// an in-place operation other than add / merge, where the type has one (histograms: `*= k`)
    fn tweak(&mut self, _k: u64) {}
}

macro_rules! ser_est {
    ($t:ty) => {
        impl Ser for $t {
            const NAME: &'static str = <$t as Est>::NAME;
            fn fresh(_: &mut Rng) -> Self { <$t as Est>::new() }
            fn step(&mut self, x: f64, _w: f64) { Est::add(self, x) }
            fn merge_with(&mut self, o: &Self) -> bool { Est::merge(self, o); true }
            fn stats(&self) -> Vec<String> { self.accessors().iter().map(|a| format!("{}={}", a.op, a.val.word())).collect() }
        }
    };
}
ser_est!(average::Mean); ser_est!(average::Variance); ser_est!(average::Skewness); ser_est!(average::Kurtosis);
ser_est!(average::Moments4); ser_est!(M5); ser_est!(M6); ser_est!(M8); ser_est!(M10); ser_est!(M7); ser_est!(M12); ser_est!(M13); ser_est!(average::Min); ser_est!(average::Max);

macro_rules! ser_pair {
    ($t:ty) => {
        impl Ser for $t {
            const NAME: &'static str = <$t as crate::props_pair::PairEst>::NAME;
            fn fresh(_: &mut Rng) -> Self { <$t>::new() }
            fn step(&mut self, x: f64, w: f64) { crate::props_pair::PairEst::add(self, x, w) }
            fn merge_with(&mut self, o: &Self) -> bool { Merge::merge(self, o); true }
            fn stats(&self) -> Vec<String> { crate::props_pair::PairEst::accessors(self).iter().map(|a| format!("{}={}", a.op, a.val.word())).collect() }
        }
    };
}
ser_pair!(average::WeightedMean); ser_pair!(average::WeightedMeanWithError); ser_pair!(average::Covariance);

impl Ser for average::Quantile {
    const NAME: &'static str = "Quantile";
    fn fresh(rng: &mut Rng) -> Self { average::Quantile::new(*rng.pick(&[0.0, 0.25, 0.5, 0.9, 1.0])) }
    fn step(&mut self, x: f64, _w: f64) { average::Estimate::add(self, x) }
    fn stats(&self) -> Vec<String> { vec![format!("quantile={}", fw(self.quantile())), format!("len={}", self.len()), format!("p={}", fw(self.p()))] }
}

macro_rules! ser_hist {
    ($t:ty) => {
        impl Ser for $t {
            const NAME: &'static str = <$t as Hst>::NAME;
            fn probes(&self) -> Vec<f64> { crate::props_hist::samples_for_pub(&self.ranges_()).into_iter().filter(|x| !x.is_nan()).collect() }
            fn tweak(&mut self, k: u64) { *self *= k; }
            fn fresh(rng: &mut Rng) -> Self { if rng.unit() < 0.4 { let (a, b) = *rng.pick(&[(-3.0, 3.0), (1.0, 2.0), (0.0, 0.7), (-1e-3, 1e3), (0.1, 0.3)]); <$t>::with_const_width(a, b) } else if rng.unit() < 0.4 {
                // repeated edges (empty bins) are valid histograms too
                let mut e: Vec<f64> = (0..=<$t as Hst>::LEN).map(|_| (rng.below(5) as f64 - 2.0) * 0.5).collect(); e.sort_by(|a, b| a.partial_cmp(b).unwrap()); <$t>::from_ranges(e).unwrap() } else { let mut e: Vec<f64> = (0..=<$t as Hst>::LEN).map(|_| rng.normal() * 2.0).collect(); e.sort_by(|a, b| a.partial_cmp(b).unwrap()); <$t>::from_ranges(e).unwrap() } }
            fn step(&mut self, x: f64, _w: f64) { let _ = self.add(x); }
            fn merge_with(&mut self, o: &Self) -> bool { if self.ranges_() == o.ranges_() { Merge::merge(self, o); true } else { false } }
            fn stats(&self) -> Vec<String> { let mut v: Vec<String> = self.variances_().iter().map(|x| fw(*x)).collect(); v.extend(self.bins_().iter().map(|b| b.to_string()));
                for i in 0..<$t as Hst>::LEN.min(4) { v.push(fw(self.variance_(i))); } v.extend(self.normalized_().iter().take(4).map(|x| fw(*x))); v }
        }
    };
}
ser_hist!(H1); ser_hist!(H2); ser_hist!(H4); ser_hist!(H10); ser_hist!(H100); ser_hist!(H7); ser_hist!(H16); ser_hist!(H17); ser_hist!(H255);

fn finite_state<T: std::fmt::Debug>(t: &T) -> bool { floats_of(t).iter().all(|x| x.is_finite()) }

/// serialise, compare the tree with the model's `encode`, restore, compare bit for bit
fn round_trip<T: Ser>(out: &mut Out, e: &T) -> Option<T> {
    let before = words(e);
    // a positional, non-self-describing binary format: carries every state (non-finite ones too); what comes back
    // must be the same state bit for bit
    let bin: Option<T> = match crate::binfmt::to_bytes(e) {
        Ok(b) => match crate::binfmt::from_bytes::<T>(&b) {
            Ok(r) => { out.x(words(&r) == before && r.stats() == e.stats(), || format!("{}: state restored from a positional binary serde format is {} instead of {}", T::NAME, words(&r), before)); Some(r) }
            Err(err) => { out.x(false, || format!("{}: cannot deserialise its own output in a positional binary serde format: {} (state {})", T::NAME, err, before)); None }
        },
        Err(err) => { out.x(false, || format!("{}: cannot serialise in a binary serde format: {}", T::NAME, err)); None }
    };
    if !finite_state(e) { out.note(&format!("{}:nonfinite-binary-only", T::NAME)); return bin; }
    let js = serde_json::to_string(e).unwrap();
    out.x(words(e) == before, || format!("{}: serialising modified the estimator", T::NAME));
    let v: serde_json::Value = serde_json::from_str(&js).unwrap();
    let mut toks = Vec::new(); json_tokens(&v, &mut toks);
    // serde_json::Value sorts object keys unless preserve_order is enabled: compare as the model prints them
    let toks = reorder_like_struct(&js, toks);
    out.t(T::NAME, "ser", &before, "", &toks.join(" "));
    let r: T = match serde_json::from_str(&js) { Ok(r) => r, Err(err) => { out.x(false, || format!("{}: cannot deserialise {}: {}", T::NAME, js, err)); return None; } };
    out.t(T::NAME, "de", &words(&r), "", &toks.join(" "));
    out.x(words(&r) == before, || format!("{}: restored state {} differs from the original {} (json {})", T::NAME, words(&r), before, &js[..js.len().min(300)]));
    out.x(r.stats() == e.stats(), || format!("{}: statistics of the restored copy differ", T::NAME));
    // the caller continues with either copy
    if before.len() % 2 == 0 { bin.or(Some(r)) } else { Some(r) }
}

/// tokens in the order of the JSON text (serde_json::Value without preserve_order sorts keys)
fn reorder_like_struct(js: &str, sorted_tokens: Vec<String>) -> Vec<String> {
    // re-tokenise directly from the text: the derive emits fields in declaration order
    let _ = sorted_tokens;
    let mut toks = Vec::new();
    let b = js.as_bytes();
    let mut i = 0;
    while i < b.len() {
        match b[i] {
            b'{' => { toks.push("{".to_string()); i += 1; }
            b'}' => { toks.push("}".to_string()); i += 1; }
            b'[' => { toks.push("[".to_string()); i += 1; }
            b']' => { toks.push("]".to_string()); i += 1; }
            b',' | b':' | b' ' => { i += 1; }
            b'"' => { let j = js[i + 1..].find('"').unwrap() + i + 1; toks.push(format!("{}=", &js[i + 1..j])); i = j + 1; }
            _ => {
                let mut j = i;
                while j < b.len() && !matches!(b[j], b',' | b'}' | b']') { j += 1; }
                let t = &js[i..j];
                if t.contains('.') || t.contains('e') || t.contains('E') { toks.push(fw(t.parse::<f64>().unwrap())); }
                else if t == "null" { toks.push("?null".to_string()); }
                else { toks.push(format!("i:{}", t)); }
                i = j;
            }
        }
    }
    toks
}

fn c18_for<T: Ser>(out: &mut Out, tier: &str, rng: &mut Rng) {
    let reps = if tier == "thorough" { 25 } else { 6 };
    // counts beyond 2^53 (not exactly representable as f64): reachable by repeated self-merges
    if T::NAME.starts_with('H') && out.next_case() {
        let mut h = T::fresh(rng);
        for i in 0..40 { h.step(-2.9 + 0.15 * i as f64, 1.0); }
        for _ in 0..54 { let c = h.clone(); if !h.merge_with(&c) { break; } }
        for i in 0..9 { h.step(-2.9 + 0.7 * i as f64, 1.0); }
        if let Some(r) = round_trip(out, &h) {
            let (mut a, mut b) = (h.clone(), r);
            for i in 0..5 { a.step(0.3 * i as f64, 1.0); b.step(0.3 * i as f64, 1.0); }
            out.x(words(&a) == words(&b), || format!("{}: continuing after a round trip with counts beyond 2^53 differs", T::NAME));
        }
    }
    // counts close to the top of u64 (2^62 and 2^63, reachable by self-merges) through both formats
    if !T::NAME.starts_with('H') && T::NAME != "Quantile" && T::NAME != "Min" && T::NAME != "Max" && out.next_case() {
        let mut e = T::fresh(rng);
        for x in [1.0, 2.0, 4.0, 8.0] { e.step(x, 1.5); }
        for round in 0..61 {
            let c = e.clone(); if !e.merge_with(&c) { break; }
            if round >= 58 {
                if let Some(r) = round_trip(out, &e) {
                    let (mut a, mut b) = (e.clone(), r);
                    a.step(3.0, 0.5); b.step(3.0, 0.5);
                    out.x(words(&a) == words(&b), || format!("{}: continuing after a round trip at a count of 2^{} differs", T::NAME, round + 3));
                }
            }
        }
    }
    for rep in 0..reps {
        if !out.next_case() { continue; }
        let n = if rep == 0 { 7 } else { 1 + rng.below(if T::NAME.starts_with('H') && T::NAME.len() > 3 { 30 } else { 60 }) };
        let (mut xs, _) = dataset_in(rng, n, 1e9, -18.0, 18.0, FAMILIES);
        // the ends of the finite range: subnormal and smallest-normal observations (of one sign, so that they are the
        // running extremes too), huge ones
        match rep % 6 {
            3 => { let sg = if rng.unit() < 0.5 { 1.0 } else { -1.0 }; for x in xs.iter_mut() { *x = sg * 5e-324 * (1 + rng.below(1 << 30)) as f64; } }
            4 => { let sg = if rng.unit() < 0.5 { 1.0 } else { -1.0 }; for x in xs.iter_mut() { *x = sg * f64::MIN_POSITIVE * (0.25 + 4.0 * rng.unit()); } }
            5 => { for x in xs.iter_mut() { *x = rng.normal() * 1e140; } }
            _ => {}
        }
        let mut ws: Vec<f64> = (0..n).map(|_| rng.unit() * 3.0).collect();   // (non-negative unless a case below says otherwise)
        // second coordinates exactly on a line through the first ones / all equal (degenerate pair statistics)
        // (weights of either sign whose running sum returns to exactly zero: a state too, and it must survive)
        if rep % 5 == 4 { for i in 0..n { ws[i] = if i % 2 == 0 { 1.5 } else { -1.5 }; } }
        match rep % 5 { 1 => { for i in 0..n { ws[i] = xs[i]; } } 2 => { for i in 0..n { ws[i] = 3.0 - 2.0 * xs[i]; } } 3 => { for w in ws.iter_mut() { *w = 1.0; } } _ => {} }
        let base = T::fresh(rng);
        // states with decision boundaries (histograms): observations on and next to the boundaries
        let pr = base.probes();
        if !pr.is_empty() && rep % 2 == 1 { for x in xs.iter_mut() { *x = *rng.pick(&pr); } }
        // a second estimator to merge in at some point ("between merges")
        let mut other = base.clone();
        if !other.merge_with(&base) { other = T::fresh(rng); } else { other = base.clone(); }
        for i in 0..rng.below(10) { other.step(xs[i % n] * 0.5 + 1.0, 1.0); }
        // uninterrupted run
        let merge_at = rng.below(n + 1);
        let mut plain = base.clone();
        let tweak_at = if rep % 2 == 0 { rng.below(n + 1) } else { n + 7 };
        for i in 0..n { if i == merge_at { plain.merge_with(&other); } if i == tweak_at { plain.tweak(3); } plain.step(xs[i], ws[i]); }
        if merge_at == n { plain.merge_with(&other); }
        // every checkpoint position 0..n
        let stride = if n > 20 { 1 + n / 12 } else { 1 };
        for cp in (0..=n).step_by(stride) {
            let mut e = base.clone();
            let mut restored: Option<T> = None;
            for i in 0..=n {
                if i == cp {
                    match round_trip(out, &e) { Some(r) => { restored = Some(r.clone()); e = r; } None => {} }
                    if T::NAME != "Quantile" { if let Some(o2) = round_trip(out, &other) { let _ = o2; } }
                }
                if i == merge_at { e.merge_with(&other); }
                if i == tweak_at && i < n { e.tweak(3); }
                if i < n { e.step(xs[i], ws[i]); }
            }
            if restored.is_some() {
                out.x(words(&e) == words(&plain) && e.stats() == plain.stats(), || format!("{}: continuing after a round trip at position {} of {} gives {} instead of {}", T::NAME, cp, n, words(&e), words(&plain)));
            }
        }
        out.note(T::NAME);
    }
}

pub fn c18(out: &mut Out, tier: &str, rng: &mut Rng) {
    c18_for::<average::Mean>(out, tier, rng); c18_for::<average::Variance>(out, tier, rng); c18_for::<average::Skewness>(out, tier, rng);
    c18_for::<average::Kurtosis>(out, tier, rng); c18_for::<average::Moments4>(out, tier, rng); c18_for::<M5>(out, tier, rng);
    c18_for::<M6>(out, tier, rng); c18_for::<M8>(out, tier, rng); c18_for::<M10>(out, tier, rng); c18_for::<M7>(out, tier, rng); c18_for::<M12>(out, tier, rng); c18_for::<M13>(out, tier, rng);
    c18_for::<average::Min>(out, tier, rng); c18_for::<average::Max>(out, tier, rng); c18_for::<average::Quantile>(out, tier, rng);
    c18_for::<average::WeightedMean>(out, tier, rng); c18_for::<average::WeightedMeanWithError>(out, tier, rng); c18_for::<average::Covariance>(out, tier, rng);
    c18_for::<H1>(out, tier, rng); c18_for::<H2>(out, tier, rng); c18_for::<H4>(out, tier, rng); c18_for::<H10>(out, tier, rng); c18_for::<H7>(out, tier, rng); c18_for::<H16>(out, tier, rng); c18_for::<H17>(out, tier, rng); c18_for::<H255>(out, tier, rng); c18_for::<H100>(out, tier, rng);
}

// ------------------------------------------------------------------ C19

/// records the tree that rayon's fold/reduce really builds (through the crate's own exported macro)
#[derive(Clone, Debug)]
pub struct Rec { pub tree: Tree, pub add_after_merge: bool }
impl Rec {
    pub fn new() -> Rec { Rec { tree: Tree::Leaf(Vec::new()), add_after_merge: false } }
    pub fn add(&mut self, x: f64) {
        match &mut self.tree { Tree::Leaf(v) => v.push(x), Tree::Node(_, _) => { self.add_after_merge = true; let old = self.tree.clone(); self.tree = Tree::Node(Box::new(old), Box::new(Tree::Leaf(vec![x]))); } }
    }
}
impl Merge for Rec {
    fn merge(&mut self, o: &Rec) {
        let old = self.tree.clone();
        self.tree = Tree::Node(Box::new(old), Box::new(o.tree.clone()));
        self.add_after_merge |= o.add_after_merge;
    }
}
impl Default for Rec { fn default() -> Rec { Rec::new() } }
average::impl_from_par_iterator!(Rec);

fn par_case<E: Est + Send>(out: &mut Out, rng: &mut Rng, pool: &rayon::ThreadPool, data: &[f64], min_len: usize, max_len: usize, by_ref: bool, trees: &mut std::collections::BTreeSet<String>)
where E: rayon::iter::FromParallelIterator<f64> + for<'a> rayon::iter::FromParallelIterator<&'a f64> {
    if !out.next_case() { return; }
    // every third case collects a *filtered* parallel iterator: whole splits can then be empty, so the
    // reduce tree contains empty accumulators on either side
    let filtered = rng.below(3) == 0 && data.len() >= 4;
    let (lo, hi) = if filtered { let mut s = data.to_vec(); s.sort_by(|a, b| a.partial_cmp(b).unwrap()); (s[s.len() / 4], s[s.len() / 2]) } else { (f64::NEG_INFINITY, f64::INFINITY) };
    let sorted_in: Vec<f64> = if filtered { let mut s = data.to_vec(); s.sort_by(|a, b| a.partial_cmp(b).unwrap()); s } else { data.to_vec() };
    let input: &[f64] = &sorted_in;
    let keep = move |x: &f64| !filtered || (*x >= lo && *x <= hi);
    let expect: Vec<f64> = input.iter().cloned().filter(|x| keep(x)).collect();
    let data: &[f64] = &expect;
    // the tree rayon builds for this configuration (one of the possible ones)
    let rec: Rec = pool.install(|| if by_ref { input.par_iter().with_min_len(min_len).with_max_len(max_len).filter(|x| keep(x)).collect() } else { input.par_iter().cloned().with_min_len(min_len).with_max_len(max_len).filter(|x| keep(x)).collect() });
    out.x(rec.tree.flatten().iter().map(|x| x.to_bits()).eq(data.iter().map(|x| x.to_bits())), || format!("rayon's fold/reduce tree does not preserve the order of the input (n={})", data.len()));
    out.x(!rec.add_after_merge, || "rayon added an observation to an already merged accumulator".to_string());
    trees.insert(rec.tree.shape());
    // replay that tree through the real estimator (T lines tie it to the model)
    let replay: E = eval_tree(out, &rec.tree, Trace::None, rng);
    let racc = observe(out, &replay);
    let is_mm = E::NAME == "Min" || E::NAME == "Max";
    if !is_mm { oracle_mom(out, data, &racc, &|_| true); }
    // the real parallel collect, twice, and the sequential result
    let seq: E = E::from_iter_val(data);
    let sacc = seq.accessors();
    for _ in 0..2 {
        let par: E = pool.install(|| if by_ref { input.par_iter().with_min_len(min_len).with_max_len(max_len).filter(|x| keep(x)).collect() } else { input.par_iter().cloned().with_min_len(min_len).with_max_len(max_len).filter(|x| keep(x)).collect() });
        let pacc = par.accessors();
        if !is_mm { oracle_mom(out, data, &pacc, &|_| true); }
        out.x(par.len() == seq.len(), || format!("{}: parallel len {:?} vs sequential {:?}", E::NAME, par.len(), seq.len()));
        // a statistic that is a number sequentially must be a number in parallel (NaN only where documented)
        for (p, q) in pacc.iter().zip(sacc.iter()) {
            if let (Val::F(a), Val::F(b)) = (&p.val, &q.val) { out.x(a.is_nan() == b.is_nan(), || format!("{}.{}: parallel {:?} vs sequential {:?} (n={}, filtered={})", E::NAME, p.op, a, b, data.len(), filtered)); }
        }
        if is_mm {
            out.x(pacc[0].val.f() == sacc[0].val.f() || (pacc[0].val.f().is_nan() && sacc[0].val.f().is_nan()), || format!("{}: parallel {:?} vs sequential {:?}", E::NAME, pacc[0].val, sacc[0].val));
            out.o(if E::NAME == "Min" { "min" } else { "max" }, &[&fws(data), &fw(pacc[0].val.f())]);
        }
    }
    out.note(&format!("{}:n<={}{}", E::NAME, crate::props_mom::bucket(data.len()), if filtered { ":filtered" } else { "" }));
}

pub fn c19(out: &mut Out, tier: &str, rng: &mut Rng) {
    let threads: Vec<usize> = if tier == "thorough" { (1..=16).collect() } else { vec![1, 2, 5, 16] };
    let sizes: Vec<usize> = if tier == "thorough" { vec![0, 1, 2, 3, 7, 64, 1000, 10_000, 100_000, 1_000_000] } else { vec![0, 1, 2, 5, 64, 700, 5000] };
    let mut trees = std::collections::BTreeSet::new();
    for &th in &threads {
        let pool = rayon::ThreadPoolBuilder::new().num_threads(th).build().unwrap();
        for &n in &sizes {
            if n >= 100_000 && !(th == 4 || th == 16) { continue; }
            for rep in 0..2 {
                if n >= 100_000 && rep == 1 && th != 16 { continue; }
                let (d, _) = dataset_in(rng, n.max(1), 3e11, -20.0, 20.0, FAMILIES);
                let d = &d[..n];
                // splitting limits fix the number of leaves, so the amount of work does not depend on how many cores
                // (and therefore steals) this machine has; the purely adaptive mode is kept for one small size
                // (min_len = max_len = k: every split of 2k or more items is forced, none below is allowed)
                let (mn, mx) = match rep { 0 => if n == 64 { (1, usize::MAX) } else { let k = (n / 64).max(1); (k, k) }, _ => { let k = 1 + rng.below(n / 4 + 2); (k, k) } };
                let by_ref = rep == 0;
                par_case::<average::Mean>(out, rng, &pool, d, mn, mx, by_ref, &mut trees);
                par_case::<average::Variance>(out, rng, &pool, d, mn, mx, by_ref, &mut trees);
                par_case::<average::Kurtosis>(out, rng, &pool, d, mn, mx, by_ref, &mut trees);
                par_case::<average::Min>(out, rng, &pool, d, mn, mx, by_ref, &mut trees);
                par_case::<average::Max>(out, rng, &pool, d, mn, mx, !by_ref, &mut trees);
                if n < 1_000_000 || th == 16 { par_case::<average::Skewness>(out, rng, &pool, d, mn, mx, !by_ref, &mut trees); par_case::<average::Moments4>(out, rng, &pool, d, mn, mx, by_ref, &mut trees); }
                if n <= 20_000 { par_case::<M6>(out, rng, &pool, d, mn, mx, !by_ref, &mut trees); par_case::<M10>(out, rng, &pool, d, mn, mx, by_ref, &mut trees); }
            }
        }
    }
    // chunks of more than 2^16 observations on both sides of a merge (any parallel collect of 2^17 or more items
    // produces them), and a series that repeats across the cut (chunks with bit-identical means)
    {
        let pool = rayon::ThreadPoolBuilder::new().num_threads(*threads.last().unwrap()).build().unwrap();
        for (n, k) in [(140_000usize, 70_000usize), (300_000, 75_000)] {
            if tier != "thorough" && n > 200_000 { continue; }
            let mut d = shape(rng, "exp_pos", n);
            for (i, x) in d.iter_mut().enumerate() { *x += 2.0 * (i / k) as f64; }      // a trend, so that the chunk means differ
            par_case::<average::Variance>(out, rng, &pool, &d, k, k, true, &mut trees);
            par_case::<average::Skewness>(out, rng, &pool, &d, k, k, false, &mut trees);
            par_case::<average::Kurtosis>(out, rng, &pool, &d, k, k, true, &mut trees);
            par_case::<average::Moments4>(out, rng, &pool, &d, k, k, false, &mut trees);
            par_case::<M6>(out, rng, &pool, &d, k, k, true, &mut trees);
        }
        // orders beyond twelve (binomial coefficients beyond 32 bits' factorials)
        for n in [10usize, 200, 3000] {
            let (d, _) = dataset_in(rng, n, 1e3, -8.0, 8.0, FAMILIES);
            let k = (n / 5).max(1);
            par_case::<M13>(out, rng, &pool, &d, k, k, true, &mut trees);
            par_case::<M16>(out, rng, &pool, &d, k, k, false, &mut trees);
        }
        for blk in [2usize, 3, 50] {
            let block = shape(rng, "uniform", blk);
            let d: Vec<f64> = (0..4 * blk).map(|i| block[i % blk]).collect();
            for k in [blk, 2 * blk] {
                par_case::<average::Variance>(out, rng, &pool, &d, k, k, true, &mut trees);
                par_case::<average::Skewness>(out, rng, &pool, &d, k, k, true, &mut trees);
                par_case::<average::Kurtosis>(out, rng, &pool, &d, k, k, false, &mut trees);
                par_case::<M6>(out, rng, &pool, &d, k, k, false, &mut trees);
            }
        }
    }
    out.comment(&format!("distinct recorded tree shapes: {}", trees.len()));
    for _ in 0..trees.len() { out.note("distinct-tree-shape"); }
}
