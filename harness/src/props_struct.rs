//! C11 (merge identity), C16 (sentinels, constant samples), C17 (signs and ranges), C20 (ingestion paths).
use crate::common::*;
use crate::data::*;
use crate::est::*;
use crate::obs::*;
use crate::out::Out;
use crate::props_hist::Hst;
use crate::props_pair::*;
use crate::rng::Rng;
use average::{Covariance, WeightedMean, WeightedMeanWithError};

macro_rules! for_all_est {
    ($f:ident, $($args:expr),*) => {
        $f::<average::Mean>($($args),*); $f::<average::Variance>($($args),*); $f::<average::Skewness>($($args),*);
        $f::<average::Kurtosis>($($args),*); $f::<average::Moments4>($($args),*); $f::<M5>($($args),*); $f::<M6>($($args),*);
        $f::<M8>($($args),*); $f::<M10>($($args),*); $f::<M7>($($args),*); $f::<M9>($($args),*); $f::<M12>($($args),*); $f::<M3>($($args),*); $f::<M13>($($args),*); $f::<average::Min>($($args),*); $f::<average::Max>($($args),*);
    };
}
macro_rules! for_all_pair {
    ($f:ident, $($args:expr),*) => {
        $f::<WeightedMean>($($args),*); $f::<WeightedMeanWithError>($($args),*); $f::<Covariance>($($args),*);
    };
}

fn acc_words(a: &[Acc]) -> Vec<String> { a.iter().map(|x| format!("{}={}", x.op, x.val.word())).collect() }

// ------------------------------------------------------------------ C11

/// pool of states reachable by short histories of add / merge (clone is the identity on values)
fn pool<E: Est>(alphabet: &[f64], depth: usize, cap: usize, rng: &mut Rng) -> Vec<E> {
    let mut all: Vec<E> = vec![E::new()];
    let mut seen: std::collections::HashSet<String> = std::collections::HashSet::new();
    seen.insert(words(&all[0]));
    for _ in 0..depth {
        let cur = all.clone();
        for s in &cur {
            for &v in alphabet {
                let mut t = s.clone(); t.add(v);
                if seen.insert(words(&t)) { all.push(t); }
            }
        }
        for _ in 0..cap {
            let a = rng.pick(&cur).clone(); let b = rng.pick(&cur).clone();
            let mut t = a.clone(); t.merge(&b);
            if seen.insert(words(&t)) { all.push(t); }
        }
        if all.len() > cap * 8 { break; }
    }
    all
}

fn c11_est<E: Est>(out: &mut Out, tier: &str, rng: &mut Rng) {
    let depth = if tier == "thorough" { 5 } else { 4 };
    let mut states: Vec<E> = pool::<E>(&[1.0, -2.5, 1e9 + 1.0], depth, 40, rng);
    for t in special_trees().iter().step_by(3) {
        let mut o = Out::new("scratch", Some(u64::MAX)); o.active = false;
        states.push(eval_tree::<E>(&mut o, t, Trace::None, rng));
        if let Tree::Node(l, _) = t { states.push(eval_tree::<E>(&mut o, l, Trace::None, rng)); }
    }
    for _ in 0..(if tier == "thorough" { 60 } else { 15 }) {
        let n = 1 + rng.below(60);
        let (d, _) = if E::ORDER >= 8 { dataset_in(rng, n, 1e9, -20.0, 20.0, FAMILIES) } else { dataset(rng, n, 1e9) };
        let k = 1 + rng.below(4);
        let t = random_tree(rng, &d, k, 3);
        let mut o = Out::new("scratch", Some(u64::MAX)); o.active = false;
        states.push(eval_tree::<E>(&mut o, &t, Trace::None, rng));
    }
    for a in &states {
        if !out.next_case() { continue; }
        let before = words(a);
        let acc_a = acc_words(&a.accessors());
        // clone is part of the histories: a clone carries exactly the state of the original
        out.x(words(&a.clone()) == before, || format!("{}: clone() = {} differs from the original {}", E::NAME, words(&a.clone()), before));
        { let mut t = states[(out.case as usize * 7) % states.len()].clone(); t.clone_from(a); out.x(words(&t) == before, || format!("{}: clone_from() gives {} for the original {}", E::NAME, words(&t), before)); }
        // a.merge(empty), the empty estimator constructed by new() and by Default
        let empty = E::new();
        let mut x = a.clone();
        x.merge(&empty);
        out.t(E::NAME, "merge", &before, &words(&empty), &words(&x));
        out.x(acc_words(&x.accessors()) == acc_a, || format!("{}: merging an empty estimator changed a statistic: {:?} -> {:?}", E::NAME, acc_a, acc_words(&x.accessors())));
        { let d = E::default(); let mut xd = a.clone(); xd.merge(&d);
          out.x(acc_words(&xd.accessors()) == acc_a, || format!("{}: merging a default() estimator changed a statistic: {:?} -> {:?}", E::NAME, acc_a, acc_words(&xd.accessors())));
          let mut yd = E::default(); yd.merge(a);
          out.x(acc_words(&yd.accessors()) == acc_a, || format!("{}: merging into a default() estimator: {:?} vs {:?}", E::NAME, acc_words(&yd.accessors()), acc_a)); }
        out.x(words(&empty) == words(&E::new()), || format!("{}: merge modified its (empty) argument", E::NAME));
        // empty.merge(a)
        let mut y = E::new();
        let pe = words(&y);
        y.merge(a);
        out.t(E::NAME, "merge", &pe, &before, &words(&y));
        out.x(acc_words(&y.accessors()) == acc_a, || format!("{}: merging into an empty estimator: {:?} vs {:?}", E::NAME, acc_words(&y.accessors()), acc_a));
        out.x(words(a) == before, || format!("{}: merge modified its argument", E::NAME));
        // is_empty <-> len == 0
        if let Some(l) = a.len() {
            let ie = a.accessors().iter().find(|q| q.op == "is_empty").map(|q| q.val.clone());
            out.x(ie == Some(Val::B(l == 0)), || format!("{}: is_empty {:?} with len {}", E::NAME, ie, l));
        }
        // lengths add (random partner; and, for the first states, every partner: equal-mean pairs included)
        let b = rng.pick(&states).clone();
        let pb = words(&b);
        let mut z = a.clone();
        z.merge(&b);
        out.t(E::NAME, "merge", &before, &pb, &words(&z));
        if let (Some(la), Some(lb), Some(lz)) = (a.len(), b.len(), z.len()) {
            out.x(lz == la + lb, || format!("{}: len {} + {} merged to {}", E::NAME, la, lb, lz));
        }
        out.x(words(&b) == pb, || format!("{}: merge modified its argument", E::NAME));
        out.note(E::NAME);
    }
}

fn ppool<E: PairEst>(rng: &mut Rng, count: usize) -> Vec<E> {
    let mut v = vec![E::new()];
    // non-empty states whose total weight is exactly zero, and constant / symmetric states
    for n in 1..=3 { let mut e = E::new(); for i in 0..n { e.add(2.0 + i as f64, 0.0); } v.push(e); }
    for n in 1..=3 { let mut e = E::new(); for _ in 0..n { e.add(4.0, 1.0); } v.push(e); }
    { let mut e = E::new(); e.add(1.0, 1.0); e.add(7.0, 1.0); v.push(e); let mut f = E::new(); f.add(3.0, 2.0); f.add(5.0, 2.0); v.push(f); }
    for i in 0..count {
        let n = rng.below(12);
        let mut e = E::new();
        for _ in 0..n {
            let x = *rng.pick(&[1.0, -2.5, 1e9 + 1.0, 3.25]);
            let w = if E::NAME == "Covariance" { rng.normal() * 3.0 } else { *rng.pick(&[0.0, 1.0, 0.5, 3.0]) };
            e.add(x, w);
        }
        if i % 3 == 0 { let o = rng.pick(&v).clone(); e.merge(&o); }
        v.push(e);
    }
    v
}

fn c11_pair<E: PairEst>(out: &mut Out, tier: &str, rng: &mut Rng) {
    let states: Vec<E> = ppool::<E>(rng, if tier == "thorough" { 200 } else { 50 });
    for a in &states {
        if !out.next_case() { continue; }
        let before = words(a);
        let acc_a = acc_words(&a.accessors());
        out.x(words(&a.clone()) == before, || format!("{}: clone() differs from the original", E::NAME));
        { let mut t = states[(out.case as usize * 7) % states.len()].clone(); t.clone_from(a); out.x(words(&t) == before, || format!("{}: clone_from() gives {} for the original {}", E::NAME, words(&t), before)); }
        let empty = E::new();
        let mut x = a.clone(); x.merge(&empty);
        out.t(E::NAME, "merge", &before, &words(&empty), &words(&x));
        out.x(acc_words(&x.accessors()) == acc_a, || format!("{}: merging an empty estimator changed a statistic: {:?} -> {:?}", E::NAME, acc_a, acc_words(&x.accessors())));
        let mut y = E::new(); let pe = words(&y); y.merge(a);
        out.t(E::NAME, "merge", &pe, &before, &words(&y));
        out.x(acc_words(&y.accessors()) == acc_a, || format!("{}: merging into an empty estimator: {:?} vs {:?}", E::NAME, acc_words(&y.accessors()), acc_a));
        out.x(words(a) == before, || format!("{}: merge modified its argument", E::NAME));
        let b = rng.pick(&states).clone(); let pb = words(&b);
        let mut z = a.clone(); z.merge(&b);
        out.t(E::NAME, "merge", &before, &pb, &words(&z));
        let len = |e: &E| e.accessors().iter().find(|q| q.op == "len").map(|q| q.val.clone());
        if let (Some(Val::I(la)), Some(Val::I(lb)), Some(Val::I(lz))) = (len(a), len(&b), len(&z)) {
            out.x(lz == la + lb, || format!("{}: len {} + {} merged to {}", E::NAME, la, lb, lz));
            let ie = a.accessors().iter().find(|q| q.op == "is_empty").map(|q| q.val.clone());
            out.x(ie == Some(Val::B(la == 0)), || format!("{}: is_empty {:?} with len {}", E::NAME, ie, la));
        }
        out.x(words(&b) == pb, || format!("{}: merge modified its argument", E::NAME));
        out.note(E::NAME);
    }
}

fn c11_hist<H: Hst>(out: &mut Out, tier: &str, rng: &mut Rng) {
    for rep in 0..(if tier == "thorough" { 40 } else { 12 }) {
        if !out.next_case() { continue; }
        // equal-width bins, overflow bins (infinite outer edges), repeated edges
        let base = match rep % 4 {
            0 | 1 => H::cw(-2.0, 2.0),
            2 => { let mut e: Vec<f64> = (0..=H::LEN).map(|i| -2.0 + 4.0 * i as f64 / H::LEN as f64).collect(); e[0] = f64::NEG_INFINITY; e[H::LEN] = f64::INFINITY; H::fr(e).unwrap() }
            _ => { let mut e: Vec<f64> = (0..=H::LEN).map(|i| ((i / 2) as f64 - 1.0).min(2.0)).collect(); e.sort_by(|a, b| a.partial_cmp(b).unwrap()); if rep % 8 == 7 { e[H::LEN] = f64::INFINITY; } H::fr(e).unwrap() }
        };
        let mut a = base.clone();
        let na = rng.below(40);
        for _ in 0..na { let _ = a.add_(rng.normal() * 2.0); }
        // the same edges as numbers, built another way: zeros of the other sign
        let base_b = if rep % 2 == 1 { let e: Vec<f64> = base.ranges_().iter().map(|x| if *x == 0.0 { -*x } else { *x }).collect(); H::fr(e).unwrap() } else { base.clone() };
        let mut b = base_b.clone();
        let nb = rng.below(40);
        for _ in 0..nb { let _ = b.add_(rng.normal() * 2.0); }
        let (pa, pb) = (words(&a), words(&b));
        out.x(words(&a.clone()) == pa, || format!("{}: clone() differs from the original", H::NAME));
        // clone_from into a histogram over other edges and other counts
        { let mut t = H::cw(0.0, 7.0); let _ = t.add_(1.0); t.clone_from(&a); out.x(words(&t) == pa, || format!("{}: clone_from() gives {} for the original {}", H::NAME, words(&t), pa)); }
        let mut x = a.clone(); x.merge_(&base);
        out.t(H::NAME, "merge", &pa, &words(&base), &words(&x));
        out.x(words(&x) == pa, || format!("{}: merging an empty histogram changed it", H::NAME));
        let mut y = base.clone(); y.merge_(&a);
        out.x(words(&y) == pa, || format!("{}: merging into an empty histogram differs", H::NAME));
        let mut z = a.clone(); z.merge_(&b);
        out.t(H::NAME, "merge", &pa, &pb, &words(&z));
        out.x(z.bins_().iter().sum::<u64>() == a.bins_().iter().sum::<u64>() + b.bins_().iter().sum::<u64>(), || format!("{}: totals do not add under merge", H::NAME));
        out.x(words(&b) == pb, || format!("{}: merge modified its argument", H::NAME));
        out.note(H::NAME);
    }
}

fn c11_huge<E: Est>(out: &mut Out, _tier: &str, _rng: &mut Rng) {
    // one observation of a magnitude whose square or cube is not representable: merging it into / with the empty
    // estimator must reproduce it exactly
    for x in [1e110, -1e150, 1e300, -5e-324, 1e-200] {
        if !out.next_case() { continue; }
        let mut a = E::new(); a.add(x);
        let want = words(&a);
        let (mut l, mut r) = (E::new(), a.clone());
        l.merge(&a); r.merge(&E::default());
        out.t(E::NAME, "merge", &words(&E::new()), &want, &words(&l));
        let same = |u: &E, v: &E| u.accessors().iter().zip(v.accessors().iter()).all(|(p, q)| p.val.word() == q.val.word());
        out.x(same(&l, &a) && same(&r, &a) && words(&r) == want, || format!("{}: merging the single observation {:?} with the empty estimator gives {} / {} instead of {}", E::NAME, x, words(&l), words(&r), want));
    }
    if E::NAME == "Min" || E::NAME == "Max" { return; }
    for (d, x) in HUGE_BASES { huge_counts::<E>(out, d, x); }
}
fn c11_phuge<E: PairEst>(out: &mut Out, _tier: &str, _rng: &mut Rng) {
    for (d, x) in crate::props_pair::PHUGE_BASES { crate::props_pair::phuge_counts::<E>(out, d, x); }
}

pub fn c11(out: &mut Out, tier: &str, rng: &mut Rng) {
    for_all_est!(c11_est, out, tier, rng);
    for_all_pair!(c11_pair, out, tier, rng);
    // the same claims at counts beyond 2^32 and 2^53 (lopsided operands: lengths add, the empty estimator is neutral)
    for_all_est!(c11_huge, out, tier, rng);
    for_all_pair!(c11_phuge, out, tier, rng);
    c11_hist::<H1>(out, tier, rng); c11_hist::<H4>(out, tier, rng); c11_hist::<H10>(out, tier, rng); c11_hist::<H100>(out, tier, rng);
    c11_hist::<H7>(out, tier, rng); c11_hist::<H8>(out, tier, rng); c11_hist::<H17>(out, tier, rng); c11_hist::<H25>(out, tier, rng); c11_hist::<H64>(out, tier, rng); c11_hist::<H255>(out, tier, rng);
}

// ------------------------------------------------------------------ C16

fn expect_f(out: &mut Out, ty: &str, accs: &[Acc], op: &str, want: &str, n: usize, ctx: &str) {
    if let Some(a) = accs.iter().find(|a| a.op == op) {
        let ok = match (&a.val, want) {
            (Val::F(x), "nan") => x.is_nan(),
            (Val::F(x), "zero") => *x == 0.0,
            (Val::F(x), "one") => *x == 1.0,
            (Val::F(x), "posinf") => *x == f64::INFINITY,
            (Val::F(x), "neginf") => *x == f64::NEG_INFINITY,
            (Val::F(x), "notnan") => !x.is_nan(),
            (Val::Panic, "panic") => true,
            _ => false,
        };
        out.x(ok, || format!("{}.{} with n={} ({}) is {:?}, documented {}", ty, op, n, ctx, a.val, want));
    }
}

/// the empty estimator, reached in different ways (all of them must behave as `new()` from then on)
fn empty_variant<E: Est>(k: usize) -> E {
    match k % 10 {
        8 => E::from_par(&[], &[]),                                    // a parallel collect of nothing
        9 => E::from_par(&[1.0, -2.0, 3.5], &[false, false, false]),   // ... of items that are all filtered away
        7 => { let e = E::default(); e.roundtrip().unwrap_or(e) }      // the empty estimator after a serde round trip (where it can be written)
        0 => E::new(),
        1 => E::default(),
        2 => { let mut a = E::new(); a.merge(&E::new()); a }
        3 => { let mut a = E::default(); a.merge(&E::new()); a.merge(&E::default()); a }
        4 => E::from_iter_val(&[]),
        5 => { let mut a = E::new(); a.extend_ref(&[]); a.clone() }
        _ => { let mut a = E::from_iter_lazy(&[]); a.clone_from(&E::new()); let b = a.clone(); a.merge(&b); a }
    }
}
fn empty_pair_variant<E: PairEst>(k: usize) -> E {
    match k % 6 {
        0 => E::new(),
        1 => E::default(),
        2 => { let mut a = E::new(); a.merge(&E::new()); a }
        3 => { let mut a = E::default(); a.merge(&E::new()); a.merge(&E::default()); a }
        4 => E::from_iter_val(&[]),
        _ => { let mut a = E::new(); a.extend_ref(&[]); let b = a.clone(); a.merge(&b); a }
    }
}

fn c16_est<E: Est>(out: &mut Out, tier: &str, rng: &mut Rng) {
    let ty = E::NAME;
    if out.next_case() {
        // the empty estimator is the same however it is constructed
        out.x(words(&E::default()) == words(&E::new()), || format!("{}::default() = {} differs from {}::new() = {}", ty, words(&E::default()), ty, words(&E::new())));
        out.t(ty, "new", "", "", &words(&E::new()));
        observe(out, &E::default());
    }
    let reps = if tier == "thorough" { 12 } else { 4 };
    for n in 0..=4usize {
        for _ in 0..reps {
            if !out.next_case() { continue; }
            let (d, _) = if E::ORDER >= 8 { dataset_in(rng, n.max(1), 1e9, -20.0, 20.0, FAMILIES) } else { dataset(rng, n.max(1), 1e9) };
            let d = &d[..n];
            let variant = out.case as usize;
            let mut e: E = empty_variant(variant);
            out.x(acc_words(&e.accessors()) == acc_words(&E::new().accessors()), || format!("{}: the empty estimator built by route {} reports {:?}", ty, variant % 10, acc_words(&e.accessors())));
            feed(out, &mut e, d, if variant % 3 == 1 { Trace::None } else { Trace::All }, rng);
            let accs = observe(out, &e);
            let ctx = format!("{:?} (empty estimator built by route {})", d, variant % 10);
            // nothing may panic except standardized_moment(p>=3) with zero variance
            for a in &accs {
                let allowed = n >= 1 && a.op.starts_with("standardized_moment:") && !spread_nonzero(d) && a.op != "standardized_moment:0" && a.op != "standardized_moment:1" && a.op != "standardized_moment:2";
                out.x(a.val != Val::Panic || allowed, || format!("{}.{} panicked with n={} ({})", ty, a.op, n, ctx));
            }
            if n == 0 {
                for op in ["mean", "sample_variance", "population_variance", "variance_of_mean", "error", "error_mean", "skewness", "kurtosis", "sample_skewness", "sample_excess_kurtosis", "central_moment:2", "central_moment:3", "central_moment:4"] { expect_f(out, ty, &accs, op, "nan", n, &ctx); }
                expect_f(out, ty, &accs, "min", "posinf", n, &ctx);
                expect_f(out, ty, &accs, "max", "neginf", n, &ctx);
            }
            if n == 1 {
                expect_f(out, ty, &accs, "sample_variance", "nan", n, &ctx);
                expect_f(out, ty, &accs, "sample_skewness", "zero", n, &ctx);
                for op in ["population_variance", "variance_of_mean", "error", "error_mean", "skewness", "kurtosis", "central_moment:2", "central_moment:3", "central_moment:4"] { expect_f(out, ty, &accs, op, "zero", n, &ctx); }
                if let Some(a) = accs.iter().find(|a| a.op == "mean") { out.x(a.val == Val::F(d[0]), || format!("{}.mean of one observation {:?} is {:?}", ty, d[0], a.val)); }
            }
            if n < 4 { expect_f(out, ty, &accs, "sample_excess_kurtosis", "nan", n, &ctx); }
            expect_f(out, ty, &accs, "central_moment:0", "one", n, &ctx);
            expect_f(out, ty, &accs, "central_moment:1", "zero", n, &ctx);
            out.note(&format!("{}:n{}", ty, n));
        }
    }
    // constant add-only streams
    let lens: Vec<usize> = if tier == "thorough" { vec![1, 2, 3, 5, 17, 100, 1000, 10_000] } else { vec![1, 2, 3, 7, 100, 10_000] };
    for &k in &lens {
        for _ in 0..reps.min(4) {
            if !out.next_case() { continue; }
            let x = if E::ORDER >= 8 { clamp_domain(rng.normal() * 10f64.powi(rng.below(40) as i32 - 20)) } else { clamp_domain(rng.normal() * 10f64.powi(rng.below(56) as i32 - 28)) };
            let d = vec![x; k];
            let variant = out.case as usize;
            let mut e: E = empty_variant(variant);
            feed(out, &mut e, &d, if k <= 7 { Trace::All } else { Trace::Sparse }, rng);
            let accs = observe(out, &e);
            let ctx = format!("constant stream of {} x {:?} (empty estimator built by route {})", k, x, variant % 10);
            if let Some(a) = accs.iter().find(|a| a.op == "mean") { out.x(a.val == Val::F(x) || (x == 0.0 && a.val.f() == 0.0), || format!("{}.mean of {} is {:?}", ty, ctx, a.val)); }
            for op in ["population_variance", "variance_of_mean", "error", "error_mean", "skewness", "kurtosis", "central_moment:1", "central_moment:2", "central_moment:3", "central_moment:4", "central_moment:5", "central_moment:8"] { expect_f(out, ty, &accs, op, "zero", k, &ctx); }
            if let Some(a) = accs.iter().find(|a| a.op == "min" || a.op == "max") { out.x(a.val.f() == x, || format!("{}.{} of {} is {:?}", ty, a.op, ctx, a.val)); }
            out.note(&format!("{}:const", ty));
        }
    }
}

fn c16_pairs(out: &mut Out, tier: &str, rng: &mut Rng) {
    let reps = if tier == "thorough" { 12 } else { 4 };
    if out.next_case() {
        out.x(words(&Covariance::default()) == words(&Covariance::new()), || "Covariance::default() differs from new()".to_string());
        out.t("Covariance", "new", "", "", &words(&Covariance::new()));
        out.t("WeightedMean", "new", "", "", &words(&WeightedMean::new()));
        out.t("WMWE", "new", "", "", &words(&WeightedMeanWithError::new()));
        out.x(words(&WeightedMean::default()) == words(&WeightedMean::new()), || "WeightedMean::default() differs from new()".to_string());
        out.x(words(&WeightedMeanWithError::default()) == words(&WeightedMeanWithError::new()), || "WeightedMeanWithError::default() differs from new()".to_string());
        out.x(words(&average::Quantile::default()) == words(&average::Quantile::new(0.5)), || "Quantile::default() differs from new(0.5)".to_string());
    }
    for n in 0..=4usize {
        for _ in 0..reps {
            if !out.next_case() { continue; }
            let (xs, _) = dataset(rng, n.max(1), 1e6);
            let (ys, _) = dataset(rng, n.max(1), 1e6);
            let d: Vec<(f64, f64)> = xs.iter().cloned().zip(ys.iter().cloned()).take(n).collect();
            let variant = out.case as usize;
            let ctx = format!("{:?} (empty estimator built by route {})", d, variant % 6);
            let mut c: Covariance = empty_pair_variant(variant);
            pfeed(out, &mut c, &d, if variant % 3 == 1 { Trace::None } else { Trace::All }, rng);
            if n == 1 { out.x(c.mean_x() == d[0].0 && c.mean_y() == d[0].1, || format!("Covariance means of one observation {:?} are ({:?},{:?}) ({})", d[0], c.mean_x(), c.mean_y(), ctx)); }
            let accs = pobserve(out, &c);
            if n == 0 { for op in ["mean_x", "mean_y", "population_variance_x", "population_variance_y", "population_covariance"] { expect_f(out, "Covariance", &accs, op, "nan", n, &ctx); } }
            if n < 2 { for op in ["sample_variance_x", "sample_variance_y", "sample_covariance", "pearson"] { expect_f(out, "Covariance", &accs, op, "nan", n, &ctx); } }
            if n == 1 { for op in ["population_variance_x", "population_variance_y", "population_covariance"] { expect_f(out, "Covariance", &accs, op, "zero", n, &ctx); } }
            // weighted: all weights zero -> total weight zero
            let dz: Vec<(f64, f64)> = xs.iter().take(n).map(|x| (*x, 0.0)).collect();
            let mut w: WeightedMean = empty_pair_variant(variant + 1); pfeed(out, &mut w, &dz, Trace::All, rng);
            let aw = pobserve(out, &w);
            expect_f(out, "WeightedMean", &aw, "mean", "nan", n, "total weight zero");
            expect_f(out, "WeightedMean", &aw, "sum_weights", "zero", n, "total weight zero");
            let mut we: WeightedMeanWithError = empty_pair_variant(variant + 2); pfeed(out, &mut we, &dz, Trace::All, rng);
            let awe = pobserve(out, &we);
            expect_f(out, "WMWE", &awe, "weighted_mean", "nan", n, "total weight zero");
            expect_f(out, "WMWE", &awe, "variance_of_weighted_mean", "nan", n, "total weight zero");
            expect_f(out, "WMWE", &awe, "error", "nan", n, "total weight zero");
            expect_f(out, "WMWE", &awe, "sum_weights", "zero", n, "total weight zero");
            if n == 0 { expect_f(out, "WMWE", &awe, "effective_len", "zero", n, "empty"); expect_f(out, "WMWE", &awe, "unweighted_mean", "nan", n, "empty"); expect_f(out, "WMWE", &awe, "population_variance", "nan", n, "empty"); }
            if n < 2 { expect_f(out, "WMWE", &awe, "sample_variance", "nan", n, "n<2"); }
            // positive weights, one observation
            if n == 1 {
                let mut w1: WeightedMeanWithError = empty_pair_variant(variant + 3); pfeed(out, &mut w1, &[(d[0].0, 2.5)], Trace::All, rng);
                let a1 = pobserve(out, &w1);
                out.x(a1.iter().find(|a| a.op == "weighted_mean").unwrap().val == Val::F(d[0].0), || format!("weighted mean of one observation {:?}", d[0].0));
                expect_f(out, "WMWE", &a1, "population_variance", "zero", 1, "one observation");
            }
            out.note(&format!("pairs:n{}", n));
        }
    }
    // constant streams of pairs: means exact, second-order sums exactly zero
    for &k in &[1usize, 2, 3, 7, 100, 5000] {
        for _ in 0..reps.min(4) {
            if !out.next_case() { continue; }
            let x = clamp_domain(rng.normal() * 10f64.powi(rng.below(40) as i32 - 20));
            let y = clamp_domain(rng.normal() * 10f64.powi(rng.below(40) as i32 - 20));
            let d = vec![(x, y); k];
            let variant = out.case as usize;
            let ctx = format!("constant stream of {} x ({:?},{:?}) (empty estimator built by route {})", k, x, y, variant % 6);
            let mut c: Covariance = empty_pair_variant(variant);
            pfeed(out, &mut c, &d, if variant % 3 == 1 { Trace::None } else if k <= 7 { Trace::All } else { Trace::Sparse }, rng);
            let accs = pobserve(out, &c);
            out.x(c.mean_x() == x && c.mean_y() == y, || format!("Covariance means of {} are ({:?},{:?})", ctx, c.mean_x(), c.mean_y()));
            for op in ["population_variance_x", "population_variance_y", "population_covariance"] { expect_f(out, "Covariance", &accs, op, "zero", k, &ctx); }
            let dw: Vec<(f64, f64)> = (0..k).map(|i| (x, [1.0, 0.5, 3.0][i % 3])).collect();
            let mut w: WeightedMeanWithError = empty_pair_variant(variant + 1);
            pfeed(out, &mut w, &dw, if variant % 3 == 2 { Trace::None } else if k <= 7 { Trace::All } else { Trace::Sparse }, rng);
            let aw = pobserve(out, &w);
            out.x(w.unweighted_mean() == x, || format!("unweighted mean of {} is {:?}", ctx, w.unweighted_mean()));
            expect_f(out, "WMWE", &aw, "population_variance", "zero", k, &ctx);
            if k >= 2 { expect_f(out, "WMWE", &aw, "variance_of_weighted_mean", "zero", k, &ctx); expect_f(out, "WMWE", &aw, "error", "zero", k, &ctx); }
        }
    }
    // Quantile: every p, the ends of [0,1] included
    for &p in &[0.3, 0.0, 1.0, -0.0, 0.5, 5e-324, f64::MIN_POSITIVE, 0.25, 0.75, 1.0 - f64::EPSILON / 2.0] {
        for n in 0..=6usize {
            if !out.next_case() { continue; }
            let mut q = if p == 0.5 && n % 2 == 0 { average::Quantile::default() } else { average::Quantile::new(p) };
            if n == 6 { q = q.clone(); }
            for i in 0..n.min(5) { average::Estimate::add(&mut q, i as f64 * 1.5 - 2.0); }
            out.t("Quantile", "quantile", &words(&q), "", &fw(q.quantile()));
            out.t("Quantile", "estimate", &words(&q), "", &fw(average::Estimate::estimate(&q)));
            let n = n.min(5);
            out.x(q.quantile().is_nan() == (n == 0) && average::Estimate::estimate(&q).is_nan() == (n == 0), || format!("Quantile(p = {:?}).quantile() with n={} is {:?}", p, n, q.quantile()));
            out.x(q.len() == n as u64 && q.is_empty() == (n == 0), || format!("Quantile(p = {:?}): len {} is_empty {} with n={}", p, q.len(), q.is_empty(), n));
            if n == 1 { out.x(q.quantile() == -2.0, || format!("Quantile(p = {:?}) of the single observation -2 is {:?}", p, q.quantile())); }
        }
    }
}

pub fn c16(out: &mut Out, tier: &str, rng: &mut Rng) {
    for_all_est!(c16_est, out, tier, rng);
    c16_pairs(out, tier, rng);
}

// ------------------------------------------------------------------ C17

fn nasty(rng: &mut Rng, n: usize) -> Vec<f64> {
    match rng.below(7) {
        0 => { let base = rng.normal() * 10f64.powi(rng.below(100) as i32 - 50); (0..n).map(|_| base * (1.0 + 1e-15 * rng.below(3) as f64)).collect() }       // offsets 1e15 spreads
        1 => { let base = 1e15 * (1.0 + rng.unit()); (0..n).map(|_| base + rng.below(3) as f64).collect() }
        2 => { let b = rng.normal() * 1e10; (0..n).map(|_| if rng.unit() < 0.5 { b } else { f64::from_bits(b.to_bits() + 1) }).collect() }                    // one-ulp spread
        3 => (0..n).map(|_| (rng.below(7) as f64 - 3.0) * 5e-324 * rng.below(1000) as f64).collect(),                                                           // denormals
        4 => (0..n).map(|_| rng.normal() * 10f64.powi(rng.below(300) as i32 - 150)).collect(),                                                                  // mixed magnitudes
        5 => (0..n).map(|_| 1e150 * (rng.unit() - 0.5)).collect(),
        _ => (0..n).map(|_| if rng.unit() < 0.5 { 1e-150 } else { 1e150 } * rng.normal()).collect(),
    }
}

fn c17_est<E: Est>(out: &mut Out, tier: &str, rng: &mut Rng) {
    if E::NAME == "Min" || E::NAME == "Max" { return; }
    let reps = if tier == "thorough" { 300 } else { 60 };
    for r in 0..reps {
        if !out.next_case() { continue; }
        let cap = if r % 10 == 0 { 2000 } else { 40 }; let n = 1 + rng.below(cap);
        let mut d = nasty(rng, n);
        if E::ORDER >= 4 { // keep n*max|x|^N finite for the higher moments; the sign claim is about the variance
            let lim = 10f64.powf(280.0 / E::ORDER as f64);
            for x in d.iter_mut() { if x.abs() > lim { *x = lim.copysign(*x) * rng.unit(); } }
        }
        let k = 1 + rng.below(5);
        let t = random_tree(rng, &d, k, r % 4);
        let e: E = eval_tree(out, &t, if n <= 12 { Trace::All } else { Trace::None }, rng);
        let accs = observe(out, &e);
        let mn = d.iter().cloned().fold(f64::INFINITY, f64::min);
        let mx = d.iter().cloned().fold(f64::NEG_INFINITY, f64::max);
        let m = d.iter().map(|x| x.abs()).fold(0.0, f64::max);
        for a in &accs {
            if let Val::F(v) = a.val {
                if matches!(a.op.as_str(), "population_variance" | "sample_variance" | "variance_of_mean" | "error" | "error_mean" | "central_moment:2") && !v.is_nan() {
                    out.x(v >= 0.0, || format!("{}.{} = {:?} < 0 for {:?} tree {}", E::NAME, a.op, v, &d[..d.len().min(12)], t.shape()));
                }
                if a.op == "error" || a.op == "error_mean" { out.x(!v.is_nan(), || format!("{}.{} is NaN (not a real number) for {:?}", E::NAME, a.op, &d[..d.len().min(12)])); }
                if a.op == "mean" {
                    let slack = 12.0 * n as f64 * 2f64.powi(-53) * m + 4.0 * n as f64 * 5e-324;
                    out.x(v >= mn - slack && v <= mx + slack, || format!("{}.mean = {:?} outside [{:?},{:?}] (+-{:?}) tree {}", E::NAME, v, mn, mx, slack, t.shape()));
                }
            }
        }
        out.note(E::NAME);
    }
}

/// lopsided merges: the mean must stay inside the hull of the data, the variances non-negative
fn c17_lopsided<E: Est>(out: &mut Out, tier: &str, rng: &mut Rng) {
    if E::NAME == "Min" || E::NAME == "Max" { return; }
    for t in lopsided_trees(rng, tier != "thorough") {
        if !out.next_case() { continue; }
        let e: E = eval_tree(out, &t, Trace::None, rng);
        let accs = observe(out, &e);
        let d = t.flatten();
        let mn = d.iter().cloned().fold(f64::INFINITY, f64::min);
        let mx = d.iter().cloned().fold(f64::NEG_INFINITY, f64::max);
        let m = d.iter().map(|x| x.abs()).fold(0.0, f64::max);
        for a in &accs {
            if let Val::F(v) = a.val {
                if matches!(a.op.as_str(), "population_variance" | "sample_variance" | "variance_of_mean" | "error" | "error_mean" | "central_moment:2") && !v.is_nan() {
                    out.x(v >= 0.0, || format!("{}.{} = {:?} < 0 for tree {}", E::NAME, a.op, v, t.shape()));
                }
                if a.op == "mean" {
                    let slack = 12.0 * d.len() as f64 * 2f64.powi(-53) * m + 4.0 * d.len() as f64 * 5e-324;
                    out.x(v >= mn - slack && v <= mx + slack, || format!("{}.mean = {:?} outside [{:?},{:?}] (+-{:?}) tree {} first chunk starts {:?}", E::NAME, v, mn, mx, slack, t.shape(), &d[..3.min(d.len())]));
                }
            }
        }
        out.note(&format!("{}:lopsided", E::NAME));
    }
}

fn c17_pairs(out: &mut Out, tier: &str, rng: &mut Rng) {
    let reps = if tier == "thorough" { 300 } else { 60 };
    for r in 0..reps {
        if !out.next_case() { continue; }
        let n = 1 + rng.below(40);
        let xs = nasty(rng, n); let ys = nasty(rng, n);
        let d: Vec<(f64, f64)> = xs.iter().cloned().zip(ys.iter().cloned()).collect();
        let k = 1 + rng.below(4);
        let t = random_ptree(rng, &d, k, r % 4);
        let c: Covariance = peval(out, &t, if n <= 10 { Trace::All } else { Trace::None }, rng);
        for a in pobserve(out, &c) {
            if let Val::F(v) = a.val {
                if a.op.contains("variance") && !a.op.contains("covariance") && !v.is_nan() { out.x(v >= 0.0, || format!("Covariance.{} = {:?} < 0 for {:?}", a.op, v, &d[..d.len().min(8)])); }
            }
        }
        // weighted: mean inside the hull, effective_len in [1, len]
        // weights whose sum is subnormal: only the hull of the weighted mean is asserted (Σw² underflows by design)
        if r % 7 == 3 {
            let wsub: Vec<f64> = (0..n).map(|_| if rng.unit() < 0.2 { 0.0 } else { 5e-324 * (1 + rng.below(1 << 20)) as f64 }).collect();
            let dsub: Vec<(f64, f64)> = xs.iter().cloned().zip(wsub.iter().cloned()).collect();
            let mut wm = WeightedMean::new();
            pfeed(out, &mut wm, &dsub, if n <= 10 { Trace::All } else { Trace::None }, rng);
            let contributing: Vec<f64> = dsub.iter().filter(|p| p.1 > 0.0).map(|p| p.0).collect();
            if !contributing.is_empty() {
                let (mn, mx) = (contributing.iter().cloned().fold(f64::INFINITY, f64::min), contributing.iter().cloned().fold(f64::NEG_INFINITY, f64::max));
                let m = xs.iter().map(|x| x.abs()).fold(0.0, f64::max);
                // a subnormal weight carries few significant bits: w/W is rounded to 2^-k relative, k = bits of W
                let slack = (12.0 * n as f64 * 2f64.powi(-53) + n as f64 * 2f64.powi(-18)) * m.max(mx - mn);
                let v = wm.mean();
                out.x(v >= mn - slack && v <= mx + slack, || format!("weighted mean {:?} outside [{:?},{:?}] for subnormal weights {:?}", v, mn, mx, &dsub[..dsub.len().min(6)]));
            }
        }
        let ws: Vec<f64> = if r % 3 == 0 { (0..n).map(|_| if rng.unit() < 0.2 { 0.0 } else { 10f64.powf(rng.range(-6.0, 6.0)) }).collect() }
                           else { crate::props_pair::weights(rng, n, r % crate::props_pair::WEIGHT_PATTERNS) };
        let dw: Vec<(f64, f64)> = xs.iter().cloned().zip(ws.iter().cloned()).collect();
        let tw = random_ptree(rng, &dw, k, r % 4);
        let w: WeightedMeanWithError = peval(out, &tw, if n <= 10 { Trace::All } else { Trace::None }, rng);
        let aw = pobserve(out, &w);
        let contributing: Vec<f64> = dw.iter().filter(|p| p.1 > 0.0).map(|p| p.0).collect();
        if !contributing.is_empty() {
            let mn = contributing.iter().cloned().fold(f64::INFINITY, f64::min);
            let mx = contributing.iter().cloned().fold(f64::NEG_INFINITY, f64::max);
            let m = xs.iter().map(|x| x.abs()).fold(0.0, f64::max);
            let slack = 12.0 * n as f64 * 2f64.powi(-53) * m + 4.0 * n as f64 * 5e-324;
            let wm = w.weighted_mean();
            out.x(wm >= mn - slack && wm <= mx + slack, || format!("weighted mean {:?} outside [{:?},{:?}] for {:?}", wm, mn, mx, &dw[..dw.len().min(8)]));
            let el = w.effective_len();
            let rel = n as f64 * 2f64.powi(-50);
            out.x(el >= 1.0 * (1.0 - rel) && el <= (n as f64) * (1.0 + rel), || format!("effective_len {:?} outside [1,{}] for weights {:?}", el, n, &ws[..ws.len().min(8)]));
        }
        for a in &aw {
            if let Val::F(v) = a.val { if (a.op.contains("variance") || a.op == "error") && !v.is_nan() { out.x(v >= 0.0, || format!("WMWE.{} = {:?} < 0", a.op, v)); } }
        }
        out.note("pairs");
    }
}

/// WeightedMeanWithError / Covariance: a long chunk merged with a very short one, tiny and huge weights
/// a light chunk of huge values merged with a heavy chunk of ordinary ones, and the other way round
fn c17_cross_magnitude(out: &mut Out, rng: &mut Rng) {
    for (va, wa, vb, wb) in [(1e150, 1e-10, 1.0, 1e160), (-1e150, 1.0, 2.0, 1e150), (1e140, 1e-150, -3.0, 1e150), (1.0, 1e160, -1e150, 1e-5)] {
        for order in 0..2 {
            if !out.next_case() { continue; }
            let a: Vec<(f64, f64)> = (0..3).map(|i| (va * (1.0 + 0.25 * i as f64), wa * (1.0 + i as f64))).collect();
            let b: Vec<(f64, f64)> = (0..4).map(|i| (vb + 0.5 * i as f64, wb * (1.0 + 0.5 * i as f64))).collect();
            let t = if order == 0 { PTree::Node(Box::new(PTree::Leaf(a.clone())), Box::new(PTree::Leaf(b.clone()))) } else { PTree::Node(Box::new(PTree::Leaf(b.clone())), Box::new(PTree::Leaf(a.clone()))) };
            let w: WeightedMean = peval(out, &t, Trace::All, rng);
            pobserve(out, &w);
            let we: WeightedMeanWithError = peval(out, &t, Trace::All, rng);
            pobserve(out, &we);
            let all: Vec<f64> = a.iter().chain(b.iter()).map(|p| p.0).collect();
            let (mn, mx) = (all.iter().cloned().fold(f64::INFINITY, f64::min), all.iter().cloned().fold(f64::NEG_INFINITY, f64::max));
            let slack = 1e-9 * (mx - mn).abs();
            for (nm, v) in [("WeightedMean.mean", w.mean()), ("WeightedMeanWithError.weighted_mean", we.weighted_mean())] {
                out.x(v >= mn - slack && v <= mx + slack, || format!("{} = {:?} outside [{:?},{:?}] for chunks {:?} and {:?}", nm, v, mn, mx, &a[..2], &b[..2]));
            }
        }
    }
    let _ = rng;
}

fn c17_pairs_lopsided(out: &mut Out, tier: &str, rng: &mut Rng) {
    for (ti, t) in lopsided_trees(rng, tier != "thorough").iter().enumerate() {
        if !out.next_case() { continue; }
        let wp = [0usize, 5, 6, 8, 9][ti % 5];
        let total = t.flatten().len();
        let ws = crate::props_pair::weights(rng, total, wp);
        let pt = crate::props_pair::to_ptree(t, &mut |i| ws[i]);
        let w: WeightedMeanWithError = peval(out, &pt, Trace::None, rng);
        let aw = pobserve(out, &w);
        let dw = pt.flatten();
        let contributing: Vec<f64> = dw.iter().filter(|p| p.1 > 0.0).map(|p| p.0).collect();
        let n = dw.len();
        let m = dw.iter().map(|p| p.0.abs()).fold(0.0, f64::max);
        let slack = 12.0 * n as f64 * 2f64.powi(-53) * m + 4.0 * n as f64 * 5e-324;
        if !contributing.is_empty() {
            let mn = contributing.iter().cloned().fold(f64::INFINITY, f64::min);
            let mx = contributing.iter().cloned().fold(f64::NEG_INFINITY, f64::max);
            let wm = w.weighted_mean();
            out.x(wm >= mn - slack && wm <= mx + slack, || format!("weighted mean {:?} outside [{:?},{:?}], lopsided tree of {} observations, weight pattern {}", wm, mn, mx, n, wp));
            let el = w.effective_len();
            let rel = n as f64 * 2f64.powi(-50);
            out.x(el >= 1.0 * (1.0 - rel) && el <= (n as f64) * (1.0 + rel), || format!("effective_len {:?} outside [1,{}], weight pattern {}", el, n, wp));
        }
        let (mn, mx) = (dw.iter().map(|p| p.0).fold(f64::INFINITY, f64::min), dw.iter().map(|p| p.0).fold(f64::NEG_INFINITY, f64::max));
        let um = w.unweighted_mean();
        out.x(um >= mn - slack && um <= mx + slack, || format!("unweighted mean {:?} outside [{:?},{:?}], lopsided tree of {} observations", um, mn, mx, n));
        for a in &aw {
            if let Val::F(v) = a.val { if (a.op.contains("variance") || a.op == "error") && !v.is_nan() { out.x(v >= 0.0, || format!("WMWE.{} = {:?} < 0", a.op, v)); } }
        }
        let c: Covariance = peval(out, &pt, Trace::None, rng);
        for a in pobserve(out, &c) {
            if let Val::F(v) = a.val {
                if a.op.contains("variance") && !a.op.contains("covariance") && !v.is_nan() { out.x(v >= 0.0, || format!("Covariance.{} = {:?} < 0", a.op, v)); }
                if a.op == "mean_x" { out.x(v >= mn - slack && v <= mx + slack, || format!("Covariance.mean_x = {:?} outside [{:?},{:?}], lopsided tree of {} observations", v, mn, mx, n)); }
            }
        }
        out.note("pairs:lopsided");
    }
}

fn c17_hist<H: Hst>(out: &mut Out, tier: &str, rng: &mut Rng) {
    for rep in 0..(if tier == "thorough" { 60 } else { 15 }) {
        if !out.next_case() { continue; }
        let mut h = H::cw(0.0, 1.0);
        let cap = if rng.unit() < 0.2 { 100_000 } else { 200 }; let total = 1 + rng.below(cap);
        let skew = rng.unit();
        for _ in 0..total { let _ = h.add_(rng.unit().powf(1.0 + 4.0 * skew)); }
        // counts beyond 2^32 (products of two counts beyond 2^64), reached by *= and by merging such histograms
        if rep % 3 == 2 { h.mul_assign_(*rng.pick(&[1u64 << 31, (1 << 33) + 5, 1 << 40])); let c = h.clone(); h.merge_(&c); }
        let n: u64 = h.bins_().iter().sum();
        let pre = words(&h);
        let vs = h.variances_();
        out.t(H::NAME, "variances", &pre, "", &fws(&vs));
        let u = 2f64.powi(-53);
        for (i, v) in vs.iter().enumerate() {
            out.x(*v >= -4.0 * u * n as f64 && *v <= (n as f64 / 4.0) * (1.0 + 4.0 * u), || format!("{}: variance of bin {} = {:?} outside [0,{}/4] counts {:?}", H::NAME, i, v, n, &h.bins_()[..H::LEN.min(10)]));
            // ... and it is the multinomial variance count*(1 - count/total) of that bin
            let c = h.bins_()[i] as f64; let want = c * (1.0 - c / n as f64);
            out.x((v - want).abs() <= 1e-9 * want.abs() + 8.0 * n as f64 * u, || format!("{}: variance of bin {} = {:?}, count {} of {}: count*(1-count/total) = {:?}", H::NAME, i, v, h.bins_()[i], n, want));
        }
        out.note(H::NAME);
    }
}

pub fn c17(out: &mut Out, tier: &str, rng: &mut Rng) {
    for_all_est!(c17_est, out, tier, rng);
    c17_lopsided::<average::Mean>(out, tier, rng); c17_lopsided::<average::Variance>(out, tier, rng);
    c17_lopsided::<average::Kurtosis>(out, tier, rng); c17_lopsided::<average::Moments4>(out, tier, rng);
    c17_pairs(out, tier, rng);
    c17_pairs_lopsided(out, tier, rng);
    c17_cross_magnitude(out, rng);
    // a far outlier added at a huge count, data at the top of the property's range (|x| <= 1e150)
    for (d, x) in HUGE_BASES_VAR { huge_counts::<average::Variance>(out, d, x); huge_counts::<average::Mean>(out, d, x); }
    c17_hist::<H1>(out, tier, rng); c17_hist::<H3>(out, tier, rng); c17_hist::<H10>(out, tier, rng); c17_hist::<H100>(out, tier, rng);
    c17_hist::<H5>(out, tier, rng); c17_hist::<H7>(out, tier, rng); c17_hist::<H16>(out, tier, rng); c17_hist::<H17>(out, tier, rng); c17_hist::<H255>(out, tier, rng);
}

// ------------------------------------------------------------------ C20

use crate::concat::{Four, MeanMax, ShortNonHeadline, VarSkew};
use average::{Estimate, Kurtosis, Max, Mean, Min, Quantile, Skewness, Variance};

fn c20_est<E: Est>(out: &mut Out, tier: &str, rng: &mut Rng) {
    for rep in 0..(if tier == "thorough" { 120 } else { 36 }) {
        if !out.next_case() { continue; }
        let cap = if rng.unit() < 0.1 { 3000 } else { 30 }; let mut n = rng.below(cap);
        // lengths around the powers of two (what a buffered or blocked ingestion path would use)
        if rng.unit() < 0.2 { n = *rng.pick(&BLOCK_LENS[..27]); }
        // every sample size below the thresholds of the statistics, every time
        if rep < 7 { n = rep; }
        let (d, _) = if E::ORDER >= 8 { dataset_in(rng, n.max(1), 1e9, -20.0, 20.0, FAMILIES) } else { dataset(rng, n.max(1), 1e9) };
        let mut d = d[..n].to_vec();
        // now and then a NaN or an infinity in the stream (all paths must still agree bit for bit)
        if n > 0 && rep >= 7 && rng.unit() < 0.15 { let i = rng.below(n); d[i] = *rng.pick(&[f64::NAN, f64::INFINITY, f64::NEG_INFINITY]); if n > 2 && rng.unit() < 0.5 { d[(i + n / 2) % n] = f64::NEG_INFINITY; } }
        let d = &d[..];
        let mut by_add = E::new();
        if n <= 10 { feed(out, &mut by_add, d, Trace::All, rng); } else { for x in d { by_add.add(*x); } }
        let want = words(&by_add);
        let v = E::from_iter_val(d);
        let r = E::from_iter_ref(d);
        out.x(words(&v) == want, || format!("{}: collect by value differs from add loop on {:?}", E::NAME, &d[..d.len().min(8)]));
        out.x(words(&r) == want, || format!("{}: collect by reference differs from add loop on {:?}", E::NAME, &d[..d.len().min(8)]));
        // all ways of splitting between collect / extend (by value, by reference) / add: two random cut points, every assignment
        let (mut i, mut j) = (rng.below(n + 1), rng.below(n + 1));
        if i > j { std::mem::swap(&mut i, &mut j); }
        for mode in 0..8 {
            let mut e = if mode & 1 == 0 { E::from_iter_val(&d[..i]) } else { E::from_iter_ref(&d[..i]) };
            if mode & 2 == 0 { e.extend_val(&d[i..j]) } else { e.extend_ref(&d[i..j]) }
            if mode & 4 == 0 { for x in &d[j..] { e.add(*x) } } else { e.extend_ref(&d[j..]); }
            out.x(words(&e) == want, || format!("{}: split {}|{}|{} mode {} differs from add loop", E::NAME, i, j - i, n - j, mode));
        }
        // the same through iterators that do not know their length, and starting from default()
        out.x(words(&E::from_iter_lazy(d)) == want, || format!("{}: collect from a filtered iterator differs from add loop on {:?}", E::NAME, &d[..d.len().min(8)]));
        for kind in 0..4 {
            let mut e = E::default();
            e.extend_lazy(&d[..i], kind); e.extend_val(&d[i..j]); e.extend_lazy(&d[j..], kind + 1);
            out.x(words(&e) == want, || format!("{}: default() then extend from lazily sized iterators (kind {}) split {}|{}|{} differs from add loop: {} vs {}", E::NAME, kind, i, j - i, n - j, words(&e), want));
        }
        // the same on top of a count that no loop reaches (2^31..2^56, by self-merge doubling)
        if n >= 1 && n <= 30 && E::NAME != "Min" && E::NAME != "Max" {
            let mut big = by_add.clone();
            for _ in 0..(31 + rng.below(25)) { let c = big.clone(); big.merge(&c); }
            let mut want = big.clone(); for x in &d[..n.min(5)] { want.add(*x); }
            let want = words(&want);
            let t = &d[..n.min(5)];
            let mut e1 = big.clone(); e1.extend_val(t);
            let mut e2 = big.clone(); e2.extend_ref(t);
            let mut e3 = big.clone(); e3.extend_lazy(t, 0);
            let mut e4 = big.clone(); e4.extend_lazy(t, 1);
            for (nm, e) in [("extend by value", &e1), ("extend by reference", &e2), ("extend from a filtered iterator", &e3), ("extend from take_while", &e4)] {
                out.x(words(e) == want, || format!("{}: {} onto {} observations differs from the add loop: {} vs {}", E::NAME, nm, big.len().unwrap_or(0), words(e), want));
            }
        }
        // a source that fails after some items (the caller recovers and adds the rest)
        if n >= 2 {
            let h = 1 + rng.below(n - 1);
            let mut e = E::new();
            let r = std::panic::catch_unwind(std::panic::AssertUnwindSafe(|| { let mut k = 0; e.extend_lazy_from(&mut || { if k == h { panic!("source failed") } let x = d[k]; k += 1; Some(x) }) }));
            for x in &d[h..] { e.add(*x); }
            out.x(r.is_err() && words(&e) == want, || format!("{}: extend from a source that fails after {} items, then adding the rest, differs from the add loop", E::NAME, h));
        }
        // estimate() = headline statistic
        if let (Some((name, h)), Some(est)) = (by_add.headline(), by_add.estimate()) {
            out.x(h.to_bits() == est.to_bits() || (h.is_nan() && est.is_nan()), || format!("{}: estimate() = {:?} but {}() = {:?}", E::NAME, est, name, h));
        }
        observe(out, &by_add);
        out.note(E::NAME);
    }
}

/// long sequences (beyond 1024, 2048, 4096 items) whose running mean turns NaN early: every path must still see every item
fn c20_long_nan<E: Est>(out: &mut Out, _tier: &str, rng: &mut Rng) {
    for (k, &n) in [1500usize, 3000, 5000].iter().enumerate() {
        if !out.next_case() { continue; }
        let mut d: Vec<f64> = (0..n).map(|_| rng.normal()).collect();
        match k { 0 => d[3] = f64::NAN, 1 => { d[10] = f64::INFINITY; d[700] = f64::NEG_INFINITY; } _ => { d[2047] = f64::NAN; } }
        let mut by_add = E::new(); for x in &d { by_add.add(*x); }
        let want = words(&by_add);
        let h = n / 3;
        let cands: Vec<(&str, E)> = vec![
            ("collect by value", E::from_iter_val(&d)), ("collect by reference", E::from_iter_ref(&d)), ("collect from a filtered iterator", E::from_iter_lazy(&d)),
            ("extend by value", { let mut e = E::new(); e.extend_val(&d); e }), ("extend by reference", { let mut e = E::default(); e.extend_ref(&d); e }),
            ("collect + extend", { let mut e = E::from_iter_val(&d[..h]); e.extend_ref(&d[h..]); e }),
        ];
        for (nm, e) in &cands {
            out.x(words(e) == want && e.len() == by_add.len(), || format!("{}: {} of {} items with a non-finite value early on differs from the add loop: len {:?} vs {:?}", E::NAME, nm, n, e.len(), by_add.len()));
        }
        out.note(&format!("{}:long-nan", E::NAME));
    }
}

fn c20_pair<E: PairEst>(out: &mut Out, tier: &str, rng: &mut Rng) {
    for _ in 0..(if tier == "thorough" { 120 } else { 30 }) {
        if !out.next_case() { continue; }
        let mut n = rng.below(30);
        if rng.unit() < 0.2 { n = *rng.pick(&BLOCK_LENS[..27]); }
        let ties = rng.unit() < 0.3;      // runs of repeated sample values (and, now and then, repeated pairs)
        let mut d: Vec<(f64, f64)> = (0..n).map(|_| (rng.normal() * 1e3 + 5.0, if E::NAME == "Covariance" { rng.normal() } else if rng.unit() < 0.25 { 0.0 } else { rng.unit() * 3.0 })).collect();
        if ties { for i in 1..d.len() { match rng.below(4) { 0 => d[i].0 = d[i - 1].0, 1 => d[i] = d[i - 1], _ => {} } } }
        let mut by_add = E::new();
        if n <= 10 { pfeed(out, &mut by_add, &d, Trace::All, rng); } else { for (a, b) in &d { by_add.add(*a, *b); } }
        let want = words(&by_add);
        out.x(words(&E::from_iter_val(&d)) == want && words(&E::from_iter_ref(&d)) == want, || format!("{}: collect differs from add loop", E::NAME));
        let (mut i, mut j) = (rng.below(n + 1), rng.below(n + 1));
        if i > j { std::mem::swap(&mut i, &mut j); }
        for mode in 0..8 {
            let mut e = if mode & 1 == 0 { E::from_iter_val(&d[..i]) } else { E::from_iter_ref(&d[..i]) };
            if mode & 2 == 0 { e.extend_val(&d[i..j]) } else { e.extend_ref(&d[i..j]) }
            if mode & 4 == 0 { for (a, b) in &d[j..] { e.add(*a, *b) } } else { e.extend_val(&d[j..]); }
            out.x(words(&e) == want, || format!("{}: split {}|{}|{} mode {} differs from add loop", E::NAME, i, j - i, n - j, mode));
        }
        out.x(words(&E::from_iter_lazy(&d)) == want, || format!("{}: collect from a filtered iterator differs from add loop", E::NAME));
        { let mut e = E::default(); e.extend_lazy(&d[..i]); e.extend_ref(&d[i..]); out.x(words(&e) == want, || format!("{}: default() + lazy extend differs from add loop", E::NAME)); }
        // a source that fails after j - i items, one whose exact-looking size hint is too small
        if j > i {
            let mut e = E::from_iter_val(&d[..i]);
            let r = std::panic::catch_unwind(std::panic::AssertUnwindSafe(|| e.extend_failing(&d[i..], j - i)));
            for (a, b) in &d[j..] { e.add(*a, *b); }
            out.x(r.is_err() && words(&e) == want, || format!("{}: extend from a source that fails after {} items, then adding the rest, differs from the add loop: {} vs {}", E::NAME, j - i, words(&e), want));
        }
        { let mut e = E::from_iter_short_hint(&d[..i]); e.extend_short_hint(&d[i..]); out.x(words(&e) == want, || format!("{}: collect / extend from iterators whose exact size hint is too small differs from the add loop", E::NAME)); }
        if n >= 1 && n <= 30 {
            let mut big = by_add.clone();
            for _ in 0..(31 + rng.below(25)) { let c = big.clone(); big.merge(&c); }
            let t = &d[..n.min(5)];
            let mut w = big.clone(); for (a, b) in t { w.add(*a, *b); }
            let w = words(&w);
            let mut e1 = big.clone(); e1.extend_val(t);
            let mut e2 = big.clone(); e2.extend_ref(t);
            let mut e3 = big.clone(); e3.extend_lazy(t);
            for (nm, e) in [("extend by value", &e1), ("extend by reference", &e2), ("extend from a filtered iterator", &e3)] {
                out.x(words(e) == w, || format!("{}: {} onto an estimator holding more than 2^31 observations differs from the add loop: {} vs {}", E::NAME, nm, words(e), w));
            }
        }
        out.note(E::NAME);
    }
}

fn same(a: f64, b: f64) -> bool { a.to_bits() == b.to_bits() || (a.is_nan() && b.is_nan()) }

fn c20_concat(out: &mut Out, tier: &str, rng: &mut Rng) {
    for rep in 0..(if tier == "thorough" { 200 } else { 50 }) {
        if !out.next_case() { continue; }
        let n = if rep < 3 { 0 } else if rep % 5 == 4 { *rng.pick(&BLOCK_LENS[..27]) + rng.below(3) } else { rng.below(40) };
        let (d, _) = dataset(rng, n.max(1), 1e9);
        let d = &d[..n];
        let mean: Mean = d.iter().collect(); let max: Max = d.iter().collect(); let min: Min = d.iter().collect();
        let var: Variance = d.iter().collect(); let skew: Skewness = d.iter().collect(); let kurt: Kurtosis = d.iter().collect();
        let mut q = Quantile::default(); for x in d { q.add(*x); }
        for which in 0..3 {
            let (a, b, c): (MeanMax, VarSkew, Four) = match which {
                0 => { let (mut a, mut b, mut c) = (MeanMax::new(), VarSkew::new(), Four::new()); for x in d { a.add(*x); b.add(*x); c.add(*x); } (a, b, c) }
                1 => { let (mut a, mut b, mut c) = (MeanMax::default(), VarSkew::default(), Four::default()); for x in d { a.add(*x); b.add(*x); c.add(*x); } (a, b, c) }
                _ => (d.iter().collect(), d.iter().cloned().collect(), d.iter().collect()),
            };
            let ok = same(a.mean(), mean.mean()) && same(a.max(), max.max())
                && same(b.mean(), var.mean()) && same(b.sample_variance(), var.sample_variance()) && same(b.population_variance(), var.population_variance())
                && same(b.error(), var.error()) && same(b.skewness(), skew.skewness())
                && same(c.min(), min.min()) && same(c.max(), max.max()) && same(c.kurtosis(), kurt.kurtosis()) && same(c.skewness(), kurt.skewness())
                && same(c.quantile(), q.quantile());
            out.x(ok, || format!("concatenate! struct (construction path {}) reports different statistics than the underlying estimators on {:?}", which, &d[..d.len().min(8)]));
            let sn: ShortNonHeadline = match which { 0 => { let mut e = ShortNonHeadline::new(); for x in d { e.add(*x); } e } 1 => { let mut e = ShortNonHeadline::default(); for x in d { e.add(*x); } e } _ => d.iter().collect() };
            out.x(same(sn.sample_variance(), var.sample_variance()) && same(sn.skewness(), kurt.skewness()) && same(sn.error_mean(), skew.error_mean()),
                  || format!("concatenate! short syntax with non-headline statistics (path {}): sample_variance {:?} vs {:?}, skewness {:?} vs {:?}", which, sn.sample_variance(), var.sample_variance(), sn.skewness(), kurt.skewness()));
        }
        out.note("concatenate");
    }
}

pub fn c20(out: &mut Out, tier: &str, rng: &mut Rng) {
    for_all_est!(c20_est, out, tier, rng);
    for_all_est!(c20_long_nan, out, tier, rng);
    for_all_pair!(c20_pair, out, tier, rng);
    c20_concat(out, tier, rng);
    // Quantile: collect is not implemented for it; estimate() = quantile()
    for _ in 0..20 {
        if !out.next_case() { continue; }
        let mut q = Quantile::new(rng.unit());
        for _ in 0..rng.below(30) { q.add(rng.normal()); }
        out.x(same(q.estimate(), q.quantile()), || "Quantile: estimate() differs from quantile()".to_string());
        out.t("Quantile", "estimate", &words(&q), "", &fw(q.estimate()));
    }
}

// ------------------------------------------------------------------ explicit replay (used for shrinking)

fn replay_est<E: Est>(out: &mut Out, rng: &mut Rng, data: &[f64]) {
    crate::props_mom::single_pass::<E>(out, data, Trace::All, rng, &|_| true);
}
fn replay_pair<E: PairEst>(out: &mut Out, rng: &mut Rng, data: &[f64], kind: &str) {
    let pairs: Vec<(f64, f64)> = data.chunks(2).filter(|c| c.len() == 2).map(|c| (c[0], c[1])).collect();
    if !out.next_case() { return; }
    let mut e = E::new();
    pfeed(out, &mut e, &pairs, Trace::All, rng);
    let accs = pobserve(out, &e);
    // the weighted oracle is defined for a positive total weight only (as in the generated cases)
    if kind != "wt" || pairs.iter().map(|p| p.1).sum::<f64>() > 0.0 { crate::props_pair::oracle_pairs_pub(out, kind, &pairs, &accs); }
}

/// evaluate an explicit merge tree (`avgh tree <Type> <tokens>`) with the named estimator and emit its protocol lines
pub fn replay_tree(out: &mut Out, rng: &mut Rng, ty: &str, tokens: &[String]) -> bool {
    let mut pos = 0;
    let t = match Tree::decode(tokens, &mut pos) { Some(t) if pos == tokens.len() => t, _ => return false };
    let all = |_: &str| true;
    match ty {
        "Mean" => crate::props_mom::merged::<average::Mean>(out, &t, Trace::All, rng, &all),
        "Variance" => crate::props_mom::merged::<average::Variance>(out, &t, Trace::All, rng, &all),
        "Skewness" => crate::props_mom::merged::<average::Skewness>(out, &t, Trace::All, rng, &all),
        "Kurtosis" => crate::props_mom::merged::<average::Kurtosis>(out, &t, Trace::All, rng, &all),
        "M4" => crate::props_mom::merged::<average::Moments4>(out, &t, Trace::All, rng, &all),
        "M5" => crate::props_mom::merged::<M5>(out, &t, Trace::All, rng, &all),
        "M6" => crate::props_mom::merged::<M6>(out, &t, Trace::All, rng, &all),
        "M8" => crate::props_mom::merged::<M8>(out, &t, Trace::All, rng, &all),
        "M10" => crate::props_mom::merged::<M10>(out, &t, Trace::All, rng, &all),
        "M16" => crate::props_mom::merged::<M16>(out, &t, Trace::All, rng, &all),
        "M13" => crate::props_mom::merged::<M13>(out, &t, Trace::All, rng, &all),
        "M3" => crate::props_mom::merged::<M3>(out, &t, Trace::All, rng, &all),
        "M12" => crate::props_mom::merged::<M12>(out, &t, Trace::All, rng, &all),
        "M9" => crate::props_mom::merged::<M9>(out, &t, Trace::All, rng, &all),
        "M7" => crate::props_mom::merged::<M7>(out, &t, Trace::All, rng, &all),
        "WeightedMean" => crate::props_pair::weighted_case::<WeightedMean>(out, &crate::props_pair::PTree::from_interleaved(&t), Trace::All, rng),
        "WMWE" => crate::props_pair::weighted_case::<WeightedMeanWithError>(out, &crate::props_pair::PTree::from_interleaved(&t), Trace::All, rng),
        "Covariance" => crate::props_pair::cov_case(out, &crate::props_pair::PTree::from_interleaved(&t), Trace::All, rng),
        _ => return false,
    }
    true
}

/// feed `data` one observation at a time to the named estimator and emit its protocol lines
pub fn replay_data(out: &mut Out, rng: &mut Rng, ty: &str, data: &[f64]) -> bool {
    match ty {
        "Mean" => replay_est::<average::Mean>(out, rng, data),
        "Variance" => replay_est::<average::Variance>(out, rng, data),
        "Skewness" => replay_est::<average::Skewness>(out, rng, data),
        "Kurtosis" => replay_est::<average::Kurtosis>(out, rng, data),
        "M4" => replay_est::<average::Moments4>(out, rng, data),
        "M5" => replay_est::<M5>(out, rng, data),
        "M6" => replay_est::<M6>(out, rng, data),
        "M8" => replay_est::<M8>(out, rng, data),
        "M10" => replay_est::<M10>(out, rng, data),
        "M16" => replay_est::<M16>(out, rng, data),
        "M13" => replay_est::<M13>(out, rng, data),
        "M3" => replay_est::<M3>(out, rng, data),
        "M12" => replay_est::<M12>(out, rng, data),
        "M9" => replay_est::<M9>(out, rng, data),
        "M7" => replay_est::<M7>(out, rng, data),
        "WeightedMean" => replay_pair::<WeightedMean>(out, rng, data, "wt"),
        "WMWE" => replay_pair::<WeightedMeanWithError>(out, rng, data, "wt"),
        "Covariance" => replay_pair::<Covariance>(out, rng, data, "pair"),
        "Min" | "Max" => {
            if !out.next_case() { return true; }
            if ty == "Min" { let mut e = average::Min::new(); feed(out, &mut e, data, Trace::All, rng); out.o("min", &[&fws(data), &fw(e.min())]); }
            else { let mut e = average::Max::new(); feed(out, &mut e, data, Trace::All, rng); out.o("max", &[&fws(data), &fw(e.max())]); }
        }
        // Quantile: the first word is p
        "Quantile" => { if data.is_empty() { return false; } crate::props_quant::replay_stream(out, data[0], &data[1..]); }
        _ => return false,
    }
    true
}
