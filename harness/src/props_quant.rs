//! C05, C07, C15: Quantile.
use crate::common::*;
use crate::obs::*;
use crate::out::Out;
use crate::rng::Rng;
use average::{Estimate, Quantile};
use std::panic::{catch_unwind, AssertUnwindSafe};

const PS: &[f64] = &[0.0, 0.1, 0.25, 0.5, 0.9, 1.0];

fn qwords(q: &Quantile) -> Vec<String> { words_of_debug(&format!("{:?}", q)) }

/// heights q[0..5] and positions n[0..5] from the Debug rendering
fn heights_positions(q: &Quantile) -> (Vec<f64>, Vec<i64>) {
    let s = format!("{:?}", q);
    let grab = |key: &str| -> Vec<String> {
        let i = s.find(key).unwrap() + key.len();
        let j = s[i..].find(']').unwrap() + i;
        s[i..j].split(',').map(|t| t.trim().to_string()).collect()
    };
    let h: Vec<f64> = grab("q: [").iter().map(|t| t.parse().unwrap()).collect();
    let n: Vec<i64> = grab(" n: [").iter().map(|t| t.parse().unwrap()).collect();
    (h, n)
}

/// the C15 invariants on one state
fn c15_invariants(out: &mut Out, q: &Quantile, p: f64, seen: &[f64]) {
    let n = seen.len() as u64;
    out.x(format!("{:?}", q.clone()) == format!("{:?}", q), || "Quantile: clone() differs from the original".to_string());
    { let mut t = Quantile::new(0.5); for i in 0..(n % 9) { t.add(i as f64); } t.clone_from(q); out.x(format!("{:?}", t) == format!("{:?}", q), || "Quantile: clone_from() differs from the original".to_string()); }
    out.x(q.len() == n, || format!("len {} after {} observations", q.len(), n));
    out.x(q.is_empty() == (n == 0), || format!("is_empty {} with len {}", q.is_empty(), n));
    out.x(q.p().to_bits() == p.to_bits(), || format!("p() = {:?}, constructed with {:?}", q.p(), p));
    let est = q.quantile();
    if n == 0 {
        out.x(est.is_nan(), || format!("quantile of empty estimator is {:?}", est));
        return;
    }
    let mn = seen.iter().cloned().fold(f64::INFINITY, f64::min);
    let mx = seen.iter().cloned().fold(f64::NEG_INFINITY, f64::max);
    // known finding (KNOWN_FINDINGS.txt, key=spread-overflow): once max - min exceeds f64::MAX the P-square
    // formulas overflow; every other violation is reported as such
    let overflow = (mx - mn).is_infinite() && n >= 5;
    let chk = |out: &mut Out, cond: bool, msg: String| { if overflow { out.x_known(cond, "spread-overflow", || msg) } else { out.x(cond, || msg) } };
    chk(out, !est.is_nan() && mn <= est && est <= mx, format!("quantile {:?} outside [{:?},{:?}] p={:?} seen={:?}", est, mn, mx, p, &seen[..seen.len().min(40)]));
    if n >= 5 {
        let (h, pos) = heights_positions(q);
        chk(out, h.windows(2).all(|w| w[0] <= w[1]), format!("marker heights not sorted: {:?} p={:?} seen={:?}", h, p, &seen[..seen.len().min(40)]));
        chk(out, h[0] == mn && h[4] == mx, format!("extreme markers {:?},{:?} vs min/max {:?},{:?}", h[0], h[4], mn, mx));
        out.x(pos[0] == 1 && pos[4] == n as i64 && pos.windows(2).all(|w| w[0] < w[1]), || format!("marker positions {:?} after {} observations p={:?} seen={:?}", pos, n, p, &seen[..seen.len().min(40)]));
    }
}

fn add_traced(out: &mut Out, q: &mut Quantile, x: f64) {
    if out.active {
        let pre = qwords(q).join(" ");
        q.add(x);
        out.t("Quantile", "add", &pre, &fw(x), &qwords(q).join(" "));
    } else { q.add(x); }
}

fn observe_q(out: &mut Out, q: &Quantile) {
    if !out.active { return; }
    let pre = qwords(q).join(" ");
    out.t("Quantile", "quantile", &pre, "", &fw(q.quantile()));
    out.t("Quantile", "estimate", &pre, "", &fw(q.estimate()));
    out.t("Quantile", "len", &pre, "", &iw(q.len() as i64));
    out.t("Quantile", "is_empty", &pre, "", &bw(q.is_empty()));
    out.t("Quantile", "p", &pre, "", &fw(q.p()));
}

fn psq_oracle(out: &mut Out, q: &Quantile, p: f64, seen: &[f64]) {
    if seen.len() >= 5 { out.o("psq", &[&fw(p), &fws(seen), &qwords(q).join(" ")]); }
}

fn dfs(out: &mut Out, q: &Quantile, p: f64, alphabet: &[f64], seen: &mut Vec<f64>, max_len: usize, inv: bool) {
    if seen.len() >= max_len { return; }
    for &x in alphabet {
        let mut q2 = q.clone();
        add_traced(out, &mut q2, x);
        seen.push(x);
        psq_oracle(out, &q2, p, seen);
        if inv { c15_invariants(out, &q2, p, seen); }
        if seen.len() == max_len || seen.len() == 5 { observe_q(out, &q2); }
        dfs(out, &q2, p, alphabet, seen, max_len, inv);
        seen.pop();
    }
}

pub fn long_stream(rng: &mut Rng, kind: usize, n: usize) -> Vec<f64> {
    let mut v: Vec<f64> = match kind {
        0 => (0..n).map(|_| rng.normal() * 3.0 + 10.0).collect(),
        1 | 2 => (0..n).map(|_| rng.unit() * 100.0).collect(),
        3 => (0..n).map(|i| if i % 2 == 0 { i as f64 } else { -(i as f64) }).collect(),                // zig-zag
        4 => (0..n).map(|i| 0.01 * i as f64 + rng.normal()).collect(),                                  // trending
        5 => (0..n).map(|_| rng.below(5) as f64).collect(),                                             // heavy duplicates
        6 => (0..n).map(|_| -(1.0 - rng.unit()).ln()).collect(),
        7 => (0..n).map(|_| 7.0).collect(),                                                             // constant
        8 => (0..n).map(|_| 1e300 * (1.0 + rng.unit())).collect(),                                      // top of the range, one sign
        9 => (0..n).map(|_| 5e-324 * rng.below(4000) as f64).collect(),                                 // subnormal lattice
        10 => (0..n).map(|_| 1.0 + f64::EPSILON * rng.below(64) as f64).collect(),                      // a spread of a few ulps
        11 => { let mut v: Vec<f64> = (0..n).map(|_| rng.normal()).collect();                           // every observation twice in a row
               for i in (1..n).step_by(2) { v[i] = v[i - 1]; } v }
        12 => (0..n).map(|_| rng.unit() * 100.0 * 2f64.powi(-600)).collect(),                           // products of differences underflow
        13 => (0..n).map(|_| rng.normal() * 2f64.powi(-1000)).collect(),                                // partly subnormal
        _ => (0..n).map(|_| rng.normal() * 2f64.powi(480)).collect(),                                   // products of differences near overflow
    };
    if kind == 1 { v.sort_by(|a, b| a.partial_cmp(b).unwrap()); }
    if kind == 2 { v.sort_by(|a, b| b.partial_cmp(a).unwrap()); }
    v
}

fn run_long(out: &mut Out, rng: &mut Rng, p: f64, data: &[f64], inv_every: usize) {
    if !out.next_case() { return; }
    // the median estimator is also reachable through Default (and that is how concatenate! builds it)
    let mut q = if p == 0.5 && out.case % 2 == 0 { Quantile::default() } else { Quantile::new(p) };
    let n = data.len();
    let mut seen: Vec<f64> = Vec::with_capacity(n);
    for (i, &x) in data.iter().enumerate() {
        let traced = i < 12 || i + 2 >= n || rng.below(n) < 40;
        if traced { add_traced(out, &mut q, x); } else { q.add(x); }
        seen.push(x);
        if i < 40 || i % inv_every == 0 || i + 1 == n { c15_invariants(out, &q, p, &seen); }
        if i == 5 || i == 17 || i == n / 2 || i + 1 == n { psq_oracle(out, &q, p, &seen); }
        // the estimate is read at many sample sizes (round numbers, powers of two and their neighbours)
        if i < 64 || (i + 1) % 100 == 0 || (i + 1).is_power_of_two() || (i + 2).is_power_of_two() || i.is_power_of_two() {
            let est = q.quantile();
            if out.active && ((i + 1) % 1000 == 0 || i < 64 || (i + 1).is_power_of_two()) { out.t("Quantile", "quantile", &qwords(&q).join(" "), "", &fw(est)); }
            if i >= 4 { let (h, _) = heights_positions(&q); out.x(est.to_bits() == h[2].to_bits(), || format!("quantile() = {:?} after {} observations, middle marker is {:?} (p = {:?})", est, i + 1, h[2], p)); }
        }
    }
    observe_q(out, &q);
    out.note(&format!("long:n<={}", crate::props_mom::bucket(n)));
}

/// explicit replay (`avgh data Quantile <p> <xs..>`): every add, the P-square oracle from the fifth observation on,
/// the small-sample oracle before, the C15 invariants after every observation
pub fn replay_stream(out: &mut Out, p: f64, xs: &[f64]) {
    if !out.next_case() { return; }
    let r = catch_unwind(AssertUnwindSafe(|| Quantile::new(p)));
    let mut q = match r { Ok(q) => q, Err(_) => { out.t("Quantile", "new", "", &fw(p), "panic"); return; } };
    let mut seen = Vec::new();
    for &x in xs {
        add_traced(out, &mut q, x);
        seen.push(x);
        psq_oracle(out, &q, p, &seen);
        if seen.len() <= 4 { out.o("qsmall", &[&fw(p), &fws(&seen), &fw(q.quantile())]); }
        c15_invariants(out, &q, p, &seen);
        observe_q(out, &q);
    }
}

/// a stream far too long to be written out: generated by a 64-bit LCG that the Lean driver regenerates
/// (`O psqgen`); adds around the powers of two are correspondence lines
pub fn generated_stream(out: &mut Out, p: f64, seed: u64, n: u64, scale: f64) {
    if !out.next_case() { return; }
    let (a, c) = (6364136223846793005u64, 1442695040888963407u64);
    let mut x = seed;
    let mut q = Quantile::new(p);
    let (mut mn, mut mx) = (f64::INFINITY, f64::NEG_INFINITY);
    for i in 0..n {
        x = a.wrapping_mul(x).wrapping_add(c);
        let v = (x >> 11) as f64 * 2f64.powi(-53) * scale;
        let k = i + 1;
        if k.is_power_of_two() || (k - 1).is_power_of_two() || (k + 1).is_power_of_two() || k % (1 << 24) <= 1 { add_traced(out, &mut q, v); } else { q.add(v); }
        mn = mn.min(v); mx = mx.max(v);
    }
    out.o("psqgen", &[&fw(p), &format!("i{} i{} i{} i{} {}", a, c, seed, n, fw(scale)), &qwords(&q).join(" ")]);
    let est = q.quantile();
    out.x(q.len() == n && mn <= est && est <= mx, || format!("generated stream of {} observations: len {} quantile {:?} range [{:?},{:?}]", n, q.len(), est, mn, mx));
    observe_q(out, &q);
    out.note(&format!("generated:n<=2^{}", 64 - (n - 1).leading_zeros()));
}

fn exact_quantile(sorted: &[f64], p: f64) -> f64 {
    let n = sorted.len();
    let k = ((n as f64 * p).ceil() as usize).max(1).min(n);
    sorted[k - 1]
}

pub fn c05(out: &mut Out, tier: &str, rng: &mut Rng) {
    let (l3, l4, nlong) = if tier == "thorough" { (10, 7, 100_000) } else { (8, 6, 10_000) };
    // the witnesses of the repaired defect: decreasing streams
    for &p in PS {
        if !out.next_case() { continue; }
        let mut q = Quantile::new(p);
        let mut seen = Vec::new();
        for i in (1..=20).rev() { add_traced(out, &mut q, i as f64); seen.push(i as f64); psq_oracle(out, &q, p, &seen); }
        observe_q(out, &q);
    }
    for &p in PS {
        if out.next_case() {
            let q = if p == 0.5 { Quantile::default() } else { Quantile::new(p) };
            dfs(out, &q, p, &[0.0, 1.0, 2.0], &mut Vec::new(), l3, false);
            out.note("dfs3");
        }
        if out.next_case() {
            let q = Quantile::new(p);
            dfs(out, &q, p, &[-1.5, 0.0, 0.25, 3.0], &mut Vec::new(), l4, false);
            out.note("dfs4");
        }
    }
    for kind in 0..15 {
        for &p in &[0.0, 0.05, 0.5, 0.73, 0.99, 1.0] {
            let d = long_stream(rng, kind, if kind >= 8 { nlong / 4 } else { nlong });
            run_long(out, rng, p, &d, nlong);
        }
    }
    // very long streams (sample sizes around 2^16, 2^20, 2^24), regenerated by the driver
    {
        let sizes: &[u64] = if tier == "thorough" { &[(1 << 16) + 3, (1 << 20) + 1, (1 << 24) + (1 << 16), (1 << 25) + 9] } else { &[(1 << 16) + 3, (1 << 20) + 1, (1 << 24) + (1 << 16)] };
        for (i, &n) in sizes.iter().enumerate() {
            let p = [0.5, 0.9, 0.25, 0.99][i % 4];
            generated_stream(out, p, rng.next_u64(), n, [1.0, 1e-3, 100.0, 1.0][i % 4]);
        }
    }
    if tier == "thorough" || std::env::var("AVGH_LONG").is_ok() {
        generated_stream(out, 0.5, rng.next_u64(), (1 << 27) + (1 << 18), 1.0);
    }
    // "consequently": a strictly decreasing stream (new minima keep arriving) is tracked as well as the reversed,
    // increasing one. What carries this claim is the theorem `n0_eq_one` (marker 0 never moves) together with the
    // bit-exact comparison with the P-square specification below (`O psq`); the numerical comparison here is only a
    // coarse sanity bound: on sorted uniform data P-square's relative error (in units of the data range) stayed below
    // 0.34 in 36,000 trials in either direction, while the repaired defect (position of marker 0 incremented) gave
    // 0.87-0.98 on decreasing streams. Bound: 0.6.
    for &p in &[0.1, 0.25, 0.5, 0.75, 0.9] {
        for n in [50usize, 200, 1000, 5000] {
            if !out.next_case() { continue; }
            let mut inc: Vec<f64> = (0..n).map(|_| rng.unit() * 100.0).collect();
            inc.sort_by(|a, b| a.partial_cmp(b).unwrap());
            inc.dedup();
            let dec: Vec<f64> = inc.iter().rev().cloned().collect();
            let qi: Quantile = { let mut q = Quantile::new(p); for &x in &inc { q.add(x) } q };
            let qd: Quantile = { let mut q = Quantile::new(p); for &x in &dec { q.add(x) } q };
            let exact = exact_quantile(&inc, p);
            let range = inc[inc.len() - 1] - inc[0];
            let (ei, ed) = ((qi.quantile() - exact).abs() / range, (qd.quantile() - exact).abs() / range);
            out.x(ed <= 0.6 && ei <= 0.6, || format!("sorted stream not tracked: p={:?} n={} relative error decreasing {:?}, increasing {:?}", p, inc.len(), ed, ei));
            psq_oracle(out, &qd, p, &dec);
            psq_oracle(out, &qi, p, &inc);
        }
    }
}

fn p_grid(rng: &mut Rng, n: usize, nrand: usize) -> Vec<f64> {
    let mut g = vec![0.0, 1.0, -0.0];
    for k in 0..=n {
        let b = k as f64 / n as f64;
        g.push(b);
        if b > 0.0 { g.push(f64::from_bits(b.to_bits() - 1)); }
        if b < 1.0 { g.push(f64::from_bits(b.to_bits() + 1)); }
        // well off the boundary by everyday standards, but close: n*p is not a whole number here
        for j in [48, 40, 33, 30, 27, 24, 20, 14] {
            let d = 2f64.powi(-j);
            if b - d > 0.0 { g.push(b - d); }
            if b + d < 1.0 { g.push(b + d); }
        }
    }
    for _ in 0..nrand { g.push(rng.unit()); }
    g
}

pub fn c07(out: &mut Out, tier: &str, rng: &mut Rng) {
    let alphabet = [-1.0, 0.0, 1.0, 2.5];
    let nrand = if tier == "thorough" { 50 } else { 12 };
    // witnesses of the repaired defect first
    let mut seqs: Vec<Vec<f64>> = vec![vec![4.0, 1.0, 3.0]];
    for len in 1..=4usize {
        let total = alphabet.len().pow(len as u32);
        for code in 0..total {
            let mut c = code;
            let mut v = Vec::new();
            for _ in 0..len { v.push(alphabet[c % 4]); c /= 4; }
            seqs.push(v);
        }
    }
    // the ends of the finite range: the top binade (|x| > f64::MAX/2), the smallest normal and subnormal numbers
    let extreme = [f64::MAX, -f64::MAX, 1e308, 1.5e308, -1.2e308, f64::MIN_POSITIVE, 5e-324, -5e-324, 1e-310, 0.0];
    for len in 1..=2usize {
        for code in 0..extreme.len().pow(len as u32) {
            let mut c = code; let mut v = Vec::new();
            for _ in 0..len { v.push(extreme[c % extreme.len()]); c /= extreme.len(); }
            seqs.push(v);
        }
    }
    for _ in 0..(if tier == "thorough" { 600 } else { 120 }) {
        let n = 3 + rng.below(2);
        seqs.push((0..n).map(|_| if rng.unit() < 0.7 { *rng.pick(&extreme) } else { rng.normal() * 10f64.powi(rng.below(600) as i32 - 300) }).collect());
    }
    if tier == "thorough" {
        for _ in 0..300 { let n = 1 + rng.below(4); seqs.push((0..n).map(|_| crate::data::clamp_domain(rng.normal() * 10f64.powi(rng.below(40) as i32 - 20))).collect()); }
    }
    for v in seqs {
        for p in p_grid(rng, v.len(), nrand) {
            if !out.next_case() { continue; }
            let mut q = Quantile::new(p);
            for (i, &x) in v.iter().enumerate() {
                q.add(x);
                // operations that must not change anything: clone, clone_from, a serde round trip - at every sample size
                if (out.case as usize + i) % 4 == 0 {
                    let before = format!("{:?}", q);
                    let copy: Quantile = match (out.case as usize / 4 + i) % 4 {
                        0 => q.clone(),
                        1 => { let mut t = Quantile::new(0.5); t.add(9.0); t.clone_from(&q); t }
                        2 => serde_json::to_string(&q).ok().and_then(|js| serde_json::from_str(&js).ok()).unwrap_or_else(|| q.clone()),
                        _ => crate::binfmt::to_bytes(&q).ok().and_then(|b| crate::binfmt::from_bytes(&b).ok()).unwrap_or_else(|| Quantile::new(0.123)),
                    };
                    out.x(format!("{:?}", copy) == before, || format!("Quantile: clone / clone_from / serde round trip changed the state {} -> {:?}", before, copy));
                    q = copy;
                }
            }
            let pre = qwords(&q).join(" ");
            let est = q.quantile();
            out.t("Quantile", "quantile", &pre, "", &fw(est));
            out.o("qsmall", &[&fw(p), &fws(&v), &fw(est)]);
            out.note(&format!("len{}", v.len()));
        }
    }
}

pub fn c15(out: &mut Out, tier: &str, rng: &mut Rng) {
    let (l3, nlong) = if tier == "thorough" { (9, 100_000) } else { (7, 10_000) };
    // construction: valid and invalid p
    for p in [0.0, 1.0, 0.5, 1e-300, 1.0 - 1e-16, 5e-324, f64::from_bits(3), f64::MIN_POSITIVE, f64::from_bits(0x000f_ffff_ffff_ffff), f64::from_bits(0x3fef_ffff_ffff_ffff), 1.0 / 3.0, -0.0, -1e-300, 1.0000000000000002, 2.0, -1.0, f64::NAN, f64::INFINITY, f64::NEG_INFINITY] {
        if !out.next_case() { continue; }
        let r = catch_unwind(AssertUnwindSafe(|| Quantile::new(p)));
        let valid = p >= 0.0 && p <= 1.0;
        match &r {
            Ok(q) => { out.t("Quantile", "new", "", &fw(p), &qwords(q).join(" ")); out.x(valid, || format!("Quantile::new({:?}) did not panic", p)); c15_invariants(out, q, p, &[]);
                       let mut q2 = q.clone(); let mut seen = Vec::new(); for i in 0..7 { q2.add(i as f64 * 0.5); seen.push(i as f64 * 0.5); c15_invariants(out, &q2, p, &seen); } }
            Err(_) => { out.t("Quantile", "new", "", &fw(p), "panic"); out.x(!valid, || format!("Quantile::new({:?}) panicked", p)); }
        }
    }
    for &p in PS {
        if out.next_case() {
            let q = Quantile::new(p);
            c15_invariants(out, &q, p, &[]);
            dfs(out, &q, p, &[0.0, 1.0, 2.0], &mut Vec::new(), l3, true);
        }
        if out.next_case() {
            let q = Quantile::new(p);
            dfs(out, &q, p, &[-2.0, -2.0 + 1e-15, 5e-324, 1e300], &mut Vec::new(), l3.min(6), true);
        }
        if out.next_case() {
            // magnitudes near f64::MAX
            let q = Quantile::new(p);
            dfs(out, &q, p, &[-1.7e308, 1e308, 1.5e308, 0.0], &mut Vec::new(), std::env::var("AVGH_HUGE_LEN").ok().and_then(|v| v.parse().ok()).unwrap_or(6), true);
        }
    }
    for kind in 0..15 {
        for &p in &[0.0, 0.01, 0.3, 0.5, 0.97, 1.0] {
            let d = long_stream(rng, kind, if kind >= 8 { nlong / 4 } else { nlong });
            run_long(out, rng, p, &d, 97);
        }
    }
    // very long streams (beyond 2^20 and 2^21 observations), regenerated by the driver
    for (i, &n) in [(1u64 << 20) + 5, (1 << 21) + 3].iter().enumerate() {
        generated_stream(out, [0.3, 0.95][i], rng.next_u64(), n, [1.0, 1e6][i]);
    }
    if tier == "thorough" || std::env::var("AVGH_LONG").is_ok() {
        generated_stream(out, 0.9, rng.next_u64(), (1 << 26) + (1 << 16), 1.0);
    }
    // random p, random short and medium streams
    for _ in 0..(if tier == "thorough" { 400 } else { 80 }) {
        let p = rng.unit();
        let n = 1 + rng.below(300);
        let (d, _) = crate::data::dataset(rng, n, 1e6);
        run_long(out, rng, p, &d, 1);
    }
}
