#!/usr/bin/env python3
"""Regenerate MANIFEST.json from the table below (CLAIMED = properties whose check exists and passes)."""
import json, os, sys
ROOT = os.path.dirname(os.path.dirname(os.path.abspath(__file__)))

TECH = "Lean 4 theorems about a hand-written carrier-polymorphic model; model tied to /repo by a bit-exact Float correspondence check plus exact-arithmetic / discrete specification oracles"

# id: (claimed?, what the theorems carry, level_note = what is NOT carried by a theorem / trusted)
P = {
 "C01": ("E: fold of Variance.add/Mean.add = (n, mean, sum (x-mean)^2) for every list; accessors = textbook variances; permutation invariance. R0: sum_2 >= 0 under any monotone rounding. R2: forward-error bound of the running mean (10.1 n u M) for every stream length.",
         "The forward-error envelope is proved (standard model of rounding, no overflow) for mean() and, in C01b, for sum_2 / population_variance / sample_variance of add-only streams (linear in kappa, with an explicit second-order term n^2 u^2 M^2, so the corner n=1e6, kappa=1e12 is covered by the measured envelope only); variance_of_mean and error() are proved in C01c (rounded square root as a parameter). R-carrier theorems assume IEEE rounding is monotone / has relative error <= 2^-53 and no overflow. Correspondence Model[Float]=impl is checked on sampled operations, not proved."),
 "C02": ("E: (canon xs).merge (canon ys) = canon (xs++ys) for Mean..Kurtosis and define_moments! of every order; hence every binary merge tree over every chunking (empty and one-element chunks included) evaluates to canon of the concatenation; total length exact.",
         "R2 (C02b, C02c): the forward-error bounds of mean() (11 n u M) and of sum_2 / population_variance / sample_variance (linear in kappa, explicit second-order term) are proved through every merge tree. C02d-g: variance_of_mean / error, the stored third- and fourth-order sums (C02e, C02f) and the accessors skewness() / kurtosis() (C02g) are proved through every merge tree as well, with tree-dependent scales (V3T, V4T) and constants far above the 16 that the exact oracle checks on every run; for define_moments! entries after merges the envelope is measured, not proved. Correspondence checked on enumerated/sampled trees."),
 "C03": ("E/Real: Skewness/Kurtosis folds = canon (n, mean, S2, S3, S4); skewness() = m3/m2^1.5, kurtosis() = m4/m2^2-3 for non-zero spread; re-exported accessors = C01's.",
         "C03b-e: forward-error bounds linear in kappa are proved for the stored third- and fourth-order sums and for the accessors skewness() / kurtosis() on add-only streams (constants 280, 132128, 310, 132161 vs the checked 16; rounded square root as a parameter of the theorem); the constants the oracle checks are measured, not proved."),
 "C04": ("E: define_moments! add and merge of arbitrary order N preserve canon (binomial shift lemma, IterBinomial exact); central_moment(p) = m_p, standardized_moment(p) = m_p/sigma^p for all p <= N; agreement with Mean..Kurtosis as a corollary.",
         "C04c-e: forward-error bounds linear in kappa are proved for the second-, third- and fourth-order entries of define_moments! of every order on add-only streams (constants 8, 400, 181676); entries of order >= 5 and all entries after merges are measured against the exact oracle, not proved. u64 modelled as Nat (IterBinomial overflows only for N >= 62)."),
 "C05": ("O+order: under sorted marker heights, Quantile.add = the P-square step of the paper (cell search and position increments equal the order-free specification; marker 0 never moves), any carrier arithmetic; invariant n0 = 1, n4 = count.",
         "C05b: sortedness of the heights and model run = P-square run are also proved under rounded arithmetic (monotone idempotent rounding, relative error <= 1/4, exact small-integer casts, representable observations, no overflow); B.3 formulas are the same arithmetic in model and spec by the property's own wording. Overflow of the marker arithmetic is outside the theorems (see the C15 known finding)."),
 "C06": ("O+order: libcore's binary search contract (last equal index / partition point) on sorted edges; find = the unique half-open bin; NaN sample = out of range; add increments exactly that bin; totals = number of accepted adds.",
         "libcore binary_search_by is transcribed (rustc 1.96) and pinned by exhaustive differential runs, not verified from source."),
 "C07": ("E+floor: for 1..4 observations quantile() = exact sample quantile of the sorted sample; permutation invariant; p=0 min, p=1 max.",
         "float_ord sort modelled as a sort by a strict total order; ceil/conv_nearest modelled by Int.ceil."),
 "C08": ("E: weighted mean = sum wx / sum w, sum_weights, sum_weights_sq, effective_len, variance_of_weighted_mean formulas for every stream with non-negative weights and every merge tree; zero-weight observations change only the unweighted part (any position, first included).",
         "C08b-d: forward-error bounds are proved for the weighted mean (8 n u M), the weighted sums, effective_len and variance_of_weighted_mean / error, add-only and through every merge tree (standard model of rounding, non-negative weights); the tighter constants the oracle checks are measured."),
 "C09": ("E/Real: Covariance add/merge preserve canon (means, Sxx, Syy, Sxy) for every list of pairs and every merge tree; normalisations; x/y swap symmetry; |pearson| <= 1 (Cauchy-Schwarz).",
         "C09b: forward-error bounds for sum_x_2, sum_y_2, sum_prod, the variances and covariances of add-only pair streams are proved (standard model of rounding; one first-order term u Mx My that vanishes under IEEE exactness of the first mean); C09c-e: the same through every merge tree, and for pearson (48 n kappa u); the tighter constants the oracle checks are measured."),
 "C10": ("E/Real: sample_variance = population_variance*n/(n-1) for all five types; variance_of_mean, error; sample_skewness = sqrt(n(n-1))/(n-2) m3/m2^1.5 (n>=3); sample_excess_kurtosis = (n-1)/((n-2)(n-3)) ((n+1)(m4/m2^2-3)+6) (n>=4); small-n sentinels.",
         "C10b (+ C04c-e): every bias-corrected accessor is proved accurate for an arbitrary state in terms of the errors of the stored sums, and fully instantiated for add-only streams of Variance / Skewness / Kurtosis / define_moments! (powf(.,1.5) enters with its own accuracy parameter); after merges of define_moments! estimators the envelope is measured. powf(.,1.5) compared within 8 ulp (libm vs C pow)."),
 "C11": ("O (any carrier): merge a new = a and merge new a = a as structure equalities for every state a of every Merge type; len(merge a b) = len a + len b; is_empty iff len = 0; merge returns a new value and cannot modify its argument.",
         "WeightedMeanWithError / Min / Max need x+0=x resp. min(x,inf)=x: true of IEEE away from -0.0 / NaN, stated as hypotheses."),
 "C12": ("O+order: from_ranges accepts exactly the lists whose first LEN+1 values exist, are not NaN and are non-decreasing, with the error of the first offending position; edges returned unchanged, counts zero. R0: with_const_width edges are non-decreasing and edge 0 = start under any monotone rounding.",
         "C12b: closeness of with_const_width edges is proved in the standard model of rounding (8u max(|start|,|end|) for u <= 1/16; sharp polynomial bound for every u) and checked by the exact oracle. IEEE rounding properties are assumed."),
 "C13": ("O: merge = += = bin-wise sum for equal edges (commutative, associative, = histogram of concatenated samples); panic and no change for different edges; *=, reset, iter, widths, centers, normalized_bins; variance(i) = variances()[i].",
         "u64 overflow outside the model (Nat)."),
 "C14": ("O+order: Min/Max over any add/merge/from_value history = fold of min/max over the non-NaN observations; permutation, chunking and merge-order invariance.",
         "f64::min/max modelled (NaN-ignoring); zero signs compared as numbers."),
 "C15": ("E: len = count, is_empty, p() read-back, min <= quantile <= max in the small-sample branch (convex combination of stored observations); new panics outside [0,1]; invariant heights sorted with exact extremes preserved by the exact-arithmetic step.",
         "C15b: range and well-formedness are also proved under rounded arithmetic (no overflow). One known finding (KNOWN_FINDINGS.txt key=spread-overflow): when max-min exceeds f64::MAX the marker arithmetic overflows; the check reports it as KNOWN-FINDING and any other violation as VIOLATION."),
 "C16": ("O: the sentinel table (type x accessor x n in 0..4) by unfolding for any carrier; constant streams: mean = x and every higher sum = 0 under the carrier laws x-x=0, 0/n=0, a+0=a, 0*a=0.",
         "The carrier laws hold for IEEE on finite values up to the sign of zero (assumed)."),
 "C17": ("R0: sum_2 >= 0 after any add/merge history for Variance, Skewness, Kurtosis, Covariance, WeightedMeanWithError, Moments N under any monotone rounding, no restriction on conditioning; E: mean and weighted mean are convex combinations; 1 <= effective_len <= n; bin variance in [0, N/4].",
         "IEEE rounding assumed monotone with fl 0 = 0 (R0) resp. relative error <= 2^-53 (R2), no overflow. C17b: mean within [min,max] +- 11 n u M is proved for every merge tree (Mean, Variance, Skewness, Kurtosis, Covariance); for define_moments!/weighted means the rounded range is measured; effective_len and bin-variance bounds are exact-arithmetic theorems plus measured slack."),
 "C18": ("O: decode (encode s) = some s for every estimator type, hence any continuation run on the restored state equals the run on the original; encode is a pure function of the state.",
         "serde derive and serde_json (float_roundtrip) are external and trusted; the harness compares the JSON tree actually produced with encode, and restored states bit for bit."),
 "C19": ("E/O: the merge-tree theorems of C02/C04/C14 cover every order-preserving fold/reduce tree with identity leaves: len exact, min/max exact, statistics = canon of the input.",
         "Which trees rayon's scheduler produces is runtime behaviour; trees are recorded from real thread pools and replayed; the contract of fold/reduce is trusted."),
 "C20": ("O: from_iter = foldl add new; extend in pieces = from_iter of the concatenation; value and reference paths coincide; estimate = headline accessor; concatenate! fields = the individual estimators.",
         "Iterator plumbing of FromIterator/Extend is sampled by the harness (bitwise comparison of every path)."),
}

def main():
    claimed = sys.argv[1:]
    props = [json.loads(l) for l in open(os.path.join(ROOT, "properties.jsonl"))]
    checks, na = [], []
    for p in props:
        pid = p["id"]
        carried, note = P[pid]
        if pid in claimed:
            checks.append({
                "property_id": pid,
                "quick_cmd": f"./check {pid} quick",
                "thorough_cmd": f"./check {pid} thorough",
                "evidence_file": f"/verif/evidence/{pid}.json",
                "replay_cmd_template": "./check --replay {path}",
                "engine": "lean4-model-correspondence",
                "level_claimed": {"category": "proof",
                                  "text": "Machine-checked Lean 4 theorems about the model of the anchored code, for all inputs / lengths / trees / histories: " + carried + " The model is the same text that is compared bit for bit with the Rust implementation on every run.",
                                  "design_ref": f"DESIGN.md section 6 ({pid}), sections 3-5, 8"},
                "level_note": note,
                "technique": TECH,
            })
        else:
            na.append({"property_id": pid, "reason": "check under construction in this round; not claimed yet"})
    m = {"version": 1,
         "setup_cmd": "cd /verif/lean && lake build AvgModel AvgProofs Props avgdrv && cd /verif/harness && CARGO_NET_OFFLINE=true cargo build --release --offline && CARGO_NET_OFFLINE=true cargo build --offline && CARGO_NET_OFFLINE=true CARGO_TARGET_DIR=/verif/harness/target-nightly cargo +nightly build --release --offline --features nightly",
         "hooks": {"guard": "vks_average_verif",
                   "enable": "no source hooks are needed: the harness uses the public API plus Debug output (and serde for C18); nothing in /repo is guarded",
                   "baseline_off_cmd": "cd /repo && cargo test --workspace --no-fail-fast --offline",
                   "source_commits": [], "add_only": True},
         "engines": [{"name": "lean4-model-correspondence", "path": "/verif/check",
                      "serves_properties": claimed,
                      "kind_free_text": "Lean 4 proofs (lean/Props) over a hand-written model (lean/AvgModel); Rust harness (harness/) + compiled Lean driver (avgdrv) for the per-operation bit-exact correspondence and the exact-arithmetic oracles"}],
         "checks": checks,
         "not_applicable": na,
         "notes": "See DESIGN.md. Five genuine defects were repaired by fix: commits in /repo (KNOWN_FINDINGS.txt)."}
    json.dump(m, open(os.path.join(ROOT, "MANIFEST.json"), "w"), indent=1)
    print("claimed:", claimed)

main()
