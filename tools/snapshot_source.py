#!/usr/bin/env python3
"""Record the state of /repo's source that the model was validated against: the hash of every anchored file and the
configuration predicates (cfg atoms) the source depends on. Run after every commit to /repo (fix: commits) once all
checks pass; `check` widens its search when the current source differs from this snapshot - it never alarms on it."""
import hashlib, importlib.machinery, importlib.util, json, os, subprocess
ROOT = os.path.dirname(os.path.dirname(os.path.abspath(__file__)))
loader = importlib.machinery.SourceFileLoader("check", os.path.join(ROOT, "check"))
spec = importlib.util.spec_from_loader("check", loader)
check = importlib.util.module_from_spec(spec)
loader.exec_module(check)
files = set()
for l in open(os.path.join(ROOT, "properties.jsonl")):
    files.update(json.loads(l)["anchors"]["files"])
rec = {f: hashlib.sha256(open(os.path.join("/repo", f), "rb").read()).hexdigest() for f in sorted(files) if os.path.exists(os.path.join("/repo", f))}
head = subprocess.run(["git", "-C", "/repo", "rev-parse", "HEAD"], stdout=subprocess.PIPE, text=True).stdout.strip()
import re
libm = {f: len(re.findall(r'feature\s*=\s*"libm"', open(os.path.join("/repo", f), encoding="utf-8", errors="replace").read())) for f in rec}
json.dump({"repo_head": head, "files": rec, "cfg_atoms": check.cfg_atoms(), "libm_per_file": libm}, open(os.path.join(ROOT, "tools", "source_hashes.json"), "w"), indent=1, sort_keys=True)
print(json.dumps(check.cfg_atoms(), indent=1, sort_keys=True))
