#!/usr/bin/env python3
"""Confirm seeded changes and run the checks against them.

  tools/mutants.py confirm <id>...   in a scratch worktree: suite passes with the patch, demo fails with it,
                                     demo passes without it
  tools/mutants.py run <id>... [--all] [--tier quick]
                                     apply the patch to /repo, run the property's check (or all), undo
  tools/mutants.py import <id>...    copy /tmp/mut_out/<id>/ into /verif/seeded/<id>/ (patch.diff, demo.rs, README.md)

Results are merged into /verif/seeded/<id>/meta.json.
"""
import json, os, re, shutil, subprocess, sys, time

ROOT = os.path.dirname(os.path.dirname(os.path.abspath(__file__)))
SEEDED = os.path.join(ROOT, "seeded")
SRC = "/tmp/mut_out"
WT = "/tmp/confirm_wt"
REPO = os.environ.get("AVG_REPO", "/repo")
ENV = dict(os.environ, CARGO_NET_OFFLINE="true")


def sh(cmd, cwd=None, timeout=1800):
    r = subprocess.run(cmd, cwd=cwd, env=ENV, stdout=subprocess.PIPE, stderr=subprocess.STDOUT, text=True, timeout=timeout, shell=isinstance(cmd, str))
    return r.returncode, r.stdout


def meta_path(mid):
    return os.path.join(SEEDED, mid, "meta.json")


def load_meta(mid):
    p = meta_path(mid)
    return json.load(open(p)) if os.path.exists(p) else {"id": mid, "property": mid.split("_")[0]}


def save_meta(mid, m):
    json.dump(m, open(meta_path(mid), "w"), indent=1)


def do_import(mid):
    d = os.path.join(SEEDED, mid)
    os.makedirs(d, exist_ok=True)
    for f in ("patch.diff", "demo.rs", "README.md"):
        s = os.path.join(SRC, mid, f)
        if os.path.exists(s):
            shutil.copy(s, os.path.join(d, f))
    m = load_meta(mid)
    readme = os.path.join(d, "README.md")
    if os.path.exists(readme):
        m["author_notes"] = open(readme).read()[:3000]
    save_meta(mid, m)


def ensure_wt():
    if not os.path.isdir(WT):
        rc, out = sh(["git", "-C", "/repo", "worktree", "add", "--detach", WT, "HEAD"])
        assert rc == 0, out
    sh(["git", "checkout", "--", "."], cwd=WT)
    sh(["git", "clean", "-fdq", "tests", "src"], cwd=WT)
    # keep the scratch worktree at /repo's HEAD
    rc, head = sh(["git", "-C", "/repo", "rev-parse", "HEAD"])
    sh(["git", "checkout", "-q", "--detach", head.strip()], cwd=WT)


def results_line(out):
    return [l for l in out.splitlines() if l.startswith("test result")]


def confirm(mid):
    d = os.path.join(SEEDED, mid)
    ensure_wt()
    m = load_meta(mid)
    patch = os.path.join(d, "patch.diff")
    feats = "serde,rayon"
    # a change confined to src/histogram_const.rs is only compiled by the nightly toolchain with --features nightly
    ptxt = open(patch).read()
    touched = set(re.findall(r"^diff --git a/(\S+)", ptxt, re.M))
    nightly = touched == {"src/histogram_const.rs"}
    cargo = ["cargo", "+nightly"] if nightly else ["cargo"]
    if nightly:
        feats = "nightly,serde,rayon"
    demo_t = os.path.join(WT, "tests", "demo_mut.rs")
    # 1. demo passes without the patch
    shutil.copy(os.path.join(d, "demo.rs"), demo_t)
    rc0, out0 = sh(cargo + ["test", "--offline", "--features", feats, "--test", "demo_mut"], cwd=WT)
    # 2. apply patch: suite passes, demo fails
    rc, out = sh(["git", "apply", patch], cwd=WT)
    if rc != 0:
        m["confirmed"] = False
        m["confirm_note"] = "patch does not apply: " + out[-500:]
        save_meta(mid, m)
        ensure_wt()
        return m
    os.remove(demo_t)
    rc1, out1 = sh(["cargo", "test", "--workspace", "--no-fail-fast", "--offline"], cwd=WT)
    if nightly and rc1 == 0:
        rc1, out1 = sh(cargo + ["test", "--workspace", "--no-fail-fast", "--offline", "--features", "nightly"], cwd=WT)
    shutil.copy(os.path.join(d, "demo.rs"), demo_t)
    rc2, out2 = sh(cargo + ["test", "--offline", "--features", feats, "--test", "demo_mut"], cwd=WT)
    m["confirm"] = {
        "demo_without_patch": "pass" if rc0 == 0 else "FAIL",
        "suite_with_patch": "pass" if rc1 == 0 else "FAIL",
        "demo_with_patch": "fail" if rc2 != 0 else "PASS",
        "suite_summary": results_line(out1),
        "commands": [f"git apply patch.diff; cargo test --workspace --no-fail-fast --offline",
                     f"cargo test --offline --features {feats} --test demo_mut   (with and without the patch)"],
    }
    compiled = "error: could not compile" not in out2 and "error[E" not in out2
    m["confirmed"] = rc0 == 0 and rc1 == 0 and rc2 != 0 and compiled
    if not compiled:
        m["confirm"]["note"] = "demo does not compile with the patch: " + out2[-800:]
    if rc0 != 0:
        m["confirm"]["note0"] = out0[-800:]
    fresh = load_meta(mid)          # `run` may have written in the meantime
    fresh["confirm"], fresh["confirmed"] = m["confirm"], m["confirmed"]
    save_meta(mid, fresh)
    ensure_wt()
    return fresh


def run(mid, all_checks=False, tier="quick"):
    d = os.path.join(SEEDED, mid)
    m = load_meta(mid)
    rc, st = sh(["git", "-C", REPO, "status", "--porcelain"])
    assert st.strip() == "", REPO + " is not clean: " + st
    rc, out = sh(["git", "-C", REPO, "apply", os.path.join(d, "patch.diff")])
    assert rc == 0, out
    try:
        manifest = json.load(open(os.path.join(ROOT, "MANIFEST.json")))
        pids = [c["property_id"] for c in manifest["checks"]] if all_checks else [m["property"]]
        res = m.get("checks", {})
        for pid in pids:
            t0 = time.time()
            rc, out = sh([os.path.join(ROOT, "check"), pid, tier], cwd=ROOT)
            viol = [l for l in out.splitlines() if l.startswith("VIOLATION")]
            entry = {"tier": tier, "exit": rc, "violation_lines": viol, "wall_s": round(time.time() - t0, 1)}
            for v in viol:
                mm = re.search(r"replay=(\S+)", v)
                if mm and os.path.exists(mm.group(1)):
                    rep = json.load(open(mm.group(1)))
                    entry["replay_kind"] = rep.get("kind")
                    entry["replay_excerpt"] = (rep.get("failing_line") or rep.get("first_diverging_line") or str(rep.get("unchecked")))[:500]
            res[pid] = entry
        m["checks"] = res
        own = res.get(m["property"], {})
        m["caught"] = own.get("exit") == 1
        m["caught_with_input"] = m["caught"] and any("no-failing-input-found" not in v for v in own.get("violation_lines", []))
        m["caught_by_other_checks"] = sorted(p for p, e in res.items() if e.get("exit") == 1 and p != m["property"])
    finally:
        sh(["git", "-C", REPO, "checkout", "--", "."])
        # never leave a harness binary built from the patched crate behind
        if not os.environ.get("AVG_NO_REBUILD"):      # (the scratch lanes rebuild at the start of the next run anyway)
            sh(["cargo", "build", "--release", "--offline"], cwd=os.path.join(ROOT, "harness"))
        # the evidence files written while the patch was applied do not describe /repo: restore them
        sh(["git", "checkout", "--", "evidence"], cwd=ROOT)
    fresh = load_meta(mid)          # `confirm` may have written in the meantime
    for k in ("checks", "caught", "caught_with_input", "caught_by_other_checks"):
        if k in m:
            fresh[k] = m[k]
    save_meta(mid, fresh)
    return fresh


def main():
    cmd, ids = sys.argv[1], [a for a in sys.argv[2:] if not a.startswith("--")]
    all_checks = "--all" in sys.argv
    tier = "thorough" if "--thorough" in sys.argv else "quick"
    for mid in ids:
        if cmd == "import":
            do_import(mid)
            print("imported", mid)
        elif cmd == "confirm":
            m = confirm(mid)
            print(mid, "confirmed" if m.get("confirmed") else "NOT CONFIRMED", m.get("confirm", m.get("confirm_note")))
        elif cmd == "run":
            m = run(mid, all_checks, tier)
            own = m["checks"].get(m["property"], {})
            print(mid, "CAUGHT" if m["caught"] else "MISSED", "(with input)" if m.get("caught_with_input") else "", own.get("replay_kind"), "others:", m.get("caught_by_other_checks"))


if __name__ == "__main__":
    main()
