#!/bin/sh
# run every claimed check once (quick by default) and summarise
tier=${1:-quick}
cd "$(dirname "$0")/.."
rc=0
for i in 01 02 03 04 05 06 07 08 09 10 11 12 13 14 15 16 17 18 19 20; do
  out=$(./check C$i $tier 2>&1 | tail -2); echo "$out" | cut -c1-220
  echo "$out" | grep -q "^VIOLATION" && rc=1
done
exit $rc
