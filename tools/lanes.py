#!/usr/bin/env python3
"""Run seeded changes against the checks in parallel, each lane with its own scratch copy of /repo and /verif
(under /tmp/lanes, removed by `clean`), so that /repo itself is never touched.

  tools/lanes.py setup <n> [<verif-root>]   copies (incremental build output included); default root: this /verif
  tools/lanes.py run <id>...                distribute the ids over the lanes, print CAUGHT / MISSED per id
  tools/lanes.py run --merge <id>...        also merge each lane's seeded/<id>/meta.json back into this /verif
  tools/lanes.py clean
"""
import json, os, re, shutil, subprocess, sys, threading
ROOT = os.path.dirname(os.path.dirname(os.path.abspath(__file__)))
BASE = "/tmp/lanes"


def sh(cmd, **kw):
    return subprocess.run(cmd, stdout=subprocess.PIPE, stderr=subprocess.STDOUT, text=True, **kw)


def setup(n, root):
    os.makedirs(BASE, exist_ok=True)
    for k in range(n):
        lane = os.path.join(BASE, str(k))
        shutil.rmtree(lane, ignore_errors=True)
        os.makedirs(lane)
        r = sh(["git", "clone", "-q", "/repo", os.path.join(lane, "repo")]); assert r.returncode == 0, r.stdout
        v = os.path.join(lane, "verif")
        r = sh(["rsync", "-a", "--exclude", ".git", "--exclude", "replays", "--exclude", "work", root + "/", v + "/"]); assert r.returncode == 0, r.stdout
        ct = os.path.join(v, "harness", "Cargo.toml")
        s = open(ct).read().replace('path = "/repo"', f'path = "{lane}/repo"')
        open(ct, "w").write(s)
        sh(["git", "init", "-q"], cwd=v)          # mutants.py restores evidence with git; keep it harmless
    print("lanes:", n, "root:", root)


def lane_run(k, ids, results, merge):
    lane = os.path.join(BASE, str(k))
    env = dict(os.environ, AVG_REPO=os.path.join(lane, "repo"), CARGO_NET_OFFLINE="true", AVG_NO_REBUILD="1")
    for mid in ids:
        src = os.path.join(ROOT, "seeded", mid)
        dst = os.path.join(lane, "verif", "seeded", mid)
        if os.path.isdir(src):
            shutil.rmtree(dst, ignore_errors=True); shutil.copytree(src, dst)
        r = subprocess.run(["python3", os.path.join(lane, "verif", "tools", "mutants.py"), "run", mid], env=env, stdout=subprocess.PIPE, stderr=subprocess.STDOUT, text=True)
        line = [l for l in r.stdout.splitlines() if l.startswith(mid)]
        results[mid] = line[-1] if line else "ERROR " + r.stdout[-300:].replace("\n", " ")
        print(results[mid], flush=True)
        if merge and os.path.exists(os.path.join(dst, "meta.json")):
            m = json.load(open(os.path.join(dst, "meta.json")))
            tp = os.path.join(src, "meta.json")
            cur = json.load(open(tp)) if os.path.exists(tp) else {}
            for key in ("checks", "caught", "caught_with_input", "caught_by_other_checks"):
                if key in m:
                    cur[key] = m[key]
            json.dump(cur, open(tp, "w"), indent=1)


def main():
    cmd = sys.argv[1]
    if cmd == "setup":
        setup(int(sys.argv[2]), sys.argv[3] if len(sys.argv) > 3 else ROOT)
    elif cmd == "clean":
        shutil.rmtree(BASE, ignore_errors=True)
    elif cmd == "run":
        merge = "--merge" in sys.argv
        ids = [a for a in sys.argv[2:] if not a.startswith("--")]
        lanes = sorted(int(d) for d in os.listdir(BASE) if d.isdigit())
        # longest checks first, round robin
        results, threads = {}, []
        for i, k in enumerate(lanes):
            t = threading.Thread(target=lane_run, args=(k, ids[i::len(lanes)], results, merge)); t.start(); threads.append(t)
        for t in threads:
            t.join()
        missed = [m for m in ids if "MISSED" in results.get(m, "") or "ERROR" in results.get(m, "")]
        weak = [m for m in ids if "CAUGHT" in results.get(m, "") and "(with input)" not in results.get(m, "")]
        print(f"SUMMARY total={len(ids)} missed={missed} caught_without_input={weak}")


if __name__ == "__main__":
    main()
