import Props.C01
import Props.C02
import Props.C03
import Props.C04
import Props.C10
import Props.C17
import Props.C19
