import Props.C01
import Props.C02
import Props.C03
import Props.C19
