import Props.C01
