import AvgModel.Moments4
/-!
# `WeightedMean`, `WeightedMeanWithError`, `Covariance`, `Min`, `Max`
Mirrors `src/weighted_mean.rs`, `src/covariance.rs`, `src/minmax.rs`.
-/
namespace Avg

structure WeightedMean (α : Type) where
  weight_sum : α
  weighted_avg : α
deriving Repr, DecidableEq

structure WeightedMeanWithError (α : Type) where
  weight_sum_sq : α
  weighted_avg : WeightedMean α
  unweighted_avg : Variance α
deriving Repr, DecidableEq

structure Covariance (α : Type) where
  avg_x : α
  sum_x_2 : α
  avg_y : α
  sum_y_2 : α
  sum_prod : α
  n : Nat
deriving Repr, DecidableEq

structure Min (α : Type) where
  x : α
deriving Repr, DecidableEq

structure Max (α : Type) where
  x : α
deriving Repr, DecidableEq

variable {α : Type} [Add α] [Sub α] [Mul α] [Div α] [NatCast α] [FloatOps α]

/-! ## WeightedMean -/

def WeightedMean.new : WeightedMean α := ⟨((0:Nat):α), ((0:Nat):α)⟩
def WeightedMean.isEmpty (s : WeightedMean α) : Bool := FloatOps.eqb s.weight_sum ((0:Nat):α)
def WeightedMean.sumWeights (s : WeightedMean α) : α := s.weight_sum
def WeightedMean.mean (s : WeightedMean α) : α := if !s.isEmpty then s.weighted_avg else nan
def WeightedMean.add (s : WeightedMean α) (sample weight : α) : WeightedMean α :=
  let weight_sum := s.weight_sum + weight
  if FloatOps.eqb weight_sum ((0:Nat):α) then ⟨weight_sum, s.weighted_avg⟩ else
  let prev_avg := s.weighted_avg
  ⟨weight_sum, prev_avg + (weight / weight_sum) * (sample - prev_avg)⟩
def WeightedMean.merge (s o : WeightedMean α) : WeightedMean α :=
  if o.isEmpty then s else if s.isEmpty then o else
  let total_weight_sum := s.weight_sum + o.weight_sum
  ⟨total_weight_sum, (s.weight_sum * s.weighted_avg + o.weight_sum * o.weighted_avg) / total_weight_sum⟩

/-! ## WeightedMeanWithError -/

def WeightedMeanWithError.new : WeightedMeanWithError α := ⟨((0:Nat):α), WeightedMean.new, Variance.new⟩
def WeightedMeanWithError.add (s : WeightedMeanWithError α) (sample weight : α) : WeightedMeanWithError α :=
  ⟨s.weight_sum_sq + weight * weight, s.weighted_avg.add sample weight, s.unweighted_avg.add sample⟩
def WeightedMeanWithError.isEmpty (s : WeightedMeanWithError α) : Bool := s.unweighted_avg.isEmpty
def WeightedMeanWithError.sumWeights (s : WeightedMeanWithError α) : α := s.weighted_avg.sumWeights
def WeightedMeanWithError.sumWeightsSq (s : WeightedMeanWithError α) : α := s.weight_sum_sq
def WeightedMeanWithError.weightedMean (s : WeightedMeanWithError α) : α := s.weighted_avg.mean
def WeightedMeanWithError.unweightedMean (s : WeightedMeanWithError α) : α := s.unweighted_avg.mean
def WeightedMeanWithError.len (s : WeightedMeanWithError α) : Nat := s.unweighted_avg.len
def WeightedMeanWithError.effectiveLen (s : WeightedMeanWithError α) : α :=
  if s.isEmpty then ((0:Nat):α) else
  let weight_sum := s.weighted_avg.sumWeights
  weight_sum * weight_sum / s.weight_sum_sq
def WeightedMeanWithError.populationVariance (s : WeightedMeanWithError α) : α := s.unweighted_avg.populationVariance
def WeightedMeanWithError.sampleVariance (s : WeightedMeanWithError α) : α := s.unweighted_avg.sampleVariance
def WeightedMeanWithError.varianceOfWeightedMean (s : WeightedMeanWithError α) : α :=
  let weight_sum := s.weighted_avg.sumWeights
  if FloatOps.eqb weight_sum ((0:Nat):α) then nan else
  let inv_effective_len := s.weight_sum_sq / (weight_sum * weight_sum)
  s.sampleVariance * inv_effective_len
def WeightedMeanWithError.error (s : WeightedMeanWithError α) : α := FloatOps.sqrt s.varianceOfWeightedMean
def WeightedMeanWithError.merge (s o : WeightedMeanWithError α) : WeightedMeanWithError α :=
  ⟨s.weight_sum_sq + o.weight_sum_sq, s.weighted_avg.merge o.weighted_avg, s.unweighted_avg.merge o.unweighted_avg⟩

/-! ## Covariance -/

def Covariance.new : Covariance α := ⟨((0:Nat):α), ((0:Nat):α), ((0:Nat):α), ((0:Nat):α), ((0:Nat):α), 0⟩
def Covariance.add (s : Covariance α) (x y : α) : Covariance α :=
  let n1 := s.n + 1
  let n : α := n1
  let delta_x := x - s.avg_x
  let delta_x_n := delta_x / n
  let delta_y_n := (y - s.avg_y) / n
  let avg_x := s.avg_x + delta_x_n
  let sum_x_2 := s.sum_x_2 + delta_x_n * delta_x_n * n * (n - ((1:Nat):α))
  let avg_y := s.avg_y + delta_y_n
  let sum_y_2 := s.sum_y_2 + delta_y_n * delta_y_n * n * (n - ((1:Nat):α))
  let sum_prod := s.sum_prod + delta_x * (y - avg_y)
  ⟨avg_x, sum_x_2, avg_y, sum_y_2, sum_prod, n1⟩
def Covariance.populationCovariance (s : Covariance α) : α :=
  if s.n < 1 then nan else s.sum_prod / (s.n : α)
def Covariance.sampleCovariance (s : Covariance α) : α :=
  if s.n < 2 then nan else s.sum_prod / ((s.n - 1 : Nat) : α)
def Covariance.pearson (s : Covariance α) : α :=
  if s.n < 2 then nan else s.sum_prod / FloatOps.sqrt (s.sum_x_2 * s.sum_y_2)
def Covariance.len (s : Covariance α) : Nat := s.n
def Covariance.isEmpty (s : Covariance α) : Bool := s.n == 0
def Covariance.meanX (s : Covariance α) : α := if s.n > 0 then s.avg_x else nan
def Covariance.meanY (s : Covariance α) : α := if s.n > 0 then s.avg_y else nan
def Covariance.sampleVarianceX (s : Covariance α) : α :=
  if s.n < 2 then nan else s.sum_x_2 / ((s.n - 1 : Nat) : α)
def Covariance.populationVarianceX (s : Covariance α) : α :=
  if s.n = 0 then nan else s.sum_x_2 / (s.n : α)
def Covariance.sampleVarianceY (s : Covariance α) : α :=
  if s.n < 2 then nan else s.sum_y_2 / ((s.n - 1 : Nat) : α)
def Covariance.populationVarianceY (s : Covariance α) : α :=
  if s.n = 0 then nan else s.sum_y_2 / (s.n : α)
def Covariance.merge (s o : Covariance α) : Covariance α :=
  if o.n = 0 then s else if s.n = 0 then o else
  let delta_x := o.avg_x - s.avg_x
  let delta_y := o.avg_y - s.avg_y
  let len_self : α := s.n
  let len_other : α := o.n
  let len_total := len_self + len_other
  let avg_x := (len_self * s.avg_x + len_other * o.avg_x) / len_total
  let sum_x_2 := s.sum_x_2 + (o.sum_x_2 + delta_x*delta_x * len_self * len_other / len_total)
  let avg_y := (len_self * s.avg_y + len_other * o.avg_y) / len_total
  let sum_y_2 := s.sum_y_2 + (o.sum_y_2 + delta_y*delta_y * len_self * len_other / len_total)
  let sum_prod := s.sum_prod + (o.sum_prod + delta_x*delta_y * len_self * len_other / len_total)
  ⟨avg_x, sum_x_2, avg_y, sum_y_2, sum_prod, s.n + o.n⟩

/-! ## Min / Max -/

def Min.fromValue (x : α) : Min α := ⟨x⟩
def Min.new : Min α := ⟨FloatOps.posInf⟩
def Min.min (s : Min α) : α := s.x
def Min.add (s : Min α) (x : α) : Min α := ⟨FloatOps.fmin s.x x⟩
def Min.estimate (s : Min α) : α := s.min
def Min.merge (s o : Min α) : Min α := s.add o.x

def Max.fromValue (x : α) : Max α := ⟨x⟩
def Max.new : Max α := ⟨FloatOps.negInf⟩
def Max.max (s : Max α) : α := s.x
def Max.add (s : Max α) (x : α) : Max α := ⟨FloatOps.fmax s.x x⟩
def Max.estimate (s : Max α) : α := s.max
def Max.merge (s o : Max α) : Max α := s.add o.x

end Avg
