/-!
# Ingestion paths: `FromIterator`, `Extend`, plain `add` loops, `concatenate!`

Mirrors `impl_from_iterator!`, `impl_extend!` and `concatenate!` of `src/macros.rs` and the hand-written
`FromIterator`/`Extend` impls of the pair estimators (`src/weighted_mean.rs`, `src/covariance.rs`).
Every one of these bodies is `for i in iter { e.add(i) }` (value items), `for &i in iter { e.add(i) }`
(reference items), or `for (i, w) in iter { e.add(i, w) }` / `for &(i, w) in iter { ... }` (pair estimators),
on `e = Self::new()` (`from_iter`) or on `self` (`extend`).

Generic in the state type `σ` and the item type `β`; an estimator is given by its `new : σ` and its
`add : σ → β → σ`. A reference type is any `ρ` with a dereferencing map `deref : ρ → β` (`&'a f64 ↦ f64`,
pattern `&i`). This file imports nothing.
-/
namespace Avg
namespace Ingest

variable {σ σ₁ σ₂ β ρ γ δ : Type}

/-- `let mut e = ...; for x in xs { e.add(x) }; e` - the hand-written loop of a caller, by recursion on the
items exactly as a `for` loop consumes them. -/
def addLoop (add : σ → β → σ) : σ → List β → σ
  | e, [] => e
  | e, x :: xs => addLoop add (add e x) xs

/-- `FromIterator<f64>::from_iter`: `let mut e = new(); for i in iter { e.add(i) }; e` -/
def fromIter (new : σ) (add : σ → β → σ) (xs : List β) : σ := xs.foldl add new

/-- `Extend<f64>::extend`: `for i in iter { self.add(i) }` -/
def extend (add : σ → β → σ) (s : σ) (xs : List β) : σ := xs.foldl add s

/-- `FromIterator<&'a f64>::from_iter`: `let mut e = new(); for &i in iter { e.add(i) }; e` -/
def fromIterRef (deref : ρ → β) (new : σ) (add : σ → β → σ) (rs : List ρ) : σ :=
  rs.foldl (fun e r => add e (deref r)) new

/-- `Extend<&'a f64>::extend`: `for &i in iter { self.add(i) }` -/
def extendRef (deref : ρ → β) (add : σ → β → σ) (s : σ) (rs : List ρ) : σ :=
  rs.foldl (fun e r => add e (deref r)) s

/-- the two-argument `add(x, w)` of a pair estimator seen as a function of the item `(x, w)`:
`for (i, w) in iter { e.add(i, w) }` -/
def addPairItem (add2 : σ → γ → δ → σ) (s : σ) (p : γ × δ) : σ := add2 s p.1 p.2

/-- `concatenate!` with two fields: `add(x)` is `self.f1.add(x); self.f2.add(x);` -/
def addBoth (add₁ : σ₁ → β → σ₁) (add₂ : σ₂ → β → σ₂) (s : σ₁ × σ₂) (x : β) : σ₁ × σ₂ :=
  (add₁ s.1 x, add₂ s.2 x)

/-- `concatenate!` with any number of fields of one state type (each with its own `add`): the struct is the
list of field states, `add(x)` forwards `x` to every field in order. -/
def addAll (adds : List (σ → β → σ)) (ss : List σ) (x : β) : List σ :=
  List.zipWith (fun add s => add s x) adds ss

end Ingest
end Avg
