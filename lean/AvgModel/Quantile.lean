import AvgModel.Basic
/-!
# `Quantile` (P² algorithm)
Mirrors `src/quantile.rs`. `q, m, dm : [f64; 5]`, `n : [i64; 5]` (`Int`); `n[4]` is the sample size.
The loop `for i in 1..4` is three calls of `adjust`.
-/
namespace Avg

structure Quantile (α : Type) where
  q : V5 α
  n : V5 Int
  m : V5 α
  dm : V5 α
deriving Repr, DecidableEq

variable {α : Type} [Add α] [Sub α] [Mul α] [Div α] [NatCast α] [IntCast α] [FloatOps α]

/-- IEEE `a <= b` as the crate's comparisons see it: `a < b || a == b`. -/
def fle (a b : α) : Bool := FloatOps.lt a b || FloatOps.eqb a b

/-- `Quantile::new(p)`; `assert!((0. ..=1.).contains(&p))` panics for p outside [0,1] and for NaN. -/
def Quantile.new (p : α) : Outcome (Quantile α) :=
  if fle ((0:Nat):α) p && fle p ((1:Nat):α) then
    .val {
      q := ⟨((0:Nat):α), ((0:Nat):α), ((0:Nat):α), ((0:Nat):α), ((0:Nat):α)⟩
      n := ⟨1, 2, 3, 4, 0⟩
      m := ⟨((1:Nat):α), ((1:Nat):α) + ((2:Nat):α) * p, ((1:Nat):α) + ((4:Nat):α) * p,
            ((3:Nat):α) + ((2:Nat):α) * p, ((5:Nat):α)⟩
      dm := ⟨((0:Nat):α), p / ((2:Nat):α), p, (((1:Nat):α) + p) / ((2:Nat):α), ((1:Nat):α)⟩ }
  else .panic

def Quantile.p (s : Quantile α) : α := s.dm.a2
def Quantile.len (s : Quantile α) : Nat := s.n.a4.toNat
def Quantile.isEmpty (s : Quantile α) : Bool := s.len == 0

/-- `parabolic(i, d)` with `d = ±1` given as the integer `sg`. -/
def Quantile.parabolic (s : Quantile α) (i : Nat) (sg : Int) : α :=
  let d : α := (sg : α)
  let q := s.q.get
  let n := s.n.get
  q i + d / ((n (i+1) - n (i-1) : Int) : α)
      * (((n i - n (i-1) + sg : Int) : α) * (q (i+1) - q i) / ((n (i+1) - n i : Int) : α)
         + ((n (i+1) - n i - sg : Int) : α) * (q i - q (i-1)) / ((n i - n (i-1) : Int) : α))

/-- `linear(i, d)` -/
def Quantile.linear (s : Quantile α) (i : Nat) (sg : Int) : α :=
  let d : α := (sg : α)
  let sum := if sg < 0 then i - 1 else i + 1
  s.q.get i + d * (s.q.get sum - s.q.get i) / ((s.n.get sum - s.n.get i : Int) : α)

/-- the body of `if d >= 1. && ... || d <= -1. && ... { ... }` for the direction `sg = signum(d)` -/
def Quantile.move (s : Quantile α) (i : Nat) (sg : Int) : Quantile α :=
  let q_new := s.parabolic i sg
  let qi := if FloatOps.lt (s.q.get (i-1)) q_new && FloatOps.lt q_new (s.q.get (i+1)) then q_new
            else s.linear i sg
  { s with q := s.q.set i qi, n := s.n.set i (s.n.get i + sg) }

/-- one iteration of `for i in 1..4` ("adjust height of markers") -/
def Quantile.adjust (s : Quantile α) (i : Nat) : Quantile α :=
  let d := s.m.get i - ((s.n.get i : Int) : α)
  if fle ((1:Nat):α) d && decide (s.n.get (i+1) - s.n.get i > 1) then s.move i 1
  else if fle d (((-1:Int)):α) && decide (s.n.get (i-1) - s.n.get i < -1) then s.move i (-1)
  else s

/-- "find cell k": returns the new heights and `k` -/
def Quantile.cell (q : V5 α) (x : α) : V5 α × Nat :=
  if FloatOps.lt x q.a0 then ({ q with a0 := x }, 1)
  else
    let k := if FloatOps.lt x q.a1 then 1 else if FloatOps.lt x q.a2 then 2
             else if FloatOps.lt x q.a3 then 3 else if FloatOps.lt x q.a4 then 4 else 4
    let q := if FloatOps.lt q.a4 x then { q with a4 := x } else q
    (q, k)

/-- `for i in k..5 { n[i] += 1 }` -/
def incrFrom (k : Nat) (n : V5 Int) : V5 Int :=
  ⟨if k ≤ 0 then n.a0 + 1 else n.a0, if k ≤ 1 then n.a1 + 1 else n.a1,
   if k ≤ 2 then n.a2 + 1 else n.a2, if k ≤ 3 then n.a3 + 1 else n.a3,
   if k ≤ 4 then n.a4 + 1 else n.a4⟩

def Quantile.add (s : Quantile α) (x : α) : Quantile α :=
  if s.n.a4 < 5 then
    let q := s.q.set s.n.a4.toNat x
    let n4 := s.n.a4 + 1
    let q := if n4 = 5 then V5.ofList x (sortBy FloatOps.ordLt q.toList) else q
    { s with q := q, n := { s.n with a4 := n4 } }
  else
    let (q, k) := Quantile.cell s.q x
    let s : Quantile α := { s with q := q, n := incrFrom k s.n, m := V5.zipWith (· + ·) s.m s.dm }
    ((s.adjust 1).adjust 2).adjust 3

/-- `quantile()` -/
def Quantile.quantile (s : Quantile α) : α :=
  if s.len ≥ 5 then s.q.a2
  else if s.isEmpty then nan
  else
    let len := s.len
    let heights := sortBy FloatOps.ordLt ([s.q.a0, s.q.a1, s.q.a2, s.q.a3].take len)
    let desired_index := (len : α) * s.p - ((1:Nat):α)
    let index : Int := FloatOps.ceilInt desired_index
    if FloatOps.eqb desired_index (index : α) && decide (index ≥ 0) && decide (index.toNat < len - 1) then
      let a := heights.getD index.toNat nan
      let b := heights.getD (index.toNat + 1) nan
      FloatOps.fmin (FloatOps.fmax (((1:Nat):α) / ((2:Nat):α) * a + ((1:Nat):α) / ((2:Nat):α) * b) a) b
    else
      let index := (max index 0).toNat
      let index := min index (len - 1)
      heights.getD index nan

def Quantile.estimate (s : Quantile α) : α := s.quantile

end Avg
