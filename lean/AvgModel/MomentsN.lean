import AvgModel.Basic
/-!
# `define_moments!(T, N)`

Mirrors `define_moments_common!` in `src/moments/mod.rs`. The order `N = MAX_MOMENT` is an argument
of the operations; `m` has `N-1` entries, `m[p-2] = Σ (x - avg)^p`. The two nested loops of `add`
and `merge` are structural recursions on a fuel argument, with the same multiplicative updates and
the same order of additions into `m[p-2]`. `IterBinomial` is the `u64` recurrence `a*(n-k+1)/k`.
-/
namespace Avg

structure Moments (α : Type) where
  n : Nat
  avg : α
  m : List α
deriving Repr, DecidableEq

variable {α : Type} [Add α] [Sub α] [Mul α] [Div α] [Neg α] [NatCast α]

def Moments.new (N : Nat) : Moments α := ⟨0, ((0:Nat):α), List.replicate (N-1) ((0:Nat):α)⟩
def Moments.isEmpty (s : Moments α) : Bool := s.n == 0
def Moments.len (s : Moments α) : Nat := s.n
def Moments.mean [FloatOps α] (s : Moments α) : α := if s.n > 0 then s.avg else nan

/-- `num_traits::pow` (exponentiation by squaring, exactly as in num-traits 0.2): first loop. -/
def numPowEven : Nat → α → Nat → α × Nat
  | 0, base, exp => (base, exp)
  | fuel+1, base, exp => if exp % 2 = 0 ∧ exp ≠ 0 then numPowEven fuel (base * base) (exp / 2) else (base, exp)
/-- second loop of `num_traits::pow` -/
def numPowLoop : Nat → α → α → Nat → α
  | 0, _, acc, _ => acc
  | fuel+1, base, acc, exp =>
    if exp > 1 then
      let exp := exp / 2
      let base := base * base
      let acc := if exp % 2 = 1 then acc * base else acc
      numPowLoop fuel base acc exp
    else acc
def numPow (base : α) (exp : Nat) : α :=
  if exp = 0 then ((1:Nat):α) else
  let (base, exp) := numPowEven exp base exp
  if exp = 1 then base else numPowLoop exp base base exp

/-- `self.m[p-2] / n`, unguarded (`p ≥ 2`). -/
def Moments.cmRaw [FloatOps α] (s : Moments α) (p : Nat) : α :=
  match p with
  | 0 => ((1:Nat):α)
  | 1 => ((0:Nat):α)
  | _ => if s.n > 0 then s.m.getD (p - 2) nan / (s.n : α) else nan

/-- `central_moment(p)`; indexing `m[p-2]` beyond the array panics. -/
def Moments.centralMoment [FloatOps α] (N : Nat) (s : Moments α) (p : Nat) : Outcome α :=
  if p ≤ 1 ∨ s.n = 0 ∨ p ≤ N then .val (s.cmRaw p) else .panic

/-- `standardized_moment(p)`; `assert_ne!(variance, 0.)` is the documented panic. -/
def Moments.standardizedMoment [FloatOps α] (N : Nat) (s : Moments α) (p : Nat) : Outcome α :=
  match p with
  | 0 => .val (s.n : α)
  | 1 => .val ((0:Nat):α)
  | 2 => .val ((1:Nat):α)
  | _ =>
    let variance := s.cmRaw 2
    if FloatOps.eqb variance ((0:Nat):α) then .panic
    else match s.centralMoment N p with
      | .panic => .panic
      | .val c => .val (c / numPow (FloatOps.sqrt variance) p)

def Moments.sampleVariance [FloatOps α] (s : Moments α) : α :=
  if s.n < 2 then nan else s.m.getD 0 nan / ((s.n - 1 : Nat) : α)

def Moments.sampleSkewness [FloatOps α] (s : Moments α) : α :=
  if s.n = 0 then nan else if s.n = 1 then ((0:Nat):α) else
  let n : α := s.n
  if s.n < 3 then
    s.cmRaw 3 / FloatOps.pow15 (n * (s.cmRaw 2 / (n - ((1:Nat):α))))
  else
    FloatOps.sqrt (n * (n - ((1:Nat):α))) / (n - ((2:Nat):α)) * s.cmRaw 3 / FloatOps.pow15 (s.cmRaw 2)

def Moments.sampleExcessKurtosis [FloatOps α] (s : Moments α) : α :=
  if s.n < 4 then nan else
  let n : α := s.n
  (n + ((1:Nat):α)) * (n - ((1:Nat):α)) * s.cmRaw 4
      / ((n - ((2:Nat):α)) * (n - ((3:Nat):α)) * numPow (s.cmRaw 2) 2)
    - ((3:Nat):α) * numPow (n - ((1:Nat):α)) 2 / ((n - ((2:Nat):α)) * (n - ((3:Nat):α)))

/-- `for k in 1..(p-1) { coeff *= fc; acc += binom.next() as f64 * prev[p-2-k] * coeff }`;
    arguments: next `k`, remaining iterations, `coeff`, binomial `a = C(p,k-1)`, accumulator -/
def innerAdd (p : Nat) (prev : List α) (fc : α) : Nat → Nat → α → Nat → α → α
  | _, 0, _, _, acc => acc
  | k, fuel+1, coeff, a, acc =>
    let coeff := coeff * fc
    let a := a * (p - k + 1) / k
    innerAdd p prev fc (k+1) fuel coeff a (acc + (a : α) * prev.getD (p - 2 - k) ((0:Nat):α) * coeff)

/-- `for p in 2..=N { ... }` of `add`; arguments: `p`, remaining iterations, `term1`, `term2`, `coeff_delta` -/
def outerAdd (prev : List α) (delta f1 f2 fc : α) : Nat → Nat → α → α → α → List α
  | _, 0, _, _, _ => []
  | p, fuel+1, t1, t2, cd =>
    let t1 := t1 * f1
    let t2 := t2 * f2
    let cd := cd * delta
    let mp := prev.getD (p - 2) ((0:Nat):α) + (t1 + t2) * cd
    let mp := innerAdd p prev fc 1 (p - 2) ((1:Nat):α) 1 mp
    mp :: outerAdd prev delta f1 f2 fc (p+1) fuel t1 t2 cd

def Moments.add (N : Nat) (s : Moments α) (x : α) : Moments α :=
  let n1 := s.n + 1
  let delta := x - s.avg
  let n : α := n1
  let avg := s.avg + delta / n
  let over_n := ((1:Nat):α) / n
  let term1 := (n - ((1:Nat):α)) * (-over_n)
  let factor1 := -over_n
  let term2 := (n - ((1:Nat):α)) * over_n
  let factor2 := (n - ((1:Nat):α)) * over_n
  let factor_coeff := (-delta) * over_n
  ⟨n1, avg, outerAdd s.m delta factor1 factor2 factor_coeff 2 (N - 1) term1 term2 delta⟩

/-- inner loop of `merge`; arguments: next `k`, remaining iterations, `coeff_a`, `coeff_b`,
    `coeff_delta`, binomial `a = C(p,k-1)`, accumulator -/
def innerMerge (p : Nat) (prev other : List α) (fa fb delta : α) :
    Nat → Nat → α → α → α → Nat → α → α
  | _, 0, _, _, _, _, acc => acc
  | k, fuel+1, ca, cb, cd, a, acc =>
    let ca := ca * fa
    let cb := cb * fb
    let cd := cd * delta
    let a := a * (p - k + 1) / k
    innerMerge p prev other fa fb delta (k+1) fuel ca cb cd a
      (acc + (a : α) * cd * (prev.getD (p - 2 - k) ((0:Nat):α) * ca + other.getD (p - 2 - k) ((0:Nat):α) * cb))

/-- `for p in 2..=N { ... }` of `merge`; arguments: `p`, remaining iterations, `term_a`, `term_b` -/
def outerMerge (prev other : List α) (factor_a factor_b fa fb delta : α) : Nat → Nat → α → α → List α
  | _, 0, _, _ => []
  | p, fuel+1, ta, tb =>
    let ta := ta * factor_a
    let tb := tb * factor_b
    let mp := prev.getD (p - 2) ((0:Nat):α) + (other.getD (p - 2) ((0:Nat):α) + ta + tb)
    let mp := innerMerge p prev other fa fb delta 1 (p - 2) ((1:Nat):α) ((1:Nat):α) ((1:Nat):α) 1 mp
    mp :: outerMerge prev other factor_a factor_b fa fb delta (p+1) fuel ta tb

def Moments.merge (N : Nat) (s o : Moments α) : Moments α :=
  if o.n = 0 then s else if s.n = 0 then o else
  let n_a : α := s.n
  let n_b : α := o.n
  let delta := o.avg - s.avg
  let nn := s.n + o.n
  let n : α := nn
  let n_a_over_n := n_a / n
  let n_b_over_n := n_b / n
  let avg := s.avg + n_b_over_n * delta
  let factor_a := (-n_b_over_n) * delta
  let factor_b := n_a_over_n * delta
  let term_a := n_a * factor_a
  let term_b := n_b * factor_b
  ⟨nn, avg, outerMerge s.m o.m factor_a factor_b (-n_b_over_n) n_a_over_n delta 2 (N - 1) term_a term_b⟩

end Avg
