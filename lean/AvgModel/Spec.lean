import AvgModel.Basic
import AvgModel.Quantile
import AvgModel.Histogram
/-!
# Executable specifications (discrete parts)
Textbook / paper definitions the properties refer to, written independently of the crate's code and
import-free so that the driver can run them against the implementation:

* `PSquare`: the P² algorithm as in Jain & Chlamtac (1985), boxes A, B.1-B.3, markers 1..5 at
  indices 0..4, with the cell of B.1/B.2 in its declarative, order-free reading;
* `exactQuantile`: the sample p-quantile of 1..4 observations;
* `binOf`: the unique half-open bin containing a sample;
* `fromRangesSpec`: which edge lists `from_ranges` accepts.
-/
namespace Avg.Spec
open Avg

variable {α : Type} [Add α] [Sub α] [Mul α] [Div α] [NatCast α] [IntCast α] [FloatOps α]

/-! ## P² -/

/-- Box B.1: the extreme markers absorb the observation. -/
def psqHeights (q : V5 α) (x : α) : V5 α :=
  { q with a0 := if FloatOps.lt x q.a0 then x else q.a0,
           a4 := if FloatOps.lt q.a4 x then x else q.a4 }

/-- Box B.2 for the cell `q_k ≤ x < q_{k+1}`: markers `k+1..5` move up by one. With sorted heights this
    says: an interior marker's position grows iff the observation lies below its height; the
    maximum marker's always does, the minimum marker's never does. -/
def psqPositions (q : V5 α) (x : α) (n : V5 Int) : V5 Int :=
  ⟨n.a0, if FloatOps.lt x q.a1 then n.a1 + 1 else n.a1, if FloatOps.lt x q.a2 then n.a2 + 1 else n.a2,
   if FloatOps.lt x q.a3 then n.a3 + 1 else n.a3, n.a4 + 1⟩

/-- the piecewise-parabolic (P²) prediction for marker `i`, `d = ±1` -/
def psqParabolic (q : V5 α) (n : V5 Int) (i : Nat) (d : Int) : α :=
  let qi := q.get i; let qp := q.get (i+1); let qm := q.get (i-1)
  let ni := n.get i; let np := n.get (i+1); let nm := n.get (i-1)
  qi + ((d : Int) : α) / ((np - nm : Int) : α)
        * (((ni - nm + d : Int) : α) * (qp - qi) / ((np - ni : Int) : α)
           + ((np - ni - d : Int) : α) * (qi - qm) / ((ni - nm : Int) : α))

/-- the linear prediction towards the neighbour in direction `d` -/
def psqLinear (q : V5 α) (n : V5 Int) (i : Nat) (d : Int) : α :=
  let j := if d < 0 then i - 1 else i + 1
  q.get i + ((d : Int) : α) * (q.get j - q.get i) / ((n.get j - n.get i : Int) : α)

/-- Box B.3 for marker `i ∈ {1,2,3}` (0-based) -/
def psqAdjust (q : V5 α) (n : V5 Int) (m : V5 α) (i : Nat) : V5 α × V5 Int :=
  let d := m.get i - ((n.get i : Int) : α)
  let dir : Int :=
    if (fle ((1:Nat):α) d) && decide (n.get (i+1) - n.get i > 1) then 1
    else if (fle d (((-1:Int)):α)) && decide (n.get (i-1) - n.get i < -1) then -1
    else 0
  if dir = 0 then (q, n) else
    let q' := psqParabolic q n i dir
    let qi := if FloatOps.lt (q.get (i-1)) q' && FloatOps.lt q' (q.get (i+1)) then q'
              else psqLinear q n i dir
    (q.set i qi, n.set i (n.get i + dir))

structure PSq (α : Type) where
  q : V5 α
  n : V5 Int
  np : V5 α     -- desired positions n'
  dn : V5 α     -- increments dn'
  count : Nat

/-- Box A: the first five observations, sorted; positions 1..5; desired positions from p -/
def psqInit (p : α) (first5 : List α) : PSq α :=
  { q := V5.ofList p (sortBy FloatOps.ordLt first5)
    n := ⟨1, 2, 3, 4, 5⟩
    np := ⟨((1:Nat):α), ((1:Nat):α) + ((2:Nat):α) * p, ((1:Nat):α) + ((4:Nat):α) * p,
           ((3:Nat):α) + ((2:Nat):α) * p, ((5:Nat):α)⟩
    dn := ⟨((0:Nat):α), p / ((2:Nat):α), p, (((1:Nat):α) + p) / ((2:Nat):α), ((1:Nat):α)⟩
    count := 5 }

/-- Box B for one further observation -/
def psqStep (s : PSq α) (x : α) : PSq α :=
  let q := psqHeights s.q x
  let n := psqPositions s.q x s.n
  let np := V5.zipWith (· + ·) s.np s.dn
  let (q, n) := psqAdjust q n np 1
  let (q, n) := psqAdjust q n np 2
  let (q, n) := psqAdjust q n np 3
  { s with q := q, n := n, np := np, count := s.count + 1 }

/-- the whole algorithm on a stream of at least five observations -/
def psqRun (p : α) (xs : List α) : PSq α :=
  (xs.drop 5).foldl psqStep (psqInit p (xs.take 5))

/-! ## Histograms -/

/-- "the bin `i` with `lower_i ≤ x < upper_i`", searched from the left over all bins -/
def binOf (range : List α) (x : α) : Option Nat :=
  (List.range (range.length - 1)).find? fun i =>
    match range[i]?, range[i+1]? with
    | some lo, some hi => fle lo x && FloatOps.lt x hi
    | _, _ => false

/-- acceptance of an edge list by `from_ranges`: scan the first `LEN+1` positions in order -/
def fromRangesSpec (LEN : Nat) (l : List α) : Except InvalidRangeError (List α) :=
  let rec go : Nat → Option α → List α → Option InvalidRangeError
    | 0, _, _ => none
    | _+1, _, [] => some .notEnoughRanges
    | k+1, prev, r :: rest =>
      if FloatOps.isNaN r then some .nan
      else match prev with
        | some p => if FloatOps.lt r p then some .notSorted else go k (some r) rest
        | none => go k (some r) rest
  match go (LEN + 1) none l with
  | some e => .error e
  | none => .ok (l.take (LEN + 1))

end Avg.Spec
