/-!
# Carrier classes and small containers shared by the whole model

The model of every estimator is written once, polymorphic in the number type `α`
("carrier"). Arithmetic uses the core classes `Add Sub Mul Div Neg NatCast IntCast`;
everything else the crate does with an `f64` goes through `FloatOps`.
This file imports nothing, so the model links into the `avgdrv` executable.
-/
namespace Avg

/-- What the crate uses of `f64` besides `+ - * /`, unary minus and integer casts. -/
class FloatOps (α : Type) where
  /-- `f64::NAN` -/
  nan : α
  /-- `f64::INFINITY` -/
  posInf : α
  /-- `f64::NEG_INFINITY` -/
  negInf : α
  /-- `num_traits::Float::sqrt` -/
  sqrt : α → α
  /-- `num_traits::Float::powf(x, 1.5)` -/
  pow15 : α → α
  /-- IEEE `<` -/
  lt : α → α → Bool
  /-- IEEE `==` -/
  eqb : α → α → Bool
  /-- `f64::is_nan` -/
  isNaN : α → Bool
  /-- `f64::min`: the other operand if one is NaN -/
  fmin : α → α → α
  /-- `f64::max`: the other operand if one is NaN -/
  fmax : α → α → α
  /-- `i64::conv_nearest (x.ceil())` for the small values `Quantile::quantile` uses -/
  ceilInt : α → Int
  /-- the total order of `float_ord::FloatOrd` (equals `<` away from NaN and signed zeros) -/
  ordLt : α → α → Bool

export FloatOps (nan)

/-- Result of a call that may hit a Rust `panic!` (`assert!`, `unwrap`, index out of bounds). -/
inductive Outcome (β : Type) where
  | val (b : β)
  | panic
deriving Repr, DecidableEq

/-- Five-element array (`[T; 5]` in `Quantile`). -/
structure V5 (β : Type) where
  (a0 a1 a2 a3 a4 : β)
deriving Repr, DecidableEq

namespace V5
variable {β : Type}

/-- `v[i]` for `i < 5` (index 4 for anything larger; the model never asks). -/
def get (v : V5 β) : Nat → β
  | 0 => v.a0 | 1 => v.a1 | 2 => v.a2 | 3 => v.a3 | _ => v.a4

/-- `v[i] = x` for `i < 5`. -/
def set (v : V5 β) (i : Nat) (x : β) : V5 β :=
  match i with
  | 0 => { v with a0 := x } | 1 => { v with a1 := x } | 2 => { v with a2 := x }
  | 3 => { v with a3 := x } | _ => { v with a4 := x }

def toList (v : V5 β) : List β := [v.a0, v.a1, v.a2, v.a3, v.a4]

def ofList (d : β) (l : List β) : V5 β :=
  ⟨l.getD 0 d, l.getD 1 d, l.getD 2 d, l.getD 3 d, l.getD 4 d⟩

def zipWith {γ δ : Type} (f : β → γ → δ) (a : V5 β) (b : V5 γ) : V5 δ :=
  ⟨f a.a0 b.a0, f a.a1 b.a1, f a.a2 b.a2, f a.a3 b.a3, f a.a4 b.a4⟩
end V5

/-- insertion of `x` into a list sorted by `lt` (after all elements not greater than it) -/
def insertSorted {β : Type} (lt : β → β → Bool) (x : β) : List β → List β
  | [] => [x]
  | y :: ys => if lt x y then x :: y :: ys else y :: insertSorted lt x ys

/-- Sorting by a strict order given as a Boolean test (insertion sort). For a strict total order
the result is the unique sorted permutation, whatever algorithm the implementation uses. -/
def sortBy {β : Type} (lt : β → β → Bool) : List β → List β
  | [] => []
  | x :: xs => insertSorted lt x (sortBy lt xs)

end Avg
