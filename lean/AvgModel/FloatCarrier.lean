import AvgModel.Basic
/-!
# The carrier `Float` (IEEE-754 binary64)
Reading the model at this carrier gives the executable that must agree with the Rust build bit for bit.
-/
namespace Avg

instance : NatCast Float := ⟨Float.ofNat⟩
instance : IntCast Float := ⟨Float.ofInt⟩

/-- `FloatOrd::convert`: the unsigned key of float_ord's total order -/
def floatOrdKey (x : Float) : UInt64 :=
  let u := x.toBits
  let bit : UInt64 := 0x8000000000000000
  if u &&& bit == 0 then u ||| bit else ~~~u

def fnan : Float := 0.0 / 0.0

instance : FloatOps Float where
  nan := fnan
  posInf := 1.0 / 0.0
  negInf := -1.0 / 0.0
  sqrt := Float.sqrt
  pow15 := fun x => Float.pow x 1.5
  lt := fun a b => decide (a < b)
  eqb := fun a b => a == b
  isNaN := Float.isNaN
  fmin := fun a b => if a.isNaN then b else if b.isNaN then a else if b < a then b else a
  fmax := fun a b => if a.isNaN then b else if b.isNaN then a else if a < b then b else a
  ceilInt := fun x => (Float.ceil x).toInt64.toInt
  ordLt := fun a b => floatOrdKey a < floatOrdKey b

end Avg
