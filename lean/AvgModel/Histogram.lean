import AvgModel.Basic
/-!
# `define_histogram!` / `histogram_const::Histogram<LEN>`
Mirrors `src/histogram.rs` and `src/histogram_const.rs` (the two files have the same bodies) and the
views of `src/traits.rs`. `range : [f64; LEN+1]` and `bin : [u64; LEN]` are lists, `LEN` is an argument
of the constructors. `binarySearchBy` transcribes libcore's `slice::binary_search_by` (rustc 1.96).
-/
namespace Avg

structure Hist (α : Type) where
  range : List α
  bin : List Nat
deriving Repr, DecidableEq

inductive InvalidRangeError where
  | notEnoughRanges | notSorted | nan
deriving Repr, DecidableEq

/-- `Result<usize, SampleOutOfRangeError>` or a panic -/
inductive FindRes where
  | ok (i : Nat)
  | outOfRange
  | panic
deriving Repr, DecidableEq

/-- `Result<usize, usize>` of `binary_search_by` -/
inductive BSRes where
  | found (i : Nat)
  | notFound (i : Nat)
deriving Repr, DecidableEq

/-- libcore: `while size > 1 { half = size/2; mid = base+half; base = if cmp(mid) == Greater {base} else {mid}; size -= half }` -/
def bsLoop (f : Nat → Ordering) (base size : Nat) : Nat :=
  if _h : 1 < size then
    let half := size / 2
    let mid := base + half
    bsLoop f (if f mid = .gt then base else mid) (size - half)
  else base
termination_by size
decreasing_by omega

/-- libcore `binary_search_by` on a slice of length `len`, `f i = cmp(slice[i])` -/
def binarySearchBy (len : Nat) (f : Nat → Ordering) : BSRes :=
  if len = 0 then .notFound 0 else
  let base := bsLoop f 0 len
  match f base with
  | .eq => .found base
  | .lt => .notFound (base + 1)
  | .gt => .notFound base

variable {α : Type} [Add α] [Sub α] [Mul α] [Div α] [NatCast α] [FloatOps α]

/-- `p.partial_cmp(&x)`: `None` iff one operand is NaN -/
def partialCmp (p x : α) : Option Ordering :=
  if FloatOps.lt p x then some .lt
  else if FloatOps.eqb p x then some .eq
  else if FloatOps.lt x p then some .gt
  else none

/-- `with_const_width(start, end)` -/
def Hist.withConstWidth (LEN : Nat) (start end_ : α) : Hist α :=
  let step := (end_ - start) / (LEN : α)
  ⟨(List.range (LEN + 1)).map (fun (i : Nat) => start + step * ((i : Nat) : α)), List.replicate LEN 0⟩

/-- the loop of `from_ranges`: position `i`, the edges accepted so far (reversed), remaining input -/
def fromRangesLoop (LEN : Nat) : Nat → List α → List α → Except InvalidRangeError (List α)
  | _, acc, [] => .ok acc
  | i, acc, r :: rest =>
    if i > LEN then .ok acc
    else if FloatOps.isNaN r then .error .nan
    else match acc with
      | prev :: _ => if FloatOps.lt r prev then .error .notSorted else fromRangesLoop LEN (i+1) (r :: acc) rest
      | [] => fromRangesLoop LEN (i+1) (r :: acc) rest

/-- `from_ranges(ranges)` -/
def Hist.fromRanges (LEN : Nat) (ranges : List α) : Except InvalidRangeError (Hist α) :=
  match fromRangesLoop LEN 0 [] ranges with
  | .error e => .error e
  | .ok acc =>
    -- `last_i` is the index of the last accepted value (0 if there was none)
    if acc.length - 1 ≠ LEN then .error .notEnoughRanges
    else .ok ⟨acc.reverse, List.replicate LEN 0⟩

/-- `find(x)`; `LEN = bin.len()` -/
def Hist.find (h : Hist α) (x : α) : FindRes :=
  let LEN := h.bin.length
  if FloatOps.isNaN x then .outOfRange else
  -- `partial_cmp(..).unwrap()` panics on the first probe that is incomparable
  if (h.range.any fun p => (partialCmp p x).isNone) then .panic else
  match binarySearchBy h.range.length (fun i => ((partialCmp (h.range.getD i x) x).getD .eq)) with
  | .found i => if i < LEN then .ok i else .outOfRange
  | .notFound i => if i > 0 ∧ i < LEN + 1 then .ok (i - 1) else .outOfRange

/-- `add(x)`: the new histogram and whether the sample was accepted -/
def Hist.add (h : Hist α) (x : α) : Outcome (Hist α × Bool) :=
  match h.find x with
  | .ok i => .val (⟨h.range, h.bin.set i (h.bin.getD i 0 + 1)⟩, true)
  | .outOfRange => .val (h, false)
  | .panic => .panic

def Hist.reset (h : Hist α) : Hist α := ⟨h.range, List.replicate h.bin.length 0⟩
def Hist.rangeMin (h : Hist α) : α := h.range.getD 0 nan
def Hist.rangeMax (h : Hist α) : α := h.range.getD h.bin.length nan

/-- `a == b` on every pair of edges, as `assert_eq!` sees it -/
def Hist.sameRanges (a b : Hist α) : Bool :=
  (List.zipWith (fun x y => FloatOps.eqb x y) a.range b.range).all id

/-- `merge` and `+=` (identical bodies apart from one length assertion that always holds) -/
def Hist.merge (a b : Hist α) : Outcome (Hist α) :=
  if a.sameRanges b then .val ⟨a.range, List.zipWith (· + ·) a.bin b.bin⟩ else .panic
def Hist.addAssign (a b : Hist α) : Outcome (Hist α) := a.merge b
/-- `*= k` -/
def Hist.mulAssign (a : Hist α) (k : Nat) : Hist α := ⟨a.range, a.bin.map (· * k)⟩

/-- `iter()`: `((lower, upper), count)` in edge order -/
def Hist.iter (h : Hist α) : List ((α × α) × Nat) :=
  (List.range h.bin.length).map fun i => ((h.range.getD i nan, h.range.getD (i+1) nan), h.bin.getD i 0)

def multinomialVariance (n n_tot_inv : α) : α := n * (((1:Nat):α) - n * n_tot_inv)

def Hist.total (h : Hist α) : Nat := h.bin.foldl (· + ·) 0
def Hist.variance (h : Hist α) (i : Nat) : Outcome α :=
  if i < h.bin.length then
    .val (multinomialVariance ((h.bin.getD i 0 : Nat) : α) (((1:Nat):α) / ((h.total : Nat) : α)))
  else .panic
def Hist.variances (h : Hist α) : List α :=
  let sum_inv := ((1:Nat):α) / ((h.total : Nat) : α)
  h.iter.map fun (_, n) => multinomialVariance ((n : Nat) : α) sum_inv
def Hist.widths (h : Hist α) : List α := h.iter.map fun ((a, b), _) => b - a
def Hist.centers (h : Hist α) : List α :=
  h.iter.map fun ((a, b), _) => ((1:Nat):α) / ((2:Nat):α) * (a + b)
def Hist.normalizedBins (h : Hist α) : List α := h.iter.map fun ((a, b), c) => ((c : Nat) : α) / (b - a)

end Avg
