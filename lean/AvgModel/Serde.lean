import AvgModel.Moments4
import AvgModel.MomentsN
import AvgModel.Weighted
import AvgModel.Quantile
import AvgModel.Histogram
/-!
# The serde data contract
`encode` lists, field by field and in declaration order, what `#[derive(Serialize)]` emits for each
estimator (a self-describing tree: structs are maps keyed by field name, arrays are sequences,
`f64`/`u64`/`i64` are leaves); `decode` is the inverse that `#[derive(Deserialize)]` implements on
such a tree. The harness compares the tree serde_json actually produces with `encode` of the state.
-/
namespace Avg

inductive Tree (α : Type) where
  | flt (x : α)
  | int (n : Int)
  | arr (l : List (Tree α))
  | obj (l : List (String × Tree α))
deriving Repr

namespace Tree
variable {α : Type}

def getFlt : Tree α → Option α | .flt x => some x | _ => none
def getNat : Tree α → Option Nat | .int n => if n ≥ 0 then some n.toNat else none | _ => none
def getInt : Tree α → Option Int | .int n => some n | _ => none
def fltArr (l : List α) : Tree α := .arr (l.map .flt)
def natArr (l : List Nat) : Tree α := .arr (l.map fun (n : Nat) => .int (n : Int))
def intArr (l : List Int) : Tree α := .arr (l.map .int)
def getFltArr (len : Nat) : Tree α → Option (List α)
  | .arr l => if l.length = len then l.mapM getFlt else none
  | _ => none
def getNatArr (len : Nat) : Tree α → Option (List Nat)
  | .arr l => if l.length = len then l.mapM getNat else none
  | _ => none
def getIntArr (len : Nat) : Tree α → Option (List Int)
  | .arr l => if l.length = len then l.mapM getInt else none
  | _ => none

/-- flat token stream (used to compare with what the harness observed) -/
partial def tokens (f : α → String) : Tree α → List String
  | .flt x => [f x]
  | .int n => [s!"i:{n}"]
  | .arr l => ["["] ++ (l.map (tokens f)).flatten ++ ["]"]
  | .obj l => ["{"] ++ (l.map fun (k, t) => (k ++ "=") :: tokens f t).flatten ++ ["}"]
end Tree

variable {α : Type}
open Tree

def Mean.encode (s : Mean α) : Tree α := .obj [("avg", .flt s.avg), ("n", .int s.n)]
def Mean.decode : Tree α → Option (Mean α)
  | .obj [("avg", a), ("n", n)] => do some ⟨← a.getFlt, ← n.getNat⟩
  | _ => none

def Variance.encode (s : Variance α) : Tree α := .obj [("avg", s.avg.encode), ("sum_2", .flt s.sum_2)]
def Variance.decode : Tree α → Option (Variance α)
  | .obj [("avg", a), ("sum_2", x)] => do some ⟨← Mean.decode a, ← x.getFlt⟩
  | _ => none

def Skewness.encode (s : Skewness α) : Tree α := .obj [("avg", s.avg.encode), ("sum_3", .flt s.sum_3)]
def Skewness.decode : Tree α → Option (Skewness α)
  | .obj [("avg", a), ("sum_3", x)] => do some ⟨← Variance.decode a, ← x.getFlt⟩
  | _ => none

def Kurtosis.encode (s : Kurtosis α) : Tree α := .obj [("avg", s.avg.encode), ("sum_4", .flt s.sum_4)]
def Kurtosis.decode : Tree α → Option (Kurtosis α)
  | .obj [("avg", a), ("sum_4", x)] => do some ⟨← Skewness.decode a, ← x.getFlt⟩
  | _ => none

def Moments.encode (s : Moments α) : Tree α :=
  .obj [("n", .int s.n), ("avg", .flt s.avg), ("m", fltArr s.m)]
def Moments.decode (N : Nat) : Tree α → Option (Moments α)
  | .obj [("n", n), ("avg", a), ("m", m)] => do some ⟨← n.getNat, ← a.getFlt, ← m.getFltArr (N - 1)⟩
  | _ => none

def Min.encode (s : Min α) : Tree α := .obj [("x", .flt s.x)]
def Min.decode : Tree α → Option (Min α)
  | .obj [("x", x)] => do some ⟨← x.getFlt⟩
  | _ => none
def Max.encode (s : Max α) : Tree α := .obj [("x", .flt s.x)]
def Max.decode : Tree α → Option (Max α)
  | .obj [("x", x)] => do some ⟨← x.getFlt⟩
  | _ => none

def WeightedMean.encode (s : WeightedMean α) : Tree α :=
  .obj [("weight_sum", .flt s.weight_sum), ("weighted_avg", .flt s.weighted_avg)]
def WeightedMean.decode : Tree α → Option (WeightedMean α)
  | .obj [("weight_sum", a), ("weighted_avg", b)] => do some ⟨← a.getFlt, ← b.getFlt⟩
  | _ => none

def WeightedMeanWithError.encode (s : WeightedMeanWithError α) : Tree α :=
  .obj [("weight_sum_sq", .flt s.weight_sum_sq), ("weighted_avg", s.weighted_avg.encode),
        ("unweighted_avg", s.unweighted_avg.encode)]
def WeightedMeanWithError.decode : Tree α → Option (WeightedMeanWithError α)
  | .obj [("weight_sum_sq", a), ("weighted_avg", b), ("unweighted_avg", c)] => do
      some ⟨← a.getFlt, ← WeightedMean.decode b, ← Variance.decode c⟩
  | _ => none

def Covariance.encode (s : Covariance α) : Tree α :=
  .obj [("avg_x", .flt s.avg_x), ("sum_x_2", .flt s.sum_x_2), ("avg_y", .flt s.avg_y),
        ("sum_y_2", .flt s.sum_y_2), ("sum_prod", .flt s.sum_prod), ("n", .int s.n)]
def Covariance.decode : Tree α → Option (Covariance α)
  | .obj [("avg_x", a), ("sum_x_2", b), ("avg_y", c), ("sum_y_2", d), ("sum_prod", e), ("n", n)] => do
      some ⟨← a.getFlt, ← b.getFlt, ← c.getFlt, ← d.getFlt, ← e.getFlt, ← n.getNat⟩
  | _ => none

def V5.ofList? {β : Type} : List β → Option (V5 β)
  | [a, b, c, d, e] => some ⟨a, b, c, d, e⟩
  | _ => none

def Quantile.encode (s : Quantile α) : Tree α :=
  .obj [("q", fltArr s.q.toList), ("n", intArr s.n.toList), ("m", fltArr s.m.toList), ("dm", fltArr s.dm.toList)]
def Quantile.decode : Tree α → Option (Quantile α)
  | .obj [("q", q), ("n", n), ("m", m), ("dm", dm)] => do
      some ⟨← V5.ofList? (← q.getFltArr 5), ← V5.ofList? (← n.getIntArr 5),
            ← V5.ofList? (← m.getFltArr 5), ← V5.ofList? (← dm.getFltArr 5)⟩
  | _ => none

def Hist.encode (h : Hist α) : Tree α := .obj [("range", fltArr h.range), ("bin", natArr h.bin)]
def Hist.decode (LEN : Nat) : Tree α → Option (Hist α)
  | .obj [("range", r), ("bin", b)] => do some ⟨← r.getFltArr (LEN + 1), ← b.getNatArr LEN⟩
  | _ => none

end Avg
