import AvgModel.Basic
/-!
# `Mean`, `Variance` (= `MeanWithError`), `Skewness`, `Kurtosis`

Mirrors `src/moments/{mean,variance,skewness,kurtosis}.rs` operation by operation: same
temporaries, same association, same early returns. `u64` counts are `Nat`; `n.to_f64()` is `NatCast`.
-/
namespace Avg

structure Mean (α : Type) where
  avg : α
  n : Nat
deriving Repr, DecidableEq

structure Variance (α : Type) where
  avg : Mean α
  sum_2 : α
deriving Repr, DecidableEq

structure Skewness (α : Type) where
  avg : Variance α
  sum_3 : α
deriving Repr, DecidableEq

structure Kurtosis (α : Type) where
  avg : Skewness α
  sum_4 : α
deriving Repr, DecidableEq

variable {α : Type} [Add α] [Sub α] [Mul α] [Div α] [NatCast α]

/-! ## Mean -/

def Mean.new : Mean α := ⟨((0:Nat):α), 0⟩
def Mean.isEmpty (s : Mean α) : Bool := s.n == 0
def Mean.len (s : Mean α) : Nat := s.n
def Mean.mean [FloatOps α] (s : Mean α) : α := if s.n > 0 then s.avg else nan
/-- `increment(); delta_n = (sample - avg)/n; add_inner(delta_n)` -/
def Mean.add (s : Mean α) (x : α) : Mean α :=
  let n := s.n + 1
  let delta_n := (x - s.avg) / (n : α)
  ⟨s.avg + delta_n, n⟩
def Mean.estimate [FloatOps α] (s : Mean α) : α := s.mean
def Mean.merge (s o : Mean α) : Mean α :=
  if o.n = 0 then s else if s.n = 0 then o else
  let len_self : α := s.n
  let len_other : α := o.n
  let len_total := len_self + len_other
  ⟨(len_self * s.avg + len_other * o.avg) / len_total, s.n + o.n⟩

/-! ## Variance -/

def Variance.new : Variance α := ⟨Mean.new, ((0:Nat):α)⟩
def Variance.isEmpty (s : Variance α) : Bool := s.avg.isEmpty
def Variance.len (s : Variance α) : Nat := s.avg.n
def Variance.mean [FloatOps α] (s : Variance α) : α := s.avg.mean
/-- `add_inner` with the count already incremented. -/
def Variance.addInner (s : Variance α) (delta_n : α) : Variance α :=
  let n : α := s.avg.n
  ⟨⟨s.avg.avg + delta_n, s.avg.n⟩, s.sum_2 + delta_n * delta_n * n * (n - ((1:Nat):α))⟩
def Variance.add (s : Variance α) (x : α) : Variance α :=
  let s1 : Variance α := ⟨⟨s.avg.avg, s.avg.n + 1⟩, s.sum_2⟩
  let delta_n := (x - s1.avg.avg) / (s1.avg.n : α)
  s1.addInner delta_n
def Variance.sampleVariance [FloatOps α] (s : Variance α) : α :=
  if s.avg.n < 2 then nan else s.sum_2 / ((s.avg.n - 1 : Nat) : α)
def Variance.populationVariance [FloatOps α] (s : Variance α) : α :=
  if s.avg.n = 0 then nan else s.sum_2 / (s.avg.n : α)
def Variance.varianceOfMean [FloatOps α] (s : Variance α) : α :=
  if s.avg.n = 0 then nan else if s.avg.n = 1 then ((0:Nat):α)
  else s.sampleVariance / (s.avg.n : α)
def Variance.error [FloatOps α] (s : Variance α) : α := FloatOps.sqrt s.varianceOfMean
def Variance.estimate [FloatOps α] (s : Variance α) : α := s.populationVariance
def Variance.merge (s o : Variance α) : Variance α :=
  if o.avg.n = 0 then s else if s.avg.n = 0 then o else
  let len_self : α := s.avg.n
  let len_other : α := o.avg.n
  let len_total := len_self + len_other
  let delta := o.avg.avg - s.avg.avg
  ⟨s.avg.merge o.avg, s.sum_2 + (o.sum_2 + delta*delta * len_self * len_other / len_total)⟩

/-! ## Skewness -/

def Skewness.new : Skewness α := ⟨Variance.new, ((0:Nat):α)⟩
def Skewness.isEmpty (s : Skewness α) : Bool := s.avg.isEmpty
def Skewness.len (s : Skewness α) : Nat := s.avg.avg.n
def Skewness.mean [FloatOps α] (s : Skewness α) : α := s.avg.mean
def Skewness.sampleVariance [FloatOps α] (s : Skewness α) : α := s.avg.sampleVariance
def Skewness.populationVariance [FloatOps α] (s : Skewness α) : α := s.avg.populationVariance
def Skewness.errorMean [FloatOps α] (s : Skewness α) : α := s.avg.error
def Skewness.addInner (s : Skewness α) (delta delta_n : α) : Skewness α :=
  let n : α := s.avg.avg.n
  let term := delta * delta_n * (n - ((1:Nat):α))
  let sum_3 := s.sum_3 + (term * delta_n * (n - ((2:Nat):α)) - ((3:Nat):α) * delta_n * s.avg.sum_2)
  ⟨s.avg.addInner delta_n, sum_3⟩
def Skewness.add (s : Skewness α) (x : α) : Skewness α :=
  let delta := x - s.avg.avg.avg
  let s1 : Skewness α := ⟨⟨⟨s.avg.avg.avg, s.avg.avg.n + 1⟩, s.avg.sum_2⟩, s.sum_3⟩
  let n : α := s1.avg.avg.n
  s1.addInner delta (delta / n)
def Skewness.skewness [FloatOps α] (s : Skewness α) : α :=
  if s.avg.avg.n = 0 then nan
  else if FloatOps.eqb s.sum_3 ((0:Nat):α) then ((0:Nat):α)
  else
    let n : α := s.avg.avg.n
    let sum_2 := s.avg.sum_2
    FloatOps.sqrt n * s.sum_3 / FloatOps.sqrt (sum_2*sum_2*sum_2)
def Skewness.estimate [FloatOps α] (s : Skewness α) : α := s.skewness
def Skewness.merge (s o : Skewness α) : Skewness α :=
  if o.avg.avg.n = 0 then s else if s.avg.avg.n = 0 then o else
  let len_self : α := s.avg.avg.n
  let len_other : α := o.avg.avg.n
  let len_total := len_self + len_other
  let delta := o.avg.avg.avg - s.avg.avg.avg
  let delta_n := delta / len_total
  let sum_3 := s.sum_3 + (o.sum_3
      + delta*delta_n*delta_n * len_self*len_other*(len_self - len_other)
      + ((3:Nat):α)*delta_n * (len_self * o.avg.sum_2 - len_other * s.avg.sum_2))
  ⟨s.avg.merge o.avg, sum_3⟩

/-! ## Kurtosis -/

def Kurtosis.new : Kurtosis α := ⟨Skewness.new, ((0:Nat):α)⟩
def Kurtosis.isEmpty (s : Kurtosis α) : Bool := s.avg.isEmpty
def Kurtosis.len (s : Kurtosis α) : Nat := s.avg.avg.avg.n
def Kurtosis.mean [FloatOps α] (s : Kurtosis α) : α := s.avg.mean
def Kurtosis.sampleVariance [FloatOps α] (s : Kurtosis α) : α := s.avg.sampleVariance
def Kurtosis.populationVariance [FloatOps α] (s : Kurtosis α) : α := s.avg.populationVariance
def Kurtosis.errorMean [FloatOps α] (s : Kurtosis α) : α := s.avg.errorMean
def Kurtosis.skewness [FloatOps α] (s : Kurtosis α) : α := s.avg.skewness
def Kurtosis.addInner (s : Kurtosis α) (delta delta_n : α) : Kurtosis α :=
  let n : α := s.avg.avg.avg.n
  let term := delta * delta_n * (n - ((1:Nat):α))
  let delta_n_sq := delta_n*delta_n
  let sum_4 := s.sum_4 + (term * delta_n_sq * (n*n - ((3:Nat):α)*n + ((3:Nat):α))
      + ((6:Nat):α) * delta_n_sq * s.avg.avg.sum_2
      - ((4:Nat):α) * delta_n * s.avg.sum_3)
  ⟨s.avg.addInner delta delta_n, sum_4⟩
def Kurtosis.add (s : Kurtosis α) (x : α) : Kurtosis α :=
  let delta := x - s.avg.avg.avg.avg
  let s1 : Kurtosis α := ⟨⟨⟨⟨s.avg.avg.avg.avg, s.avg.avg.avg.n + 1⟩, s.avg.avg.sum_2⟩, s.avg.sum_3⟩, s.sum_4⟩
  let n : α := s1.avg.avg.avg.n
  s1.addInner delta (delta / n)
def Kurtosis.kurtosis [FloatOps α] (s : Kurtosis α) : α :=
  if s.avg.avg.avg.n = 0 then nan
  else if FloatOps.eqb s.sum_4 ((0:Nat):α) then ((0:Nat):α)
  else
    let n : α := s.avg.avg.avg.n
    n * s.sum_4 / (s.avg.avg.sum_2 * s.avg.avg.sum_2) - ((3:Nat):α)
def Kurtosis.estimate [FloatOps α] (s : Kurtosis α) : α := s.kurtosis
def Kurtosis.merge (s o : Kurtosis α) : Kurtosis α :=
  if o.avg.avg.avg.n = 0 then s else if s.avg.avg.avg.n = 0 then o else
  let len_self : α := s.avg.avg.avg.n
  let len_other : α := o.avg.avg.avg.n
  let len_total := len_self + len_other
  let delta := o.avg.avg.avg.avg - s.avg.avg.avg.avg
  let delta_n := delta / len_total
  let delta_n_sq := delta_n * delta_n
  let sum_4 := s.sum_4 + (o.sum_4
      + delta * delta_n*delta_n_sq * len_self*len_other
        * (len_self*len_self - len_self*len_other + len_other*len_other)
      + ((6:Nat):α)*delta_n_sq * (len_self*len_self * o.avg.avg.sum_2 + len_other*len_other * s.avg.avg.sum_2)
      + ((4:Nat):α)*delta_n * (len_self * o.avg.sum_3 - len_other * s.avg.sum_3))
  ⟨s.avg.merge o.avg, sum_4⟩

end Avg
