import AvgModel.FloatCarrier
import AvgModel.Serde
/-!
# Line protocol: words, state layouts
A float is 16 hex digits (its bit pattern), an integer is `i<decimal>`. State layouts follow the
field order of the Rust structs (= the order `Debug` prints them).
-/
namespace Avg.Drv
open Avg

def hexVal (c : Char) : Option Nat :=
  if '0' ≤ c ∧ c ≤ '9' then some (c.toNat - '0'.toNat)
  else if 'a' ≤ c ∧ c ≤ 'f' then some (c.toNat - 'a'.toNat + 10)
  else none

def parseHex (s : String) : Option Nat :=
  s.toList.foldlM (fun acc c => do let v ← hexVal c; pure (acc * 16 + v)) 0

def parseF (s : String) : Option Float :=
  if s.length == 16 then (parseHex s).map fun n => Float.ofBits n.toUInt64 else none

def hexDigit (n : Nat) : Char :=
  if n < 10 then Char.ofNat ('0'.toNat + n) else Char.ofNat ('a'.toNat + n - 10)

def toHex16 (u : UInt64) : String :=
  let n := u.toNat
  String.ofList ((List.range 16).map fun i => hexDigit ((n >>> (4 * (15 - i))) % 16))

/-- canonical word of a float: all NaNs are one value -/
def wF (x : Float) : String := if x.isNaN then "7ff8000000000000" else toHex16 x.toBits
def wI (n : Int) : String := s!"i{n}"
def wB (b : Bool) : String := if b then "b1" else "b0"

/-- canonicalise a recorded word (NaN payloads/sign) -/
def canonWord (w : String) : String :=
  match parseF w with
  | some x => wF x
  | none => w

def parseI (s : String) : Option Int :=
  if s.startsWith "i" then (s.drop 1).toString.toInt? else none

abbrev P := StateT (List String) Option

def pF : P Float := fun
  | w :: ws => (parseF w).map (·, ws)
  | [] => none
def pI : P Int := fun
  | w :: ws => (parseI w).map (·, ws)
  | [] => none
def pN : P Nat := do let i ← pI; if i ≥ 0 then pure i.toNat else failure
def pFs : Nat → P (List Float)
  | 0 => pure []
  | k+1 => do let x ← pF; let xs ← pFs k; pure (x :: xs)
def pIs : Nat → P (List Int)
  | 0 => pure []
  | k+1 => do let x ← pI; let xs ← pIs k; pure (x :: xs)
def pNs : Nat → P (List Nat)
  | 0 => pure []
  | k+1 => do let x ← pN; let xs ← pNs k; pure (x :: xs)
def pEnd : P Unit := fun
  | [] => some ((), [])
  | _ => none
/-- all remaining words as floats -/
def pRestF : P (List Float) := fun ws => (ws.mapM parseF).map (·, [])

def run {β : Type} (p : P β) (ws : List String) : Option β :=
  match (do let b ← p; pEnd; pure b : P β) ws with
  | some (b, _) => some b
  | none => none

def pMean : P (Mean Float) := do let a ← pF; let n ← pN; pure ⟨a, n⟩
def pVariance : P (Variance Float) := do let a ← pMean; let s ← pF; pure ⟨a, s⟩
def pSkewness : P (Skewness Float) := do let a ← pVariance; let s ← pF; pure ⟨a, s⟩
def pKurtosis : P (Kurtosis Float) := do let a ← pSkewness; let s ← pF; pure ⟨a, s⟩
def pMoments (N : Nat) : P (Moments Float) := do
  let n ← pN; let a ← pF; let m ← pFs (N - 1); pure ⟨n, a, m⟩
def pWeightedMean : P (WeightedMean Float) := do let a ← pF; let b ← pF; pure ⟨a, b⟩
def pWMWE : P (WeightedMeanWithError Float) := do
  let a ← pF; let b ← pWeightedMean; let c ← pVariance; pure ⟨a, b, c⟩
def pCovariance : P (Covariance Float) := do
  let a ← pF; let b ← pF; let c ← pF; let d ← pF; let e ← pF; let n ← pN; pure ⟨a, b, c, d, e, n⟩
def pMin : P (Min Float) := do let a ← pF; pure ⟨a⟩
def pMax : P (Max Float) := do let a ← pF; pure ⟨a⟩
def pV5F : P (V5 Float) := do
  let a ← pF; let b ← pF; let c ← pF; let d ← pF; let e ← pF; pure ⟨a, b, c, d, e⟩
def pV5I : P (V5 Int) := do
  let a ← pI; let b ← pI; let c ← pI; let d ← pI; let e ← pI; pure ⟨a, b, c, d, e⟩
def pQuantile : P (Quantile Float) := do
  let q ← pV5F; let n ← pV5I; let m ← pV5F; let dm ← pV5F; pure ⟨q, n, m, dm⟩
def pHist (LEN : Nat) : P (Hist Float) := do
  let r ← pFs (LEN + 1); let b ← pNs LEN; pure ⟨r, b⟩

def wMean (s : Mean Float) : List String := [wF s.avg, wI s.n]
def wVariance (s : Variance Float) : List String := wMean s.avg ++ [wF s.sum_2]
def wSkewness (s : Skewness Float) : List String := wVariance s.avg ++ [wF s.sum_3]
def wKurtosis (s : Kurtosis Float) : List String := wSkewness s.avg ++ [wF s.sum_4]
def wMoments (s : Moments Float) : List String := [wI s.n, wF s.avg] ++ s.m.map wF
def wWeightedMean (s : WeightedMean Float) : List String := [wF s.weight_sum, wF s.weighted_avg]
def wWMWE (s : WeightedMeanWithError Float) : List String :=
  [wF s.weight_sum_sq] ++ wWeightedMean s.weighted_avg ++ wVariance s.unweighted_avg
def wCovariance (s : Covariance Float) : List String :=
  [wF s.avg_x, wF s.sum_x_2, wF s.avg_y, wF s.sum_y_2, wF s.sum_prod, wI s.n]
def wQuantile (s : Quantile Float) : List String :=
  s.q.toList.map wF ++ s.n.toList.map wI ++ s.m.toList.map wF ++ s.dm.toList.map wF
def wHist (s : Hist Float) : List String := s.range.map wF ++ s.bin.map fun (n : Nat) => wI (n : Int)

end Avg.Drv
