import AvgModel.Drv.Parse
/-!
# Correspondence lines (`T ...`): apply one model operation at `Float` to the recorded pre-state
`expect ty op pre args` returns the words the model predicts for the result section of the line.
-/
namespace Avg.Drv
open Avg

inductive CmpMode where
  | exact      -- bit for bit (all NaNs identified)
  | numeric    -- as numbers: +0 = -0
  | ulp (k : Nat)  -- floats within k ulp (results that went through `powf`)
deriving Repr, DecidableEq

abbrev Exp := Option (List String × CmpMode)

def ex (ws : List String) : Exp := some (ws, .exact)
def exF (x : Float) : Exp := some ([wF x], .exact)
def exN (n : Nat) : Exp := some ([wI n], .exact)
def exB (b : Bool) : Exp := some ([wB b], .exact)
def exO (o : Outcome Float) : Exp :=
  match o with
  | .val x => exF x
  | .panic => ex ["panic"]

def parseTyN (pfx ty : String) : Option Nat :=
  if ty.startsWith pfx then (ty.drop pfx.length).toString.toNat? else none

def opArg (op : String) : String × Option Nat :=
  match op.splitOn ":" with
  | [a, b] => (a, b.toNat?)
  | _ => (op, none)

def fltTok (x : Float) : String := wF x

def expMean (op : String) (pre args : List String) : Exp := do
  match op with
  | "new" => ex (wMean (Mean.new : Mean Float))
  | "add" => let s ← run pMean pre; let x ← run pF args; ex (wMean (s.add x))
  | "merge" => let s ← run pMean pre; let o ← run pMean args; ex (wMean (s.merge o))
  | "mean" => let s ← run pMean pre; exF s.mean
  | "estimate" => let s ← run pMean pre; exF s.estimate
  | "len" => let s ← run pMean pre; exN s.len
  | "is_empty" => let s ← run pMean pre; exB s.isEmpty
  | "ser" | "de" => let s ← run pMean pre; ex (s.encode.tokens fltTok)
  | _ => none

def expVariance (op : String) (pre args : List String) : Exp := do
  match op with
  | "new" => ex (wVariance (Variance.new : Variance Float))
  | "add" => let s ← run pVariance pre; let x ← run pF args; ex (wVariance (s.add x))
  | "merge" => let s ← run pVariance pre; let o ← run pVariance args; ex (wVariance (s.merge o))
  | "mean" => let s ← run pVariance pre; exF s.mean
  | "len" => let s ← run pVariance pre; exN s.len
  | "is_empty" => let s ← run pVariance pre; exB s.isEmpty
  | "sample_variance" => let s ← run pVariance pre; exF s.sampleVariance
  | "population_variance" => let s ← run pVariance pre; exF s.populationVariance
  | "variance_of_mean" => let s ← run pVariance pre; exF s.varianceOfMean
  | "error" => let s ← run pVariance pre; exF s.error
  | "estimate" => let s ← run pVariance pre; exF s.estimate
  | "ser" | "de" => let s ← run pVariance pre; ex (s.encode.tokens fltTok)
  | _ => none

def expSkewness (op : String) (pre args : List String) : Exp := do
  match op with
  | "new" => ex (wSkewness (Skewness.new : Skewness Float))
  | "add" => let s ← run pSkewness pre; let x ← run pF args; ex (wSkewness (s.add x))
  | "merge" => let s ← run pSkewness pre; let o ← run pSkewness args; ex (wSkewness (s.merge o))
  | "mean" => let s ← run pSkewness pre; exF s.mean
  | "len" => let s ← run pSkewness pre; exN s.len
  | "is_empty" => let s ← run pSkewness pre; exB s.isEmpty
  | "sample_variance" => let s ← run pSkewness pre; exF s.sampleVariance
  | "population_variance" => let s ← run pSkewness pre; exF s.populationVariance
  | "error_mean" => let s ← run pSkewness pre; exF s.errorMean
  | "skewness" => let s ← run pSkewness pre; exF s.skewness
  | "estimate" => let s ← run pSkewness pre; exF s.estimate
  | "ser" | "de" => let s ← run pSkewness pre; ex (s.encode.tokens fltTok)
  | _ => none

def expKurtosis (op : String) (pre args : List String) : Exp := do
  match op with
  | "new" => ex (wKurtosis (Kurtosis.new : Kurtosis Float))
  | "add" => let s ← run pKurtosis pre; let x ← run pF args; ex (wKurtosis (s.add x))
  | "merge" => let s ← run pKurtosis pre; let o ← run pKurtosis args; ex (wKurtosis (s.merge o))
  | "mean" => let s ← run pKurtosis pre; exF s.mean
  | "len" => let s ← run pKurtosis pre; exN s.len
  | "is_empty" => let s ← run pKurtosis pre; exB s.isEmpty
  | "sample_variance" => let s ← run pKurtosis pre; exF s.sampleVariance
  | "population_variance" => let s ← run pKurtosis pre; exF s.populationVariance
  | "error_mean" => let s ← run pKurtosis pre; exF s.errorMean
  | "skewness" => let s ← run pKurtosis pre; exF s.skewness
  | "kurtosis" => let s ← run pKurtosis pre; exF s.kurtosis
  | "estimate" => let s ← run pKurtosis pre; exF s.estimate
  | "ser" | "de" => let s ← run pKurtosis pre; ex (s.encode.tokens fltTok)
  | _ => none

def expMoments (N : Nat) (op : String) (pre args : List String) : Exp := do
  let (o, p?) := opArg op
  match o with
  | "new" => ex (wMoments (Moments.new N : Moments Float))
  | "add" => let s ← run (pMoments N) pre; let x ← run pF args; ex (wMoments (s.add N x))
  | "merge" => let s ← run (pMoments N) pre; let b ← run (pMoments N) args; ex (wMoments (s.merge N b))
  | "mean" => let s ← run (pMoments N) pre; exF s.mean
  | "len" => let s ← run (pMoments N) pre; exN s.len
  | "is_empty" => let s ← run (pMoments N) pre; exB s.isEmpty
  | "central_moment" => let s ← run (pMoments N) pre; let p ← p?; exO (s.centralMoment N p)
  | "standardized_moment" => let s ← run (pMoments N) pre; let p ← p?; exO (s.standardizedMoment N p)
  | "sample_variance" => let s ← run (pMoments N) pre; exF s.sampleVariance
  | "sample_skewness" => let s ← run (pMoments N) pre; some ([wF s.sampleSkewness], .ulp 8)
  | "sample_excess_kurtosis" => let s ← run (pMoments N) pre; exF s.sampleExcessKurtosis
  | "ser" | "de" => let s ← run (pMoments N) pre; ex (s.encode.tokens fltTok)
  | _ => none

def expWeightedMean (op : String) (pre args : List String) : Exp := do
  match op with
  | "new" => ex (wWeightedMean (WeightedMean.new : WeightedMean Float))
  | "add" => let s ← run pWeightedMean pre; let xw ← run (pFs 2) args
             ex (wWeightedMean (s.add (xw.getD 0 0) (xw.getD 1 0)))
  | "merge" => let s ← run pWeightedMean pre; let o ← run pWeightedMean args; ex (wWeightedMean (s.merge o))
  | "is_empty" => let s ← run pWeightedMean pre; exB s.isEmpty
  | "sum_weights" => let s ← run pWeightedMean pre; exF s.sumWeights
  | "mean" => let s ← run pWeightedMean pre; exF s.mean
  | "ser" | "de" => let s ← run pWeightedMean pre; ex (s.encode.tokens fltTok)
  | _ => none

def expWMWE (op : String) (pre args : List String) : Exp := do
  match op with
  | "new" => ex (wWMWE (WeightedMeanWithError.new : WeightedMeanWithError Float))
  | "add" => let s ← run pWMWE pre; let xw ← run (pFs 2) args
             ex (wWMWE (s.add (xw.getD 0 0) (xw.getD 1 0)))
  | "merge" => let s ← run pWMWE pre; let o ← run pWMWE args; ex (wWMWE (s.merge o))
  | "is_empty" => let s ← run pWMWE pre; exB s.isEmpty
  | "sum_weights" => let s ← run pWMWE pre; exF s.sumWeights
  | "sum_weights_sq" => let s ← run pWMWE pre; exF s.sumWeightsSq
  | "weighted_mean" => let s ← run pWMWE pre; exF s.weightedMean
  | "unweighted_mean" => let s ← run pWMWE pre; exF s.unweightedMean
  | "len" => let s ← run pWMWE pre; exN s.len
  | "effective_len" => let s ← run pWMWE pre; exF s.effectiveLen
  | "population_variance" => let s ← run pWMWE pre; exF s.populationVariance
  | "sample_variance" => let s ← run pWMWE pre; exF s.sampleVariance
  | "variance_of_weighted_mean" => let s ← run pWMWE pre; exF s.varianceOfWeightedMean
  | "error" => let s ← run pWMWE pre; exF s.error
  | "ser" | "de" => let s ← run pWMWE pre; ex (s.encode.tokens fltTok)
  | _ => none

def expCovariance (op : String) (pre args : List String) : Exp := do
  match op with
  | "new" => ex (wCovariance (Covariance.new : Covariance Float))
  | "add" => let s ← run pCovariance pre; let xy ← run (pFs 2) args
             ex (wCovariance (s.add (xy.getD 0 0) (xy.getD 1 0)))
  | "merge" => let s ← run pCovariance pre; let o ← run pCovariance args; ex (wCovariance (s.merge o))
  | "is_empty" => let s ← run pCovariance pre; exB s.isEmpty
  | "len" => let s ← run pCovariance pre; exN s.len
  | "population_covariance" => let s ← run pCovariance pre; exF s.populationCovariance
  | "sample_covariance" => let s ← run pCovariance pre; exF s.sampleCovariance
  | "pearson" => let s ← run pCovariance pre; exF s.pearson
  | "mean_x" => let s ← run pCovariance pre; exF s.meanX
  | "mean_y" => let s ← run pCovariance pre; exF s.meanY
  | "sample_variance_x" => let s ← run pCovariance pre; exF s.sampleVarianceX
  | "population_variance_x" => let s ← run pCovariance pre; exF s.populationVarianceX
  | "sample_variance_y" => let s ← run pCovariance pre; exF s.sampleVarianceY
  | "population_variance_y" => let s ← run pCovariance pre; exF s.populationVarianceY
  | "ser" | "de" => let s ← run pCovariance pre; ex (s.encode.tokens fltTok)
  | _ => none

def num (ws : List String) : Exp := some (ws, .numeric)

def expMin (op : String) (pre args : List String) : Exp := do
  match op with
  | "new" => num [wF (Min.new : Min Float).x]
  | "from_value" => let x ← run pF args; num [wF (Min.fromValue x).x]
  | "add" => let s ← run pMin pre; let x ← run pF args; num [wF (s.add x).x]
  | "merge" => let s ← run pMin pre; let o ← run pMin args; num [wF (s.merge o).x]
  | "min" => let s ← run pMin pre; num [wF s.min]
  | "estimate" => let s ← run pMin pre; num [wF s.estimate]
  | "ser" | "de" => let s ← run pMin pre; ex (s.encode.tokens fltTok)
  | _ => none

def expMax (op : String) (pre args : List String) : Exp := do
  match op with
  | "new" => num [wF (Max.new : Max Float).x]
  | "from_value" => let x ← run pF args; num [wF (Max.fromValue x).x]
  | "add" => let s ← run pMax pre; let x ← run pF args; num [wF (s.add x).x]
  | "merge" => let s ← run pMax pre; let o ← run pMax args; num [wF (s.merge o).x]
  | "max" => let s ← run pMax pre; num [wF s.max]
  | "estimate" => let s ← run pMax pre; num [wF s.estimate]
  | "ser" | "de" => let s ← run pMax pre; ex (s.encode.tokens fltTok)
  | _ => none

def expQuantile (op : String) (pre args : List String) : Exp := do
  match op with
  | "new" => let p ← run pF args
             match (Quantile.new p : Outcome (Quantile Float)) with
             | .val s => ex (wQuantile s)
             | .panic => ex ["panic"]
  | "add" => let s ← run pQuantile pre; let x ← run pF args; ex (wQuantile (s.add x))
  | "quantile" => let s ← run pQuantile pre; num [wF s.quantile]
  | "estimate" => let s ← run pQuantile pre; num [wF s.estimate]
  | "p" => let s ← run pQuantile pre; exF s.p
  | "len" => let s ← run pQuantile pre; exN s.len
  | "is_empty" => let s ← run pQuantile pre; exB s.isEmpty
  | "ser" | "de" => let s ← run pQuantile pre; ex (s.encode.tokens fltTok)
  | _ => none

def errName : InvalidRangeError → String
  | .notEnoughRanges => "err:NotEnoughRanges"
  | .notSorted => "err:NotSorted"
  | .nan => "err:NaN"

def exHO (o : Outcome (Hist Float)) : Exp :=
  match o with
  | .val h => ex (wHist h)
  | .panic => ex ["panic"]

def expHist (LEN : Nat) (op : String) (pre args : List String) : Exp := do
  let (o, p?) := opArg op
  match o with
  | "with_const_width" => let se ← run (pFs 2) args
                          ex (wHist (Hist.withConstWidth LEN (se.getD 0 0) (se.getD 1 0)))
  | "from_ranges" => let l ← run pRestF args
                     match (Hist.fromRanges LEN l : Except _ (Hist Float)) with
                     | .ok h => ex ("ok" :: wHist h)
                     | .error e => ex [errName e]
  | "find" => let h ← run (pHist LEN) pre; let x ← run pF args
              match h.find x with
              | .ok i => ex [wI i]
              | .outOfRange => ex ["err"]
              | .panic => ex ["panic"]
  | "add" => let h ← run (pHist LEN) pre; let x ← run pF args
             match h.add x with
             | .val (h', b) => ex (wHist h' ++ [wB b])
             | .panic => ex ["panic"]
  | "merge" => let h ← run (pHist LEN) pre; let b ← run (pHist LEN) args; exHO (h.merge b)
  | "add_assign" => let h ← run (pHist LEN) pre; let b ← run (pHist LEN) args; exHO (h.addAssign b)
  | "mul_assign" => let h ← run (pHist LEN) pre; let k ← run pN args; ex (wHist (h.mulAssign k))
  | "reset" => let h ← run (pHist LEN) pre; ex (wHist h.reset)
  | "range_min" => let h ← run (pHist LEN) pre; exF h.rangeMin
  | "range_max" => let h ← run (pHist LEN) pre; exF h.rangeMax
  | "iter" => let h ← run (pHist LEN) pre
              ex ((h.iter.map fun ((a, b), c) => [wF a, wF b, wI c]).flatten)
  | "widths" => let h ← run (pHist LEN) pre; ex (h.widths.map wF)
  | "centers" => let h ← run (pHist LEN) pre; ex (h.centers.map wF)
  | "normalized_bins" => let h ← run (pHist LEN) pre; ex (h.normalizedBins.map wF)
  | "variances" => let h ← run (pHist LEN) pre; ex (h.variances.map wF)
  | "variance" => let h ← run (pHist LEN) pre; let i ← p?; exO (h.variance i)
  | "ser" | "de" => let h ← run (pHist LEN) pre; ex (h.encode.tokens fltTok)
  | _ => none

def expect (ty op : String) (pre args : List String) : Exp :=
  match ty with
  | "Mean" => expMean op pre args
  | "Variance" => expVariance op pre args
  | "Skewness" => expSkewness op pre args
  | "Kurtosis" => expKurtosis op pre args
  | "WeightedMean" => expWeightedMean op pre args
  | "WMWE" => expWMWE op pre args
  | "Covariance" => expCovariance op pre args
  | "Min" => expMin op pre args
  | "Max" => expMax op pre args
  | "Quantile" => expQuantile op pre args
  | _ =>
    match parseTyN "M" ty with
    | some N => expMoments N op pre args
    | none =>
      match parseTyN "HC" ty with
      | some L => expHist L op pre args
      | none =>
        match parseTyN "H" ty with
        | some L => expHist L op pre args
        | none => none

/-- distance in units in the last place between two finite floats of the same sign region -/
def ulpDist (a b : Float) : Nat :=
  let ka := (floatOrdKey a).toNat
  let kb := (floatOrdKey b).toNat
  if ka ≥ kb then ka - kb else kb - ka

def zeroCanon (w : String) : String := if w == "8000000000000000" then "0000000000000000" else w

def wordsAgree (mode : CmpMode) (expd got : List String) : Bool :=
  let got := got.map canonWord
  match mode with
  | .exact => expd == got
  | .numeric => expd.map zeroCanon == got.map zeroCanon
  | .ulp k =>
    expd.length == got.length && (List.zip expd got).all fun (e, g) =>
      e == g || match parseF e, parseF g with
        | some x, some y => !x.isNaN && !y.isNaN && ulpDist x y ≤ k
        | _, _ => false

end Avg.Drv
