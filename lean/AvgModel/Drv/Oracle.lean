import AvgModel.Drv.Ops
import AvgModel.Spec
/-!
# Property oracles (`O ...` lines): the implementation against exact arithmetic
Every finite `f64` is a dyadic rational, so the exact statistics of the recorded inputs are computed
in integer/rational arithmetic (no rounding) and the recorded outputs must lie within the fixed
envelopes of DESIGN.md section 5. Irrational statistics (those with a square root) are evaluated
from the exact rational radicand with a few final binary64 operations (slack `8u` relative, added).
-/
namespace Avg.Drv
open Avg

/-- exact value `m * 2^e` of a finite float -/
def decodeF (x : Float) : Option (Int × Int) :=
  let b := x.toBits.toNat
  let neg := b >>> 63 == 1
  let e := (b >>> 52) % 2048
  let f := b % (2 ^ 52)
  if e == 2047 then none
  else
    let (m, ex) : Nat × Int := if e == 0 then (f, -1074) else (f + 2 ^ 52, (e : Int) - 1075)
    some (if neg then -(m : Int) else (m : Int), ex)

def pow2Rat (e : Int) : Rat :=
  if e ≥ 0 then ((2 ^ e.toNat : Nat) : Rat) else mkRat 1 (2 ^ (-e).toNat)

def toRat? (x : Float) : Option Rat := (decodeF x).map fun (m, e) => (m : Rat) * pow2Rat e

/-- a binary64 approximation (relative error < 2^-52) of a rational of any magnitude -/
def ratToFloat (r : Rat) : Float :=
  if r.num == 0 then 0.0 else
  let neg := r.num < 0
  let a := r.num.natAbs
  let b := r.den
  let sh : Int := (Nat.log2 a : Int) - (Nat.log2 b : Int) - 62
  let q : Nat := if sh ≥ 0 then a / (b * 2 ^ sh.toNat) else (a * 2 ^ (-sh).toNat) / b
  let f := Float.scaleB (Float.ofNat q) sh
  if neg then -f else f

def u53 : Float := Float.scaleB 1.0 (-53)

def ratAbs (r : Rat) : Rat := if r < 0 then -r else r
def ratPow (r : Rat) : Nat → Rat
  | 0 => 1
  | k+1 => ratPow r k * r

def intPow (a : Int) : Nat → Int
  | 0 => 1
  | k+1 => intPow a k * a

/-- exact summary of a data set: `x_i = X_i * s`, `x_i - mean = D_i * s / n` -/
structure Exact where
  n : Nat
  s : Rat                 -- common scale 2^emin
  sumX : Int
  D : Array Int           -- n*X_i - ΣX
  maxAbs : Rat            -- max |x_i|

def mkExact (xs : List Float) : Option Exact := do
  let ds ← xs.mapM decodeF
  let emin := if ds.isEmpty then 0 else ds.foldl (fun acc (_, e) => min acc e) (ds.head!.2)
  let X : Array Int := (ds.map fun (m, e) => m * (2 ^ (e - emin).toNat : Nat)).toArray
  let sumX := X.foldl (· + ·) 0
  let n := X.size
  let D := X.map fun x => (n : Int) * x - sumX
  let s := pow2Rat emin
  let mx := X.foldl (fun acc x => max acc x.natAbs) 0
  pure { n := n, s := s, sumX := sumX, D := D, maxAbs := (mx : Rat) * s }

namespace Exact
def mean (e : Exact) : Rat := (e.sumX : Rat) * e.s / (e.n : Rat)
/-- Σ (x - mean)^p -/
def sumPow (e : Exact) (p : Nat) : Rat :=
  ((e.D.foldl (fun acc d => acc + intPow d p) 0 : Int) : Rat) * ratPow (e.s / (e.n : Rat)) p
/-- Σ |x - mean|^p -/
def sumAbsPow (e : Exact) (p : Nat) : Rat :=
  ((e.D.foldl (fun acc d => acc + intPow (Int.ofNat d.natAbs) p) 0 : Int) : Rat) * ratPow (e.s / (e.n : Rat)) p
def m (e : Exact) (p : Nat) : Rat := e.sumPow p / (e.n : Rat)
def nu (e : Exact) (p : Nat) : Rat := e.sumAbsPow p / (e.n : Rat)
end Exact

/-- cross sum Σ (x-mx)(y-my) for two exact data sets of the same length -/
def crossSum (a b : Exact) : Rat :=
  let z := (List.zip a.D.toList b.D.toList).foldl (fun acc (d, e) => acc + d * e) (0 : Int)
  (z : Rat) * (a.s / (a.n : Rat)) * (b.s / (b.n : Rat))

/-- what a statistic must equal, and how far it may be off -/
structure Target where
  exact : Option Rat      -- the exact value when rational
  approx : Float          -- binary64 approximation of the exact value
  bound : Float           -- allowed absolute error
  skip : Bool := false    -- outside the property's quantifier (e.g. zero spread, kappa > 1e12)

def rationalTarget (v : Rat) (bound : Float) : Target := { exact := some v, approx := ratToFloat v, bound := bound }
def irrationalTarget (v : Float) (bound : Float) : Target :=
  { exact := none, approx := v, bound := bound + 8 * u53 * v.abs }
def skipTarget : Target := { exact := none, approx := 0, bound := 0, skip := true }

/-- envelope data common to all statistics of one data set -/
structure Env where
  nf : Float
  sigma : Float
  maxAbs : Float
  kappa : Float
  nku : Float     -- n * kappa * u
  nu_ : Float      -- n * u

def mkEnv (e : Exact) : Env :=
  let nf := Float.ofNat e.n
  let sigma := Float.sqrt (ratToFloat (e.m 2))
  let mx := ratToFloat e.maxAbs
  let kappa := 1 + mx / sigma
  { nf := nf, sigma := sigma, maxAbs := mx, kappa := kappa, nku := nf * kappa * u53, nu_ := nf * u53 }

def kappaLimit : Float := 1.0e12 * 1.000001

/-- envelope constant of the p-th central / standardized moment: `2p²` for the orders of property C04
    (N ≤ 10, checked up to 12); beyond that - orders the property does not quantify over, exercised only to
    reach code paths - the accumulated binomial corrections grow faster and `p³/2` is allowed -/
def highOrder (p : Nat) : Float :=
  if p ≤ 12 then 2 * Float.ofNat (p * p) else if p ≤ 16 then Float.ofNat (p * p * p) / 2 else Float.ofNat (p * p * p * p) / 8

/-- statistics of one sample (Mean .. Kurtosis, define_moments!) -/
def momTarget (e : Exact) (env : Env) (name : String) : Option Target := do
  let n := e.n
  let nr : Rat := n
  let zeroSpread := e.m 2 == 0
  let big := env.kappa > kappaLimit
  let fl := ratToFloat
  let parseP (pfx : String) : Option Nat := (name.drop pfx.length).toString.toNat?
  -- zero spread (constant data): the natural scale of the spread statistics is 0; through merges the means of
  -- equal chunks may differ by the mean's own envelope `zb = 12·n·u·M`, so a p-th order statistic may be as large as
  -- zb^p (add-only constant streams are exactly 0: that is property C16, asserted separately by the harness)
  let zb : Float := 12 * env.nu_ * env.maxAbs
  if n == 0 then none else
  match name with
  | "mean" => pure (rationalTarget e.mean (12 * env.nu_ * (env.sigma + env.maxAbs)))
  | "popvar" =>
      if zeroSpread then pure (rationalTarget 0 (zb * zb)) else if big then pure skipTarget else
      pure (rationalTarget (e.m 2) (8 * env.nku * fl (e.m 2)))
  | "samplevar" =>
      if n < 2 then none else
      if zeroSpread then pure (rationalTarget 0 (2 * zb * zb)) else if big then pure skipTarget else
      let v := e.sumPow 2 / (nr - 1)
      pure (rationalTarget v (8 * env.nku * fl v))
  | "varmean" =>
      if n < 2 then pure (rationalTarget 0 0) else if zeroSpread then pure (rationalTarget 0 (zb * zb)) else if big then pure skipTarget else
      let v := e.sumPow 2 / (nr - 1) / nr
      pure (rationalTarget v (8 * env.nku * fl v))
  | "error" =>
      if n < 2 then pure (rationalTarget 0 0) else if zeroSpread then pure (rationalTarget 0 zb) else if big then pure skipTarget else
      let v := Float.sqrt (fl (e.sumPow 2 / (nr - 1) / nr))
      pure (irrationalTarget v (8 * env.nku * v))
  | "skew" =>
      if zeroSpread || big then pure skipTarget else
      let s3 := env.sigma * env.sigma * env.sigma
      pure (irrationalTarget (fl (e.m 3) / s3) (16 * env.nku * (fl (e.nu 3) / s3)))
  | "kurt" =>
      if zeroSpread || big then pure skipTarget else
      let r := e.m 4 / (e.m 2 * e.m 2)
      pure (rationalTarget (r - 3) (16 * env.nku * fl r))
  | "sskew" =>
      if n < 2 || zeroSpread || big then pure skipTarget else
      let s3 := env.sigma * env.sigma * env.sigma
      if n == 2 then pure (rationalTarget 0 (16 * env.nku * (fl (e.nu 3) / s3))) else
      let fac := Float.sqrt (env.nf * (env.nf - 1)) / (env.nf - 2)
      pure (irrationalTarget (fac * fl (e.m 3) / s3) (16 * env.nku * fac * (fl (e.nu 3) / s3)))
  | "sexkurt" =>
      if n < 4 || zeroSpread || big then pure skipTarget else
      let r := e.m 4 / (e.m 2 * e.m 2)
      let v := (nr - 1) / ((nr - 2) * (nr - 3)) * ((nr + 1) * (r - 3) + 6)
      let fac := (nr - 1) * (nr + 1) / ((nr - 2) * (nr - 3))
      pure (rationalTarget v (16 * env.nku * fl (fac * r)))
  | _ =>
    if name.startsWith "cm" then
      let p ← parseP "cm"
      if p == 0 then pure (rationalTarget 1 0) else if p == 1 then pure (rationalTarget 0 0) else
      if zeroSpread then pure (rationalTarget 0 (Float.pow (2 * zb) (Float.ofNat p))) else if big then pure skipTarget else
      pure (rationalTarget (e.m p) (highOrder p * env.nku * fl (e.nu p)))
    else if name.startsWith "sm" then
      let p ← parseP "sm"
      if p == 0 then pure (rationalTarget nr 0) else if p == 1 then pure (rationalTarget 0 0) else
      if p == 2 then pure (rationalTarget 1 0) else
      if zeroSpread || big then pure skipTarget else
      let sp := Float.pow env.sigma (Float.ofNat p)
      pure (irrationalTarget (fl (e.m p) / sp) (highOrder p * env.nku * (fl (e.nu p) / sp)))
    else none

/-- `name=word` pairs -/
def parseStats (ws : List String) : Option (List (String × String)) :=
  ws.mapM fun w => match w.splitOn "=" with
    | [a, b] => some (a, b)
    | _ => none

inductive Verdict where
  | ok
  | skipped
  | fail (msg : String)

def fmtF (x : Float) : String := if x.abs < 1.0e-3 || x.abs > 1.0e15 then s!"{x}[0x{wF x}]" else toString x

/-- compare one recorded value with its target -/
def judge (name : String) (t : Target) (w : String) : Verdict :=
  if t.skip then .skipped else
  match parseF w with
  | none => .fail s!"{name}: unparsable value {w}"
  | some got =>
    if got.isNaN || got.isInf then .fail s!"{name}: got {fmtF got}, exact {fmtF t.approx}" else
    let diff : Float :=
      match t.exact, toRat? got with
      | some ev, some gv => ratToFloat (ratAbs (gv - ev))
      | _, _ => (got - t.approx).abs
    if diff ≤ t.bound then .ok
    else .fail s!"{name}: got {fmtF got}, exact {fmtF t.approx}, |diff| {fmtF diff} > bound {fmtF t.bound}"

def judgeLen (n : Nat) (w : String) : Verdict :=
  if w == wI n then .ok else .fail s!"len: got {w}, exact {n}"

def collect (vs : List Verdict) : Verdict × Nat × Nat :=
  vs.foldl (fun (acc, nok, nskip) v =>
    match v with
    | .ok => (acc, nok + 1, nskip)
    | .skipped => (acc, nok, nskip + 1)
    | .fail m => (match acc with
        | .fail m0 => .fail (m0 ++ "; " ++ m)
        | _ => .fail m, nok, nskip)) (.ok, 0, 0)

/-- `O mom | data | stats` -/
def oracleMom (data stats : List String) : Option (Verdict × Nat × Nat) := do
  let xs ← data.mapM parseF
  let st ← parseStats stats
  let e ← mkExact xs
  let env := mkEnv e
  let vs ← st.mapM fun (name, w) =>
    if name == "len" then some (judgeLen e.n w)
    else (momTarget e env name).map fun t => judge name t w
  pure (collect vs)

def unzipPairs : List Float → Option (List Float × List Float)
  | [] => some ([], [])
  | a :: b :: rest => (unzipPairs rest).map fun (xs, ys) => (a :: xs, b :: ys)
  | _ => none

/-- `O pair | x y x y .. | stats` (Covariance) -/
def oraclePair (data stats : List String) : Option (Verdict × Nat × Nat) := do
  let zs ← data.mapM parseF
  let (xs, ys) ← unzipPairs zs
  let st ← parseStats stats
  let ex ← mkExact xs
  let ey ← mkExact ys
  let envx := mkEnv ex
  let envy := mkEnv ey
  let n := ex.n
  if n == 0 then none
  let nr : Rat := n
  let fl := ratToFloat
  let kappa := if envx.kappa > envy.kappa then envx.kappa else envy.kappa
  let degenerate := ex.m 2 == 0 || ey.m 2 == 0
  let big := kappa > kappaLimit
  let nku := envx.nf * kappa * u53
  let sxy := crossSum ex ey
  let gm := Float.sqrt (fl (ex.sumPow 2) * fl (ey.sumPow 2))   -- sqrt(Sxx Syy)
  let vs ← st.mapM fun (name, w) => do
    if name == "len" then pure (judgeLen n w) else
    let side (e : Exact) (env : Env) (nm : String) : Option Verdict :=
      (momTarget e { env with kappa := kappa, nku := nku } nm).map fun t => judge name t w
    match name with
    | "mean_x" => side ex envx "mean"
    | "mean_y" => side ey envy "mean"
    | "popvar_x" => side ex envx "popvar"
    | "popvar_y" => side ey envy "popvar"
    | "samplevar_x" => side ex envx "samplevar"
    | "samplevar_y" => side ey envy "samplevar"
    | "popcov" =>
        if degenerate then pure (judge name (rationalTarget (sxy / nr) (144 * envx.nu_ * envx.maxAbs * envy.nu_ * envy.maxAbs)) w) else
        if big then pure .skipped else
        pure (judge name (rationalTarget (sxy / nr) (8 * nku * gm / envx.nf)) w)
    | "samplecov" =>
        if n < 2 then none else
        if degenerate then pure (judge name (rationalTarget (sxy / (nr - 1)) (288 * envx.nu_ * envx.maxAbs * envy.nu_ * envy.maxAbs)) w) else
        if big then pure .skipped else
        pure (judge name (rationalTarget (sxy / (nr - 1)) (8 * nku * gm / (envx.nf - 1))) w)
    | "pearson" =>
        if n < 2 || degenerate || big then pure .skipped else
        pure (judge name (irrationalTarget (fl sxy / gm) (16 * nku)) w)
    | _ => none
  pure (collect vs)

/-- `O wt | x w x w .. | stats` (WeightedMean, WeightedMeanWithError) -/
def oracleWeighted (data stats : List String) : Option (Verdict × Nat × Nat) := do
  let zs ← data.mapM parseF
  let (xs, ws) ← unzipPairs zs
  let st ← parseStats stats
  let e ← mkExact xs
  let env := mkEnv e
  let xr ← xs.mapM toRat?
  let wr ← ws.mapM toRat?
  let n := e.n
  if n == 0 then none
  let nr : Rat := n
  let fl := ratToFloat
  let sw := wr.foldl (· + ·) 0
  let sww := wr.foldl (fun a w => a + w * w) 0
  let swx := (List.zip xr wr).foldl (fun a (x, w) => a + w * x) 0
  if sw ≤ 0 then none
  let zeroSpread := e.m 2 == 0
  let big := env.kappa > kappaLimit
  let vs ← st.mapM fun (name, w) => do
    if name == "len" then pure (judgeLen n w) else
    match name with
    | "wmean" => pure (judge name (rationalTarget (swx / sw) (4 * env.nu_ * env.maxAbs)) w)
    | "sum_w" => pure (judge name (rationalTarget sw (8 * env.nu_ * fl sw)) w)
    | "sum_w_sq" => pure (judge name (rationalTarget sww (8 * env.nu_ * fl sww)) w)
    | "eff_len" => let v := sw * sw / sww; pure (judge name (rationalTarget v (8 * env.nu_ * fl v)) w)
    | "umean" => (momTarget e env "mean").map fun t => judge name t w
    | "popvar" => (momTarget e env "popvar").map fun t => judge name t w
    | "samplevar" => (momTarget e env "samplevar").map fun t => judge name t w
    | "varwmean" =>
        if n < 2 then none else
        if zeroSpread then pure (judge name (rationalTarget 0 (2 * (12 * env.nu_ * env.maxAbs) * (12 * env.nu_ * env.maxAbs))) w) else if big then pure .skipped else
        let v := e.sumPow 2 / (nr - 1) * sww / (sw * sw)
        pure (judge name (rationalTarget v (16 * env.nku * fl v)) w)
    | "werror" =>
        if n < 2 then none else
        if zeroSpread then pure (judge name (rationalTarget 0 (2 * 12 * env.nu_ * env.maxAbs)) w) else if big then pure .skipped else
        let v := Float.sqrt (fl (e.sumPow 2 / (nr - 1) * sww / (sw * sw)))
        pure (judge name (irrationalTarget v (16 * env.nku * v)) w)
    | _ => none
  pure (collect vs)

/-! ## Discrete oracles -/

def ratSort (l : List Rat) : List Rat := sortBy (fun a b => decide (a < b)) l

/-- the exact p-quantile of a sorted sample: the smallest observation whose cumulative relative
    frequency reaches p, averaged with the next one when n·p is a whole number -/
def exactQuantile (p : Rat) (sorted : List Rat) : Rat :=
  let n := sorted.length
  let np := (n : Rat) * p
  let k := np.ceil.toNat              -- smallest k with k/n ≥ p
  let k := if k == 0 then 1 else k    -- p = 0: the minimum
  let lo := sorted.getD (k - 1) 0
  if np == (k : Rat) && k < n then (lo + sorted.getD k 0) / 2 else lo

/-- `O qsmall | p | xs | out`: the exact quantile; when n·p is within rounding of a whole number
    either adjacent convention is accepted -/
def oracleQSmall (pw xsw outw : List String) : Option Verdict := do
  let p ← run pF pw
  let xs ← xsw.mapM parseF
  let out ← run pF outw
  let pr ← toRat? p
  let xr ← xs.mapM toRat?
  let outr ← toRat? out
  let sorted := ratSort xr
  let n := sorted.length
  if n == 0 || n > 4 then none
  let np := (n : Rat) * pr
  let near := np.floor
  let cands : List Rat :=
    let base := [exactQuantile pr sorted]
    -- n·p within 4 ulp of a whole number k (0<k<n): accept k-th, (k+1)-th and their midpoint
    let extra := ([near, near + 1].filter fun k =>
        k ≥ 1 && k < (n : Int) && ratAbs (np - (k : Rat)) ≤ (k : Rat) * mkRat 1 (2 ^ 50)).map fun k =>
          let a := sorted.getD (k.toNat - 1) 0
          let b := sorted.getD k.toNat 0
          [a, b, (a + b) / 2]
    base ++ extra.flatten
  -- the average 0.5*a + 0.5*b is rounded: allow 2 ulp of max(|a|,|b|)
  -- (in the subnormal range the spacing is absolute: one unit 2^-1074)
  let tol (c : Rat) : Rat := max (ratAbs c * mkRat 1 (2 ^ 51)) (mkRat 1 (2 ^ 1074))
  if cands.any fun c => ratAbs (outr - c) ≤ tol c then pure .ok
  else pure (.fail s!"qsmall: got {fmtF out}, exact {fmtF (ratToFloat (exactQuantile pr sorted))}")

/-- `O psq | p | xs | q n (state words)`: the P² specification run at binary64 must give the same
    marker heights and positions -/
def oraclePSq (pw xsw stw : List String) : Option Verdict := do
  let p ← run pF pw
  let xs ← xsw.mapM parseF
  let s ← run pQuantile stw
  if xs.length < 5 then none
  let r := Spec.psqRun p xs
  let okq := (r.q.toList.map wF) == (s.q.toList.map wF)
  let okn := r.n.toList == s.n.toList
  let okm := (r.np.toList.map wF) == (s.m.toList.map wF)
  if okq && okn && okm then pure .ok
  else pure (.fail s!"psq: spec q={r.q.toList} n={r.n.toList} impl q={s.q.toList} n={s.n.toList}")

/-- the generated stream of `O psqgen`: a 64-bit linear congruential generator, the top 53 bits as a fraction
    of one, times `scale` (one rounding) - the harness computes the very same binary64 values -/
def genStep (a c x : UInt64) : UInt64 := a * x + c
def genVal (x : UInt64) (scale : Float) : Float := (x >>> 11).toFloat * u53 * scale

def psqGenLoop (a c : UInt64) (scale : Float) : Nat → UInt64 → Spec.PSq Float → Spec.PSq Float
  | 0, _, s => s
  | k + 1, x, s =>
    let x' := genStep a c x
    psqGenLoop a c scale k x' (Spec.psqStep s (genVal x' scale))

def genFirst (a c : UInt64) (scale : Float) : Nat → UInt64 → List Float × UInt64
  | 0, x => ([], x)
  | k + 1, x =>
    let x' := genStep a c x
    let (l, xe) := genFirst a c scale k x'
    (genVal x' scale :: l, xe)

/-- `O psqgen | p | a c x0 n scale | q n (state words)`: the P² specification run at binary64 over a generated
    stream of `n ≥ 5` observations (streams far too long to be written out) -/
def oraclePSqGen (pw gw stw : List String) : Option Verdict := do
  let p ← run pF pw
  match gw with
  | [aw, cw, xw, nw, sw] =>
    let a ← (aw.drop 1).toString.toNat?
    let c ← (cw.drop 1).toString.toNat?
    let x0 ← (xw.drop 1).toString.toNat?
    let n ← (nw.drop 1).toString.toNat?
    let scale ← parseF sw
    let s ← run pQuantile stw
    if n < 5 then none
    let (first, x5) := genFirst a.toUInt64 c.toUInt64 scale 5 x0.toUInt64
    let r := psqGenLoop a.toUInt64 c.toUInt64 scale (n - 5) x5 (Spec.psqInit p first)
    let okq := (r.q.toList.map wF) == (s.q.toList.map wF)
    let okn := r.n.toList == s.n.toList
    let okm := (r.np.toList.map wF) == (s.m.toList.map wF)
    if okq && okn && okm then pure .ok
    else pure (.fail s!"psqgen: spec q={r.q.toList} n={r.n.toList} impl q={s.q.toList} n={s.n.toList}")
  | _ => none

/-- `O hfind | ranges | x | res`: the unique half-open bin -/
def oracleHFind (rw xw resw : List String) : Option Verdict := do
  let r ← rw.mapM parseF
  let x ← run pF xw
  let expd := match Spec.binOf r x with
    | some i => wI i
    | none => "err"
  match resw with
  | [w] => if w == expd then pure .ok else pure (.fail s!"hfind: got {w}, spec {expd}")
  | _ => none

/-- `O hfrom:<LEN> | list | res` -/
def oracleHFrom (LEN : Nat) (lw resw : List String) : Option Verdict := do
  let l ← lw.mapM parseF
  let expd : List String := match Spec.fromRangesSpec LEN l with
    | .ok r => "ok" :: (r.map wF ++ (List.replicate LEN (wI 0)))
    | .error e => [errName e]
  if expd == resw.map canonWord then pure .ok
  else pure (.fail s!"hfrom: got {resw}, spec {expd}")

/-- `O hcw:<LEN> | start end | edges`: first edge exactly start, edges non-decreasing, edge i within
    8u·max(|start|,|end|) of start + i(end-start)/LEN -/
def oracleHCW (LEN : Nat) (sew edgesw : List String) : Option Verdict := do
  let se ← run (pFs 2) sew
  let edges ← edgesw.mapM parseF
  let s := se.getD 0 0
  let e := se.getD 1 0
  let sr ← toRat? s
  let er ← toRat? e
  let edr ← edges.mapM toRat?
  if edges.length != LEN + 1 then pure (.fail "hcw: wrong number of edges") else
  let mx := if ratAbs sr < ratAbs er then ratAbs er else ratAbs sr
  -- (in the subnormal range a "few ulps" is a few units of 2^-1074, whatever the magnitude)
  let tol := max (8 * mx * mkRat 1 (2 ^ 53)) (mkRat 4 (2 ^ 1074))
  let first := edr.head? == some sr
  let mono := (List.zip edr (edr.drop 1)).all fun (a, b) => a ≤ b
  let close := (List.zip (List.range (LEN + 1)) edr).all fun (i, v) =>
    ratAbs (v - (sr + (i : Rat) * (er - sr) / (LEN : Rat))) ≤ tol
  if first && mono && close then pure .ok
  else pure (.fail s!"hcw: first={first} mono={mono} close={close} edges={edges}")

/-- `O min | xs | out`, `O max | xs | out`: exact extreme of the non-NaN observations, as numbers -/
def oracleMinMax (isMin : Bool) (xsw outw : List String) : Option Verdict := do
  let xs ← xsw.mapM parseF
  let out ← run pF outw
  let good := xs.filter (!·.isNaN)
  let init : Float := if isMin then 1.0 / 0.0 else -1.0 / 0.0
  let expd := good.foldl (fun a x => if isMin then (if x < a then x else a) else (if a < x then x else a)) init
  if expd == out then pure .ok else pure (.fail s!"minmax: got {fmtF out}, exact {fmtF expd}")

end Avg.Drv
