import AvgProofs.MomN4ErrEnv
import Props.C04d
import Props.C03c
import Props.C10b
import Mathlib.Analysis.Real.Sqrt
import Mathlib.Tactic.NormNum

/-!
# C04 (addendum) - the fourth-order entry `m[2]` of `define_moments!(T, N)` in floating point, every `N ≥ 4`;
# `central_moment(4)` and `sample_excess_kurtosis` after an add-only stream

Carrier **R2** (`RF2 r`, `AvgProofs/MeanErr2.lean`): an ordered field `F` in which every `+ - * /` is followed
by a rounding `r.fl` with `|fl t - t| ≤ u·|t|` (standard model: no overflow, no underflow); conversions of
counts are exact; unary minus is exact (`NegExact r`, as IEEE negation; `RF2.instNeg` is such an instance).
Notation: `n` observations, `M ≥ max|x_i|`, `mean`, `T = Σ(x - mean)²`, `U = Σ(x - mean)³` (`SkewSpec.U`),
`Q = Σ(x - mean)⁴` (`KurtSpec.Q`), `d_i = x_i - mean(x_0..x_{i-1})`, `T_i`, `U_i` the sums of the prefix
`x_0..x_{i-1}`, `c_i = i(i²-i+1)/(i+1)³` (`KurtSpec.cQ`), `γ_j = (1+u)^j - 1`, `L = n + 10`,
`Moments.m0/m1/m2 s = s.m[0]/s.m[1]/s.m[2]`.

## What `Moments.add N` does to `m[2]` (read off the model)
It is the iteration `p = 4` of the outer loop: `term1`, `term2` have been multiplied by `factor1`, `factor2`
three times (iterations `p = 2, 3, 4`), `coeff_delta = δ·δ·δ·δ`; the inner loop `for k in 1..3` runs twice:
`k = 1` (`coeff = 1·fc`, binomial `C(4,1) = 4`, reads `m[1]`), `k = 2` (`coeff = (1·fc)·fc`, binomial `6`, reads
`m[0]`). With `k` the new count, `over_n = 1/k`, `δ = x - avg`, `fc = (-δ)·over_n`, and `m0`, `m1`, `m2` the
entries BEFORE the observation (`m2_bitwise_update`, any carrier, the same for every `N ≥ 4`):
`m2' = ((m2 + (term1·f1·f1·f1 + term2·f2·f2·f2)·(δ·δ·δ·δ)) + (4·m1)·(1·fc)) + (6·m0)·((1·fc)·fc)`,
`term1 = (k-1)·(-over_n)`, `f1 = -over_n`, `term2 = f2 = (k-1)·over_n`.
At R2 (`moments_m2_computed`): `on = fl(1/k)`, `km = fl(k-1)`, `δ = fl(x-a)`, `w = fl(km·on)`,
`fc = fl((-δ)·on)`, `t1 = fl(fl(fl(fl(km·(-on))·(-on))·(-on))·(-on))`, `t2 = fl(fl(fl(w·w)·w)·w)`,
`cd = fl(fl(fl(δ·δ)·δ)·δ)`, `P = fl(fl(t1 + t2)·cd)`, `Q1 = fl(fl(4·m1)·fl(1·fc))`,
`Q2 = fl(fl(6·m0)·fl(fl(1·fc)·fc))`, `m2' = fl(fl(fl(m2 + P) + Q1) + Q2)`.
In exact arithmetic this is the recurrence of `Kurtosis.sum_4`
(`Q_k = Q_{k-1} + d⁴(k-1)(k²-3k+3)/k³ + 6d²T_{k-1}/k² - 4dU_{k-1}/k`, `Props.C03c.sum4_exact_recurrence`), but the
operations differ from `Kurtosis.add`:
1. the coefficient `c = (k-1)(k²-3k+3)/k³` of `δ⁴` is the rounded SUM of `t1 ≈ (k-1)/k⁴` and `t2 ≈ (k-1)⁴/k⁴`.
   At this order BOTH parts are non-negative (`(-1/k)⁴ > 0`; at the third order they had opposite signs,
   `Props.C04d.coefficient_rounding_error`), so the error is RELATIVE to `c`: `γ16` (`coefficient_rounding_error`)
   - there is no cancelling subtraction as in `Kurtosis` (`k·k - 3·k`, which costs `γ39` there);
2. the three parts of the increment are added to `m2` one after the other, in the order `d⁴`-part, `-4dU/k`,
   `+6d²T/k²` (three rounded additions per observation): the accumulated factor is `(1+u)^(3n)`; the exact
   intermediate values `Q + d⁴c` and `Q + d⁴c - 4dU/k` stay inside the scale `V4p`;
3. roundings: `P` twenty-four, `Q1` six, `Q2` ten (`Kurtosis`: 12 operations worth `γ52`, four, seven).

## Results
* `moments_m2_step_error` - one step, explicit in the errors `e` of the mean, `D2` of `m[0]`, `D3` of `m[1]`.
* `moments_m2_forward_error_general` - the induction for arbitrary bounds `E_i`, `F_i`, `H_i` on the errors of
  the mean, `m[0]`, `m[1]` of the prefixes; no hypothesis on the data:
  `|m[2] - Q| ≤ (1+u)^(3n)·Σ_i[…] + ((1+u)^(3n) - 1)·V4p`.
* `m1_forward_error_W`, `prefix_bounds` - the hypotheses hold with the `E_i`, `F_i` of `Props.C04d` and
  `H_i = 10(i+10)u·V3m_i + 11(i+10)u·M·T_i + 13u·M·R₀·W_i + 30(i+10)²u²M²R₀ + 16(i+10)⁴u³M³`
  (`Props.C04d.moments_m1_forward_error` with `W_i = Σ_{j<i}|d_j|·j/(j+1)` kept).
* `moments_m2_forward_error` (`(n+28)·u ≤ 1/64`, `n·T ≤ R₀²`):
  `|m[2] - Q| ≤ 11·L·u·(V4p + VD4m) + (9/4)·L·u·M·VR + 29·L·u·M·V3m + 234·u·M·R₀·T
      + 1550·L·u²M²R₀² + 136·L²u²M²T + 2570·L³u³M³R₀ + 975·L⁵u⁴M⁴`,
  `VD4m = Σ 4|d_i|·V3m_i/(i+1)` (the rounding errors of `m[1]` are relative to `V3m`, `Props.C04d`).
* `moments_m2_envelope` (`T ≤ n·σ²`, `L·u·M ≤ σ`): `… + 5465·L²·u·M·σ³`;
  `scales_le_Q`: `V4p + VD4m ≤ 16516·Q`; `moments_m2_envelope_rel` (`n·σ² = T`, `σ > 0`):
  `|m[2] - Q| ≤ L·u·Q·(181676 + (1200 + 5465·L/n)·(M/σ))`, and for `n ≥ 4`
  **`|m[2] - Q| ≤ 181676·L·u·Q·(1 + M/σ)`** - a RELATIVE error, linear in the conditioning;
  `moments_m2_envelope_kappa` (ℝ, `σ = sqrt(T/n)`, `κ = 1 + M/σ`): `≤ 181676·(n+10)·κ·u·Q`.
* `central_moment4_envelope`, `central_moment4_envelope_kappa`:
  **`|central_moment(4) - Q/n| ≤ 181775·(n+10)·κ·u·Q/n`**.
* `sample_excess_kurtosis_stream_forward_error`: `Props.C10b.sample_excess_kurtosis_stream_partial` with
  `ε₄ = 181775·(n+10)·κ·u` - no hypothesis on computed quantities is left;
  `sample_excess_kurtosis_stream_envelope` (ℝ): `≤ 200000·(n+10)·κ·u·G₁`,
  `G₁ = (n+1)(n-1)/((n-2)(n-3))·m₄/m₂²`.

Not covered: `m[p-2]`, `p ≥ 5`; merge trees; sharp constants (16516 in `V4p + VD4m ≤ 16516·Q` is the product of
the Hardy/Copson constants, as in `Props.C03c`; for typical data `V4p + VD4m` is a small multiple of `Q`).
-/
open Avg MSpec Finset VarSpec SkewSpec KurtSpec SkewErr KurtErr MomNErr MomN4Err MomVarErr

namespace Props.C04e

/-! ## bit for bit: what `add` does to `m[2]` -/

/-- Any carrier (floating point included), every order `N ≥ 4`, bit for bit: `Moments.add N` replaces the
fourth-order entry by
`((m2 + (term1·f1·f1·f1 + term2·f2·f2·f2)·(δ·δ·δ·δ)) + (4·m1)·(1·fc)) + (6·m0)·((1·fc)·fc)`, `k` the new count,
`δ = x - avg`, `fc = (-δ)·(1/k)`, `term1 = (k-1)·(-(1/k))`, `f1 = -(1/k)`, `term2 = f2 = (k-1)·(1/k)`, `m0`, `m1`,
`m2` the entries before the observation; every operation is that of the carrier in exactly this association
(whatever default the entry is read with: the list has at least three entries). -/
theorem m2_bitwise_update {α : Type} [Add α] [Sub α] [Mul α] [Div α] [Neg α] [NatCast α]
    (N : Nat) (hN : 4 ≤ N) (s : Moments α) (x d : α) :
    (Moments.add N s x).m.getD 2 d =
      ((s.m2 + ((((s.n + 1 : Nat) : α) - ((1:Nat):α)) * (-(((1:Nat):α) / ((s.n + 1 : Nat) : α)))
                  * (-(((1:Nat):α) / ((s.n + 1 : Nat) : α)))
                  * (-(((1:Nat):α) / ((s.n + 1 : Nat) : α)))
                  * (-(((1:Nat):α) / ((s.n + 1 : Nat) : α)))
                + ((((s.n + 1 : Nat) : α) - ((1:Nat):α)) * (((1:Nat):α) / ((s.n + 1 : Nat) : α)))
                  * ((((s.n + 1 : Nat) : α) - ((1:Nat):α)) * (((1:Nat):α) / ((s.n + 1 : Nat) : α)))
                  * ((((s.n + 1 : Nat) : α) - ((1:Nat):α)) * (((1:Nat):α) / ((s.n + 1 : Nat) : α)))
                  * ((((s.n + 1 : Nat) : α) - ((1:Nat):α)) * (((1:Nat):α) / ((s.n + 1 : Nat) : α))))
              * ((x - s.avg) * (x - s.avg) * (x - s.avg) * (x - s.avg)))
        + ((4:Nat):α) * s.m1
            * (((1:Nat):α) * ((-(x - s.avg)) * (((1:Nat):α) / ((s.n + 1 : Nat) : α)))))
        + ((6:Nat):α) * s.m0
            * (((1:Nat):α) * ((-(x - s.avg)) * (((1:Nat):α) / ((s.n + 1 : Nat) : α)))
                * ((-(x - s.avg)) * (((1:Nat):α) / ((s.n + 1 : Nat) : α)))) :=
  Moments.add_m2 N hN s x d

/-- Any carrier, bit for bit: the entries `m[0]`, `m[1]`, `m[2]` after an `add` do not depend on the order `N`
beyond `N ≥ 4` (two states with the same count, mean, `m[0]`, `m[1]`, `m[2]`, possibly of different orders). -/
theorem m0_m1_m2_independent_of_order {α : Type} [Add α] [Sub α] [Mul α] [Div α] [Neg α] [NatCast α]
    (N N' : Nat) (hN : 4 ≤ N) (hN' : 4 ≤ N') (s s' : Moments α) (x d : α)
    (hn : s.n = s'.n) (ha : s.avg = s'.avg) (h0 : s.m0 = s'.m0) (h1 : s.m1 = s'.m1)
    (h2 : s.m2 = s'.m2) :
    (Moments.add N s x).m.getD 0 d = (Moments.add N' s' x).m.getD 0 d
    ∧ (Moments.add N s x).m.getD 1 d = (Moments.add N' s' x).m.getD 1 d
    ∧ (Moments.add N s x).m.getD 2 d = (Moments.add N' s' x).m.getD 2 d :=
  Moments.add_m012_indep N N' hN hN' s s' x d hn ha h0 h1 h2

/-- Any carrier, bit for bit: after the same add-only stream, `define_moments!(T, N)` and `define_moments!(T, N')`
(`N, N' ≥ 4`) hold the same count, mean, `m[0]`, `m[1]` and `m[2]`. Hence every statement below about `m[2]` is
about one and the same floating-point number, whatever the order. -/
theorem m0_m1_m2_stream_independent_of_order {α : Type} [Add α] [Sub α] [Mul α] [Div α] [Neg α]
    [NatCast α] (N N' : Nat) (hN : 4 ≤ N) (hN' : 4 ≤ N') (xs : List α) :
    (xs.foldl (Moments.add N) (Moments.new N)).n = (xs.foldl (Moments.add N') (Moments.new N')).n
    ∧ (xs.foldl (Moments.add N) (Moments.new N)).avg = (xs.foldl (Moments.add N') (Moments.new N')).avg
    ∧ (xs.foldl (Moments.add N) (Moments.new N)).m0 = (xs.foldl (Moments.add N') (Moments.new N')).m0
    ∧ (xs.foldl (Moments.add N) (Moments.new N)).m1 = (xs.foldl (Moments.add N') (Moments.new N')).m1
    ∧ (xs.foldl (Moments.add N) (Moments.new N)).m2
        = (xs.foldl (Moments.add N') (Moments.new N')).m2 :=
  Moments.fold_m012_indep N N' hN hN' xs

variable {F : Type} [Field F] [LinearOrder F] [IsStrictOrderedRing F]

/-- In exact arithmetic (any ordered field) `m[2]` of a `define_moments!(T, N)`, `N ≥ 4`, *is*
`Q = Σ(x - mean)⁴` (from `Props.C04.moments_fold`). -/
theorem m2_exact (N : Nat) (hN : 4 ≤ N) (vs : List F) :
    (vs.foldl (Moments.add N) (Moments.new N)).m2 = Q vs := by
  rw [MSpec.moments_fold]
  show ((List.range (N - 1)).map (fun j => sumPow vs (mean vs) (j + 2))).getD 2 ((0:ℕ):F) = _
  rw [MSpec.getD_map_range (N - 1) _ 2 (by omega)]
  rfl

/-- **What `Moments.add N` computes for `m[2]` at R2** (exact negation, every `N ≥ 4`), rounding by rounding:
with `k` the new count, `a` the mean, `m0`, `m1`, `m2` the entries before the observation, `on = fl(1/k)`,
`km = fl(k-1)`, `δ = fl(x-a)`, `fc = fl((-δ)·on)`:
`m2' = fl( fl( fl(m2 + fl(fl(t1 + t2)·fl(fl(fl(δ·δ)·δ)·δ))) + fl(fl(4·m1)·fl(1·fc)) ) + fl(fl(6·m0)·fl(fl(1·fc)·fc)) )`,
`t1 = fl(fl(fl(fl(km·(-on))·(-on))·(-on))·(-on))`, `t2 = fl(fl(fl(w·w)·w)·w)`, `w = fl(km·on)`. Twenty-six distinct
rounded values per observation enter `m[2]` (thirteen of them - `δ`, `on`, `km`, the partial products of `t1`,
`t2`, `cd` up to the third order, `fc`, `fl(1·fc)` - also occur in the updates of the mean, `m[0]` and `m[1]`). -/
theorem moments_m2_computed (r : Rnd2 F) [Neg (RF2 r)] (hneg : NegExact r) (N : Nat) (hN : 4 ≤ N)
    (s : Moments (RF2 r)) (x : RF2 r) :
    (Moments.add N s x).m2.val =
      r.fl (r.fl (r.fl (s.m2.val +
          r.fl (r.fl (r.fl (r.fl (r.fl (r.fl (r.fl (((s.n + 1 : ℕ) : F) - 1)
                              * -(r.fl (1 / ((s.n + 1 : ℕ) : F))))
                            * -(r.fl (1 / ((s.n + 1 : ℕ) : F))))
                          * -(r.fl (1 / ((s.n + 1 : ℕ) : F))))
                        * -(r.fl (1 / ((s.n + 1 : ℕ) : F))))
                    + r.fl (r.fl (r.fl (r.fl (r.fl (((s.n + 1 : ℕ) : F) - 1) * r.fl (1 / ((s.n + 1 : ℕ) : F)))
                            * r.fl (r.fl (((s.n + 1 : ℕ) : F) - 1) * r.fl (1 / ((s.n + 1 : ℕ) : F))))
                          * r.fl (r.fl (((s.n + 1 : ℕ) : F) - 1) * r.fl (1 / ((s.n + 1 : ℕ) : F))))
                        * r.fl (r.fl (((s.n + 1 : ℕ) : F) - 1) * r.fl (1 / ((s.n + 1 : ℕ) : F)))))
                * r.fl (r.fl (r.fl (r.fl (x.val - s.avg.val) * r.fl (x.val - s.avg.val))
                      * r.fl (x.val - s.avg.val))
                    * r.fl (x.val - s.avg.val))))
        + r.fl (r.fl (4 * s.m1.val)
            * r.fl (1 * r.fl (-(r.fl (x.val - s.avg.val)) * r.fl (1 / ((s.n + 1 : ℕ) : F))))))
        + r.fl (r.fl (6 * s.m0.val)
            * r.fl (r.fl (1 * r.fl (-(r.fl (x.val - s.avg.val)) * r.fl (1 / ((s.n + 1 : ℕ) : F))))
                * r.fl (-(r.fl (x.val - s.avg.val)) * r.fl (1 / ((s.n + 1 : ℕ) : F)))))) :=
  moments_m2_add_val r hneg N hN s x

/-! ## one step -/

/-- The computed coefficient of `δ⁴`, `fl(t1 + t2)`, against `c = (k-1)(k·k-3k+3)/k³` (any real `k ≥ 1`):
`|fl(t1+t2) - c| ≤ γ16·c`, and `c ≥ 0`. Both parts `t1 ≈ (k-1)/k⁴` (nine roundings) and `t2 ≈ (k-1)⁴/k⁴`
(fifteen) are non-negative, so the rounded sum (one more) is relatively accurate - the honest scale of the
error is `c` itself, unlike the third order (`Props.C04d.coefficient_rounding_error`). -/
theorem coefficient_rounding_error (r : Rnd2 F) (k : F) (hk : 1 ≤ k) :
    |r.fl (r.fl (r.fl (r.fl (r.fl (r.fl (k - 1) * -(r.fl (1 / k))) * -(r.fl (1 / k))) * -(r.fl (1 / k)))
              * -(r.fl (1 / k)))
          + r.fl (r.fl (r.fl (r.fl (r.fl (k - 1) * r.fl (1 / k)) * r.fl (r.fl (k - 1) * r.fl (1 / k)))
                * r.fl (r.fl (k - 1) * r.fl (1 / k)))
              * r.fl (r.fl (k - 1) * r.fl (1 / k))))
        - (k - 1) * (k * k - 3 * k + 3) / k^3|
      ≤ ((1 + r.u)^16 - 1) * ((k - 1) * (k * k - 3 * k + 3) / k^3)
    ∧ 0 ≤ (k - 1) * (k * k - 3 * k + 3) / k^3 := by
  have h := coef4_RE r.fl r.u r.u_nonneg r.err k hk
  have h0 := coef4_nonneg hk
  unfold RE at h
  rw [abs_of_nonneg h0] at h
  exact ⟨h, h0⟩

/-- The exact value of the coefficient: `(k-1)·(-1/k)⁴ + ((k-1)/k)⁴ = (k-1)(k·k-3k+3)/k³` (`k ≠ 0`), and for the
count `k = i + 1` this is `c_i = i(i²-i+1)/(i+1)³ = cQ i`, with `0 ≤ c_i ≤ i/(i+1) ≤ 1`. -/
theorem coefficient_exact_value {L : Type} [Field L] (k : L) (hk : k ≠ 0) (i : ℕ) :
    ((k - 1) * -(1 / k) * -(1 / k) * -(1 / k) * -(1 / k)
        + (k - 1) * (1 / k) * ((k - 1) * (1 / k)) * ((k - 1) * (1 / k)) * ((k - 1) * (1 / k))
      = (k - 1) * (k * k - 3 * k + 3) / k^3)
    ∧ (((i : F) + 1 - 1) * (((i : F) + 1) * ((i : F) + 1) - 3 * ((i : F) + 1) + 3) / ((i : F) + 1)^3
          = cQ i
        ∧ (0 : F) ≤ cQ i ∧ (cQ i : F) ≤ (i : F) / ((i : F) + 1) ∧ (cQ i : F) ≤ 1) := by
  refine ⟨?_, ?_, cQ_nonneg i, cQ_le_ratio i, cQ_le_one i⟩
  · field_simp
    ring
  · unfold cQ; congr 1; ring

/-- The computed `P = fl(fl(t1 + t2)·fl(fl(fl(δ·δ)·δ)·δ))` is within relative error `γ24` of `(x-a)⁴·c`
(twenty-four roundings: sixteen in the coefficient, seven in the fourth power, the product). -/
theorem incrementP_rounding_error (r : Rnd2 F) (x a k : F) (hk : 1 ≤ k) :
    |r.fl (r.fl (r.fl (r.fl (r.fl (r.fl (r.fl (k - 1) * -(r.fl (1 / k))) * -(r.fl (1 / k)))
                  * -(r.fl (1 / k))) * -(r.fl (1 / k)))
              + r.fl (r.fl (r.fl (r.fl (r.fl (k - 1) * r.fl (1 / k)) * r.fl (r.fl (k - 1) * r.fl (1 / k)))
                    * r.fl (r.fl (k - 1) * r.fl (1 / k)))
                  * r.fl (r.fl (k - 1) * r.fl (1 / k))))
          * r.fl (r.fl (r.fl (r.fl (x - a) * r.fl (x - a)) * r.fl (x - a)) * r.fl (x - a)))
        - (x - a)^4 * ((k - 1) * (k * k - 3 * k + 3) / k^3)|
      ≤ ((1 + r.u)^24 - 1) * |(x - a)^4 * ((k - 1) * (k * k - 3 * k + 3) / k^3)| :=
  incrP4_RE r.fl r.u r.u_nonneg r.err x a k hk

/-- The computed `Q1 = fl(fl(4·m1)·fl(1·fl((-δ)·on)))` is within relative error `γ6` of `-4·((x-a)/k)·m1`
(`m1` the computed entry, an input; the multiplication by `1` is a rounded operation of the model). -/
theorem incrementQ1_rounding_error (r : Rnd2 F) (x a k m1 : F) :
    |r.fl (r.fl (4 * m1) * r.fl (1 * r.fl (-(r.fl (x - a)) * r.fl (1 / k))))
        - -(4 * ((x - a) / k) * m1)|
      ≤ ((1 + r.u)^6 - 1) * |-(4 * ((x - a) / k) * m1)| :=
  incrQ1_RE r.fl r.u r.u_nonneg r.err x a k m1

/-- The computed `Q2 = fl(fl(6·m0)·fl(fl(1·fc)·fc))`, `fc = fl((-δ)·on)`, is within relative error `γ10` of
`6·((x-a)/k)²·m0` (`m0` the computed entry, an input). -/
theorem incrementQ2_rounding_error (r : Rnd2 F) (x a k m0 : F) :
    |r.fl (r.fl (6 * m0) * r.fl (r.fl (1 * r.fl (-(r.fl (x - a)) * r.fl (1 / k)))
          * r.fl (-(r.fl (x - a)) * r.fl (1 / k))))
        - 6 * ((x - a) / k * ((x - a) / k)) * m0|
      ≤ ((1 + r.u)^10 - 1) * |6 * ((x - a) / k * ((x - a) / k)) * m0| :=
  incrQ2_RE r.fl r.u r.u_nonneg r.err x a k m0

/-- `(1+u)^24 - 1 ≤ 24.3·u`, `(1+u)^10 - 1 ≤ 10.1·u`, `(1+u)^6 - 1 ≤ 6.1·u` for `u ≤ 1/1856`; and
`(1+u)^(3n) ≤ 64/61`, `(1+u)^(3n) - 1 ≤ (192/61)·n·u` for `n·u ≤ 1/64`. -/
theorem roundings_24_10_6 (u : F) (hu : 0 ≤ u) :
    (u ≤ 1/1856 → (1 + u)^24 - 1 ≤ 243/10 * u ∧ (1 + u)^10 - 1 ≤ 101/10 * u
      ∧ (1 + u)^6 - 1 ≤ 61/10 * u)
    ∧ ∀ n : ℕ, (n : F) * u ≤ 1/64 →
        (1 + u)^(3 * n) ≤ 64/61 ∧ (1 + u)^(3 * n) - 1 ≤ 192/61 * (n * u) :=
  ⟨fun h => ⟨g24_le u hu h, g10_le u hu h, g6_le u hu h⟩, fun n h => lead3_le u hu n h⟩

/-- **One step of the error recurrence of `m[2]`.** `m2`, `m1`, `m0`, `a`: computed entries and mean before the
step; `Qv`, `Uv`, `Tv ≥ 0`, `μ`: their exact counterparts; `k ≥ 1` the new count; `d = x - μ`, `e = a - μ`,
`D2 = m0 - Tv`, `D3 = m1 - Uv`, `c = (k-1)(k·k-3k+3)/k³`, `As = d⁴c`, `Bs = 6d²Tv/k²`, `Cs = 4dUv/k`:
`|m2' - (Qv + As + Bs - Cs)|
   ≤ (1+u)·( (1+u)·( (1+u)·(|m2 - Qv| + γ24·As + (1+γ24)·c·(4|d|³|e| + 6d²e² + 4|d||e|³ + e⁴))
                     + u·|Qv + As| + γ6·|Cs| + (1+γ6)·(4/k)·(|d||D3| + |e||Uv| + |e||D3|) )
            + u·|Qv + As - Cs| + γ10·Bs + (1+γ10)·(6/k²)·(d²|D2| + (2|d||e| + e²)(Tv + |D2|)) )
     + u·|Qv + As + Bs - Cs|`. -/
theorem moments_m2_step_error (r : Rnd2 F) (x a μ m0 Tv m1 Uv m2 Qv k : F) (hk : 1 ≤ k)
    (hT : 0 ≤ Tv) :
    let P := r.fl (r.fl (r.fl (r.fl (r.fl (r.fl (r.fl (k - 1) * -(r.fl (1 / k))) * -(r.fl (1 / k)))
                  * -(r.fl (1 / k))) * -(r.fl (1 / k)))
              + r.fl (r.fl (r.fl (r.fl (r.fl (k - 1) * r.fl (1 / k)) * r.fl (r.fl (k - 1) * r.fl (1 / k)))
                    * r.fl (r.fl (k - 1) * r.fl (1 / k)))
                  * r.fl (r.fl (k - 1) * r.fl (1 / k))))
          * r.fl (r.fl (r.fl (r.fl (x - a) * r.fl (x - a)) * r.fl (x - a)) * r.fl (x - a)))
    let Q1 := r.fl (r.fl (4 * m1) * r.fl (1 * r.fl (-(r.fl (x - a)) * r.fl (1 / k))))
    let Q2 := r.fl (r.fl (6 * m0) * r.fl (r.fl (1 * r.fl (-(r.fl (x - a)) * r.fl (1 / k)))
        * r.fl (-(r.fl (x - a)) * r.fl (1 / k))))
    let c := (k - 1) * (k * k - 3 * k + 3) / k^3
    let As := (x - μ)^4 * c
    let Bs := 6 * (x - μ)^2 * Tv / k^2
    let Cs := 4 * (x - μ) * Uv / k
    |r.fl (r.fl (r.fl (m2 + P) + Q1) + Q2) - (Qv + (As + Bs - Cs))|
      ≤ (1 + r.u) * ((1 + r.u) * ((1 + r.u) * (|m2 - Qv| + ((1 + r.u)^24 - 1) * |As|
                + (1 + ((1 + r.u)^24 - 1)) * (c * (4 * |x - μ|^3 * |a - μ| + 6 * (x - μ)^2 * (a - μ)^2
                    + 4 * |x - μ| * |a - μ|^3 + (a - μ)^4)))
              + r.u * |Qv + As| + ((1 + r.u)^6 - 1) * |Cs|
              + (1 + ((1 + r.u)^6 - 1)) * (4 / k
                  * (|x - μ| * |m1 - Uv| + |a - μ| * |Uv| + |a - μ| * |m1 - Uv|)))
            + r.u * |Qv + As - Cs| + ((1 + r.u)^10 - 1) * |Bs|
            + (1 + ((1 + r.u)^10 - 1)) * (6 / k^2 * ((x - μ)^2 * |m0 - Tv|
                + (2 * |x - μ| * |a - μ| + (a - μ)^2) * (Tv + |m0 - Tv|))))
        + r.u * |Qv + (As + Bs - Cs)| :=
  mom4_step_error r.fl r.u r.u_nonneg r.err x a μ m0 Tv m1 Uv m2 Qv k hk hT

/-! ## the scales -/

omit [IsStrictOrderedRing F] in
/-- The scale of the rounding errors of `m[1]` carried into `m[2]`: they are relative to `V3m` of the prefix
(`Props.C04d.V3m_def`), not to `|U|`: `VD4m = Σ_i 4·|d_i|·V3m(x_0..x_{i-1})/(i+1)`. (`V4p`, the sum of the absolute
values of the three parts of the exact increments, is that of `Kurtosis`: `Props.C03c.V4p_def`.) -/
theorem VD4m_def (vs : List F) :
    VD4m vs = ∑ i ∈ range vs.length, 4 * |dev vs i| * V3m (vs.take i) / ((i : F) + 1) := rfl

/-- `0 ≤ Q ≤ V4p`, `V4p` never decreases when an observation is added, `VC4 ≤ VD4 ≤ VD4m`, and for every stream
(no hypothesis on the data) `VD4m ≤ (1298080/81)·Q`, `V4p + VD4m ≤ 16516·Q`. -/
theorem scales_le_Q (vs : List F) (x : F) :
    0 ≤ Q vs ∧ |Q vs| ≤ V4p vs ∧ V4p vs ≤ V4p (vs ++ [x]) ∧ VC4 vs ≤ VD4 vs ∧ VD4 vs ≤ VD4m vs
    ∧ VD4m vs ≤ 1298080/81 * Q vs ∧ V4p vs + VD4m vs ≤ 16516 * Q vs :=
  ⟨Q_nonneg vs, abs_Q_le vs, V4p_mono vs x, VC4_le_VD4 vs, VD4_le_VD4m vs, VD4m_le_Q vs,
    V4p_VD4m_le_Q vs⟩

/-! ## all stream lengths, every order -/

section fold
variable {r : Rnd2 F} [Neg (RF2 r)]

/-- **General form.** Every order `N ≥ 4`, every stream `xs`: if `E i ≥ 0` bounds the error of the running
mean (bit for bit that of `Mean`), `F' i ≥ 0` the error of the computed `m[0]` and `H i ≥ 0` the error of the
computed `m[1]` after `i` observations (for every prefix of `xs`), then
`|m[2] - Q| ≤ (1+u)^(3n)·Σ_{i<n} [ γ24·d_i⁴c_i + γ10·6d_i²T_i/(i+1)² + γ6·4|d_i||U_i|/(i+1)
     + (1+γ24)·c_i·(4|d_i|³E_i + 6d_i²E_i² + 4|d_i|E_i³ + E_i⁴)
     + (1+γ10)·(6/(i+1)²)·(d_i²F'_i + (2|d_i|E_i + E_i²)(T_i + F'_i))
     + (1+γ6)·(4/(i+1))·(|d_i|H_i + E_i|U_i| + E_i·H_i) ] + ((1+u)^(3n) - 1)·V4p`.
No bound on the data is needed here. -/
theorem moments_m2_forward_error_general (hneg : NegExact r) (N : Nat) (hN : 4 ≤ N) (E F' H : ℕ → F)
    (hE0 : ∀ i, 0 ≤ E i) (hF0 : ∀ i, 0 ≤ F' i) (hH0 : ∀ i, 0 ≤ H i) (xs : List (RF2 r))
    (hE : ∀ ys, ys <+: xs →
      |(ys.foldl Mean.add Mean.new).avg.val - mean (ys.map RF2.val)| ≤ E ys.length)
    (hF : ∀ ys, ys <+: xs →
      |(ys.foldl (Moments.add N) (Moments.new N)).m0.val - T (ys.map RF2.val)| ≤ F' ys.length)
    (hH : ∀ ys, ys <+: xs →
      |(ys.foldl (Moments.add N) (Moments.new N)).m1.val - U (ys.map RF2.val)| ≤ H ys.length) :
    |(xs.foldl (Moments.add N) (Moments.new N)).m2.val - Q (xs.map RF2.val)|
      ≤ (1 + r.u)^(3 * xs.length) *
          (∑ i ∈ range (xs.map RF2.val).length,
              (((1 + r.u)^24 - 1) * ((dev (xs.map RF2.val) i)^4 * cQ i)
                + ((1 + r.u)^10 - 1)
                    * (6 * (dev (xs.map RF2.val) i)^2 * T ((xs.map RF2.val).take i) / ((i : F) + 1)^2)
                + ((1 + r.u)^6 - 1)
                    * (4 * |dev (xs.map RF2.val) i| * |U ((xs.map RF2.val).take i)| / ((i : F) + 1))
                + (1 + ((1 + r.u)^24 - 1)) * (cQ i * (4 * |dev (xs.map RF2.val) i|^3 * E i
                    + 6 * (dev (xs.map RF2.val) i)^2 * (E i)^2
                    + 4 * |dev (xs.map RF2.val) i| * (E i)^3 + (E i)^4))
                + (1 + ((1 + r.u)^10 - 1)) * (6 / ((i : F) + 1)^2
                    * ((dev (xs.map RF2.val) i)^2 * F' i
                        + (2 * |dev (xs.map RF2.val) i| * E i + (E i)^2)
                            * (T ((xs.map RF2.val).take i) + F' i)))
                + (1 + ((1 + r.u)^6 - 1)) * (4 / ((i : F) + 1)
                    * (|dev (xs.map RF2.val) i| * H i + E i * |U ((xs.map RF2.val).take i)|
                        + E i * H i))))
        + ((1 + r.u)^(3 * xs.length) - 1) * V4p (xs.map RF2.val) :=
  mom4_fold_error_gen hneg N hN E F' H hE0 hF0 hH0 xs hE hF hH

/-- **Forward error of `m[1]` once more, with `W = Σ|d_i|·i/(i+1)` kept** instead of its Cauchy-Schwarz bound
`R₀` (`Props.C04d.moments_m1_forward_error` has `13·u·M·R₀²`): every order `N ≥ 3`, `|x_i| ≤ M`,
`(n+28)·u ≤ 1/64`, `n·T ≤ R₀²`, `L = n + 10`:
`|m[1] - U| ≤ 10·L·u·V3m + 11·L·u·M·T + 13·u·M·R₀·W + 30·L²·u²·M²·R₀ + 16·L⁴·u³·M³`. -/
theorem m1_forward_error_W (hneg : NegExact r) (N : Nat) (hN : 3 ≤ N) (M : F) (hM : 0 ≤ M)
    (xs : List (RF2 r)) (hb : ∀ x ∈ xs, |x.val| ≤ M)
    (hsmall : ((xs.length : F) + 28) * r.u ≤ 1/64)
    (R₀ : F) (hR : 0 ≤ R₀) (hRT : (xs.length : F) * T (xs.map RF2.val) ≤ R₀^2) :
    |(xs.foldl (Moments.add N) (Moments.new N)).m1.val - U (xs.map RF2.val)|
      ≤ 10 * ((xs.length : F) + 10) * r.u * V3m (xs.map RF2.val)
        + 11 * ((xs.length : F) + 10) * r.u * M * T (xs.map RF2.val)
        + 13 * r.u * M * R₀ * W (xs.map RF2.val)
        + 30 * ((xs.length : F) + 10)^2 * r.u^2 * M^2 * R₀
        + 16 * ((xs.length : F) + 10)^4 * r.u^3 * M^3 :=
  mom3_fold_error_num_W hneg N hN M hM xs hb hsmall R₀ hR hRT

/-- The hypotheses of the general form hold with `E i = (65/128)·u·M·(i + 37/4)` (`0` for `i = 0`),
`F' i = (29/4)·i·u·T_i + (99/25)·i·u·M·R₀ + (15/4)·i³·u²·M²` and
`H i = 10(i+10)u·V3m_i + 11(i+10)u·M·T_i + 13u·M·R₀·W_i + 30(i+10)²u²M²R₀ + 16(i+10)⁴u³M³` (`0` for `i = 0`)
when `|x_i| ≤ M`, `(n+28)·u ≤ 1/64` and `n·T ≤ R₀²` (from `Props.C01b.mean_forward_error_sharp`,
`Props.C04c.moments_m0_forward_error`, `m1_forward_error_W`). -/
theorem prefix_bounds (hneg : NegExact r) (N : Nat) (hN : 3 ≤ N) (M : F) (hM : 0 ≤ M)
    (xs : List (RF2 r))
    (hb : ∀ x ∈ xs, |x.val| ≤ M) (hsmall : ((xs.length : F) + 28) * r.u ≤ 1/64)
    (R₀ : F) (hR : 0 ≤ R₀) (hRT : (xs.length : F) * T (xs.map RF2.val) ≤ R₀^2) :
    (∀ ys, ys <+: xs →
      |(ys.foldl Mean.add Mean.new).avg.val - mean (ys.map RF2.val)|
        ≤ if ys.length = 0 then 0 else 65/128 * r.u * M * ((ys.length : F) + 37/4)) ∧
    (∀ ys, ys <+: xs →
      |(ys.foldl (Moments.add N) (Moments.new N)).m0.val - T (ys.map RF2.val)|
        ≤ (29/4 * r.u) * ys.length * T ((xs.map RF2.val).take ys.length)
          + (99/25 * r.u * M * R₀) * ys.length + (15/4 * r.u^2 * M^2) * (ys.length : F)^3) ∧
    (∀ ys, ys <+: xs →
      |(ys.foldl (Moments.add N) (Moments.new N)).m1.val - U (ys.map RF2.val)|
        ≤ if ys.length = 0 then 0 else
          10 * ((ys.length : F) + 10) * r.u * V3m ((xs.map RF2.val).take ys.length)
            + 11 * ((ys.length : F) + 10) * r.u * M * T ((xs.map RF2.val).take ys.length)
            + 13 * r.u * M * R₀ * W ((xs.map RF2.val).take ys.length)
            + 30 * ((ys.length : F) + 10)^2 * r.u^2 * M^2 * R₀
            + 16 * ((ys.length : F) + 10)^4 * r.u^3 * M^3) :=
  ⟨VarErr.mean_prefix_sharp r M hM xs hb hsmall,
    m0_prefix_sharp hneg N (by omega) M hM xs hb hsmall R₀ hR hRT,
    m1_prefix_W hneg N hN M hM xs hb hsmall R₀ hR hRT⟩

/-- **Forward error of `m[2]`.** Every order `N ≥ 4`, every stream of `n` observations with `|x_i| ≤ M` and
`(n+28)·u ≤ 1/64`; any `R₀ ≥ 0` with `n·T ≤ R₀²`; `L = n + 10`:
`|m[2] - Q| ≤ 11·L·u·(V4p + VD4m) + (9/4)·L·u·M·VR + 29·L·u·M·V3m + 234·u·M·R₀·T
     + 1550·L·u²·M²·R₀² + 136·L²·u²·M²·T + 2570·L³·u³·M³·R₀ + 975·L⁵·u⁴·M⁴`. -/
theorem moments_m2_forward_error (hneg : NegExact r) (N : Nat) (hN : 4 ≤ N) (M : F) (hM : 0 ≤ M)
    (xs : List (RF2 r)) (hb : ∀ x ∈ xs, |x.val| ≤ M)
    (hsmall : ((xs.length : F) + 28) * r.u ≤ 1/64)
    (R₀ : F) (hR : 0 ≤ R₀) (hRT : (xs.length : F) * T (xs.map RF2.val) ≤ R₀^2) :
    |(xs.foldl (Moments.add N) (Moments.new N)).m2.val - Q (xs.map RF2.val)|
      ≤ 11 * ((xs.length : F) + 10) * r.u * (V4p (xs.map RF2.val) + VD4m (xs.map RF2.val))
        + 9/4 * ((xs.length : F) + 10) * r.u * M * VR (xs.map RF2.val)
        + 29 * ((xs.length : F) + 10) * r.u * M * V3m (xs.map RF2.val)
        + 234 * r.u * M * R₀ * T (xs.map RF2.val)
        + 1550 * ((xs.length : F) + 10) * r.u^2 * M^2 * R₀^2
        + 136 * ((xs.length : F) + 10)^2 * r.u^2 * M^2 * T (xs.map RF2.val)
        + 2570 * ((xs.length : F) + 10)^3 * r.u^3 * M^3 * R₀
        + 975 * ((xs.length : F) + 10)^5 * r.u^4 * M^4 :=
  mom4_fold_error_num hneg N hN M hM xs hb hsmall R₀ hR hRT

/-- **Envelope form, linear in the conditioning.** If `σ ≥ 0` with `T ≤ n·σ²` and `L·u·M ≤ σ`, then
`|m[2] - Q| ≤ 11·L·u·(V4p + VD4m) + (9/4)·L·u·M·VR + 29·L·u·M·V3m + 5465·L²·u·M·σ³` - the last term is
`5465·L·u·(M/σ)` relative to the scale `L·σ⁴`. -/
theorem moments_m2_envelope (hneg : NegExact r) (N : Nat) (hN : 4 ≤ N) (M : F) (hM : 0 ≤ M)
    (xs : List (RF2 r)) (hb : ∀ x ∈ xs, |x.val| ≤ M)
    (hsmall : ((xs.length : F) + 28) * r.u ≤ 1/64)
    (σ : F) (hσ : 0 ≤ σ) (hvar : T (xs.map RF2.val) ≤ xs.length * σ^2)
    (hcond : ((xs.length : F) + 10) * r.u * M ≤ σ) :
    |(xs.foldl (Moments.add N) (Moments.new N)).m2.val - Q (xs.map RF2.val)|
      ≤ 11 * ((xs.length : F) + 10) * r.u * (V4p (xs.map RF2.val) + VD4m (xs.map RF2.val))
        + 9/4 * ((xs.length : F) + 10) * r.u * M * VR (xs.map RF2.val)
        + 29 * ((xs.length : F) + 10) * r.u * M * V3m (xs.map RF2.val)
        + 5465 * ((xs.length : F) + 10)^2 * r.u * M * σ^3 :=
  mom4_envelope hneg N hN M hM xs hb hsmall σ hσ hvar hcond

/-- **Envelope in the scales `V4p + VD4m` and `Q`.** `n ≥ 1`, `σ > 0` with `n·σ² = T` (the population standard
deviation), `L·u·M ≤ σ`:  `|m[2] - Q| ≤ L·u·( 11·(V4p + VD4m) + (1200 + 5465·L/n)·(M/σ)·Q )`. -/
theorem moments_m2_envelope_Q (hneg : NegExact r) (N : Nat) (hN : 4 ≤ N) (M : F) (hM : 0 ≤ M)
    (xs : List (RF2 r)) (hne : xs ≠ []) (hb : ∀ x ∈ xs, |x.val| ≤ M)
    (hsmall : ((xs.length : F) + 28) * r.u ≤ 1/64)
    (σ : F) (hσ : 0 < σ) (hvar : (xs.length : F) * σ^2 = T (xs.map RF2.val))
    (hcond : ((xs.length : F) + 10) * r.u * M ≤ σ) :
    |(xs.foldl (Moments.add N) (Moments.new N)).m2.val - Q (xs.map RF2.val)|
      ≤ ((xs.length : F) + 10) * r.u
          * (11 * (V4p (xs.map RF2.val) + VD4m (xs.map RF2.val))
            + (1200 + 5465 * (((xs.length : F) + 10) / (xs.length : F))) * (M / σ)
                * Q (xs.map RF2.val)) :=
  mom4_envelope_Q hneg N hN M hM xs hne hb hsmall σ hσ hvar hcond

/-- **Relative forward error of `m[2]`.** `n ≥ 1`, `σ > 0` with `n·σ² = T`, `L·u·M ≤ σ`:
`|m[2] - Q| ≤ L·u·Q·(181676 + (1200 + 5465·L/n)·(M/σ))`; for `n ≥ 4` this is `≤ 181676·L·u·Q·(1 + M/σ)`
(`Q ≥ 0` is its own scale; `181676 = 11·16516`). -/
theorem moments_m2_envelope_rel (hneg : NegExact r) (N : Nat) (hN : 4 ≤ N) (M : F) (hM : 0 ≤ M)
    (xs : List (RF2 r)) (hne : xs ≠ []) (hb : ∀ x ∈ xs, |x.val| ≤ M)
    (hsmall : ((xs.length : F) + 28) * r.u ≤ 1/64)
    (σ : F) (hσ : 0 < σ) (hvar : (xs.length : F) * σ^2 = T (xs.map RF2.val))
    (hcond : ((xs.length : F) + 10) * r.u * M ≤ σ) :
    |(xs.foldl (Moments.add N) (Moments.new N)).m2.val - Q (xs.map RF2.val)|
        ≤ ((xs.length : F) + 10) * r.u * Q (xs.map RF2.val)
            * (181676 + (1200 + 5465 * (((xs.length : F) + 10) / (xs.length : F))) * (M / σ))
    ∧ (4 ≤ xs.length →
        |(xs.foldl (Moments.add N) (Moments.new N)).m2.val - Q (xs.map RF2.val)|
          ≤ 181676 * ((xs.length : F) + 10) * r.u * Q (xs.map RF2.val) * (1 + M / σ)) :=
  ⟨mom4_envelope_rel hneg N hN M hM xs hne hb hsmall σ hσ hvar hcond,
    fun h4 => mom4_envelope_lin hneg N hN M hM xs h4 hb hsmall σ hσ hvar hcond⟩

/-! ## `central_moment(4)` -/
variable [FloatOps (RF2 r)]

omit [Neg (RF2 r)] in
/-- `central_moment(4)` never panics for `N ≥ 4` (the index `p - 2 = 2` is inside the array). -/
theorem central_moment4_no_panic (N : Nat) (hN : 4 ≤ N) (s : Moments (RF2 r)) :
    s.centralMoment N 4 = .val (s.cmRaw 4) :=
  central_moment4_eq N hN s

/-- What `central_moment(4)` computes at R2 for a non-empty stream: `fl(m[2]/n)`, one more rounding. -/
theorem central_moment4_computed (N : Nat) (hN : 4 ≤ N) (xs : List (RF2 r)) (hne : xs ≠ []) :
    ((xs.foldl (Moments.add N) (Moments.new N)).cmRaw 4).val
      = r.fl ((xs.foldl (Moments.add N) (Moments.new N)).m2.val / (xs.length : F)) :=
  cm4_val N hN xs hne

/-- **`central_moment(4)` inside an envelope linear in the conditioning** (any ordered field). Whatever the
non-arithmetic operations of the carrier are, `N ≥ 4`, `n ≥ 4`, `σ > 0` with `n·σ² = T`, `L·u·M ≤ σ`:
`|central_moment(4) - Q/n| ≤ 181775·L·u·(Q/n)·(1 + M/σ)` - a relative error `ε₄ = 181775·L·(1 + M/σ)·u`. -/
theorem central_moment4_envelope (hneg : NegExact r) (N : Nat) (hN : 4 ≤ N) (M : F) (hM : 0 ≤ M)
    (xs : List (RF2 r)) (h4 : 4 ≤ xs.length)
    (hb : ∀ x ∈ xs, |x.val| ≤ M) (hsmall : ((xs.length : F) + 28) * r.u ≤ 1/64)
    (σ : F) (hσ : 0 < σ) (hvar : (xs.length : F) * σ^2 = T (xs.map RF2.val))
    (hcond : ((xs.length : F) + 10) * r.u * M ≤ σ) :
    |((xs.foldl (Moments.add N) (Moments.new N)).cmRaw 4).val - Q (xs.map RF2.val) / (xs.length : F)|
      ≤ 181775 * ((xs.length : F) + 10) * r.u * (Q (xs.map RF2.val) / (xs.length : F)) * (1 + M / σ) :=
  cm4_envelope_lin hneg N hN M hM xs h4 hb hsmall σ hσ hvar hcond

/-- **`sample_excess_kurtosis` after an add-only stream, fully instantiated** (replaces
`Props.C10b.sample_excess_kurtosis_stream_partial`: no hypothesis on computed quantities is left). Any ordered
field; `define_moments!(T, N)`, `N ≥ 4`, exact negation; `n ≥ 4` observations `|x_i| ≤ M`, `(n+28)·u ≤ 1/64`,
`σ > 0` with `σ² = m₂ = T/n`, `m₄ = Q/n`, `κ = 1 + M/σ`, `(n+10)·u·M ≤ σ`, `ε₄ = 181775·(n+10)·κ·u`,
`10u + ε₄ + 16·n·κ·u ≤ 1/16`:
`|sample_excess_kurtosis - (n-1)/((n-2)(n-3))·((n+1)(m₄/m₂² - 3) + 6)|
   ≤ ((11/10)·181775·(n+10)·κ·u + (88/5)·n·κ·u + 39·u)·(n+1)(n-1)/((n-2)(n-3))·m₄/m₂²`. -/
theorem sample_excess_kurtosis_stream_forward_error (hneg : NegExact r) (N : Nat) (hN : 4 ≤ N)
    (M : F) (hM : 0 ≤ M) (xs : List (RF2 r)) (h4 : 4 ≤ xs.length) (hb : ∀ x ∈ xs, |x.val| ≤ M)
    (hsmall : ((xs.length : F) + 28) * r.u ≤ 1/64)
    (σ : F) (hσ : 0 < σ) (hvar : σ^2 = T (xs.map RF2.val) / (xs.length : F))
    (hcond : ((xs.length : F) + 10) * r.u * M ≤ σ)
    (hsm : 10 * r.u + 181775 * ((xs.length : F) + 10) * (1 + M / σ) * r.u
            + 2 * (8 * xs.length * (1 + M / σ) * r.u) ≤ 1/16) :
    |(xs.foldl (Moments.add N) (Moments.new N)).sampleExcessKurtosis.val
        - ((xs.length : F) - 1) / (((xs.length : F) - 2) * ((xs.length : F) - 3))
          * (((xs.length : F) + 1)
              * (Q (xs.map RF2.val) / (xs.length : F) / (T (xs.map RF2.val) / (xs.length : F)) ^ 2 - 3)
              + 6)|
      ≤ (11/10 * (181775 * ((xs.length : F) + 10) * (1 + M / σ) * r.u)
            + 11/5 * (8 * xs.length * (1 + M / σ) * r.u) + 39 * r.u)
          * (((xs.length : F) + 1) * ((xs.length : F) - 1)
              / (((xs.length : F) - 2) * ((xs.length : F) - 3))
              * (Q (xs.map RF2.val) / (xs.length : F) / (T (xs.map RF2.val) / (xs.length : F)) ^ 2)) := by
  have hu := r.u_nonneg
  have hn4 : (4 : F) ≤ xs.length := by exact_mod_cast h4
  have hnpos : (0 : F) < xs.length := by linarith
  have hvar' : (xs.length : F) * σ^2 = T (xs.map RF2.val) := by
    rw [hvar]; field_simp
  have hcond' : (xs.length : F) * r.u * M ≤ σ := by
    refine le_trans ?_ hcond
    have : 0 ≤ r.u * M := by positivity
    nlinarith
  have hκ : 0 ≤ M / σ := by positivity
  exact Props.C10b.sample_excess_kurtosis_stream_partial hneg N hN M hM xs h4 hb hsmall σ hσ hvar hcond'
    (181775 * ((xs.length : F) + 10) * (1 + M / σ) * r.u) (by positivity)
    (cm4_relative hneg N hN M hM xs h4 hb hsmall σ hσ hvar' hcond) hsm

end fold

/-! ## over ℝ: `σ = sqrt(T/n)`, `κ = 1 + M/σ` -/

section real
variable {r : Rnd2 ℝ} [Neg (RF2 r)]

/-- `n·sqrt(T/n)² = T` for a non-empty stream -/
private theorem n_mul_sq_sqrt (vs : List ℝ) (n : ℝ) (hn : 0 < n) (hpos : 0 < T vs / n) :
    n * Real.sqrt (T vs / n) ^ 2 = T vs := by
  rw [Real.sq_sqrt hpos.le]; field_simp

/-- **The envelope clause for the state component `m[2]`, in the words of DESIGN.md section 5.** Over ℝ, every
order `N ≥ 4`, `n ≥ 4` observations with `|x_i| ≤ M`, exact variance `var = T/n > 0`, `σ = sqrt(var)`,
`κ = 1 + M/σ`, `(n+28)·u ≤ 1/64` and `(n+10)·u·M ≤ σ`:
`|m[2] - Σ(x - mean)⁴| ≤ 181676·(n+10)·κ·u·Σ(x - mean)⁴` - a bound of the RELATIVE error of `m[2]`. -/
theorem moments_m2_envelope_kappa (hneg : NegExact r) (N : Nat) (hN : 4 ≤ N) (M : ℝ) (hM : 0 ≤ M)
    (xs : List (RF2 r)) (h4 : 4 ≤ xs.length) (hb : ∀ x ∈ xs, |x.val| ≤ M)
    (hsmall : ((xs.length : ℝ) + 28) * r.u ≤ 1/64)
    (hpos : 0 < T (xs.map RF2.val) / (xs.length : ℝ))
    (hcond : ((xs.length : ℝ) + 10) * r.u * M
      ≤ Real.sqrt (T (xs.map RF2.val) / (xs.length : ℝ))) :
    |(xs.foldl (Moments.add N) (Moments.new N)).m2.val - Q (xs.map RF2.val)|
      ≤ 181676 * ((xs.length : ℝ) + 10)
          * (1 + M / Real.sqrt (T (xs.map RF2.val) / (xs.length : ℝ))) * r.u
          * Q (xs.map RF2.val) := by
  have hn4 : (4 : ℝ) ≤ xs.length := by exact_mod_cast h4
  have hσpos : 0 < Real.sqrt (T (xs.map RF2.val) / (xs.length : ℝ)) := Real.sqrt_pos.mpr hpos
  have h := mom4_envelope_lin hneg N hN M hM xs h4 hb hsmall _ hσpos
    (n_mul_sq_sqrt _ _ (by linarith) hpos) hcond
  refine le_trans h (le_of_eq ?_)
  ring

variable [FloatOps (RF2 r)]

/-- **The envelope clause of C04 for `central_moment(4)`.** Same hypotheses:
`|central_moment(4) - Q/n| ≤ 181775·(n+10)·κ·u·(Q/n)`  (`Q/n = m₄`, the fourth central moment). -/
theorem central_moment4_envelope_kappa (hneg : NegExact r) (N : Nat) (hN : 4 ≤ N) (M : ℝ) (hM : 0 ≤ M)
    (xs : List (RF2 r)) (h4 : 4 ≤ xs.length) (hb : ∀ x ∈ xs, |x.val| ≤ M)
    (hsmall : ((xs.length : ℝ) + 28) * r.u ≤ 1/64)
    (hpos : 0 < T (xs.map RF2.val) / (xs.length : ℝ))
    (hcond : ((xs.length : ℝ) + 10) * r.u * M
      ≤ Real.sqrt (T (xs.map RF2.val) / (xs.length : ℝ))) :
    |((xs.foldl (Moments.add N) (Moments.new N)).cmRaw 4).val - Q (xs.map RF2.val) / (xs.length : ℝ)|
      ≤ 181775 * ((xs.length : ℝ) + 10)
          * (1 + M / Real.sqrt (T (xs.map RF2.val) / (xs.length : ℝ))) * r.u
          * (Q (xs.map RF2.val) / (xs.length : ℝ)) := by
  have hn4 : (4 : ℝ) ≤ xs.length := by exact_mod_cast h4
  have hσpos : 0 < Real.sqrt (T (xs.map RF2.val) / (xs.length : ℝ)) := Real.sqrt_pos.mpr hpos
  exact cm4_relative hneg N hN M hM xs h4 hb hsmall _ hσpos
    (n_mul_sq_sqrt _ _ (by linarith) hpos) hcond

/-- **`sample_excess_kurtosis` inside an envelope `C·(n+10)·κ·u` relative to
`G₁ = (n+1)(n-1)/((n-2)(n-3))·m₄/m₂²`.** Over ℝ, `define_moments!(T, N)`, `N ≥ 4`, exact negation, `n ≥ 4`
observations `|x_i| ≤ M`, `(n+28)·u ≤ 1/64`, exact moments `m₂ = T/n > 0`, `m₄ = Q/n`, `σ = √m₂`, `κ = 1 + M/σ`,
`(n+10)·u·M ≤ σ`, `200000·(n+10)·κ·u ≤ 1/16`:
`|sample_excess_kurtosis - (n-1)/((n-2)(n-3))·((n+1)(m₄/m₂² - 3) + 6)| ≤ 200000·(n+10)·κ·u·G₁`.
The bound is relative to the first of the two subtracted terms of the statistic, not to their difference. -/
theorem sample_excess_kurtosis_stream_envelope (hneg : NegExact r) (N : Nat) (hN : 4 ≤ N)
    (M : ℝ) (hM : 0 ≤ M) (xs : List (RF2 r)) (h4 : 4 ≤ xs.length) (hb : ∀ x ∈ xs, |x.val| ≤ M)
    (hsmall : ((xs.length : ℝ) + 28) * r.u ≤ 1/64)
    (hpos : 0 < T (xs.map RF2.val) / (xs.length : ℝ))
    (hcond : ((xs.length : ℝ) + 10) * r.u * M
      ≤ Real.sqrt (T (xs.map RF2.val) / (xs.length : ℝ)))
    (hsm : 200000 * ((xs.length : ℝ) + 10)
            * (1 + M / Real.sqrt (T (xs.map RF2.val) / (xs.length : ℝ))) * r.u ≤ 1/16) :
    |(xs.foldl (Moments.add N) (Moments.new N)).sampleExcessKurtosis.val
        - ((xs.length : ℝ) - 1) / (((xs.length : ℝ) - 2) * ((xs.length : ℝ) - 3))
          * (((xs.length : ℝ) + 1)
              * (Q (xs.map RF2.val) / (xs.length : ℝ) / (T (xs.map RF2.val) / (xs.length : ℝ)) ^ 2 - 3)
              + 6)|
      ≤ 200000 * ((xs.length : ℝ) + 10)
            * (1 + M / Real.sqrt (T (xs.map RF2.val) / (xs.length : ℝ))) * r.u
          * (((xs.length : ℝ) + 1) * ((xs.length : ℝ) - 1)
              / (((xs.length : ℝ) - 2) * ((xs.length : ℝ) - 3))
              * (Q (xs.map RF2.val) / (xs.length : ℝ) / (T (xs.map RF2.val) / (xs.length : ℝ)) ^ 2)) := by
  have hu := r.u_nonneg
  have hn4 : (4 : ℝ) ≤ xs.length := by exact_mod_cast h4
  have hnpos : (0 : ℝ) < xs.length := by linarith
  have hσpos : 0 < Real.sqrt (T (xs.map RF2.val) / (xs.length : ℝ)) := Real.sqrt_pos.mpr hpos
  have hsq : Real.sqrt (T (xs.map RF2.val) / (xs.length : ℝ)) ^ 2
      = T (xs.map RF2.val) / (xs.length : ℝ) := Real.sq_sqrt hpos.le
  set n : ℝ := (xs.length : ℝ) with hn
  set σ := Real.sqrt (T (xs.map RF2.val) / n) with hσ
  set κ := 1 + M / σ with hκ
  have hκ1 : 1 ≤ κ := by
    have : 0 ≤ M / σ := by positivity
    linarith
  set a := (n + 10) * κ * r.u with ha
  have ha0 : 0 ≤ a := by positivity
  have h14 : 14 * r.u ≤ a := by
    have : 14 ≤ (n + 10) * κ := by nlinarith
    calc 14 * r.u ≤ (n + 10) * κ * r.u := by gcongr
      _ = a := rfl
  have hnk : n * κ * r.u ≤ a := by
    have : n * κ ≤ (n + 10) * κ := by nlinarith
    calc n * κ * r.u ≤ (n + 10) * κ * r.u := by gcongr
      _ = a := rfl
  have hsm' : 10 * r.u + 181775 * (n + 10) * κ * r.u + 2 * (8 * n * κ * r.u) ≤ 1/16 := by
    have e1 : 181775 * (n + 10) * κ * r.u = 181775 * a := by rw [ha]; ring
    have e2 : 2 * (8 * n * κ * r.u) = 16 * (n * κ * r.u) := by ring
    have e3 : 200000 * (n + 10) * κ * r.u = 200000 * a := by rw [ha]; ring
    rw [e3] at hsm
    rw [e1, e2]
    linarith
  have h := sample_excess_kurtosis_stream_forward_error hneg N hN M hM xs h4 hb hsmall σ hσpos hsq hcond
    hsm'
  refine le_trans h ?_
  have hG : 0 ≤ (n + 1) * (n - 1) / ((n - 2) * (n - 3))
      * (Q (xs.map RF2.val) / n / (T (xs.map RF2.val) / n) ^ 2) := by
    have hQ := Q_nonneg (xs.map RF2.val)
    have h1 : 0 < n - 3 := by linarith
    have h2 : 0 < n - 2 := by linarith
    have h3 : 0 < n - 1 := by linarith
    positivity
  apply mul_le_mul_of_nonneg_right _ hG
  have e1 : 11/10 * (181775 * (n + 10) * κ * r.u) = 11/10 * 181775 * a := by rw [ha]; ring
  have e2 : 11/5 * (8 * n * κ * r.u) = 88/5 * (n * κ * r.u) := by ring
  have e3 : 200000 * (n + 10) * κ * r.u = 200000 * a := by rw [ha]; ring
  rw [e1, e2, e3]
  linarith

end real

/-! ## Non-vacuity -/

/-- the ill-conditioned, positively skewed stream of `Props.C10b` / `Props.C04d` (offset 1000; deviations
`-3, -1, -1, 5`; `T = 36`, `U = 96`, `Q = 708`, `σ² = 9`); the rounding `Props.C02b.awayRnd` is never exact
(always away from zero by the full `u = 2^-53`), the negation `RF2.instNeg` is the exact sign flip -/
def exStream : List (RF2 Props.C02b.awayRnd) := [⟨997⟩, ⟨999⟩, ⟨999⟩, ⟨1005⟩]

/-- the exact sums of `exStream`: `T = 9+1+1+25`, `Q = 81+1+1+625` -/
theorem exStream_vals : T (exStream.map RF2.val) = 36 ∧ Q (exStream.map RF2.val) = 708 := by
  refine ⟨?_, ?_⟩
  · norm_num [exStream, T, sumPow, mean]
  · norm_num [exStream, Q, sumPow, mean]

/-- the scale of the exact increments: `VA4 = 17560/27`, `VB4 = 412/9`, `VC4 = 320/27`; here all three parts of
every increment are non-negative, so `V4p = Q` -/
theorem exStream_V4p : V4p (exStream.map RF2.val) = 708 := by
  norm_num [exStream, V4p, VA4, VB4, VC4, incA4, incB4, incC4, cQ, dev, T, U, sumPow, mean,
    Finset.sum_range_succ, abs_of_nonneg, abs_of_neg]

/-- the scale of `m[1]` (`Props.C04d.exStream_V3m`) -/
theorem exStream_V3m : V3m (exStream.map RF2.val) = 4228/27 := by
  norm_num [exStream, V3m, VAM, VB, incAM, incB, cM, dev, T, sumPow, mean, Finset.sum_range_succ]

theorem exStream_VR : VR (exStream.map RF2.val) = 2042/9 := by
  norm_num [exStream, VR, dev, mean, Finset.sum_range_succ]

/-- the third and the fourth observation contribute `4·1·2/3` and `4·(20/3)·(118/27)/4` (`V3m` of the prefixes of
length 2 and 3 is `2` and `118/27`) -/
theorem exStream_VD4m : VD4m (exStream.map RF2.val) = 2576/81 := by
  norm_num [exStream, VD4m, incD4, V3m, VAM, VB, incAM, incB, cM, dev, T, sumPow, mean,
    Finset.sum_range_succ]

/-- every observation of `exStream` is at most `1005` in absolute value -/
theorem exStream_bound : ∀ x ∈ exStream, |x.val| ≤ 1005 := by
  intro x hx
  simp only [exStream, List.mem_cons, List.not_mem_nil, or_false] at hx
  rcases hx with rfl | rfl | rfl | rfl <;> norm_num

/-- the hypotheses of `moments_m2_forward_error`, `moments_m2_envelope_rel` and `central_moment4_envelope` are met
by `exStream` with `M = 1005`, `u = 2^-53`, `R₀ = 12` (`n·T = 144`), `σ = 3` (`n·σ² = 36 = T`,
`(n+10)·u·M = 14070·2^-53 ≤ 3`) -/
example : NegExact Props.C02b.awayRnd ∧ 4 ≤ exStream.length ∧ (∀ x ∈ exStream, |x.val| ≤ 1005)
    ∧ ((exStream.length : ℚ) + 28) * Props.C02b.awayRnd.u ≤ 1/64
    ∧ (exStream.length : ℚ) * T (exStream.map RF2.val) ≤ 12^2
    ∧ (exStream.length : ℚ) * 3^2 = T (exStream.map RF2.val)
    ∧ ((exStream.length : ℚ) + 10) * Props.C02b.awayRnd.u * 1005 ≤ 3 := by
  refine ⟨RF2.instNeg_negExact _, by simp [exStream], exStream_bound, ?_, ?_, ?_, ?_⟩
  · norm_num [exStream, Props.C02b.awayRnd]
  · rw [exStream_vals.1]; norm_num [exStream]
  · rw [exStream_vals.1]; norm_num [exStream]
  · norm_num [exStream, Props.C02b.awayRnd]

/-- and the conclusion is a concrete statement about a computation none of whose rounded operations is exact
(twenty-six rounded values per observation enter `m[2]`, on top of those of the mean, `m[0]` and `m[1]`): `m[2]` of
`define_moments!(f64, 4)` after the four observations is within
`11·14·u·(708 + 2576/81) + (9/4)·14·u·1005·(2042/9) + 29·14·u·1005·(4228/27) + 234·u·1005·12·36 + …`
(about `1.8·10^8·u ≈ 2·10^-8`) of the exact `Q = 708` -/
example : |(exStream.foldl (Moments.add 4) (Moments.new 4)).m2.val - 708|
    ≤ 11 * 14 * (1/2^53) * (708 + 2576/81) + 9/4 * 14 * (1/2^53) * 1005 * (2042/9)
      + 29 * 14 * (1/2^53) * 1005 * (4228/27) + 234 * (1/2^53) * 1005 * 12 * 36
      + 1550 * 14 * (1/2^53)^2 * 1005^2 * 12^2 + 136 * 14^2 * (1/2^53)^2 * 1005^2 * 36
      + 2570 * 14^3 * (1/2^53)^3 * 1005^3 * 12 + 975 * (14:ℚ)^5 * (1/2^53)^4 * 1005^4 := by
  have h := moments_m2_forward_error (RF2.instNeg_negExact Props.C02b.awayRnd) 4 (by norm_num)
    1005 (by norm_num) exStream exStream_bound
    (by norm_num [exStream, Props.C02b.awayRnd]) 12 (by norm_num)
    (by rw [exStream_vals.1]; norm_num [exStream])
  rw [exStream_vals.1, exStream_vals.2, exStream_V4p, exStream_VD4m, exStream_VR, exStream_V3m] at h
  have hl : (exStream.length : ℚ) + 10 = 14 := by norm_num [exStream]
  have hu : Props.C02b.awayRnd.u = 1/2^53 := rfl
  rw [hl, hu] at h
  exact h

/-- `m[2]` of `define_moments!(f64, 4)` and of `define_moments!(f64, 7)` after `exStream` (one and the same
number, `m0_m1_m2_stream_independent_of_order`) has relative error at most `181676·14·u·(1 + 1005/3)`
(about `8.5·10^8·u ≈ 10^-7`) against the exact `Q = 708`; `central_moment(4)` at most `181775·14·u·(1 + 1005/3)`
against `m₄ = 177` -/
example :
    letI : FloatOps (RF2 Props.C02b.awayRnd) := rf2FloatOps Props.C02b.awayRnd
    |(exStream.foldl (Moments.add 4) (Moments.new 4)).m2.val - 708|
        ≤ 181676 * 14 * (1/2^53) * 708 * (1 + 1005/3)
    ∧ |(exStream.foldl (Moments.add 7) (Moments.new 7)).m2.val - 708|
        ≤ 181676 * 14 * (1/2^53) * 708 * (1 + 1005/3)
    ∧ |((exStream.foldl (Moments.add 4) (Moments.new 4)).cmRaw 4).val - 177|
        ≤ 181775 * 14 * (1/2^53) * 177 * (1 + 1005/3) := by
  let _ : FloatOps (RF2 Props.C02b.awayRnd) := rf2FloatOps Props.C02b.awayRnd
  obtain ⟨hT, hQ⟩ := exStream_vals
  have hl : (exStream.length : ℚ) = 4 := by norm_num [exStream]
  have hu : Props.C02b.awayRnd.u = 1/2^53 := rfl
  have key : ∀ N, 4 ≤ N →
      |(exStream.foldl (Moments.add N) (Moments.new N)).m2.val - 708|
        ≤ 181676 * 14 * (1/2^53) * 708 * (1 + 1005/3) := by
    intro N hN
    have h := (moments_m2_envelope_rel (RF2.instNeg_negExact Props.C02b.awayRnd) N hN 1005
      (by norm_num) exStream (by simp [exStream]) exStream_bound
      (by rw [hl, hu]; norm_num) 3 (by norm_num) (by rw [hT, hl]; norm_num)
      (by rw [hl, hu]; norm_num)).2 (by simp [exStream])
    rw [hQ, hl, hu] at h
    norm_num at h ⊢
    exact h
  refine ⟨key 4 (le_refl 4), key 7 (by norm_num), ?_⟩
  have h := central_moment4_envelope (RF2.instNeg_negExact Props.C02b.awayRnd) 4 (le_refl 4) 1005
    (by norm_num) exStream (by simp [exStream]) exStream_bound
    (by rw [hl, hu]; norm_num) 3 (by norm_num) (by rw [hT, hl]; norm_num)
    (by rw [hl, hu]; norm_num)
  rw [hQ, hl, hu] at h
  norm_num at h ⊢
  exact h

/-- ALL hypotheses of `sample_excess_kurtosis_stream_forward_error` hold together for `exStream` (`N = 4`,
`M = 1005`, `σ = 3`, `κ = 336`: `ε₄ = 181775·14·336·2^-53 ≈ 9.5·10^-8`), and its conclusion is a concrete statement:
`sample_excess_kurtosis()` of `define_moments!(f64, 4)` (no rounded operation is exact) is within
`((11/10)·181775·14·336·u + (11/5)·8·4·336·u + 39·u)·G₁`, `G₁ = 5·3/(2·1)·177/9²`, of the exact value. -/
example :
    letI : FloatOps (RF2 Props.C02b.awayRnd) := rf2FloatOps Props.C02b.awayRnd
    |(exStream.foldl (Moments.add 4) (Moments.new 4)).sampleExcessKurtosis.val
        - (4 - 1) / ((4 - 2) * (4 - 3)) * ((4 + 1) * (177 / 9 ^ 2 - 3) + 6)|
      ≤ (11/10 * (181775 * 14 * (1 + 1005 / 3) * (1/2^53))
            + 11/5 * (8 * 4 * (1 + 1005 / 3) * (1/2^53)) + 39 * (1/2^53))
          * ((4 + 1) * (4 - 1) / ((4 - 2) * (4 - 3)) * (177 / 9 ^ 2)) := by
  let _ : FloatOps (RF2 Props.C02b.awayRnd) := rf2FloatOps Props.C02b.awayRnd
  have hl : (exStream.length : ℚ) = 4 := by norm_num [exStream]
  have hu : Props.C02b.awayRnd.u = 1/2^53 := rfl
  obtain ⟨hT, hQ⟩ := exStream_vals
  have h := sample_excess_kurtosis_stream_forward_error (RF2.instNeg_negExact _) 4 (le_refl 4) 1005
    (by norm_num) exStream (by simp [exStream]) exStream_bound
    (by rw [hl, hu]; norm_num) 3 (by norm_num) (by rw [hT, hl]; norm_num)
    (by rw [hl, hu]; norm_num) (by rw [hl, hu]; norm_num)
  rw [hT, hQ, hl, hu] at h
  norm_num at h ⊢
  exact h

/-- the same stream over ℝ (rounding `awayRndR`, never exact; the non-arithmetic operations of
`Props.C10b.exOps`) meets ALL hypotheses of `sample_excess_kurtosis_stream_envelope` with `N = 4`, `M = 1005`
(`T/n = 9`, `σ = 3`, `κ = 336`: `200000·14·336·2^-53 ≈ 10^-7 ≤ 1/16`) -/
example :
    let xs : List (RF2 Props.C01c.awayRndR) := [⟨997⟩, ⟨999⟩, ⟨999⟩, ⟨1005⟩]
    NegExact Props.C01c.awayRndR
    ∧ 4 ≤ xs.length ∧ (∀ x ∈ xs, |x.val| ≤ 1005)
    ∧ ((xs.length : ℝ) + 28) * Props.C01c.awayRndR.u ≤ 1/64
    ∧ 0 < T (xs.map RF2.val) / (xs.length : ℝ)
    ∧ ((xs.length : ℝ) + 10) * Props.C01c.awayRndR.u * 1005
        ≤ Real.sqrt (T (xs.map RF2.val) / (xs.length : ℝ))
    ∧ 200000 * ((xs.length : ℝ) + 10)
        * (1 + 1005 / Real.sqrt (T (xs.map RF2.val) / (xs.length : ℝ))) * Props.C01c.awayRndR.u
          ≤ 1/16 := by
  intro xs
  have hT : T (xs.map RF2.val) = 36 := by norm_num [xs, T, sumPow, mean]
  have hl : (xs.length : ℝ) = 4 := by norm_num [xs]
  have hu : Props.C01c.awayRndR.u = 1/2^53 := rfl
  have hs : Real.sqrt (36 / 4) = 3 := by
    rw [show (36:ℝ) / 4 = 3 ^ 2 by norm_num]; exact Real.sqrt_sq (by norm_num)
  refine ⟨RF2.instNeg_negExact _, by simp [xs], ?_, ?_, ?_, ?_, ?_⟩
  · intro x hx
    simp only [xs, List.mem_cons, List.not_mem_nil, or_false] at hx
    rcases hx with rfl | rfl | rfl | rfl <;> norm_num
  · rw [hl, hu]; norm_num
  · rw [hT, hl]; norm_num
  · rw [hT, hl, hu, hs]; norm_num
  · rw [hT, hl, hu, hs]; norm_num

end Props.C04e

#print axioms Props.C04e.m2_bitwise_update
#print axioms Props.C04e.m0_m1_m2_independent_of_order
#print axioms Props.C04e.m0_m1_m2_stream_independent_of_order
#print axioms Props.C04e.m2_exact
#print axioms Props.C04e.moments_m2_computed
#print axioms Props.C04e.coefficient_rounding_error
#print axioms Props.C04e.coefficient_exact_value
#print axioms Props.C04e.incrementP_rounding_error
#print axioms Props.C04e.incrementQ1_rounding_error
#print axioms Props.C04e.incrementQ2_rounding_error
#print axioms Props.C04e.roundings_24_10_6
#print axioms Props.C04e.moments_m2_step_error
#print axioms Props.C04e.VD4m_def
#print axioms Props.C04e.scales_le_Q
#print axioms Props.C04e.moments_m2_forward_error_general
#print axioms Props.C04e.m1_forward_error_W
#print axioms Props.C04e.prefix_bounds
#print axioms Props.C04e.moments_m2_forward_error
#print axioms Props.C04e.moments_m2_envelope
#print axioms Props.C04e.moments_m2_envelope_Q
#print axioms Props.C04e.moments_m2_envelope_rel
#print axioms Props.C04e.central_moment4_no_panic
#print axioms Props.C04e.central_moment4_computed
#print axioms Props.C04e.central_moment4_envelope
#print axioms Props.C04e.sample_excess_kurtosis_stream_forward_error
#print axioms Props.C04e.moments_m2_envelope_kappa
#print axioms Props.C04e.central_moment4_envelope_kappa
#print axioms Props.C04e.sample_excess_kurtosis_stream_envelope
