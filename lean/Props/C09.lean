import AvgProofs.CovCanon
import AvgProofs.MTree
import AvgProofs.RealCarrier

/-!
# C09 - `Covariance` reports exact means, variances, covariance and Pearson correlation

Carrier: E (any field of characteristic 0, any `FloatOps` instance: the NaN branches are excluded
by the explicit hypotheses `n ≥ 1` / `n ≥ 2`, exactly the guards of the Rust code); `ℝ` for `pearson`
(`sqrt`); an ordered field for Cauchy-Schwarz. The forward-error envelope in floating point is
measured by the harness, not proved here.

`fsts ps`, `snds ps` are the x- and y-coordinates of the pairs, `mean`, `sumPow xs c 2 = Σ(x-c)²`,
`coSum ps c d = Σ(x-c)(y-d)`, and
`canonC ps = ⟨mean x, Σ(x-mx)², mean y, Σ(y-my)², Σ(x-mx)(y-my), n⟩`.
Histories: every `MTree (K × K)` - every merge tree over every chunking of the pairs.
-/
open Avg MSpec

namespace Props.C09
variable {K : Type} [Field K] [CharZero K]

/-- `add` of one pair as a step function on streams of pairs -/
abbrev addP (s : Covariance K) (p : K × K) : Covariance K := s.add p.1 p.2

/-- One observation: adding `(x, y)` to the exact state of `ps` gives the exact state of
`ps ++ [(x, y)]` (single-pass co-moment update with the old x-mean and the new y-mean). -/
theorem cov_add (ps : List (K × K)) (x y : K) : (canonC ps).add x y = canonC (ps ++ [(x, y)]) :=
  MSpec.cov_add ps x y

/-- Every stream of pairs, of any length: the state after adding them one at a time is exactly
(mean x, Σ(x-mx)², mean y, Σ(y-my)², Σ(x-mx)(y-my), n). -/
theorem cov_fold (ps : List (K × K)) : ps.foldl addP Covariance.new = canonC ps :=
  MSpec.cov_fold ps

/-- Merging the exact states of two samples (either may be empty, any sizes) gives the exact state
of the concatenation. -/
theorem cov_merge (ps qs : List (K × K)) : (canonC ps).merge (canonC qs) = canonC (ps ++ qs) :=
  MSpec.cov_merge ps qs

/-- **Every history.** Every merge tree over every chunking of the pairs (any shape, empty and
one-element chunks included) produces exactly the state of the single pass over all pairs. -/
theorem cov_mtree (t : MTree (K × K)) :
    t.eval Covariance.new addP Covariance.merge = canonC t.flatten :=
  MTree.eval_canon _ _ _ canonC cov_fold cov_merge t

/-- `len()` is exact for every history. -/
theorem len_exact (t : MTree (K × K)) :
    (t.eval Covariance.new addP Covariance.merge).len = t.flatten.length := by
  rw [cov_mtree]; rfl

section accessors
variable [FloatOps K]

/-- For `n ≥ 1` pairs, after any history: `mean_x`, `mean_y` are the arithmetic means, the
population variances are `Σ(x-mx)²/n`, `Σ(y-my)²/n` and the population covariance is
`Σ(x-mx)(y-my)/n`. -/
theorem population_statistics (t : MTree (K × K)) (h : 1 ≤ t.flatten.length) :
    let s := t.eval Covariance.new addP Covariance.merge
    let ps := t.flatten
    s.meanX = (fsts ps).sum / ps.length ∧ s.meanY = (snds ps).sum / ps.length
    ∧ s.populationVarianceX = sumPow (fsts ps) (mean (fsts ps)) 2 / ps.length
    ∧ s.populationVarianceY = sumPow (snds ps) (mean (snds ps)) 2 / ps.length
    ∧ s.populationCovariance = coSum ps (mean (fsts ps)) (mean (snds ps)) / ps.length := by
  intro s ps
  have hs : s = canonC ps := cov_mtree t
  have h0 : ¬ ps.length = 0 := by show ¬ t.flatten.length = 0; omega
  have h1 : ¬ ps.length < 1 := by show ¬ t.flatten.length < 1; omega
  have h2 : ps.length > 0 := by show t.flatten.length > 0; omega
  rw [hs]
  refine ⟨?_, ?_, ?_, ?_, ?_⟩
  · simp only [Covariance.meanX, canonC, h2, if_true, mean, fsts, List.length_map]
  · simp only [Covariance.meanY, canonC, h2, if_true, mean, snds, List.length_map]
  · simp only [Covariance.populationVarianceX, canonC, h0, if_false]
  · simp only [Covariance.populationVarianceY, canonC, h0, if_false]
  · simp only [Covariance.populationCovariance, canonC, h1, if_false]

/-- For `n ≥ 2` pairs, after any history: the sample variances and the sample covariance are the
textbook values with denominator `n - 1`. -/
theorem sample_statistics (t : MTree (K × K)) (h : 2 ≤ t.flatten.length) :
    let s := t.eval Covariance.new addP Covariance.merge
    let ps := t.flatten
    s.sampleVarianceX = sumPow (fsts ps) (mean (fsts ps)) 2 / ((ps.length - 1 : Nat) : K)
    ∧ s.sampleVarianceY = sumPow (snds ps) (mean (snds ps)) 2 / ((ps.length - 1 : Nat) : K)
    ∧ s.sampleCovariance = coSum ps (mean (fsts ps)) (mean (snds ps)) / ((ps.length - 1 : Nat) : K) := by
  intro s ps
  have hs : s = canonC ps := cov_mtree t
  have h2 : ¬ ps.length < 2 := by show ¬ t.flatten.length < 2; omega
  rw [hs]
  refine ⟨?_, ?_, ?_⟩
  · simp only [Covariance.sampleVarianceX, canonC, h2, if_false]
  · simp only [Covariance.sampleVarianceY, canonC, h2, if_false]
  · simp only [Covariance.sampleCovariance, canonC, h2, if_false]

end accessors

/-! ## Pearson correlation (ℝ) -/

/-- For `n ≥ 2` pairs, after any history: `pearson = Sxy / sqrt(Sxx · Syy)`. -/
theorem pearson_eq (t : MTree (ℝ × ℝ)) (h : 2 ≤ t.flatten.length) :
    (t.eval Covariance.new addP Covariance.merge).pearson
      = coSum t.flatten (mean (fsts t.flatten)) (mean (snds t.flatten))
        / Real.sqrt (sumPow (fsts t.flatten) (mean (fsts t.flatten)) 2
                      * sumPow (snds t.flatten) (mean (snds t.flatten)) 2) := by
  have h2 : ¬ t.flatten.length < 2 := by omega
  rw [cov_mtree]
  simp only [Covariance.pearson, canonC, h2, if_false]
  rfl

/-- Cauchy-Schwarz on the stored state, any ordered field, any history:
`sum_prod² ≤ sum_x_2 · sum_y_2`, i.e. `pearson² ≤ 1`; and both sums of squares are `≥ 0`. -/
theorem pearson_sq_le_one {F : Type} [Field F] [CharZero F] [LinearOrder F] [IsStrictOrderedRing F]
    (t : MTree (F × F)) :
    let s := t.eval Covariance.new addP Covariance.merge
    s.sum_prod ^ 2 ≤ s.sum_x_2 * s.sum_y_2 ∧ 0 ≤ s.sum_x_2 ∧ 0 ≤ s.sum_y_2 := by
  intro s
  have hs : s = canonC t.flatten := cov_mtree t
  rw [hs]
  exact ⟨coSum_sq_le _ _ _, sumPow_two_nonneg_cov _ _, sumPow_two_nonneg_cov _ _⟩

/-- `|pearson| ≤ 1` for `n ≥ 2` pairs with non-zero spread in both coordinates, after any history. -/
theorem abs_pearson_le_one (t : MTree (ℝ × ℝ)) (h : 2 ≤ t.flatten.length)
    (hx : 0 < sumPow (fsts t.flatten) (mean (fsts t.flatten)) 2)
    (hy : 0 < sumPow (snds t.flatten) (mean (snds t.flatten)) 2) :
    |(t.eval Covariance.new addP Covariance.merge).pearson| ≤ 1 := by
  rw [pearson_eq t h, abs_div, abs_of_pos (Real.sqrt_pos.mpr (mul_pos hx hy)),
    div_le_one (Real.sqrt_pos.mpr (mul_pos hx hy))]
  exact Real.abs_le_sqrt (coSum_sq_le _ _ _)

/-- Exactly collinear data `y = a·x + b` with `a > 0` (`a < 0`), at least two pairs and non-constant
`x`: `pearson = 1` (`-1`), after any history. -/
theorem pearson_collinear (xs : List ℝ) (a b : ℝ) (ha : a ≠ 0) (t : MTree (ℝ × ℝ))
    (ht : t.flatten = xs.map fun x => (x, a * x + b)) (h : 2 ≤ xs.length)
    (hx : 0 < sumPow xs (mean xs) 2) :
    (t.eval Covariance.new addP Covariance.merge).pearson = a / |a| := by
  have hne : xs ≠ [] := by intro h0; subst h0; simp at h
  have hlen : 2 ≤ t.flatten.length := by rw [ht, List.length_map]; exact h
  have hf : fsts t.flatten = xs := by rw [ht]; simp [fsts, List.map_map, Function.comp_def]
  have hsn : snds t.flatten = xs.map fun x => a * x + b := by
    rw [ht]; simp [snds, List.map_map, Function.comp_def]
  rw [pearson_eq t hlen, hf, hsn, mean_affine xs a b hne, sumPow_affine, ht, coSum_affine]
  have hS := hx.ne'
  rw [show sumPow xs (mean xs) 2 * (a ^ 2 * sumPow xs (mean xs) 2)
      = (|a| * sumPow xs (mean xs) 2) ^ 2 by rw [mul_pow, sq_abs]; ring,
    Real.sqrt_sq (mul_nonneg (abs_nonneg a) hx.le)]
  have : |a| ≠ 0 := abs_ne_zero.mpr ha
  field_simp

/-! ## Swapping the roles of x and y -/

/-- the state with the x- and y-fields exchanged -/
def swapC {α : Type} (s : Covariance α) : Covariance α :=
  ⟨s.avg_y, s.sum_y_2, s.avg_x, s.sum_x_2, s.sum_prod, s.n⟩

omit [CharZero K] in
/-- Swapping x and y in every pair swaps the x/y fields of the exact state and leaves the
co-moment `sum_prod` (hence both covariances) and the count unchanged. -/
theorem swap_xy (ps : List (K × K)) : canonC (ps.map Prod.swap) = swapC (canonC ps) := by
  have h1 : fsts (ps.map Prod.swap) = snds ps := by simp [fsts, snds, List.map_map, Function.comp_def]
  have h2 : snds (ps.map Prod.swap) = fsts ps := by simp [fsts, snds, List.map_map, Function.comp_def]
  simp only [canonC, swapC, h1, h2, List.length_map, coSum_swap]

/-- ... for every pair of histories: any merge tree over the swapped pairs gives the swapped state
of any merge tree over the original pairs. -/
theorem swap_xy_mtree (t t' : MTree (K × K)) (h : t'.flatten = t.flatten.map Prod.swap) :
    t'.eval Covariance.new addP Covariance.merge
      = swapC (t.eval Covariance.new addP Covariance.merge) := by
  rw [cov_mtree, cov_mtree, h, swap_xy]

/-- Consequently all statistics swap or stay: x-statistics of the swapped state are the
y-statistics of the original and vice versa, the covariances are the same (any carrier, any
`FloatOps`: it is the same expression on the same fields). -/
theorem swap_statistics {α : Type} [Add α] [Sub α] [Mul α] [Div α] [NatCast α] [FloatOps α]
    (s : Covariance α) :
    (swapC s).meanX = s.meanY ∧ (swapC s).meanY = s.meanX
    ∧ (swapC s).sampleVarianceX = s.sampleVarianceY ∧ (swapC s).sampleVarianceY = s.sampleVarianceX
    ∧ (swapC s).populationVarianceX = s.populationVarianceY
    ∧ (swapC s).populationVarianceY = s.populationVarianceX
    ∧ (swapC s).sampleCovariance = s.sampleCovariance
    ∧ (swapC s).populationCovariance = s.populationCovariance ∧ (swapC s).len = s.len :=
  ⟨rfl, rfl, rfl, rfl, rfl, rfl, rfl, rfl, rfl⟩

/-- ... and `pearson` is unchanged (commutativity of the product under the square root; ℝ). -/
theorem swap_pearson (s : Covariance ℝ) : (swapC s).pearson = s.pearson := by
  simp only [Covariance.pearson, swapC, mul_comm]

/-- non-vacuity: four partially correlated pairs with an offset, merged as 1 + 3. -/
example : (MTree.node (MTree.leaf [((11 : ℚ), (5 : ℚ))]) (MTree.leaf [(12, 3), (13, 4), (16, 0)])).eval
    Covariance.new addP Covariance.merge = ⟨13, 14, 3, 14, -13, 4⟩ := by
  rw [cov_mtree]; norm_num [canonC, mean, sumPow, coSum, fsts, snds]

end Props.C09

#print axioms Props.C09.cov_add
#print axioms Props.C09.cov_fold
#print axioms Props.C09.cov_merge
#print axioms Props.C09.cov_mtree
#print axioms Props.C09.len_exact
#print axioms Props.C09.population_statistics
#print axioms Props.C09.sample_statistics
#print axioms Props.C09.pearson_eq
#print axioms Props.C09.pearson_sq_le_one
#print axioms Props.C09.abs_pearson_le_one
#print axioms Props.C09.pearson_collinear
#print axioms Props.C09.swap_xy
#print axioms Props.C09.swap_xy_mtree
#print axioms Props.C09.swap_statistics
#print axioms Props.C09.swap_pearson
