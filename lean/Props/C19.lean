import AvgProofs.MomentsTree
import AvgProofs.MomentsFold
import AvgProofs.MinMaxTree
import Mathlib.Data.EReal.Basic

/-!
# C19 - parallel collection gives the sequential answer under every schedule

`impl_from_par_iterator!` (src/macros.rs:187-248) collects with
`par_iter.fold(new, |e, i| e.add(i)).reduce(new, |a, b| a.merge(b))`. Whatever the thread count, the
splitting granularity and the steal order, rayon's contract is that `fold` summarises contiguous
pieces of the input from `new()` and `reduce` combines neighbouring results in input order, possibly
with extra `new()` identities: it evaluates SOME `MTree` (`AvgProofs/MTree.lean`: order-preserving
binary tree, leaves = contiguous chunks, empty leaves = identities) whose flattening is the input.
That rayon produces such a tree is modelled (the harness records and replays the trees it really
builds); the theorems below cover EVERY such tree.

Carriers: E (field of characteristic 0) for Mean/Variance/Skewness/Kurtosis - exact arithmetic,
the floating-point envelope is measured by the harness; any carrier with an associative
`fmin`/`fmax` for Min/Max - this includes `f64` on the C01 domain, bit for bit.
-/
open Avg MSpec

namespace Props.C19

/-! ## Mean, Variance, Skewness, Kurtosis -/
section Moments
variable {K : Type} [Field K] [CharZero K]

/-- `Mean`: under every schedule (every merge tree over the input), `len()` is exactly the input
length and the collected estimator is exactly the sequential one. -/
theorem par_collect_mean (t : MTree K) :
    (t.eval Mean.new Mean.add Mean.merge).len = t.flatten.length
    ∧ t.eval Mean.new Mean.add Mean.merge = t.flatten.foldl Mean.add Mean.new := by
  have h : t.eval Mean.new Mean.add Mean.merge = canonMean t.flatten := mean_mtree t
  rw [mean_fold, h]; exact ⟨rfl, rfl⟩

/-- `Variance` (= `MeanWithError`): the same. -/
theorem par_collect_variance (t : MTree K) :
    (t.eval Variance.new Variance.add Variance.merge).len = t.flatten.length
    ∧ t.eval Variance.new Variance.add Variance.merge = t.flatten.foldl Variance.add Variance.new := by
  have h : t.eval Variance.new Variance.add Variance.merge = canonV t.flatten := variance_mtree t
  rw [variance_fold, h]; exact ⟨rfl, rfl⟩

/-- `Skewness`: the same. -/
theorem par_collect_skewness (t : MTree K) :
    (t.eval Skewness.new Skewness.add Skewness.merge).len = t.flatten.length
    ∧ t.eval Skewness.new Skewness.add Skewness.merge = t.flatten.foldl Skewness.add Skewness.new := by
  have h : t.eval Skewness.new Skewness.add Skewness.merge = canonS t.flatten := skewness_mtree t
  rw [skewness_fold, h]; exact ⟨rfl, rfl⟩

/-- `Kurtosis`: the same. -/
theorem par_collect_kurtosis (t : MTree K) :
    (t.eval Kurtosis.new Kurtosis.add Kurtosis.merge).len = t.flatten.length
    ∧ t.eval Kurtosis.new Kurtosis.add Kurtosis.merge = t.flatten.foldl Kurtosis.add Kurtosis.new := by
  have h : t.eval Kurtosis.new Kurtosis.add Kurtosis.merge = canonK t.flatten := kurtosis_mtree t
  rw [kurtosis_fold, h]; exact ⟨rfl, rfl⟩

/-- Repeated runs: two schedules over the same input give the same estimator (all four types). -/
theorem par_collect_repeatable (t₁ t₂ : MTree K) (h : t₁.flatten = t₂.flatten) :
    t₁.eval Mean.new Mean.add Mean.merge = t₂.eval Mean.new Mean.add Mean.merge
    ∧ t₁.eval Variance.new Variance.add Variance.merge = t₂.eval Variance.new Variance.add Variance.merge
    ∧ t₁.eval Skewness.new Skewness.add Skewness.merge = t₂.eval Skewness.new Skewness.add Skewness.merge
    ∧ t₁.eval Kurtosis.new Kurtosis.add Kurtosis.merge = t₂.eval Kurtosis.new Kurtosis.add Kurtosis.merge := by
  rw [(par_collect_mean t₁).2, (par_collect_mean t₂).2, (par_collect_variance t₁).2,
    (par_collect_variance t₂).2, (par_collect_skewness t₁).2, (par_collect_skewness t₂).2,
    (par_collect_kurtosis t₁).2, (par_collect_kurtosis t₂).2, h]
  exact ⟨rfl, rfl, rfl, rfl⟩

end Moments

/-! ## `define_moments!` types -/

/-- `define_moments!` estimators of every order `N`: every fold/reduce tree gives exactly the
sequential len() and the sequential estimator (count, mean, all power sums). -/
theorem par_collect_moments {K : Type} [Field K] [CharZero K] (N : Nat) (t : MTree K) :
    (t.eval (Moments.new N) (Moments.add N) (Moments.merge N)).len = t.flatten.length
    ∧ t.eval (Moments.new N) (Moments.add N) (Moments.merge N)
        = t.flatten.foldl (Moments.add N) (Moments.new N) := by
  have h : t.eval (Moments.new N) (Moments.add N) (Moments.merge N) = MSpec.canonM N t.flatten :=
    MSpec.moments_mtree N t
  rw [h, MSpec.moments_fold]
  exact ⟨rfl, rfl⟩

/-! ## Min, Max -/
section MinMax
variable {α : Type} [FloatOps α]

/-- `Min`, any carrier whose `fmin` is associative with `posInf` as right identity (`f64::min` on
non-NaN values; `min` with a top element): every schedule gives, bit for bit, the sequential
estimator. -/
theorem par_collect_min
    (hassoc : ∀ a b c : α, FloatOps.fmin (FloatOps.fmin a b) c = FloatOps.fmin a (FloatOps.fmin b c))
    (hid : ∀ x : α, FloatOps.fmin x FloatOps.posInf = x)
    (t : MTree α) : t.eval Min.new Min.add Min.merge = t.flatten.foldl Min.add Min.new :=
  Min.mtree_weak hassoc (hid _) (fun _ => hid _) t

/-- `Max`, dually (`fmax` associative, `negInf` right identity). -/
theorem par_collect_max
    (hassoc : ∀ a b c : α, FloatOps.fmax (FloatOps.fmax a b) c = FloatOps.fmax a (FloatOps.fmax b c))
    (hid : ∀ x : α, FloatOps.fmax x FloatOps.negInf = x)
    (t : MTree α) : t.eval Max.new Max.add Max.merge = t.flatten.foldl Max.add Max.new :=
  Max.mtree_weak hassoc (hid _) (fun _ => hid _) t

/-- `Min` when NaNs may be present: `f64::min` returns the other operand if one is NaN, so `+∞` is
not a right identity for NaN (`min(NaN, +∞) = +∞`); but it is for every value of the form
`min(+∞, y)`, and that is all the reduction needs. Same conclusion under these weaker hypotheses. -/
theorem par_collect_min_nan
    (hassoc : ∀ a b c : α, FloatOps.fmin (FloatOps.fmin a b) c = FloatOps.fmin a (FloatOps.fmin b c))
    (he : FloatOps.fmin (FloatOps.posInf : α) FloatOps.posInf = FloatOps.posInf)
    (hid : ∀ y : α, FloatOps.fmin (FloatOps.fmin FloatOps.posInf y) FloatOps.posInf
        = FloatOps.fmin FloatOps.posInf y)
    (t : MTree α) : t.eval Min.new Min.add Min.merge = t.flatten.foldl Min.add Min.new :=
  Min.mtree_weak hassoc he hid t

/-- `Max` when NaNs may be present. -/
theorem par_collect_max_nan
    (hassoc : ∀ a b c : α, FloatOps.fmax (FloatOps.fmax a b) c = FloatOps.fmax a (FloatOps.fmax b c))
    (he : FloatOps.fmax (FloatOps.negInf : α) FloatOps.negInf = FloatOps.negInf)
    (hid : ∀ y : α, FloatOps.fmax (FloatOps.fmax FloatOps.negInf y) FloatOps.negInf
        = FloatOps.fmax FloatOps.negInf y)
    (t : MTree α) : t.eval Max.new Max.add Max.merge = t.flatten.foldl Max.add Max.new :=
  Max.mtree_weak hassoc he hid t

end MinMax

section MinMaxOrder
variable {α : Type} [LinearOrder α] [FloatOps α]

/-- Linear order with `fmin = min` and `posInf` a greatest element: under every schedule `min()` is
the sequential value `foldl min +∞`, which is the exact minimum: a lower bound of all the data,
attained by one of them when there are any, `+∞` when there are none. -/
theorem par_collect_min_exact (hmin : ∀ a b : α, FloatOps.fmin a b = min a b)
    (htop : ∀ x : α, x ≤ FloatOps.posInf) (t : MTree α) :
    let r := t.eval Min.new Min.add Min.merge
    r = t.flatten.foldl Min.add Min.new
    ∧ r.min = t.flatten.foldl min FloatOps.posInf
    ∧ (∀ x ∈ t.flatten, r.min ≤ x)
    ∧ (t.flatten ≠ [] → r.min ∈ t.flatten)
    ∧ (t.flatten = [] → r.min = FloatOps.posInf) := by
  intro r
  have hf : (FloatOps.fmin : α → α → α) = min := by funext a b; exact hmin a b
  have hr : r = t.flatten.foldl Min.add Min.new :=
    par_collect_min (by intro a b c; simp only [hmin]; exact min_assoc a b c)
      (by intro x; rw [hmin]; exact min_eq_left (htop x)) t
  have hv : r.min = t.flatten.foldl min FloatOps.posInf := by
    rw [hr, Min.foldl_add, hf]; rfl
  refine ⟨hr, hv, ?_, ?_, ?_⟩
  · rw [hv]; exact foldl_min_le _ _
  · intro hne
    rw [hv]
    rcases foldl_min_mem (FloatOps.posInf : α) t.flatten with h | h
    · -- the fold is `+∞`: then every datum is `+∞` and `+∞` is one of them
      obtain ⟨x, hx⟩ := List.exists_mem_of_ne_nil _ hne
      have : x = FloatOps.posInf := le_antisymm (htop x) (h ▸ foldl_min_le _ _ x hx)
      rw [h, ← this]; exact hx
    · exact h
  · intro he; rw [hv, he]; rfl

/-- Dually for `Max` (`fmax = max`, `negInf` a least element): `max()` is the exact maximum. -/
theorem par_collect_max_exact (hmax : ∀ a b : α, FloatOps.fmax a b = max a b)
    (hbot : ∀ x : α, FloatOps.negInf ≤ x) (t : MTree α) :
    let r := t.eval Max.new Max.add Max.merge
    r = t.flatten.foldl Max.add Max.new
    ∧ r.max = t.flatten.foldl max FloatOps.negInf
    ∧ (∀ x ∈ t.flatten, x ≤ r.max)
    ∧ (t.flatten ≠ [] → r.max ∈ t.flatten)
    ∧ (t.flatten = [] → r.max = FloatOps.negInf) := by
  intro r
  have hf : (FloatOps.fmax : α → α → α) = max := by funext a b; exact hmax a b
  have hr : r = t.flatten.foldl Max.add Max.new :=
    par_collect_max (by intro a b c; simp only [hmax]; exact max_assoc a b c)
      (by intro x; rw [hmax]; exact max_eq_left (hbot x)) t
  have hv : r.max = t.flatten.foldl max FloatOps.negInf := by
    rw [hr, Max.foldl_add, hf]; rfl
  refine ⟨hr, hv, ?_, ?_, ?_⟩
  · rw [hv]; exact foldl_max_ge _ _
  · intro hne
    rw [hv]
    rcases foldl_max_mem (FloatOps.negInf : α) t.flatten with h | h
    · obtain ⟨x, hx⟩ := List.exists_mem_of_ne_nil _ hne
      have : x = FloatOps.negInf := le_antisymm (h ▸ foldl_max_ge _ _ x hx) (hbot x)
      rw [h, ← this]; exact hx
    · exact h
  · intro he; rw [hv, he]; rfl

end MinMaxOrder

/-! ## non-vacuity -/

/-- the extended reals (finite values and ±∞, the non-NaN part of `f64` idealised) with
`fmin = min`, `fmax = max`, `posInf = ⊤`, `negInf = ⊥`; the other operations are not used by
`Min`/`Max`. -/
@[reducible] noncomputable def erealOps : FloatOps EReal where
  nan := 0
  posInf := ⊤
  negInf := ⊥
  sqrt := id
  pow15 := id
  lt := fun a b => decide (a < b)
  eqb := fun a b => decide (a = b)
  isNaN := fun _ => false
  fmin := min
  fmax := max
  ceilInt := fun _ => 0
  ordLt := fun a b => decide (a < b)

/-- the hypotheses of `par_collect_min_exact` / `par_collect_max_exact` are met by `EReal`, and on a
concrete schedule (unbalanced, with an identity leaf) the collected minimum is the minimum -/
example :
    (∀ a b : EReal, erealOps.fmin a b = min a b) ∧ (∀ x : EReal, x ≤ erealOps.posInf)
    ∧ (∀ a b : EReal, erealOps.fmax a b = max a b) ∧ (∀ x : EReal, erealOps.negInf ≤ x)
    ∧ (letI := erealOps
       ((MTree.node (.node (.leaf [3]) (.leaf [])) (.node (.leaf [1, 2]) (.leaf [6])) : MTree EReal).eval
          Min.new Min.add Min.merge).min = 1) := by
  refine ⟨fun _ _ => rfl, fun _ => le_top, fun _ _ => rfl, fun _ => bot_le, ?_⟩
  rw [(@par_collect_min_exact EReal _ erealOps (fun _ _ => rfl) (fun _ => le_top) _).2.1]
  show min (min (min (min (⊤ : EReal) 3) 1) 2) 6 = 1
  have h13 : (1 : EReal) ≤ 3 := by exact_mod_cast (by norm_num : (1:ℝ) ≤ 3)
  have h12 : (1 : EReal) ≤ 2 := by exact_mod_cast (by norm_num : (1:ℝ) ≤ 2)
  have h16 : (1 : EReal) ≤ 6 := by exact_mod_cast (by norm_num : (1:ℝ) ≤ 6)
  rw [min_eq_right (le_top : (3 : EReal) ≤ ⊤), min_eq_right h13, min_eq_left h12, min_eq_left h16]

/-- moments: a schedule with an identity leaf and one-element leaves -/
example :
    ((MTree.node (.node (.leaf [1]) (.leaf [])) (.node (.leaf [2, 3]) (.leaf [6])) : MTree ℚ).eval
        Variance.new Variance.add Variance.merge).len = 4 := by
  rw [(par_collect_variance _).1]; rfl

end Props.C19

#print axioms Props.C19.par_collect_mean
#print axioms Props.C19.par_collect_variance
#print axioms Props.C19.par_collect_skewness
#print axioms Props.C19.par_collect_kurtosis
#print axioms Props.C19.par_collect_repeatable
#print axioms Props.C19.par_collect_min
#print axioms Props.C19.par_collect_max
#print axioms Props.C19.par_collect_min_nan
#print axioms Props.C19.par_collect_max_nan
#print axioms Props.C19.par_collect_min_exact
#print axioms Props.C19.par_collect_max_exact
#print axioms Props.C19.par_collect_moments
