import AvgProofs.MomentsMeanErr
import AvgProofs.MomentsTree
import Mathlib.Tactic.NormNum

/-!
# C04 (addendum) - the mean of `define_moments!(T, N)` in floating point: proved forward-error bound

Carrier **R2** (`RF2 r`, `AvgProofs/MeanErr2.lean`): an ordered field `F` in which every `+ - * /` is
followed by a rounding `r.fl` with `|fl t - t| ≤ u |t|` (standard model of floating-point arithmetic:
no overflow, no underflow); conversions of counts are exact (`n < 2^53`). `meanK xs = Σx/n` is the exact
mean. `Neg (RF2 r)` is an arbitrary instance (the mean never negates; `RF2.instNeg`, the exact sign flip,
is one). Every order `N`. `MTree` is an arbitrary order-preserving binary merge tree over contiguous
chunks (empty and one-element chunks allowed), `Moments.evalTree N t` summarises each chunk with `add`
from `new` and combines the summaries with `merge` along the tree.

* `add`: the `(avg, n)` half of `Moments.add N` is the text of `Mean.add` (`moments_mean_is_mean`, any
  carrier), so `Props.C01.mean_forward_error` holds verbatim for add-only streams
  (`moments_mean_forward_error`).
* `merge`: `avg' = avg_a + (n_b/n)·(avg_b - avg_a)` - four rounded operations (quotient of the exactly
  converted counts, difference, product, sum), not the five of `Mean.merge`. They cost at most
  `A·u·(7 + 12u + 8u² + 2u³) ≤ 8·u·A` (`moments_merge_rounding_error`), against `5·u·A` for `Mean.merge`;
  the budget argument of `Props.C02b` still closes with the **same constant 11**:
  for every merge tree over `n` observations with `|x| ≤ M` and `n·u ≤ 1/64`, the count is exact and
  `|mean() - Σx/n| ≤ 11·u·M·n` (`moments_mean_mtree_forward_error`), inside the envelope `12·n·u·M` of
  DESIGN.md section 5 (`…_envelope`).
* agreement with `Mean` fed the same data: bit for bit for add-only streams; within `22·u·M·n` for two
  arbitrary merge trees over the same data (`moments_mean_agrees_with_mean_mtree`).

Only the *mean* is covered: the forward-error envelopes of the central moments `m[p-2]` remain measured.
-/
open Avg

namespace Props.C04b
variable {F : Type} [Field F] [LinearOrder F] [IsStrictOrderedRing F]

/-! ## add-only streams -/

/-- On any carrier and for every order `N`, the mean and the count kept by `define_moments!` after a
stream are, bit for bit, the state of `Mean` after the same stream: `Moments.add` updates them with the
same operations in the same order (`delta = x - avg; avg += delta / n`). -/
theorem moments_mean_is_mean {α : Type} [Add α] [Sub α] [Mul α] [Div α] [Neg α] [NatCast α]
    (N : Nat) (xs : List α) :
    (xs.foldl (Moments.add N) (Moments.new N)).meanState = xs.foldl Mean.add Mean.new :=
  Moments.fold_meanState N xs (Moments.new N)

/-- **Add-only streams, every order `N`, all lengths.** In the standard model of rounding with unit
roundoff `u`, after `n` observations with `|x| ≤ M` and `w + n·u ≤ 1/2`, `w = (2u+u²)(1+u)`: the count
is exact and `|avg - Σx/n| ≤ 2(2w+u)·M·n` (the bound of `Props.C01.mean_forward_error` for `Mean`). -/
theorem moments_mean_forward_error (r : Rnd2 F) [Neg (RF2 r)] (N : Nat) (M : F) (hM : 0 ≤ M)
    (xs : List (RF2 r)) (hb : ∀ x ∈ xs, |x.val| ≤ M)
    (hsmall : (2*r.u + r.u^2) * (1 + r.u) + xs.length * r.u ≤ 1/2) :
    (xs.foldl (Moments.add N) (Moments.new N)).n = xs.length ∧
    |(xs.foldl (Moments.add N) (Moments.new N)).avg.val - meanK (xs.map RF2.val)|
      ≤ 2 * M * (2 * ((2*r.u + r.u^2) * (1 + r.u)) + r.u) * xs.length :=
  moments_mean_fold_error r N M hM xs hb hsmall

/-! ## one merge -/

/-- The four roundings of the mean in `Moments.merge`: for `|a|, |b| ≤ A` and `0 ≤ t ≤ 1` (`t = n_b/n`;
`fl t` is the rounded quotient), the computed `fl(a + fl(fl t · fl(b - a)))` differs from the exact
convex combination `a + t (b - a)` by at most `A·u·(7 + 12u + 8u² + 2u³)` (`≤ 8·u·A` when `u ≤ 1/16`). -/
theorem moments_merge_rounding_error (r : Rnd2 F) (A a b t : F) (ht0 : 0 ≤ t) (ht1 : t ≤ 1)
    (ha : |a| ≤ A) (hb : |b| ≤ A) :
    |r.fl (a + r.fl (r.fl t * r.fl (b - a))) - (a + t * (b - a))|
      ≤ A * r.u * (7 + 12*r.u + 8*r.u^2 + 2*r.u^3) :=
  moments_merge_round_error r.fl r.u r.u_nonneg r.err A a b t ht0 ht1 ha hb

/-- One merge step keeps a budget of `B` per observation. If the `define_moments!` states `a`, `b` (any
order `N`) hold the exact counts of the chunks `xs`, `ys` (all `|x| ≤ M`; either chunk may be empty) and
their `avg` is within `B·|xs|`, `B·|ys|` of the exact means of the chunks, then - provided `u ≤ 1/16` and
`8u(M + B·n) ≤ B` for the total count `n` - `merge a b` holds the exact count `n` and its `avg` is within
`B·n` of the exact mean of `xs ++ ys`. -/
theorem moments_mean_merge_forward_error (r : Rnd2 F) [Neg (RF2 r)] (N : Nat) (M B : F) (hM : 0 ≤ M)
    (hB : 0 ≤ B) (hu : r.u ≤ 1/16) (a b : Moments (RF2 r)) (xs ys : List F)
    (hxs : ∀ x ∈ xs, |x| ≤ M) (hys : ∀ y ∈ ys, |y| ≤ M)
    (han : a.n = xs.length) (hbn : b.n = ys.length)
    (hae : |a.avg.val - meanK xs| ≤ B * (xs.length : F))
    (hbe : |b.avg.val - meanK ys| ≤ B * (ys.length : F))
    (hsmall : 8 * r.u * (M + B * ((xs ++ ys).length : F)) ≤ B) :
    (Moments.merge N a b).n = (xs ++ ys).length ∧
    |(Moments.merge N a b).avg.val - meanK (xs ++ ys)| ≤ B * ((xs ++ ys).length : F) :=
  moments_mean_merge_error r N M B hM hB hu a b xs ys hxs hys han hbn hae hbe hsmall

/-! ## every merge tree -/

/-- **`define_moments!`, every order `N`, every merge tree.** In the standard model of rounding with
unit roundoff `u`, for every merge tree `t` (any shape, any chunk sizes, empty and one-element chunks
included) over `n` observations with `|x| ≤ M` and `n·u ≤ 1/64`: the count is exact and
`|avg - Σx/n| ≤ 11·u·M·n`. -/
theorem moments_mean_mtree_forward_error (r : Rnd2 F) [Neg (RF2 r)] (N : Nat) (M : F) (hM : 0 ≤ M)
    (t : MTree (RF2 r)) (hb : ∀ x ∈ t.flatten, |x.val| ≤ M)
    (hsmall : (t.flatten.length : F) * r.u ≤ 1/64) :
    (Moments.evalTree N t).n = t.flatten.length ∧
    |(Moments.evalTree N t).avg.val - meanK (t.flatten.map RF2.val)|
      ≤ 11 * r.u * M * (t.flatten.length : F) :=
  moments_mean_mtree_error r N M hM t hb hsmall

/-- The same for what `mean()` returns, in the form of the envelope of DESIGN.md section 5:
for `n ≥ 1` observations `|mean() - Σx/n| ≤ 12·n·u·M` (the guard `n > 0` holds because the count is
exact; `FloatOps (RF2 r)` is arbitrary - `nan` only occurs in the branch `n = 0`). -/
theorem moments_mean_mtree_forward_error_envelope (r : Rnd2 F) [Neg (RF2 r)] [FloatOps (RF2 r)]
    (N : Nat) (M : F) (hM : 0 ≤ M) (t : MTree (RF2 r)) (hne : t.flatten ≠ [])
    (hb : ∀ x ∈ t.flatten, |x.val| ≤ M) (hsmall : (t.flatten.length : F) * r.u ≤ 1/64) :
    |(Moments.evalTree N t).mean.val - meanK (t.flatten.map RF2.val)|
      ≤ 12 * (t.flatten.length : F) * r.u * M := by
  obtain ⟨hn, he⟩ := moments_mean_mtree_error r N M hM t hb hsmall
  have hpos : 0 < (Moments.evalTree N t).n := by rw [hn]; exact List.length_pos_of_ne_nil hne
  have : (Moments.evalTree N t).mean = (Moments.evalTree N t).avg := by
    simp only [Moments.mean, gt_iff_lt, hpos, if_true]
  rw [this]
  refine le_trans he ?_
  have h : 0 ≤ (t.flatten.length : F) * r.u * M :=
    mul_nonneg (mul_nonneg (Nat.cast_nonneg _) r.u_nonneg) hM
  linarith

/-- General form: any per-observation budget `B ≥ 2M(2w+u)`, `w = (2u+u²)(1+u)`, with `u ≤ 1/16`,
`w + n·u ≤ 1/2` and `8u(M + B·n) ≤ B`, is kept by every merge tree over `n` observations. -/
theorem moments_mean_mtree_forward_error_gen (r : Rnd2 F) [Neg (RF2 r)] (N : Nat) (M B : F)
    (hM : 0 ≤ M) (hu : r.u ≤ 1/16)
    (hB : 2 * M * (2 * ((2*r.u + r.u^2) * (1 + r.u)) + r.u) ≤ B) (t : MTree (RF2 r))
    (hb : ∀ x ∈ t.flatten, |x.val| ≤ M)
    (hs1 : (2*r.u + r.u^2) * (1 + r.u) + (t.flatten.length : F) * r.u ≤ 1/2)
    (hs2 : 8 * r.u * (M + B * (t.flatten.length : F)) ≤ B) :
    (Moments.evalTree N t).n = t.flatten.length ∧
    |(Moments.evalTree N t).avg.val - meanK (t.flatten.map RF2.val)| ≤ B * (t.flatten.length : F) :=
  moments_mean_mtree_error_gen r N M B hM hu hB t hb hs1 hs2

/-! ## agreement with `Mean` fed the same data -/

/-- Two arbitrary merge trees `t₁` (evaluated with `define_moments!`, any order) and `t₂` (evaluated with
`Mean`) over the same `n` observations, `|x| ≤ M`, `n·u ≤ 1/64`: the two means differ by at most
`22·u·M·n`. (For add-only streams they are equal bit for bit: `moments_mean_is_mean`.) -/
theorem moments_mean_agrees_with_mean_mtree (r : Rnd2 F) [Neg (RF2 r)] (N : Nat) (M : F) (hM : 0 ≤ M)
    (t₁ t₂ : MTree (RF2 r)) (hsame : t₁.flatten = t₂.flatten) (hb : ∀ x ∈ t₁.flatten, |x.val| ≤ M)
    (hsmall : (t₁.flatten.length : F) * r.u ≤ 1/64) :
    |(Moments.evalTree N t₁).avg.val - (Mean.evalTree t₂).avg.val|
      ≤ 22 * r.u * M * (t₁.flatten.length : F) := by
  have h1 := (moments_mean_mtree_error r N M hM t₁ hb hsmall).2
  have h2 := (mean_mtree_error r M hM t₂ (hsame ▸ hb) (hsame ▸ hsmall)).2
  rw [← hsame] at h2
  have : (Moments.evalTree N t₁).avg.val - (Mean.evalTree t₂).avg.val
      = ((Moments.evalTree N t₁).avg.val - meanK (t₁.flatten.map RF2.val))
        - ((Mean.evalTree t₂).avg.val - meanK (t₁.flatten.map RF2.val)) := by ring
  rw [this]
  refine le_trans (abs_sub _ _) ?_
  simp only [Mean.evalTree] at h2 ⊢
  linarith

/-! ## Non-vacuity -/

/-- a rounding that is never exact (except at 0): always moves away from zero by the full relative
amount `u = 2^-53` -/
def awayRnd : Rnd2 ℚ :=
  ⟨fun t => t * (1 + 1/2^53), 1/2^53, by norm_num, fun t => by
    have : t * (1 + 1/2^53) - t = (1/2^53) * t := by ring
    rw [this, abs_mul, abs_of_pos (by norm_num : (0:ℚ) < 1/2^53)]⟩

/-- a tree with a nested merge, an empty chunk in the middle and unequal chunk sizes -/
def exTree : MTree (RF2 awayRnd) :=
  .node (.leaf [⟨1⟩, ⟨2⟩, ⟨-6⟩]) (.node (.leaf []) (.leaf [⟨3⟩]))

/-- the hypotheses of the tree theorems are met by `exTree` with `M = 6`, `u = 2^-53` -/
example : (∀ x ∈ exTree.flatten, |x.val| ≤ 6) ∧ (exTree.flatten.length : ℚ) * awayRnd.u ≤ 1/64 := by
  constructor
  · intro x hx
    simp only [exTree, MTree.flatten, List.nil_append, List.mem_append, List.mem_cons,
      List.not_mem_nil, or_false] at hx
    rcases hx with (rfl | rfl | rfl) | rfl <;> norm_num
  · norm_num [exTree, MTree.flatten, awayRnd]

/-- and the conclusion is a concrete statement about `define_moments!(T, 6)` run with a rounding that is
not the identity: 3 rounded operations per `add` and 4 in the one merge of two non-empty states; the
mean is within `11·2^-53·6·4` of the exact mean `0` -/
example : |(Moments.evalTree 6 exTree).avg.val - 0| ≤ 11 * (1/2^53) * 6 * 4 := by
  have h := (moments_mean_mtree_forward_error awayRnd 6 6 (by norm_num) exTree
    (by intro x hx
        simp only [exTree, MTree.flatten, List.nil_append, List.mem_append,
          List.mem_cons, List.not_mem_nil, or_false] at hx
        rcases hx with (rfl | rfl | rfl) | rfl <;> norm_num)
    (by norm_num [exTree, MTree.flatten, awayRnd])).2
  have hm : meanK (exTree.flatten.map RF2.val) = 0 := by
    norm_num [exTree, MTree.flatten, meanK]
  have hl : (exTree.flatten.length : ℚ) = 4 := by norm_num [exTree, MTree.flatten]
  rw [hm, hl] at h
  exact h

end Props.C04b

#print axioms Props.C04b.moments_mean_is_mean
#print axioms Props.C04b.moments_mean_forward_error
#print axioms Props.C04b.moments_merge_rounding_error
#print axioms Props.C04b.moments_mean_merge_forward_error
#print axioms Props.C04b.moments_mean_mtree_forward_error
#print axioms Props.C04b.moments_mean_mtree_forward_error_envelope
#print axioms Props.C04b.moments_mean_mtree_forward_error_gen
#print axioms Props.C04b.moments_mean_agrees_with_mean_mtree
