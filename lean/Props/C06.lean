import AvgProofs.HistCarrier
import AvgProofs.HistSearch
import AvgProofs.HistBinOf
import AvgProofs.HistAdd
import AvgProofs.HistConstruct
import AvgProofs.HistConstWidth

/-!
# C06 - a histogram counts each sample in the unique half-open bin that contains it

Carriers. The statements about NaN samples, about `add` given the result of `find`, and about
totals hold for *every* `FloatOps` instance (bit for bit). The statements about which bin is chosen
are over any linear order `K` (the non-NaN floats: `<`/`==` of `f64` without NaN, `±inf` included,
`-0.0 == +0.0`) with `[OrdLawful K]`: `FloatOps.lt = (· < ·)`, `FloatOps.eqb = (· = ·)`, no NaN.
Because they are over an arbitrary linear order, infinite outer edges and repeated edges (empty
bins) need no special case.

`Avg.binarySearchBy` transcribes libcore's branch-free `binary_search_by`; its contract
(`Avg.search_spec`: `Ok i` is the *last* index comparing equal, `Err i` the partition point) is
proved in `AvgProofs/HistSearch.lean` against the model's own definitions.
-/
open Avg

namespace Props.C06

/-! ## every carrier -/
section any
variable {α : Type} [FloatOps α]

/-- A NaN sample is reported as out of range by `find`, whatever the histogram (no panic). -/
theorem find_nan (h : Hist α) (x : α) (hx : FloatOps.isNaN x = true) : h.find x = .outOfRange :=
  find_nan' h x hx

/-- Adding a NaN sample returns the error and leaves the histogram (edges and all counts) unchanged. -/
theorem add_nan (h : Hist α) (x : α) (hx : FloatOps.isNaN x = true) : h.add x = .val (h, false) :=
  add_of_outOfRange h x (find_nan h x hx)

/-- Whatever the edges, an index returned by `find` is a valid bin index (so `bin[i] += 1` in `add`
cannot go out of bounds). -/
theorem find_index_valid (h : Hist α) (x : α) (i : Nat) (hf : h.find x = .ok i) : i < h.bin.length :=
  find_ok_lt h x i hf

/-- `add` when `find` succeeds with bin `i`: `Ok(())`, the edges are unchanged and the count list is
the old one with entry `i` replaced by `bin[i] + 1`. -/
theorem add_ok (h : Hist α) (x : α) (i : Nat) (hf : h.find x = .ok i) :
    h.add x = .val (⟨h.range, h.bin.set i (h.bin.getD i 0 + 1)⟩, true) :=
  add_of_ok h x i hf

/-- ... so exactly that count changes, by one, and every other count stays (`i < bin.length` by
`find_index_valid`, so the `getD` default is never used for `j < bin.length`). -/
theorem add_ok_counts (h : Hist α) (x : α) (i : Nat) (hf : h.find x = .ok i) :
    ∃ h', h.add x = .val (h', true) ∧ h'.range = h.range ∧ h'.bin.length = h.bin.length ∧
      ∀ j, j < h.bin.length → h'.bin.getD j 0 = if j = i then h.bin.getD i 0 + 1 else h.bin.getD j 0 := by
  refine ⟨_, add_of_ok h x i hf, rfl, by simp, ?_⟩
  intro j hj
  have hi := find_ok_lt h x i hf
  by_cases hji : j = i
  · subst hji; simp [List.getD_eq_getElem?_getD, hj]
  · have : ¬ i = j := fun e => hji e.symm
    simp [List.getD_eq_getElem?_getD, hji, this]

/-- `add` when `find` reports out of range: the error is returned and nothing changes. -/
theorem add_rejected (h : Hist α) (x : α) (hf : h.find x = .outOfRange) : h.add x = .val (h, false) :=
  add_of_outOfRange h x hf

/-- After any sequence of adds (rejected samples ignored), the total of all counts is the initial
total plus the number of accepted samples; acceptance of a sample depends only on the edges, so it
can be evaluated on the initial histogram. `total` is the left fold the Rust code computes. -/
theorem add_total (h : Hist α) (xs : List α) :
    (h.addAll xs).total = h.total + (xs.filter h.accepts).length :=
  addAll_total h xs

omit [FloatOps α] in
/-- `total` is the sum of the counts. -/
theorem total_eq_sum (h : Hist α) : h.total = h.bin.sum := Avg.total_eq_sum h

/-- After any sequence of adds, the count of bin `j` is its initial count plus the number of samples
that `find` maps to `j`; edges and number of bins never change. -/
theorem add_counts (h : Hist α) (xs : List α) (j : Nat) :
    (h.addAll xs).range = h.range ∧ (h.addAll xs).bin.length = h.bin.length ∧
    (h.addAll xs).bin.getD j 0 = h.bin.getD j 0 + xs.countP (fun x => decide (h.find x = .ok j)) :=
  ⟨addAll_range h xs, addAll_bin_length h xs, addAll_getD h xs j⟩

end any

/-! ## linear order (non-NaN values) -/
section ord
variable {K : Type} [LinearOrder K] [FloatOps K] [OrdLawful K]

/-- Over an ordered carrier `partial_cmp` is the three-way comparison of the order, never `None`. -/
theorem partialCmp_ord (p x : K) :
    partialCmp p x = some (if p < x then .lt else if p = x then .eq else .gt) :=
  partialCmp_ord' p x

/-- ... so `find` and `add` never panic, whatever the histogram (even with unsorted edges). -/
theorem find_add_no_panic (h : Hist K) (x : K) : h.find x ≠ .panic ∧ h.add x ≠ .panic := by
  refine ⟨find_ne_panic h x, ?_⟩
  unfold Hist.add
  cases hf : h.find x with
  | ok i => simp
  | outOfRange => simp
  | panic => exact absurd hf (find_ne_panic h x)

variable (h : Hist K) (hs : h.range.Pairwise (· ≤ ·)) (hl : h.range.length = h.bin.length + 1)
include hs hl

/-- **Which bin.** For non-decreasing edges (`LEN+1` of them): `find x = Ok(i)` exactly when `i` is
a bin and `range[i] ≤ x < range[i+1]`. In particular a bin with `range[i] = range[i+1]` (empty) is
never chosen, and a sample equal to a repeated edge goes to the bin that starts at the last copy. -/
theorem find_iff (x : K) (i : Nat) :
    h.find x = .ok i ↔ i < h.bin.length ∧
      ∃ lo hi, h.range[i]? = some lo ∧ h.range[i+1]? = some hi ∧ lo ≤ x ∧ x < hi := by
  rw [find_iff_inBin h x hs hl i]
  constructor
  · intro hb
    obtain ⟨lo, hi, h1, h2, h3, h4⟩ := id hb
    obtain ⟨p2, _⟩ := List.getElem?_eq_some_iff.mp h2
    exact ⟨by omega, hb⟩
  · exact fun hb => hb.2

/-- The same with array indexing (all indices in bounds by `hl`). -/
theorem find_iff_getElem (x : K) (i : Nat) (hi : i < h.bin.length) :
    h.find x = .ok i ↔ h.range[i]'(by omega) ≤ x ∧ x < h.range[i+1]'(by omega) := by
  rw [find_iff h hs hl x i]
  have h1 : i < h.range.length := by omega
  have h2 : i + 1 < h.range.length := by omega
  constructor
  · rintro ⟨_, lo, hi', e1, e2, l1, l2⟩
    rw [List.getElem?_eq_getElem h1] at e1
    rw [List.getElem?_eq_getElem h2] at e2
    cases e1; cases e2; exact ⟨l1, l2⟩
  · rintro ⟨l1, l2⟩
    exact ⟨hi, _, _, List.getElem?_eq_getElem h1, List.getElem?_eq_getElem h2, l1, l2⟩

/-- An empty bin never receives a sample. -/
theorem empty_bin_never_chosen (x : K) (i : Nat) (lo hi : K) (h1 : h.range[i]? = some lo)
    (h2 : h.range[i+1]? = some hi) (he : lo = hi) : h.find x ≠ .ok i := by
  intro hf
  obtain ⟨_, lo', hi', e1, e2, l1, l2⟩ := (find_iff h hs hl x i).mp hf
  rw [h1] at e1; rw [h2] at e2; cases e1; cases e2
  subst he
  exact absurd (lt_of_le_of_lt l1 l2) (lt_irrefl _)

/-- **Acceptance.** `find` (hence `add`) succeeds exactly when `range_min() ≤ x < range_max()`
(first and last edge; they exist by `hl`, so the `getD` default inside `rangeMin/rangeMax` is unused);
otherwise it returns the out-of-range error (it never panics: `find_add_no_panic`). -/
theorem find_ok_iff_in_range (x : K) :
    (∃ i, h.find x = .ok i) ↔ h.rangeMin ≤ x ∧ x < h.rangeMax := by
  have p0 : 0 < h.range.length := by omega
  have pn : h.bin.length < h.range.length := by omega
  have e0 : h.rangeMin = h.range[0] := by
    simp [Hist.rangeMin, List.getD_eq_getElem?_getD, List.getElem?_eq_getElem p0]
  have en : h.rangeMax = h.range[h.bin.length] := by
    simp [Hist.rangeMax, List.getD_eq_getElem?_getD, List.getElem?_eq_getElem pn]
  rw [e0, en]
  constructor
  · rintro ⟨i, hf⟩
    obtain ⟨lo, hi, a0, an, l1, l2⟩ :=
      inBin_bounds h x hs hl i ((find_iff_inBin h x hs hl i).mp hf)
    rw [List.getElem?_eq_getElem p0] at a0
    rw [List.getElem?_eq_getElem pn] at an
    cases a0; cases an; exact ⟨l1, l2⟩
  · rintro ⟨l1, l2⟩
    exact find_complete h x hs hl _ _ (List.getElem?_eq_getElem p0) (List.getElem?_eq_getElem pn) l1 l2

/-- `find` has only two outcomes, and the error is exactly the complement of the range. -/
theorem find_outOfRange_iff (x : K) :
    h.find x = .outOfRange ↔ ¬ (h.rangeMin ≤ x ∧ x < h.rangeMax) := by
  rw [← find_ok_iff_in_range h hs hl x]
  cases hf : h.find x with
  | ok i => simp
  | outOfRange => simp
  | panic => exact absurd hf (find_ne_panic h x)

omit [FloatOps K] [OrdLawful K] hl in
/-- For sorted edges at most one bin contains a given sample. -/
theorem bin_unique (x : K) (i j : Nat) (lo hi lo' hi' : K)
    (h1 : h.range[i]? = some lo) (h2 : h.range[i+1]? = some hi) (h3 : lo ≤ x) (h4 : x < hi)
    (h1' : h.range[j]? = some lo') (h2' : h.range[j+1]? = some hi') (h3' : lo' ≤ x) (h4' : x < hi') :
    i = j :=
  inBin_unique h.range hs x i j ⟨lo, hi, h1, h2, h3, h4⟩ ⟨lo', hi', h1', h2', h3', h4'⟩

/-- `find` agrees with the executable specification `Spec.binOf` (leftmost bin `i` with
`range[i] ≤ x < range[i+1]`, which by `bin_unique` is the only one). -/
theorem find_eq_binOf (x : K) :
    h.find x = match Spec.binOf h.range x with
      | some i => .ok i
      | none => .outOfRange :=
  find_eq_binOf' h x hs hl

/-- `add` on a histogram with sorted edges: inside the range exactly the one bin containing `x` is
incremented, outside nothing changes; spelled out with the half-open bin condition. -/
theorem add_spec (x : K) :
    (∃ i lo hi, h.range[i]? = some lo ∧ h.range[i+1]? = some hi ∧ lo ≤ x ∧ x < hi ∧
        h.add x = .val (⟨h.range, h.bin.set i (h.bin.getD i 0 + 1)⟩, true))
    ∨ (¬ (h.rangeMin ≤ x ∧ x < h.rangeMax) ∧ h.add x = .val (h, false)) := by
  cases hf : h.find x with
  | ok i =>
    left
    obtain ⟨_, lo, hi, e1, e2, l1, l2⟩ := (find_iff h hs hl x i).mp hf
    exact ⟨i, lo, hi, e1, e2, l1, l2, add_of_ok h x i hf⟩
  | outOfRange =>
    right
    exact ⟨(find_outOfRange_iff h hs hl x).mp hf, add_of_outOfRange h x hf⟩
  | panic => exact absurd hf (find_ne_panic h x)

end ord

/-! ## the hypotheses hold for every histogram the constructors return -/
section constructors
variable {K : Type} [LinearOrder K] [FloatOps K] [OrdLawful K]

/-- Every histogram returned by `from_ranges` has sorted edges and `LEN+1` of them, so all of the
above applies to it. -/
theorem fromRanges_wellformed (LEN : Nat) (hLEN : 1 ≤ LEN) (l : List K) (h : Hist K)
    (hok : Hist.fromRanges LEN l = .ok h) :
    h.range.Pairwise (· ≤ ·) ∧ h.range.length = h.bin.length + 1 ∧ h.bin.length = LEN := by
  rw [fromRanges_eq_spec' LEN hLEN l] at hok
  unfold Spec.fromRangesSpec at hok
  cases hg : Spec.fromRangesSpec.go (LEN + 1) none l with
  | some e => rw [hg] at hok; simp [Except.map] at hok
  | none =>
    rw [hg] at hok
    simp only [Except.map, Except.ok.injEq] at hok
    obtain ⟨hlen, hgood⟩ := (go_none_iff l (LEN + 1) none).mp hg
    subst hok
    refine ⟨(goodEdges_none_iff_pairwise _).mp hgood, ?_, by simp⟩
    simp only [List.length_take, List.length_replicate]; omega

end constructors

section constWidth
variable {F : Type} [Field F] [LinearOrder F] [IsStrictOrderedRing F]

/-- `with_const_width(start, end)` in exact arithmetic with `start ≤ end`: sorted edges, `LEN+1` of them. -/
theorem withConstWidth_wellformed_exact (LEN : Nat) (s e : F) (hse : s ≤ e) :
    (Hist.withConstWidth LEN s e).range.Pairwise (· ≤ ·) ∧
    (Hist.withConstWidth LEN s e).range.length = (Hist.withConstWidth LEN s e).bin.length + 1 :=
  ⟨withConstWidth_sorted_exact LEN s e hse, withConstWidth_lengths LEN s e⟩

open scoped Avg.HistRF in
/-- `with_const_width(start, end)` computed with *any* monotone rounding after every operation
(carrier `RF r`, ordered by value) and `start ≤ end`: the edges are still sorted, so `find` places
every sample in the unique bin containing it - in floating point, not only in exact arithmetic. -/
theorem withConstWidth_find_rounded {r : Rnd F} (LEN : Nat) (s e : RF r) (hse : s.val ≤ e.val)
    (x : RF r) (i : Nat) :
    (Hist.withConstWidth LEN s e).find x = .ok i ↔ i < LEN ∧
      ∃ lo hi, (Hist.withConstWidth LEN s e).range[i]? = some lo ∧
        (Hist.withConstWidth LEN s e).range[i+1]? = some hi ∧ lo.val ≤ x.val ∧ x.val < hi.val := by
  have := find_iff (Hist.withConstWidth LEN s e) (HistRF.withConstWidth_sorted LEN s e hse)
    (withConstWidth_lengths LEN s e) x i
  simpa [withConstWidth_bin, HistRF.le_iff, HistRF.lt_iff] using this

end constWidth

/-! ## non-vacuity -/
section examples

/-- the integers as an ordered carrier -/
local instance : FloatOps Int := histFloatOps 0
local instance : OrdLawful Int := histFloatOps_lawful 0

/-- edges `0,1,1,2` (the middle bin is empty): the hypotheses of `find_iff` hold -/
example : ([0, 1, 1, 2] : List Int).Pairwise (· ≤ ·) ∧
    (⟨[0, 1, 1, 2], [0, 0, 0]⟩ : Hist Int).range.length = (⟨[0, 1, 1, 2], [0, 0, 0]⟩ : Hist Int).bin.length + 1 :=
  ⟨by decide, rfl⟩

/-- ... and the sample `1`, which sits on the repeated edge, goes to bin 2 (not to the empty bin 1) -/
example : (⟨[0, 1, 1, 2], [0, 0, 0]⟩ : Hist Int).find 1 = .ok 2 :=
  (find_iff (K := Int) ⟨[0, 1, 1, 2], [0, 0, 0]⟩ (by decide) rfl 1 2).mpr ⟨by decide, 1, 2, rfl, rfl, by decide, by decide⟩

/-- the upper limit is rejected -/
example : (⟨[0, 1, 1, 2], [0, 0, 0]⟩ : Hist Int).find 2 = .outOfRange :=
  (find_outOfRange_iff (K := Int) ⟨[0, 1, 1, 2], [0, 0, 0]⟩ (by decide) rfl 2).mpr (by decide)

end examples

end Props.C06

#print axioms Props.C06.find_nan
#print axioms Props.C06.add_nan
#print axioms Props.C06.find_index_valid
#print axioms Props.C06.add_ok
#print axioms Props.C06.add_ok_counts
#print axioms Props.C06.add_rejected
#print axioms Props.C06.add_total
#print axioms Props.C06.total_eq_sum
#print axioms Props.C06.add_counts
#print axioms Props.C06.partialCmp_ord
#print axioms Props.C06.find_add_no_panic
#print axioms Props.C06.find_iff
#print axioms Props.C06.find_iff_getElem
#print axioms Props.C06.empty_bin_never_chosen
#print axioms Props.C06.find_ok_iff_in_range
#print axioms Props.C06.find_outOfRange_iff
#print axioms Props.C06.bin_unique
#print axioms Props.C06.find_eq_binOf
#print axioms Props.C06.add_spec
#print axioms Props.C06.fromRanges_wellformed
#print axioms Props.C06.withConstWidth_wellformed_exact
#print axioms Props.C06.withConstWidth_find_rounded
