import AvgProofs.MomentsAgree
import AvgProofs.BinomBound

/-!
# C04 - `define_moments!(T, N)` of any order equals the exact central moments

Carrier E: any field of characteristic 0 (ℝ where `sqrt` appears). Every theorem is for an arbitrary
order `N` (the macro parameter `MAX_MOMENT`), an arbitrary moment order `p` and an arbitrary stream.
`MSpec.mean xs = Σx/n`, `MSpec.sumPow xs c p = Σ (x-c)^p`; the exact `p`-th central moment is
`sumPow xs (mean xs) p / n`. `IterBinomial` is modelled on `Nat`; `iterBinomial_no_overflow` shows the
`u64` of the crate is enough for every order up to 62. The forward-error envelope of the property is
measured by the harness, not proved here.
-/
open Avg MSpec
set_option linter.unusedSectionVars false

namespace Props.C04
variable {K : Type} [Field K] [CharZero K]

/-- Every order `N`, every stream, of any length: the state of a `define_moments!(T, N)` estimator
after adding the observations one at a time is exactly (count, mean, [Σ(x-mean)^p for p = 2..N]). -/
theorem moments_fold (N : Nat) (xs : List K) :
    xs.foldl (Moments.add N) (Moments.new N)
      = ⟨xs.length, mean xs, (List.range (N-1)).map (fun j => sumPow xs (mean xs) (j+2))⟩ :=
  MSpec.moments_fold N xs

/-- `MSpec.canonM N xs` is that exact state, by definition -/
theorem canon_def (N : Nat) (xs : List K) :
    canonM N xs = ⟨xs.length, mean xs, (List.range (N-1)).map (fun j => sumPow xs (mean xs) (j+2))⟩ := rfl

/-- One more observation: `add` maps the exact state of `xs` to the exact state of `xs ++ [x]`
(both loops of `add`, the binomial iterator included, for every order `N`). -/
theorem moments_add (N : Nat) (xs : List K) (x : K) :
    (canonM N xs).add N x = canonM N (xs ++ [x]) := MSpec.moments_add N xs x

/-- `merge` of the states of two streams is exactly the state of the concatenated stream, for every
order and all streams, the empty ones (early returns) included. -/
theorem moments_merge (N : Nat) (xs ys : List K) :
    (xs.foldl (Moments.add N) (Moments.new N)).merge N (ys.foldl (Moments.add N) (Moments.new N))
      = (xs ++ ys).foldl (Moments.add N) (Moments.new N) := by
  rw [MSpec.moments_fold, MSpec.moments_fold, MSpec.moments_fold, MSpec.moments_merge]

/-- Every merge tree (any shape, any chunking, empty and one-element chunks included) evaluates to
the state of the single pass over the data in order. -/
theorem moments_mtree (N : Nat) (t : MTree K) :
    t.eval (Moments.new N) (Moments.add N) (Moments.merge N)
      = t.flatten.foldl (Moments.add N) (Moments.new N) := by
  rw [MSpec.moments_fold]; exact MSpec.moments_mtree N t

/-- `len()` is the number of observations -/
theorem len_eq (N : Nat) (xs : List K) :
    (xs.foldl (Moments.add N) (Moments.new N)).len = xs.length := by
  rw [MSpec.moments_fold]; rfl

section accessors
variable [FloatOps K]

/-- `mean()` is Σx/n on a non-empty stream -/
theorem mean_eq (N : Nat) (xs : List K) (h : xs ≠ []) :
    (xs.foldl (Moments.add N) (Moments.new N)).mean = xs.sum / xs.length := by
  have : 0 < xs.length := List.length_pos_of_ne_nil h
  rw [MSpec.moments_fold]
  simp [Moments.mean, canonM, this, mean]

/-- `central_moment(p)` is the exact p-th central moment (1/n) Σ (x-mean)^p, for every `2 ≤ p ≤ N` -/
theorem central_moment_eq (N : Nat) (xs : List K) (h : xs ≠ []) (p : Nat) (h2 : 2 ≤ p) (hN : p ≤ N) :
    (xs.foldl (Moments.add N) (Moments.new N)).centralMoment N p
      = .val (sumPow xs (mean xs) p / (xs.length : K)) := by
  rw [MSpec.moments_fold]; exact canonM_centralMoment N xs p h2 hN h

/-- an order above `N` indexes past the array: the documented panic -/
theorem central_moment_out_of_range (N : Nat) (xs : List K) (h : xs ≠ []) (p : Nat) (h2 : 2 ≤ p) (hN : N < p) :
    (xs.foldl (Moments.add N) (Moments.new N)).centralMoment N p = .panic := by
  rw [MSpec.moments_fold]; exact canonM_centralMoment_panic N xs p h2 hN h
end accessors

section anyCarrier
variable {α : Type} [Add α] [Sub α] [Mul α] [Div α] [Neg α] [NatCast α] [FloatOps α]

/-- orders 0 and 1 return the constants 1 and 0 in every state, on every carrier -/
theorem central_moment_zero_one (N : Nat) (s : Moments α) :
    s.centralMoment N 0 = .val ((1:Nat):α) ∧ s.centralMoment N 1 = .val ((0:Nat):α) := by
  constructor <;> simp [Moments.centralMoment, Moments.cmRaw]

/-- orders 0, 1, 2 of `standardized_moment` return n, 0, 1 in every state, on every carrier -/
theorem standardized_moment_low (N : Nat) (s : Moments α) :
    s.standardizedMoment N 0 = .val ((s.n : Nat) : α) ∧ s.standardizedMoment N 1 = .val ((0:Nat):α)
      ∧ s.standardizedMoment N 2 = .val ((1:Nat):α) := ⟨rfl, rfl, rfl⟩

/-- on the empty estimator `mean()` and `central_moment(p)`, `p ≥ 2`, return NaN (no indexing) -/
theorem empty_nan (N : Nat) (p : Nat) (h2 : 2 ≤ p) :
    (Moments.new N : Moments α).mean = nan ∧ (Moments.new N : Moments α).centralMoment N p = .val nan := by
  obtain ⟨q, rfl⟩ : ∃ q, p = q + 2 := ⟨p - 2, by omega⟩
  simp [Moments.mean, Moments.new, Moments.centralMoment, Moments.cmRaw]
end anyCarrier

/-- `num_traits::pow` (two-loop exponentiation by squaring) is the power, in every semiring -/
theorem num_pow_eq {R : Type} [Semiring R] (x : R) (p : Nat) : numPow x p = x ^ p := numPow_eq_pow x p

/-- `standardized_moment(p)` is m_p / stddev^p for every `3 ≤ p ≤ N`, over ℝ, whenever the population
variance is not zero (m_p the exact central moment, stddev = sqrt m_2). -/
theorem standardized_moment_eq (N : Nat) (xs : List ℝ) (hv : sumPow xs (mean xs) 2 ≠ 0)
    (p : Nat) (h3 : 3 ≤ p) (hN : p ≤ N) :
    (xs.foldl (Moments.add N) (Moments.new N)).standardizedMoment N p
      = .val (sumPow xs (mean xs) p / (xs.length : ℝ)
          / (Real.sqrt (sumPow xs (mean xs) 2 / (xs.length : ℝ)))^p) := by
  rw [MSpec.moments_fold]; exact canonM_standardizedMoment N xs p h3 hN hv

/-- the constants returned for orders 1 and 2 are the same formula m_p / stddev^p -/
theorem standardized_moment_low_consistent (xs : List ℝ) (hv : sumPow xs (mean xs) 2 ≠ 0) :
    sumPow xs (mean xs) 1 / (xs.length : ℝ) / (Real.sqrt (sumPow xs (mean xs) 2 / (xs.length : ℝ)))^1 = 0
    ∧ sumPow xs (mean xs) 2 / (xs.length : ℝ) / (Real.sqrt (sumPow xs (mean xs) 2 / (xs.length : ℝ)))^2 = 1 := by
  have hm2 := momN_m2_pos xs hv
  constructor
  · rw [sumPow_one_mean]; simp
  · rw [Real.sq_sqrt hm2.le]; exact div_self (ne_of_gt hm2)

/-- zero variance on a non-empty stream: `assert_ne!(variance, 0.)` fires for every order ≥ 3 -/
theorem standardized_moment_zero_variance (N : Nat) (hN : 2 ≤ N) (xs : List ℝ) (h : xs ≠ [])
    (hv : sumPow xs (mean xs) 2 = 0) (p : Nat) (h3 : 3 ≤ p) :
    (xs.foldl (Moments.add N) (Moments.new N)).standardizedMoment N p = .panic := by
  rw [MSpec.moments_fold]; exact canonM_standardizedMoment_panic N xs p h3 h hN hv

/-- Agreement with Mean / Variance / Skewness / Kurtosis fed the same stream, for every `N ≥ 4`:
same count, same mean, and `m[0], m[1], m[2]` are their `sum_2, sum_3, sum_4`. -/
theorem agrees_with_kurtosis_state (N : Nat) (hN : 4 ≤ N) (xs : List K) :
    let s := xs.foldl (Moments.add N) (Moments.new N)
    s.n = (xs.foldl Mean.add Mean.new).n ∧ s.avg = (xs.foldl Mean.add Mean.new).avg
    ∧ s.m[0]? = some (xs.foldl Variance.add Variance.new).sum_2
    ∧ s.m[1]? = some (xs.foldl Skewness.add Skewness.new).sum_3
    ∧ s.m[2]? = some (xs.foldl Kurtosis.add Kurtosis.new).sum_4 := by
  have hk := kurtosis_fold xs
  have hs : xs.foldl Skewness.add Skewness.new = (canonK xs).avg := by
    rw [← hk, Kurtosis.fold_avg]; rfl
  have hvv : xs.foldl Variance.add Variance.new = (canonK xs).avg.avg := by
    rw [← hs, Skewness.fold_avg]; rfl
  have hm : xs.foldl Mean.add Mean.new = (canonK xs).avg.avg.avg := by
    rw [← hvv, Variance.fold_avg]; rfl
  simp only [MSpec.moments_fold, hk, hs, hvv, hm]
  refine ⟨rfl, rfl, ?_, ?_, ?_⟩
  · exact canonM_getElem? N xs 0 (by omega)
  · exact canonM_getElem? N xs 1 (by omega)
  · exact canonM_getElem? N xs 2 (by omega)

/-- Hence the accessors agree on every stream (the empty one included, where both return NaN):
`mean`, `central_moment(2) = population_variance`, `sample_variance`. -/
theorem agrees_with_kurtosis_accessors [FloatOps K] (N : Nat) (hN : 2 ≤ N) (xs : List K) :
    let s := xs.foldl (Moments.add N) (Moments.new N)
    let k := xs.foldl Kurtosis.add Kurtosis.new
    s.len = k.len ∧ s.mean = k.mean ∧ s.centralMoment N 2 = .val k.populationVariance
      ∧ s.sampleVariance = k.sampleVariance := by
  simp only [MSpec.moments_fold, kurtosis_fold]
  have hg : ∀ d : K, (canonM N xs).m.getD 0 d = sumPow xs (mean xs) 2 := fun d => canonM_getD N xs 0 hN d
  have hn : (canonM N xs).n = xs.length := rfl
  refine ⟨rfl, rfl, ?_, ?_⟩
  · simp only [Moments.centralMoment, Moments.cmRaw, hN, or_true, if_true, hn, hg,
      Kurtosis.populationVariance, Skewness.populationVariance, Variance.populationVariance, canonK]
    by_cases h0 : xs.length = 0
    · simp [h0]
    · have : 0 < xs.length := by omega
      simp [h0, this]
  · simp only [Moments.sampleVariance, hn, hg, Kurtosis.sampleVariance, Skewness.sampleVariance,
      Variance.sampleVariance, canonK]
    rfl

/-- `standardized_moment(3)` is `Skewness::skewness()` of the same stream (ℝ, non-zero variance) -/
theorem standardized3_eq_skewness (N : Nat) (hN : 3 ≤ N) (xs : List ℝ) (hv : sumPow xs (mean xs) 2 ≠ 0) :
    (xs.foldl (Moments.add N) (Moments.new N)).standardizedMoment N 3
      = .val (xs.foldl Skewness.add Skewness.new).skewness := by
  have hs : xs.foldl Skewness.add Skewness.new = (canonK xs).avg := by
    rw [← kurtosis_fold xs, Kurtosis.fold_avg]; rfl
  rw [MSpec.moments_fold, hs]; exact canon_std3_eq_skewness N hN xs hv

/-- `standardized_moment(4) - 3` is `Kurtosis::kurtosis()` of the same stream (ℝ, non-zero variance) -/
theorem standardized4_eq_kurtosis (N : Nat) (hN : 4 ≤ N) (xs : List ℝ) (hv : sumPow xs (mean xs) 2 ≠ 0) :
    ∃ v, (xs.foldl (Moments.add N) (Moments.new N)).standardizedMoment N 4 = .val v
      ∧ v - 3 = (xs.foldl Kurtosis.add Kurtosis.new).kurtosis := by
  rw [MSpec.moments_fold, kurtosis_fold]; exact canon_std4_eq_kurtosis N hN xs hv

/-- The `u64` arithmetic of the crate's `IterBinomial` (`a * (n-k+1) / k`) does not overflow for any
order `p ≤ 62`: the product formed at every step `k = 1..p` is below 2^64, so the `Nat` model is the
code. (Order 63 overflows: `MSpec.iterBinomial_overflow_63`.) -/
theorem iter_binomial_no_overflow (p : Nat) (hp : p ≤ 62) (k : Nat) (h1 : 1 ≤ k) (hk : k ≤ p) :
    p.choose (k-1) * (p - k + 1) < 2^64 ∧ p.choose (k-1) * (p - k + 1) / k = p.choose k := by
  refine ⟨iterBinomial_no_overflow p hp k h1 hk, ?_⟩
  have := binom_step p (k-1) (by omega)
  have e1 : k - 1 + 1 = k := by omega
  rw [e1] at this
  exact this

/-- non-vacuity: order 6 on a skewed stream; state and a sixth central moment computed exactly -/
example : ([1, 2, 3, 10] : List ℚ).foldl (Moments.add 6) (Moments.new 6)
    = ⟨4, 4, [50, 180, 1394, 7500, 47450]⟩ := by
  rw [moments_fold]; norm_num [mean, sumPow, List.range, List.range.loop]

/-- non-vacuity: a merge tree with an empty chunk over the same stream -/
example : (MTree.node (.leaf [1, 2]) (.node (.leaf []) (.leaf [3, 10])) : MTree ℚ).eval
      (Moments.new 6) (Moments.add 6) (Moments.merge 6) = ⟨4, 4, [50, 180, 1394, 7500, 47450]⟩ := by
  rw [moments_mtree, moments_fold]; norm_num [MTree.flatten, mean, sumPow, List.range, List.range.loop]

/-- non-vacuity of the ℝ hypotheses: the stream 1,2,3,10 has non-zero spread -/
example : sumPow ([1, 2, 3, 10] : List ℝ) (mean [1, 2, 3, 10]) 2 ≠ 0 := by
  norm_num [mean, sumPow]

/-- non-vacuity of the zero-variance panic: a constant stream -/
example : sumPow ([5, 5, 5] : List ℝ) (mean [5, 5, 5]) 2 = 0 := by
  norm_num [mean, sumPow]

end Props.C04

#print axioms Props.C04.moments_fold
#print axioms Props.C04.canon_def
#print axioms Props.C04.moments_add
#print axioms Props.C04.moments_merge
#print axioms Props.C04.moments_mtree
#print axioms Props.C04.len_eq
#print axioms Props.C04.mean_eq
#print axioms Props.C04.central_moment_eq
#print axioms Props.C04.central_moment_out_of_range
#print axioms Props.C04.central_moment_zero_one
#print axioms Props.C04.standardized_moment_low
#print axioms Props.C04.empty_nan
#print axioms Props.C04.num_pow_eq
#print axioms Props.C04.standardized_moment_eq
#print axioms Props.C04.standardized_moment_low_consistent
#print axioms Props.C04.standardized_moment_zero_variance
#print axioms Props.C04.agrees_with_kurtosis_state
#print axioms Props.C04.agrees_with_kurtosis_accessors
#print axioms Props.C04.standardized3_eq_skewness
#print axioms Props.C04.standardized4_eq_kurtosis
#print axioms Props.C04.iter_binomial_no_overflow
