import AvgProofs.KurtAccErr
import AvgProofs.SkewAccErr
import Props.C03c
import Props.C01c
import Mathlib.Tactic.NormNum

/-!
# C03 (addendum) - the accessor `kurtosis()` in floating point, proved for add-only streams

Carrier **R2** (`RF2 r`, `AvgProofs/MeanErr2.lean`): an ordered field `F` in which every `+ - * /` is followed
by a rounding `r.fl` with `|fl t - t| ≤ u·|t|` (standard model: no overflow, no underflow); counts are
converted exactly. `ValEqb r`: the `==` of the `FloatOps (RF2 r)` instance compares the values
(`rf2FloatOps r`, `rf2SqrtFloatOps r q` are such instances). No square root is involved.

Notation: `n` observations `|x_i| ≤ M`, `T = Σ(x-mean)²`, `Q = Σ(x-mean)⁴`, `σ² = T/n`, `κ = 1 + M/σ`;
exact excess kurtosis `g₂ = m₄/σ⁴ - 3 = (Q/n)/(T/n)² - 3 = n·Q/T² - 3` (`kurtosis_exact_value`); the scale of
the envelope of DESIGN.md section 5 is `G = m₄/σ⁴ = n·Q/T² ≥ 1` (`kurtosis_scale_ge_one`).

What the code computes (`kurtosis_computed`) for a non-empty state: `0` when `sum_4 == 0`, otherwise
`fl( fl( fl(n·sum_4) / fl(sum_2·sum_2) ) - 3 )` - four rounded operations on top of the stored `sum_2`,
`sum_4`; the last one, the subtraction of `3`, commits an error relative to the *result*.

Results (`φ = (1+ε₄)(1+u)²/((1-ε₂)²(1-u)) - 1`, to first order `ε₄ + 2·ε₂ + 3·u`):
* `kurtosis_accessor_error` (any non-empty state, **both branches**): if `|sum_2 - T| ≤ ε₂·T`,
  `|sum_4 - Q| ≤ ε₄·Q` with `0 ≤ ε₂, ε₄ < 1`, `T > 0`, `T² ≤ n·Q`, `u < 1`, then
  `|kurtosis() - g₂| ≤ (1+u)·φ·G + u·|g₂|`; and `kurtosis_accessor_error_scale`: `≤ ((1+u)·φ + 2u)·G`
  (`|g₂| = |G - 3| ≤ 2·G` because `G ≥ 1`) - to first order `(ε₄ + 2·ε₂ + 5·u)·G`.
  Under a *relative* bound with `ε₄ < 1` the shortcut cannot be taken (`kurtosis_shortcut_not_taken`:
  `sum_4 = 0` would give `Q ≤ ε₄·Q`).
* For a bound of `sum_4` relative to a larger scale `V ≥ |Q|` (such as `V4p + VD4` of `Props.C03c`), where the
  stored `sum_4` can be `0`: `kurtosis_long_branch` (`sum_4 ≠ 0`): `≤ (1+u)·φ·(n·V/T²) + u·|g₂|`;
  `kurtosis_shortcut_branch` (`sum_4 = 0`, result `0`): `|0 - g₂| ≤ 2·ε₄·(n·V/T²)`.
* `kurtosis_factor_numerals`: `(1+u)·φ + 2u ≤ 1.07·ε₄ + 2.11·ε₂ + 5.2·u` for `ε₂ ≤ 1/32`, `u ≤ 1/1856`, and
  `≤ (1 + 1/8000)·ε₄ + 2.001·ε₂ + 5.001·u` for `ε₂ ≤ 2^-14`, `u ≤ 2^-21`.
* `sum2_relative_error_sigma`, `sum4_relative_error_sigma` (any ordered field, `σ > 0` with `n·σ² = T`):
  `|sum_2 - T| ≤ 8·n·κ·u·T`, `|sum_4 - Q| ≤ 132128·(n+10)·κ·u·Q` (from `Props.C01b`, `Props.C03c`).
* `kurtosis_stream_symbolic`: add-only streams, `n ≥ 10`, `(n+28)·u ≤ 1/64`, `(n+10)·u·M ≤ σ`,
  `ε₂ = 8·n·κ·u`, `ε₄ = 132128·(n+10)·κ·u < 1`: the bound `((1+u)·φ + 2u)·G` with these `ε₂`, `ε₄`.
* **`kurtosis_envelope_sigma`** (any ordered field) and **`kurtosis_envelope_kappa`** (ℝ, `σ = √(T/n)`):
  `|kurtosis() - (m₄/σ⁴ - 3)| ≤ 132161·(n+10)·κ·u·(m₄/σ⁴)` whenever `132128·(n+10)·κ·u < 1` (the only
  smallness hypothesis: it implies `(n+28)·u ≤ 1/64` and `(n+10)·u·M ≤ σ`)
  - the shape `C·n·κ·u·scale` of the envelope clause of C03 (the checked envelope has `C = 16`; the constant
  proved here is `132128` of `Props.C03c` (Hardy/Copson constants) `·(1 + 1/8000)`, plus `8·2.001` for `sum_2²`
  and `5.001/20` for the four roundings). The smallness hypothesis says `ε₄ < 1`; it is no restriction where
  the bound says anything (otherwise the right-hand side exceeds the scale itself).

Zero spread (`T = 0`, hence `Q = 0`): see `Props.C03.zero_spread` (exact arithmetic; both accessors return 0).
Not covered: merge trees, `sample_kurtosis`/`standardized_moment(4)` of `define_moments!`.
-/
open Avg MSpec VarSpec SkewSpec KurtSpec KurtErr KurtAcc

namespace Props.C03e
variable {F : Type} [Field F] [LinearOrder F] [IsStrictOrderedRing F]

/-! ## what is computed, and the exact value -/

section state
variable {r : Rnd2 F} [FloatOps (RF2 r)]

/-- What `kurtosis()` computes at R2 for a non-empty state when `==` compares values: `0` if the stored
`sum_4` is zero (the early return of the Rust code), otherwise `fl(fl(fl(n·sum_4)/fl(sum_2·sum_2)) - 3)`,
`n` and `3` converted exactly. -/
theorem kurtosis_computed (heq : ValEqb r) (s : Kurtosis (RF2 r)) (hn : s.avg.avg.avg.n ≠ 0) :
    s.kurtosis.val =
      if s.sum_4.val = 0 then 0
      else r.fl (r.fl (r.fl ((s.avg.avg.avg.n : F) * s.sum_4.val)
              / r.fl (s.avg.avg.sum_2.val * s.avg.avg.sum_2.val)) - 3) :=
  kurtosis_val heq s hn

omit [LinearOrder F] [IsStrictOrderedRing F] [FloatOps (RF2 r)] in
/-- The scale in its two forms: for `n ≠ 0`, `T ≠ 0`:  `n·X/(T·T) = (X/n)/(T/n)²`
(`X = Q`: `m₄/σ⁴` with `m₄ = Q/n`, `σ² = T/n`). -/
theorem kurtosis_exact_value (n T X : F) (hn : n ≠ 0) (hT : T ≠ 0) :
    n * X / (T * T) = X / n / (T / n)^2 := by
  field_simp

omit [FloatOps (RF2 r)] in
/-- The scale of the envelope is at least 1: `T² ≤ n·Q` (Cauchy-Schwarz, `Props.C03c.moment_inequalities`),
hence `n·Q/T² ≥ 1` for `T > 0`. -/
theorem kurtosis_scale_ge_one (vs : List F) (hT : 0 < T vs) :
    T vs * T vs ≤ (vs.length : F) * Q vs ∧ 1 ≤ (vs.length : F) * Q vs / (T vs * T vs) := by
  have h := T_sq_le vs
  have h' : T vs * T vs ≤ (vs.length : F) * Q vs := by rw [← sq]; exact h
  refine ⟨h', ?_⟩
  rw [le_div_iff₀ (mul_pos hT hT)]; linarith

/-- **The accessor on any non-empty state, both branches.** If the stored `sum_2`, `sum_4` approximate
`T > 0` and `Q` with `|sum_2 - T| ≤ ε₂·T`, `|sum_4 - Q| ≤ ε₄·Q` (`0 ≤ ε₂ < 1`, `0 ≤ ε₄ < 1`), `T² ≤ n·Q`
(true of every sample) and `u < 1`, then with `G = n·Q/T²`:
`|kurtosis() - (G - 3)| ≤ (1+u)·((1+ε₄)(1+u)²/((1-ε₂)²(1-u)) - 1)·G + u·|G - 3|`. -/
theorem kurtosis_accessor_error (heq : ValEqb r) (s : Kurtosis (RF2 r)) (hn : s.avg.avg.avg.n ≠ 0)
    (T Q ε₂ ε₄ : F) (hT : 0 < T) (hTQ : T * T ≤ (s.avg.avg.avg.n : F) * Q) (hε₂ : 0 ≤ ε₂)
    (hε₂1 : ε₂ < 1) (hε₄ : 0 ≤ ε₄) (hε₄1 : ε₄ < 1) (hu1 : r.u < 1)
    (hS : |s.avg.avg.sum_2.val - T| ≤ ε₂ * T) (hS4 : |s.sum_4.val - Q| ≤ ε₄ * Q) :
    |s.kurtosis.val - ((s.avg.avg.avg.n : F) * Q / (T * T) - 3)|
      ≤ (1 + r.u) * ((s.avg.avg.avg.n : F) * Q / (T * T)
            * ((1 + ε₄) * (1 + r.u)^2 / ((1 - ε₂)^2 * (1 - r.u)) - 1))
        + r.u * |(s.avg.avg.avg.n : F) * Q / (T * T) - 3| :=
  kurtosis_error_gen heq s hn T Q ε₂ ε₄ hT hTQ hε₂ hε₂1 hε₄ hε₄1 hu1 hS hS4

/-- **The same against the scale alone** (`|G - 3| ≤ 2·G` since `G = n·Q/T² ≥ 1`):
`|kurtosis() - (G - 3)| ≤ G·((1+u)·((1+ε₄)(1+u)²/((1-ε₂)²(1-u)) - 1) + 2u)`. -/
theorem kurtosis_accessor_error_scale (heq : ValEqb r) (s : Kurtosis (RF2 r))
    (hn : s.avg.avg.avg.n ≠ 0) (T Q ε₂ ε₄ : F) (hT : 0 < T)
    (hTQ : T * T ≤ (s.avg.avg.avg.n : F) * Q) (hε₂ : 0 ≤ ε₂) (hε₂1 : ε₂ < 1) (hε₄ : 0 ≤ ε₄)
    (hε₄1 : ε₄ < 1) (hu1 : r.u < 1)
    (hS : |s.avg.avg.sum_2.val - T| ≤ ε₂ * T) (hS4 : |s.sum_4.val - Q| ≤ ε₄ * Q) :
    |s.kurtosis.val - ((s.avg.avg.avg.n : F) * Q / (T * T) - 3)|
      ≤ (s.avg.avg.avg.n : F) * Q / (T * T)
          * ((1 + r.u) * ((1 + ε₄) * (1 + r.u)^2 / ((1 - ε₂)^2 * (1 - r.u)) - 1) + 2 * r.u) :=
  kurtosis_error_scale heq s hn T Q ε₂ ε₄ hT hTQ hε₂ hε₂1 hε₄ hε₄1 hu1 hS hS4

omit [FloatOps (RF2 r)] in
/-- Under a relative bound `|sum_4 - Q| ≤ ε₄·Q` with `ε₄ < 1` and `Q > 0` (non-zero spread) the stored
`sum_4` is not `0`: the shortcut of `kurtosis()` is not taken. -/
theorem kurtosis_shortcut_not_taken (s : Kurtosis (RF2 r)) (Q ε₄ : F) (hQ : 0 < Q) (hε₄1 : ε₄ < 1)
    (hS4 : |s.sum_4.val - Q| ≤ ε₄ * Q) : s.sum_4.val ≠ 0 := by
  intro h0
  rw [h0, zero_sub, abs_neg, abs_of_pos hQ] at hS4
  nlinarith

/-- **The long branch for a bound of `sum_4` relative to a general scale `V ≥ |Q|`** (e.g. `V4p + VD4` of
`Props.C03c.sum4_envelope_kappa`); `sum_4 ≠ 0`, `ε₄ ≥ 0` arbitrary:
`|kurtosis() - (G - 3)| ≤ (1+u)·φ·(n·V/T²) + u·|G - 3|`. -/
theorem kurtosis_long_branch (heq : ValEqb r) (s : Kurtosis (RF2 r)) (hn : s.avg.avg.avg.n ≠ 0)
    (h4 : s.sum_4.val ≠ 0) (T Q V ε₂ ε₄ : F) (hT : 0 < T) (hQV : |Q| ≤ V) (hε₂ : 0 ≤ ε₂)
    (hε₂1 : ε₂ < 1) (hε₄ : 0 ≤ ε₄) (hu1 : r.u < 1)
    (hS : |s.avg.avg.sum_2.val - T| ≤ ε₂ * T) (hS4 : |s.sum_4.val - Q| ≤ ε₄ * V) :
    |s.kurtosis.val - ((s.avg.avg.avg.n : F) * Q / (T * T) - 3)|
      ≤ (1 + r.u) * ((s.avg.avg.avg.n : F) * V / (T * T)
            * ((1 + ε₄) * (1 + r.u)^2 / ((1 - ε₂)^2 * (1 - r.u)) - 1))
        + r.u * |(s.avg.avg.avg.n : F) * Q / (T * T) - 3| :=
  kurtosis_error_long heq s hn h4 T Q V ε₂ ε₄ hT hQV hε₂ hε₂1 hε₄ hu1 hS hS4

/-- **The shortcut branch made explicit, general scale.** If the stored `sum_4` is exactly `0` the accessor
returns `0`; then `Q = |Q - sum_4| ≤ ε₄·V` and, because `1 ≤ G = n·Q/T²`,
`|0 - (G - 3)| ≤ 2·G ≤ 2·ε₄·(n·V/T²)`. -/
theorem kurtosis_shortcut_branch (heq : ValEqb r) (s : Kurtosis (RF2 r)) (hn : s.avg.avg.avg.n ≠ 0)
    (h4 : s.sum_4.val = 0) (T Q V ε₄ : F) (hT : 0 < T)
    (hTQ : T * T ≤ (s.avg.avg.avg.n : F) * Q) (hS4 : |s.sum_4.val - Q| ≤ ε₄ * V) :
    s.kurtosis.val = 0 ∧
    |s.kurtosis.val - ((s.avg.avg.avg.n : F) * Q / (T * T) - 3)|
      ≤ 2 * ε₄ * ((s.avg.avg.avg.n : F) * V / (T * T)) :=
  kurtosis_error_shortcut heq s hn h4 T Q V ε₄ hT hTQ hS4

end state

/-- Numerals for the factor (`ε₄ ≥ 0`): for `ε₂ ≤ 1/32`, `u ≤ 1/1856` it is
`≤ (107/100)·ε₄ + (211/100)·ε₂ + (26/5)·u`; for `ε₂ ≤ 2^-14`, `u ≤ 2^-21` it is
`≤ (8001/8000)·ε₄ + (2001/1000)·ε₂ + (5001/1000)·u`. -/
theorem kurtosis_factor_numerals (u ε₂ ε₄ : F) (hu : 0 ≤ u) (hε₂ : 0 ≤ ε₂) (hε₄ : 0 ≤ ε₄) :
    (u ≤ 1/1856 → ε₂ ≤ 1/32 →
      (1 + u) * ((1 + ε₄) * (1 + u)^2 / ((1 - ε₂)^2 * (1 - u)) - 1) + 2 * u
        ≤ 107/100 * ε₄ + 211/100 * ε₂ + 26/5 * u) ∧
    (u ≤ 1/2097152 → ε₂ ≤ 1/16384 →
      (1 + u) * ((1 + ε₄) * (1 + u)^2 / ((1 - ε₂)^2 * (1 - u)) - 1) + 2 * u
        ≤ 8001/8000 * ε₄ + 2001/1000 * ε₂ + 5001/1000 * u) :=
  ⟨fun h1 h2 => kurt_factor_le u ε₂ ε₄ hu h1 hε₂ h2 hε₄,
   fun h1 h2 => kurt_factor_le_tiny u ε₂ ε₄ hu h1 hε₂ h2 hε₄⟩

/-! ## add-only streams -/

/-- **The stored `sum_2` in relative form** (from `Props.C01b.sum2_forward_error_sharp`), any ordered field:
`|x_i| ≤ M`, `(n+28)·u ≤ 1/64`, `σ > 0` with `n·σ² = T`, `κ = 1 + M/σ`, `n·u·M ≤ σ`:
`|sum_2 - T| ≤ 8·n·κ·u·T`. -/
theorem sum2_relative_error_sigma (r : Rnd2 F) (M : F) (hM : 0 ≤ M) (xs : List (RF2 r))
    (hb : ∀ x ∈ xs, |x.val| ≤ M) (hsmall : ((xs.length : F) + 28) * r.u ≤ 1/64)
    (σ : F) (hσ : 0 < σ) (hvar : (xs.length : F) * σ^2 = T (xs.map RF2.val))
    (hcond : (xs.length : F) * r.u * M ≤ σ) :
    |(xs.foldl Variance.add Variance.new).sum_2.val - T (xs.map RF2.val)|
      ≤ 8 * xs.length * (1 + M / σ) * r.u * T (xs.map RF2.val) := by
  refine le_trans (SkewAcc.sum2_rel r M hM xs hb hsmall σ hσ.le hvar hcond) (le_of_eq ?_)
  rw [← hvar]
  field_simp

/-- **The stored `sum_4` in relative form** (from `Props.C03c.sum4_envelope_rel`), any ordered field:
`n ≥ 10`, `|x_i| ≤ M`, `(n+28)·u ≤ 1/64`, `σ > 0` with `n·σ² = T`, `κ = 1 + M/σ`, `(n+10)·u·M ≤ σ`:
`|sum_4 - Q| ≤ 132128·(n+10)·κ·u·Q`. -/
theorem sum4_relative_error_sigma (r : Rnd2 F) (M : F) (hM : 0 ≤ M) (xs : List (RF2 r))
    (h10 : 10 ≤ xs.length) (hb : ∀ x ∈ xs, |x.val| ≤ M)
    (hsmall : ((xs.length : F) + 28) * r.u ≤ 1/64)
    (σ : F) (hσ : 0 < σ) (hvar : (xs.length : F) * σ^2 = T (xs.map RF2.val))
    (hcond : ((xs.length : F) + 10) * r.u * M ≤ σ) :
    |(xs.foldl Kurtosis.add Kurtosis.new).sum_4.val - Q (xs.map RF2.val)|
      ≤ 132128 * ((xs.length : F) + 10) * (1 + M / σ) * r.u * Q (xs.map RF2.val) := by
  have hne : xs ≠ [] := by intro h; rw [h] at h10; simp at h10
  have hn10 : (10 : F) ≤ xs.length := by exact_mod_cast h10
  have hnpos : (0 : F) < xs.length := by linarith
  have h := kurt_envelope_rel r M hM xs hne hb hsmall σ hσ hvar hcond
  refine le_trans h ?_
  have hu := r.u_nonneg
  have hQ0 := Q_nonneg (xs.map RF2.val)
  have hq : ((xs.length : F) + 10) / (xs.length : F) ≤ 2 := by
    rw [div_le_iff₀ hnpos]; linarith
  have hMσ : 0 ≤ M / σ := by positivity
  have hc : 132128 + (1200 + 5538 * (((xs.length : F) + 10) / (xs.length : F))) * (M / σ)
      ≤ 132128 * (1 + M / σ) := by
    have : (1200 + 5538 * (((xs.length : F) + 10) / (xs.length : F))) * (M / σ)
        ≤ (1200 + 5538 * 2) * (M / σ) := by gcongr
    linarith
  calc ((xs.length : F) + 10) * r.u * Q (xs.map RF2.val)
        * (132128 + (1200 + 5538 * (((xs.length : F) + 10) / (xs.length : F))) * (M / σ))
      ≤ ((xs.length : F) + 10) * r.u * Q (xs.map RF2.val) * (132128 * (1 + M / σ)) := by
        gcongr
    _ = 132128 * ((xs.length : F) + 10) * (1 + M / σ) * r.u * Q (xs.map RF2.val) := by ring

/-- **Add-only streams, symbolic form.** Any ordered field, standard model of rounding; `n ≥ 10` observations
added one at a time, `|x_i| ≤ M`, `σ > 0` with `n·σ² = T` (population standard deviation), `κ = 1 + M/σ`,
`(n+28)·u ≤ 1/64`, `(n+10)·u·M ≤ σ`; `ε₂ = 8·n·κ·u < 1`, `ε₄ = 132128·(n+10)·κ·u < 1`; `G = n·Q/T²`:
`|kurtosis() - (G - 3)| ≤ G·((1+u)·((1+ε₄)(1+u)²/((1-ε₂)²(1-u)) - 1) + 2u)`. -/
theorem kurtosis_stream_symbolic {r : Rnd2 F} [FloatOps (RF2 r)] (heq : ValEqb r) (M : F) (hM : 0 ≤ M)
    (xs : List (RF2 r)) (h10 : 10 ≤ xs.length) (hb : ∀ x ∈ xs, |x.val| ≤ M)
    (hsmall : ((xs.length : F) + 28) * r.u ≤ 1/64)
    (σ : F) (hσ : 0 < σ) (hvar : (xs.length : F) * σ^2 = T (xs.map RF2.val))
    (hcond : ((xs.length : F) + 10) * r.u * M ≤ σ)
    (hκ₂ : 8 * (xs.length : F) * (1 + M / σ) * r.u < 1)
    (hκ₄ : 132128 * ((xs.length : F) + 10) * (1 + M / σ) * r.u < 1) :
    |(xs.foldl Kurtosis.add Kurtosis.new).kurtosis.val
        - ((xs.length : F) * Q (xs.map RF2.val) / (T (xs.map RF2.val) * T (xs.map RF2.val)) - 3)|
      ≤ (xs.length : F) * Q (xs.map RF2.val) / (T (xs.map RF2.val) * T (xs.map RF2.val))
          * ((1 + r.u) * ((1 + 132128 * ((xs.length : F) + 10) * (1 + M / σ) * r.u) * (1 + r.u)^2
                / ((1 - 8 * (xs.length : F) * (1 + M / σ) * r.u)^2 * (1 - r.u)) - 1)
              + 2 * r.u) := by
  have hu := r.u_nonneg
  have hn10 : (10 : F) ≤ xs.length := by exact_mod_cast h10
  have hnpos : (0 : F) < xs.length := by linarith
  have hu1 : r.u < 1 := by nlinarith
  set vs := xs.map RF2.val with hvs
  set n : F := (xs.length : F) with hn
  have hTpos : 0 < T vs := by rw [← hvar]; positivity
  set κ := 1 + M / σ with hκdef
  have hκ1 : 1 ≤ κ := by
    have : 0 ≤ M / σ := by positivity
    rw [hκdef]; linarith
  have hcond' : n * r.u * M ≤ σ := by
    refine le_trans ?_ hcond
    have : 0 ≤ r.u * M := by positivity
    nlinarith
  have hS := sum2_relative_error_sigma r M hM xs hb hsmall σ hσ hvar hcond'
  have hS4 := sum4_relative_error_sigma r M hM xs h10 hb hsmall σ hσ hvar hcond
  set s := xs.foldl Kurtosis.add Kurtosis.new with hsdef
  have havg : s.avg.avg = xs.foldl Variance.add Variance.new := by
    rw [hsdef, Props.C03c.inner_skewness_bitwise, Props.C03b.inner_variance_bitwise]
  have hcount : s.avg.avg.avg.n = xs.length := by rw [havg]; exact Variance.fold_n_ve xs
  have hne : s.avg.avg.avg.n ≠ 0 := by rw [hcount]; omega
  rw [← havg] at hS
  have hTQ : T vs * T vs ≤ (s.avg.avg.avg.n : F) * Q vs := by
    rw [hcount, ← sq]; have := T_sq_le vs; rwa [hvs, List.length_map] at this
  have main := kurtosis_error_scale heq s hne (T vs) (Q vs) (8 * n * κ * r.u)
    (132128 * (n + 10) * κ * r.u) hTpos hTQ (by positivity) hκ₂ (by positivity) hκ₄ hu1 hS hS4
  rw [hcount] at main
  exact main

/-- the last arithmetic step: `ε₄ = 132128·w`, `ε₂ = 8·n·κ·u ≤ 8·w`, `u ≤ w/20` for `w = (n+10)·κ·u`,
`n ≥ 10`, `κ ≥ 1` -/
theorem envelope_arith (n κ u a b c C : F) (hn : 10 ≤ n) (hκ : 1 ≤ κ) (hu : 0 ≤ u)
    (hb : 0 ≤ b) (hc : 0 ≤ c) (hC : 132128 * a + 8 * b + c / 20 ≤ C) :
    a * (132128 * (n + 10) * κ * u) + b * (8 * n * κ * u) + c * u ≤ C * (n + 10) * κ * u := by
  have hw : 0 ≤ (n + 10) * κ * u := by positivity
  have h1 : n * κ * u ≤ (n + 10) * κ * u := by
    have : 0 ≤ κ * u := by positivity
    nlinarith
  have h2 : 20 * u ≤ (n + 10) * κ * u := by
    have : 20 ≤ (n + 10) * κ := by nlinarith
    nlinarith
  have h3 : b * (8 * n * κ * u) ≤ 8 * b * ((n + 10) * κ * u) := by nlinarith
  have h4 : c * u ≤ c / 20 * ((n + 10) * κ * u) := by nlinarith
  have h5 : (132128 * a + 8 * b + c / 20) * ((n + 10) * κ * u) ≤ C * ((n + 10) * κ * u) :=
    mul_le_mul_of_nonneg_right hC hw
  nlinarith

/-- **The envelope clause of C03 for the accessor `kurtosis()` itself, any ordered field.** Standard model of
rounding; `n ≥ 10` observations added one at a time, `|x_i| ≤ M`, `σ > 0` with `n·σ² = T` (the population
standard deviation), `κ = 1 + M/σ`, `132128·(n+10)·κ·u < 1` (which implies `(n+28)·u ≤ 1/64` and
`(n+10)·u·M ≤ σ`). Then, with `G = n·Q/T² = m₄/σ⁴`,
`|kurtosis() - (G - 3)| ≤ 132161·(n+10)·κ·u·G`. -/
theorem kurtosis_envelope_sigma {r : Rnd2 F} [FloatOps (RF2 r)] (heq : ValEqb r) (M : F) (hM : 0 ≤ M)
    (xs : List (RF2 r)) (h10 : 10 ≤ xs.length) (hb : ∀ x ∈ xs, |x.val| ≤ M)
    (σ : F) (hσ : 0 < σ) (hvar : (xs.length : F) * σ^2 = T (xs.map RF2.val))
    (hκ : 132128 * ((xs.length : F) + 10) * (1 + M / σ) * r.u < 1) :
    |(xs.foldl Kurtosis.add Kurtosis.new).kurtosis.val
        - ((xs.length : F) * Q (xs.map RF2.val) / (T (xs.map RF2.val) * T (xs.map RF2.val)) - 3)|
      ≤ 132161 * ((xs.length : F) + 10) * (1 + M / σ) * r.u
          * ((xs.length : F) * Q (xs.map RF2.val) / (T (xs.map RF2.val) * T (xs.map RF2.val))) := by
  have hu := r.u_nonneg
  have hn10 : (10 : F) ≤ xs.length := by exact_mod_cast h10
  have hκ1 : 1 ≤ 1 + M / σ := by
    have : 0 ≤ M / σ := by positivity
    linarith
  have hw0 : 0 ≤ ((xs.length : F) + 10) * (1 + M / σ) * r.u := by positivity
  have hnw : (xs.length : F) * (1 + M / σ) * r.u ≤ ((xs.length : F) + 10) * (1 + M / σ) * r.u := by
    have : 0 ≤ (1 + M / σ) * r.u := by positivity
    nlinarith
  have h20 : 20 * r.u ≤ ((xs.length : F) + 10) * (1 + M / σ) * r.u := by
    have : 20 ≤ ((xs.length : F) + 10) * (1 + M / σ) := by nlinarith
    nlinarith
  have hε₂ : 8 * (xs.length : F) * (1 + M / σ) * r.u ≤ 1/16384 := by nlinarith
  have hutiny : r.u ≤ 1/2097152 := by nlinarith
  have hMσ0 : 0 ≤ M / σ := by positivity
  have hnu0 : 0 ≤ ((xs.length : F) + 10) * r.u := by positivity
  have hnu : ((xs.length : F) + 10) * r.u ≤ ((xs.length : F) + 10) * (1 + M / σ) * r.u := by
    nlinarith [mul_nonneg hnu0 hMσ0]
  have hsmall : ((xs.length : F) + 28) * r.u ≤ 1/64 := by
    have : ((xs.length : F) + 28) * r.u ≤ 19/10 * (((xs.length : F) + 10) * r.u) := by nlinarith
    linarith
  have hcond : ((xs.length : F) + 10) * r.u * M ≤ σ := by
    have h1 : ((xs.length : F) + 10) * r.u * (M / σ) ≤ 1 := by nlinarith [mul_nonneg hnu0 hMσ0]
    have e : ((xs.length : F) + 10) * r.u * M = ((xs.length : F) + 10) * r.u * (M / σ) * σ := by
      field_simp
    rw [e]
    calc ((xs.length : F) + 10) * r.u * (M / σ) * σ ≤ 1 * σ := mul_le_mul_of_nonneg_right h1 hσ.le
      _ = σ := one_mul σ
  have main := kurtosis_stream_symbolic heq M hM xs h10 hb hsmall σ hσ hvar hcond (by linarith) hκ
  refine le_trans main ?_
  set vs := xs.map RF2.val with hvs
  set n : F := (xs.length : F) with hn
  set κ := 1 + M / σ with hκdef
  have hTpos : 0 < T vs := by
    rw [← hvar]
    have : (0:F) < n := by linarith
    positivity
  have hG : 0 ≤ n * Q vs / (T vs * T vs) := by
    have := Q_nonneg vs
    have : (0:F) ≤ n := by linarith
    positivity
  have hF := kurt_factor_le_tiny r.u (8 * n * κ * r.u) (132128 * (n + 10) * κ * r.u) hu hutiny
    (by positivity) hε₂ (by positivity)
  have hA := envelope_arith n κ r.u (8001/8000) (2001/1000) (5001/1000) 132161 hn10 hκ1 hu
    (by norm_num) (by norm_num) (by norm_num)
  calc _ ≤ n * Q vs / (T vs * T vs) * (132161 * (n + 10) * κ * r.u) :=
        mul_le_mul_of_nonneg_left (le_trans hF hA) hG
    _ = 132161 * (n + 10) * κ * r.u * (n * Q vs / (T vs * T vs)) := by ring

/-- **The envelope clause of C03 for the accessor `kurtosis()` itself, in the words of DESIGN.md section 5.**
Over ℝ, standard model of rounding; `n ≥ 10` observations added one at a time, `|x_i| ≤ M`, exact variance
`var = T/n > 0`, `σ = √var`, `κ = 1 + M/σ`, and the single smallness hypothesis `132128·(n+10)·κ·u < 1`.
Then, whichever branch the accessor takes,
`|kurtosis() - ((Q/n)/var² - 3)| ≤ 132161·(n+10)·κ·u·(Q/n)/var²`,
`Q/n = m₄` the exact fourth central moment, `(Q/n)/var² = m₄/σ⁴ ≥ 1`. -/
theorem kurtosis_envelope_kappa {r : Rnd2 ℝ} [FloatOps (RF2 r)] (heq : ValEqb r) (M : ℝ) (hM : 0 ≤ M)
    (xs : List (RF2 r)) (h10 : 10 ≤ xs.length) (hb : ∀ x ∈ xs, |x.val| ≤ M)
    (hpos : 0 < T (xs.map RF2.val) / (xs.length : ℝ))
    (hκ : 132128 * ((xs.length : ℝ) + 10)
        * (1 + M / Real.sqrt (T (xs.map RF2.val) / (xs.length : ℝ))) * r.u < 1) :
    |(xs.foldl Kurtosis.add Kurtosis.new).kurtosis.val
        - (Q (xs.map RF2.val) / (xs.length : ℝ) / (T (xs.map RF2.val) / (xs.length : ℝ))^2 - 3)|
      ≤ 132161 * ((xs.length : ℝ) + 10)
          * (1 + M / Real.sqrt (T (xs.map RF2.val) / (xs.length : ℝ))) * r.u
          * (Q (xs.map RF2.val) / (xs.length : ℝ) / (T (xs.map RF2.val) / (xs.length : ℝ))^2) := by
  have hn10 : (10 : ℝ) ≤ xs.length := by exact_mod_cast h10
  have hnpos : (0 : ℝ) < xs.length := by linarith
  set v := T (xs.map RF2.val) / (xs.length : ℝ) with hv
  have hσpos : 0 < Real.sqrt v := Real.sqrt_pos.mpr hpos
  have hsq : Real.sqrt v ^ 2 = v := Real.sq_sqrt hpos.le
  have hvar : (xs.length : ℝ) * Real.sqrt v ^ 2 = T (xs.map RF2.val) := by
    rw [hsq, hv]; field_simp
  have hTpos : 0 < T (xs.map RF2.val) := by rw [← hvar]; positivity
  have h := kurtosis_envelope_sigma heq M hM xs h10 hb (Real.sqrt v) hσpos hvar hκ
  rw [kurtosis_exact_value (xs.length : ℝ) (T (xs.map RF2.val)) (Q (xs.map RF2.val)) hnpos.ne'
    hTpos.ne'] at h
  exact h

/-! ## Non-vacuity -/

/-- ten observations with a large offset, over ℚ: deviations `∓3` from the mean 1000; `T = 90 = 10·3²`,
`Q = 810`, `G = n·Q/T² = 1` (the smallest possible), exact excess kurtosis `-2`; the rounding
`Props.C02b.awayRnd` is never exact -/
def exStreamQ : List (RF2 Props.C02b.awayRnd) :=
  [⟨997⟩, ⟨1003⟩, ⟨997⟩, ⟨1003⟩, ⟨997⟩, ⟨1003⟩, ⟨997⟩, ⟨1003⟩, ⟨997⟩, ⟨1003⟩]

theorem exStreamQ_vals : T (exStreamQ.map RF2.val) = 90 ∧ Q (exStreamQ.map RF2.val) = 810 := by
  refine ⟨?_, ?_⟩
  · norm_num [exStreamQ, T, sumPow, mean]
  · norm_num [exStreamQ, Q, sumPow, mean]

/-- the hypotheses of `kurtosis_envelope_sigma` are met by `exStreamQ` with `M = 1003`, `σ = 3`, `u = 2^-53`,
the instance `rf2FloatOps awayRnd`, and the conclusion is a concrete statement about a computation (350
rounded operations for the state, then four more, none of them exact): `kurtosis()` is within
`132161·20·(1 + 1003/3)·2^-53·1` (about `9.9·10^-8`) of the exact value `1 - 3 = -2`. -/
example :
    letI : FloatOps (RF2 Props.C02b.awayRnd) := rf2FloatOps Props.C02b.awayRnd
    |(exStreamQ.foldl Kurtosis.add Kurtosis.new).kurtosis.val - (-2)|
      ≤ 132161 * 20 * (1 + 1003 / 3) * (1/2^53) * 1 := by
  let _ : FloatOps (RF2 Props.C02b.awayRnd) := rf2FloatOps Props.C02b.awayRnd
  have hl : (exStreamQ.length : ℚ) = 10 := by norm_num [exStreamQ]
  have hu : Props.C02b.awayRnd.u = 1/2^53 := rfl
  have h := kurtosis_envelope_sigma (rf2FloatOps_valEqb _) 1003 (by norm_num) exStreamQ
    (by simp [exStreamQ])
    (by intro x hx
        simp only [exStreamQ, List.mem_cons, List.not_mem_nil, or_false] at hx
        rcases hx with rfl | rfl | rfl | rfl | rfl | rfl | rfl | rfl | rfl | rfl <;> norm_num)
    3 (by norm_num)
    (by rw [exStreamQ_vals.1, hl]; norm_num)
    (by rw [hl, hu]; norm_num)
  rw [exStreamQ_vals.1, exStreamQ_vals.2, hl, hu] at h
  norm_num at h ⊢
  exact h

/-- a skewed, heavy-tailed stream of ten observations over ℝ (the one of `Props.C03d`): deviations
`-1,-3,-2,6,0,0,-1,-3,-2,6` from the mean 1002; `T = 100`, `Q = 2788`, `m₄/σ⁴ = 2.788` -/
noncomputable def exStream : List (RF2 Props.C01c.awayRndR) :=
  [⟨1001⟩, ⟨999⟩, ⟨1000⟩, ⟨1008⟩, ⟨1002⟩, ⟨1002⟩, ⟨1001⟩, ⟨999⟩, ⟨1000⟩, ⟨1008⟩]

theorem exStream_vals : T (exStream.map RF2.val) = 100 ∧ Q (exStream.map RF2.val) = 2788 := by
  refine ⟨?_, ?_⟩
  · norm_num [exStream, T, sumPow, mean]
  · norm_num [exStream, Q, sumPow, mean]

theorem three_le_sqrt_ten : (3 : ℝ) ≤ Real.sqrt 10 := Real.le_sqrt_of_sq_le (by norm_num)

/-- the hypotheses of `kurtosis_envelope_kappa` are met by `exStream` with `M = 1008`, `u = 2^-53`, the
instance `rf2SqrtFloatOps awayRndR awaySqrt` (or `rf2FloatOps awayRndR`): `T/n = 10`, `σ = √10 ≥ 3`,
`κ ≤ 337` -/
example : @ValEqb ℝ _ _ _ Props.C01c.awayRndR (rf2SqrtFloatOps Props.C01c.awayRndR Props.C01c.awaySqrt)
    ∧ 10 ≤ exStream.length ∧ (∀ x ∈ exStream, |x.val| ≤ 1008)
    ∧ 0 < T (exStream.map RF2.val) / (exStream.length : ℝ)
    ∧ 132128 * ((exStream.length : ℝ) + 10)
        * (1 + 1008 / Real.sqrt (T (exStream.map RF2.val) / (exStream.length : ℝ)))
        * Props.C01c.awayRndR.u < 1 := by
  have hl : (exStream.length : ℝ) = 10 := by norm_num [exStream]
  have hu : Props.C01c.awayRndR.u = 1/2^53 := rfl
  have h3 := three_le_sqrt_ten
  refine ⟨rf2SqrtFloatOps_valEqb _ _, by simp [exStream], ?_, ?_, ?_⟩
  · intro x hx
    simp only [exStream, List.mem_cons, List.not_mem_nil, or_false] at hx
    rcases hx with rfl | rfl | rfl | rfl | rfl | rfl | rfl | rfl | rfl | rfl <;> norm_num
  · rw [exStream_vals.1, hl]; norm_num
  · rw [exStream_vals.1, hl, hu]
    norm_num
    have : 1008 / Real.sqrt 10 ≤ 336 := by
      rw [div_le_iff₀ (by linarith)]; linarith
    nlinarith

/-- and the conclusion: `kurtosis()` is within `132161·20·(1 + 1008/√10)·2^-53·2.788` of the exact excess
kurtosis `2.788 - 3 = -0.212` -/
example :
    letI : FloatOps (RF2 Props.C01c.awayRndR) :=
      rf2SqrtFloatOps Props.C01c.awayRndR Props.C01c.awaySqrt
    |(exStream.foldl Kurtosis.add Kurtosis.new).kurtosis.val - (2788 / 10 / (10:ℝ)^2 - 3)|
      ≤ 132161 * 20 * (1 + 1008 / Real.sqrt 10) * (1/2^53) * (2788 / 10 / (10:ℝ)^2) := by
  let _ : FloatOps (RF2 Props.C01c.awayRndR) :=
    rf2SqrtFloatOps Props.C01c.awayRndR Props.C01c.awaySqrt
  have hl : (exStream.length : ℝ) = 10 := by norm_num [exStream]
  have hu : Props.C01c.awayRndR.u = 1/2^53 := rfl
  have h3 := three_le_sqrt_ten
  have hq : T (exStream.map RF2.val) / (exStream.length : ℝ) = 10 := by
    rw [exStream_vals.1, hl]; norm_num
  have h := kurtosis_envelope_kappa (rf2SqrtFloatOps_valEqb _ _) 1008 (by norm_num) exStream
    (by simp [exStream])
    (by intro x hx
        simp only [exStream, List.mem_cons, List.not_mem_nil, or_false] at hx
        rcases hx with rfl | rfl | rfl | rfl | rfl | rfl | rfl | rfl | rfl | rfl <;> norm_num)
    (by rw [hq]; norm_num)
    (by rw [hq, hl, hu]
        have : 1008 / Real.sqrt 10 ≤ 336 := by
          rw [div_le_iff₀ (by linarith)]; linarith
        norm_num
        nlinarith)
  rw [hq, exStream_vals.2, hl, hu] at h
  have e : ((10:ℝ) + 10) = 20 := by norm_num
  rw [e] at h
  exact h

/-- the general-scale theorems are not vacuous either: a state whose stored `sum_4` is `0` although
`Q = 2 > 0` (`n = 2`, `T = 2`, `G = 1`), with `V = 4`, `ε₄ = 1/2`: the accessor returns `0`, and
`|0 - (1 - 3)| = 2 ≤ 2·(1/2)·(2·4/4)`. -/
example :
    letI : FloatOps (RF2 Props.C02b.awayRnd) := rf2FloatOps Props.C02b.awayRnd
    let s : Kurtosis (RF2 Props.C02b.awayRnd) := ⟨⟨⟨⟨⟨0⟩, 2⟩, ⟨2⟩⟩, ⟨0⟩⟩, ⟨0⟩⟩
    s.kurtosis.val = 0 ∧
    |s.kurtosis.val - (((2:ℕ):ℚ) * 2 / (2 * 2) - 3)| ≤ 2 * (1/2) * (((2:ℕ):ℚ) * 4 / (2 * 2)) := by
  let _ : FloatOps (RF2 Props.C02b.awayRnd) := rf2FloatOps Props.C02b.awayRnd
  intro s
  exact kurtosis_shortcut_branch (rf2FloatOps_valEqb _) s (by decide) rfl 2 2 4 (1/2) (by norm_num)
    (by norm_num) (by norm_num)

end Props.C03e

#print axioms Props.C03e.kurtosis_computed
#print axioms Props.C03e.kurtosis_exact_value
#print axioms Props.C03e.kurtosis_scale_ge_one
#print axioms Props.C03e.kurtosis_accessor_error
#print axioms Props.C03e.kurtosis_accessor_error_scale
#print axioms Props.C03e.kurtosis_shortcut_not_taken
#print axioms Props.C03e.kurtosis_long_branch
#print axioms Props.C03e.kurtosis_shortcut_branch
#print axioms Props.C03e.kurtosis_factor_numerals
#print axioms Props.C03e.sum2_relative_error_sigma
#print axioms Props.C03e.sum4_relative_error_sigma
#print axioms Props.C03e.kurtosis_stream_symbolic
#print axioms Props.C03e.kurtosis_envelope_sigma
#print axioms Props.C03e.kurtosis_envelope_kappa
