import AvgProofs.SkewAccSharp
import Props.C01c
import Props.C03b
import Mathlib.Tactic.NormNum

/-!
# C03 (addendum) - the accessor `skewness()` in floating point, proved for add-only streams

Carrier **R2** over ℝ (`RF2 r`): every `+ - * /` is followed by a rounding `r.fl` with `|fl t - t| ≤ u·|t|`
(standard model: no overflow, no underflow), counts are converted exactly; the model is extended by a
correctly rounded square root `RndSqrt r` (`|sqrtfl t - √t| ≤ u·√t` for `t ≥ 0`, as IEEE-754 `sqrt`).
`SqrtIs q`: the `FloatOps (RF2 r)` instance takes square roots with `q.sqrtfl`; `ValEqb r`: its `==`
compares the values (`rf2SqrtFloatOps r q` satisfies both).

Notation: `n` observations `|x_i| ≤ M`, `T = Σ(x-mean)²`, `U = Σ(x-mean)³`, `V3 = Σ|x-mean|³`, `σ = √(T/n)`,
`κ = 1 + M/σ`; exact skewness `g = m₃/σ³ = (U/n)/σ³ = √n·U/√(T³)` (`skewness_exact_value`); the scale of the
envelope of DESIGN.md section 5 is `ν₃/σ³ = (V3/n)/σ³ ≥ 1` (`skewness_scale_ge_one`).

What the code computes (`skewness_computed`) for a non-empty state: `0` when `sum_3 == 0`, otherwise
`fl( fl(sqrtfl(n)·sum_3) / sqrtfl( fl(fl(sum_2·sum_2)·sum_2) ) )` - two rounded square roots and four
rounded operations on top of the stored `sum_2`, `sum_3`.

Results:
* `skewness_accessor_error_sharp` (any non-empty state): if `|sum_2 - T| ≤ ε₂·T` with `0 ≤ ε₂ < 1`,
  `|sum_3 - U| ≤ ε₃·V`, `|U| ≤ V` and `u < 1`, then **both branches** satisfy
  `|skewness() - √n·U/√(T³)| ≤ (√n·V/√(T³))·((1+ε₃)(1+u)³/((1-ε₂)√(1-ε₂)(1-u)²) - 1)`
  - to first order `ε₃ + (3/2)·ε₂ + 5·u` times the scale: the square root halves the error of `sum_2³`.
  In the shortcut branch `sum_3 = 0` gives `|U| = |U - sum_3| ≤ ε₃·V`, so `|0 - g| ≤ ε₃·scale`
  (`skewness_shortcut_branch`).
* `skewness_factor_numerals`: `1/((1-ε)√(1-ε)) ≤ 1 + (9/4)·ε` for `ε ≤ 1/4` (by squaring, no real powers) and
  `≤ 1 + (8/5)·ε` for `ε ≤ 1/32`; for `u ≤ 1/1856` the factor is `≤ (63/40)·ε₃ + (9/4)·ε₂ + 8·u` resp.
  `≤ 1.053·ε₃ + (8/5)·ε₂ + 5.3·u`.
* `skewness_accessor_error_crude`: the variant through `|√a - √b| ≤ |a-b|/√b` (coefficient `≈ 3` of `ε₂`),
  `z = (1+ε₂)³(1+u)³ - 1 < 1`: factor `((1+ε₃)(1+u)³ - 1 + z)/(1 - z)`.
* `sum2_relative_error`: `|sum_2 - T| ≤ 8·n·κ·u·T` (from `Props.C01b`), `abs_U_le_V3`.
* `skewness_stream_symbolic`: add-only streams, `n ≥ 10`, `(n+28)·u ≤ 1/64`, `(n+10)·u·M ≤ σ`,
  `ε₂ = 8·n·κ·u < 1`, `ε₃ = 280·(n+10)·κ·u`: the sharp bound with these `ε₂`, `ε₃`, scale `(V3/n)/σ³`.
* **`skewness_envelope_kappa`**: if moreover `n·κ·u ≤ 1/256` (`ε₂ ≤ 1/32`):
  `|skewness() - g| ≤ 310·(n+10)·κ·u·(V3/n)/σ³`;
  **`skewness_envelope_kappa_wide`**: if `n·κ·u ≤ 1/32` (`ε₂ ≤ 1/4`): `≤ 460·(n+10)·κ·u·(V3/n)/σ³`
  - the shape `C·n·κ·u·scale` of the envelope clause of C03 (the checked envelope has `C = 16`; the
  constants proved here are those of the chain of inequalities used: `280` from `Props.C03b` (Hardy/Copson
  constants) times `1.053` resp. `1.575` for the quotient, plus `8·1.6` resp. `8·2.25` for `sum_2`).
  The hypothesis `n·κ·u ≤ 1/256` is no restriction where the bound says anything: for `n·κ·u > 1/310`
  the right-hand side exceeds the scale itself.

Not covered: merge trees, `sample_skewness`/`standardized_moment(3)` of `define_moments!`.
-/
open Avg MSpec VarSpec SkewSpec SkewErr SkewAcc

namespace Props.C03d

/-! ## what is computed, and the exact value -/

section state
variable {r : Rnd2 ℝ} [FloatOps (RF2 r)]

/-- What `skewness()` computes at R2 for a non-empty state when the instance takes square roots with
`q.sqrtfl` and `==` compares values: `0` if the stored `sum_3` is zero (the early return of the Rust code),
otherwise `fl(fl(sqrtfl(n)·sum_3)/sqrtfl(fl(fl(sum_2·sum_2)·sum_2)))`, `n` converted exactly. -/
theorem skewness_computed (q : RndSqrt r) (hs : SqrtIs q) (heq : ValEqb r) (s : Skewness (RF2 r))
    (hn : s.avg.avg.n ≠ 0) :
    s.skewness.val =
      if s.sum_3.val = 0 then 0
      else r.fl (r.fl (q.sqrtfl (s.avg.avg.n : ℝ) * s.sum_3.val)
            / q.sqrtfl (r.fl (r.fl (s.avg.sum_2.val * s.avg.sum_2.val) * s.avg.sum_2.val))) :=
  skewness_val q hs heq s hn

omit [FloatOps (RF2 r)] in
/-- The exact value in its three forms: for `n > 0`, `T > 0`, `σ = √(T/n)` and any `X`
(`X = U`: the skewness `m₃/σ³`; `X = V3`: the scale `ν₃/σ³`):  `√n·X/√(T·T·T) = (X/n)/σ³`. -/
theorem skewness_exact_value (n T X : ℝ) (hn : 0 < n) (hT : 0 < T) :
    Real.sqrt n * X / Real.sqrt (T * T * T) = X / n / (Real.sqrt (T / n))^3 :=
  skew_exact_eq n T X hn hT

/-- **The accessor on any non-empty state, both branches.** If the stored `sum_2`, `sum_3` approximate
`T > 0` and `U` with `|sum_2 - T| ≤ ε₂·T` (`0 ≤ ε₂ < 1`), `|sum_3 - U| ≤ ε₃·V`, where `|U| ≤ V`, and `u < 1`,
then `|skewness() - √n·U/√(T³)| ≤ (√n·V/√(T³))·((1+ε₃)(1+u)³/((1-ε₂)√(1-ε₂)(1-u)²) - 1)`. -/
theorem skewness_accessor_error_sharp (q : RndSqrt r) (hs : SqrtIs q) (heq : ValEqb r)
    (s : Skewness (RF2 r)) (hn : s.avg.avg.n ≠ 0) (T U V ε₂ ε₃ : ℝ) (hT : 0 < T) (hUV : |U| ≤ V)
    (hε₂ : 0 ≤ ε₂) (hε₂1 : ε₂ < 1) (hε₃ : 0 ≤ ε₃) (hu1 : r.u < 1)
    (hS : |s.avg.sum_2.val - T| ≤ ε₂ * T) (hS3 : |s.sum_3.val - U| ≤ ε₃ * V) :
    |s.skewness.val - Real.sqrt (s.avg.avg.n : ℝ) * U / Real.sqrt (T * T * T)|
      ≤ Real.sqrt (s.avg.avg.n : ℝ) * V / Real.sqrt (T * T * T)
          * ((1 + ε₃) * (1 + r.u)^3
              / ((1 - ε₂) * Real.sqrt (1 - ε₂) * ((1 - r.u) * (1 - r.u))) - 1) :=
  skewness_error_sharp q hs heq s hn T U V ε₂ ε₃ hT hUV hε₂ hε₂1 hε₃ hu1 hS hS3

/-- A cruder variant, through `|√a - √b| ≤ |a-b|/√b` for the denominator: with
`z = (1+ε₂)³(1+u)³ - 1 < 1`,
`|skewness() - √n·U/√(T³)| ≤ (√n·V/√(T³))·((1+ε₃)(1+u)³ - 1 + z)/(1 - z)`. -/
theorem skewness_accessor_error_crude (q : RndSqrt r) (hs : SqrtIs q) (heq : ValEqb r)
    (s : Skewness (RF2 r)) (hn : s.avg.avg.n ≠ 0) (T U V ε₂ ε₃ : ℝ) (hT : 0 < T) (hUV : |U| ≤ V)
    (hε₂ : 0 ≤ ε₂) (hε₃ : 0 ≤ ε₃) (hS : |s.avg.sum_2.val - T| ≤ ε₂ * T)
    (hS3 : |s.sum_3.val - U| ≤ ε₃ * V) (hz : (1 + ε₂)^3 * (1 + r.u)^3 - 1 < 1) :
    |s.skewness.val - Real.sqrt (s.avg.avg.n : ℝ) * U / Real.sqrt (T * T * T)|
      ≤ Real.sqrt (s.avg.avg.n : ℝ) * V / Real.sqrt (T * T * T)
          * (((1 + ε₃) * (1 + r.u)^3 - 1 + ((1 + ε₂)^3 * (1 + r.u)^3 - 1))
              / (1 - ((1 + ε₂)^3 * (1 + r.u)^3 - 1))) :=
  skewness_error_gen q hs heq s hn T U V ε₂ ε₃ hT hUV hε₂ hε₃ hS hS3 hz

/-- The shortcut branch made explicit: if the stored `sum_3` is exactly `0` the accessor returns `0`, and
then `|0 - g| = √n·|U|/√(T³) ≤ ε₃·(√n·V/√(T³))` because `|U| = |U - sum_3| ≤ ε₃·V`. -/
theorem skewness_shortcut_branch (q : RndSqrt r) (hs : SqrtIs q) (heq : ValEqb r)
    (s : Skewness (RF2 r)) (hn : s.avg.avg.n ≠ 0) (h0 : s.sum_3.val = 0) (T U V ε₃ : ℝ) (hT : 0 < T)
    (hS3 : |s.sum_3.val - U| ≤ ε₃ * V) :
    s.skewness.val = 0 ∧
    |s.skewness.val - Real.sqrt (s.avg.avg.n : ℝ) * U / Real.sqrt (T * T * T)|
      ≤ ε₃ * (Real.sqrt (s.avg.avg.n : ℝ) * V / Real.sqrt (T * T * T)) := by
  have hv : s.skewness.val = 0 := by rw [skewness_val q hs heq s hn, if_pos h0]
  refine ⟨hv, ?_⟩
  have hD : 0 < Real.sqrt (T * T * T) := Real.sqrt_pos.mpr (by positivity)
  have hU : |U| ≤ ε₃ * V := by rw [h0, zero_sub, abs_neg] at hS3; exact hS3
  rw [hv, zero_sub, abs_neg, abs_div, abs_mul, abs_of_nonneg (Real.sqrt_nonneg _), abs_of_pos hD]
  calc Real.sqrt (s.avg.avg.n : ℝ) * |U| / Real.sqrt (T * T * T)
      ≤ Real.sqrt (s.avg.avg.n : ℝ) * (ε₃ * V) / Real.sqrt (T * T * T) := by gcongr
    _ = ε₃ * (Real.sqrt (s.avg.avg.n : ℝ) * V / Real.sqrt (T * T * T)) := by ring

end state

/-- Numerals for the sharp factor (`0 ≤ u ≤ 1/1856`, `ε₃ ≥ 0`): `1/((1-ε)√(1-ε)) ≤ 1 + (9/4)·ε` on `[0, 1/4]`
and `≤ 1 + (8/5)·ε` on `[0, 1/32]`; hence the factor is `≤ (63/40)·ε₃ + (9/4)·ε₂ + 8·u` for `ε₂ ≤ 1/4` and
`≤ (1053/1000)·ε₃ + (8/5)·ε₂ + (53/10)·u` for `ε₂ ≤ 1/32`. -/
theorem skewness_factor_numerals (u ε₂ ε₃ : ℝ) (hu : 0 ≤ u) (hu' : u ≤ 1/1856) (hε₂ : 0 ≤ ε₂)
    (hε₃ : 0 ≤ ε₃) :
    (ε₂ ≤ 1/4 → 1 / ((1 - ε₂) * Real.sqrt (1 - ε₂)) ≤ 1 + 9/4 * ε₂ ∧
      (1 + ε₃) * (1 + u)^3 / ((1 - ε₂) * Real.sqrt (1 - ε₂) * ((1 - u) * (1 - u))) - 1
        ≤ 63/40 * ε₃ + 9/4 * ε₂ + 8 * u) ∧
    (ε₂ ≤ 1/32 → 1 / ((1 - ε₂) * Real.sqrt (1 - ε₂)) ≤ 1 + 8/5 * ε₂ ∧
      (1 + ε₃) * (1 + u)^3 / ((1 - ε₂) * Real.sqrt (1 - ε₂) * ((1 - u) * (1 - u))) - 1
        ≤ 1053/1000 * ε₃ + 8/5 * ε₂ + 53/10 * u) :=
  ⟨fun h => ⟨inv_lo_le_quarter ε₂ hε₂ h, skew_factor_sharp_quarter u ε₂ ε₃ hu hu' hε₂ h hε₃⟩,
   fun h => ⟨inv_lo_le_small ε₂ hε₂ h, skew_factor_sharp_small u ε₂ ε₃ hu hu' hε₂ h hε₃⟩⟩

/-! ## add-only streams -/

/-- `|Σ(x - mean)³| ≤ Σ|x - mean|³`. -/
theorem abs_U_le_V3 (vs : List ℝ) : |U vs| ≤ V3 vs := SkewAcc.abs_U_le_V3 vs

/-- The scale of the envelope is at least 1: `(V3/n)/σ³ ≥ 1` for `σ = √(T/n) > 0` (power-mean inequality
`n·σ³ ≤ V3`, `Props.C03b.T_cube_le`). -/
theorem skewness_scale_ge_one (vs : List ℝ) (hpos : 0 < T vs / (vs.length : ℝ)) :
    1 ≤ V3 vs / (vs.length : ℝ) / (Real.sqrt (T vs / (vs.length : ℝ)))^3 := by
  have hnpos : (0 : ℝ) < vs.length := by
    by_contra h
    rw [not_lt] at h
    have h0 : (vs.length : ℝ) = 0 := le_antisymm h (Nat.cast_nonneg _)
    rw [h0, div_zero] at hpos
    exact lt_irrefl _ hpos
  have hσpos : 0 < Real.sqrt (T vs / (vs.length : ℝ)) := Real.sqrt_pos.mpr hpos
  have hsq : Real.sqrt (T vs / (vs.length : ℝ)) ^ 2 = T vs / (vs.length : ℝ) := Real.sq_sqrt hpos.le
  have hvar : (vs.length : ℝ) * Real.sqrt (T vs / (vs.length : ℝ)) ^ 2 = T vs := by
    rw [hsq]; field_simp
  have h := sigma_cube_le vs _ (le_of_eq hvar)
  rw [le_div_iff₀ (by positivity), le_div_iff₀ hnpos]
  linarith

/-- **The stored `sum_2` in relative form** (from `Props.C01b.sum2_forward_error_sharp`). Over ℝ, `n ≥ 1`
observations `|x_i| ≤ M`, `(n+28)·u ≤ 1/64`, `var = T/n > 0`, `σ = √var`, `κ = 1 + M/σ`, `n·u·M ≤ σ`:
`|sum_2 - T| ≤ 8·n·κ·u·T`. -/
theorem sum2_relative_error (r : Rnd2 ℝ) (M : ℝ) (hM : 0 ≤ M) (xs : List (RF2 r))
    (hb : ∀ x ∈ xs, |x.val| ≤ M) (hsmall : ((xs.length : ℝ) + 28) * r.u ≤ 1/64)
    (hpos : 0 < T (xs.map RF2.val) / (xs.length : ℝ))
    (hcond : (xs.length : ℝ) * r.u * M ≤ Real.sqrt (T (xs.map RF2.val) / (xs.length : ℝ))) :
    |(xs.foldl Variance.add Variance.new).sum_2.val - T (xs.map RF2.val)|
      ≤ 8 * xs.length * (1 + M / Real.sqrt (T (xs.map RF2.val) / (xs.length : ℝ))) * r.u
          * T (xs.map RF2.val) := by
  have hnpos : (0 : ℝ) < xs.length := by
    by_contra h
    rw [not_lt] at h
    have h0 : (xs.length : ℝ) = 0 := le_antisymm h (Nat.cast_nonneg _)
    rw [h0, div_zero] at hpos
    exact lt_irrefl _ hpos
  set v := T (xs.map RF2.val) / (xs.length : ℝ) with hv
  have hσpos : 0 < Real.sqrt v := Real.sqrt_pos.mpr hpos
  have hsq : Real.sqrt v ^ 2 = v := Real.sq_sqrt hpos.le
  have hvar : (xs.length : ℝ) * Real.sqrt v ^ 2 = T (xs.map RF2.val) := by
    rw [hsq, hv]; field_simp
  refine le_trans (sum2_rel r M hM xs hb hsmall (Real.sqrt v) hσpos.le hvar hcond) (le_of_eq ?_)
  rw [← hvar]
  field_simp

/-- **Add-only streams, symbolic form.** Over ℝ, standard model of rounding with a correctly rounded square
root; `n ≥ 10` observations added one at a time, `|x_i| ≤ M`, `var = T/n > 0`, `σ = √var`, `κ = 1 + M/σ`,
`(n+28)·u ≤ 1/64`, `(n+10)·u·M ≤ σ`; `ε₂ = 8·n·κ·u < 1`, `ε₃ = 280·(n+10)·κ·u`. Whichever branch the
accessor takes,
`|skewness() - (U/n)/σ³| ≤ ((V3/n)/σ³)·((1+ε₃)(1+u)³/((1-ε₂)√(1-ε₂)(1-u)²) - 1)`. -/
theorem skewness_stream_symbolic {r : Rnd2 ℝ} [FloatOps (RF2 r)] (q : RndSqrt r) (hs : SqrtIs q)
    (heq : ValEqb r) (M : ℝ) (hM : 0 ≤ M) (xs : List (RF2 r)) (h10 : 10 ≤ xs.length)
    (hb : ∀ x ∈ xs, |x.val| ≤ M) (hsmall : ((xs.length : ℝ) + 28) * r.u ≤ 1/64)
    (hpos : 0 < T (xs.map RF2.val) / (xs.length : ℝ))
    (hcond : ((xs.length : ℝ) + 10) * r.u * M
      ≤ Real.sqrt (T (xs.map RF2.val) / (xs.length : ℝ)))
    (hκ : 8 * (xs.length : ℝ) * (1 + M / Real.sqrt (T (xs.map RF2.val) / (xs.length : ℝ))) * r.u
      < 1) :
    |(xs.foldl Skewness.add Skewness.new).skewness.val
        - U (xs.map RF2.val) / (xs.length : ℝ)
            / (Real.sqrt (T (xs.map RF2.val) / (xs.length : ℝ)))^3|
      ≤ V3 (xs.map RF2.val) / (xs.length : ℝ)
            / (Real.sqrt (T (xs.map RF2.val) / (xs.length : ℝ)))^3
          * ((1 + 280 * ((xs.length : ℝ) + 10)
                  * (1 + M / Real.sqrt (T (xs.map RF2.val) / (xs.length : ℝ))) * r.u)
                * (1 + r.u)^3
              / ((1 - 8 * (xs.length : ℝ)
                      * (1 + M / Real.sqrt (T (xs.map RF2.val) / (xs.length : ℝ))) * r.u)
                  * Real.sqrt (1 - 8 * (xs.length : ℝ)
                      * (1 + M / Real.sqrt (T (xs.map RF2.val) / (xs.length : ℝ))) * r.u)
                  * ((1 - r.u) * (1 - r.u))) - 1) := by
  have hu := r.u_nonneg
  have hn10 : (10 : ℝ) ≤ xs.length := by exact_mod_cast h10
  have hnpos : (0 : ℝ) < xs.length := by linarith
  have hu1856 : r.u ≤ 1/1856 := by nlinarith
  set vs := xs.map RF2.val with hvs
  set n : ℝ := (xs.length : ℝ) with hn
  have hTpos : 0 < T vs := by
    have := mul_pos hpos hnpos
    rwa [div_mul_cancel₀ _ hnpos.ne'] at this
  set σ := Real.sqrt (T vs / n) with hσ
  have hσpos : 0 < σ := Real.sqrt_pos.mpr hpos
  set κ := 1 + M / σ with hκdef
  have hκ1 : 1 ≤ κ := by
    have : 0 ≤ M / σ := by positivity
    rw [hκdef]; linarith
  have hcond' : n * r.u * M ≤ σ := by
    refine le_trans ?_ hcond
    have : 0 ≤ r.u * M := by positivity
    nlinarith
  have hS := sum2_relative_error r M hM xs hb hsmall hpos hcond'
  have hS3 := Props.C03b.sum3_envelope_kappa r M hM xs h10 hb hsmall hpos hcond
  set s := xs.foldl Skewness.add Skewness.new with hsdef
  have havg : s.avg = xs.foldl Variance.add Variance.new := Props.C03b.inner_variance_bitwise xs
  have hcount : s.avg.avg.n = xs.length := by rw [havg]; exact Variance.fold_n_ve xs
  have hne : s.avg.avg.n ≠ 0 := by rw [hcount]; omega
  rw [← havg] at hS
  have main := skewness_error_sharp q hs heq s hne (T vs) (U vs) (V3 vs) (8 * n * κ * r.u)
    (280 * (n + 10) * κ * r.u) hTpos (SkewAcc.abs_U_le_V3 vs) (by positivity) hκ (by positivity)
    (by linarith) hS hS3
  rw [hcount, skew_exact_eq n (T vs) (U vs) hnpos hTpos,
    skew_exact_eq n (T vs) (V3 vs) hnpos hTpos] at main
  exact main

/-- the last arithmetic step of the two envelope theorems: `ε₃ = 280·w`, `ε₂ = 8·n·κ·u ≤ 8·w`, `u ≤ w/20`
for `w = (n+10)·κ·u`, `n ≥ 10`, `κ ≥ 1` -/
theorem envelope_arith (n κ u a b c C : ℝ) (hn : 10 ≤ n) (hκ : 1 ≤ κ) (hu : 0 ≤ u)
    (hb : 0 ≤ b) (hc : 0 ≤ c) (hC : 280 * a + 8 * b + c / 20 ≤ C) :
    a * (280 * (n + 10) * κ * u) + b * (8 * n * κ * u) + c * u ≤ C * (n + 10) * κ * u := by
  have hw : 0 ≤ (n + 10) * κ * u := by positivity
  have h1 : n * κ * u ≤ (n + 10) * κ * u := by
    have : 0 ≤ κ * u := by positivity
    nlinarith
  have h2 : 20 * u ≤ (n + 10) * κ * u := by
    have : 20 ≤ (n + 10) * κ := by nlinarith
    nlinarith
  have h3 : b * (8 * n * κ * u) ≤ 8 * b * ((n + 10) * κ * u) := by nlinarith
  have h4 : c * u ≤ c / 20 * ((n + 10) * κ * u) := by nlinarith
  have h5 : (280 * a + 8 * b + c / 20) * ((n + 10) * κ * u) ≤ C * ((n + 10) * κ * u) :=
    mul_le_mul_of_nonneg_right hC hw
  nlinarith

/-- **The envelope clause of C03 for the accessor `skewness()` itself, in the words of DESIGN.md section 5.**
Over ℝ, standard model of rounding with a correctly rounded square root; `n ≥ 10` observations added one at a
time, `|x_i| ≤ M`, exact variance `var = T/n > 0`, `σ = √var`, `κ = 1 + M/σ`, `(n+28)·u ≤ 1/64`,
`(n+10)·u·M ≤ σ`, `n·κ·u ≤ 1/256`. Then, whichever branch the accessor takes,
`|skewness() - (U/n)/σ³| ≤ 310·(n+10)·κ·u·(V3/n)/σ³`,
`U/n = m₃` the exact third central moment, `V3/n = ν₃` the third absolute central moment. -/
theorem skewness_envelope_kappa {r : Rnd2 ℝ} [FloatOps (RF2 r)] (q : RndSqrt r) (hs : SqrtIs q)
    (heq : ValEqb r) (M : ℝ) (hM : 0 ≤ M) (xs : List (RF2 r)) (h10 : 10 ≤ xs.length)
    (hb : ∀ x ∈ xs, |x.val| ≤ M) (hsmall : ((xs.length : ℝ) + 28) * r.u ≤ 1/64)
    (hpos : 0 < T (xs.map RF2.val) / (xs.length : ℝ))
    (hcond : ((xs.length : ℝ) + 10) * r.u * M
      ≤ Real.sqrt (T (xs.map RF2.val) / (xs.length : ℝ)))
    (hκ : (xs.length : ℝ) * (1 + M / Real.sqrt (T (xs.map RF2.val) / (xs.length : ℝ))) * r.u
      ≤ 1/256) :
    |(xs.foldl Skewness.add Skewness.new).skewness.val
        - U (xs.map RF2.val) / (xs.length : ℝ)
            / (Real.sqrt (T (xs.map RF2.val) / (xs.length : ℝ)))^3|
      ≤ 310 * ((xs.length : ℝ) + 10)
          * (1 + M / Real.sqrt (T (xs.map RF2.val) / (xs.length : ℝ))) * r.u
          * (V3 (xs.map RF2.val) / (xs.length : ℝ)
              / (Real.sqrt (T (xs.map RF2.val) / (xs.length : ℝ)))^3) := by
  have hu := r.u_nonneg
  have hn10 : (10 : ℝ) ≤ xs.length := by exact_mod_cast h10
  have hu1856 : r.u ≤ 1/1856 := by nlinarith
  have main := skewness_stream_symbolic q hs heq M hM xs h10 hb hsmall hpos hcond (by linarith)
  refine le_trans main ?_
  set vs := xs.map RF2.val with hvs
  set n : ℝ := (xs.length : ℝ) with hn
  set σ := Real.sqrt (T vs / n) with hσ
  have hσpos : 0 < σ := Real.sqrt_pos.mpr hpos
  set κ := 1 + M / σ with hκdef
  have hκ1 : 1 ≤ κ := by
    have : 0 ≤ M / σ := by positivity
    rw [hκdef]; linarith
  have hρ : 0 ≤ V3 vs / n / σ^3 := by
    have := V3_nonneg vs
    positivity
  have hF := skew_factor_sharp_small r.u (8 * n * κ * r.u) (280 * (n + 10) * κ * r.u) hu hu1856
    (by positivity) (by linarith) (by positivity)
  have hA := envelope_arith n κ r.u (1053/1000) (8/5) (53/10) 310 hn10 hκ1 hu
    (by norm_num) (by norm_num) (by norm_num)
  calc _ ≤ V3 vs / n / σ^3 * (310 * (n + 10) * κ * r.u) :=
        mul_le_mul_of_nonneg_left (le_trans hF hA) hρ
    _ = 310 * (n + 10) * κ * r.u * (V3 vs / n / σ^3) := by ring

/-- **The same under the weaker smallness hypothesis `n·κ·u ≤ 1/32`** (`ε₂ = 8·n·κ·u ≤ 1/4`):
`|skewness() - (U/n)/σ³| ≤ 460·(n+10)·κ·u·(V3/n)/σ³`. -/
theorem skewness_envelope_kappa_wide {r : Rnd2 ℝ} [FloatOps (RF2 r)] (q : RndSqrt r) (hs : SqrtIs q)
    (heq : ValEqb r) (M : ℝ) (hM : 0 ≤ M) (xs : List (RF2 r)) (h10 : 10 ≤ xs.length)
    (hb : ∀ x ∈ xs, |x.val| ≤ M) (hsmall : ((xs.length : ℝ) + 28) * r.u ≤ 1/64)
    (hpos : 0 < T (xs.map RF2.val) / (xs.length : ℝ))
    (hcond : ((xs.length : ℝ) + 10) * r.u * M
      ≤ Real.sqrt (T (xs.map RF2.val) / (xs.length : ℝ)))
    (hκ : (xs.length : ℝ) * (1 + M / Real.sqrt (T (xs.map RF2.val) / (xs.length : ℝ))) * r.u
      ≤ 1/32) :
    |(xs.foldl Skewness.add Skewness.new).skewness.val
        - U (xs.map RF2.val) / (xs.length : ℝ)
            / (Real.sqrt (T (xs.map RF2.val) / (xs.length : ℝ)))^3|
      ≤ 460 * ((xs.length : ℝ) + 10)
          * (1 + M / Real.sqrt (T (xs.map RF2.val) / (xs.length : ℝ))) * r.u
          * (V3 (xs.map RF2.val) / (xs.length : ℝ)
              / (Real.sqrt (T (xs.map RF2.val) / (xs.length : ℝ)))^3) := by
  have hu := r.u_nonneg
  have hn10 : (10 : ℝ) ≤ xs.length := by exact_mod_cast h10
  have hu1856 : r.u ≤ 1/1856 := by nlinarith
  have main := skewness_stream_symbolic q hs heq M hM xs h10 hb hsmall hpos hcond (by linarith)
  refine le_trans main ?_
  set vs := xs.map RF2.val with hvs
  set n : ℝ := (xs.length : ℝ) with hn
  set σ := Real.sqrt (T vs / n) with hσ
  have hσpos : 0 < σ := Real.sqrt_pos.mpr hpos
  set κ := 1 + M / σ with hκdef
  have hκ1 : 1 ≤ κ := by
    have : 0 ≤ M / σ := by positivity
    rw [hκdef]; linarith
  have hρ : 0 ≤ V3 vs / n / σ^3 := by
    have := V3_nonneg vs
    positivity
  have hF := skew_factor_sharp_quarter r.u (8 * n * κ * r.u) (280 * (n + 10) * κ * r.u) hu hu1856
    (by positivity) (by linarith) (by positivity)
  have hA := envelope_arith n κ r.u (63/40) (9/4) 8 460 hn10 hκ1 hu
    (by norm_num) (by norm_num) (by norm_num)
  calc _ ≤ V3 vs / n / σ^3 * (460 * (n + 10) * κ * r.u) :=
        mul_le_mul_of_nonneg_left (le_trans hF hA) hρ
    _ = 460 * (n + 10) * κ * r.u * (V3 vs / n / σ^3) := by ring

/-! ## Non-vacuity -/

/-- a skewed stream of ten observations with a large offset: deviations `-1,-3,-2,6,0,0,-1,-3,-2,6` from the
mean 1002; the rounding `Props.C01c.awayRndR` and the square root `Props.C01c.awaySqrt` are never exact -/
noncomputable def exStream : List (RF2 Props.C01c.awayRndR) :=
  [⟨1001⟩, ⟨999⟩, ⟨1000⟩, ⟨1008⟩, ⟨1002⟩, ⟨1002⟩, ⟨1001⟩, ⟨999⟩, ⟨1000⟩, ⟨1008⟩]

theorem exStream_vals : T (exStream.map RF2.val) = 100 ∧ U (exStream.map RF2.val) = 360
    ∧ V3 (exStream.map RF2.val) = 504 := by
  refine ⟨?_, ?_, ?_⟩
  · norm_num [exStream, T, sumPow, mean]
  · norm_num [exStream, U, sumPow, mean]
  · norm_num [exStream, V3, mean, abs_of_nonneg, abs_of_neg]

theorem three_le_sqrt_ten : (3 : ℝ) ≤ Real.sqrt 10 := Real.le_sqrt_of_sq_le (by norm_num)

/-- the hypotheses of `skewness_envelope_kappa` are met by `exStream` with `M = 1008`, `u = 2^-53`, the
instance `rf2SqrtFloatOps awayRndR awaySqrt`: `T/n = 10`, `σ = √10 ≥ 3`, `κ ≤ 337` -/
example : @SqrtIs Props.C01c.awayRndR Props.C01c.awaySqrt
      (rf2SqrtFloatOps Props.C01c.awayRndR Props.C01c.awaySqrt)
    ∧ @ValEqb ℝ _ _ _ Props.C01c.awayRndR (rf2SqrtFloatOps Props.C01c.awayRndR Props.C01c.awaySqrt)
    ∧ 10 ≤ exStream.length ∧ (∀ x ∈ exStream, |x.val| ≤ 1008)
    ∧ ((exStream.length : ℝ) + 28) * Props.C01c.awayRndR.u ≤ 1/64
    ∧ 0 < T (exStream.map RF2.val) / (exStream.length : ℝ)
    ∧ ((exStream.length : ℝ) + 10) * Props.C01c.awayRndR.u * 1008
        ≤ Real.sqrt (T (exStream.map RF2.val) / (exStream.length : ℝ))
    ∧ (exStream.length : ℝ)
        * (1 + 1008 / Real.sqrt (T (exStream.map RF2.val) / (exStream.length : ℝ)))
        * Props.C01c.awayRndR.u ≤ 1/256 := by
  have hl : (exStream.length : ℝ) = 10 := by norm_num [exStream]
  have hu : Props.C01c.awayRndR.u = 1/2^53 := rfl
  have h3 := three_le_sqrt_ten
  refine ⟨rf2SqrtFloatOps_sqrtIs _ _, rf2SqrtFloatOps_valEqb _ _, by simp [exStream], ?_, ?_, ?_, ?_, ?_⟩
  · intro x hx
    simp only [exStream, List.mem_cons, List.not_mem_nil, or_false] at hx
    rcases hx with rfl | rfl | rfl | rfl | rfl | rfl | rfl | rfl | rfl | rfl <;> norm_num
  · rw [hl, hu]; norm_num
  · rw [exStream_vals.1, hl]; norm_num
  · rw [exStream_vals.1, hl, hu]
    norm_num
    linarith
  · rw [exStream_vals.1, hl, hu]
    norm_num
    have : 1008 / Real.sqrt 10 ≤ 336 := by
      rw [div_le_iff₀ (by linarith)]; linarith
    nlinarith

/-- and the conclusion is a concrete statement about a computation (180 rounded operations for the state,
then two rounded square roots and four rounded operations, none of them exact): `skewness()` is within
`310·20·(1 + 1008/√10)·2^-53·(504/10)/(√10)³` of the exact skewness `(360/10)/(√10)³ ≈ 1.14` -/
example :
    letI : FloatOps (RF2 Props.C01c.awayRndR) :=
      rf2SqrtFloatOps Props.C01c.awayRndR Props.C01c.awaySqrt
    |(exStream.foldl Skewness.add Skewness.new).skewness.val - 360 / 10 / (Real.sqrt 10)^3|
      ≤ 310 * 20 * (1 + 1008 / Real.sqrt 10) * (1/2^53) * (504 / 10 / (Real.sqrt 10)^3) := by
  let _ : FloatOps (RF2 Props.C01c.awayRndR) :=
    rf2SqrtFloatOps Props.C01c.awayRndR Props.C01c.awaySqrt
  have hl : (exStream.length : ℝ) = 10 := by norm_num [exStream]
  have hu : Props.C01c.awayRndR.u = 1/2^53 := rfl
  have h3 := three_le_sqrt_ten
  have hq : T (exStream.map RF2.val) / (exStream.length : ℝ) = 10 := by
    rw [exStream_vals.1, hl]; norm_num
  have h := skewness_envelope_kappa Props.C01c.awaySqrt (rf2SqrtFloatOps_sqrtIs _ _)
    (rf2SqrtFloatOps_valEqb _ _) 1008 (by norm_num) exStream (by simp [exStream])
    (by intro x hx
        simp only [exStream, List.mem_cons, List.not_mem_nil, or_false] at hx
        rcases hx with rfl | rfl | rfl | rfl | rfl | rfl | rfl | rfl | rfl | rfl <;> norm_num)
    (by rw [hl, hu]; norm_num) (by rw [hq]; norm_num)
    (by rw [hq, hl, hu]; norm_num; linarith)
    (by rw [hq, hl, hu]
        have : 1008 / Real.sqrt 10 ≤ 336 := by
          rw [div_le_iff₀ (by linarith)]; linarith
        norm_num
        nlinarith)
  rw [hq, exStream_vals.2.1, exStream_vals.2.2, hl, hu] at h
  norm_num at h ⊢
  exact h

end Props.C03d

#print axioms Props.C03d.skewness_computed
#print axioms Props.C03d.skewness_exact_value
#print axioms Props.C03d.skewness_accessor_error_sharp
#print axioms Props.C03d.skewness_accessor_error_crude
#print axioms Props.C03d.skewness_shortcut_branch
#print axioms Props.C03d.skewness_factor_numerals
#print axioms Props.C03d.abs_U_le_V3
#print axioms Props.C03d.skewness_scale_ge_one
#print axioms Props.C03d.sum2_relative_error
#print axioms Props.C03d.skewness_stream_symbolic
#print axioms Props.C03d.skewness_envelope_kappa
#print axioms Props.C03d.skewness_envelope_kappa_wide
