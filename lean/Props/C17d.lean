import AvgProofs.HistVarErr
import Props.C08c
import Mathlib.Tactic.NormNum

/-!
# C17 (third addendum) - histogram bin variances and `effective_len` "up to rounding", proved

Carrier **R2** (`RF2 r`: every `+ - * /` is followed by a rounding with `|fl t - t| ≤ u|t|` - no overflow,
no underflow - and counts are converted exactly).

## Histogram bin variance

`Histogram::variance(i)` / `variances()` compute `multinomial_variance(n, 1/total) = n·(1 - n·(1/total))`:
four rounded operations `fl(k·fl(1 - fl(k·fl(1/N))))` on the exactly converted counts `k = bin[i]`,
`N = total`. In exact arithmetic the value lies in `[0, N/4]` (`Props.C17.multinomial_variance_in_range`).

Proved here for all counts `0 ≤ k ≤ N`, `N ≥ 1`:

* `bin_variance_rounded`: `-(2u+u²)(1+u)²·k ≤ variance ≤ (N/4)·((1+u)/(1-u))²`  (`u < 1`);
* `bin_variance_rounded_numerals` (`u ≤ 1/64`): `-3·u·N ≤ variance ≤ (N/4)(1 + 4u + 9u²) ≤ (N/4)(1 + 5u)`;
* `hist_variance_rounded`, `hist_variances_rounded`: the same for `variance(i)` and every entry of
  `variances()` of a non-empty histogram.

**On the constants of DESIGN.md section 5** (`[-4u·N, (N/4)(1+4u)]`). The lower end is proved with `3`
instead of `4` (so the clause holds); `2` is impossible in the standard model (`lower_two_fails`: `k = N = 1`,
all roundings away from zero give `-(2u+u²)(1+u)² < -2u`; in particular *negative values do occur in the
model* - the intermediate `fl(k·fl(1/N))` may exceed `1`). The upper end `(N/4)(1+4u)` is **not** provable from
the standard model: `upper_four_fails` gives a rounding with `|fl t - t| ≤ 2^-53|t|` for which `N = 2`, `k = 1`
yields `(N/4)(1 + 4u + 4u² - u⁴) > (N/4)(1 + 4u)`. The excess is of second order (`4u²` relative, i.e.
`2^-104`), far below anything a check in binary64 can see, and IEEE arithmetic does not realise the pattern
(`1/2` is exact); the smallest numerals that are provable are `1 + 4u + 9u²` (second-order form; the exact
bound is `((1+u)/(1-u))² = 1 + 4u + 8u² + …`) and `1 + 5u` (first-order form).

## `effective_len`

`effective_len_in_range_rounded` restates `Props.C08c.effective_len_range`: for add-only streams of `n`
observations with weights `≥ 0`, `Σw > 0`, `n·u ≤ 1/64`: `1 - 8·n·u ≤ effective_len ≤ len·(1 + 8·n·u)`, which
for `u = 2^-53` is "in `[1, len]` up to `n·2^-50` relative", the clause of the property;
`effective_len_in_range_rounded_mtree` is the same for every merge tree, with the number of roundings on the
longest path (`MTree.rounds`) in place of `n` in the tolerance.
-/
open Avg MSpec

namespace Props.C17d
variable {F : Type} [Field F] [LinearOrder F] [IsStrictOrderedRing F] {r : Rnd2 F}

/-! ## the bin variance -/

/-- What `multinomial_variance(k, 1/N)` computes at R2 for exactly converted counts:
`fl(k·fl(1 - fl(k·fl(1/N))))`. -/
theorem bin_variance_computed (k N : ℕ) :
    (multinomialVariance ((k : ℕ) : RF2 r) (((1:ℕ) : RF2 r) / ((N : ℕ) : RF2 r))).val
      = r.fl ((k : F) * r.fl (1 - r.fl ((k : F) * r.fl (1 / (N : F))))) :=
  multinomialVariance_val k N

/-- **Real counts.** For real `0 ≤ k ≤ N`, `N > 0` and any rounding with `u < 1`:
`-(2u+u²)(1+u)²·k ≤ fl(k·fl(1 - fl(k·fl(1/N)))) ≤ (N/4)·(1+u)²/(1-u)²`. -/
theorem bin_variance_rounded_real (r : Rnd2 F) (hu1 : r.u < 1) (k N : F) (hk0 : 0 ≤ k) (hkN : k ≤ N)
    (hN : 0 < N) :
    -((2 * r.u + r.u^2) * (1 + r.u)^2 * k) ≤ r.fl (k * r.fl (1 - r.fl (k * r.fl (1 / N)))) ∧
    r.fl (k * r.fl (1 - r.fl (k * r.fl (1 / N)))) ≤ N / 4 * ((1 + r.u)^2 / (1 - r.u)^2) :=
  multinomial_rounded_bounds r.fl r.u r.u_nonneg hu1 r.err k N hk0 hkN hN

/-- **Bin variance under rounding.** Counts `0 ≤ k ≤ N`, `N ≥ 1`, `u < 1`:
`-(2u+u²)(1+u)²·k ≤ variance ≤ (N/4)·(1+u)²/(1-u)²`. -/
theorem bin_variance_rounded (hu1 : r.u < 1) (k N : ℕ) (hN : 0 < N) (hk : k ≤ N) :
    -((2 * r.u + r.u^2) * (1 + r.u)^2 * (k : F))
      ≤ (multinomialVariance ((k : ℕ) : RF2 r) (((1:ℕ) : RF2 r) / ((N : ℕ) : RF2 r))).val ∧
    (multinomialVariance ((k : ℕ) : RF2 r) (((1:ℕ) : RF2 r) / ((N : ℕ) : RF2 r))).val
      ≤ (N : F) / 4 * ((1 + r.u)^2 / (1 - r.u)^2) :=
  multinomialVariance_rounded hu1 k N hN hk

/-- **With numerals**, `u ≤ 1/64`:  `-3·u·N ≤ variance ≤ (N/4)(1 + 4u + 9u²) ≤ (N/4)(1 + 5u)`. -/
theorem bin_variance_rounded_numerals (hu : r.u ≤ 1/64) (k N : ℕ) (hN : 0 < N) (hk : k ≤ N) :
    -(3 * r.u * (N : F))
      ≤ (multinomialVariance ((k : ℕ) : RF2 r) (((1:ℕ) : RF2 r) / ((N : ℕ) : RF2 r))).val ∧
    (multinomialVariance ((k : ℕ) : RF2 r) (((1:ℕ) : RF2 r) / ((N : ℕ) : RF2 r))).val
      ≤ (N : F) / 4 * (1 + 4 * r.u + 9 * r.u^2) ∧
    (multinomialVariance ((k : ℕ) : RF2 r) (((1:ℕ) : RF2 r) / ((N : ℕ) : RF2 r))).val
      ≤ (N : F) / 4 * (1 + 5 * r.u) :=
  multinomialVariance_rounded_num hu k N hN hk

/-- The clause of DESIGN.md section 5 with the upper constant `5` instead of `4`:
`variance ∈ [-4·u·N, (N/4)(1 + 5u)]` for `u ≤ 1/64`. -/
theorem bin_variance_design_clause (hu : r.u ≤ 1/64) (k N : ℕ) (hN : 0 < N) (hk : k ≤ N) :
    -(4 * r.u * (N : F))
      ≤ (multinomialVariance ((k : ℕ) : RF2 r) (((1:ℕ) : RF2 r) / ((N : ℕ) : RF2 r))).val ∧
    (multinomialVariance ((k : ℕ) : RF2 r) (((1:ℕ) : RF2 r) / ((N : ℕ) : RF2 r))).val
      ≤ (N : F) / 4 * (1 + 5 * r.u) := by
  obtain ⟨h1, _, h3⟩ := multinomialVariance_rounded_num hu k N hN hk
  refine ⟨le_trans ?_ h1, h3⟩
  have : 0 ≤ r.u * (N : F) := mul_nonneg r.u_nonneg (Nat.cast_nonneg _)
  linarith

section hist
variable [FloatOps (RF2 r)]

omit [FloatOps (RF2 r)] in
/-- `variance(i)` of a non-empty histogram is defined for every bin index and lies in
`[-3·u·total, (total/4)(1 + 4u + 9u²)]` (`u ≤ 1/64`). -/
theorem hist_variance_rounded (hu : r.u ≤ 1/64) (h : Hist (RF2 r)) (i : Nat) (hi : i < h.bin.length)
    (ht : 0 < h.total) :
    ∃ v, h.variance i = .val v ∧ -(3 * r.u * (h.total : F)) ≤ v.val
      ∧ v.val ≤ (h.total : F) / 4 * (1 + 4 * r.u + 9 * r.u^2) := by
  have hk : h.bin.getD i 0 ≤ h.total := by
    have := getD_le_foldl_add h.bin i 0; simpa [Hist.total] using this
  refine ⟨multinomialVariance ((h.bin.getD i 0 : Nat) : RF2 r) (((1:Nat) : RF2 r) / ((h.total : Nat) : RF2 r)),
    ?_, ?_⟩
  · simp only [Hist.variance, hi, if_true]
  · obtain ⟨h1, h2, _⟩ := multinomialVariance_rounded_num hu _ _ ht hk
    exact ⟨h1, h2⟩

/-- the same for every entry of `variances()` -/
theorem hist_variances_rounded (hu : r.u ≤ 1/64) (h : Hist (RF2 r)) (ht : 0 < h.total) :
    ∀ v ∈ h.variances, -(3 * r.u * (h.total : F)) ≤ v.val
      ∧ v.val ≤ (h.total : F) / 4 * (1 + 4 * r.u + 9 * r.u^2) := by
  intro v hv
  simp only [Hist.variances, Hist.iter, List.map_map, List.mem_map, List.mem_range] at hv
  obtain ⟨i, _, rfl⟩ := hv
  have hk : h.bin.getD i 0 ≤ h.total := by
    have := getD_le_foldl_add h.bin i 0; simpa [Hist.total] using this
  obtain ⟨h1, h2, _⟩ := multinomialVariance_rounded_num hu _ _ ht hk
  exact ⟨h1, h2⟩

/-! ## `effective_len` -/

/-- **`effective_len ∈ [1, len]` up to rounding** (add-only streams): `n` observations with weights `≥ 0`,
`Σw > 0`, `n·u ≤ 1/64`:  `1 - 8·n·u ≤ effective_len ≤ n·(1 + 8·n·u)`. -/
theorem effective_len_in_range_rounded (ps : List (RF2 r × RF2 r)) (hw : ∀ p ∈ ps, 0 ≤ p.2.val)
    (hpos : 0 < W (pairVals ps)) (hsmall : (ps.length : F) * r.u ≤ 1/64) :
    1 - 8 * (ps.length : F) * r.u
      ≤ (ps.foldl WeightedMeanWithError.addP WeightedMeanWithError.new).effectiveLen.val
    ∧ (ps.foldl WeightedMeanWithError.addP WeightedMeanWithError.new).effectiveLen.val
      ≤ (ps.length : F) * (1 + 8 * (ps.length : F) * r.u) :=
  let h := Props.C08c.effective_len_range ps hw hpos hsmall
  ⟨h.1, h.2.2⟩

/-- **The same through every merge tree**, with `R = MTree.rounds t` (`|chunk| + 1` at a leaf, one more per
merge level; `R ≤ n + merges + 1`) in place of `n` in the tolerance: weights `≥ 0`, `Σw > 0`, `R·u ≤ 1/64`:
`1 - 8·R·u ≤ effective_len ≤ n·(1 + 8·R·u)`. (`weight_sum_sq` merges by a plain rounded addition, also with an
empty operand, so the tolerance cannot be a function of `n` alone in the standard model.) -/
theorem effective_len_in_range_rounded_mtree (heq : ValEqb r) (t : MTree (RF2 r × RF2 r))
    (hw : ∀ p ∈ t.flatten, 0 ≤ p.2.val) (hpos : 0 < W (pairVals t.flatten))
    (hsmall : (t.rounds : F) * r.u ≤ 1/64) :
    1 - 8 * (t.rounds : F) * r.u ≤ (WeightedMeanWithError.evalTree t).effectiveLen.val
    ∧ (WeightedMeanWithError.evalTree t).effectiveLen.val
        ≤ (t.flatten.length : F) * (1 + 8 * (t.rounds : F) * r.u) :=
  Props.C08c.effective_len_mtree_range heq t hw hpos hsmall

end hist

/-! ## the constants cannot be lowered in the standard model -/

/-- an adversarial rounding with `|fl t - t| = 2^-53·|t|`: towards zero on `[0, 1/2]`, away from zero
elsewhere -/
def advRnd : Rnd2 ℚ :=
  ⟨fun t => if 0 ≤ t ∧ t ≤ 1/2 then t * (1 - 1/2^53) else t * (1 + 1/2^53), 1/2^53, by norm_num, fun t => by
    split
    · have : t * (1 - 1/2^53) - t = -(1/2^53) * t := by ring
      rw [this, abs_mul, abs_neg, abs_of_pos (by norm_num : (0:ℚ) < 1/2^53)]
    · have : t * (1 + 1/2^53) - t = (1/2^53) * t := by ring
      rw [this, abs_mul, abs_of_pos (by norm_num : (0:ℚ) < 1/2^53)]⟩

/-- **`(N/4)(1 + 4u)` is not provable in the standard model.** For the rounding `advRnd` (`u = 2^-53`) the
bin variance for `k = 1`, `N = 2` is `(N/4)(1 + 2u - u²)(1+u)²`, which exceeds `(N/4)(1 + 4u)`. -/
theorem upper_four_fails :
    advRnd.u = 1/2^53 ∧
    ((2:ℕ) : ℚ) / 4 * (1 + 4 * advRnd.u)
      < (multinomialVariance ((1 : ℕ) : RF2 advRnd) (((1:ℕ) : RF2 advRnd) / ((2 : ℕ) : RF2 advRnd))).val := by
  refine ⟨rfl, ?_⟩
  rw [multinomialVariance_val]
  simp only [advRnd]
  norm_num

/-- **The computed bin variance can be negative in the standard model, below `-2·u·N`.** For `advRnd` and
`k = N = 1` it is `-(2u+u²)(1+u)²`. -/
theorem lower_two_fails :
    (multinomialVariance ((1 : ℕ) : RF2 advRnd) (((1:ℕ) : RF2 advRnd) / ((1 : ℕ) : RF2 advRnd))).val
      < -(2 * advRnd.u * ((1:ℕ) : ℚ)) := by
  rw [multinomialVariance_val]
  simp only [advRnd]
  norm_num

/-! ## Non-vacuity -/

local instance : FloatOps (RF2 Props.C02b.awayRnd) := rf2FloatOps Props.C02b.awayRnd

/-- a histogram with three bins, counts `3, 0, 5` (total 8), under the rounding `awayRnd` that is never
exact: the hypotheses of `hist_variance_rounded` hold for every bin index -/
def exHist : Hist (RF2 Props.C02b.awayRnd) := ⟨[⟨0⟩, ⟨1⟩, ⟨2⟩, ⟨3⟩], [3, 0, 5]⟩

example : Props.C02b.awayRnd.u ≤ 1/64 ∧ 0 < exHist.total ∧ exHist.total = 8 ∧ exHist.bin.length = 3 := by
  refine ⟨by norm_num [Props.C02b.awayRnd], by decide, by decide, rfl⟩

/-- and the conclusion for bin 2 (`k = 5`, `N = 8`, exact value `15/8`): the computed variance is in
`[-3·2^-53·8, 2·(1 + 4·2^-53 + 9·2^-106)]` -/
example : ∃ v, exHist.variance 2 = .val v ∧ -(3 * (1/2^53) * 8) ≤ v.val
    ∧ v.val ≤ 8 / 4 * (1 + 4 * (1/2^53) + 9 * (1/2^53)^2) := by
  obtain ⟨v, h1, h2, h3⟩ := hist_variance_rounded (r := Props.C02b.awayRnd)
    (by norm_num [Props.C02b.awayRnd]) exHist 2 (by decide) (by decide)
  have ht : ((exHist.total : ℕ) : ℚ) = 8 := by
    have : exHist.total = 8 := by decide
    rw [this]; norm_num
  have hu : Props.C02b.awayRnd.u = 1/2^53 := rfl
  rw [ht, hu] at h2 h3
  exact ⟨v, h1, h2, h3⟩

end Props.C17d

#print axioms Props.C17d.bin_variance_computed
#print axioms Props.C17d.bin_variance_rounded_real
#print axioms Props.C17d.bin_variance_rounded
#print axioms Props.C17d.bin_variance_rounded_numerals
#print axioms Props.C17d.bin_variance_design_clause
#print axioms Props.C17d.hist_variance_rounded
#print axioms Props.C17d.hist_variances_rounded
#print axioms Props.C17d.effective_len_in_range_rounded
#print axioms Props.C17d.effective_len_in_range_rounded_mtree
#print axioms Props.C17d.upper_four_fails
#print axioms Props.C17d.lower_two_fails
