import AvgProofs.OrdCarrier
import AvgProofs.QuantileStep
import AvgProofs.QuantileInv
import AvgProofs.QuantileRange
import Mathlib.Data.Rat.Floor
import Mathlib.Algebra.Order.Ring.Rat
import Mathlib.Algebra.Field.Rat

/-!
# C05 - `Quantile` follows the P² algorithm exactly once five observations are in

Specification: `Avg.Spec.psqInit/psqStep/psqRun` (Jain & Chlamtac 1985, boxes A, B.1-B.3, the cell in its
order-free reading). `Quantile.toPSq s = ⟨s.q, s.n, s.m, s.dm, n[4]⟩` reads a model state as a P² state.

Carriers.
* any carrier `α` (no laws at all): box A, box B.3, `n[0]` and `n[4]` bookkeeping;
* O + order: any linear order `K`, any `FloatOps K` whose comparisons are the order's (`OrdLaws K`;
  every `ordFloatOps K ..` instance is one), `+ - * /` and the casts **arbitrary**: boxes B.1/B.2 and
  hence `add = psqStep` on sorted heights - "equal up to the rounding of the same arithmetic" read as
  "the same operations in the same order on any number system";
* E: ordered field, exact arithmetic: sortedness is an invariant, so the run equals `psqRun` outright.

`Sorted5 q` : `q.a0 ≤ q.a1 ≤ q.a2 ≤ q.a3 ≤ q.a4`; `StrictIncr5 n` : `n.a0 < n.a1 < ... < n.a4`.
-/
open Avg Avg.Spec
set_option linter.unusedSectionVars false

namespace Props.C05

/-! ## any carrier -/
section anyCarrier
variable {α : Type} [Add α] [Sub α] [Mul α] [Div α] [NatCast α] [IntCast α] [FloatOps α]

/-- Box B.3, any number system: one iteration of the marker-adjustment loop computes exactly the
heights and positions the paper's box B.3 prescribes for marker `i` (same operations, same order),
and leaves the desired positions and their increments alone. -/
theorem adjust_eq_psqAdjust (s : Quantile α) (i : Nat) :
    ((s.adjust i).q, (s.adjust i).n) = psqAdjust s.q s.n s.m i
    ∧ (s.adjust i).m = s.m ∧ (s.adjust i).dm = s.dm := by
  refine ⟨?_, adjust_m s i, adjust_dm s i⟩
  rw [Avg.adjust_eq_psqAdjust]

/-- Box A, any number system: after the first five observations fed to a freshly constructed
estimator the marker heights are the five observations sorted, the positions are 1,2,3,4,5 and the
desired positions and increments are those of the paper; the whole state is `psqInit p xs`. -/
theorem init_eq_psqInit (p : α) (s0 : Quantile α) (h0 : Quantile.new p = .val s0)
    (xs : List α) (hx : xs.length = 5) :
    (xs.foldl Quantile.add s0).toPSq = psqInit p xs
    ∧ (xs.foldl Quantile.add s0).q.toList = sortBy FloatOps.ordLt xs
    ∧ (xs.foldl Quantile.add s0).n = ⟨1, 2, 3, 4, 5⟩ := by
  rw [new_val h0]
  have h := init_fold5 p xs hx
  refine ⟨h, ?_, ?_⟩
  · have hq : (xs.foldl Quantile.add (Quantile.init p)).q = (psqInit p xs).q := congrArg PSq.q h
    rw [hq]
    have hl := sortBy_length (FloatOps.ordLt : α → α → Bool) xs
    rw [hx] at hl
    unfold psqInit
    generalize sortBy FloatOps.ordLt xs = l at hl
    match l, hl with
    | [_, _, _, _, _], _ => rfl
  · exact congrArg PSq.n h

/-- Marker 0 never moves and `n[4]` counts, any number system, any state in the second phase: one
more observation leaves `n[0]` alone and increases `n[4]` by one. (On the crate as found the first
claim is false: a new minimum incremented `n[0]`.) -/
theorem n0_eq_one (s : Quantile α) (x : α) (h5 : 5 ≤ s.n.a4) :
    (s.add x).n.a0 = s.n.a0 ∧ (s.add x).n.a4 = s.n.a4 + 1 :=
  ⟨add_n_a0 s x h5, add_n_a4 s x⟩

/-- ... hence for every stream of every length, on any number system, marker 0 sits at position 1
and `n[4]` is the number of observations. -/
theorem n0_eq_one_run (p : α) (s0 : Quantile α) (h0 : Quantile.new p = .val s0) (xs : List α) :
    (xs.foldl Quantile.add s0).n.a0 = 1 ∧ (xs.foldl Quantile.add s0).n.a4 = xs.length := by
  rw [new_val h0]
  induction xs using List.reverseRecOn with
  | nil => exact ⟨rfl, rfl⟩
  | append_singleton ys y ih =>
    rw [List.foldl_append, List.length_append]
    simp only [List.foldl_cons, List.foldl_nil, List.length_singleton]
    rw [add_n_a0_any, add_n_a4, ih.1, ih.2]
    exact ⟨rfl, by push_cast; rfl⟩

end anyCarrier

/-! ## linear order, arbitrary arithmetic -/
section order
variable {K : Type} [LinearOrder K] [FloatOps K] [OrdLaws K]
variable [Add K] [Sub K] [Mul K] [Div K] [NatCast K] [IntCast K]

/-- Boxes B.1/B.2: on sorted heights the code's cell search with `break` followed by
`for i in k..5 { n[i] += 1 }` is the paper's rule: the extreme markers absorb the observation, an
interior marker's position grows exactly when the observation is below its height, the maximum
marker's always, the minimum marker's never. -/
theorem cell_eq_spec (q : V5 K) (x : K) (n : V5 Int) (h : Sorted5 q) :
    (Quantile.cell q x).1 = psqHeights q x ∧ incrFrom (Quantile.cell q x).2 n = psqPositions q x n :=
  Avg.cell_eq_spec q x n h

/-- One observation from the sixth on, on every ordered carrier with arbitrary arithmetic: if the
heights are sorted, the model's `add` produces exactly the heights, positions and desired positions
of the P² step (`c` is the spec's sample counter, which its step does not read). -/
theorem add_eq_psqStep (s : Quantile K) (x : K) (h5 : 5 ≤ s.n.a4) (hs : Sorted5 s.q) (c : Nat) :
    ((s.add x).q, (s.add x).n, (s.add x).m)
      = ((psqStep ⟨s.q, s.n, s.m, s.dm, c⟩ x).q, (psqStep ⟨s.q, s.n, s.m, s.dm, c⟩ x).n,
         (psqStep ⟨s.q, s.n, s.m, s.dm, c⟩ x).np) := by
  have h := add_toPSq_eq_psqStep s x h5 hs
  have e1 : (s.add x).q = (psqStep s.toPSq x).q := congrArg PSq.q h
  have e2 : (s.add x).n = (psqStep s.toPSq x).n := congrArg PSq.n h
  have e3 : (s.add x).m = (psqStep s.toPSq x).np := congrArg PSq.np h
  rw [e1, e2, e3]
  rfl

/-- The same as an equation between whole P² states (with `n[4]` as the counter). -/
theorem add_toPSq_eq_psqStep (s : Quantile K) (x : K) (h5 : 5 ≤ s.n.a4) (hs : Sorted5 s.q) :
    (s.add x).toPSq = psqStep s.toPSq x :=
  Avg.add_toPSq_eq_psqStep s x h5 hs

/-- The minimum marker holds the running minimum: `q[0]` after one more observation is
`min q[0] x` (second phase, no sortedness needed). -/
theorem add_q0_eq_min (s : Quantile K) (x : K) (h5 : 5 ≤ s.n.a4) : (s.add x).q.a0 = min s.q.a0 x :=
  Avg.add_q0_eq_min s x h5

/-- The maximum marker holds the running maximum: `q[4]` after one more observation is
`max q[4] x` (second phase; needs only `q[0] ≤ q[4]`). -/
theorem add_q4_eq_max (s : Quantile K) (x : K) (h5 : 5 ≤ s.n.a4) (h04 : s.q.a0 ≤ s.q.a4) :
    (s.add x).q.a4 = max s.q.a4 x :=
  Avg.add_q4_eq_max s x h5 h04

/-- Steps compose: from any second-phase state, if the heights are sorted before each further
observation, the model run is the fold of the P² step. -/
theorem foldl_eq_psqStep_of_sorted (ys : List K) (s : Quantile K) (h5 : 5 ≤ s.n.a4)
    (hinv : ∀ k, k < ys.length → Sorted5 ((ys.take k).foldl Quantile.add s).q) :
    (ys.foldl Quantile.add s).toPSq = ys.foldl psqStep s.toPSq := by
  induction ys generalizing s with
  | nil => rfl
  | cons y ys ih =>
    simp only [List.foldl_cons]
    have hs : Sorted5 s.q := hinv 0 (by simp)
    rw [← Avg.add_toPSq_eq_psqStep s y h5 hs]
    apply ih
    · rw [add_n_a4]; omega
    · intro k hk
      have := hinv (k+1) (by simpa using hk)
      simpa using this

/-- Whole streams, every ordered carrier with arbitrary arithmetic: for every `p` accepted by `new`
and every stream of at least five observations, IF the marker heights are sorted after each prefix of
length 5, 6, ..., |xs|-1 (the invariant monitored on the implementation; a theorem in exact
arithmetic, see `run_sorted`), then the model's state after the stream - heights, positions, desired
positions, increments, count - is the state of the P² algorithm run on the same stream. -/
theorem run_eq_psqRun_of_sorted (p : K) (s0 : Quantile K) (h0 : Quantile.new p = .val s0)
    (xs : List K) (hlen : 5 ≤ xs.length)
    (hinv : ∀ k, 5 ≤ k → k < xs.length → Sorted5 ((xs.take k).foldl Quantile.add s0).q) :
    (xs.foldl Quantile.add s0).toPSq = psqRun p xs := by
  have hs0 := new_val h0
  subst hs0
  unfold psqRun
  have hsplit : xs = xs.take 5 ++ xs.drop 5 := (List.take_append_drop 5 xs).symm
  have ht : (xs.take 5).length = 5 := by simp; omega
  have hi := init_fold5 p (xs.take 5) ht
  have h4 : ((xs.take 5).foldl Quantile.add (Quantile.init p)).n.a4 = 5 := by
    have := congrArg (fun t => t.n.a4) hi
    simpa [Quantile.toPSq, psqInit] using this
  conv_lhs => rw [hsplit, List.foldl_append]
  rw [← hi]
  apply foldl_eq_psqStep_of_sorted
  · omega
  · intro k hk
    rw [← List.foldl_append, ← List.take_add]
    apply hinv (5 + k) (by omega)
    simp at hk; omega

end order

/-! ## exact arithmetic -/
section field
variable {K : Type} [Field K] [LinearOrder K] [IsStrictOrderedRing K] [FloatOps K] [OrdLaws K]

/-- Box B.3 in exact arithmetic keeps heights sorted and positions strictly increasing: the
parabolic value is accepted only strictly between the neighbours; the linear value moves marker `i`
towards a neighbour by `gap / Δn` with `|Δn| ≥ 2`. -/
theorem adjust_sorted (s : Quantile K) {i : Nat} (hi : i = 1 ∨ i = 2 ∨ i = 3)
    (hq : Sorted5 s.q) (hn : StrictIncr5 s.n) :
    Sorted5 (s.adjust i).q ∧ StrictIncr5 (s.adjust i).n :=
  adjust_inv s hi hq hn

/-- One observation in the second phase keeps heights sorted and positions strictly increasing. -/
theorem add_sorted (s : Quantile K) (x : K) (h5 : 5 ≤ s.n.a4) (hq : Sorted5 s.q) (hn : StrictIncr5 s.n) :
    Sorted5 (s.add x).q ∧ StrictIncr5 (s.add x).n :=
  add_inv s x h5 hq hn

/-- Exact arithmetic, every stream of at least five observations: the heights are sorted and the
positions strictly increasing after the stream. -/
theorem run_sorted (p : K) (s0 : Quantile K) (h0 : Quantile.new p = .val s0) (xs : List K)
    (hlen : 5 ≤ xs.length) :
    Sorted5 (xs.foldl Quantile.add s0).q ∧ StrictIncr5 (xs.foldl Quantile.add s0).n := by
  rw [new_val h0]
  exact ⟨(run_inv p xs hlen).1, (run_inv p xs hlen).2.1⟩

/-- Exact arithmetic: for every `p` in [0,1] and every stream of at least five observations the model
run IS the P² run - no side condition. -/
theorem run_eq_psqRun (p : K) (s0 : Quantile K) (h0 : Quantile.new p = .val s0) (xs : List K)
    (hlen : 5 ≤ xs.length) :
    (xs.foldl Quantile.add s0).toPSq = psqRun p xs := by
  apply run_eq_psqRun_of_sorted p s0 h0 xs hlen
  intro k hk hk'
  exact (run_sorted p s0 h0 (xs.take k) (by simp; omega)).1

/-- ... in particular `quantile()` is the height of P²'s middle marker. -/
theorem quantile_eq_psqRun (p : K) (s0 : Quantile K) (h0 : Quantile.new p = .val s0) (xs : List K)
    (hlen : 5 ≤ xs.length) :
    (xs.foldl Quantile.add s0).quantile = (psqRun p xs).q.a2 := by
  have h := run_eq_psqRun p s0 h0 xs hlen
  have hn := (n0_eq_one_run p s0 h0 xs).2
  have hq : (xs.foldl Quantile.add s0).q = (psqRun p xs).q := congrArg PSq.q h
  rw [← hq]
  unfold Quantile.quantile Quantile.len
  rw [hn]
  simp [hlen]

end field

/-! ## the hypotheses are satisfiable -/
section examples

/-- ℤ with its order, truncating division, and junk for the rest: an O-level carrier -/
@[reducible] def intOps : FloatOps Int := ordFloatOps Int 0 0 0 id id id
/-- ℚ with its order and ceiling: an E-level carrier -/
@[reducible] def ratOps : FloatOps ℚ := ordFloatOps ℚ 0 0 0 id id (fun x => ⌈x⌉)

attribute [local instance] intOps ratOps
local instance : OrdLaws Int := ordFloatOps_laws Int 0 0 0 id id id
local instance : OrdLaws ℚ := ordFloatOps_laws ℚ 0 0 0 id id (fun x => ⌈x⌉)

/-- `add_eq_psqStep`: a second-phase state with sorted heights -/
example : let s : Quantile Int := ⟨⟨1, 2, 3, 4, 5⟩, ⟨1, 2, 3, 4, 5⟩, ⟨1, 3, 5, 5, 5⟩, ⟨0, 0, 1, 1, 1⟩⟩
    5 ≤ s.n.a4 ∧ Sorted5 s.q := by
  refine ⟨by decide, ?_⟩
  unfold Sorted5; decide

/-- the regression witness of the `fix:` commit, 5,4,3,2,1,0 (every observation a new minimum):
marker 0 stays at position 1 and holds the minimum -/
example : (([5, 4, 3, 2, 1, 0] : List Int).foldl Quantile.add (Quantile.init 1)).n.a0 = 1
    ∧ (([5, 4, 3, 2, 1, 0] : List Int).foldl Quantile.add (Quantile.init 1)).q.a0 = 0 := by decide

/-- `new` accepts p = 1/2 over ℚ, and the sortedness hypothesis of `run_eq_psqRun_of_sorted` holds
for the strictly decreasing stream 20, 19, ..., 1 (it holds for every stream, by `run_sorted`). -/
example : ∃ s0, Quantile.new (1/2 : ℚ) = .val s0 ∧
    ∀ k, 5 ≤ k → k < ((List.range 20).map (fun i => (20 - i : ℚ))).length →
      Sorted5 ((((List.range 20).map (fun i => (20 - i : ℚ))).take k).foldl Quantile.add s0).q := by
  have hnew : Quantile.new (1/2 : ℚ) = .val (Quantile.init (1/2)) := by
    rw [new_eq]
    have : (fle ((0:Nat):ℚ) (1/2) && fle (1/2) ((1:Nat):ℚ)) = true := by
      simp only [Bool.and_eq_true, fle_iff]; norm_num
    rw [if_pos this]
  refine ⟨_, hnew, fun k hk hk' => ?_⟩
  exact (run_sorted _ _ hnew _ (by simp at hk' ⊢; omega)).1

end examples

end Props.C05

#print axioms Props.C05.adjust_eq_psqAdjust
#print axioms Props.C05.init_eq_psqInit
#print axioms Props.C05.n0_eq_one
#print axioms Props.C05.n0_eq_one_run
#print axioms Props.C05.cell_eq_spec
#print axioms Props.C05.add_eq_psqStep
#print axioms Props.C05.add_toPSq_eq_psqStep
#print axioms Props.C05.add_q0_eq_min
#print axioms Props.C05.add_q4_eq_max
#print axioms Props.C05.foldl_eq_psqStep_of_sorted
#print axioms Props.C05.run_eq_psqRun_of_sorted
#print axioms Props.C05.adjust_sorted
#print axioms Props.C05.add_sorted
#print axioms Props.C05.run_sorted
#print axioms Props.C05.run_eq_psqRun
#print axioms Props.C05.quantile_eq_psqRun
