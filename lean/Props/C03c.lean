import AvgProofs.KurtErrV4Hardy
import Props.C03b
import Mathlib.Analysis.Real.Sqrt
import Mathlib.Tactic.NormNum

/-!
# C03 (second addendum) - forward error of the fourth-order sum `sum_4` of `Kurtosis`, all stream lengths

The analogue of `Props.C03b` one order higher: the state component `sum_4` of `Kurtosis` (from which
`kurtosis()` is computed) stays close to the exact `Q = Σ(x - mean)⁴`, *proved* for add-only streams of
every length.

Carrier **R2** (`RF2 r`, `AvgProofs/MeanErr2.lean`): an ordered field `F` in which every `+ - * /` is
followed by a rounding `r.fl` with `|fl t - t| ≤ u·|t|` (standard model of floating-point arithmetic: no
overflow, no underflow); conversions of counts are exact. Notation: `n` the number of observations,
`M ≥ max|x_i|`, `mean vs = Σx/n`, `T = Σ(x - mean)²` (`VarSpec.T`), `U = Σ(x - mean)³` (`SkewSpec.U`),
`Q = Σ(x - mean)⁴` (`KurtSpec.Q`), `d_i = x_i - mean(x_0..x_{i-1})` (`VarSpec.dev`), `T_i`, `U_i`, `V3p_i`,
`W_i` the quantities of the prefix `x_0..x_{i-1}`, `c_i = i(i²-i+1)/(i+1)³` (`KurtSpec.cQ`),
`γ_j = (1+u)^j - 1`.

What `Kurtosis.add` computes for `sum_4` (`sum4_computed_update`; `k` the new count, `a`, `S2`, `S3` the
computed mean, `sum_2`, `sum_3` *before* the observation):
`δ = fl(x - a)`, `δn = fl(δ/k)`, `term = fl(fl(δ·δn)·fl(k-1))`, `δn² = fl(δn·δn)`,
`P = fl(fl(fl(k·k) - fl(3·k)) + 3)`, `A = fl(fl(term·δn²)·P)`, `B = fl(fl(6·δn²)·S2)`, `C = fl(fl(4·δn)·S3)`,
`S4' = fl(S4 + fl(fl(A + B) - C))`; then `Skewness.add_inner` updates the lower components
(`inner_skewness_bitwise`: these are bit for bit those of `Skewness`, so `Props.C03b` and `Props.C01b` apply).
The exact quantity obeys (`sum4_exact_recurrence`)
`Q_k = Q_{k-1} + d⁴·(k-1)(k²-3k+3)/k³ + 6·d²·T_{k-1}/k² - 4·d·U_{k-1}/k`.
The last part may be of either sign and as large as the others, and the rounded operations `A + B`, `· - C`
commit errors relative to `|A| + |B|` and `|A + B| + |C|`, so the scale of the rounding errors is not `Q` but
`V4p = Σ_i ( d_i⁴·c_i + 6·d_i²·T_i/(i+1)² + 4·|d_i|·|U_i|/(i+1) )` (`V4p_def`; `0 ≤ Q ≤ V4p`: `Q_le_V4p`);
moreover the computed `sum_3` enters with *its* rounding errors, whose scale is `V3p_i ≥ |U_i|`
(`Props.C03b`), which brings in `VD4 = Σ_i 4·|d_i|·V3p_i/(i+1) ≥ VC4` (`VD4_def`).

A point specific to this order: the factor `k² - 3k + 3` is computed by a *cancelling* rounded subtraction
(`k·k - 3·k` is `-2, -2, 0, 4, …`). In the standard model (which does not know that small integers are
exact) its error is `γ3·(k² + 3k + 3)` (`polynomial_rounding_error`), i.e. up to `13·γ3` relative to
`k² - 3k + 3` (worst at `k = 2`); this is why `A` costs `γ52` (`incrementA_rounding_error`) although it is
the result of only 12 rounded operations.

Main results (`u` unit roundoff, `N = n + 10`, `R₀² ≥ n·T`, `S₀² ≥ T`; hypothesis `(n+28)·u ≤ 1/64`):

* `sum4_step_error` - one step, explicit in the errors `e` of the mean, `D2` of `sum_2`, `D3` of `sum_3`.
* `sum4_forward_error_general` - the induction for arbitrary bounds `E_i`, `F_i`, `H_i` on the errors of the
  mean, `sum_2`, `sum_3` of the prefixes; no hypothesis on the data.
* `prefix_bounds` - the hypotheses hold with the `E_i`, `F_i` of `Props.C01b`/`C03b` and
  `H_i = 7(i+10)u·V3p_i + 11(i+10)u·M·T_i + 13u·M·R₀·W_i + 30(i+10)²u²M²R₀ + 16(i+10)⁴u³M³`
  (`sum3_forward_error_W`: `Props.C03b.sum3_forward_error` with `W_i = Σ_{j<i}|d_j|·j/(j+1)` kept instead of
  its Cauchy-Schwarz bound, so that the bound grows with the length of the prefix).
* `sum4_forward_error`:  `|sum_4 - Q| ≤ 8·N·u·(V4p + VD4) + (9/4)·N·u·M·VR + 29·N·u·M·V3p + 230·u·M·R₀·T
     + 1650·N·u²M²R₀² + 138·N²u²M²T + 2550·N³u³M³R₀ + 970·N⁵u⁴M⁴`, `VR = Σ|d_i|³·i/(i+1)`.
* `scale_closed_bounds`: `VA4 ≤ 4M²T`, `VB4 ≤ 3T²`, `VC4 ≤ VD4 ≤ 4·V3p·S₀`, `VR ≤ 2M·T`,
  `V4p + VD4 ≤ 4M²T + 3T² + 16·M·T·S₀ + 24·T·S₀²`;  `sum4_forward_error_closed`: these inserted
  (crude: quadratic in `M`).
* `sum4_envelope`: if `T ≤ n·σ²` and `N·u·M ≤ σ` then
  `|sum_4 - Q| ≤ 8·N·u·(V4p + VD4) + (9/4)·N·u·M·VR + 29·N·u·M·V3p + 5538·N²·u·M·σ³`.
* `moment_inequalities`: `VR ≤ (35/2)·V3`, `V3² ≤ T·Q`, `T² ≤ n·Q`, and `σ·V3 ≤ Q`, `n·σ⁴ ≤ Q` for `n·σ² ≤ T`.
* `sum4_envelope_Q`: for `σ > 0`, `n·σ² = T`, `N·u·M ≤ σ`:
  `|sum_4 - Q| ≤ N·u·( 8·(V4p + VD4) + (1200 + 5538·N/n)·(M/σ)·Q )`, and `sum4_envelope_kappa` (ℝ,
  `n ≥ 10`, `σ = sqrt(T/n)`, `κ = 1 + M/σ`):  **`|sum_4 - Q| ≤ 12276·N·κ·u·(V4p + VD4)`** - the shape
  `C·n·κ·u·scale` of the envelope clause of C03, for the state component `sum_4` with the scale `V4p + VD4`
  (the constant is that of the inequalities used, far from the measured one): the error is **linear** in
  the conditioning `M/σ`.
* `scales_le_Q`: `V4p + VD4 ≤ 16516·Q` for every stream, no hypothesis on the data (by Hardy's and Copson's
  inequalities for the exponent 4, `hardy_fourth`, `copson_fourth`, Hardy's inequality for the exponent 2
  and the power-mean inequality `power_mean_cube`, all proved here in any ordered field). Hence
  `sum4_envelope_rel`, `sum4_relative_error_kappa`: for `n ≥ 10`, `σ = sqrt(T/n) > 0`, `κ = 1 + M/σ`,
  `(n+10)·u·M ≤ σ`:  **`|sum_4 - Q| ≤ 132128·(n+10)·κ·u·Q`** - a bound of the *relative* error of `sum_4`
  (`Q ≥ 0` is its own scale; the constant is the product of those of the inequalities used: `8·16516`).

How: the error `e` of the mean perturbs `d⁴c` by `c(-4d³e + 6d²e² - 4de³ + e⁴)`, `6d²T/k²` by
`(6/k²)(-2de + e²)T` and `4dU/k` by `-4eU/k`; the errors `D2`, `D3` enter through `6(d-e)²D2/k²` and
`4(d-e)D3/k`. With `|e_i| ≲ u·M·i/2`, `|D2_i| ≲ i·u·(5.45·T_i + 3.95·M·R₀)` (`Props.C01b`) and the `H_i`
above, the sums are bounded through `Σ d_i²·i/(i+1) = T`, `Σ|d_i|·i/(i+1) ≤ sqrt(n·T)`,
`Σ i·(6d_i²T_i/(i+1)²) ≤ n·VB4`, and, for the `W_i`-part of `H_i`, Hardy's inequality for the exponent 2
(`hardy_square`, proved here in any ordered field): `Σ_i (|d_i|/(i+1))·W_i ≤ 4·T` (`double_sum_le`).

Not covered (open): the accessor `kurtosis()` itself (a quotient of `sum_4` and `sum_2²`; the carrier R2
would do, no square root is involved, but the error of `sum_2²` in the denominator has to be carried),
merge trees; sharp constants (16516 in `V4p + VD4 ≤ 16516·Q` is dominated by `VD4`, where the factors 40 of
`V3p ≤ 40·V3`, 8 of the change of centre and `4⁴` of Copson's inequality multiply; for typical data
`V4p + VD4` is a small multiple of `Q`; the second-order constants 1650, 2550, 970 contain a factor 11 from
`(i+10) ≤ 11·i`).
-/
open Avg MSpec Finset VarSpec SkewSpec KurtSpec SkewErr KurtErr

namespace Props.C03c

/-! ## bit-for-bit: the inner estimator; exact side -/

/-- Any carrier (floating point included), bit for bit: the `Skewness` kept inside `Kurtosis` after adding
the observations one at a time is the `Skewness` fed the same observations. Hence every statement of
`Props.C03b` about `sum_3` (and of `Props.C01b` about the running mean and `sum_2`) holds for the components
of `Kurtosis`. -/
theorem inner_skewness_bitwise {α : Type} [Add α] [Sub α] [Mul α] [Div α] [NatCast α] (xs : List α) :
    (xs.foldl Kurtosis.add Kurtosis.new).avg = xs.foldl Skewness.add Skewness.new := by
  rw [Kurtosis.fold_avg]; rfl

variable {F : Type} [Field F] [LinearOrder F] [IsStrictOrderedRing F]

omit [LinearOrder F] [IsStrictOrderedRing F] in
/-- `Q` is the exact sum of fourth powers of the deviations from the exact mean. -/
theorem Q_def (vs : List F) : Q vs = sumPow vs (mean vs) 4 := rfl

/-- In exact arithmetic `sum_4` *is* `Q` (via `MSpec.kurtosis_fold`). -/
theorem sum4_exact (vs : List F) : (vs.foldl Kurtosis.add Kurtosis.new).sum_4 = Q vs := by
  rw [MSpec.kurtosis_fold]; rfl

/-- Exact recurrence of the fourth-order sum: one more observation `x` after `n` observations `vs` adds
`d⁴·n(n²-n+1)/(n+1)³ + 6·d²·T(vs)/(n+1)² - 4·d·U(vs)/(n+1)`, `d = x - mean vs`. -/
theorem sum4_exact_recurrence (vs : List F) (x : F) :
    Q (vs ++ [x]) = Q vs + ((x - mean vs)^4 * ((vs.length : F) * ((vs.length : F)^2 - vs.length + 1)
        / ((vs.length : F) + 1)^3)
      + 6 * (x - mean vs)^2 * T vs / ((vs.length : F) + 1)^2
      - 4 * (x - mean vs) * U vs / ((vs.length : F) + 1)) :=
  Q_snoc vs x

/-- The same in terms of the new count `k = n + 1`:
`Q_k = Q_{k-1} + d⁴·(k-1)(k²-3k+3)/k³ + 6·d²·T_{k-1}/k² - 4·d·U_{k-1}/k`. -/
theorem sum4_exact_recurrence_count (vs : List F) (x k : F) (hk : k = (vs.length : F) + 1) :
    Q (vs ++ [x]) = Q vs + ((x - mean vs)^4 * ((k - 1) * (k^2 - 3 * k + 3) / k^3)
      + 6 * (x - mean vs)^2 * T vs / k^2 - 4 * (x - mean vs) * U vs / k) := by
  subst hk
  rw [Q_snoc]
  have : cQ vs.length = ((vs.length : F) + 1 - 1) * (((vs.length : F) + 1)^2 - 3 * ((vs.length : F) + 1) + 3)
      / ((vs.length : F) + 1)^3 := by
    unfold cQ; congr 1; ring
  rw [this]

omit [IsStrictOrderedRing F] in
/-- The natural scale: the sum over the stream of the absolute values of the three parts of the exact
increments. -/
theorem V4p_def (vs : List F) :
    V4p vs = ∑ i ∈ range vs.length,
        (dev vs i)^4 * ((i : F) * ((i : F)^2 - (i : F) + 1) / ((i : F) + 1)^3)
      + ∑ i ∈ range vs.length, 6 * (dev vs i)^2 * T (vs.take i) / ((i : F) + 1)^2
      + ∑ i ∈ range vs.length, 4 * |dev vs i| * |U (vs.take i)| / ((i : F) + 1) := rfl

/-- `0 ≤ Σ(x - mean)⁴ ≤ V4p`, and `V4p` never decreases when an observation is added. -/
theorem Q_le_V4p (vs : List F) (x : F) :
    0 ≤ Q vs ∧ |Q vs| ≤ V4p vs ∧ V4p vs ≤ V4p (vs ++ [x]) :=
  ⟨Q_nonneg vs, abs_Q_le vs, V4p_mono vs x⟩

omit [IsStrictOrderedRing F] in
/-- The second scale: the rounding errors of the computed `sum_3` are relative to `V3p` of the prefix
(`Props.C03b`), not to `|U|`; `VR` collects `|d_i|³·i/(i+1)`. -/
theorem VD4_def (vs : List F) :
    VD4 vs = ∑ i ∈ range vs.length, 4 * |dev vs i| * V3p (vs.take i) / ((i : F) + 1)
    ∧ VR vs = ∑ i ∈ range vs.length, |dev vs i|^3 * ((i : F) / ((i : F) + 1)) := ⟨rfl, rfl⟩

/-! ## one step -/

/-- What `Kurtosis.add` computes for `sum_4` at the carrier R2, operation by operation (nineteen rounded
operations, two of them - `δ` and `δn` - shared with the update of the mean; `k - 1` is a rounded subtraction
of exactly converted counts, `3`, `6`, `4` are exact conversions; `sum_2` and `sum_3` are the values
*before* the observation). -/
theorem sum4_computed_update (r : Rnd2 F) (s : Kurtosis (RF2 r)) (x : RF2 r) :
    let k : F := ((s.avg.avg.avg.n + 1 : ℕ) : F)
    let δ := r.fl (x.val - s.avg.avg.avg.avg.val)
    let δn := r.fl (δ / k)
    let term := r.fl (r.fl (δ * δn) * r.fl (k - 1))
    let δn2 := r.fl (δn * δn)
    let P := r.fl (r.fl (r.fl (k * k) - r.fl (3 * k)) + 3)
    (s.add x).sum_4.val =
      r.fl (s.sum_4.val + r.fl (r.fl (r.fl (r.fl (term * δn2) * P)
          + r.fl (r.fl (6 * δn2) * s.avg.avg.sum_2.val)) - r.fl (r.fl (4 * δn) * s.avg.sum_3.val))) := by
  intro k δ δn term δn2 P
  exact sum4_add_val r s x

/-- The factor `k·k - 3·k + 3`: three rounded operations, of which the subtraction cancels.
`|P - (k²-3k+3)| ≤ γ3·(k²+3k+3)` for `k ≥ 0`; for a count `k = i + 1` this is at most
`γ39·(k²-3k+3)` (`k²+3k+3 ≤ 13·(k²-3k+3)`, equality at `k = 2`; `13·γ3 ≤ γ39`). -/
theorem polynomial_rounding_error (r : Rnd2 F) :
    (∀ k : F, 0 ≤ k →
      |r.fl (r.fl (r.fl (k * k) - r.fl (3 * k)) + 3) - (k * k - 3 * k + 3)|
        ≤ ((1 + r.u)^3 - 1) * (k * k + 3 * k + 3)) ∧
    (∀ i : ℕ,
      |r.fl (r.fl (r.fl (((i : F) + 1) * ((i : F) + 1)) - r.fl (3 * ((i : F) + 1))) + 3)
          - (((i : F) + 1) * ((i : F) + 1) - 3 * ((i : F) + 1) + 3)|
        ≤ ((1 + r.u)^39 - 1) * |((i : F) + 1) * ((i : F) + 1) - 3 * ((i : F) + 1) + 3|) :=
  ⟨fun k hk => poly_abs_err r.fl r.u r.u_nonneg r.err k hk,
   fun i => poly_RE r.fl r.u r.u_nonneg r.err _ (by positivity) (poly_ratio i)⟩

/-- The computed `A = fl(fl(term·δn²)·P)` is within relative error `(1+u)^52 - 1` of
`(x-a)⁴(k-1)(k²-3k+3)/k³` for every count `k = i + 1`. -/
theorem incrementA_rounding_error (r : Rnd2 F) (x a : F) (i : ℕ) :
    let k : F := (i : F) + 1
    |r.fl (r.fl (r.fl (r.fl (r.fl (x - a) * r.fl (r.fl (x - a) / k)) * r.fl (k - 1))
            * r.fl (r.fl (r.fl (x - a) / k) * r.fl (r.fl (x - a) / k)))
          * r.fl (r.fl (r.fl (k * k) - r.fl (3 * k)) + 3))
        - (x - a)^4 * ((k - 1) * (k * k - 3 * k + 3) / k^3)|
      ≤ ((1 + r.u)^52 - 1) * |(x - a)^4 * ((k - 1) * (k * k - 3 * k + 3) / k^3)| := by
  intro k
  exact kurt_incrA_RE r.fl r.u r.u_nonneg r.err x a k (by positivity) (poly_ratio i)

/-- The computed `B = fl(fl(6·δn²)·S2)` is within relative error `(1+u)^7 - 1` of `6·((x-a)/k)²·S2`. -/
theorem incrementB_rounding_error (r : Rnd2 F) (x a k S2 : F) :
    |r.fl (r.fl (6 * r.fl (r.fl (r.fl (x - a) / k) * r.fl (r.fl (x - a) / k))) * S2)
        - 6 * ((x - a) / k * ((x - a) / k)) * S2|
      ≤ ((1 + r.u)^7 - 1) * |6 * ((x - a) / k * ((x - a) / k)) * S2| :=
  kurt_incrB_RE r.fl r.u r.u_nonneg r.err x a k S2

/-- The computed `C = fl(fl(4·δn)·S3)` is within relative error `(1+u)^4 - 1` of `4·((x-a)/k)·S3`. -/
theorem incrementC_rounding_error (r : Rnd2 F) (x a k S3 : F) :
    |r.fl (r.fl (4 * r.fl (r.fl (x - a) / k)) * S3) - 4 * ((x - a) / k) * S3|
      ≤ ((1 + r.u)^4 - 1) * |4 * ((x - a) / k) * S3| :=
  kurt_incrC_RE r.fl r.u r.u_nonneg r.err x a k S3

/-- The two inner operations `fl(fl(A + B) - C)`: if `A`, `B`, `C` approximate `A0`, `B0`, `C0` with
relative errors `γ_i`, `γ_j`, `γ_l`, the result is within `γ_{i+2}·|A0| + γ_{j+2}·|B0| + γ_{l+1}·|C0|` of
`A0 + B0 - C0` (relative to the sum of the absolute values of the operands, not to the result). -/
theorem inner_operations_rounding_error (r : Rnd2 F) (i j l : ℕ) (A A0 B B0 C C0 : F)
    (hA : |A - A0| ≤ ((1 + r.u)^i - 1) * |A0|) (hB : |B - B0| ≤ ((1 + r.u)^j - 1) * |B0|)
    (hC : |C - C0| ≤ ((1 + r.u)^l - 1) * |C0|) :
    |r.fl (r.fl (A + B) - C) - (A0 + B0 - C0)|
      ≤ ((1 + r.u)^(i + 2) - 1) * |A0| + ((1 + r.u)^(j + 2) - 1) * |B0|
        + ((1 + r.u)^(l + 1) - 1) * |C0| :=
  round_addsub_error r.fl r.u r.u_nonneg r.err hA hB hC

/-- `(1+u)^54 - 1 ≤ 55·u`, `(1+u)^9 - 1 ≤ 9.1·u`, `(1+u)^5 - 1 ≤ 5.1·u` for `u ≤ 1/1856`. -/
theorem roundings_54_9_5 (u : F) (hu : 0 ≤ u) (h : u ≤ 1/1856) :
    (1 + u)^54 - 1 ≤ 55 * u ∧ (1 + u)^9 - 1 ≤ 91/10 * u ∧ (1 + u)^5 - 1 ≤ 51/10 * u :=
  ⟨g54_le u hu h, g9_le u hu h, g5_le u hu h⟩

/-- **One step of the error recurrence.** `S4`, `S3`, `S2`, `a`: computed sums and mean before the step;
`Qv`, `Uv`, `Tv ≥ 0`, `μ`: their exact counterparts; `k > 0` a count (`k²+3k+3 ≤ 13(k²-3k+3)`,
`c = (k-1)(k²-3k+3)/k³ ≥ 0`: true for every `k = 1, 2, …`); `d = x - μ`, `e = a - μ`, `D2 = S2 - Tv`,
`D3 = S3 - Uv`; exact increment `d⁴c + 6d²Tv/k² - 4dUv/k`:
`|S4' - Q'| ≤ (1+u)·(|S4 - Qv| + γ54·|d⁴c| + γ9·|6d²Tv/k²| + γ5·|4dUv/k|
      + (1+γ54)·c·(4|d|³|e| + 6d²e² + 4|d||e|³ + e⁴)
      + (1+γ9)·(6/k²)·(d²|D2| + (2|d||e| + e²)(Tv + |D2|))
      + (1+γ5)·(4/k)·(|d||D3| + |e||Uv| + |e||D3|)) + u·|Q'|`. -/
theorem sum4_step_error (r : Rnd2 F) (x a μ S2 Tv S3 Uv S4 Qv k : F) (hk : 0 < k)
    (hq : k * k + 3 * k + 3 ≤ 13 * (k * k - 3 * k + 3))
    (hc : 0 ≤ (k - 1) * (k * k - 3 * k + 3) / k^3) (hT : 0 ≤ Tv) :
    let δn := r.fl (r.fl (x - a) / k)
    let A := r.fl (r.fl (r.fl (r.fl (r.fl (x - a) * δn) * r.fl (k - 1)) * r.fl (δn * δn))
      * r.fl (r.fl (r.fl (k * k) - r.fl (3 * k)) + 3))
    let B := r.fl (r.fl (6 * r.fl (δn * δn)) * S2)
    let C := r.fl (r.fl (4 * δn) * S3)
    let c := (k - 1) * (k * k - 3 * k + 3) / k^3
    let Q' := Qv + ((x - μ)^4 * c + 6 * (x - μ)^2 * Tv / k^2 - 4 * (x - μ) * Uv / k)
    |r.fl (S4 + r.fl (r.fl (A + B) - C)) - Q'|
      ≤ (1 + r.u) * (|S4 - Qv| + ((1 + r.u)^54 - 1) * |(x - μ)^4 * c|
          + ((1 + r.u)^9 - 1) * |6 * (x - μ)^2 * Tv / k^2|
          + ((1 + r.u)^5 - 1) * |4 * (x - μ) * Uv / k|
          + (1 + ((1 + r.u)^54 - 1)) * (c * (4 * |x - μ|^3 * |a - μ| + 6 * (x - μ)^2 * (a - μ)^2
              + 4 * |x - μ| * |a - μ|^3 + (a - μ)^4))
          + (1 + ((1 + r.u)^9 - 1)) * (6 / k^2 * ((x - μ)^2 * |S2 - Tv|
              + (2 * |x - μ| * |a - μ| + (a - μ)^2) * (Tv + |S2 - Tv|)))
          + (1 + ((1 + r.u)^5 - 1)) * (4 / k
              * (|x - μ| * |S3 - Uv| + |a - μ| * |Uv| + |a - μ| * |S3 - Uv|)))
        + r.u * |Q'| :=
  kurt_step_error r.fl r.u r.u_nonneg r.err x a μ S2 Tv S3 Uv S4 Qv k hk hq hc hT

/-! ## all stream lengths -/

/-- **General form.** For every stream `xs`: if `E i ≥ 0` bounds the error of the running mean, `F' i ≥ 0`
the error of the computed `sum_2` and `H i ≥ 0` the error of the computed `sum_3` after `i` observations
(for every prefix of `xs`), then
`|sum_4 - Q| ≤ (1+u)^n·( Σ_{i<n} [ γ54·d_i⁴c_i + γ9·6d_i²T_i/(i+1)² + γ5·4|d_i||U_i|/(i+1)
     + (1+γ54)·c_i·(4|d_i|³E_i + 6d_i²E_i² + 4|d_i|E_i³ + E_i⁴)
     + (1+γ9)·(6/(i+1)²)·(d_i²F'_i + (2|d_i|E_i + E_i²)(T_i + F'_i))
     + (1+γ5)·(4/(i+1))·(|d_i|H_i + E_i|U_i| + E_i·H_i) ] + n·u·V4p )`.
No bound on the data is needed here. -/
theorem sum4_forward_error_general (r : Rnd2 F) (E F' H : ℕ → F) (hE0 : ∀ i, 0 ≤ E i)
    (hF0 : ∀ i, 0 ≤ F' i) (hH0 : ∀ i, 0 ≤ H i) (xs : List (RF2 r))
    (hE : ∀ ys, ys <+: xs →
      |(ys.foldl Mean.add Mean.new).avg.val - mean (ys.map RF2.val)| ≤ E ys.length)
    (hF : ∀ ys, ys <+: xs →
      |(ys.foldl Variance.add Variance.new).sum_2.val - T (ys.map RF2.val)| ≤ F' ys.length)
    (hH : ∀ ys, ys <+: xs →
      |(ys.foldl Skewness.add Skewness.new).sum_3.val - U (ys.map RF2.val)| ≤ H ys.length) :
    |(xs.foldl Kurtosis.add Kurtosis.new).sum_4.val - Q (xs.map RF2.val)|
      ≤ (1 + r.u)^xs.length *
          (∑ i ∈ range (xs.map RF2.val).length,
              (((1 + r.u)^54 - 1) * ((dev (xs.map RF2.val) i)^4 * cQ i)
                + ((1 + r.u)^9 - 1)
                    * (6 * (dev (xs.map RF2.val) i)^2 * T ((xs.map RF2.val).take i) / ((i : F) + 1)^2)
                + ((1 + r.u)^5 - 1)
                    * (4 * |dev (xs.map RF2.val) i| * |U ((xs.map RF2.val).take i)| / ((i : F) + 1))
                + (1 + ((1 + r.u)^54 - 1)) * (cQ i * (4 * |dev (xs.map RF2.val) i|^3 * E i
                    + 6 * (dev (xs.map RF2.val) i)^2 * (E i)^2
                    + 4 * |dev (xs.map RF2.val) i| * (E i)^3 + (E i)^4))
                + (1 + ((1 + r.u)^9 - 1)) * (6 / ((i : F) + 1)^2
                    * ((dev (xs.map RF2.val) i)^2 * F' i
                        + (2 * |dev (xs.map RF2.val) i| * E i + (E i)^2)
                            * (T ((xs.map RF2.val).take i) + F' i)))
                + (1 + ((1 + r.u)^5 - 1)) * (4 / ((i : F) + 1)
                    * (|dev (xs.map RF2.val) i| * H i + E i * |U ((xs.map RF2.val).take i)|
                        + E i * H i)))
            + xs.length * r.u * V4p (xs.map RF2.val)) :=
  kurt_fold_error_gen r E F' H hE0 hF0 hH0 xs hE hF hH

/-- **Forward error of `sum_3` once more, with `W = Σ|d_i|·i/(i+1)` kept** instead of its Cauchy-Schwarz
bound `R₀` (`Props.C03b.sum3_forward_error` has `13·u·M·R₀²`): `|x_i| ≤ M`, `(n+28)·u ≤ 1/64`,
`n·T ≤ R₀²`, `N = n + 10`:
`|sum_3 - U| ≤ 7·N·u·V3p + 11·N·u·M·T + 13·u·M·R₀·W + 30·N²·u²·M²·R₀ + 16·N⁴·u³·M³`. -/
theorem sum3_forward_error_W (r : Rnd2 F) (M : F) (hM : 0 ≤ M) (xs : List (RF2 r))
    (hb : ∀ x ∈ xs, |x.val| ≤ M) (hsmall : ((xs.length : F) + 28) * r.u ≤ 1/64)
    (R₀ : F) (hR : 0 ≤ R₀) (hRT : (xs.length : F) * T (xs.map RF2.val) ≤ R₀^2) :
    |(xs.foldl Skewness.add Skewness.new).sum_3.val - U (xs.map RF2.val)|
      ≤ 7 * ((xs.length : F) + 10) * r.u * V3p (xs.map RF2.val)
        + 11 * ((xs.length : F) + 10) * r.u * M * T (xs.map RF2.val)
        + 13 * r.u * M * R₀ * W (xs.map RF2.val)
        + 30 * ((xs.length : F) + 10)^2 * r.u^2 * M^2 * R₀
        + 16 * ((xs.length : F) + 10)^4 * r.u^3 * M^3 :=
  skew_fold_error_num_W r M hM xs hb hsmall R₀ hR hRT

/-- The hypotheses of the general form hold with `E i = (65/128)·u·M·(i + 37/4)` (`0` for `i = 0`),
`F' i = (109/20)·i·u·T_i + (79/20)·i·u·M·R₀ + (15/4)·i³·u²·M²` and
`H i = 7(i+10)u·V3p_i + 11(i+10)u·M·T_i + 13u·M·R₀·W_i + 30(i+10)²u²M²R₀ + 16(i+10)⁴u³M³` (`0` for `i = 0`)
when `|x_i| ≤ M`, `(n+28)·u ≤ 1/64` and `n·T ≤ R₀²` (from `Props.C01b.mean_forward_error_sharp`,
`Props.C01b.sum2_forward_error_sharp`, `sum3_forward_error_W`). -/
theorem prefix_bounds (r : Rnd2 F) (M : F) (hM : 0 ≤ M) (xs : List (RF2 r))
    (hb : ∀ x ∈ xs, |x.val| ≤ M) (hsmall : ((xs.length : F) + 28) * r.u ≤ 1/64)
    (R₀ : F) (hR : 0 ≤ R₀) (hRT : (xs.length : F) * T (xs.map RF2.val) ≤ R₀^2) :
    (∀ ys, ys <+: xs →
      |(ys.foldl Mean.add Mean.new).avg.val - mean (ys.map RF2.val)|
        ≤ if ys.length = 0 then 0 else 65/128 * r.u * M * ((ys.length : F) + 37/4)) ∧
    (∀ ys, ys <+: xs →
      |(ys.foldl Variance.add Variance.new).sum_2.val - T (ys.map RF2.val)|
        ≤ (109/20 * r.u) * ys.length * T ((xs.map RF2.val).take ys.length)
          + (79/20 * r.u * M * R₀) * ys.length + (15/4 * r.u^2 * M^2) * (ys.length : F)^3) ∧
    (∀ ys, ys <+: xs →
      |(ys.foldl Skewness.add Skewness.new).sum_3.val - U (ys.map RF2.val)|
        ≤ if ys.length = 0 then 0 else
          7 * ((ys.length : F) + 10) * r.u * V3p ((xs.map RF2.val).take ys.length)
            + 11 * ((ys.length : F) + 10) * r.u * M * T ((xs.map RF2.val).take ys.length)
            + 13 * r.u * M * R₀ * W ((xs.map RF2.val).take ys.length)
            + 30 * ((ys.length : F) + 10)^2 * r.u^2 * M^2 * R₀
            + 16 * ((ys.length : F) + 10)^4 * r.u^3 * M^3) :=
  ⟨VarErr.mean_prefix_sharp r M hM xs hb hsmall, var_prefix_sharp r M hM xs hb hsmall R₀ hR hRT,
    skew_prefix_W r M hM xs hb hsmall R₀ hR hRT⟩

/-- **Forward error of `sum_4`.** Every stream of `n` observations with `|x_i| ≤ M` and
`(n+28)·u ≤ 1/64`; any `R₀ ≥ 0` with `n·T ≤ R₀²`; `N = n + 10`:
`|sum_4 - Q| ≤ 8·N·u·(V4p + VD4) + (9/4)·N·u·M·VR + 29·N·u·M·V3p + 230·u·M·R₀·T
     + 1650·N·u²·M²·R₀² + 138·N²·u²·M²·T + 2550·N³·u³·M³·R₀ + 970·N⁵·u⁴·M⁴`. -/
theorem sum4_forward_error (r : Rnd2 F) (M : F) (hM : 0 ≤ M) (xs : List (RF2 r))
    (hb : ∀ x ∈ xs, |x.val| ≤ M) (hsmall : ((xs.length : F) + 28) * r.u ≤ 1/64)
    (R₀ : F) (hR : 0 ≤ R₀) (hRT : (xs.length : F) * T (xs.map RF2.val) ≤ R₀^2) :
    |(xs.foldl Kurtosis.add Kurtosis.new).sum_4.val - Q (xs.map RF2.val)|
      ≤ 8 * ((xs.length : F) + 10) * r.u * (V4p (xs.map RF2.val) + VD4 (xs.map RF2.val))
        + 9/4 * ((xs.length : F) + 10) * r.u * M * VR (xs.map RF2.val)
        + 29 * ((xs.length : F) + 10) * r.u * M * V3p (xs.map RF2.val)
        + 230 * r.u * M * R₀ * T (xs.map RF2.val)
        + 1650 * ((xs.length : F) + 10) * r.u^2 * M^2 * R₀^2
        + 138 * ((xs.length : F) + 10)^2 * r.u^2 * M^2 * T (xs.map RF2.val)
        + 2550 * ((xs.length : F) + 10)^3 * r.u^3 * M^3 * R₀
        + 970 * ((xs.length : F) + 10)^5 * r.u^4 * M^4 :=
  kurt_fold_error_num r M hM xs hb hsmall R₀ hR hRT

/-- Crude closed bounds of the scales: for `|x_i| ≤ M` and any `S₀ ≥ 0` with `T ≤ S₀²` (over ℝ:
`S₀ = sqrt T`): `VA4 ≤ 4M²·T`, `VB4 ≤ 3·T²`, `VC4 ≤ VD4 ≤ 4·V3p·S₀`, `VR ≤ 2M·T`, and
`V4p + VD4 ≤ 4M²·T + 3·T² + 16·M·T·S₀ + 24·T·S₀²`. -/
theorem scale_closed_bounds (vs : List F) (M : F) (hM : 0 ≤ M) (hb : ∀ x ∈ vs, |x| ≤ M) (S₀ : F)
    (hS : 0 ≤ S₀) (hST : T vs ≤ S₀^2) :
    VA4 vs ≤ 4 * M^2 * T vs ∧ VB4 vs ≤ 3 * (T vs)^2 ∧ VC4 vs ≤ VD4 vs
      ∧ VD4 vs ≤ 4 * V3p vs * S₀ ∧ VR vs ≤ 2 * M * T vs
      ∧ V4p vs + VD4 vs ≤ 4 * M^2 * T vs + 3 * (T vs)^2 + 16 * M * T vs * S₀ + 24 * T vs * S₀^2 := by
  refine ⟨?_, VB4_le vs, VC4_le_VD4 vs, VD4_le vs S₀ hS hST,
    VR_le vs (2 * M) (abs_dev_le vs M hM hb), V4p_VD4_le' vs M hM hb S₀ hS hST⟩
  have h := VA4_le vs (2 * M) (abs_dev_le vs M hM hb)
  calc VA4 vs ≤ (2 * M)^2 * T vs := h
    _ = 4 * M^2 * T vs := by ring

/-- **Fully closed form** (crude: quadratic in `M`). Moreover `S₀ ≥ 0` with `T ≤ S₀²`:
`|sum_4 - Q| ≤ N·u·(95·M²·T + 215·M·T·S₀ + 192·T·S₀² + 24·T²) + 230·u·M·R₀·T
     + 1650·N·u²·M²·R₀² + 138·N²·u²·M²·T + 2550·N³·u³·M³·R₀ + 970·N⁵·u⁴·M⁴`. -/
theorem sum4_forward_error_closed (r : Rnd2 F) (M : F) (hM : 0 ≤ M) (xs : List (RF2 r))
    (hb : ∀ x ∈ xs, |x.val| ≤ M) (hsmall : ((xs.length : F) + 28) * r.u ≤ 1/64)
    (S₀ : F) (hS : 0 ≤ S₀) (hST : T (xs.map RF2.val) ≤ S₀^2)
    (R₀ : F) (hR : 0 ≤ R₀) (hRT : (xs.length : F) * T (xs.map RF2.val) ≤ R₀^2) :
    |(xs.foldl Kurtosis.add Kurtosis.new).sum_4.val - Q (xs.map RF2.val)|
      ≤ ((xs.length : F) + 10) * r.u
          * (95 * M^2 * T (xs.map RF2.val) + 215 * M * T (xs.map RF2.val) * S₀
              + 192 * T (xs.map RF2.val) * S₀^2 + 24 * (T (xs.map RF2.val))^2)
        + 230 * r.u * M * R₀ * T (xs.map RF2.val)
        + 1650 * ((xs.length : F) + 10) * r.u^2 * M^2 * R₀^2
        + 138 * ((xs.length : F) + 10)^2 * r.u^2 * M^2 * T (xs.map RF2.val)
        + 2550 * ((xs.length : F) + 10)^3 * r.u^3 * M^3 * R₀
        + 970 * ((xs.length : F) + 10)^5 * r.u^4 * M^4 :=
  kurt_fold_error_closed r M hM xs hb hsmall S₀ hS hST R₀ hR hRT

/-- **Envelope form, linear in the conditioning.** If `σ ≥ 0` with `T ≤ n·σ²` (`σ` at least the
population standard deviation) and `N·u·M ≤ σ`, then
`|sum_4 - Q| ≤ 8·N·u·(V4p + VD4) + (9/4)·N·u·M·VR + 29·N·u·M·V3p + 5538·N²·u·M·σ³`
- the last term is `5538·N·u·(M/σ)` relative to the scale `N·σ⁴`. -/
theorem sum4_envelope (r : Rnd2 F) (M : F) (hM : 0 ≤ M) (xs : List (RF2 r))
    (hb : ∀ x ∈ xs, |x.val| ≤ M) (hsmall : ((xs.length : F) + 28) * r.u ≤ 1/64)
    (σ : F) (hσ : 0 ≤ σ) (hvar : T (xs.map RF2.val) ≤ xs.length * σ^2)
    (hcond : ((xs.length : F) + 10) * r.u * M ≤ σ) :
    |(xs.foldl Kurtosis.add Kurtosis.new).sum_4.val - Q (xs.map RF2.val)|
      ≤ 8 * ((xs.length : F) + 10) * r.u * (V4p (xs.map RF2.val) + VD4 (xs.map RF2.val))
        + 9/4 * ((xs.length : F) + 10) * r.u * M * VR (xs.map RF2.val)
        + 29 * ((xs.length : F) + 10) * r.u * M * V3p (xs.map RF2.val)
        + 5538 * ((xs.length : F) + 10)^2 * r.u * M * σ^3 :=
  kurt_envelope r M hM xs hb hsmall σ hσ hvar hcond

/-! ## the inequalities behind the envelope -/

/-- **Hardy's inequality for the exponent 2**, any ordered field: for `a_i ≥ 0`,
`Σ_{m<M} ((a_0 + … + a_m)/(m+1))² ≤ 4·Σ_{m<M} a_m²`, and
`Σ_{m<M} a_m·(a_0 + … + a_m)/(m+1) ≤ 2·Σ_{m<M} a_m²`. -/
theorem hardy_square (a : ℕ → F) (ha : ∀ i, 0 ≤ a i) (M : ℕ) :
    ∑ m ∈ range M, ((∑ i ∈ range (m + 1), a i) / ((m + 1 : ℕ) : F))^2 ≤ 4 * ∑ m ∈ range M, (a m)^2
    ∧ ∑ m ∈ range M, a m * ((∑ i ∈ range (m + 1), a i) / ((m + 1 : ℕ) : F))
        ≤ 2 * ∑ m ∈ range M, (a m)^2 :=
  ⟨hardy2 ha M, hardy2_cross ha M⟩

/-- The double sum that carries the `W`-part of the error of `sum_3` into the error of `sum_4`:
`Σ_{1≤i<n} (|d_i|/(i+1))·W(x_0..x_{i-1}) ≤ 4·T`, `W(x_0..x_{i-1}) = Σ_{j<i} |d_j|·j/(j+1)`. -/
theorem double_sum_le (vs : List F) :
    ∑ i ∈ range vs.length,
        (if i = 0 then 0 else |dev vs i| / ((i : F) + 1)) * W (vs.take i) ≤ 4 * T vs :=
  sum_rr_W_le vs

/-- `VR ≤ (35/2)·V3` (`V3 = Σ|x - mean|³`, Hardy's inequality for the exponent 3), `V3² ≤ T·Q`,
`T² ≤ n·Q` (Cauchy-Schwarz); hence for `n ≥ 1` and every `σ` with `n·σ² ≤ T`: `σ·V3 ≤ Q`, `n·σ⁴ ≤ Q`. -/
theorem moment_inequalities (vs : List F) :
    VR vs ≤ 35/2 * V3 vs ∧ (V3 vs)^2 ≤ T vs * Q vs ∧ (T vs)^2 ≤ (vs.length : F) * Q vs
      ∧ ∀ σ : F, vs ≠ [] → (vs.length : F) * σ^2 ≤ T vs →
          σ * V3 vs ≤ Q vs ∧ (vs.length : F) * σ^4 ≤ Q vs :=
  ⟨VR_le_V3 vs, V3_sq_le vs, T_sq_le vs,
    fun σ hne h => ⟨sigma_V3_le vs hne σ h, sigma4_le vs hne σ h⟩⟩

/-- **Envelope in the scales `V4p + VD4` and `Q = Σ(x - mean)⁴`.** `n ≥ 1`, `σ > 0` with `n·σ² = T` (the
population standard deviation), `N·u·M ≤ σ`:
`|sum_4 - Q| ≤ N·u·( 8·(V4p + VD4) + (1200 + 5538·N/n)·(M/σ)·Q )`. -/
theorem sum4_envelope_Q (r : Rnd2 F) (M : F) (hM : 0 ≤ M) (xs : List (RF2 r)) (hne : xs ≠ [])
    (hb : ∀ x ∈ xs, |x.val| ≤ M) (hsmall : ((xs.length : F) + 28) * r.u ≤ 1/64)
    (σ : F) (hσ : 0 < σ) (hvar : (xs.length : F) * σ^2 = T (xs.map RF2.val))
    (hcond : ((xs.length : F) + 10) * r.u * M ≤ σ) :
    |(xs.foldl Kurtosis.add Kurtosis.new).sum_4.val - Q (xs.map RF2.val)|
      ≤ ((xs.length : F) + 10) * r.u
          * (8 * (V4p (xs.map RF2.val) + VD4 (xs.map RF2.val))
            + (1200 + 5538 * (((xs.length : F) + 10) / (xs.length : F))) * (M / σ)
                * Q (xs.map RF2.val)) :=
  kurt_envelope_Q r M hM xs hne hb hsmall σ hσ hvar hcond

/-- **The envelope clause of C03 for the state component `sum_4`.** Over ℝ, for `n ≥ 10` observations with
`|x_i| ≤ M`, exact variance `var = T/n > 0`, `σ = sqrt(var)`, `κ = 1 + M/σ`, `(n+28)·u ≤ 1/64` and
`(n+10)·u·M ≤ σ`:
`|sum_4 - Σ(x - mean)⁴| ≤ 12276·(n+10)·κ·u·(V4p + VD4)`. -/
theorem sum4_envelope_kappa (r : Rnd2 ℝ) (M : ℝ) (hM : 0 ≤ M) (xs : List (RF2 r))
    (h10 : 10 ≤ xs.length) (hb : ∀ x ∈ xs, |x.val| ≤ M)
    (hsmall : ((xs.length : ℝ) + 28) * r.u ≤ 1/64)
    (hpos : 0 < T (xs.map RF2.val) / (xs.length : ℝ))
    (hcond : ((xs.length : ℝ) + 10) * r.u * M
      ≤ Real.sqrt (T (xs.map RF2.val) / (xs.length : ℝ))) :
    |(xs.foldl Kurtosis.add Kurtosis.new).sum_4.val - Q (xs.map RF2.val)|
      ≤ 12276 * ((xs.length : ℝ) + 10)
          * (1 + M / Real.sqrt (T (xs.map RF2.val) / (xs.length : ℝ))) * r.u
          * (V4p (xs.map RF2.val) + VD4 (xs.map RF2.val)) := by
  have hne : xs ≠ [] := by intro h; rw [h] at h10; simp at h10
  have hn10 : (10 : ℝ) ≤ xs.length := by exact_mod_cast h10
  have hnpos : (0 : ℝ) < xs.length := by linarith
  set v := T (xs.map RF2.val) / (xs.length : ℝ) with hv
  have hσpos : 0 < Real.sqrt v := Real.sqrt_pos.mpr hpos
  have hsq : Real.sqrt v ^ 2 = v := Real.sq_sqrt hpos.le
  have hvar : (xs.length : ℝ) * Real.sqrt v ^ 2 = T (xs.map RF2.val) := by
    rw [hsq, hv]; field_simp
  have h := kurt_envelope_Q r M hM xs hne hb hsmall (Real.sqrt v) hσpos hvar hcond
  refine le_trans h ?_
  have hu := r.u_nonneg
  have hQ0 := Q_nonneg (xs.map RF2.val)
  have hQS : Q (xs.map RF2.val) ≤ V4p (xs.map RF2.val) + VD4 (xs.map RF2.val) := by
    have := KurtSpec.Q_le_V4p (xs.map RF2.val)
    have := VD4_nonneg (xs.map RF2.val)
    linarith
  set S := V4p (xs.map RF2.val) + VD4 (xs.map RF2.val) with hS
  have hS0 : 0 ≤ S := le_trans hQ0 hQS
  have hq : ((xs.length : ℝ) + 10) / (xs.length : ℝ) ≤ 2 := by
    rw [div_le_iff₀ hnpos]; linarith
  have hq0 : 0 ≤ ((xs.length : ℝ) + 10) / (xs.length : ℝ) := by positivity
  have hMσ : 0 ≤ M / Real.sqrt v := by positivity
  have hc : 8 * S + (1200 + 5538 * (((xs.length : ℝ) + 10) / (xs.length : ℝ))) * (M / Real.sqrt v)
        * Q (xs.map RF2.val)
      ≤ 12276 * (1 + M / Real.sqrt v) * S := by
    have h1 : (1200 + 5538 * (((xs.length : ℝ) + 10) / (xs.length : ℝ))) * (M / Real.sqrt v)
          * Q (xs.map RF2.val)
        ≤ (1200 + 5538 * 2) * (M / Real.sqrt v) * S := by gcongr
    have h2 : 0 ≤ M / Real.sqrt v * S := by positivity
    nlinarith
  calc ((xs.length : ℝ) + 10) * r.u
        * (8 * S + (1200 + 5538 * (((xs.length : ℝ) + 10) / (xs.length : ℝ))) * (M / Real.sqrt v)
            * Q (xs.map RF2.val))
      ≤ ((xs.length : ℝ) + 10) * r.u * (12276 * (1 + M / Real.sqrt v) * S) := by gcongr
    _ = 12276 * ((xs.length : ℝ) + 10) * (1 + M / Real.sqrt v) * r.u * S := by ring

/-- Over ℝ with `R₀ = sqrt(n·T)`:
`|sum_4 - Q| ≤ 8·N·u·(V4p + VD4) + (9/4)·N·u·M·VR + 29·N·u·M·V3p + 230·u·M·T·sqrt(n·T)
     + 1788·N²·u²·M²·T + 2550·N³·u³·M³·sqrt(n·T) + 970·N⁵·u⁴·M⁴`. -/
theorem sum4_forward_error_sqrt (r : Rnd2 ℝ) (M : ℝ) (hM : 0 ≤ M) (xs : List (RF2 r))
    (hb : ∀ x ∈ xs, |x.val| ≤ M) (hsmall : ((xs.length : ℝ) + 28) * r.u ≤ 1/64) :
    |(xs.foldl Kurtosis.add Kurtosis.new).sum_4.val - Q (xs.map RF2.val)|
      ≤ 8 * ((xs.length : ℝ) + 10) * r.u * (V4p (xs.map RF2.val) + VD4 (xs.map RF2.val))
        + 9/4 * ((xs.length : ℝ) + 10) * r.u * M * VR (xs.map RF2.val)
        + 29 * ((xs.length : ℝ) + 10) * r.u * M * V3p (xs.map RF2.val)
        + 230 * r.u * M * T (xs.map RF2.val) * Real.sqrt (xs.length * T (xs.map RF2.val))
        + 1788 * ((xs.length : ℝ) + 10)^2 * r.u^2 * M^2 * T (xs.map RF2.val)
        + 2550 * ((xs.length : ℝ) + 10)^3 * r.u^3 * M^3 * Real.sqrt (xs.length * T (xs.map RF2.val))
        + 970 * ((xs.length : ℝ) + 10)^5 * r.u^4 * M^4 := by
  have hnT : 0 ≤ (xs.length : ℝ) * T (xs.map RF2.val) :=
    mul_nonneg (Nat.cast_nonneg _) (T_nonneg _)
  have hsq := Real.sq_sqrt hnT
  have h := kurt_fold_error_num r M hM xs hb hsmall _ (Real.sqrt_nonneg _) (le_of_eq hsq.symm)
  rw [hsq] at h
  refine le_trans h ?_
  have hu := r.u_nonneg
  have hn0 : (0 : ℝ) ≤ xs.length := Nat.cast_nonneg _
  have hT0 := T_nonneg (xs.map RF2.val)
  have h1 : 1650 * ((xs.length : ℝ) + 10) * r.u^2 * M^2 * ((xs.length : ℝ) * T (xs.map RF2.val))
      ≤ 1650 * ((xs.length : ℝ) + 10)^2 * r.u^2 * M^2 * T (xs.map RF2.val) := by
    have : 0 ≤ ((xs.length : ℝ) + 10) * (r.u^2 * M^2 * T (xs.map RF2.val)) := by positivity
    nlinarith
  have h2 : 230 * r.u * M * Real.sqrt (xs.length * T (xs.map RF2.val)) * T (xs.map RF2.val)
      = 230 * r.u * M * T (xs.map RF2.val) * Real.sqrt (xs.length * T (xs.map RF2.val)) := by ring
  linarith


/-! ## the scales against `Q = Σ(x - mean)⁴`: a bound of the relative error -/

/-- **Hardy's inequality for the exponent 4**, any ordered field: for `a_i ≥ 0`,
`Σ_{m<M} ((a_0 + … + a_m)/(m+1))⁴ ≤ (256/81)·Σ_{m<M} a_m⁴`. -/
theorem hardy_fourth (a : ℕ → F) (ha : ∀ i, 0 ≤ a i) (M : ℕ) :
    ∑ m ∈ range M, ((∑ i ∈ range (m + 1), a i) / ((m + 1 : ℕ) : F))^4
      ≤ 256/81 * ∑ m ∈ range M, (a m)^4 :=
  hardy4 ha M

/-- **Copson's inequality for the exponent 4**, any ordered field: for `b_k ≥ 0`,
`Σ_{i<n} (Σ_{i<k<n} b_k/k)⁴ ≤ 256·Σ_{i<n} b_{i+1}⁴`. -/
theorem copson_fourth (b : ℕ → F) (hb : ∀ k, 0 ≤ b k) (n : ℕ) :
    ∑ i ∈ range n, (∑ k ∈ Ico (i + 1) n, b k / (k : F))^4 ≤ 256 * ∑ i ∈ range n, (b (i + 1))^4 :=
  copson4 hb n

/-- Power mean: `(a_0 + … + a_{k-1})³ ≤ k²·(a_0³ + … + a_{k-1}³)` for `a_i ≥ 0`. -/
theorem power_mean_cube (a : ℕ → F) (ha : ∀ i, 0 ≤ a i) (k : ℕ) :
    (∑ i ∈ range k, a i)^3 ≤ (k : F)^2 * ∑ i ∈ range k, (a i)^3 :=
  psum_cube_le ha k

/-- The scales of the rounding errors are at most a constant times `Q = Σ(x - mean)⁴`:
`VA4 ≤ (2696/81)·Q`, `VB4 ≤ (1510/27)·Q`, `VC4 ≤ (32452/81)·Q`, `VD4 ≤ (1298080/81)·Q`,
`V4p + VD4 ≤ 16516·Q`. No hypothesis on the data. -/
theorem scales_le_Q (vs : List F) :
    VA4 vs ≤ 2696/81 * Q vs ∧ VB4 vs ≤ 1510/27 * Q vs ∧ VC4 vs ≤ 32452/81 * Q vs
      ∧ VD4 vs ≤ 1298080/81 * Q vs ∧ V4p vs + VD4 vs ≤ 16516 * Q vs :=
  ⟨VA4_le_Q vs, VB4_le_Q vs, VC4_le_Q vs, VD4_le_Q vs, V4p_VD4_le_Q vs⟩

/-- **Forward error of `sum_4` in the scale `Q`.** `|x_i| ≤ M`, `(n+28)·u ≤ 1/64`, `n·T ≤ R₀²`:
`|sum_4 - Q| ≤ 132128·N·u·Q + (9/4)·N·u·M·VR + 29·N·u·M·V3p + 230·u·M·R₀·T
     + 1650·N·u²·M²·R₀² + 138·N²·u²·M²·T + 2550·N³·u³·M³·R₀ + 970·N⁵·u⁴·M⁴`. -/
theorem sum4_forward_error_Q (r : Rnd2 F) (M : F) (hM : 0 ≤ M) (xs : List (RF2 r))
    (hb : ∀ x ∈ xs, |x.val| ≤ M) (hsmall : ((xs.length : F) + 28) * r.u ≤ 1/64)
    (R₀ : F) (hR : 0 ≤ R₀) (hRT : (xs.length : F) * T (xs.map RF2.val) ≤ R₀^2) :
    |(xs.foldl Kurtosis.add Kurtosis.new).sum_4.val - Q (xs.map RF2.val)|
      ≤ 132128 * ((xs.length : F) + 10) * r.u * Q (xs.map RF2.val)
        + 9/4 * ((xs.length : F) + 10) * r.u * M * VR (xs.map RF2.val)
        + 29 * ((xs.length : F) + 10) * r.u * M * V3p (xs.map RF2.val)
        + 230 * r.u * M * R₀ * T (xs.map RF2.val)
        + 1650 * ((xs.length : F) + 10) * r.u^2 * M^2 * R₀^2
        + 138 * ((xs.length : F) + 10)^2 * r.u^2 * M^2 * T (xs.map RF2.val)
        + 2550 * ((xs.length : F) + 10)^3 * r.u^3 * M^3 * R₀
        + 970 * ((xs.length : F) + 10)^5 * r.u^4 * M^4 := by
  have hu := r.u_nonneg
  have hn0 : (0 : F) ≤ xs.length := Nat.cast_nonneg _
  have h := kurt_fold_error_num r M hM xs hb hsmall R₀ hR hRT
  have hv := V4p_VD4_le_Q (xs.map RF2.val)
  have hc : 0 ≤ 8 * ((xs.length : F) + 10) * r.u := by positivity
  have := mul_le_mul_of_nonneg_left hv hc
  linarith

/-- **Relative forward error of `sum_4`.** `n ≥ 1`, `σ > 0` with `n·σ² = T` (the population standard
deviation), `N·u·M ≤ σ`:  `|sum_4 - Q| ≤ N·u·Q·(132128 + (1200 + 5538·N/n)·(M/σ))`. -/
theorem sum4_envelope_rel (r : Rnd2 F) (M : F) (hM : 0 ≤ M) (xs : List (RF2 r)) (hne : xs ≠ [])
    (hb : ∀ x ∈ xs, |x.val| ≤ M) (hsmall : ((xs.length : F) + 28) * r.u ≤ 1/64)
    (σ : F) (hσ : 0 < σ) (hvar : (xs.length : F) * σ^2 = T (xs.map RF2.val))
    (hcond : ((xs.length : F) + 10) * r.u * M ≤ σ) :
    |(xs.foldl Kurtosis.add Kurtosis.new).sum_4.val - Q (xs.map RF2.val)|
      ≤ ((xs.length : F) + 10) * r.u * Q (xs.map RF2.val)
          * (132128 + (1200 + 5538 * (((xs.length : F) + 10) / (xs.length : F))) * (M / σ)) :=
  kurt_envelope_rel r M hM xs hne hb hsmall σ hσ hvar hcond

/-- **The envelope clause of C03 for the state component `sum_4`, as a relative error.** Over ℝ, for
`n ≥ 10` observations with `|x_i| ≤ M`, exact variance `var = T/n > 0`, `σ = sqrt(var)`, `κ = 1 + M/σ`,
`(n+28)·u ≤ 1/64` and `(n+10)·u·M ≤ σ`:
`|sum_4 - Σ(x - mean)⁴| ≤ 132128·(n+10)·κ·u·Σ(x - mean)⁴`. -/
theorem sum4_relative_error_kappa (r : Rnd2 ℝ) (M : ℝ) (hM : 0 ≤ M) (xs : List (RF2 r))
    (h10 : 10 ≤ xs.length) (hb : ∀ x ∈ xs, |x.val| ≤ M)
    (hsmall : ((xs.length : ℝ) + 28) * r.u ≤ 1/64)
    (hpos : 0 < T (xs.map RF2.val) / (xs.length : ℝ))
    (hcond : ((xs.length : ℝ) + 10) * r.u * M
      ≤ Real.sqrt (T (xs.map RF2.val) / (xs.length : ℝ))) :
    |(xs.foldl Kurtosis.add Kurtosis.new).sum_4.val - Q (xs.map RF2.val)|
      ≤ 132128 * ((xs.length : ℝ) + 10)
          * (1 + M / Real.sqrt (T (xs.map RF2.val) / (xs.length : ℝ))) * r.u
          * Q (xs.map RF2.val) := by
  have hne : xs ≠ [] := by intro h; rw [h] at h10; simp at h10
  have hn10 : (10 : ℝ) ≤ xs.length := by exact_mod_cast h10
  have hnpos : (0 : ℝ) < xs.length := by linarith
  set v := T (xs.map RF2.val) / (xs.length : ℝ) with hv
  have hσpos : 0 < Real.sqrt v := Real.sqrt_pos.mpr hpos
  have hsq : Real.sqrt v ^ 2 = v := Real.sq_sqrt hpos.le
  have hvar : (xs.length : ℝ) * Real.sqrt v ^ 2 = T (xs.map RF2.val) := by
    rw [hsq, hv]; field_simp
  have h := kurt_envelope_rel r M hM xs hne hb hsmall (Real.sqrt v) hσpos hvar hcond
  refine le_trans h ?_
  have hu := r.u_nonneg
  have hQ0 := Q_nonneg (xs.map RF2.val)
  have hq : ((xs.length : ℝ) + 10) / (xs.length : ℝ) ≤ 2 := by
    rw [div_le_iff₀ hnpos]; linarith
  have hMσ : 0 ≤ M / Real.sqrt v := by positivity
  have hc : 132128 + (1200 + 5538 * (((xs.length : ℝ) + 10) / (xs.length : ℝ))) * (M / Real.sqrt v)
      ≤ 132128 * (1 + M / Real.sqrt v) := by
    have : (1200 + 5538 * (((xs.length : ℝ) + 10) / (xs.length : ℝ))) * (M / Real.sqrt v)
        ≤ (1200 + 5538 * 2) * (M / Real.sqrt v) := by gcongr
    linarith
  calc ((xs.length : ℝ) + 10) * r.u * Q (xs.map RF2.val)
        * (132128 + (1200 + 5538 * (((xs.length : ℝ) + 10) / (xs.length : ℝ))) * (M / Real.sqrt v))
      ≤ ((xs.length : ℝ) + 10) * r.u * Q (xs.map RF2.val) * (132128 * (1 + M / Real.sqrt v)) := by
        gcongr
    _ = 132128 * ((xs.length : ℝ) + 10) * (1 + M / Real.sqrt v) * r.u * Q (xs.map RF2.val) := by
        ring

/-! ## Non-vacuity -/

/-- a short stream with a large offset whose exact increments cancel: deviations `-3, 3, -3, 3` from the
mean 1000; `T = 36 = 4·3²`, `U = 0`, `Q = 324`, while `V4p = 264 + 252 + 192 = 708` -/
def exStream : List (RF2 Props.C02b.awayRnd) := [⟨997⟩, ⟨1003⟩, ⟨997⟩, ⟨1003⟩]

theorem exStream_T : T (exStream.map RF2.val) = 36 := by
  norm_num [exStream, T, sumPow, mean]

theorem exStream_Q : Q (exStream.map RF2.val) = 324 := by
  norm_num [exStream, Q, sumPow, mean]

/-- the scale of the exact increments: `VA4 = 264`, `VB4 = 252`, `VC4 = 192` (and `Q = 264 + 252 - 192`) -/
theorem exStream_V4p : V4p (exStream.map RF2.val) = 708 := by
  norm_num [exStream, V4p, VA4, VB4, VC4, incA4, incB4, incC4, cQ, dev, T, U, sumPow, mean,
    Finset.sum_range_succ]

theorem exStream_V3p : V3p (exStream.map RF2.val) = 156 := by
  norm_num [exStream, V3p, VA, VB, incA, incB, cA, dev, T, sumPow, mean, Finset.sum_range_succ]

theorem exStream_VR : VR (exStream.map RF2.val) = 174 := by
  norm_num [exStream, VR, dev, mean, Finset.sum_range_succ]

/-- only the last observation contributes: `4·|d_3|·V3p(x_0,x_1,x_2)/4 = 6·40` (while `VC4 = 6·32`) -/
theorem exStream_VD4 : VD4 (exStream.map RF2.val) = 240 := by
  norm_num [exStream, VD4, incD4, V3p, VA, VB, incA, incB, cA, dev, T, sumPow, mean,
    Finset.sum_range_succ]

/-- the hypotheses of `sum4_forward_error` and `sum4_envelope_Q` are met by `exStream` with `M = 1003`,
`u = 2^-53`, `R₀ = 12` (`n·T = 144`), `σ = 3` (`n·σ² = 36 = T`) -/
example : (∀ x ∈ exStream, |x.val| ≤ 1003)
    ∧ ((exStream.length : ℚ) + 28) * Props.C02b.awayRnd.u ≤ 1/64
    ∧ (exStream.length : ℚ) * T (exStream.map RF2.val) ≤ 12^2
    ∧ (exStream.length : ℚ) * 3^2 = T (exStream.map RF2.val)
    ∧ ((exStream.length : ℚ) + 10) * Props.C02b.awayRnd.u * 1003 ≤ 3 := by
  refine ⟨?_, ?_, ?_, ?_, ?_⟩
  · intro x hx
    simp only [exStream, List.mem_cons, List.not_mem_nil, or_false] at hx
    rcases hx with rfl | rfl | rfl | rfl <;> norm_num
  · norm_num [exStream, Props.C02b.awayRnd]
  · rw [exStream_T]; norm_num [exStream]
  · rw [exStream_T]; norm_num [exStream]
  · norm_num [exStream, Props.C02b.awayRnd]

/-- and the conclusion is a concrete statement about a computation with 140 rounded operations (35 per
observation) under a rounding that is never exact: the computed `sum_4` is within
`8·14·u·(708 + 240) + (9/4)·14·u·1003·174 + 29·14·u·1003·156 + 230·u·1003·12·36 + …`
(about `1.7·10^8·u ≈ 1.9·10^-8`) of the exact `Q = 324`. -/
example : |(exStream.foldl Kurtosis.add Kurtosis.new).sum_4.val - 324|
    ≤ 8 * 14 * (1/2^53) * (708 + 240) + 9/4 * 14 * (1/2^53) * 1003 * 174
      + 29 * 14 * (1/2^53) * 1003 * 156 + 230 * (1/2^53) * 1003 * 12 * 36
      + 1650 * 14 * (1/2^53)^2 * 1003^2 * 12^2 + 138 * 14^2 * (1/2^53)^2 * 1003^2 * 36
      + 2550 * 14^3 * (1/2^53)^3 * 1003^3 * 12 + 970 * (14:ℚ)^5 * (1/2^53)^4 * 1003^4 := by
  have h := sum4_forward_error Props.C02b.awayRnd 1003 (by norm_num) exStream
    (by intro x hx
        simp only [exStream, List.mem_cons, List.not_mem_nil, or_false] at hx
        rcases hx with rfl | rfl | rfl | rfl <;> norm_num)
    (by norm_num [exStream, Props.C02b.awayRnd]) 12 (by norm_num)
    (by rw [exStream_T]; norm_num [exStream])
  rw [exStream_T, exStream_Q, exStream_V4p, exStream_VD4, exStream_VR, exStream_V3p] at h
  have hl : (exStream.length : ℚ) + 10 = 14 := by norm_num [exStream]
  have hu : Props.C02b.awayRnd.u = 1/2^53 := rfl
  rw [hl, hu] at h
  exact h

/-- the hypotheses of the general form are satisfiable non-trivially: for `exStream` they hold with the
`E`, `F'`, `H` of `prefix_bounds`; here the third one -/
example : (∀ ys, ys <+: exStream →
      |(ys.foldl Skewness.add Skewness.new).sum_3.val - U (ys.map RF2.val)|
        ≤ if ys.length = 0 then 0 else
          7 * ((ys.length : ℚ) + 10) * Props.C02b.awayRnd.u * V3p ((exStream.map RF2.val).take ys.length)
            + 11 * ((ys.length : ℚ) + 10) * Props.C02b.awayRnd.u * 1003
                * T ((exStream.map RF2.val).take ys.length)
            + 13 * Props.C02b.awayRnd.u * 1003 * 12 * W ((exStream.map RF2.val).take ys.length)
            + 30 * ((ys.length : ℚ) + 10)^2 * Props.C02b.awayRnd.u^2 * 1003^2 * 12
            + 16 * ((ys.length : ℚ) + 10)^4 * Props.C02b.awayRnd.u^3 * 1003^3) :=
  (prefix_bounds Props.C02b.awayRnd 1003 (by norm_num) exStream
    (by intro x hx
        simp only [exStream, List.mem_cons, List.not_mem_nil, or_false] at hx
        rcases hx with rfl | rfl | rfl | rfl <;> norm_num)
    (by norm_num [exStream, Props.C02b.awayRnd]) 12 (by norm_num)
    (by rw [exStream_T]; norm_num [exStream])).2.2

/-- the hypotheses of `sum4_envelope_Q` are met by `exStream` with `M = 1003`, `σ = 3`, and the conclusion
bounds the error of the computed `sum_4` by `14·u·(8·948 + (1200 + 5538·14/4)·(1003/3)·324)`
(about `3.1·10^10·u ≈ 3.5·10^-6`) around the exact `Q = 324` -/
example : |(exStream.foldl Kurtosis.add Kurtosis.new).sum_4.val - 324|
    ≤ 14 * (1/2^53) * (8 * (708 + 240) + (1200 + 5538 * (14 / 4)) * (1003 / 3) * 324) := by
  have h := sum4_envelope_Q Props.C02b.awayRnd 1003 (by norm_num) exStream (by simp [exStream])
    (by intro x hx
        simp only [exStream, List.mem_cons, List.not_mem_nil, or_false] at hx
        rcases hx with rfl | rfl | rfl | rfl <;> norm_num)
    (by norm_num [exStream, Props.C02b.awayRnd]) 3 (by norm_num)
    (by rw [exStream_T]; norm_num [exStream])
    (by norm_num [exStream, Props.C02b.awayRnd])
  rw [exStream_Q, exStream_V4p, exStream_VD4] at h
  have hl : (exStream.length : ℚ) = 4 := by norm_num [exStream]
  have hu : Props.C02b.awayRnd.u = 1/2^53 := rfl
  rw [hl, hu] at h
  norm_num at h ⊢
  exact h

/-- and of `sum4_envelope_rel`: the computed `sum_4` is within the relative error
`14·u·(132128 + (1200 + 5538·14/4)·(1003/3))` (about `9.7·10^7·u ≈ 1.1·10^-8`) of the exact `Q = 324` -/
example : |(exStream.foldl Kurtosis.add Kurtosis.new).sum_4.val - 324|
    ≤ 14 * (1/2^53) * 324 * (132128 + (1200 + 5538 * (14 / 4)) * (1003 / 3)) := by
  have h := sum4_envelope_rel Props.C02b.awayRnd 1003 (by norm_num) exStream (by simp [exStream])
    (by intro x hx
        simp only [exStream, List.mem_cons, List.not_mem_nil, or_false] at hx
        rcases hx with rfl | rfl | rfl | rfl <;> norm_num)
    (by norm_num [exStream, Props.C02b.awayRnd]) 3 (by norm_num)
    (by rw [exStream_T]; norm_num [exStream])
    (by norm_num [exStream, Props.C02b.awayRnd])
  rw [exStream_Q] at h
  have hl : (exStream.length : ℚ) = 4 := by norm_num [exStream]
  have hu : Props.C02b.awayRnd.u = 1/2^53 := rfl
  rw [hl, hu] at h
  norm_num at h ⊢
  exact h

end Props.C03c

#print axioms Props.C03c.inner_skewness_bitwise
#print axioms Props.C03c.Q_def
#print axioms Props.C03c.sum4_exact
#print axioms Props.C03c.sum4_exact_recurrence
#print axioms Props.C03c.sum4_exact_recurrence_count
#print axioms Props.C03c.V4p_def
#print axioms Props.C03c.Q_le_V4p
#print axioms Props.C03c.VD4_def
#print axioms Props.C03c.sum4_computed_update
#print axioms Props.C03c.polynomial_rounding_error
#print axioms Props.C03c.incrementA_rounding_error
#print axioms Props.C03c.incrementB_rounding_error
#print axioms Props.C03c.incrementC_rounding_error
#print axioms Props.C03c.inner_operations_rounding_error
#print axioms Props.C03c.roundings_54_9_5
#print axioms Props.C03c.sum4_step_error
#print axioms Props.C03c.sum4_forward_error_general
#print axioms Props.C03c.sum3_forward_error_W
#print axioms Props.C03c.prefix_bounds
#print axioms Props.C03c.sum4_forward_error
#print axioms Props.C03c.scale_closed_bounds
#print axioms Props.C03c.sum4_forward_error_closed
#print axioms Props.C03c.sum4_envelope
#print axioms Props.C03c.hardy_square
#print axioms Props.C03c.double_sum_le
#print axioms Props.C03c.moment_inequalities
#print axioms Props.C03c.sum4_envelope_Q
#print axioms Props.C03c.sum4_envelope_kappa
#print axioms Props.C03c.sum4_forward_error_sqrt
#print axioms Props.C03c.hardy_fourth
#print axioms Props.C03c.copson_fourth
#print axioms Props.C03c.power_mean_cube
#print axioms Props.C03c.scales_le_Q
#print axioms Props.C03c.sum4_forward_error_Q
#print axioms Props.C03c.sum4_envelope_rel
#print axioms Props.C03c.sum4_relative_error_kappa
