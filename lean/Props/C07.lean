import AvgProofs.OrdCarrier
import AvgProofs.QuantileStep
import AvgProofs.QuantileSmall
import Mathlib.Data.Rat.Floor
import Mathlib.Algebra.Order.Ring.Rat
import Mathlib.Algebra.Field.Rat

/-!
# C07 - with fewer than five observations `Quantile` returns the exact sample quantile

Carrier E + floor: an ordered field `K` with `⌈·⌉`, a `FloatOps K` whose comparisons, `fmin`/`fmax`
are the order's (`OrdLaws K`) and whose `ceilInt` is `⌈·⌉` (`CeilLaw K`); every
`ordFloatOps K _ _ _ _ _ (fun x => ⌈x⌉)` is such an instance. `nan` is an arbitrary element; it is
never returned for a non-empty sample (`textbookQuantile_default`).

`textbookQuantile p l d` (in `AvgProofs/QuantileSmall.lean`), for a sorted list `l` of size `n`:
`k = ⌈n p⌉` clipped to `[1, n]`; the result is `l[k-1]`, averaged with `l[k]` when `n p` is a whole number
`k` with `1 ≤ k < n`.
-/
open Avg Avg.Spec
set_option linter.unusedSectionVars false

namespace Props.C07

/-! ## the sorted sample -/
section order
variable {β : Type} [LinearOrder β]

/-- `sortBy (· < ·)` over a linear order returns a non-decreasing permutation of its input, and any
non-decreasing permutation of the input equals it: it is *the* sorted sample, whichever sorting
algorithm the implementation uses. -/
theorem sort_is_the_sorted_sample (xs : List β) :
    (sortBy (fun a b => decide (a < b)) xs).Perm xs
    ∧ (sortBy (fun a b => decide (a < b)) xs).Pairwise (· ≤ ·)
    ∧ ∀ s : List β, s.Perm xs → s.Pairwise (· ≤ ·) → s = sortBy (fun a b => decide (a < b)) xs :=
  ⟨sortBy_perm _ xs, sortBy_sorted xs, fun s hp hs => (sortBy_unique xs s hp hs).symm⟩

end order

section field
variable {K : Type} [Field K] [LinearOrder K] [IsStrictOrderedRing K]

/-- The extra clamp `fmin(fmax(avg, a), b)` of the repaired code is a no-op in exact arithmetic:
the average of `a ≤ b` lies between them. -/
theorem avg_clamp_noop (a b : K) (h : a ≤ b) :
    min (max ((1:K) / 2 * a + 1 / 2 * b) a) b = (a + b) / 2 :=
  Avg.avg_clamp_noop a b h

variable [FloorRing K]

/-- The rank used by the textbook quantile: `⌈n p⌉` is the smallest `k` whose cumulative relative
frequency `k/n` reaches `p`. -/
theorem rank_is_least (p : K) (n : Nat) (hn : 0 < n) (k : Int) :
    ⌈(n : K) * p⌉ ≤ k ↔ p ≤ (k : K) / n :=
  ceil_is_least_rank p n hn k

/-- On a non-empty sample every index `textbookQuantile` reads is in range (its default argument is
never returned). -/
theorem textbook_no_junk (p : K) (l : List K) (d d' : K) (hl : l ≠ []) :
    textbookQuantile p l d = textbookQuantile p l d' :=
  textbookQuantile_default p l d d' hl

variable [FloatOps K] [OrdLaws K] [CeilLaw K]

/-- Every `p` accepted by `new` and every 1 to 4 observations, in any arrival order: `quantile()` is
the textbook p-quantile of the sorted observations. (False on the crate as found - it indexed the
unsorted array, witness 4,1,3.) -/
theorem small_quantile_spec (p : K) (s0 : Quantile K) (h0 : Quantile.new p = .val s0)
    (xs : List K) (h1 : 1 ≤ xs.length) (h4 : xs.length ≤ 4) :
    (xs.foldl Quantile.add s0).quantile
      = textbookQuantile p (sortBy (fun a b => decide (a < b)) xs) nan := by
  rw [new_val h0, quantile_small_eq p xs h1 h4, smallQuantile_eq_textbook p xs h1]

/-- The result depends only on the multiset of observations, not on their arrival order. -/
theorem small_quantile_perm (p : K) (s0 : Quantile K) (h0 : Quantile.new p = .val s0)
    (xs ys : List K) (h1 : 1 ≤ xs.length) (h4 : xs.length ≤ 4) (hp : xs.Perm ys) :
    (xs.foldl Quantile.add s0).quantile = (ys.foldl Quantile.add s0).quantile := by
  rw [small_quantile_spec p s0 h0 xs h1 h4,
    small_quantile_spec p s0 h0 ys (hp.length_eq ▸ h1) (hp.length_eq ▸ h4), sortBy_perm_eq hp]

/-- p = 0 yields the minimum: an observation that is ≤ every observation. -/
theorem small_quantile_p0 (s0 : Quantile K) (h0 : Quantile.new (0:K) = .val s0)
    (xs : List K) (h1 : 1 ≤ xs.length) (h4 : xs.length ≤ 4) :
    IsMinOf (xs.foldl Quantile.add s0).quantile xs := by
  rw [small_quantile_spec 0 s0 h0 xs h1 h4]
  have hl : 0 < (sortBy (fun a b : K => decide (a < b)) xs).length := by rw [sortBy_length]; omega
  rw [textbookQuantile_zero _ _ (List.ne_nil_of_length_pos hl)]
  exact (sorted_head_min (sortBy_sorted xs) nan hl).perm (sortBy_perm _ xs)

/-- p = 1 yields the maximum: an observation that is ≥ every observation. -/
theorem small_quantile_p1 (s0 : Quantile K) (h0 : Quantile.new (1:K) = .val s0)
    (xs : List K) (h1 : 1 ≤ xs.length) (h4 : xs.length ≤ 4) :
    IsMaxOf (xs.foldl Quantile.add s0).quantile xs := by
  rw [small_quantile_spec 1 s0 h0 xs h1 h4]
  have hl : 0 < (sortBy (fun a b : K => decide (a < b)) xs).length := by rw [sortBy_length]; omega
  rw [textbookQuantile_one _ _ (List.ne_nil_of_length_pos hl)]
  exact (sorted_last_max (sortBy_sorted xs) nan hl).perm (sortBy_perm _ xs)

end field

/-! ## the hypotheses are satisfiable; the witness of the defect -/
section examples

@[reducible] def ratOps : FloatOps ℚ := ordFloatOps ℚ 0 0 0 id id (fun x => ⌈x⌉)
attribute [local instance] ratOps
local instance : OrdLaws ℚ := ordFloatOps_laws ℚ 0 0 0 id id (fun x => ⌈x⌉)
local instance : CeilLaw ℚ := ordFloatOps_ceilLaw ℚ 0 0 0 id id

theorem new_half : Quantile.new (1/2 : ℚ) = .val (Quantile.init (1/2)) := by
  rw [new_eq]
  have : (fle ((0:Nat):ℚ) (1/2) && fle (1/2) ((1:Nat):ℚ)) = true := by
    simp only [Bool.and_eq_true, fle_iff]; norm_num
  rw [if_pos this]

/-- the witness 4,1,3 with p = 1/2 (the crate as found returned 1): the hypotheses hold and the
textbook value is the middle observation, 3 -/
example : ∃ s0, Quantile.new (1/2 : ℚ) = .val s0 ∧
    (([4, 1, 3] : List ℚ).foldl Quantile.add s0).quantile = 3 := by
  refine ⟨_, new_half, ?_⟩
  rw [small_quantile_spec _ _ new_half _ (by simp) (by simp)]
  have hs : sortBy (fun a b : ℚ => decide (a < b)) [4, 1, 3] = [1, 3, 4] := by
    apply sortBy_unique
    · decide
    · norm_num
  rw [hs]
  unfold textbookQuantile
  have hc : ⌈(([1, 3, 4] : List ℚ).length : ℚ) * (1/2)⌉ = 2 := by
    rw [Int.ceil_eq_iff]; norm_num
  simp only [hc]
  norm_num
  rfl

/-- two observations and p = 1/2: `n p = 1` is whole, so the two are averaged -/
example : (([5, 2] : List ℚ).foldl Quantile.add (Quantile.init (1/2))).quantile = 7/2 := by
  have := small_quantile_spec _ _ new_half ([5, 2] : List ℚ) (by simp) (by simp)
  rw [this]
  have hs : sortBy (fun a b : ℚ => decide (a < b)) [5, 2] = [2, 5] := by
    apply sortBy_unique
    · decide
    · norm_num
  rw [hs]
  unfold textbookQuantile
  have hc : ⌈(([2, 5] : List ℚ).length : ℚ) * (1/2)⌉ = 1 := by
    rw [Int.ceil_eq_iff]; norm_num
  simp only [hc]
  norm_num

end examples

end Props.C07

#print axioms Props.C07.sort_is_the_sorted_sample
#print axioms Props.C07.avg_clamp_noop
#print axioms Props.C07.rank_is_least
#print axioms Props.C07.textbook_no_junk
#print axioms Props.C07.small_quantile_spec
#print axioms Props.C07.small_quantile_perm
#print axioms Props.C07.small_quantile_p0
#print axioms Props.C07.small_quantile_p1
