import AvgProofs.SampleHigher

/-!
# C10 - bias-corrected sample statistics follow their textbook definitions

Carriers: any carrier (bit for bit) for the small-sample sentinels and for the relations that are
definitional in the code (`variance_of_mean`, `error`); E (any field of characteristic 0) for the
normalisations; ℝ where `sqrt` / `powf(·, 1.5)` appear (`FloatOps ℝ`: `sqrt = Real.sqrt`,
`pow15 x = x ^ (3/2)`). All statements are about the state reached by adding the stream one
observation at a time. `m_k = sumPow xs (mean xs) k / n` is the exact k-th central moment.
The model mirrors the crate after the `fix:` commit for `sample_skewness`/`sample_excess_kurtosis`
(DESIGN.md section 1); `sample_skewness_eq` and `sample_excess_kurtosis_eq` are false of the code
before it. The forward-error envelopes are measured by the harness, not proved here.
-/
open Avg MSpec
set_option linter.unusedSectionVars false

namespace Props.C10

/-! ## below the minimum sample size (any carrier, bit for bit) -/
section anyCarrier
variable {α : Type} [Add α] [Sub α] [Mul α] [Div α] [Neg α] [NatCast α] [FloatOps α]

/-- fewer than two observations: `sample_variance()` is NaN for Variance, Skewness, Kurtosis and
every `define_moments!` order -/
theorem sample_variance_small (xs : List α) (h : xs.length < 2) :
    (xs.foldl Variance.add Variance.new).sampleVariance = nan
    ∧ (xs.foldl Skewness.add Skewness.new).sampleVariance = nan
    ∧ (xs.foldl Kurtosis.add Kurtosis.new).sampleVariance = nan
    ∧ ∀ N, (xs.foldl (Moments.add N) (Moments.new N)).sampleVariance = nan := by
  refine ⟨?_, ?_, ?_, ?_⟩
  · simp only [Variance.sampleVariance, c10_variance_fold_n, h, if_true]
  · simp only [Skewness.sampleVariance, Variance.sampleVariance, c10_skewness_fold_n, h, if_true]
  · simp only [Kurtosis.sampleVariance, Skewness.sampleVariance, Variance.sampleVariance,
      c10_kurtosis_fold_n, h, if_true]
  · intro N
    simp only [Moments.sampleVariance, momN_fold_new_n, h, if_true]

/-- the same for `WeightedMeanWithError` fed (sample, weight) pairs -/
theorem wmwe_sample_variance_small (ps : List (α × α)) (h : ps.length < 2) :
    (ps.foldl (fun s p => s.add p.1 p.2) WeightedMeanWithError.new).sampleVariance = nan := by
  have hl : (ps.map Prod.fst).length < 2 := by simpa using h
  simp only [WeightedMeanWithError.sampleVariance, c10_wmwe_fold_unweighted, WeightedMeanWithError.new,
    Variance.sampleVariance, c10_variance_fold_n, hl, if_true]

/-- `variance_of_mean()`: NaN on the empty estimator, 0 after one observation, and
`sample_variance()/n` from two observations on; `error()` is its square root. Bit for bit. -/
theorem variance_of_mean_def (xs : List α) :
    let s := xs.foldl Variance.add Variance.new
    (xs.length = 0 → s.varianceOfMean = nan)
    ∧ (xs.length = 1 → s.varianceOfMean = ((0:Nat):α))
    ∧ (2 ≤ xs.length → s.varianceOfMean = s.sampleVariance / ((xs.length : Nat) : α))
    ∧ s.error = FloatOps.sqrt s.varianceOfMean := by
  refine ⟨?_, ?_, ?_, rfl⟩
  · intro h; simp only [Variance.varianceOfMean, c10_variance_fold_n, h, if_true]
  · intro h; simp [Variance.varianceOfMean, c10_variance_fold_n, h]
  · intro h
    have h0 : ¬ xs.length = 0 := by omega
    have h1 : ¬ xs.length = 1 := by omega
    simp only [Variance.varianceOfMean, c10_variance_fold_n, h0, h1, if_false]

/-- `Skewness::error_mean()` and `Kurtosis::error_mean()` are `Variance::error()` of the same stream,
bit for bit -/
theorem error_mean_agree (xs : List α) :
    (xs.foldl Skewness.add Skewness.new).errorMean = (xs.foldl Variance.add Variance.new).error
    ∧ (xs.foldl Kurtosis.add Kurtosis.new).errorMean = (xs.foldl Variance.add Variance.new).error := by
  constructor
  · simp only [Skewness.errorMean, Skewness.fold_avg]; rfl
  · simp only [Kurtosis.errorMean, Skewness.errorMean, Kurtosis.fold_avg, Skewness.fold_avg]; rfl

/-- `sample_skewness()` of every `define_moments!` order: NaN for the empty sample, 0 for one
observation; `sample_excess_kurtosis()` is NaN below four observations. Bit for bit. -/
theorem moments_small (N : Nat) (xs : List α) :
    let s := xs.foldl (Moments.add N) (Moments.new N)
    (xs.length = 0 → s.sampleSkewness = nan)
    ∧ (xs.length = 1 → s.sampleSkewness = ((0:Nat):α))
    ∧ (xs.length < 4 → s.sampleExcessKurtosis = nan) := by
  refine ⟨?_, ?_, ?_⟩
  · intro h; simp only [Moments.sampleSkewness, momN_fold_new_n, h, if_true]
  · intro h; simp [Moments.sampleSkewness, momN_fold_new_n, h]
  · intro h; simp only [Moments.sampleExcessKurtosis, momN_fold_new_n, h, if_true]
end anyCarrier

/-! ## sample variance = population variance · n/(n-1) -/
section field
variable {K : Type} [Field K] [CharZero K] [FloatOps K]

/-- Variance (= MeanWithError), n ≥ 2: `sample_variance = population_variance · n/(n-1)
= Σ(x-mean)²/(n-1)`, and `population_variance = Σ(x-mean)²/n` -/
theorem variance_sample_variance (xs : List K) (h : 2 ≤ xs.length) :
    let s := xs.foldl Variance.add Variance.new
    s.sampleVariance = s.populationVariance * ((xs.length : K) / ((xs.length : K) - 1))
    ∧ s.sampleVariance = sumPow xs (mean xs) 2 / ((xs.length : K) - 1)
    ∧ s.populationVariance = sumPow xs (mean xs) 2 / (xs.length : K) := by
  simp only [c10_variance_fold]; exact c10_canonV_sample xs h

/-- Skewness, n ≥ 2 -/
theorem skewness_sample_variance (xs : List K) (h : 2 ≤ xs.length) :
    let s := xs.foldl Skewness.add Skewness.new
    s.sampleVariance = s.populationVariance * ((xs.length : K) / ((xs.length : K) - 1))
    ∧ s.sampleVariance = sumPow xs (mean xs) 2 / ((xs.length : K) - 1)
    ∧ s.populationVariance = sumPow xs (mean xs) 2 / (xs.length : K) := by
  simp only [Skewness.sampleVariance, Skewness.populationVariance, c10_skewness_fold_avg]
  exact c10_canonV_sample xs h

/-- Kurtosis, n ≥ 2 -/
theorem kurtosis_sample_variance (xs : List K) (h : 2 ≤ xs.length) :
    let s := xs.foldl Kurtosis.add Kurtosis.new
    s.sampleVariance = s.populationVariance * ((xs.length : K) / ((xs.length : K) - 1))
    ∧ s.sampleVariance = sumPow xs (mean xs) 2 / ((xs.length : K) - 1)
    ∧ s.populationVariance = sumPow xs (mean xs) 2 / (xs.length : K) := by
  simp only [Kurtosis.sampleVariance, Kurtosis.populationVariance, Skewness.sampleVariance,
    Skewness.populationVariance, c10_kurtosis_fold_avg]
  exact c10_canonV_sample xs h

/-- WeightedMeanWithError fed (sample, weight) pairs, n ≥ 2, whatever the weights: the variance
accessors are those of the samples -/
theorem wmwe_sample_variance (ps : List (K × K)) (h : 2 ≤ ps.length) :
    let s := ps.foldl (fun s p => s.add p.1 p.2) WeightedMeanWithError.new
    let xs := ps.map Prod.fst
    s.sampleVariance = s.populationVariance * ((xs.length : K) / ((xs.length : K) - 1))
    ∧ s.sampleVariance = sumPow xs (mean xs) 2 / ((xs.length : K) - 1)
    ∧ s.populationVariance = sumPow xs (mean xs) 2 / (xs.length : K) := by
  have hl : 2 ≤ (ps.map Prod.fst).length := by simpa using h
  simp only [WeightedMeanWithError.sampleVariance, WeightedMeanWithError.populationVariance,
    c10_wmwe_fold_unweighted, WeightedMeanWithError.new, c10_variance_fold]
  exact c10_canonV_sample _ hl

/-- `define_moments!(T, N)`, every N ≥ 2, n ≥ 2: `sample_variance = central_moment(2) · n/(n-1)
= Σ(x-mean)²/(n-1)` -/
theorem moments_sample_variance (N : Nat) (hN : 2 ≤ N) (xs : List K) (h : 2 ≤ xs.length) :
    let s := xs.foldl (Moments.add N) (Moments.new N)
    (∀ v, s.centralMoment N 2 = .val v → s.sampleVariance = v * ((xs.length : K) / ((xs.length : K) - 1)))
    ∧ s.centralMoment N 2 = .val (sumPow xs (mean xs) 2 / (xs.length : K))
    ∧ s.sampleVariance = sumPow xs (mean xs) 2 / ((xs.length : K) - 1) := by
  have hne : xs ≠ [] := by rintro rfl; simp at h
  have hcm := canonM_centralMoment N xs 2 (le_refl 2) hN hne
  simp only [MSpec.moments_fold]
  refine ⟨?_, hcm, (c10_canonM_sample N hN xs h).2⟩
  intro v hv
  rw [hcm] at hv
  cases hv
  exact (c10_canonM_sample N hN xs h).1

/-- `variance_of_mean = Σ(x-mean)²/(n-1)/n` for n ≥ 2 (with `variance_of_mean_def`: = sample_variance/n) -/
theorem variance_of_mean_eq (xs : List K) (h : 2 ≤ xs.length) :
    (xs.foldl Variance.add Variance.new).varianceOfMean
      = sumPow xs (mean xs) 2 / ((xs.length : K) - 1) / (xs.length : K) := by
  rw [(variance_of_mean_def xs).2.2.1 h, (variance_sample_variance xs h).2.1]

/-- `sample_excess_kurtosis()`, every order N ≥ 4, n ≥ 4, non-zero spread:
`(n-1)/((n-2)(n-3)) · ((n+1)(m4/m2² - 3) + 6)` with m_k the exact central moments -/
theorem sample_excess_kurtosis_eq (N : Nat) (hN : 4 ≤ N) (xs : List K) (h : 4 ≤ xs.length)
    (hv : sumPow xs (mean xs) 2 ≠ 0) :
    (xs.foldl (Moments.add N) (Moments.new N)).sampleExcessKurtosis
      = ((xs.length : K) - 1) / (((xs.length : K) - 2) * ((xs.length : K) - 3))
        * (((xs.length : K) + 1)
            * (sumPow xs (mean xs) 4 / (xs.length : K) / (sumPow xs (mean xs) 2 / (xs.length : K))^2 - 3) + 6) := by
  rw [MSpec.moments_fold]; exact c10_canonM_kurt N hN xs h hv
end field

/-! ## over ℝ: `error`, `sample_skewness` -/

/-- `error() = sqrt(sample_variance/n)`, n ≥ 2 -/
theorem error_eq (xs : List ℝ) (h : 2 ≤ xs.length) :
    (xs.foldl Variance.add Variance.new).error
      = Real.sqrt (sumPow xs (mean xs) 2 / ((xs.length : ℝ) - 1) / (xs.length : ℝ)) := by
  unfold Variance.error
  rw [variance_of_mean_eq xs h]
  rfl

/-- `sample_skewness()`, every order N ≥ 3, n ≥ 3, non-zero spread: the adjusted Fisher-Pearson
coefficient `sqrt(n(n-1))/(n-2) · m3/m2^1.5` -/
theorem sample_skewness_eq (N : Nat) (hN : 3 ≤ N) (xs : List ℝ) (h : 3 ≤ xs.length)
    (hv : sumPow xs (mean xs) 2 ≠ 0) :
    (xs.foldl (Moments.add N) (Moments.new N)).sampleSkewness
      = Real.sqrt ((xs.length : ℝ) * ((xs.length : ℝ) - 1)) / ((xs.length : ℝ) - 2)
          * (sumPow xs (mean xs) 3 / (xs.length : ℝ))
          / (sumPow xs (mean xs) 2 / (xs.length : ℝ)) ^ ((3:ℝ)/2) := by
  rw [MSpec.moments_fold]; exact c10_canonM_skew N hN xs h hv

/-- the sign of `sample_skewness()` is the sign of m3, negatively skewed data included: it is m3
times a positive factor -/
theorem sample_skewness_sign (N : Nat) (hN : 3 ≤ N) (xs : List ℝ) (h : 3 ≤ xs.length)
    (hv : sumPow xs (mean xs) 2 ≠ 0) :
    let sk := (xs.foldl (Moments.add N) (Moments.new N)).sampleSkewness
    let m3 := sumPow xs (mean xs) 3 / (xs.length : ℝ)
    (0 < sk ↔ 0 < m3) ∧ (sk < 0 ↔ m3 < 0) ∧ (sk = 0 ↔ m3 = 0) := by
  have hc := c10_skew_coeff_pos xs h hv
  have he := sample_skewness_eq N hN xs h hv
  simp only
  set c := Real.sqrt ((xs.length : ℝ) * ((xs.length : ℝ) - 1)) / ((xs.length : ℝ) - 2)
          / (sumPow xs (mean xs) 2 / (xs.length : ℝ)) ^ ((3:ℝ)/2) with hcdef
  have : (xs.foldl (Moments.add N) (Moments.new N)).sampleSkewness
      = c * (sumPow xs (mean xs) 3 / (xs.length : ℝ)) := by
    rw [he, hcdef]; ring
  rw [this]
  refine ⟨?_, ?_, ?_⟩
  · exact mul_pos_iff_of_pos_left hc
  · constructor
    · intro hlt
      by_contra hge
      have := mul_nonneg hc.le (not_lt.mp hge)
      linarith
    · intro hlt; exact mul_neg_of_pos_of_neg hc hlt
  · rw [mul_eq_zero]
    constructor
    · rintro (h0 | h0)
      · exact absurd h0 (ne_of_gt hc)
      · exact h0
    · intro h0; exact Or.inr h0

/-- two observations: the method-of-moments branch `m3 / (n · m2/(n-1))^1.5`, whose numerator m3 is
exactly 0; with non-zero spread (`a ≠ b`) the denominator is positive, so the value is 0 -/
theorem sample_skewness_two (N : Nat) (hN : 3 ≤ N) (a b : ℝ) :
    let s := ([a, b] : List ℝ).foldl (Moments.add N) (Moments.new N)
    let m2 := sumPow [a, b] (mean [a, b]) 2 / 2
    let m3 := sumPow [a, b] (mean [a, b]) 3 / 2
    s.sampleSkewness = m3 / (2 * (m2 / (2 - 1))) ^ ((3:ℝ)/2)
    ∧ m3 = 0
    ∧ (a ≠ b → 0 < (2 * (m2 / (2 - 1))) ^ ((3:ℝ)/2) ∧ s.sampleSkewness = 0) := by
  have hform := c10_canonM_skew_two N hN a b
  have h3 := c10_two_m3 a b
  simp only [MSpec.moments_fold]
  refine ⟨hform, by rw [h3]; simp, ?_⟩
  intro hab
  constructor
  · apply Real.rpow_pos_of_pos
    rw [c10_two_m2]
    have : 0 < (a - b)^2 := by
      have : a - b ≠ 0 := sub_ne_zero.mpr hab
      positivity
    positivity
  · rw [hform, h3]; simp

/-! ## non-vacuity -/

/-- the witness of DESIGN.md section 1 (1,2,3,10; positively skewed) meets every hypothesis -/
example : 4 ≤ ([1, 2, 3, 10] : List ℝ).length ∧ sumPow ([1, 2, 3, 10] : List ℝ) (mean [1, 2, 3, 10]) 2 ≠ 0
    ∧ 0 < sumPow ([1, 2, 3, 10] : List ℝ) (mean [1, 2, 3, 10]) 3 := by
  norm_num [mean, sumPow]

/-- and its mirror image is negatively skewed -/
example : sumPow ([-1, -2, -3, -10] : List ℝ) (mean [-1, -2, -3, -10]) 2 ≠ 0
    ∧ sumPow ([-1, -2, -3, -10] : List ℝ) (mean [-1, -2, -3, -10]) 3 < 0 := by
  norm_num [mean, sumPow]

/-- the theorem applied to the witness: order 4, data 1,2,3,10, sample excess kurtosis 807/250 = 3.228
(the unfixed code returned -6.065) -/
example : (([1, 2, 3, 10] : List ℝ).foldl (Moments.add 4) (Moments.new 4)).sampleExcessKurtosis = 807 / 250 := by
  rw [sample_excess_kurtosis_eq 4 (le_refl 4) _ (by simp) (by norm_num [mean, sumPow])]
  norm_num [mean, sumPow]

end Props.C10

#print axioms Props.C10.sample_variance_small
#print axioms Props.C10.wmwe_sample_variance_small
#print axioms Props.C10.variance_of_mean_def
#print axioms Props.C10.error_mean_agree
#print axioms Props.C10.moments_small
#print axioms Props.C10.variance_sample_variance
#print axioms Props.C10.skewness_sample_variance
#print axioms Props.C10.kurtosis_sample_variance
#print axioms Props.C10.wmwe_sample_variance
#print axioms Props.C10.moments_sample_variance
#print axioms Props.C10.variance_of_mean_eq
#print axioms Props.C10.sample_excess_kurtosis_eq
#print axioms Props.C10.error_eq
#print axioms Props.C10.sample_skewness_eq
#print axioms Props.C10.sample_skewness_sign
#print axioms Props.C10.sample_skewness_two
