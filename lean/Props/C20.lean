import AvgModel.Ingest
import AvgModel.Moments4
import AvgModel.MomentsN
import AvgModel.Weighted
import AvgModel.Quantile

/-!
# C20 - every ingestion path builds the same estimator; `concatenate!` adds nothing

Carrier: O (any carrier; in fact any state type `σ`, any item type `β`, any `new : σ`, any
`add : σ → β → σ`) - so the statements hold bit for bit for IEEE doubles and for every estimator of the
crate at once: `Mean`, `Variance`, `Skewness`, `Kurtosis`, `Moments N`, `Min`, `Max`, `Quantile`
(items `f64`) and `WeightedMean`, `WeightedMeanWithError`, `Covariance` (items `(f64, f64)`, through
`Ingest.addPairItem`). The model of the ingestion paths is `AvgModel/Ingest.lean`.

`new()` and `default()` are the same function in the crate (`impl Default { fn default() { Self::new() } }`)
and the same term in the model, so every statement about `new` is a statement about `default()` too.
-/
open Avg Avg.Ingest

namespace Props.C20
variable {σ σ₁ σ₂ σ₃ β ρ : Type}

/-! ## add loop, `from_iter`, `extend`, in any number of pieces -/

/-- A hand-written `for x in xs { e.add(x) }` loop on a state `e` is the left fold of `add`. -/
theorem addLoop_eq_foldl (add : σ → β → σ) (e : σ) (xs : List β) :
    addLoop add e xs = xs.foldl add e := by
  induction xs generalizing e with
  | nil => rfl
  | cons x xs ih => simp only [addLoop, List.foldl_cons, ih]

/-- `collect()` (from values) builds exactly the state an `add` loop on `new()` builds. -/
theorem fromIter_eq_addLoop (new : σ) (add : σ → β → σ) (xs : List β) :
    fromIter new add xs = addLoop add new xs := (addLoop_eq_foldl add new xs).symm

/-- `extend` builds exactly the state an `add` loop on the same estimator builds. -/
theorem extend_eq_addLoop (add : σ → β → σ) (s : σ) (xs : List β) :
    extend add s xs = addLoop add s xs := (addLoop_eq_foldl add s xs).symm

/-- `collect()` is `extend` applied to `new()`. -/
theorem fromIter_eq_extend_new (new : σ) (add : σ → β → σ) (xs : List β) :
    fromIter new add xs = extend add new xs := rfl

/-- One more `add` after `extend` = `extend` with the item appended (and likewise after `collect`). -/
theorem add_extend (add : σ → β → σ) (s : σ) (xs : List β) (x : β) :
    add (extend add s xs) x = extend add s (xs ++ [x]) := by
  simp only [extend, List.foldl_append, List.foldl_cons, List.foldl_nil]

/-- Extending in two pieces = extending once with the concatenation. -/
theorem extend_append (add : σ → β → σ) (s : σ) (xs ys : List β) :
    extend add (extend add s xs) ys = extend add s (xs ++ ys) := by
  simp only [extend, List.foldl_append]

/-- Extending an existing estimator in any number of pieces (any list of chunks, empty chunks allowed) =
extending it once with all the items. -/
theorem extend_pieces (add : σ → β → σ) (s : σ) (pieces : List (List β)) :
    pieces.foldl (extend add) s = extend add s pieces.flatten := by
  induction pieces generalizing s with
  | nil => rfl
  | cons p ps ih => simp only [List.foldl_cons, ih, List.flatten_cons, extend, List.foldl_append]

/-- `collect()` of the first chunk followed by `extend` with each further chunk = one `collect()` of the
whole sequence. -/
theorem collect_then_extend_pieces (new : σ) (add : σ → β → σ) (first : List β) (pieces : List (List β)) :
    pieces.foldl (extend add) (fromIter new add first) = fromIter new add (first ++ pieces.flatten) := by
  rw [extend_pieces]; simp only [extend, fromIter, List.foldl_append]

/-- Every split of a sequence into three parts `xs ++ ys ++ zs`: collect `xs`, extend with `ys`, then call
`add` in a loop over `zs` - the state is that of collecting the whole sequence. (Any of the parts may be
empty, so this contains collect-only, extend-only and loop-only.) -/
theorem collect_extend_loop (new : σ) (add : σ → β → σ) (xs ys zs : List β) :
    addLoop add (extend add (fromIter new add xs) ys) zs = fromIter new add (xs ++ ys ++ zs) := by
  simp only [addLoop_eq_foldl, extend, fromIter, List.foldl_append]

/-- The three stages in any other order give the same state as well (loop, then extend, then extend
again...): all are the one `add` loop. -/
theorem loop_extend_extend (new : σ) (add : σ → β → σ) (xs ys zs : List β) :
    extend add (extend add (addLoop add new xs) ys) zs = addLoop add new (xs ++ ys ++ zs) := by
  simp only [addLoop_eq_foldl, extend, List.foldl_append]

/-! ## value and reference paths -/

/-- `collect()` from an iterator of references = `collect()` from the dereferenced values. -/
theorem fromIterRef_eq (deref : ρ → β) (new : σ) (add : σ → β → σ) (rs : List ρ) :
    fromIterRef deref new add rs = fromIter new add (rs.map deref) := by
  simp only [fromIterRef, fromIter, List.foldl_map]

/-- `extend` from an iterator of references = `extend` with the dereferenced values. -/
theorem extendRef_eq (deref : ρ → β) (add : σ → β → σ) (s : σ) (rs : List ρ) :
    extendRef deref add s rs = extend add s (rs.map deref) := by
  simp only [extendRef, extend, List.foldl_map]

/-- With a reference represented by the value it points to (`&x ↦ x`): by-reference `collect` and
by-value `collect` of the same slice coincide. -/
theorem fromIterRef_id (new : σ) (add : σ → β → σ) (xs : List β) :
    fromIterRef id new add xs = fromIter new add xs := by
  rw [fromIterRef_eq, List.map_id]

/-- by-reference `extend` and by-value `extend` of the same slice coincide -/
theorem extendRef_id (add : σ → β → σ) (s : σ) (xs : List β) :
    extendRef id add s xs = extend add s xs := by
  rw [extendRef_eq, List.map_id]

/-- All paths mixed: collect by reference, extend by value, extend by reference, then an `add` loop -
equal to one by-value `collect` of all the values in order. -/
theorem mixed_paths (deref : ρ → β) (new : σ) (add : σ → β → σ) (r1 : List ρ) (v2 : List β) (r3 : List ρ)
    (v4 : List β) :
    addLoop add (extendRef deref add (extend add (fromIterRef deref new add r1) v2) r3) v4
      = fromIter new add (r1.map deref ++ v2 ++ r3.map deref ++ v4) := by
  simp only [addLoop_eq_foldl, extendRef, extend, fromIterRef, fromIter, List.foldl_append, List.foldl_map]

/-! ## pair estimators (`WeightedMean`, `WeightedMeanWithError`, `Covariance`) -/

/-- For an estimator whose `add` takes two numbers, `collect()` from pairs is the fold of `add s p.1 p.2`. -/
theorem fromIter_pair {γ δ : Type} (new : σ) (add2 : σ → γ → δ → σ) (ps : List (γ × δ)) :
    fromIter new (addPairItem add2) ps = ps.foldl (fun s p => add2 s p.1 p.2) new := rfl

section pairs
variable {α : Type} [Add α] [Sub α] [Mul α] [Div α] [NatCast α] [FloatOps α]

/-- `WeightedMean`: every split between collect / extend / add loop of (value, weight) pairs builds the
state of one `collect()`; by-reference items (`&(x, w)`) give the same state as by-value items. -/
theorem weightedMean_paths (xs ys zs : List (α × α)) :
    addLoop (addPairItem WeightedMean.add)
        (extend (addPairItem WeightedMean.add) (fromIter WeightedMean.new (addPairItem WeightedMean.add) xs) ys) zs
      = fromIter WeightedMean.new (addPairItem WeightedMean.add) (xs ++ ys ++ zs)
    ∧ fromIterRef id WeightedMean.new (addPairItem WeightedMean.add) xs
      = fromIter (WeightedMean.new : WeightedMean α) (addPairItem WeightedMean.add) xs
    ∧ ∀ s : WeightedMean α, extendRef id (addPairItem WeightedMean.add) s xs
      = extend (addPairItem WeightedMean.add) s xs :=
  ⟨collect_extend_loop _ _ xs ys zs, fromIterRef_id _ _ xs, fun s => extendRef_id _ s xs⟩

/-- `WeightedMeanWithError`: the same. -/
theorem weightedMeanWithError_paths (xs ys zs : List (α × α)) :
    addLoop (addPairItem WeightedMeanWithError.add)
        (extend (addPairItem WeightedMeanWithError.add)
          (fromIter WeightedMeanWithError.new (addPairItem WeightedMeanWithError.add) xs) ys) zs
      = fromIter WeightedMeanWithError.new (addPairItem WeightedMeanWithError.add) (xs ++ ys ++ zs)
    ∧ fromIterRef id WeightedMeanWithError.new (addPairItem WeightedMeanWithError.add) xs
      = fromIter (WeightedMeanWithError.new : WeightedMeanWithError α) (addPairItem WeightedMeanWithError.add) xs
    ∧ ∀ s : WeightedMeanWithError α, extendRef id (addPairItem WeightedMeanWithError.add) s xs
      = extend (addPairItem WeightedMeanWithError.add) s xs :=
  ⟨collect_extend_loop _ _ xs ys zs, fromIterRef_id _ _ xs, fun s => extendRef_id _ s xs⟩

omit [FloatOps α] in
/-- `Covariance` (items `(x, y)`): the same. -/
theorem covariance_paths (xs ys zs : List (α × α)) :
    addLoop (addPairItem Covariance.add)
        (extend (addPairItem Covariance.add) (fromIter Covariance.new (addPairItem Covariance.add) xs) ys) zs
      = fromIter Covariance.new (addPairItem Covariance.add) (xs ++ ys ++ zs)
    ∧ fromIterRef id Covariance.new (addPairItem Covariance.add) xs
      = fromIter (Covariance.new : Covariance α) (addPairItem Covariance.add) xs
    ∧ ∀ s : Covariance α, extendRef id (addPairItem Covariance.add) s xs
      = extend (addPairItem Covariance.add) s xs :=
  ⟨collect_extend_loop _ _ xs ys zs, fromIterRef_id _ _ xs, fun s => extendRef_id _ s xs⟩

/-! ## `Estimate::estimate` is the headline statistic -/

omit [Add α] in
/-- `estimate()` of each `Estimate` type is, as a function, the type's headline accessor - so it returns
the same bits on every state: `Mean → mean`, `Variance → population_variance`, `Skewness → skewness`,
`Kurtosis → kurtosis`, `Min → min`, `Max → max`, `Quantile → quantile`. -/
theorem estimate_eq_headline :
    (∀ s : Mean α, s.estimate = s.mean) ∧ (∀ s : Variance α, s.estimate = s.populationVariance)
    ∧ (∀ s : Skewness α, s.estimate = s.skewness) ∧ (∀ s : Kurtosis α, s.estimate = s.kurtosis)
    ∧ (∀ s : Avg.Min α, s.estimate = s.min) ∧ (∀ s : Avg.Max α, s.estimate = s.max) :=
  ⟨fun _ => rfl, fun _ => rfl, fun _ => rfl, fun _ => rfl, fun _ => rfl, fun _ => rfl⟩

/-- `Quantile::estimate() = quantile()` -/
theorem quantile_estimate_eq [IntCast α] (s : Quantile α) : s.estimate = s.quantile := rfl

end pairs

/-! ## `concatenate!` -/

/-- A two-field `concatenate!` struct after `collect()`: its first field is in exactly the state the first
estimator reaches when it collects the same sequence alone - hence every forwarded statistic
(`self.f1.statistic()`) is bit-identical. -/
theorem concat_fst (new₁ : σ₁) (new₂ : σ₂) (add₁ : σ₁ → β → σ₁) (add₂ : σ₂ → β → σ₂) (xs : List β) :
    (fromIter (new₁, new₂) (addBoth add₁ add₂) xs).1 = fromIter new₁ add₁ xs := by
  unfold fromIter
  induction xs generalizing new₁ new₂ with
  | nil => rfl
  | cons x xs ih => simp only [List.foldl_cons, addBoth]; exact ih _ _

/-- ... and its second field is in the state of the second estimator collecting alone. -/
theorem concat_snd (new₁ : σ₁) (new₂ : σ₂) (add₁ : σ₁ → β → σ₁) (add₂ : σ₂ → β → σ₂) (xs : List β) :
    (fromIter (new₁, new₂) (addBoth add₁ add₂) xs).2 = fromIter new₂ add₂ xs := by
  unfold fromIter
  induction xs generalizing new₁ new₂ with
  | nil => rfl
  | cons x xs ih => simp only [List.foldl_cons, addBoth]; exact ih _ _

/-- The whole struct is the pair of the separately built estimators; this holds from any starting states
(so also for `add` loops and `extend`-like use of a concatenated struct). -/
theorem concat_pair (s₁ : σ₁) (s₂ : σ₂) (add₁ : σ₁ → β → σ₁) (add₂ : σ₂ → β → σ₂) (xs : List β) :
    fromIter (s₁, s₂) (addBoth add₁ add₂) xs = (fromIter s₁ add₁ xs, fromIter s₂ add₂ xs) :=
  Prod.ext (concat_fst ..) (concat_snd ..)

/-- Every statistic `stat` forwarded to field 1 / field 2 of the struct returns what the underlying
estimator reports on the same data (for any accessor, into any type). -/
theorem concat_statistic {τ : Type} (new₁ : σ₁) (new₂ : σ₂) (add₁ : σ₁ → β → σ₁) (add₂ : σ₂ → β → σ₂)
    (stat₁ : σ₁ → τ) (stat₂ : σ₂ → τ) (xs : List β) :
    stat₁ (fromIter (new₁, new₂) (addBoth add₁ add₂) xs).1 = stat₁ (fromIter new₁ add₁ xs)
    ∧ stat₂ (fromIter (new₁, new₂) (addBoth add₁ add₂) xs).2 = stat₂ (fromIter new₂ add₂ xs) := by
  rw [concat_fst, concat_snd]; exact ⟨rfl, rfl⟩

/-- Three fields (a nested pair; more fields nest the same way): each field is the estimator alone. -/
theorem concat3 (n₁ : σ₁) (n₂ : σ₂) (n₃ : σ₃) (a₁ : σ₁ → β → σ₁) (a₂ : σ₂ → β → σ₂) (a₃ : σ₃ → β → σ₃)
    (xs : List β) :
    fromIter (n₁, n₂, n₃) (addBoth a₁ (addBoth a₂ a₃)) xs
      = (fromIter n₁ a₁ xs, fromIter n₂ a₂ xs, fromIter n₃ a₃ xs) := by
  rw [concat_pair, concat_pair]

private theorem zipWith_zipWith_left {A S T : Type} (f : A → S → T) (g : A → S → S) (as : List A) (ss : List S) :
    List.zipWith f as (List.zipWith g as ss) = List.zipWith (fun a s => f a (g a s)) as ss := by
  induction as generalizing ss with
  | nil => rfl
  | cons a as ih => cases ss with
    | nil => rfl
    | cons s ss => simp only [List.zipWith_cons_cons, ih]

/-- Any number of fields (a list of field states with one `add` per field): after `collect()`, field `i` is
the `collect()` of estimator `i` alone, for every `i`. -/
theorem concat_list (adds : List (σ → β → σ)) (news : List σ) (h : adds.length = news.length) (xs : List β) :
    fromIter news (addAll adds) xs = List.zipWith (fun add new => fromIter new add xs) adds news := by
  unfold fromIter
  induction xs generalizing news with
  | nil =>
    simp only [List.foldl_nil]
    induction adds generalizing news with
    | nil => cases news with
      | nil => rfl
      | cons _ _ => simp at h
    | cons a as ih => cases news with
      | nil => simp at h
      | cons s ss =>
        simp only [List.zipWith_cons_cons]
        rw [← ih ss (by simpa using h)]
  | cons x xs ih =>
    simp only [List.foldl_cons]
    rw [ih (addAll adds news x) (by simp [addAll, h])]
    exact zipWith_zipWith_left _ _ adds news

section instances
variable {α : Type} [Add α] [Sub α] [Mul α] [Div α] [NatCast α] [IntCast α] [FloatOps α]

omit [Add α] [Sub α] [Mul α] [Div α] [NatCast α] [IntCast α] in
/-- The doc example `concatenate!(MinMax, [Min, min], [Max, max])`: `min()` and `max()` of the struct are
those of `Min` and `Max` collecting alone. -/
theorem concat_minmax (xs : List α) :
    (fromIter (Min.new, Max.new) (addBoth Min.add Max.add) xs).1.min = (fromIter Min.new Min.add xs).min
    ∧ (fromIter (Min.new, Max.new) (addBoth Min.add Max.add) xs).2.max = (fromIter Max.new Max.add xs).max :=
  concat_statistic _ _ _ _ Avg.Min.min Avg.Max.max xs

/-- The doc example `concatenate!(Estimator, [Variance, variance, mean, sample_variance],
[Quantile, quantile, quantile])` for any starting `Quantile` state `q0` (`Quantile::new(p)` when it does not
panic): `mean`, `sample_variance` and `quantile` are those of the estimators alone. -/
theorem concat_variance_quantile (q0 : Quantile α) (xs : List α) :
    let e := fromIter (Variance.new, q0) (addBoth Variance.add Quantile.add) xs
    e.1.mean = (fromIter Variance.new Variance.add xs).mean
    ∧ e.1.sampleVariance = (fromIter Variance.new Variance.add xs).sampleVariance
    ∧ e.2.quantile = (fromIter q0 Quantile.add xs).quantile := by
  intro e
  have h : e = (fromIter Variance.new Variance.add xs, fromIter q0 Quantile.add xs) := concat_pair ..
  rw [h]; exact ⟨rfl, rfl, rfl⟩

end instances

/-- non-vacuity: a concrete split on the carrier `Nat` (truncating division, every class the model needs)
computes, and the three-part path gives literally the same state as `collect()`. -/
example :
    addLoop Mean.add (extend Mean.add (fromIter Mean.new Mean.add [4, 8]) [12]) [16, 20]
      = (⟨12, 5⟩ : Mean Nat)
    ∧ fromIter Mean.new Mean.add [4, 8, 12, 16, 20] = (⟨12, 5⟩ : Mean Nat) := by decide

/-- non-vacuity of `concat_list`: two fields -/
example : fromIter [Mean.new, Mean.new] (addAll [Mean.add, fun s x => Mean.add s (2 * x)]) [4, 8]
    = ([⟨6, 2⟩, ⟨12, 2⟩] : List (Mean Nat)) := by decide

end Props.C20

#print axioms Props.C20.addLoop_eq_foldl
#print axioms Props.C20.fromIter_eq_addLoop
#print axioms Props.C20.extend_eq_addLoop
#print axioms Props.C20.fromIter_eq_extend_new
#print axioms Props.C20.add_extend
#print axioms Props.C20.extend_append
#print axioms Props.C20.extend_pieces
#print axioms Props.C20.collect_then_extend_pieces
#print axioms Props.C20.collect_extend_loop
#print axioms Props.C20.loop_extend_extend
#print axioms Props.C20.fromIterRef_eq
#print axioms Props.C20.extendRef_eq
#print axioms Props.C20.fromIterRef_id
#print axioms Props.C20.extendRef_id
#print axioms Props.C20.mixed_paths
#print axioms Props.C20.fromIter_pair
#print axioms Props.C20.weightedMean_paths
#print axioms Props.C20.weightedMeanWithError_paths
#print axioms Props.C20.covariance_paths
#print axioms Props.C20.estimate_eq_headline
#print axioms Props.C20.quantile_estimate_eq
#print axioms Props.C20.concat_fst
#print axioms Props.C20.concat_snd
#print axioms Props.C20.concat_pair
#print axioms Props.C20.concat_statistic
#print axioms Props.C20.concat3
#print axioms Props.C20.concat_list
#print axioms Props.C20.concat_minmax
#print axioms Props.C20.concat_variance_quantile
