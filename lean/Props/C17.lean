import AvgProofs.RoundAccess
import AvgProofs.EffLen
import AvgProofs.RealCarrier
import Mathlib.Data.Rat.Floor
import Mathlib.Tactic.NormNum

/-!
# C17 - variances are never negative and means stay within the data range

Carriers.
* **R0** (`RF r`: an ordered field in which *every* arithmetic operation and every integer-to-float
  conversion is followed by an arbitrary monotone rounding `r.fl` with `fl 0 = 0`; unary minus is
  exact): the sums of squares and every variance accessor are `≥ 0` for every state reachable by
  *any* history of adds and merges of *arbitrary* observations - no restriction on the conditioning
  of the data. `FloatOps (RF r)` is an arbitrary instance: `nan` only occurs in guarded branches.
* **E** (exact arithmetic over any ordered field `K`; `FloatOps K` arbitrary, with `==` read exactly
  where the code branches on it): means are convex combinations, `1 ≤ effective_len ≤ len`,
  `0 ≤ k(1-k/N) ≤ N/4`.

`X.Reach P s` (`AvgProofs/Reach.lean`): `s` is obtained from `X::new()` by finitely many `add`s of
observations satisfying `P` and `merge`s of states so obtained, in any order and nesting; every fold
over a list and every merge tree over chunks is such a history (`ReachBy.foldl`). `anyObs` is the
trivial restriction.

The "up to rounding" clauses of the property for the means, `effective_len` and the bin variances
(the envelopes `12 n u M`, `n 2^-50`, `4u N`) are *not* proved here: they are measured by the harness
(for `Mean.add` streams the `12 n u M` bound is `Props.C01.mean_forward_error`).
-/
open Avg MSpec

namespace Props.C17

/-! ## R0: signs under any monotone rounding, any data, any history -/
section R0
variable {F : Type} [Field F] [LinearOrder F] [IsStrictOrderedRing F] {r : Rnd F}

/-- `Variance`/`MeanWithError`: after any history of adds and merges of arbitrary observations, with
any monotone rounding after every operation, the running sum of squares `sum_2` is not negative. -/
theorem variance_sum2_nonneg {s : Variance (RF r)} (h : Variance.Reach anyObs s) : 0 ≤ s.sum_2.val :=
  Variance.Reach.sum2_nonneg h

/-- Hence `population_variance` (n ≥ 1), `sample_variance` (n ≥ 2) and `variance_of_mean` (n ≥ 1) of
every reachable `Variance` state are not negative (they are `nan` exactly below these counts). -/
theorem variance_accessors_nonneg [FloatOps (RF r)] {s : Variance (RF r)} (h : Variance.Reach anyObs s) :
    (s.len ≠ 0 → 0 ≤ s.populationVariance.val) ∧ (2 ≤ s.len → 0 ≤ s.sampleVariance.val)
    ∧ (s.len ≠ 0 → 0 ≤ s.varianceOfMean.val) :=
  Variance.accessors_nonneg s (Variance.Reach.sum2_nonneg h)

/-- `error()` of a non-empty reachable state is the square root of a non-negative number; so it is
itself a non-negative number for every `sqrt` that maps non-negative numbers to non-negative numbers
(as IEEE `sqrt` does - it returns NaN only for negative arguments). -/
theorem error_real [FloatOps (RF r)] {s : Variance (RF r)} (h : Variance.Reach anyObs s) (hn : s.len ≠ 0) :
    (∃ v : RF r, 0 ≤ v.val ∧ s.error = FloatOps.sqrt v)
    ∧ ((∀ a : RF r, 0 ≤ a.val → 0 ≤ (FloatOps.sqrt a).val) → 0 ≤ s.error.val) := by
  obtain ⟨v, hv, e⟩ := Variance.error_sqrt_nonneg s (Variance.Reach.sum2_nonneg h) hn
  exact ⟨⟨v, hv, e⟩, fun hs => e ▸ hs v hv⟩

/-- `Skewness`: the same for its inner sum of squares and its variance accessors. -/
theorem skewness_variances_nonneg [FloatOps (RF r)] {s : Skewness (RF r)} (h : Skewness.Reach anyObs s) :
    0 ≤ s.avg.sum_2.val ∧ (s.len ≠ 0 → 0 ≤ s.populationVariance.val)
    ∧ (2 ≤ s.len → 0 ≤ s.sampleVariance.val)
    ∧ (s.len ≠ 0 → ∃ v : RF r, 0 ≤ v.val ∧ s.errorMean = FloatOps.sqrt v) := by
  have h2 := Variance.Reach.sum2_nonneg (Skewness.Reach.avg h)
  obtain ⟨a, b, _⟩ := Variance.accessors_nonneg s.avg h2
  exact ⟨h2, a, b, Variance.error_sqrt_nonneg s.avg h2⟩

/-- `Kurtosis`: the same. -/
theorem kurtosis_variances_nonneg [FloatOps (RF r)] {s : Kurtosis (RF r)} (h : Kurtosis.Reach anyObs s) :
    0 ≤ s.avg.avg.sum_2.val ∧ (s.len ≠ 0 → 0 ≤ s.populationVariance.val)
    ∧ (2 ≤ s.len → 0 ≤ s.sampleVariance.val)
    ∧ (s.len ≠ 0 → ∃ v : RF r, 0 ≤ v.val ∧ s.errorMean = FloatOps.sqrt v) :=
  skewness_variances_nonneg (Kurtosis.Reach.avg h)

/-- `Covariance`: after any history of adds of arbitrary pairs and merges, `sum_x_2` and `sum_y_2`
are not negative, hence neither are the population (n ≥ 1) and sample (n ≥ 2) variances of x and y. -/
theorem covariance_variances_nonneg [FloatOps (RF r)] {s : Covariance (RF r)} (h : Covariance.Reach anyObs s) :
    (0 ≤ s.sum_x_2.val ∧ 0 ≤ s.sum_y_2.val)
    ∧ (s.len ≠ 0 → 0 ≤ s.populationVarianceX.val ∧ 0 ≤ s.populationVarianceY.val)
    ∧ (2 ≤ s.len → 0 ≤ s.sampleVarianceX.val ∧ 0 ≤ s.sampleVarianceY.val) :=
  ⟨Covariance.Reach.sums_nonneg h, Covariance.accessors_nonneg s (Covariance.Reach.sums_nonneg h)⟩

/-- `WeightedMeanWithError`: after any history of adds of arbitrary (sample, weight) pairs - weights
of any sign - and merges, the unweighted sum of squares and `weight_sum_sq` are not negative; hence
neither are `population_variance`, `sample_variance` nor (n ≥ 2, total weight not `== 0`)
`variance_of_weighted_mean`, of which `error()` is the square root. -/
theorem weighted_variances_nonneg [FloatOps (RF r)] {s : WeightedMeanWithError (RF r)}
    (h : WeightedMeanWithError.Reach anyObs s) :
    0 ≤ s.unweighted_avg.sum_2.val ∧ 0 ≤ s.weight_sum_sq.val
    ∧ (s.len ≠ 0 → 0 ≤ s.populationVariance.val) ∧ (2 ≤ s.len → 0 ≤ s.sampleVariance.val)
    ∧ (2 ≤ s.len → FloatOps.eqb s.sumWeights ((0:Nat) : RF r) = false →
        0 ≤ s.varianceOfWeightedMean.val ∧ s.error = FloatOps.sqrt s.varianceOfWeightedMean) := by
  have h2 := Variance.Reach.sum2_nonneg
    (WeightedMeanWithError.Reach.unweighted (Q := anyObs) (fun _ _ => trivial) h)
  have hq := WeightedMeanWithError.Reach.weight_sum_sq_nonneg h
  obtain ⟨a, b, _⟩ := Variance.accessors_nonneg s.unweighted_avg h2
  exact ⟨h2, hq, a, b, fun hn hw =>
    ⟨WeightedMeanWithError.varianceOfWeightedMean_nonneg s h2 hq hn hw, rfl⟩⟩

/-- `define_moments!(T, N)` for every order `N ≥ 2`: after any history of adds and merges of arbitrary
observations the array `m` is non-empty and `m[0]` is not negative; hence neither are the second
central moment (n ≥ 1) and `sample_variance` (n ≥ 2). -/
theorem moments_variance_nonneg [FloatOps (RF r)] {N : Nat} (hN : 2 ≤ N) {s : Moments (RF r)}
    (h : Moments.Reach N anyObs s) :
    (∃ m0 rest, s.m = m0 :: rest ∧ 0 ≤ m0.val)
    ∧ (0 < s.len → s.centralMoment N 2 = .val (s.cmRaw 2) ∧ 0 ≤ (s.cmRaw 2).val)
    ∧ (2 ≤ s.len → 0 ≤ s.sampleVariance.val) := by
  have hm := Moments.Reach.m0_nonneg hN h
  obtain ⟨a, b⟩ := Moments.accessors_nonneg s hm
  refine ⟨hm, fun hn => ⟨?_, a hn⟩, b⟩
  simp [Moments.centralMoment, hN]

end R0

/-! ## E: ranges in exact arithmetic over any ordered field -/
section E
variable {K : Type} [Field K] [LinearOrder K] [IsStrictOrderedRing K]

/-- The arithmetic mean `Σx/n` of a non-empty list lies between any lower and upper bound of its
elements (in particular between its minimum and maximum). -/
theorem list_mean_in_range {lo hi : K} (xs : List K) (hne : xs ≠ []) (h : ∀ x ∈ xs, lo ≤ x ∧ x ≤ hi) :
    lo ≤ xs.sum / xs.length ∧ xs.sum / xs.length ≤ hi :=
  mean_mem_range xs hne h

section
variable [FloatOps K]

/-- `Mean`: after any history of adds of observations in `[lo, hi]` and merges, `mean()` of a
non-empty state lies in `[lo, hi]`. -/
theorem mean_in_range {lo hi : K} {s : Mean K} (h : Mean.Reach (fun x => lo ≤ x ∧ x ≤ hi) s)
    (hn : 0 < s.len) : lo ≤ s.mean ∧ s.mean ≤ hi := by
  have := Mean.Reach.inRange h hn
  simpa only [Mean.mean, gt_iff_lt, show 0 < s.n from hn, if_true] using this

/-- In particular for a stream added one observation at a time. -/
theorem mean_fold_in_range {lo hi : K} (xs : List K) (hne : xs ≠ []) (h : ∀ x ∈ xs, lo ≤ x ∧ x ≤ hi) :
    lo ≤ (xs.foldl Mean.add Mean.new).mean ∧ (xs.foldl Mean.add Mean.new).mean ≤ hi := by
  have hr : Mean.Reach (fun x => lo ≤ x ∧ x ≤ hi) (xs.foldl Mean.add Mean.new) :=
    ReachBy.foldl ReachBy.new xs h
  refine mean_in_range hr ?_
  rw [Mean.len, Mean.fold_n]
  exact Nat.lt_of_lt_of_le (List.length_pos_of_ne_nil hne) (Nat.le_add_left _ _)

/-- `Variance`, `Skewness`, `Kurtosis`: the same for their `mean()`, after any history. -/
theorem variance_mean_in_range {lo hi : K} {s : Variance K}
    (h : Variance.Reach (fun x => lo ≤ x ∧ x ≤ hi) s) (hn : 0 < s.len) : lo ≤ s.mean ∧ s.mean ≤ hi :=
  mean_in_range (Variance.Reach.avg h) hn

theorem skewness_mean_in_range {lo hi : K} {s : Skewness K}
    (h : Skewness.Reach (fun x => lo ≤ x ∧ x ≤ hi) s) (hn : 0 < s.len) : lo ≤ s.mean ∧ s.mean ≤ hi :=
  variance_mean_in_range (Skewness.Reach.avg h) hn

theorem kurtosis_mean_in_range {lo hi : K} {s : Kurtosis K}
    (h : Kurtosis.Reach (fun x => lo ≤ x ∧ x ≤ hi) s) (hn : 0 < s.len) : lo ≤ s.mean ∧ s.mean ≤ hi :=
  skewness_mean_in_range (Kurtosis.Reach.avg h) hn

/-- `define_moments!(T, N)`, any order `N`: the same. -/
theorem moments_mean_in_range {lo hi : K} {N : Nat} {s : Moments K}
    (h : Moments.Reach N (fun x => lo ≤ x ∧ x ≤ hi) s) (hn : 0 < s.len) : lo ≤ s.mean ∧ s.mean ≤ hi := by
  have := Moments.Reach.inRange h hn
  simpa only [Moments.mean, gt_iff_lt, show 0 < s.n from hn, if_true] using this

/-- `Covariance`: after any history of adds of pairs with `x ∈ [lox, hix]`, `y ∈ [loy, hiy]` and merges,
`mean_x()` and `mean_y()` of a non-empty state lie in these intervals. -/
theorem covariance_means_in_range {lox hix loy hiy : K} {s : Covariance K}
    (h : Covariance.Reach (fun p => (lox ≤ p.1 ∧ p.1 ≤ hix) ∧ (loy ≤ p.2 ∧ p.2 ≤ hiy)) s) (hn : 0 < s.len) :
    (lox ≤ s.meanX ∧ s.meanX ≤ hix) ∧ (loy ≤ s.meanY ∧ s.meanY ≤ hiy) := by
  have hx := Mean.Reach.inRange (Covariance.Reach.meanX (Q := fun x => lox ≤ x ∧ x ≤ hix) (fun _ hp => hp.1) h) hn
  have hy := Mean.Reach.inRange (Covariance.Reach.meanY (Q := fun y => loy ≤ y ∧ y ≤ hiy) (fun _ hp => hp.2) h) hn
  simp only [Covariance.meanX, Covariance.meanY, gt_iff_lt, show 0 < s.n from hn, if_true]
  exact ⟨hx, hy⟩

/-- `WeightedMean`, `==` read exactly: after any history of adds with non-negative weights, whose
observations of positive weight lie in `[lo, hi]` (`WeightedObs lo hi`), and merges, the total weight
is non-negative and, when the state is not empty (total weight not `== 0`), `mean()` lies in `[lo, hi]`. -/
theorem weighted_mean_in_range (heq : ∀ a b : K, FloatOps.eqb a b = true ↔ a = b) {lo hi : K}
    {s : WeightedMean K} (h : WeightedMean.Reach (WeightedObs lo hi) s) :
    0 ≤ s.sumWeights ∧ (s.isEmpty = false → lo ≤ s.mean ∧ s.mean ≤ hi) := by
  obtain ⟨h0, hr⟩ := WeightedMean.Reach.inRange heq h
  refine ⟨h0, fun he => ?_⟩
  have hne : s.weight_sum ≠ 0 := by
    intro hz
    have : s.isEmpty = true := (heq _ _).mpr (by simpa using hz)
    rw [he] at this; exact Bool.false_ne_true this
  simpa only [WeightedMean.mean, he, Bool.not_false, if_true] using hr hne

/-- `WeightedMeanWithError`: both its weighted and its unweighted mean, after any history. -/
theorem weighted_with_error_means_in_range (heq : ∀ a b : K, FloatOps.eqb a b = true ↔ a = b) {lo hi : K}
    {s : WeightedMeanWithError K}
    (h : WeightedMeanWithError.Reach (fun p => 0 ≤ p.2 ∧ lo ≤ p.1 ∧ p.1 ≤ hi) s) :
    (s.weighted_avg.isEmpty = false → lo ≤ s.weightedMean ∧ s.weightedMean ≤ hi)
    ∧ (0 < s.len → lo ≤ s.unweightedMean ∧ s.unweightedMean ≤ hi) := by
  constructor
  · have hw : WeightedMean.Reach (WeightedObs lo hi) s.weighted_avg :=
      ReachBy.map (fun s => s.weighted_avg) id rfl (fun _ _ => rfl) (fun _ _ => rfl)
        (fun p hp => ⟨hp.1, fun _ => hp.2⟩) h
    exact (weighted_mean_in_range heq hw).2
  · exact variance_mean_in_range
      (WeightedMeanWithError.Reach.unweighted (Q := fun x => lo ≤ x ∧ x ≤ hi) (fun _ hp => hp.2) h)

/-- `effective_len`, `==` read exactly: after any history of adds with non-negative weights and merges,
if the total weight is positive then `1 ≤ effective_len() ≤ len()`. -/
theorem effective_len_in_range (heq : ∀ a b : K, FloatOps.eqb a b = true ↔ a = b)
    {s : WeightedMeanWithError K} (h : WeightedMeanWithError.Reach (fun p => 0 ≤ p.2) s)
    (hpos : 0 < s.sumWeights) : 1 ≤ s.effectiveLen ∧ s.effectiveLen ≤ (s.len : K) :=
  WeightedMeanWithError.Reach.effectiveLen_bounds heq h hpos

/-- Every entry of `variances()` of a non-empty histogram lies in `[0, total/4]`. -/
theorem hist_variances_in_range (h : Hist K) (ht : 0 < h.total) :
    ∀ v ∈ h.variances, 0 ≤ v ∧ v ≤ (h.total : K) / 4 :=
  Hist.variances_range h ht
end

/-- Closed form of the weighted mean: for non-negative weights with positive sum, `Σwx/Σw` lies
between any bounds of the observations that have positive weight. -/
theorem weighted_mean_closed_form_in_range {lo hi : K} (ps : List (K × K))
    (h : ∀ p ∈ ps, 0 ≤ p.2 ∧ (0 < p.2 → lo ≤ p.1 ∧ p.1 ≤ hi))
    (hpos : 0 < (ps.map (fun p => p.2)).sum) :
    lo ≤ (ps.map (fun p => p.2 * p.1)).sum / (ps.map (fun p => p.2)).sum
    ∧ (ps.map (fun p => p.2 * p.1)).sum / (ps.map (fun p => p.2)).sum ≤ hi :=
  weighted_mean_mem_range ps h hpos

/-- Closed form of the effective sample size: for non-negative weights with positive sum,
`1 ≤ (Σw)²/Σw² ≤ #{i : w_i > 0} ≤ n` (Cauchy-Schwarz). -/
theorem effective_len_closed_form_in_range (ws : List K) (h : ∀ w ∈ ws, 0 ≤ w) (hpos : 0 < ws.sum) :
    1 ≤ ws.sum * ws.sum / (ws.map (fun w => w * w)).sum
    ∧ ws.sum * ws.sum / (ws.map (fun w => w * w)).sum ≤ ((ws.filter (fun w => 0 < w)).length : K)
    ∧ (ws.filter (fun w => 0 < w)).length ≤ ws.length :=
  effective_len_bounds ws h hpos

/-- Multinomial bin variance `k(1 - k·(1/N))` lies in `[0, N/4]` for counts `0 ≤ k ≤ N`, `N > 0`. -/
theorem multinomial_variance_in_range (k N : Nat) (hN : 0 < N) (hk : k ≤ N) :
    0 ≤ multinomialVariance ((k : Nat) : K) (((1:Nat):K) / ((N : Nat) : K))
    ∧ multinomialVariance ((k : Nat) : K) (((1:Nat):K) / ((N : Nat) : K)) ≤ (N : K) / 4 :=
  multinomialVariance_range k N hN hk

/-- `variance(i)` of a non-empty histogram is defined for every bin index and lies in `[0, total/4]`. -/
theorem hist_variance_in_range (h : Hist K) (i : Nat) (hi : i < h.bin.length) (ht : 0 < h.total) :
    ∃ v, h.variance i = .val v ∧ 0 ≤ v ∧ v ≤ (h.total : K) / 4 :=
  Hist.variance_range h i hi ht

end E

/-! ## Non-vacuity -/

/-- a monotone rounding that is far from the identity: round down to an integer -/
def floorRnd : Rnd ℚ := ⟨fun x => ((⌊x⌋ : ℤ) : ℚ), fun _ _ h => Int.cast_le.mpr (Int.floor_mono h), by simp⟩

/-- a history with adds after a merge is reachable (so the R0 theorems apply to it) -/
example : Variance.Reach anyObs
    ((((Variance.new : Variance (RF floorRnd)).add ⟨7/2⟩).merge (Variance.new.add ⟨-1/3⟩)).add ⟨10⟩) :=
  ReachBy.add _ _ (ReachBy.merge _ _ (ReachBy.add _ _ ReachBy.new trivial)
    (ReachBy.add _ _ ReachBy.new trivial)) trivial

/-- the hypotheses of the E theorems are met by concrete data: observations in `[1, 6]`, a merge of two
chunks, and the resulting state is non-empty -/
example : Mean.Reach (fun x : ℚ => 1 ≤ x ∧ x ≤ 6)
      ((([1, 2] : List ℚ).foldl Mean.add Mean.new).merge (([3, 6] : List ℚ).foldl Mean.add Mean.new))
    ∧ ((([1, 2] : List ℚ).foldl Mean.add Mean.new).merge (([3, 6] : List ℚ).foldl Mean.add Mean.new))
      = ⟨3, 4⟩ := by
  refine ⟨ReachBy.merge _ _ (ReachBy.foldl ReachBy.new _ ?_) (ReachBy.foldl ReachBy.new _ ?_), ?_⟩
  · intro x hx; simp at hx; rcases hx with rfl | rfl <;> norm_num
  · intro x hx; simp at hx; rcases hx with rfl | rfl <;> norm_num
  · norm_num [Mean.merge, Mean.add, Mean.new]

/-- exact `==` exists (over ℝ), weights `[2, 0, 1]` are non-negative with positive sum, and the bounds
of `effective_len` are attained non-trivially: `(Σw)²/Σw² = 9/5 ∈ [1, 2]`, 2 positive weights of 3 -/
example : (∀ a b : ℝ, FloatOps.eqb a b = true ↔ a = b)
    ∧ (∀ w ∈ ([2, 0, 1] : List ℚ), 0 ≤ w) ∧ 0 < ([2, 0, 1] : List ℚ).sum
    ∧ ([2, 0, 1] : List ℚ).sum * ([2, 0, 1] : List ℚ).sum / (([2, 0, 1] : List ℚ).map (fun w => w * w)).sum = 9/5 := by
  refine ⟨fun a b => by simp [FloatOps.eqb], ?_, by norm_num, by norm_num⟩
  intro w hw; simp at hw; rcases hw with rfl | rfl | rfl <;> norm_num

/-- the bound `N/4` of the bin variance is attained: `k = 2`, `N = 4` gives exactly `1 = 4/4` -/
example : multinomialVariance ((2 : Nat) : ℚ) (((1:Nat):ℚ) / ((4 : Nat) : ℚ)) = 1 := by
  norm_num [multinomialVariance]

end Props.C17

#print axioms Props.C17.variance_sum2_nonneg
#print axioms Props.C17.variance_accessors_nonneg
#print axioms Props.C17.error_real
#print axioms Props.C17.skewness_variances_nonneg
#print axioms Props.C17.kurtosis_variances_nonneg
#print axioms Props.C17.covariance_variances_nonneg
#print axioms Props.C17.weighted_variances_nonneg
#print axioms Props.C17.moments_variance_nonneg
#print axioms Props.C17.list_mean_in_range
#print axioms Props.C17.mean_in_range
#print axioms Props.C17.mean_fold_in_range
#print axioms Props.C17.variance_mean_in_range
#print axioms Props.C17.skewness_mean_in_range
#print axioms Props.C17.kurtosis_mean_in_range
#print axioms Props.C17.moments_mean_in_range
#print axioms Props.C17.covariance_means_in_range
#print axioms Props.C17.weighted_mean_in_range
#print axioms Props.C17.weighted_with_error_means_in_range
#print axioms Props.C17.effective_len_in_range
#print axioms Props.C17.hist_variances_in_range
#print axioms Props.C17.weighted_mean_closed_form_in_range
#print axioms Props.C17.effective_len_closed_form_in_range
#print axioms Props.C17.multinomial_variance_in_range
#print axioms Props.C17.hist_variance_in_range
