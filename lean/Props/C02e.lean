import AvgProofs.SkewMergeErrLin
import AvgProofs.SkewMergeErrV3
import AvgProofs.SkewMergeErrRad
import Props.C02c
import Mathlib.Analysis.Real.Sqrt
import Mathlib.Tactic.NormNum

/-!
# C02 (fourth addendum) - the third-order sum `sum_3` of `Skewness` through EVERY merge tree

The envelope clause of C02 for the state component `sum_3` of `Skewness` (from which `skewness()` is computed):
*proved* for every merge tree, with a bound of the same shape as `Props.C03b.sum3_forward_error` for add-only
streams.

Carrier **R2** (`RF2 r`, `AvgProofs/MeanErr2.lean`): an ordered field `F` in which every `+ - * /` is followed
by a rounding `r.fl` with `|fl t - t| ≤ u·|t|` (standard model: no overflow, no underflow); conversions of
counts are exact. `MTree` is an arbitrary order-preserving binary merge tree over contiguous chunks (empty and
one-element chunks allowed); `Skewness.evalTree t` folds every leaf with `Skewness.add` from `Skewness.new` and
combines the summaries with `Skewness.merge` along the tree. Notation: `n` the number of observations,
`M ≥ max|x_i|`, `mean vs = Σx/n`, `T vs = Σ(x - mean)²` (`VarSpec.T`), `U vs = Σ(x - mean)³` (`SkewSpec.U`),
`γ_i = (1+u)^i - 1` (`SkewErr.g`).

**Exact side** (`sum3_exact_merge`; `n_x = |xs|`, `n_y = |ys|`, `n = n_x+n_y`, `δ = mean ys - mean xs`):
`U(xs++ys) = U xs + U ys + P + Q`, `P = δ³·n_x·n_y·(n_x-n_y)/n²`, `Q = 3·(δ/n)·(n_x·T ys - n_y·T xs)`.
Both cross terms are signed, and `Q` is a difference of two non-negative products: the rounding errors are
relative to the absolute parts `Pa = |δ|³·n_x·n_y·|n_x-n_y|/n²`, `Qa = 3·(|δ|/n)·(n_x·T ys + n_y·T xs)`, and the
natural scale along a tree is `V3T t` := `V3p` of the chunk (`Props.C03b.V3p_def`) at a leaf, the children's scales
plus `Pa + Qa` at a node (`V3T_def`); `|U| ≤ V3T t` (`abs_U_le_V3T`).

**What `Skewness.merge` computes** (`sum3_computed_merge`; 19 rounded operations, `a`, `b`, `S_x`, `S_y` the
*computed* means and sums of squares of the operands): `D = fl(b-a)`, `N = fl(n_x+n_y)`, `Dn = fl(D/N)`,
`A' = fl(fl(fl(fl(fl(D·Dn)·Dn)·n_x)·n_y)·fl(n_x-n_y))`, `B' = fl(fl(3·Dn)·fl(fl(n_x·S_y) - fl(n_y·S_x)))`,
`sum_3' = fl(S3_x + fl(fl(S3_y + A') + B'))`; then the inner `Variance.merge` (bit for bit: `Skewness.mtree_avg`).

**Main results** (`u` unit roundoff; hypothesis `(n+28)·u ≤ 1/64`; `R₀ ≥ 0` with `n·T ≤ R₀²`):

* `cross_termA_rounding_error`: `A'` within relative error `γ15` of `(b-a)³·n_x·n_y·(n_x-n_y)/n²`;
  `cross_termB_rounding_error`: `B'` within `γ8·3·(|b-a|/n)·(n_x·|S_y| + n_y·|S_x|)` of
  `3·((b-a)/n)·(n_x·S_y - n_y·S_x)` - relative to the *sum of the absolute values* of the two products;
  `gamma_numerals`: `γ15 ≤ 15.2u`, `γ8 ≤ 8.1u`.
* `sum3_merge_state_error`: one merge, explicit in the errors of the operands' `sum_3`, `sum_2`, means.
* `sum3_mtree_invariant`: `|sum_3 - U| ≤ (1+u)^(3n)·G3(n, V3T, T)`,
  `G3 = 15·u·n·V + 6·B·n·T + (27/10)·B·Λ·n²·T + (27/10)·B·κ·n³ + (8/5)·B³·n⁴`, for *all* `Λ, κ ≥ 0` with `B² ≤ Λ·κ`
  (`B` the per-observation budget of the mean, `Props.C02b`), via `envelope3_superadditive`.
* **`sum3_mtree_forward_error`**: for EVERY merge tree
  `|sum_3 - U| ≤ 16·n·u·V3T + 65·n·u·M·T + 596·n²·u²·M²·R₀ + 1865·n⁴·u³·M³`
  (add-only stream, `Props.C03b.sum3_forward_error`, `N = n+10`:
  `7·N·u·V3p + 11·N·u·M·T + 13·u·M·R₀² + 30·N²·u²·M²·R₀ + 16·N⁴·u³·M³`; a one-leaf tree has `V3T = V3p`).
* `sum3_mtree_envelope`: if `T ≤ n·σ²`, `n·u·M ≤ σ`: `≤ 16·n·u·V3T + 2526·n²·u·M·σ²` - linear in the
  conditioning `M/σ` relative to the scale `n·σ³`.
* `V3T_le_V3_height`: `V3T t ≤ (320 + 10·height t)·V3`, `V3 = Σ|x - mean|³`; `sum3_mtree_forward_error_V3`.
* `skewness_mtree_state_forward_error`: count, mean, `sum_2`, `sum_3` of `Skewness` after any tree, one
  statement; `kurtosis_mtree_sum3_forward_error`: the inner `sum_3` of `Kurtosis`.

How: (i) the errors `e` of the difference of the computed means perturb `P` by `w·(3δ²e + 3δe² + e³)` and `Q` by
`(3/n)·e·(n_x T_y - n_y T_x)`; the errors `D2` of the two computed sums of squares perturb `Q` by
`(3/n)(δ+e)(n_x·D2_y - n_y·D2_x)`. (ii) `|D2| ≤ (32/31)·G(n,T)` for *every* pair of parameters of the
square-root-free invariant of `Props.C02c.sum2_mtree_invariant`; at each node the pair `B/ρ`, `B·ρ`
(`ρ = |δ| + |e|`) turns `(3/n)·ρ·n_x·|D2_y|` into terms of the four families below, without square roots
(`SkewMerge.zt_bound`). (iii) Four super-additive families carry everything: `u·n·V3T` (growth
`n_y V_x + n_x V_y + n·J ≥ V + n·J/…`, pays the relative roundings and the relative error `(19/2)·n·u·T` of
`sum_2`), `B·n·T` (growth `H + n·C`), `B·(Λ·n²·T + κ·n³)` (AM-GM against `B²·n·|δ|·n_x·n_y`), `B³·n⁴`.
(iv) An `add` is a merge with a one-element chunk (`γ12 ≤ γ15`, `γ5 ≤ γ8`, one addition instead of three), so
the same lemma carries the envelope through the leaves (`SkewMerge.leaf_inv3`). (v) `Λ = B·n/R₀`, `κ = B·R₀/n`.

**On `V3T` against `V3`.** A bound `V3T t ≤ C·V3` with `C` independent of the tree is FALSE
(`V3T_not_le_V3`, proved): for the balanced tree with one-element leaves over the `2^K` values `ε_1 + … + ε_K`
(`ε_j = ±1`, leaves in lexicographic order; `SkewMerge.rad`) `V3T = 3·2^K·K(K-1)/2` while `V3² ≤ 3·K³·4^K`
(`balanced_signs_tree`), so `V3T/V3 ≥ (√3/2)·(K-1)/√K`, of the order `√height` (exact values for `K = 2..10`: 0.75,
1.2, 1.5, 1.78, 2, 2.22, 2.4, 2.58, 2.74). For left combs (add-only streams) `V3T = V3p ≤ 40·V3`. Hence the bound
of `sum_3` after a merge tree cannot have the shape `C·n·κ·u·V3` with a universal `C` by way of `V3T`:
`V3T_le_V3_height` has the factor `320 + 10·height` (true growth between `√height` and `height`; not sharp).

**Not covered**: the accessor `skewness()` after a tree; `sum_4` of `Kurtosis` through trees; sharp numerals (the
budget `B = (41/4)·u·M` of the mean through trees, `Props.C02b`, enters to the third power).
-/
open Avg MSpec Finset VarSpec SkewSpec SkewErr SkewMerge

namespace Props.C02e
variable {F : Type} [Field F] [LinearOrder F] [IsStrictOrderedRing F]

/-! ## the exact side -/

/-- **Exact merge identity of the third-order sum** (the quantity `Skewness.merge` approximates), any two
lists (for an empty list both cross terms vanish):
`U(xs++ys) = U xs + U ys + δ³·n_x·n_y·(n_x-n_y)/n² + 3·(δ/n)·(n_x·T ys - n_y·T xs)`. -/
theorem sum3_exact_merge (xs ys : List F) :
    U (xs ++ ys) = U xs + U ys
      + (mean ys - mean xs)^3 * ((xs.length : F) * (ys.length : F) * ((xs.length : F) - (ys.length : F))
          / ((xs.length : F) + (ys.length : F))^2)
      + 3 * ((mean ys - mean xs) / ((xs.length : F) + (ys.length : F)))
          * ((xs.length : F) * T ys - (ys.length : F) * T xs) :=
  U_append xs ys

omit [IsStrictOrderedRing F] in
/-- the absolute parts of the two exact cross terms, spelled out: `absJ = absP + absQ`,
`absP = |δ|³·n_x·n_y·|n_x-n_y|/n²`, `absQ = 3·(|δ|/n)·(n_x·T ys + n_y·T xs)` -/
theorem absJ_def (xs ys : List F) :
    absJ xs ys = |mean ys - mean xs|^3 * ((xs.length : F) * (ys.length : F)
          * |(xs.length : F) - (ys.length : F)| / ((xs.length : F) + (ys.length : F))^2)
      + 3 * (|mean ys - mean xs| / ((xs.length : F) + (ys.length : F)))
          * ((xs.length : F) * T ys + (ys.length : F) * T xs) := rfl

/-- the exact increment of `U` at a merge is at most `absJ` in absolute value, and `absJ ≥ 0` -/
theorem abs_cross_le (xs ys : List F) :
    |U (xs ++ ys) - (U xs + U ys)| ≤ absJ xs ys ∧ 0 ≤ absJ xs ys := by
  refine ⟨?_, absJ_nonneg xs ys⟩
  have e : U (xs ++ ys) - (U xs + U ys) = crossP xs ys + crossQ xs ys := by rw [U_append]; ring
  rw [e]
  refine le_trans (abs_add_le _ _) ?_
  rw [abs_crossP]
  have := abs_crossQ_le xs ys
  unfold absJ; linarith

omit [IsStrictOrderedRing F] in
/-- **The natural scale along a tree**: `V3p` of the chunk at a leaf (the scale of the add-only analysis,
`Props.C03b.V3p_def`); the children's scales plus `absJ` at a node. -/
theorem V3T_def (xs : List F) (l r : MTree F) :
    V3T (.leaf xs) = V3p xs ∧ V3T (.node l r) = V3T l + V3T r + absJ l.flatten r.flatten :=
  ⟨rfl, rfl⟩

/-- `|Σ(x - mean)³| ≤ V3T t` and `0 ≤ V3T t` for every merge tree over the data -/
theorem abs_U_le_V3T (t : MTree F) : |U t.flatten| ≤ V3T t ∧ 0 ≤ V3T t :=
  ⟨SkewMerge.abs_U_le_V3T t, V3T_nonneg t⟩

/-! ## one merge -/

/-- What `Skewness.merge` computes for `sum_3` of two non-empty states at the carrier R2, operation by
operation: 19 rounded operations (`3` and the counts are exact conversions; `n_x + n_y` and `n_x - n_y` are
rounded operations on exactly converted counts; `sum_2` are the values of the operands). -/
theorem sum3_computed_merge (r : Rnd2 F) (s o : Skewness (RF2 r)) (hs : s.avg.avg.n ≠ 0)
    (ho : o.avg.avg.n ≠ 0) :
    (s.merge o).sum_3.val
      = r.fl (s.sum_3.val + r.fl (r.fl (o.sum_3.val +
          r.fl (r.fl (r.fl (r.fl (r.fl (r.fl (o.avg.avg.avg.val - s.avg.avg.avg.val)
              * r.fl (r.fl (o.avg.avg.avg.val - s.avg.avg.avg.val)
                  / r.fl ((s.avg.avg.n : F) + (o.avg.avg.n : F))))
            * r.fl (r.fl (o.avg.avg.avg.val - s.avg.avg.avg.val)
                  / r.fl ((s.avg.avg.n : F) + (o.avg.avg.n : F))))
            * (s.avg.avg.n : F)) * (o.avg.avg.n : F))
            * r.fl ((s.avg.avg.n : F) - (o.avg.avg.n : F))))
          + r.fl (r.fl (3 * r.fl (r.fl (o.avg.avg.avg.val - s.avg.avg.avg.val)
                  / r.fl ((s.avg.avg.n : F) + (o.avg.avg.n : F))))
              * r.fl (r.fl ((s.avg.avg.n : F) * o.avg.sum_2.val)
                  - r.fl ((o.avg.avg.n : F) * s.avg.sum_2.val))))) :=
  sum3_merge_val r s o hs ho

/-- Any carrier, bit for bit: the `Variance` inside `Skewness` after any merge tree is what `Variance` computes
through the same tree (so `Props.C02b`, `Props.C02c` apply to the mean and to `sum_2`). -/
theorem inner_variance_bitwise {α : Type} [Add α] [Sub α] [Mul α] [Div α] [NatCast α] (t : MTree α) :
    (Skewness.evalTree t).avg = Variance.evalTree t :=
  Skewness.mtree_avg t

/-- **Rounding of the first cross term.** With `D = fl(b - a)`, `Dn = fl(D/fl(n_x+n_y))` the computed
`fl(fl(fl(fl(fl(D·Dn)·Dn)·n_x)·n_y)·fl(n_x-n_y))` is within relative error `γ15 = (1+u)^15 - 1` of
`(b - a)³·n_x·n_y·(n_x-n_y)/(n_x+n_y)²` (`u ≤ 1/2`, `n_x, n_y > 0`; the rounded divisor counts twice). -/
theorem cross_termA_rounding_error (r : Rnd2 F) (hu2 : r.u ≤ 1/2) (a b nx ny : F)
    (hnx : 0 < nx) (hny : 0 < ny) :
    |r.fl (r.fl (r.fl (r.fl (r.fl (r.fl (b - a) * r.fl (r.fl (b - a) / r.fl (nx + ny)))
          * r.fl (r.fl (b - a) / r.fl (nx + ny))) * nx) * ny) * r.fl (nx - ny))
        - (b - a)^3 * (nx * ny * (nx - ny) / (nx + ny)^2)|
      ≤ ((1 + r.u)^15 - 1) * |(b - a)^3 * (nx * ny * (nx - ny) / (nx + ny)^2)| :=
  crossA_RE r.fl r.u r.u_nonneg hu2 r.err a b nx ny hnx hny

/-- **Rounding of the second cross term.** The computed
`fl(fl(3·Dn)·fl(fl(n_x·S_y) - fl(n_y·S_x)))` is within `γ8·3·(|b-a|/n)·(n_x·|S_y| + n_y·|S_x|)` of
`3·((b-a)/n)·(n_x·S_y - n_y·S_x)`: the rounded difference of the two rounded products is relative to the sum
of their absolute values, not to the difference. -/
theorem cross_termB_rounding_error (r : Rnd2 F) (hu2 : r.u ≤ 1/2) (a b nx ny Sx Sy : F)
    (hnx : 0 < nx) (hny : 0 < ny) :
    |r.fl (r.fl (3 * r.fl (r.fl (b - a) / r.fl (nx + ny))) * r.fl (r.fl (nx * Sy) - r.fl (ny * Sx)))
        - 3 * ((b - a) / (nx + ny)) * (nx * Sy - ny * Sx)|
      ≤ ((1 + r.u)^8 - 1) * (3 * (|b - a| / (nx + ny)) * (nx * |Sy| + ny * |Sx|)) :=
  crossB_error r.fl r.u r.u_nonneg hu2 r.err a b nx ny Sx Sy hnx hny

/-- How the second cross term inherits the errors of the means (`D = b - a` against `δ = μ_y - μ_x`) and of the
two computed sums of squares (`S` against `T ≥ 0`):
`|3(D/n)(n_x S_y - n_y S_x) - 3(δ/n)(n_x T_y - n_y T_x)| ≤ (3/n)·(|D-δ|·(n_x T_y + n_y T_x)
   + (|δ| + |D-δ|)·(n_x·|S_y-T_y| + n_y·|S_x-T_x|))`. -/
theorem cross_termB_inherited_error (D δ n nx ny Sx Sy Tx Ty : F) (hn : 0 < n) (hnx : 0 ≤ nx)
    (hny : 0 ≤ ny) (hTx : 0 ≤ Tx) (hTy : 0 ≤ Ty) :
    |3 * (D / n) * (nx * Sy - ny * Sx) - 3 * (δ / n) * (nx * Ty - ny * Tx)|
      ≤ 3 / n * (|D - δ| * (nx * Ty + ny * Tx)
          + (|δ| + |D - δ|) * (nx * |Sy - Ty| + ny * |Sx - Tx|)) :=
  crossB_shift D δ n nx ny Sx Sy Tx Ty hn hnx hny hTx hTy

/-- `γ15 ≤ 15.2·u`, `γ8 ≤ 8.1·u` for `u ≤ 1/1856`. -/
theorem gamma_numerals (u : F) (hu : 0 ≤ u) (h : u ≤ 1/1856) :
    (1 + u)^15 - 1 ≤ 76/5 * u ∧ (1 + u)^8 - 1 ≤ 81/10 * u :=
  ⟨g15_le u hu h, g8_le u hu h⟩

/-- **One merge step (state lemma).** The `Skewness` states `s`, `o` hold the exact counts of the non-empty
chunks `xs`, `ys` and means within `εx`, `εy` of the exact ones. With `δ = mean ys - mean xs`, `n = n_x+n_y`,
`ε = εx+εy`, `w = n_x n_y|n_x-n_y|/n²` (`w3a`), `Pa = |δ|³w` (`absP`), `Qa = 3(|δ|/n)(n_x T_y + n_y T_x)` (`absQ`),
`H = n_x T_y + n_y T_x` (`mixH`), `P`, `Q` the exact cross terms (`crossP`, `crossQ`), `γ_i = (1+u)^i - 1`:

`|sum_3' - U(xs++ys)| ≤ (1+u)³·( |s.sum_3 - U xs| + |o.sum_3 - U ys| + γ15·Pa + γ8·Qa
      + (1+γ15)·w·(3δ²ε + 3|δ|ε² + ε³)
      + (1+γ8)·(3/n)·(ε·H + (|δ|+ε)·(n_x·|o.sum_2 - T ys| + n_y·|s.sum_2 - T xs|)) )
   + u(1+u)²·|U ys + P| + u(1+u)·|U ys + P + Q| + u·|U(xs++ys)|`. -/
theorem sum3_merge_state_error (r : Rnd2 F) (hu2 : r.u ≤ 1/2) (s o : Skewness (RF2 r))
    (xs ys : List F) (hx : xs ≠ []) (hy : ys ≠ []) (hsn : s.avg.avg.n = xs.length)
    (hon : o.avg.avg.n = ys.length) (εx εy : F) (hsx : |s.avg.avg.avg.val - mean xs| ≤ εx)
    (hoy : |o.avg.avg.avg.val - mean ys| ≤ εy) :
    |(s.merge o).sum_3.val - U (xs ++ ys)|
      ≤ (1 + r.u)^3 * (|s.sum_3.val - U xs| + |o.sum_3.val - U ys|
            + g r.u 15 * absP xs ys + g r.u 8 * absQ xs ys
            + (1 + g r.u 15) * (w3a xs ys * (3 * (mean ys - mean xs)^2 * (εx + εy)
                + 3 * |mean ys - mean xs| * (εx + εy)^2 + (εx + εy)^3))
            + (1 + g r.u 8) * (3 / ((xs.length : F) + (ys.length : F))
                * ((εx + εy) * mixH xs ys + (|mean ys - mean xs| + (εx + εy))
                    * ((xs.length : F) * |o.avg.sum_2.val - T ys|
                        + (ys.length : F) * |s.avg.sum_2.val - T xs|))))
        + r.u * (1 + r.u)^2 * |U ys + crossP xs ys|
        + r.u * (1 + r.u) * |U ys + crossP xs ys + crossQ xs ys|
        + r.u * |U (xs ++ ys)| :=
  sum3_merge_error r hu2 s o xs ys hx hy hsn hon εx εy hsx hoy

omit [LinearOrder F] [IsStrictOrderedRing F] in
/-- the envelope, spelled out -/
theorem envelope3_def (u B Λ κ n V Tn : F) :
    G3 u B Λ κ n V Tn = 15 * u * n * V + 6 * B * n * Tn + 27/10 * B * Λ * n^2 * Tn
      + 27/10 * B * κ * n^3 + 8/5 * B^3 * n^4 := rfl

/-- **Super-additivity of the envelope.** `Λ, κ ≥ 0`, `B² ≤ Λ·κ`, `B ≥ 0`, `u ≤ 1/1856`, `(n_x+n_y)·u ≤ 1/64`,
`n_x, n_y ≥ 1`; `d = |δ|`, `q·(n_x+n_y) = n_x·n_y`, `w ≤ q`, `Qa·(n_x+n_y) = 3·d·(n_x T_y + n_y T_x)`,
`J = d³·w + Qa`; relative errors `gA ≤ 15.2u`, `gB ≤ 8.1u` of the two computed cross terms; error `B·(n_x+n_y)`
of the difference of the means; `Zt` the contribution of the errors of the two sums of squares, bounded as in
`SkewMerge.zt_bound` (`P2 ≤ 32/31`). Then (same `Λ, κ` on both sides)

`G3(n_x,V_x,T_x) + G3(n_y,V_y,T_y) + [gA·d³w + gB·Qa + (1+gA)·w·(3d²ε + 3dε² + ε³) + (1+gB)·(3B·H + Zt)]
   + 3u·(V_x+V_y+J) ≤ G3(n_x+n_y, V_x+V_y+J, T_x+T_y+d²q)`,  `ε = B(n_x+n_y)`, `H = n_x T_y + n_y T_x`. -/
theorem envelope3_superadditive (u B Λ κ gA gB P2 nx ny Tx Ty Vx Vy d q w Qa Zt : F)
    (hu : 0 ≤ u) (hu' : u ≤ 1/1856) (hB : 0 ≤ B) (hΛ : 0 ≤ Λ) (hκ : 0 ≤ κ) (hΛκ : B^2 ≤ Λ * κ)
    (hgA0 : 0 ≤ gA) (hgA : gA ≤ 76/5 * u) (hgB0 : 0 ≤ gB) (hgB : gB ≤ 81/10 * u)
    (hP2 : 0 ≤ P2) (hP2' : P2 ≤ 32/31)
    (hnx : 1 ≤ nx) (hny : 1 ≤ ny) (hnu : (nx + ny) * u ≤ 1/64)
    (hTx : 0 ≤ Tx) (hTy : 0 ≤ Ty) (hVx : 0 ≤ Vx) (hVy : 0 ≤ Vy) (hd : 0 ≤ d)
    (hq0 : 0 ≤ q) (hq : q * (nx + ny) = nx * ny) (hw0 : 0 ≤ w) (hw : w ≤ q)
    (hQa0 : 0 ≤ Qa) (hQa : Qa * (nx + ny) = 3 * d * (nx * Ty + ny * Tx))
    (hZt : Zt ≤ 3 * P2 * ((d + B * (nx + ny))
                * (19/2 * u * q * (Tx + Ty) + 2/5 * B^2 * q * (nx^2 + ny^2))
              + 4/5 * B * q * (Tx + Ty + (d + B * (nx + ny))^2 * (nx + ny)))) :
    G3 u B Λ κ nx Vx Tx + G3 u B Λ κ ny Vy Ty
        + (gA * (d^3 * w) + gB * Qa
            + (1 + gA) * (w * (3 * d^2 * (B * (nx + ny)) + 3 * d * (B * (nx + ny))^2
                + (B * (nx + ny))^3))
            + (1 + gB) * (3 * B * (nx * Ty + ny * Tx) + Zt))
        + 3 * u * (Vx + Vy + (d^3 * w + Qa))
      ≤ G3 u B Λ κ (nx + ny) (Vx + Vy + (d^3 * w + Qa)) (Tx + Ty + d^2 * q) :=
  superadd3 u B Λ κ gA gB P2 nx ny Tx Ty Vx Vy d q w Qa Zt hu hu' hB hΛ hκ hΛκ hgA0 hgA hgB0 hgB hP2 hP2'
    hnx hny hnu hTx hTy hVx hVy hd hq0 hq hw0 hw hQa0 hQa hZt

/-! ## every merge tree -/

/-- **The invariant.** `u ≤ 1/1856`; `B` any per-observation budget of the mean that every merge tree keeps
(`B ≥ 2M(2w+u)`, `w = (2u+u²)(1+u)`, `5u(M + B·n) ≤ B`, as in `Props.C02b.mean_mtree_forward_error_gen`);
`n·u ≤ 1/64`; any `Λ, κ ≥ 0` with `B² ≤ Λ·κ`. For every merge tree over `n` observations with `|x| ≤ M`:
`|sum_3 - U| ≤ (1+u)^(3n)·G3(n, V3T t, T)`. -/
theorem sum3_mtree_invariant (r : Rnd2 F) (M B Λ κ : F) (hM : 0 ≤ M) (hu' : r.u ≤ 1/1856)
    (hB : 2 * M * (2 * ((2*r.u + r.u^2) * (1 + r.u)) + r.u) ≤ B)
    (hΛ : 0 ≤ Λ) (hκ : 0 ≤ κ) (hΛκ : B^2 ≤ Λ * κ) (t : MTree (RF2 r))
    (hb : ∀ x ∈ t.flatten, |x.val| ≤ M) (hnu : (t.flatten.length : F) * r.u ≤ 1/64)
    (hs2 : 5 * r.u * (M + B * (t.flatten.length : F)) ≤ B) :
    |(Skewness.evalTree t).sum_3.val - U (t.flatten.map RF2.val)|
      ≤ (1 + r.u)^(3 * t.flatten.length)
          * G3 r.u B Λ κ (t.flatten.length : F) (V3T (t.map RF2.val)) (T (t.flatten.map RF2.val)) :=
  skew_mtree_inv r M B Λ κ hM hu' hB hΛ hκ hΛκ t hb hnu hs2

/-- **Symbolic in the budget `B` of the mean.** Same hypotheses on `B`; `n ≥ 1`; any `R₀ ≥ 0` with `n·T ≤ R₀²`:
`|sum_3 - U| ≤ (1+u)^(3n)·(15·u·n·V3T + 6·B·n·T + (27/5)·B²·n²·R₀ + (33/20)·B³·n⁴)`. -/
theorem sum3_mtree_forward_error_symbolic (r : Rnd2 F) (M B : F) (hM : 0 ≤ M) (hu' : r.u ≤ 1/1856)
    (hB : 2 * M * (2 * ((2*r.u + r.u^2) * (1 + r.u)) + r.u) ≤ B) (t : MTree (RF2 r))
    (hne : t.flatten ≠ []) (hb : ∀ x ∈ t.flatten, |x.val| ≤ M)
    (hnu : (t.flatten.length : F) * r.u ≤ 1/64)
    (hs2 : 5 * r.u * (M + B * (t.flatten.length : F)) ≤ B)
    (R₀ : F) (hR : 0 ≤ R₀) (hRT : (t.flatten.length : F) * T (t.flatten.map RF2.val) ≤ R₀^2) :
    |(Skewness.evalTree t).sum_3.val - U (t.flatten.map RF2.val)|
      ≤ (1 + r.u)^(3 * t.flatten.length)
          * (15 * r.u * (t.flatten.length : F) * V3T (t.map RF2.val)
              + 6 * B * (t.flatten.length : F) * T (t.flatten.map RF2.val)
              + 27/5 * B^2 * (t.flatten.length : F)^2 * R₀
              + 33/20 * B^3 * (t.flatten.length : F)^4) :=
  skew_mtree_error_sym r M B hM hu' hB t hne hb hnu hs2 R₀ hR hRT

/-- **`sum_3` of `Skewness`, every merge tree.** In the standard model of rounding with unit roundoff `u`, for
every merge tree `t` (any shape, any chunk sizes, empty and one-element chunks included; leaves folded with
`Skewness.add`, nodes merged with `Skewness.merge`) over `n` observations with `|x| ≤ M` and
`(n+28)·u ≤ 1/64`, with `U = Σ(x - mean)³`, `T = Σ(x - mean)²` of the whole sequence, `V3T` the scale of the tree
and any `R₀ ≥ 0` with `n·T ≤ R₀²`:
`|sum_3 - U| ≤ 16·n·u·V3T + 65·n·u·M·T + 596·n²·u²·M²·R₀ + 1865·n⁴·u³·M³`. -/
theorem sum3_mtree_forward_error (r : Rnd2 F) (M : F) (hM : 0 ≤ M) (t : MTree (RF2 r))
    (hb : ∀ x ∈ t.flatten, |x.val| ≤ M) (hsmall : ((t.flatten.length : F) + 28) * r.u ≤ 1/64)
    (R₀ : F) (hR : 0 ≤ R₀) (hRT : (t.flatten.length : F) * T (t.flatten.map RF2.val) ≤ R₀^2) :
    |(Skewness.evalTree t).sum_3.val - U (t.flatten.map RF2.val)|
      ≤ 16 * (t.flatten.length : F) * r.u * V3T (t.map RF2.val)
        + 65 * (t.flatten.length : F) * r.u * M * T (t.flatten.map RF2.val)
        + 596 * (t.flatten.length : F)^2 * r.u^2 * M^2 * R₀
        + 1865 * (t.flatten.length : F)^4 * r.u^3 * M^3 :=
  skew_mtree_error_lin r M hM t hb hsmall R₀ hR hRT

/-- The same over ℝ with `R₀ = sqrt(n·T)`. -/
theorem sum3_mtree_forward_error_sqrt (r : Rnd2 ℝ) (M : ℝ) (hM : 0 ≤ M) (t : MTree (RF2 r))
    (hb : ∀ x ∈ t.flatten, |x.val| ≤ M) (hsmall : ((t.flatten.length : ℝ) + 28) * r.u ≤ 1/64) :
    |(Skewness.evalTree t).sum_3.val - U (t.flatten.map RF2.val)|
      ≤ 16 * (t.flatten.length : ℝ) * r.u * V3T (t.map RF2.val)
        + 65 * (t.flatten.length : ℝ) * r.u * M * T (t.flatten.map RF2.val)
        + 596 * (t.flatten.length : ℝ)^2 * r.u^2 * M^2
            * Real.sqrt ((t.flatten.length : ℝ) * T (t.flatten.map RF2.val))
        + 1865 * (t.flatten.length : ℝ)^4 * r.u^3 * M^3 :=
  skew_mtree_error_lin r M hM t hb hsmall _ (Real.sqrt_nonneg _)
    (le_of_eq (Real.sq_sqrt (mul_nonneg (Nat.cast_nonneg _) (T_nonneg _))).symm)

/-- **Envelope form, linear in the conditioning.** If `σ ≥ 0` with `T ≤ n·σ²` (`σ` at least the population
standard deviation) and `n·u·M ≤ σ`, then for every merge tree
`|sum_3 - U| ≤ 16·n·u·V3T + 2526·n²·u·M·σ²` - that is `2526·n·u·(M/σ)` relative to the scale `n·σ³`. -/
theorem sum3_mtree_envelope (r : Rnd2 F) (M : F) (hM : 0 ≤ M) (t : MTree (RF2 r))
    (hb : ∀ x ∈ t.flatten, |x.val| ≤ M) (hsmall : ((t.flatten.length : F) + 28) * r.u ≤ 1/64)
    (σ : F) (hσ : 0 ≤ σ) (hvar : T (t.flatten.map RF2.val) ≤ (t.flatten.length : F) * σ^2)
    (hcond : (t.flatten.length : F) * r.u * M ≤ σ) :
    |(Skewness.evalTree t).sum_3.val - U (t.flatten.map RF2.val)|
      ≤ 16 * (t.flatten.length : F) * r.u * V3T (t.map RF2.val)
        + 2526 * (t.flatten.length : F)^2 * r.u * M * σ^2 :=
  skew_mtree_envelope r M hM t hb hsmall σ hσ hvar hcond

/-! ## the scale `V3T` against `V3 = Σ|x - mean|³` -/

/-- One node costs at most ten times the sum of the absolute cubes of its data about ANY centre `c`:
`absJ xs ys ≤ 10·Σ_{xs++ys}|x - c|³` (Jensen for the two chunk means, Young for the mixed term). -/
theorem absJ_le (xs ys : List F) (hx : xs ≠ []) (hy : ys ≠ []) (c : F) :
    absJ xs ys ≤ 10 * ((xs ++ ys).map (fun x => |x - c|^3)).sum :=
  absJ_le_V3c xs ys hx hy c

/-- **`V3T t ≤ (320 + 10·height t)·V3`** for every merge tree, `V3 = Σ|x - mean|³` over the whole data
(`SkewErr.V3`), `height` the number of levels of merges (`SkewMerge.height`: `0` for a leaf,
`max + 1` for a node). The constant of a leaf is `40·8` (`Props.C03b.V3p_le_V3` and the change of centre).
A constant independent of the height is impossible (`V3T_not_le_V3`: balanced trees over sums of signs have
`V3T/V3` of the order `√height`); the linear growth proved here is not sharp. -/
theorem V3T_le_V3_height (t : MTree F) : V3T t ≤ (320 + 10 * (height t : F)) * V3 t.flatten :=
  V3T_le_V3 t

/-- **Forward error of `sum_3` in the scale `V3`**, every merge tree of height `h`:
`|sum_3 - U| ≤ 16·(320 + 10h)·n·u·V3 + 65·n·u·M·T + 596·n²·u²·M²·R₀ + 1865·n⁴·u³·M³`. -/
theorem sum3_mtree_forward_error_V3 (r : Rnd2 F) (M : F) (hM : 0 ≤ M) (t : MTree (RF2 r))
    (hb : ∀ x ∈ t.flatten, |x.val| ≤ M) (hsmall : ((t.flatten.length : F) + 28) * r.u ≤ 1/64)
    (R₀ : F) (hR : 0 ≤ R₀) (hRT : (t.flatten.length : F) * T (t.flatten.map RF2.val) ≤ R₀^2) :
    |(Skewness.evalTree t).sum_3.val - U (t.flatten.map RF2.val)|
      ≤ 16 * (320 + 10 * (height t : F)) * (t.flatten.length : F) * r.u * V3 (t.flatten.map RF2.val)
        + 65 * (t.flatten.length : F) * r.u * M * T (t.flatten.map RF2.val)
        + 596 * (t.flatten.length : F)^2 * r.u^2 * M^2 * R₀
        + 1865 * (t.flatten.length : F)^4 * r.u^3 * M^3 := by
  refine le_trans (skew_mtree_error_lin r M hM t hb hsmall R₀ hR hRT) ?_
  have hV := V3T_le_V3 (t.map RF2.val)
  rw [height_map, MTree.flatten_map] at hV
  have hu := r.u_nonneg
  have hn0 : (0 : F) ≤ t.flatten.length := Nat.cast_nonneg _
  have : 16 * (t.flatten.length : F) * r.u * V3T (t.map RF2.val)
      ≤ 16 * (t.flatten.length : F) * r.u
          * ((320 + 10 * (height t : F)) * V3 (t.flatten.map RF2.val)) := by gcongr
  linarith

/-- The balanced tree with one-element leaves over the `2^k` values `c + ε_1 + … + ε_k`, `ε_j = ±1`
(`SkewMerge.rad k c`: a leaf `[c]` for `k = 0`, the node over `rad k (c+1)` and `rad k (c-1)` for `k + 1`):
`n = 2^k`, mean `c`, `T = k·2^k`, `U = 0`, `V3T = 3·2^k·k(k-1)/2`, and `V3² ≤ 3·k³·4^k`. -/
theorem balanced_signs_tree (k : ℕ) (c : F) :
    (rad k c).flatten.length = 2^k ∧ mean (rad k c).flatten = c
    ∧ T (rad k c).flatten = (k : F) * 2^k ∧ U (rad k c).flatten = 0
    ∧ V3T (rad k c) = 3 * 2^k * (k : F) * ((k : F) - 1) / 2
    ∧ (V3 (rad k c).flatten)^2 ≤ 3 * (k : F)^3 * 4^k := by
  obtain ⟨h1, h2, h3, h4, _, h6⟩ := rad_facts k c
  exact ⟨h1, h2, h3, h4, h6, rad_V3_sq_le k c⟩

/-- **No universal constant between `V3T` and `V3`.** In an Archimedean ordered field (`ℚ`, `ℝ`), for every `C`
there is a merge tree `t` (balanced, one-element leaves) with `C·Σ|x - mean|³ < V3T t`. So the dependence of
`V3T_le_V3_height` on the height cannot be removed (only improved: the witness has `V3T/V3` of the order
`√height`). -/
theorem V3T_not_le_V3 [Archimedean F] (C : F) : ∃ t : MTree F, C * V3 t.flatten < V3T t :=
  SkewMerge.V3T_not_le_V3 C

/-! ## all of `Skewness`; the inner `sum_3` of `Kurtosis` -/

/-- **All state components of `Skewness` through every merge tree, one statement** (`(n+28)·u ≤ 1/64`): the
count is exact, the mean is within `11·u·M·n`, `sum_2` within `10·n·u·T + 17·n·u·M·R₀ + 45·n³·u²·M²`
(`Props.C02c`), `sum_3` within `16·n·u·V3T + 65·n·u·M·T + 596·n²·u²·M²·R₀ + 1865·n⁴·u³·M³`. -/
theorem skewness_mtree_state_forward_error (r : Rnd2 F) (M : F) (hM : 0 ≤ M) (t : MTree (RF2 r))
    (hb : ∀ x ∈ t.flatten, |x.val| ≤ M) (hsmall : ((t.flatten.length : F) + 28) * r.u ≤ 1/64)
    (R₀ : F) (hR : 0 ≤ R₀) (hRT : (t.flatten.length : F) * T (t.flatten.map RF2.val) ≤ R₀^2) :
    (Skewness.evalTree t).avg.avg.n = t.flatten.length
    ∧ |(Skewness.evalTree t).avg.avg.avg.val - mean (t.flatten.map RF2.val)|
        ≤ 11 * r.u * M * (t.flatten.length : F)
    ∧ |(Skewness.evalTree t).avg.sum_2.val - T (t.flatten.map RF2.val)|
        ≤ 10 * (t.flatten.length : F) * r.u * T (t.flatten.map RF2.val)
          + 17 * (t.flatten.length : F) * r.u * M * R₀
          + 45 * (t.flatten.length : F)^3 * r.u^2 * M^2
    ∧ |(Skewness.evalTree t).sum_3.val - U (t.flatten.map RF2.val)|
        ≤ 16 * (t.flatten.length : F) * r.u * V3T (t.map RF2.val)
          + 65 * (t.flatten.length : F) * r.u * M * T (t.flatten.map RF2.val)
          + 596 * (t.flatten.length : F)^2 * r.u^2 * M^2 * R₀
          + 1865 * (t.flatten.length : F)^4 * r.u^3 * M^3 := by
  have hu := r.u_nonneg
  have hnu : (t.flatten.length : F) * r.u ≤ 1/64 := by nlinarith
  have h := Props.C02b.skewness_mtree_mean_forward_error r M hM t hb hnu
  exact ⟨h.1, h.2, Props.C02c.skewness_mtree_sum2_forward_error r M hM t hb hnu R₀ hR hRT,
    skew_mtree_error_lin r M hM t hb hsmall R₀ hR hRT⟩

/-- `Kurtosis`: its inner `sum_3` through any merge tree obeys the same bound (it is computed by the text of
`Skewness.add` / `Skewness.merge`). -/
theorem kurtosis_mtree_sum3_forward_error (r : Rnd2 F) (M : F) (hM : 0 ≤ M) (t : MTree (RF2 r))
    (hb : ∀ x ∈ t.flatten, |x.val| ≤ M) (hsmall : ((t.flatten.length : F) + 28) * r.u ≤ 1/64)
    (R₀ : F) (hR : 0 ≤ R₀) (hRT : (t.flatten.length : F) * T (t.flatten.map RF2.val) ≤ R₀^2) :
    |(Kurtosis.evalTree t).avg.sum_3.val - U (t.flatten.map RF2.val)|
      ≤ 16 * (t.flatten.length : F) * r.u * V3T (t.map RF2.val)
        + 65 * (t.flatten.length : F) * r.u * M * T (t.flatten.map RF2.val)
        + 596 * (t.flatten.length : F)^2 * r.u^2 * M^2 * R₀
        + 1865 * (t.flatten.length : F)^4 * r.u^3 * M^3 := by
  rw [Kurtosis.mtree_avg]; exact skew_mtree_error_lin r M hM t hb hsmall R₀ hR hRT

/-! ## Non-vacuity -/

/-- skewed, ill-conditioned data (offset 1000; deviations `-2, -4, 0, 6` from the mean 1003) in a tree with a
nested merge, an empty chunk in the middle, a one-element chunk and unequal chunk sizes; the rounding
`Props.C02b.awayRnd` is never exact (except at 0): it always moves away from zero by the full relative amount
`u = 2^-53` -/
def exTree : MTree (RF2 Props.C02b.awayRnd) :=
  .node (.leaf [⟨1001⟩, ⟨999⟩, ⟨1003⟩]) (.node (.leaf []) (.leaf [⟨1009⟩]))

theorem exTree_T : T (exTree.flatten.map RF2.val) = 56 := by
  norm_num [exTree, MTree.flatten, T, sumPow, mean]

theorem exTree_U : U (exTree.flatten.map RF2.val) = 144 := by
  norm_num [exTree, MTree.flatten, U, sumPow, mean]

/-- the scale of the tree: the first chunk contributes `V3p = 6 + 6` (its own `U` is `6 - 6 = 0`), the root
`Pa + Qa = 192 + 48` (while `P + Q = 192 - 48 = 144 = U`), the empty chunk and the one-element chunk nothing -/
theorem exTree_V3T : V3T (exTree.map RF2.val) = 252 := by
  have h1 : V3p ([1001, 999, 1003] : List ℚ) = 12 := by
    norm_num [V3p, VA, VB, incA, incB, cA, dev, T, sumPow, mean, Finset.sum_range_succ]
  have h2 : V3p ([1009] : List ℚ) = 0 := by
    norm_num [V3p, VA, VB, incA, incB, cA, dev, T, sumPow, mean, Finset.sum_range_succ]
  have h3 : V3p ([] : List ℚ) = 0 := V3p_nil
  have h4 : absJ ([] : List ℚ) [1009] = 0 := absJ_nil_left _
  have h5 : absJ ([1001, 999, 1003] : List ℚ) [1009] = 240 := by
    norm_num [absJ, absP, absQ, w3a, mixH, T, sumPow, mean]
  simp only [exTree, MTree.map, V3T, MTree.flatten, List.map_cons, List.map_nil, List.nil_append, h1, h2,
    h3, h4, h5]
  norm_num

/-- the hypotheses of `sum3_mtree_forward_error` are met by `exTree` with `M = 1009`, `u = 2^-53`, `R₀ = 15`
(`n·T = 224 ≤ 225`) -/
example : (∀ x ∈ exTree.flatten, |x.val| ≤ 1009)
    ∧ ((exTree.flatten.length : ℚ) + 28) * Props.C02b.awayRnd.u ≤ 1/64
    ∧ (exTree.flatten.length : ℚ) * T (exTree.flatten.map RF2.val) ≤ 15^2 := by
  refine ⟨?_, ?_, ?_⟩
  · intro x hx
    simp only [exTree, MTree.flatten, List.nil_append, List.mem_append, List.mem_cons,
      List.not_mem_nil, or_false] at hx
    rcases hx with (rfl | rfl | rfl) | rfl <;> norm_num
  · norm_num [exTree, MTree.flatten, Props.C02b.awayRnd]
  · rw [exTree_T]; norm_num [exTree, MTree.flatten]

/-- and the conclusion is a concrete statement about a computation under a rounding that is never exact (104
rounded operations: 18 per `add`; 19 for `sum_3` and 13 for the inner `Variance` in the one merge of two non-empty
states): the computed `sum_3` is within
`16·4·u·252 + 65·4·u·1009·56 + 596·16·u²·1009²·15 + 1865·256·u³·1009³` (about `1.5·10^7·u ≈ 1.6·10^-9`) of the
exact `U = 144`. -/
example : |(Skewness.evalTree exTree).sum_3.val - 144|
    ≤ 16 * 4 * (1/2^53) * 252 + 65 * 4 * (1/2^53) * 1009 * 56 + 596 * (4:ℚ)^2 * (1/2^53)^2 * 1009^2 * 15
      + 1865 * (4:ℚ)^4 * (1/2^53)^3 * 1009^3 := by
  have h := sum3_mtree_forward_error Props.C02b.awayRnd 1009 (by norm_num) exTree
    (by intro x hx
        simp only [exTree, MTree.flatten, List.nil_append, List.mem_append, List.mem_cons,
          List.not_mem_nil, or_false] at hx
        rcases hx with (rfl | rfl | rfl) | rfl <;> norm_num)
    (by norm_num [exTree, MTree.flatten, Props.C02b.awayRnd]) 15 (by norm_num)
    (by rw [exTree_T]; norm_num [exTree, MTree.flatten])
  rw [exTree_T, exTree_U, exTree_V3T] at h
  have hl : (exTree.flatten.length : ℚ) = 4 := by norm_num [exTree, MTree.flatten]
  have hu : Props.C02b.awayRnd.u = 1/2^53 := rfl
  rw [hl, hu] at h
  exact h

/-- the height of `exTree` is 2 and `V3 = 8 + 64 + 0 + 216 = 288`: indeed `V3T = 252 ≤ (320 + 20)·288` -/
example : height exTree = 2 ∧ V3 (exTree.flatten.map RF2.val) = 288 := by
  refine ⟨rfl, ?_⟩
  norm_num [exTree, MTree.flatten, V3, mean, abs_of_nonneg, abs_of_neg]

end Props.C02e

#print axioms Props.C02e.sum3_exact_merge
#print axioms Props.C02e.absJ_def
#print axioms Props.C02e.abs_cross_le
#print axioms Props.C02e.V3T_def
#print axioms Props.C02e.abs_U_le_V3T
#print axioms Props.C02e.sum3_computed_merge
#print axioms Props.C02e.inner_variance_bitwise
#print axioms Props.C02e.cross_termA_rounding_error
#print axioms Props.C02e.cross_termB_rounding_error
#print axioms Props.C02e.cross_termB_inherited_error
#print axioms Props.C02e.gamma_numerals
#print axioms Props.C02e.sum3_merge_state_error
#print axioms Props.C02e.envelope3_def
#print axioms Props.C02e.envelope3_superadditive
#print axioms Props.C02e.sum3_mtree_invariant
#print axioms Props.C02e.sum3_mtree_forward_error_symbolic
#print axioms Props.C02e.sum3_mtree_forward_error
#print axioms Props.C02e.sum3_mtree_forward_error_sqrt
#print axioms Props.C02e.sum3_mtree_envelope
#print axioms Props.C02e.absJ_le
#print axioms Props.C02e.V3T_le_V3_height
#print axioms Props.C02e.sum3_mtree_forward_error_V3
#print axioms Props.C02e.balanced_signs_tree
#print axioms Props.C02e.V3T_not_le_V3
#print axioms Props.C02e.skewness_mtree_state_forward_error
#print axioms Props.C02e.kurtosis_mtree_sum3_forward_error
