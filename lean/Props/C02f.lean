import AvgProofs.KurtMergeErrLin
import AvgProofs.KurtMergeErrV4
import Props.C02e
import Mathlib.Analysis.Real.Sqrt
import Mathlib.Tactic.NormNum

/-!
# C02 (fifth addendum) - the fourth-order sum `sum_4` of `Kurtosis` through EVERY merge tree

The envelope clause of C02 for the state component `sum_4` of `Kurtosis` (from which `kurtosis()` is computed):
*proved* for every merge tree, with a bound of the same shape as `Props.C03c.sum4_forward_error` for add-only
streams. This is the analogue one order higher of `Props.C02e` (`sum_3` of `Skewness`).

Carrier **R2** (`RF2 r`, `AvgProofs/MeanErr2.lean`): an ordered field `F` in which every `+ - * /` is followed
by a rounding `r.fl` with `|fl t - t| ≤ u·|t|` (standard model: no overflow, no underflow); conversions of
counts are exact. `MTree` is an arbitrary order-preserving binary merge tree over contiguous chunks (empty and
one-element chunks allowed); `Kurtosis.evalTree t` folds every leaf with `Kurtosis.add` from `Kurtosis.new` and
combines the summaries with `Kurtosis.merge` along the tree. Notation: `n` the number of observations,
`M ≥ max|x_i|`, `mean vs = Σx/n`, `T vs = Σ(x - mean)²` (`VarSpec.T`), `U vs = Σ(x - mean)³` (`SkewSpec.U`),
`Q vs = Σ(x - mean)⁴` (`KurtSpec.Q`), `γ_i = (1+u)^i - 1` (`SkewErr.g`).

**Exact side** (`sum4_exact_merge`; `n_x = |xs|`, `n_y = |ys|`, `n = n_x+n_y`, `δ = mean ys - mean xs`):
`Q(xs++ys) = Q xs + Q ys + P + Qc + R`, `P = δ⁴·n_x·n_y·(n_x² - n_x·n_y + n_y²)/n³`,
`Qc = 6·(δ/n)²·(n_x²·T ys + n_y²·T xs)`, `R = 4·(δ/n)·(n_x·U ys - n_y·U xs)`.
`P, Qc ≥ 0`; `R` is signed and a difference of two products of either sign, and the computed third-order sums
enter with *their* errors, whose scale is a third-order scale of the sub-trees. Two tree scales (`scales_def`):

* `V3S t` (third order): `V3L = Σ|d_i|³·i/(i+1) + Σ 3|d_i|T_i/(i+1)` of the chunk at a leaf (`d_i` the deviation of
  `x_i` from the mean of its predecessors in the chunk); the children's scales plus
  `|δ|³·n_x·n_y/n + 3(|δ|/n)(n_x·T ys + n_y·T xs)` at a node. It is `SkewMerge.V3T` of `Props.C02e` with the weight
  `n_x·n_y/n` of `|δ|³` in the place of `n_x·n_y·|n_x-n_y|/n²` (`V3T_le_V3S`): the latter vanishes for `n_x = n_y`,
  whereas the perturbation `4·δ³·e·w` of `P` by the error `e` of the difference of the means does not.
* `V4T t` (fourth order): `V4L = Σ d_i⁴·c_i + Σ 6d_i²T_i/(i+1)² + Σ 4|d_i|·V3L_i/(i+1)` of the chunk at a leaf; the
  children's scales plus `P + Qc + 4(|δ|/n)(n_x·V3S r + n_y·V3S l)` at a node. `|Q| ≤ V4T t` (`abs_Q_le_V4T`).

**What `Kurtosis.merge` computes** (`sum4_computed_merge`; 31 rounded operations; `a`, `b`, `S`, `S3` the
*computed* means, sums of squares and third-order sums of the operands): `D = fl(b-a)`, `N = fl(n_x+n_y)`,
`Dn = fl(D/N)`, `Dn2 = fl(Dn·Dn)`,
`A' = fl(fl(fl(fl(fl(D·Dn)·Dn2)·n_x)·n_y)·fl(fl(fl(n_x·n_x) - fl(n_x·n_y)) + fl(n_y·n_y)))`,
`B' = fl(fl(6·Dn2)·fl(fl(fl(n_x·n_x)·S_y) + fl(fl(n_y·n_y)·S_x)))`,
`C' = fl(fl(4·Dn)·fl(fl(n_x·S3_y) - fl(n_y·S3_x)))`,
`sum_4' = fl(S4_x + fl(fl(fl(S4_y + A') + B') + C'))`; then the inner `Skewness.merge` (bit for bit:
`inner_skewness_bitwise`).

**Main results** (`u` unit roundoff; hypothesis `(n+28)·u ≤ 1/64`; `R₀ ≥ 0` with `n·T ≤ R₀²`):

* `cross_termA_rounding_error`: `A'` within relative error `γ28` of `(b-a)⁴·n_x·n_y·(n_x²-n_x·n_y+n_y²)/n³` (the
  factor `n_x² - n_x·n_y + n_y²` is computed by a cancelling subtraction: `γ9` instead of `γ3`);
  `cross_termB_rounding_error`: `B'` within `γ14·6·((b-a)/n)²·(n_x²·|S_y| + n_y²·|S_x|)`;
  `cross_termC_rounding_error`: `C'` within `γ8·4·(|b-a|/n)·(n_x·|S3_y| + n_y·|S3_x|)`;
  `gamma_numerals`: `γ54 ≤ 55u` (`γ54` is the relative error of the first part of the increment of
  `Kurtosis.add`, which is handled by the same lemma), `γ15 ≤ 15.2u`, `γ8 ≤ 8.1u`.
* `sum4_merge_state_error`: one merge, explicit in the errors of the operands' `sum_4`, `sum_3`, `sum_2`, means.
* `envelope4_superadditive`, `sum4_mtree_invariant`: `|sum_4 - Q| ≤ (1+u)^(4n)·G4(n, V4T, V3S, T)`,
  `G4 = 30·u·n·V4 + 14·B·n·V3 + 27·B²·n²·T + (25/2)·B²·Λ·n³·T + (25/2)·B²·κ·n⁴ + 6·B⁴·n⁵`, for *all* `Λ, κ ≥ 0`
  with `B² ≤ Λ·κ` (`B` the per-observation budget of the mean, `Props.C02b`).
* **`sum4_mtree_forward_error`**: for EVERY merge tree
  `|sum_4 - Q| ≤ 32·n·u·V4T + 154·n·u·M·V3S + 3026·n²·u²·M²·T + 28718·n³·u³·M³·R₀ + 76532·n⁵·u⁴·M⁴`
  (add-only stream, `Props.C03c.sum4_forward_error`, `N = n+10`:
  `8·N·u·(V4p + VD4) + (9/4)·N·u·M·VR + 29·N·u·M·V3p + 230·u·M·R₀·T + 1650·N·u²M²R₀² + 138·N²u²M²T
   + 2550·N³u³M³R₀ + 970·N⁵u⁴M⁴`; for a one-leaf tree `V4T = VA4 + VB4 + VE4` is `V4p + VD4` with `V3L = VR + VB`
  in the place of `V3p = VA + VB`).
* `sum4_mtree_envelope`: if `T ≤ n·σ²`, `n·u·M ≤ σ`: `≤ 32·n·u·V4T + 154·n·u·M·V3S + 108276·n²·u·M·σ³` - linear in
  the conditioning `M/σ` relative to the scale `n·σ⁴`.
* `V3S_le_V3_height`: `V3S t ≤ (320 + 10·h)·V3`, `V3 = Σ|x - mean|³`, `h = height t`;
  `V4T_le_Q_height`: `V4T t ≤ (257840 + 3555·h + 55·h²)·Q` - *quadratic* in the height: the third cross term of a
  node carries the third-order scales of the children, which themselves grow linearly with their height
  (`node_scale_le`: a node whose children have `V3S ≤ C·Σ|x-c|³` costs at most `(35 + 11·C)·Σ(x-c)⁴`);
  `sum4_mtree_forward_error_Q`: the main bound in the scales `Q`, `V3`.
* `sum4_mtree_relative_error`: for `σ > 0` the population standard deviation (`n·σ² = T`), `n·u·M ≤ σ`:
  **`|sum_4 - Q| ≤ n·u·( 32·(257840 + 3555·h + 55·h²) + (157556 + 1540·h)·(M/σ) )·Q`** - a bound of the *relative*
  error of `sum_4` after any merge tree of height `h`, linear in the conditioning `M/σ`.
* `kurtosis_mtree_state_forward_error`: count, mean, `sum_2`, `sum_3`, `sum_4` of `Kurtosis` after any tree, one
  statement.

How: (i) the error `e` of the difference of the computed means perturbs `P` by `w·(4δ³e + 6δ²e² + 4δe³ + e⁴)`,
`Qc` by `(6/n²)(2δe + e²)·K` and `R` by `(4/n)·e·(n_x U_y - n_y U_x)`; the errors `D2` of the two computed sums of
squares perturb `Qc` by `(6/n²)(δ+e)²(n_x²·D2_y + n_y²·D2_x)`, the errors `D3` of the two computed third-order sums
perturb `R` by `(4/n)(δ+e)(n_x·D3_y - n_y·D3_x)`. (ii) `|D2| ≤ (32/31)·G(n,T)` and `|D3| ≤ (64/61)·G3(n,V3S,T)` for
*every* pair of parameters of the square-root-free invariants of `Props.C02c`, `Props.C02e`; at each node the pair
`B/ρ`, `B·ρ` (`ρ = |δ| + |e|`) turns these into monomials without square roots (`KurtMerge.z2_bound`, `z3_bound`).
(iii) Six super-additive families carry everything: `u·n·V4T` (pays the relative roundings and the relative
errors `(19/2)·n·u·T` of `sum_2` and `15·n·u·V3S` of `sum_3`), `B·n·V3S` (growth `n_y V3_x + n_x V3_y + d³n_xn_y + 3dH`),
`B²·n²·T`, `B²·(Λ·n³·T + κ·n⁴)` (AM-GM against `B³·n²·|δ|·n_x·n_y`), `B⁴·n⁵`. (iv) An `add` is a merge with a
one-element chunk (`γ54`, `γ9`, `γ5`; one addition instead of four), so the same lemma carries the envelope
through the leaves (`KurtMerge.leaf_inv4`). (v) `Λ = B·n/R₀`, `κ = B·R₀/n`.

**Not covered**: the accessor `kurtosis()` after a tree; a bound `V4T ≤ (a + b·height)·Q` *linear* in the height
(not available by this method, see `V4T_le_Q_height`; a height-independent bound is impossible already for `V3T`,
`Props.C02e.V3T_not_le_V3`); sharp numerals (the constant 30 of `u·n·V4T` is forced by `γ54` at the second
observation of a chunk; the budget `B = (41/4)·u·M` of the mean enters to the fourth power; the constant `257840`
of a leaf is `16·16115`, where `16115` is dominated by the factors 40 of `V3L ≤ 40·V3`, 8 of the change of centre
and `4⁴` of Copson's inequality, as in `Props.C03c.scales_le_Q`).
-/
open Avg MSpec Finset VarSpec SkewSpec KurtSpec SkewErr SkewMerge KurtMerge

namespace Props.C02f
variable {F : Type} [Field F] [LinearOrder F] [IsStrictOrderedRing F]

/-! ## the exact side -/

/-- **Exact merge identity of the fourth-order sum** (the quantity `Kurtosis.merge` approximates), any two
lists (for an empty list the three cross terms vanish):
`Q(xs++ys) = Q xs + Q ys + δ⁴·n_x·n_y·(n_x² - n_x·n_y + n_y²)/n³ + 6·(δ/n)²·(n_x²·T ys + n_y²·T xs)
   + 4·(δ/n)·(n_x·U ys - n_y·U xs)`. -/
theorem sum4_exact_merge (xs ys : List F) :
    Q (xs ++ ys) = Q xs + Q ys
      + (mean ys - mean xs)^4 * ((xs.length : F) * (ys.length : F)
          * ((xs.length : F) * (xs.length : F) - (xs.length : F) * (ys.length : F)
              + (ys.length : F) * (ys.length : F)) / ((xs.length : F) + (ys.length : F))^3)
      + 6 * ((mean ys - mean xs) / ((xs.length : F) + (ys.length : F)))^2
          * ((xs.length : F) * (xs.length : F) * T ys + (ys.length : F) * (ys.length : F) * T xs)
      + 4 * ((mean ys - mean xs) / ((xs.length : F) + (ys.length : F)))
          * ((xs.length : F) * U ys - (ys.length : F) * U xs) :=
  Q_append xs ys

/-- In exact arithmetic `Kurtosis.merge` of the exact summaries of two chunks *is* the exact summary of the
concatenation (`MSpec.kurtosis_merge`), in particular its `sum_4` is `Q(xs++ys)`. -/
theorem sum4_exact_merge_model (xs ys : List F) :
    ((canonK xs).merge (canonK ys)).sum_4 = Q (xs ++ ys) := by
  rw [kurtosis_merge]; rfl

omit [IsStrictOrderedRing F] in
/-- the absolute parts of the exact cross terms, spelled out (`Vx`, `Vy` third-order scales of the operands):
`absJ4 = δ⁴·w4 + 6(δ/n)²(n_x²·T ys + n_y²·T xs) + 4(|δ|/n)(n_x·Vy + n_y·Vx)`;
`absJS = |δ|³·n_x·n_y/n + 3(|δ|/n)(n_x·T ys + n_y·T xs)`. -/
theorem absJ_def (xs ys : List F) (Vx Vy : F) :
    absJ4 xs ys Vx Vy = (mean ys - mean xs)^4 * ((xs.length : F) * (ys.length : F)
          * ((xs.length : F) * (xs.length : F) - (xs.length : F) * (ys.length : F)
              + (ys.length : F) * (ys.length : F)) / ((xs.length : F) + (ys.length : F))^3)
        + 6 * ((mean ys - mean xs) / ((xs.length : F) + (ys.length : F)))^2
            * ((xs.length : F) * (xs.length : F) * T ys + (ys.length : F) * (ys.length : F) * T xs)
        + 4 * (|mean ys - mean xs| / ((xs.length : F) + (ys.length : F)))
            * ((xs.length : F) * Vy + (ys.length : F) * Vx)
    ∧ absJS xs ys = |mean ys - mean xs|^3
          * ((xs.length : F) * (ys.length : F) / ((xs.length : F) + (ys.length : F)))
        + 3 * (|mean ys - mean xs| / ((xs.length : F) + (ys.length : F)))
            * ((xs.length : F) * T ys + (ys.length : F) * T xs) :=
  ⟨rfl, rfl⟩

/-- the exact increment of `Q` at a merge is at most `absJ4` in absolute value when `Vx ≥ |U xs|`, `Vy ≥ |U ys|` -/
theorem abs_cross_le (xs ys : List F) (Vx Vy : F) (hx : |U xs| ≤ Vx) (hy : |U ys| ≤ Vy) :
    |Q (xs ++ ys) - (Q xs + Q ys)| ≤ absJ4 xs ys Vx Vy := by
  have e : Q (xs ++ ys) - (Q xs + Q ys) = crossP4 xs ys + crossQ4 xs ys + crossR4 xs ys := by
    rw [Q_append]; ring
  rw [e]
  have hP := crossP4_nonneg xs ys
  have hQ := crossQ4_nonneg xs ys
  have hR := abs_crossR4_le xs ys
  have hRV := absR4_le_absRV xs ys Vx Vy hx hy
  refine le_trans (abs_add_le _ _) ?_
  rw [abs_of_nonneg (add_nonneg hP hQ)]
  unfold absJ4; linarith

omit [IsStrictOrderedRing F] in
/-- **The two scales along a tree.** Leaves: `V3L = VR + VB`, `V4L = VA4 + VB4 + VE4`
(`VR = Σ|d_i|³·i/(i+1)`, `VB = Σ 3|d_i|T_i/(i+1)`, `VA4 = Σ d_i⁴·c_i`, `VB4 = Σ 6d_i²T_i/(i+1)²`,
`VE4 = Σ 4|d_i|·V3L(x_0..x_{i-1})/(i+1)`); nodes: the children's scales plus `absJS`, `absJ4`. -/
theorem scales_def (xs : List F) (l r : MTree F) :
    V3S (.leaf xs) = KurtErr.VR xs + VB xs
    ∧ V3S (.node l r) = V3S l + V3S r + absJS l.flatten r.flatten
    ∧ V4T (.leaf xs) = VA4 xs + VB4 xs + VE4 xs
    ∧ V4T (.node l r) = V4T l + V4T r + absJ4 l.flatten r.flatten (V3S l) (V3S r)
    ∧ VE4 xs = ∑ i ∈ range xs.length, 4 * |dev xs i| * V3L (xs.take i) / ((i : F) + 1) :=
  ⟨rfl, rfl, rfl, rfl, rfl⟩

/-- `|Σ(x - mean)⁴| ≤ V4T t`, `|Σ(x - mean)³| ≤ V3T t ≤ V3S t`, and both scales are non-negative, for every merge
tree over the data -/
theorem abs_Q_le_V4T (t : MTree F) :
    |Q t.flatten| ≤ V4T t ∧ 0 ≤ V4T t ∧ |U t.flatten| ≤ V3S t ∧ V3T t ≤ V3S t ∧ 0 ≤ V3S t :=
  ⟨KurtMerge.abs_Q_le_V4T t, V4T_nonneg t, abs_U_le_V3S t, V3T_le_V3S t, V3S_nonneg t⟩

/-! ## one merge -/

/-- What `Kurtosis.merge` computes for `sum_4` of two non-empty states at the carrier R2, operation by
operation: 31 rounded operations (`6`, `4` and the counts are exact conversions; `n_x + n_y`, `n_x·n_x`,
`n_x·n_y`, `n_y·n_y` are rounded operations on exactly converted counts; `sum_2`, `sum_3` are the values of the
operands). -/
theorem sum4_computed_merge (r : Rnd2 F) (s o : Kurtosis (RF2 r)) (hs : s.avg.avg.avg.n ≠ 0)
    (ho : o.avg.avg.avg.n ≠ 0) :
    (s.merge o).sum_4.val
      = r.fl (s.sum_4.val + r.fl (r.fl (r.fl (o.sum_4.val +
          r.fl (r.fl (r.fl (r.fl (r.fl (r.fl (o.avg.avg.avg.avg.val - s.avg.avg.avg.avg.val)
              * r.fl (r.fl (o.avg.avg.avg.avg.val - s.avg.avg.avg.avg.val)
                  / r.fl ((s.avg.avg.avg.n : F) + (o.avg.avg.avg.n : F))))
            * r.fl (r.fl (r.fl (o.avg.avg.avg.avg.val - s.avg.avg.avg.avg.val)
                  / r.fl ((s.avg.avg.avg.n : F) + (o.avg.avg.avg.n : F)))
                * r.fl (r.fl (o.avg.avg.avg.avg.val - s.avg.avg.avg.avg.val)
                  / r.fl ((s.avg.avg.avg.n : F) + (o.avg.avg.avg.n : F)))))
            * (s.avg.avg.avg.n : F)) * (o.avg.avg.avg.n : F))
            * r.fl (r.fl (r.fl ((s.avg.avg.avg.n : F) * (s.avg.avg.avg.n : F))
                  - r.fl ((s.avg.avg.avg.n : F) * (o.avg.avg.avg.n : F)))
                + r.fl ((o.avg.avg.avg.n : F) * (o.avg.avg.avg.n : F)))))
          + r.fl (r.fl (6 * r.fl (r.fl (r.fl (o.avg.avg.avg.avg.val - s.avg.avg.avg.avg.val)
                  / r.fl ((s.avg.avg.avg.n : F) + (o.avg.avg.avg.n : F)))
                * r.fl (r.fl (o.avg.avg.avg.avg.val - s.avg.avg.avg.avg.val)
                  / r.fl ((s.avg.avg.avg.n : F) + (o.avg.avg.avg.n : F)))))
              * r.fl (r.fl (r.fl ((s.avg.avg.avg.n : F) * (s.avg.avg.avg.n : F)) * o.avg.avg.sum_2.val)
                  + r.fl (r.fl ((o.avg.avg.avg.n : F) * (o.avg.avg.avg.n : F)) * s.avg.avg.sum_2.val))))
          + r.fl (r.fl (4 * r.fl (r.fl (o.avg.avg.avg.avg.val - s.avg.avg.avg.avg.val)
                  / r.fl ((s.avg.avg.avg.n : F) + (o.avg.avg.avg.n : F))))
              * r.fl (r.fl ((s.avg.avg.avg.n : F) * o.avg.sum_3.val)
                  - r.fl ((o.avg.avg.avg.n : F) * s.avg.sum_3.val))))) :=
  sum4_merge_val r s o hs ho

/-- Any carrier, bit for bit: the `Skewness` inside `Kurtosis` after any merge tree is what `Skewness` computes
through the same tree (so `Props.C02b`, `Props.C02c`, `Props.C02e` apply to the mean, `sum_2` and `sum_3`). -/
theorem inner_skewness_bitwise {α : Type} [Add α] [Sub α] [Mul α] [Div α] [NatCast α] (t : MTree α) :
    (Kurtosis.evalTree t).avg = Skewness.evalTree t :=
  Kurtosis.mtree_avg t

/-- The cancelling factor: the computed `fl(fl(fl(n_x·n_x) - fl(n_x·n_y)) + fl(n_y·n_y))` is within
`γ3·(n_x² + n_x·n_y + n_y²)` of `n_x² - n_x·n_y + n_y²` - in the standard model (which does not know that products of
small integers are exact) up to three times `γ3` relative to the result. -/
theorem polynomial_rounding_error (r : Rnd2 F) (nx ny : F) (hnx : 0 ≤ nx) (hny : 0 ≤ ny) :
    |r.fl (r.fl (r.fl (nx * nx) - r.fl (nx * ny)) + r.fl (ny * ny)) - (nx * nx - nx * ny + ny * ny)|
      ≤ ((1 + r.u)^3 - 1) * (nx * nx + nx * ny + ny * ny) :=
  poly2_abs_err r.fl r.u r.u_nonneg r.err nx ny hnx hny

/-- **Rounding of the first cross term.** With `D = fl(b - a)`, `Dn = fl(D/fl(n_x+n_y))`, `Dn2 = fl(Dn·Dn)` the
computed `fl(fl(fl(fl(fl(D·Dn)·Dn2)·n_x)·n_y)·fl(fl(fl(n_x·n_x) - fl(n_x·n_y)) + fl(n_y·n_y)))` is within
relative error `γ28 = (1+u)^28 - 1` of `(b - a)⁴·n_x·n_y·(n_x² - n_x·n_y + n_y²)/(n_x+n_y)³`. -/
theorem cross_termA_rounding_error (r : Rnd2 F) (hu2 : r.u ≤ 1/2) (a b nx ny : F)
    (hnx : 0 < nx) (hny : 0 < ny) :
    |r.fl (r.fl (r.fl (r.fl (r.fl (r.fl (b - a) * r.fl (r.fl (b - a) / r.fl (nx + ny)))
          * r.fl (r.fl (r.fl (b - a) / r.fl (nx + ny)) * r.fl (r.fl (b - a) / r.fl (nx + ny)))) * nx) * ny)
          * r.fl (r.fl (r.fl (nx * nx) - r.fl (nx * ny)) + r.fl (ny * ny)))
        - (b - a)^4 * (nx * ny * (nx * nx - nx * ny + ny * ny) / (nx + ny)^3)|
      ≤ ((1 + r.u)^28 - 1) * |(b - a)^4 * (nx * ny * (nx * nx - nx * ny + ny * ny) / (nx + ny)^3)| :=
  crossA4_RE r.fl r.u r.u_nonneg hu2 r.err a b nx ny hnx hny

/-- **Rounding of the second cross term.** The computed
`fl(fl(6·Dn2)·fl(fl(fl(n_x·n_x)·S_y) + fl(fl(n_y·n_y)·S_x)))` is within
`γ14·6·((b-a)/n)²·(n_x²·|S_y| + n_y²·|S_x|)` of `6·((b-a)/n)²·(n_x²·S_y + n_y²·S_x)`. -/
theorem cross_termB_rounding_error (r : Rnd2 F) (hu2 : r.u ≤ 1/2) (a b nx ny Sx Sy : F)
    (hnx : 0 < nx) (hny : 0 < ny) :
    |r.fl (r.fl (6 * r.fl (r.fl (r.fl (b - a) / r.fl (nx + ny)) * r.fl (r.fl (b - a) / r.fl (nx + ny))))
          * r.fl (r.fl (r.fl (nx * nx) * Sy) + r.fl (r.fl (ny * ny) * Sx)))
        - 6 * ((b - a) / (nx + ny))^2 * (nx * nx * Sy + ny * ny * Sx)|
      ≤ ((1 + r.u)^14 - 1) * (6 * ((b - a) / (nx + ny))^2 * (nx * nx * |Sy| + ny * ny * |Sx|)) :=
  crossB4_error r.fl r.u r.u_nonneg hu2 r.err a b nx ny Sx Sy hnx hny

/-- **Rounding of the third cross term.** The computed `fl(fl(4·Dn)·fl(fl(n_x·S3_y) - fl(n_y·S3_x)))` is within
`γ8·4·(|b-a|/n)·(n_x·|S3_y| + n_y·|S3_x|)` of `4·((b-a)/n)·(n_x·S3_y - n_y·S3_x)`: the rounded difference of the two
rounded products is relative to the sum of their absolute values, not to the difference. -/
theorem cross_termC_rounding_error (r : Rnd2 F) (hu2 : r.u ≤ 1/2) (a b nx ny S3x S3y : F)
    (hnx : 0 < nx) (hny : 0 < ny) :
    |r.fl (r.fl (4 * r.fl (r.fl (b - a) / r.fl (nx + ny))) * r.fl (r.fl (nx * S3y) - r.fl (ny * S3x)))
        - 4 * ((b - a) / (nx + ny)) * (nx * S3y - ny * S3x)|
      ≤ ((1 + r.u)^8 - 1) * (4 * (|b - a| / (nx + ny)) * (nx * |S3y| + ny * |S3x|)) :=
  crossC4_error r.fl r.u r.u_nonneg hu2 r.err a b nx ny S3x S3y hnx hny

/-- How the second cross term inherits the error of the difference of the means (`D = b - a` against
`δ = μ_y - μ_x`) and the errors of the two computed sums of squares (`S` against `T ≥ 0`):
`|6(D/n)²(n_x²S_y + n_y²S_x) - 6(δ/n)²(n_x²T_y + n_y²T_x)| ≤ (6/n²)·((2|δ||D-δ| + (D-δ)²)·(n_x²T_y + n_y²T_x)
   + (|δ| + |D-δ|)²·(n_x²·|S_y-T_y| + n_y²·|S_x-T_x|))`. -/
theorem cross_termB_inherited_error (D δ n nx ny Sx Sy Tx Ty : F) (hn : 0 < n) (hnx : 0 ≤ nx)
    (hny : 0 ≤ ny) (hTx : 0 ≤ Tx) (hTy : 0 ≤ Ty) :
    |6 * (D / n)^2 * (nx * nx * Sy + ny * ny * Sx) - 6 * (δ / n)^2 * (nx * nx * Ty + ny * ny * Tx)|
      ≤ 6 / n^2 * ((2 * |δ| * |D - δ| + (D - δ)^2) * (nx * nx * Ty + ny * ny * Tx)
          + (|δ| + |D - δ|)^2 * (nx * nx * |Sy - Ty| + ny * ny * |Sx - Tx|)) :=
  crossB4_shift D δ n nx ny Sx Sy Tx Ty hn hnx hny hTx hTy

/-- How the third cross term inherits the error of the difference of the means and the errors of the two computed
third-order sums (`S3` against `U`):
`|4(D/n)(n_x S3_y - n_y S3_x) - 4(δ/n)(n_x U_y - n_y U_x)| ≤ (4/n)·(|D-δ|·(n_x|U_y| + n_y|U_x|)
   + (|δ| + |D-δ|)·(n_x·|S3_y-U_y| + n_y·|S3_x-U_x|))`. -/
theorem cross_termC_inherited_error (D δ n nx ny S3x S3y Ux Uy : F) (hn : 0 < n) (hnx : 0 ≤ nx)
    (hny : 0 ≤ ny) :
    |4 * (D / n) * (nx * S3y - ny * S3x) - 4 * (δ / n) * (nx * Uy - ny * Ux)|
      ≤ 4 / n * (|D - δ| * (nx * |Uy| + ny * |Ux|)
          + (|δ| + |D - δ|) * (nx * |S3y - Uy| + ny * |S3x - Ux|)) :=
  crossC4_shift D δ n nx ny S3x S3y Ux Uy hn hnx hny

/-- `γ54 ≤ 55·u`, `γ15 ≤ 15.2·u`, `γ8 ≤ 8.1·u` for `u ≤ 1/1856` (`γ28 ≤ γ54`, `γ14 ≤ γ15`). -/
theorem gamma_numerals (u : F) (hu : 0 ≤ u) (h : u ≤ 1/1856) :
    (1 + u)^54 - 1 ≤ 55 * u ∧ (1 + u)^15 - 1 ≤ 76/5 * u ∧ (1 + u)^8 - 1 ≤ 81/10 * u :=
  ⟨g54_le u hu h, g15_le u hu h, g8_le u hu h⟩

/-- **One merge step (state lemma).** The `Kurtosis` states `s`, `o` hold the exact counts of the non-empty
chunks `xs`, `ys` and means within `εx`, `εy` of the exact ones. With `δ = mean ys - mean xs`, `n = n_x+n_y`,
`ε = εx+εy`, `P`, `Qc`, `R` the exact cross terms (`crossP4`, `crossQ4`, `crossR4`), `w4` the weight of `δ⁴`,
`Ra = 4(|δ|/n)(n_x|U ys| + n_y|U xs|)` (`absR4`), `K = n_x²·T ys + n_y²·T xs` (`mixK`),
`Hu = n_x·|U ys| + n_y·|U xs|` (`mixU`), `γ_i = (1+u)^i - 1`:

`|sum_4' - Q(xs++ys)| ≤ (1+u)⁴·( |s.sum_4 - Q xs| + |o.sum_4 - Q ys| + γ28·P + γ14·Qc + γ8·Ra
      + (1+γ28)·w4·(4|δ|³ε + 6δ²ε² + 4|δ|ε³ + ε⁴)
      + (1+γ14)·(6/n²)·((2|δ|ε + ε²)·K + (|δ|+ε)²·(n_x²·|o.sum_2 - T ys| + n_y²·|s.sum_2 - T xs|))
      + (1+γ8)·(4/n)·(ε·Hu + (|δ|+ε)·(n_x·|o.sum_3 - U ys| + n_y·|s.sum_3 - U xs|)) )
   + u(1+u)³·|Q ys + P| + u(1+u)²·|Q ys + P + Qc| + u(1+u)·|Q ys + P + Qc + R| + u·|Q(xs++ys)|`. -/
theorem sum4_merge_state_error (r : Rnd2 F) (hu2 : r.u ≤ 1/2) (s o : Kurtosis (RF2 r))
    (xs ys : List F) (hx : xs ≠ []) (hy : ys ≠ []) (hsn : s.avg.avg.avg.n = xs.length)
    (hon : o.avg.avg.avg.n = ys.length) (εx εy : F) (hsx : |s.avg.avg.avg.avg.val - mean xs| ≤ εx)
    (hoy : |o.avg.avg.avg.avg.val - mean ys| ≤ εy) :
    |(s.merge o).sum_4.val - Q (xs ++ ys)|
      ≤ (1 + r.u)^4 * (|s.sum_4.val - Q xs| + |o.sum_4.val - Q ys|
            + g r.u 28 * crossP4 xs ys + g r.u 14 * crossQ4 xs ys + g r.u 8 * absR4 xs ys
            + (1 + g r.u 28) * (w4 xs ys * (4 * |mean ys - mean xs|^3 * (εx + εy)
                + 6 * (mean ys - mean xs)^2 * (εx + εy)^2 + 4 * |mean ys - mean xs| * (εx + εy)^3
                + (εx + εy)^4))
            + (1 + g r.u 14) * (6 / ((xs.length : F) + (ys.length : F))^2
                * ((2 * |mean ys - mean xs| * (εx + εy) + (εx + εy)^2) * mixK xs ys
                    + (|mean ys - mean xs| + (εx + εy))^2
                      * ((xs.length : F) * (xs.length : F) * |o.avg.avg.sum_2.val - T ys|
                          + (ys.length : F) * (ys.length : F) * |s.avg.avg.sum_2.val - T xs|)))
            + (1 + g r.u 8) * (4 / ((xs.length : F) + (ys.length : F))
                * ((εx + εy) * mixU xs ys + (|mean ys - mean xs| + (εx + εy))
                    * ((xs.length : F) * |o.avg.sum_3.val - U ys|
                        + (ys.length : F) * |s.avg.sum_3.val - U xs|))))
        + r.u * (1 + r.u)^3 * |Q ys + crossP4 xs ys|
        + r.u * (1 + r.u)^2 * |Q ys + crossP4 xs ys + crossQ4 xs ys|
        + r.u * (1 + r.u) * |Q ys + crossP4 xs ys + crossQ4 xs ys + crossR4 xs ys|
        + r.u * |Q (xs ++ ys)| :=
  sum4_merge_error r hu2 s o xs ys hx hy hsn hon εx εy hsx hoy

omit [LinearOrder F] [IsStrictOrderedRing F] in
/-- the envelope and the new errors of one step, spelled out -/
theorem envelope4_def (u B Λ κ n V4 V3 Tn gA gB gC nx ny d w Qa Ra H Kx Hv Z2t Z3t : F) :
    G4 u B Λ κ n V4 V3 Tn = 30 * u * n * V4 + 14 * B * n * V3 + 27 * B^2 * n^2 * Tn
      + 25/2 * B^2 * Λ * n^3 * Tn + 25/2 * B^2 * κ * n^4 + 6 * B^4 * n^5
    ∧ stepX4 gA gB gC B nx ny d w Qa Ra H Kx Hv Z2t Z3t
      = gA * (d^4 * w) + gB * Qa + gC * Ra
        + (1 + gA) * (w * (4 * d^3 * (B * (nx + ny)) + 6 * d^2 * (B * (nx + ny))^2
            + 4 * d * (B * (nx + ny))^3 + (B * (nx + ny))^4))
        + (1 + gB) * (12 * (B * (d * H)) + 6 * (B^2 * Kx) + Z2t)
        + (1 + gC) * (4 * (B * Hv) + Z3t) :=
  ⟨rfl, rfl⟩

/-- **Super-additivity of the envelope.** `Λ, κ ≥ 0`, `B² ≤ Λ·κ`, `B ≥ 0`, `u ≤ 1/1856`, `(n_x+n_y)·u ≤ 1/64`,
`n_x, n_y ≥ 1`; `d = |δ|`, `q·n = n_x·n_y`, `s·n = q`, `w ≤ q`, `Qa·n² = 6·d²·(n_x²T_y + n_y²T_x)`,
`Ra·n = 4·d·(n_x V3_y + n_y V3_x)`, `Q3·n = 3·d·(n_x T_y + n_y T_x)`; `J4 = d⁴w + Qa + Ra`, `J3 = d³q + Q3`; relative
errors `gA ≤ 55u`, `gB ≤ 15.2u`, `gC ≤ 8.1u` of the three computed cross terms; error `B·n` of the difference of
the means; `Z2t`, `Z3t` the contributions of the errors of the sums of squares and of the third-order sums, bounded
as in `KurtMerge.z2_bound`, `z3_bound` (`P2 ≤ 32/31`, `P3 ≤ 64/61`). Then (same `Λ, κ` on both sides)
`G4(n_x,…) + G4(n_y,…) + stepX4 + 4u·(V4_x+V4_y+J4) ≤ G4(n_x+n_y, V4_x+V4_y+J4, V3_x+V3_y+J3, T_x+T_y+d²q)`. -/
theorem envelope4_superadditive
    (u B Λ κ gA gB gC P2 P3 nx ny Tx Ty V3x V3y V4x V4y d q s w Qa Ra Q3 Z2t Z3t : F)
    (hu : 0 ≤ u) (hu' : u ≤ 1/1856) (hB : 0 ≤ B) (hΛ : 0 ≤ Λ) (hκ : 0 ≤ κ) (hΛκ : B^2 ≤ Λ * κ)
    (hgA0 : 0 ≤ gA) (hgA : gA ≤ 55 * u) (hgB0 : 0 ≤ gB) (hgB : gB ≤ 76/5 * u)
    (hgC0 : 0 ≤ gC) (hgC : gC ≤ 81/10 * u)
    (hP2 : 0 ≤ P2) (hP2' : P2 ≤ 32/31) (hP3 : 0 ≤ P3) (hP3' : P3 ≤ 64/61)
    (hnx : 1 ≤ nx) (hny : 1 ≤ ny) (hnu : (nx + ny) * u ≤ 1/64)
    (hTx : 0 ≤ Tx) (hTy : 0 ≤ Ty) (hV3x : 0 ≤ V3x) (hV3y : 0 ≤ V3y) (hV4x : 0 ≤ V4x) (hV4y : 0 ≤ V4y)
    (hd : 0 ≤ d) (hq : q * (nx + ny) = nx * ny) (hs : s * (nx + ny) = q) (hw0 : 0 ≤ w) (hw : w ≤ q)
    (hQa0 : 0 ≤ Qa) (hQa : Qa * (nx + ny)^2 = 6 * d^2 * (nx * nx * Ty + ny * ny * Tx))
    (hRa0 : 0 ≤ Ra) (hRa : Ra * (nx + ny) = 4 * d * (nx * V3y + ny * V3x))
    (hQ3 : Q3 * (nx + ny) = 3 * d * (nx * Ty + ny * Tx))
    (hZ2 : Z2t ≤ 6 * P2 * s
          * ((d + B * (nx + ny))^2 * (19/2 * u * (nx * Ty + ny * Tx) + 2/5 * B^2 * (nx * ny * (nx + ny)))
              + 4/5 * B * ((d + B * (nx + ny)) * (nx * Ty + ny * Tx)
                  + 2 * (d + B * (nx + ny))^3 * (nx * ny))))
    (hZ3 : Z3t ≤ 4 * P3 * q
          * ((d + B * (nx + ny)) * (15 * u * (V3x + V3y) + 6 * B * (Tx + Ty) + 8/5 * B^3 * (nx^3 + ny^3))
              + 27/10 * B^2 * ((nx * Tx + ny * Ty) + (d + B * (nx + ny))^2 * (nx^2 + ny^2)))) :
    G4 u B Λ κ nx V4x V3x Tx + G4 u B Λ κ ny V4y V3y Ty
        + stepX4 gA gB gC B nx ny d w Qa Ra (nx * Ty + ny * Tx) (nx * nx * Ty + ny * ny * Tx)
            (nx * V3y + ny * V3x) Z2t Z3t
        + 4 * u * (V4x + V4y + (d^4 * w + Qa + Ra))
      ≤ G4 u B Λ κ (nx + ny) (V4x + V4y + (d^4 * w + Qa + Ra)) (V3x + V3y + (d^3 * q + Q3))
          (Tx + Ty + d^2 * q) :=
  superadd4 u B Λ κ gA gB gC P2 P3 nx ny Tx Ty V3x V3y V4x V4y d q s w Qa Ra Q3 Z2t Z3t hu hu' hB hΛ hκ hΛκ
    hgA0 hgA hgB0 hgB hgC0 hgC hP2 hP2' hP3 hP3' hnx hny hnu hTx hTy hV3x hV3y hV4x hV4y hd hq hs hw0 hw
    hQa0 hQa hRa0 hRa hQ3 hZ2 hZ3

/-! ## every merge tree -/

/-- **The invariant.** `u ≤ 1/1856`; `B` any per-observation budget of the mean that every merge tree keeps
(`B ≥ 2M(2w+u)`, `w = (2u+u²)(1+u)`, `5u(M + B·n) ≤ B`, as in `Props.C02b.mean_mtree_forward_error_gen`);
`n·u ≤ 1/64`; any `Λ, κ ≥ 0` with `B² ≤ Λ·κ`. For every merge tree over `n` observations with `|x| ≤ M`:
`|sum_4 - Q| ≤ (1+u)^(4n)·G4(n, V4T t, V3S t, T)`. -/
theorem sum4_mtree_invariant (r : Rnd2 F) (M B Λ κ : F) (hM : 0 ≤ M) (hu' : r.u ≤ 1/1856)
    (hB : 2 * M * (2 * ((2*r.u + r.u^2) * (1 + r.u)) + r.u) ≤ B)
    (hΛ : 0 ≤ Λ) (hκ : 0 ≤ κ) (hΛκ : B^2 ≤ Λ * κ) (t : MTree (RF2 r))
    (hb : ∀ x ∈ t.flatten, |x.val| ≤ M) (hnu : (t.flatten.length : F) * r.u ≤ 1/64)
    (hs2 : 5 * r.u * (M + B * (t.flatten.length : F)) ≤ B) :
    |(Kurtosis.evalTree t).sum_4.val - Q (t.flatten.map RF2.val)|
      ≤ (1 + r.u)^(4 * t.flatten.length)
          * G4 r.u B Λ κ (t.flatten.length : F) (V4T (t.map RF2.val)) (V3S (t.map RF2.val))
              (T (t.flatten.map RF2.val)) :=
  kurt_mtree_inv r M B Λ κ hM hu' hB hΛ hκ hΛκ t hb hnu hs2

/-- **Symbolic in the budget `B` of the mean.** Same hypotheses on `B`; `n ≥ 1`; any `R₀ ≥ 0` with `n·T ≤ R₀²`:
`|sum_4 - Q| ≤ (1+u)^(4n)·(30·u·n·V4T + 14·B·n·V3S + 27·B²·n²·T + 25·B³·n³·R₀ + (13/2)·B⁴·n⁵)`. -/
theorem sum4_mtree_forward_error_symbolic (r : Rnd2 F) (M B : F) (hM : 0 ≤ M) (hu' : r.u ≤ 1/1856)
    (hB : 2 * M * (2 * ((2*r.u + r.u^2) * (1 + r.u)) + r.u) ≤ B) (t : MTree (RF2 r))
    (hne : t.flatten ≠ []) (hb : ∀ x ∈ t.flatten, |x.val| ≤ M)
    (hnu : (t.flatten.length : F) * r.u ≤ 1/64)
    (hs2 : 5 * r.u * (M + B * (t.flatten.length : F)) ≤ B)
    (R₀ : F) (hR : 0 ≤ R₀) (hRT : (t.flatten.length : F) * T (t.flatten.map RF2.val) ≤ R₀^2) :
    |(Kurtosis.evalTree t).sum_4.val - Q (t.flatten.map RF2.val)|
      ≤ (1 + r.u)^(4 * t.flatten.length)
          * (30 * r.u * (t.flatten.length : F) * V4T (t.map RF2.val)
              + 14 * B * (t.flatten.length : F) * V3S (t.map RF2.val)
              + 27 * B^2 * (t.flatten.length : F)^2 * T (t.flatten.map RF2.val)
              + 25 * B^3 * (t.flatten.length : F)^3 * R₀
              + 13/2 * B^4 * (t.flatten.length : F)^5) :=
  kurt_mtree_error_sym r M B hM hu' hB t hne hb hnu hs2 R₀ hR hRT

/-- **`sum_4` of `Kurtosis`, every merge tree.** In the standard model of rounding with unit roundoff `u`, for
every merge tree `t` (any shape, any chunk sizes, empty and one-element chunks included; leaves folded with
`Kurtosis.add`, nodes merged with `Kurtosis.merge`) over `n` observations with `|x| ≤ M` and
`(n+28)·u ≤ 1/64`, with `Q = Σ(x - mean)⁴`, `T = Σ(x - mean)²` of the whole sequence, `V4T`, `V3S` the scales of the
tree and any `R₀ ≥ 0` with `n·T ≤ R₀²`:
`|sum_4 - Q| ≤ 32·n·u·V4T + 154·n·u·M·V3S + 3026·n²·u²·M²·T + 28718·n³·u³·M³·R₀ + 76532·n⁵·u⁴·M⁴`. -/
theorem sum4_mtree_forward_error (r : Rnd2 F) (M : F) (hM : 0 ≤ M) (t : MTree (RF2 r))
    (hb : ∀ x ∈ t.flatten, |x.val| ≤ M) (hsmall : ((t.flatten.length : F) + 28) * r.u ≤ 1/64)
    (R₀ : F) (hR : 0 ≤ R₀) (hRT : (t.flatten.length : F) * T (t.flatten.map RF2.val) ≤ R₀^2) :
    |(Kurtosis.evalTree t).sum_4.val - Q (t.flatten.map RF2.val)|
      ≤ 32 * (t.flatten.length : F) * r.u * V4T (t.map RF2.val)
        + 154 * (t.flatten.length : F) * r.u * M * V3S (t.map RF2.val)
        + 3026 * (t.flatten.length : F)^2 * r.u^2 * M^2 * T (t.flatten.map RF2.val)
        + 28718 * (t.flatten.length : F)^3 * r.u^3 * M^3 * R₀
        + 76532 * (t.flatten.length : F)^5 * r.u^4 * M^4 :=
  kurt_mtree_error_lin r M hM t hb hsmall R₀ hR hRT

/-- The same over ℝ with `R₀ = sqrt(n·T)`. -/
theorem sum4_mtree_forward_error_sqrt (r : Rnd2 ℝ) (M : ℝ) (hM : 0 ≤ M) (t : MTree (RF2 r))
    (hb : ∀ x ∈ t.flatten, |x.val| ≤ M) (hsmall : ((t.flatten.length : ℝ) + 28) * r.u ≤ 1/64) :
    |(Kurtosis.evalTree t).sum_4.val - Q (t.flatten.map RF2.val)|
      ≤ 32 * (t.flatten.length : ℝ) * r.u * V4T (t.map RF2.val)
        + 154 * (t.flatten.length : ℝ) * r.u * M * V3S (t.map RF2.val)
        + 3026 * (t.flatten.length : ℝ)^2 * r.u^2 * M^2 * T (t.flatten.map RF2.val)
        + 28718 * (t.flatten.length : ℝ)^3 * r.u^3 * M^3
            * Real.sqrt ((t.flatten.length : ℝ) * T (t.flatten.map RF2.val))
        + 76532 * (t.flatten.length : ℝ)^5 * r.u^4 * M^4 :=
  kurt_mtree_error_lin r M hM t hb hsmall _ (Real.sqrt_nonneg _)
    (le_of_eq (Real.sq_sqrt (mul_nonneg (Nat.cast_nonneg _) (T_nonneg _))).symm)

/-- **Envelope form, linear in the conditioning.** If `σ ≥ 0` with `T ≤ n·σ²` (`σ` at least the population
standard deviation) and `n·u·M ≤ σ`, then for every merge tree
`|sum_4 - Q| ≤ 32·n·u·V4T + 154·n·u·M·V3S + 108276·n²·u·M·σ³` - the last term is `108276·n·u·(M/σ)` relative to the
scale `n·σ⁴`. -/
theorem sum4_mtree_envelope (r : Rnd2 F) (M : F) (hM : 0 ≤ M) (t : MTree (RF2 r))
    (hb : ∀ x ∈ t.flatten, |x.val| ≤ M) (hsmall : ((t.flatten.length : F) + 28) * r.u ≤ 1/64)
    (σ : F) (hσ : 0 ≤ σ) (hvar : T (t.flatten.map RF2.val) ≤ (t.flatten.length : F) * σ^2)
    (hcond : (t.flatten.length : F) * r.u * M ≤ σ) :
    |(Kurtosis.evalTree t).sum_4.val - Q (t.flatten.map RF2.val)|
      ≤ 32 * (t.flatten.length : F) * r.u * V4T (t.map RF2.val)
        + 154 * (t.flatten.length : F) * r.u * M * V3S (t.map RF2.val)
        + 108276 * (t.flatten.length : F)^2 * r.u * M * σ^3 :=
  kurt_mtree_envelope r M hM t hb hsmall σ hσ hvar hcond

/-! ## the scales against `V3 = Σ|x - mean|³` and `Q = Σ(x - mean)⁴` -/

/-- **`V3S t ≤ (320 + 10·height t)·V3`** for every merge tree, `V3 = Σ|x - mean|³` over the whole data
(`SkewErr.V3`), `height` the number of levels of merges (`SkewMerge.height`). -/
theorem V3S_le_V3_height (t : MTree F) : V3S t ≤ (320 + 10 * (height t : F)) * V3 t.flatten :=
  V3S_le_V3 t

/-- One node costs at most `(35 + 11·C)` times the sum of the fourth powers of its data about ANY centre `c`, when
the third-order scales `Vx`, `Vy` of its children are at most `C` times their sums of absolute cubes about `c`:
`absJ4 xs ys Vx Vy ≤ (35 + 11·C)·Σ_{xs++ys}(x - c)⁴` (Jensen for the two chunk means, Young for the mixed terms). -/
theorem node_scale_le (xs ys : List F) (hx : xs ≠ []) (hy : ys ≠ []) (c C Vx Vy : F) (hC : 0 ≤ C)
    (hVx0 : 0 ≤ Vx) (hVy0 : 0 ≤ Vy) (hVx : Vx ≤ C * (xs.map (fun x => |x - c|^3)).sum)
    (hVy : Vy ≤ C * (ys.map (fun x => |x - c|^3)).sum) :
    absJ4 xs ys Vx Vy ≤ (35 + 11 * C) * ((xs ++ ys).map (fun x => (x - c)^4)).sum :=
  absJ4_le_Q4c xs ys hx hy c C Vx Vy hC hVx0 hVy0 hVx hVy

/-- **`V4T t ≤ (257840 + 3555·h + 55·h²)·Q`** for every merge tree, `Q = Σ(x - mean)⁴` over the whole data,
`h = height t`. The constant of a leaf is `16115·16` (`Props.C03c.scales_le_Q` with `V3L` in the place of `V3p`,
and the change of centre); a node whose children have height at most `H` costs `35 + 11·(320 + 10·H)`. -/
theorem V4T_le_Q_height (t : MTree F) :
    V4T t ≤ (257840 + 3555 * (height t : F) + 55 * (height t : F)^2) * Q t.flatten :=
  V4T_le_Q t

/-- **Forward error of `sum_4` in the scales `Q`, `V3`**, every merge tree of height `h`:
`|sum_4 - Q| ≤ 32·(257840 + 3555h + 55h²)·n·u·Q + 154·(320 + 10h)·n·u·M·V3 + 3026·n²·u²·M²·T + 28718·n³·u³·M³·R₀
   + 76532·n⁵·u⁴·M⁴`. -/
theorem sum4_mtree_forward_error_Q (r : Rnd2 F) (M : F) (hM : 0 ≤ M) (t : MTree (RF2 r))
    (hb : ∀ x ∈ t.flatten, |x.val| ≤ M) (hsmall : ((t.flatten.length : F) + 28) * r.u ≤ 1/64)
    (R₀ : F) (hR : 0 ≤ R₀) (hRT : (t.flatten.length : F) * T (t.flatten.map RF2.val) ≤ R₀^2) :
    |(Kurtosis.evalTree t).sum_4.val - Q (t.flatten.map RF2.val)|
      ≤ 32 * (257840 + 3555 * (height t : F) + 55 * (height t : F)^2) * (t.flatten.length : F) * r.u
            * Q (t.flatten.map RF2.val)
        + 154 * (320 + 10 * (height t : F)) * (t.flatten.length : F) * r.u * M * V3 (t.flatten.map RF2.val)
        + 3026 * (t.flatten.length : F)^2 * r.u^2 * M^2 * T (t.flatten.map RF2.val)
        + 28718 * (t.flatten.length : F)^3 * r.u^3 * M^3 * R₀
        + 76532 * (t.flatten.length : F)^5 * r.u^4 * M^4 := by
  refine le_trans (kurt_mtree_error_lin r M hM t hb hsmall R₀ hR hRT) ?_
  have hV4 := V4T_le_Q (t.map RF2.val)
  have hV3 := V3S_le_V3 (t.map RF2.val)
  rw [height_map, MTree.flatten_map] at hV4 hV3
  have hu := r.u_nonneg
  have hn0 : (0 : F) ≤ t.flatten.length := Nat.cast_nonneg _
  have h1 : 32 * (t.flatten.length : F) * r.u * V4T (t.map RF2.val)
      ≤ 32 * (t.flatten.length : F) * r.u
          * ((257840 + 3555 * (height t : F) + 55 * (height t : F)^2) * Q (t.flatten.map RF2.val)) := by
    gcongr
  have h2 : 154 * (t.flatten.length : F) * r.u * M * V3S (t.map RF2.val)
      ≤ 154 * (t.flatten.length : F) * r.u * M
          * ((320 + 10 * (height t : F)) * V3 (t.flatten.map RF2.val)) := by gcongr
  linarith

/-- **Relative forward error of `sum_4` after any merge tree, linear in the conditioning.** `n ≥ 1` observations
with `|x| ≤ M`, `(n+28)·u ≤ 1/64`, `σ > 0` the population standard deviation (`n·σ² = T`), `n·u·M ≤ σ`; for every
merge tree of height `h`:
`|sum_4 - Q| ≤ n·u·( 32·(257840 + 3555·h + 55·h²) + (157556 + 1540·h)·(M/σ) )·Q`. -/
theorem sum4_mtree_relative_error (r : Rnd2 F) (M : F) (hM : 0 ≤ M) (t : MTree (RF2 r))
    (hne : t.flatten ≠ []) (hb : ∀ x ∈ t.flatten, |x.val| ≤ M)
    (hsmall : ((t.flatten.length : F) + 28) * r.u ≤ 1/64)
    (σ : F) (hσ : 0 < σ) (hvar : (t.flatten.length : F) * σ^2 = T (t.flatten.map RF2.val))
    (hcond : (t.flatten.length : F) * r.u * M ≤ σ) :
    |(Kurtosis.evalTree t).sum_4.val - Q (t.flatten.map RF2.val)|
      ≤ (t.flatten.length : F) * r.u
          * (32 * (257840 + 3555 * (height t : F) + 55 * (height t : F)^2)
              + (157556 + 1540 * (height t : F)) * (M / σ)) * Q (t.flatten.map RF2.val) := by
  have hu := r.u_nonneg
  set vs := t.flatten.map RF2.val with hvs
  have hvne : vs ≠ [] := by simpa [hvs] using hne
  have hvl : (vs.length : F) = (t.flatten.length : F) := by simp [hvs]
  set n : F := (t.flatten.length : F) with hn
  have hn0 : 0 ≤ n := Nat.cast_nonneg _
  have hh0 : (0 : F) ≤ (height t : F) := Nat.cast_nonneg _
  have main := kurt_mtree_envelope r M hM t hb hsmall σ hσ.le (le_of_eq hvar.symm) hcond
  refine le_trans main ?_
  have hV4 := V4T_le_Q (t.map RF2.val)
  have hV3 := V3S_le_V3 (t.map RF2.val)
  rw [height_map, MTree.flatten_map] at hV4 hV3
  have hQ0 := Q_nonneg vs
  have hV30 := V3_nonneg vs
  have hsv : σ * V3 vs ≤ Q vs := KurtErr.sigma_V3_le vs hvne σ (by rw [hvl]; exact le_of_eq hvar)
  have hs4 : n * σ^4 ≤ Q vs := by
    have := KurtErr.sigma4_le vs hvne σ (by rw [hvl]; exact le_of_eq hvar)
    rwa [hvl] at this
  have hMσ : 0 ≤ M / σ := by positivity
  have hnu0 : 0 ≤ n * r.u := by positivity
  -- the three parts
  have h1 : 32 * n * r.u * V4T (t.map RF2.val)
      ≤ n * r.u * (32 * (257840 + 3555 * (height t : F) + 55 * (height t : F)^2)) * Q vs := by
    calc 32 * n * r.u * V4T (t.map RF2.val)
        ≤ 32 * n * r.u * ((257840 + 3555 * (height t : F) + 55 * (height t : F)^2) * Q vs) := by gcongr
      _ = _ := by ring
  have h2 : 154 * n * r.u * M * V3S (t.map RF2.val)
      ≤ n * r.u * ((49280 + 1540 * (height t : F)) * (M / σ)) * Q vs := by
    have hMV : M * V3 vs ≤ (M / σ) * Q vs := by
      calc M * V3 vs = (M / σ) * (σ * V3 vs) := by field_simp
        _ ≤ (M / σ) * Q vs := by gcongr
    calc 154 * n * r.u * M * V3S (t.map RF2.val)
        ≤ 154 * n * r.u * M * ((320 + 10 * (height t : F)) * V3 vs) := by gcongr
      _ = 154 * (n * r.u) * (320 + 10 * (height t : F)) * (M * V3 vs) := by ring
      _ ≤ 154 * (n * r.u) * (320 + 10 * (height t : F)) * ((M / σ) * Q vs) := by gcongr
      _ = _ := by ring
  have h3 : 108276 * n^2 * r.u * M * σ^3 ≤ n * r.u * (108276 * (M / σ)) * Q vs := by
    calc 108276 * n^2 * r.u * M * σ^3 = 108276 * (n * r.u) * (M / σ) * (n * σ^4) := by
          field_simp
      _ ≤ 108276 * (n * r.u) * (M / σ) * Q vs := by gcongr
      _ = _ := by ring
  have e : n * r.u * (32 * (257840 + 3555 * (height t : F) + 55 * (height t : F)^2)
        + (157556 + 1540 * (height t : F)) * (M / σ)) * Q vs
      = n * r.u * (32 * (257840 + 3555 * (height t : F) + 55 * (height t : F)^2)) * Q vs
        + n * r.u * ((49280 + 1540 * (height t : F)) * (M / σ)) * Q vs
        + n * r.u * (108276 * (M / σ)) * Q vs := by ring
  rw [e]
  linarith

/-! ## all of `Kurtosis` -/

/-- **All state components of `Kurtosis` through every merge tree, one statement** (`(n+28)·u ≤ 1/64`): the
count is exact, the mean is within `11·u·M·n`, `sum_2` within `10·n·u·T + 17·n·u·M·R₀ + 45·n³·u²·M²`
(`Props.C02c`), `sum_3` within `16·n·u·V3T + 65·n·u·M·T + 596·n²·u²·M²·R₀ + 1865·n⁴·u³·M³` (`Props.C02e`),
`sum_4` within `32·n·u·V4T + 154·n·u·M·V3S + 3026·n²·u²·M²·T + 28718·n³·u³·M³·R₀ + 76532·n⁵·u⁴·M⁴`. -/
theorem kurtosis_mtree_state_forward_error (r : Rnd2 F) (M : F) (hM : 0 ≤ M) (t : MTree (RF2 r))
    (hb : ∀ x ∈ t.flatten, |x.val| ≤ M) (hsmall : ((t.flatten.length : F) + 28) * r.u ≤ 1/64)
    (R₀ : F) (hR : 0 ≤ R₀) (hRT : (t.flatten.length : F) * T (t.flatten.map RF2.val) ≤ R₀^2) :
    (Kurtosis.evalTree t).avg.avg.avg.n = t.flatten.length
    ∧ |(Kurtosis.evalTree t).avg.avg.avg.avg.val - mean (t.flatten.map RF2.val)|
        ≤ 11 * r.u * M * (t.flatten.length : F)
    ∧ |(Kurtosis.evalTree t).avg.avg.sum_2.val - T (t.flatten.map RF2.val)|
        ≤ 10 * (t.flatten.length : F) * r.u * T (t.flatten.map RF2.val)
          + 17 * (t.flatten.length : F) * r.u * M * R₀
          + 45 * (t.flatten.length : F)^3 * r.u^2 * M^2
    ∧ |(Kurtosis.evalTree t).avg.sum_3.val - U (t.flatten.map RF2.val)|
        ≤ 16 * (t.flatten.length : F) * r.u * V3T (t.map RF2.val)
          + 65 * (t.flatten.length : F) * r.u * M * T (t.flatten.map RF2.val)
          + 596 * (t.flatten.length : F)^2 * r.u^2 * M^2 * R₀
          + 1865 * (t.flatten.length : F)^4 * r.u^3 * M^3
    ∧ |(Kurtosis.evalTree t).sum_4.val - Q (t.flatten.map RF2.val)|
        ≤ 32 * (t.flatten.length : F) * r.u * V4T (t.map RF2.val)
          + 154 * (t.flatten.length : F) * r.u * M * V3S (t.map RF2.val)
          + 3026 * (t.flatten.length : F)^2 * r.u^2 * M^2 * T (t.flatten.map RF2.val)
          + 28718 * (t.flatten.length : F)^3 * r.u^3 * M^3 * R₀
          + 76532 * (t.flatten.length : F)^5 * r.u^4 * M^4 := by
  have h := Props.C02e.skewness_mtree_state_forward_error r M hM t hb hsmall R₀ hR hRT
  rw [← Kurtosis.mtree_avg] at h
  exact ⟨h.1, h.2.1, h.2.2.1, h.2.2.2, kurt_mtree_error_lin r M hM t hb hsmall R₀ hR hRT⟩

/-! ## Non-vacuity -/

/-- the tree of `Props.C02e`: ill-conditioned data (offset 1000; deviations `-2, -4, 0, 6` from the mean 1003) in
a tree with a nested merge, an empty chunk in the middle, a one-element chunk and unequal chunk sizes; the rounding
`Props.C02b.awayRnd` is never exact (except at 0): it always moves away from zero by the full relative amount
`u = 2^-53` -/
abbrev exTree : MTree (RF2 Props.C02b.awayRnd) := Props.C02e.exTree

theorem exTree_Q : Q (exTree.flatten.map RF2.val) = 1568 := by
  norm_num [exTree, Props.C02e.exTree, MTree.flatten, Q, sumPow, mean]

/-- the third-order scale of the tree: the first chunk contributes `V3L = 4 + 18 + 6 = 28`, the root
`|δ|³·n_x n_y/n + 3(|δ|/n)·n_y·T xs = 384 + 48`, the empty chunk and the one-element chunk nothing -/
theorem exTree_V3S : V3S (exTree.map RF2.val) = 460 := by
  have h1 : V3L ([1001, 999, 1003] : List ℚ) = 28 := by
    norm_num [V3L, KurtErr.VR, VB, incB, dev, T, sumPow, mean, Finset.sum_range_succ]
  have h2 : V3L ([1009] : List ℚ) = 0 := by
    norm_num [V3L, KurtErr.VR, VB, incB, dev, T, sumPow, mean, Finset.sum_range_succ]
  have h3 : V3L ([] : List ℚ) = 0 := V3L_nil
  have h4 : absJS ([] : List ℚ) [1009] = 0 := absJS_nil_left _
  have h5 : absJS ([1001, 999, 1003] : List ℚ) [1009] = 432 := by
    norm_num [absJS, absQ, mergeW, mixH, T, sumPow, mean]
  simp only [exTree, Props.C02e.exTree, MTree.map, V3S, MTree.flatten, List.map_cons, List.map_nil,
    List.nil_append, h1, h2, h3, h4, h5]
  norm_num

/-- the fourth-order scale of the tree: the first chunk contributes `V4L = (2 + 18) + 12 + 16 = 48` (its own `Q` is
`32`), the root `P + Qc + 4(|δ|/n)·n_y·V3S l = 1344 + 192 + 224` (and `Q xs + P + Qc + R = 32 + 1344 + 192 + 0 = 1568`
is the exact `Q`), the empty chunk and the one-element chunk nothing -/
theorem exTree_V4T : V4T (exTree.map RF2.val) = 1808 := by
  have h0 : V3L ([1001, 999, 1003] : List ℚ) = 28 := by
    norm_num [V3L, KurtErr.VR, VB, incB, dev, T, sumPow, mean, Finset.sum_range_succ]
  have h0' : V3L ([1009] : List ℚ) = 0 := by
    norm_num [V3L, KurtErr.VR, VB, incB, dev, T, sumPow, mean, Finset.sum_range_succ]
  have h1 : V4L ([1001, 999, 1003] : List ℚ) = 48 := by
    norm_num [V4L, VA4, VB4, VE4, V3L, KurtErr.VR, VB, incA4, incB4, KurtErr.incD4, incB, cQ, dev, T, sumPow,
      mean, Finset.sum_range_succ]
  have h2 : V4L ([1009] : List ℚ) = 0 := by
    norm_num [V4L, VA4, VB4, VE4, V3L, KurtErr.VR, VB, incA4, incB4, KurtErr.incD4, incB, cQ, dev, T, sumPow,
      mean, Finset.sum_range_succ]
  have h3 : V4L ([] : List ℚ) = 0 := V4L_nil
  have h3' : V3L ([] : List ℚ) = 0 := V3L_nil
  have h4 : absJS ([] : List ℚ) [1009] = 0 := absJS_nil_left _
  have h5 : absJ4 ([] : List ℚ) [1009] 0 0 = 0 := absJ4_nil_left _ _
  have h6 : absJ4 ([1001, 999, 1003] : List ℚ) [1009] 28 0 = 1760 := by
    norm_num [absJ4, crossP4, crossQ4, absRV, w4, mixK, T, sumPow, mean]
  simp only [exTree, Props.C02e.exTree, MTree.map, V4T, V3S, MTree.flatten, List.map_cons, List.map_nil,
    List.nil_append, h0, h0', h1, h2, h3, h3', h4, h5, add_zero, h6]
  norm_num

/-- the hypotheses of `sum4_mtree_forward_error` are met by `exTree` with `M = 1009`, `u = 2^-53`, `R₀ = 15`
(`n·T = 224 ≤ 225`) -/
example : (∀ x ∈ exTree.flatten, |x.val| ≤ 1009)
    ∧ ((exTree.flatten.length : ℚ) + 28) * Props.C02b.awayRnd.u ≤ 1/64
    ∧ (exTree.flatten.length : ℚ) * T (exTree.flatten.map RF2.val) ≤ 15^2 := by
  refine ⟨?_, ?_, ?_⟩
  · intro x hx
    simp only [exTree, Props.C02e.exTree, MTree.flatten, List.nil_append, List.mem_append, List.mem_cons,
      List.not_mem_nil, or_false] at hx
    rcases hx with (rfl | rfl | rfl) | rfl <;> norm_num
  · norm_num [exTree, Props.C02e.exTree, MTree.flatten, Props.C02b.awayRnd]
  · rw [Props.C02e.exTree_T]; norm_num [exTree, Props.C02e.exTree, MTree.flatten]

/-- and the conclusion is a concrete statement about a computation under a rounding that is never exact (one
merge of two non-empty states: 31 rounded operations for `sum_4`, 19 for `sum_3`, 13 for the inner `Variance`; 31
rounded operations per `add`): the computed `sum_4` is within
`32·4·u·1808 + 154·4·u·1009·460 + 3026·16·u²·1009²·56 + 28718·64·u³·1009³·15 + 76532·1024·u⁴·1009⁴`
(about `2.9·10^8·u ≈ 3.2·10^-8`) of the exact `Q = 1568`. -/
example : |(Kurtosis.evalTree exTree).sum_4.val - 1568|
    ≤ 32 * 4 * (1/2^53) * 1808 + 154 * 4 * (1/2^53) * 1009 * 460
      + 3026 * (4:ℚ)^2 * (1/2^53)^2 * 1009^2 * 56 + 28718 * (4:ℚ)^3 * (1/2^53)^3 * 1009^3 * 15
      + 76532 * (4:ℚ)^5 * (1/2^53)^4 * 1009^4 := by
  have h := sum4_mtree_forward_error Props.C02b.awayRnd 1009 (by norm_num) exTree
    (by intro x hx
        simp only [exTree, Props.C02e.exTree, MTree.flatten, List.nil_append, List.mem_append, List.mem_cons,
          List.not_mem_nil, or_false] at hx
        rcases hx with (rfl | rfl | rfl) | rfl <;> norm_num)
    (by norm_num [exTree, Props.C02e.exTree, MTree.flatten, Props.C02b.awayRnd]) 15 (by norm_num)
    (by rw [Props.C02e.exTree_T]; norm_num [exTree, Props.C02e.exTree, MTree.flatten])
  rw [Props.C02e.exTree_T, exTree_Q, exTree_V3S, exTree_V4T] at h
  have hl : (exTree.flatten.length : ℚ) = 4 := by norm_num [exTree, Props.C02e.exTree, MTree.flatten]
  have hu : Props.C02b.awayRnd.u = 1/2^53 := rfl
  rw [hl, hu] at h
  exact h

/-- the height of `exTree` is 2, `Q = 1568`, `V3 = 8 + 64 + 0 + 216 = 288`: indeed `V3S = 460 ≤ (320 + 20)·288` and
`V4T = 1808 ≤ (257840 + 7110 + 220)·1568` -/
example : height exTree = 2 ∧ V3 (exTree.flatten.map RF2.val) = 288 := by
  refine ⟨rfl, ?_⟩
  norm_num [exTree, Props.C02e.exTree, MTree.flatten, V3, mean, abs_of_nonneg, abs_of_neg]

end Props.C02f

#print axioms Props.C02f.sum4_exact_merge
#print axioms Props.C02f.sum4_exact_merge_model
#print axioms Props.C02f.absJ_def
#print axioms Props.C02f.abs_cross_le
#print axioms Props.C02f.scales_def
#print axioms Props.C02f.abs_Q_le_V4T
#print axioms Props.C02f.sum4_computed_merge
#print axioms Props.C02f.inner_skewness_bitwise
#print axioms Props.C02f.polynomial_rounding_error
#print axioms Props.C02f.cross_termA_rounding_error
#print axioms Props.C02f.cross_termB_rounding_error
#print axioms Props.C02f.cross_termC_rounding_error
#print axioms Props.C02f.cross_termB_inherited_error
#print axioms Props.C02f.cross_termC_inherited_error
#print axioms Props.C02f.gamma_numerals
#print axioms Props.C02f.sum4_merge_state_error
#print axioms Props.C02f.envelope4_def
#print axioms Props.C02f.envelope4_superadditive
#print axioms Props.C02f.sum4_mtree_invariant
#print axioms Props.C02f.sum4_mtree_forward_error_symbolic
#print axioms Props.C02f.sum4_mtree_forward_error
#print axioms Props.C02f.sum4_mtree_forward_error_sqrt
#print axioms Props.C02f.sum4_mtree_envelope
#print axioms Props.C02f.V3S_le_V3_height
#print axioms Props.C02f.node_scale_le
#print axioms Props.C02f.V4T_le_Q_height
#print axioms Props.C02f.sum4_mtree_forward_error_Q
#print axioms Props.C02f.sum4_mtree_relative_error
#print axioms Props.C02f.kurtosis_mtree_state_forward_error
