import AvgProofs.MergeEmpty
import AvgProofs.SameStats

/-!
# C11 - the empty estimator is an exact identity of merge; lengths add exactly

Carrier: O - any carrier `α` with the arithmetic classes of the model (so bit for bit for IEEE doubles).
All statements are about EVERY state `a`, `b` (reachable or not). Carrier laws are used only where the Rust
code has no early return (`WeightedMeanWithError`, `Min`, `Max`, and `0 == 0` for `WeightedMean`), and they
are explicit hypotheses about the particular values involved.

`X.SameStats s t` (AvgProofs/SameStats.lean) is the conjunction "every public accessor of `X` returns the
same value on `s` and `t`".

"merge never modifies its argument" is structural in the model: `merge` is a pure function of the two states
returning a new state, and Rust's `fn merge(&mut self, other: &Self)` takes `other` by shared reference; no
theorem is needed (or possible) for it. The harness compares `other` before/after.
-/
set_option linter.unusedSectionVars false
open Avg

namespace Props.C11
variable {α : Type} [Add α] [Sub α] [Mul α] [Div α] [NatCast α] [FloatOps α]

/-! ## Mean, Variance, Skewness, Kurtosis -/

/-- `Mean`: merging an empty estimator into any `a` returns `a` itself; merging `a` into an empty one returns
`a` itself when `a` has observations, and the fresh estimator when `a` is empty too. -/
theorem mean_merge_identity (a : Mean α) :
    a.merge Mean.new = a ∧ (a.n ≠ 0 → Mean.new.merge a = a) ∧ (a.n = 0 → Mean.new.merge a = Mean.new) :=
  ⟨Mean.merge_empty a _ rfl, Mean.empty_merge _ a rfl, Mean.merge_empty _ a⟩

/-- `Mean`: for every `a`, every accessor of `new.merge(a)` returns what it returns on `a`. -/
theorem mean_new_merge_stats (a : Mean α) : (Mean.new.merge a).SameStats a := by
  rcases Mean.new_merge_cases a with h | ⟨h0, h⟩ <;> rw [h]
  · exact Mean.sameStats_refl a
  · exact Mean.sameStats_of_empty _ a rfl h0

/-- `Mean`: `len` of a merge is the sum of the lengths, and `is_empty` is `len == 0`. -/
theorem mean_len (a b : Mean α) : (a.merge b).len = a.len + b.len ∧ (a.isEmpty = true ↔ a.len = 0) :=
  ⟨Mean.len_merge a b, by simp [Mean.isEmpty, Mean.len]⟩

/-- `Variance` (= `MeanWithError`): structure identities of merge with an empty estimator. -/
theorem variance_merge_identity (a : Variance α) :
    a.merge Variance.new = a ∧ (a.avg.n ≠ 0 → Variance.new.merge a = a)
    ∧ (a.avg.n = 0 → Variance.new.merge a = Variance.new) :=
  ⟨Variance.merge_empty a _ rfl, Variance.empty_merge _ a rfl, Variance.merge_empty _ a⟩

/-- `Variance`: every accessor of `new.merge(a)` equals that accessor of `a`, for every `a`. -/
theorem variance_new_merge_stats (a : Variance α) : (Variance.new.merge a).SameStats a := by
  rcases Variance.new_merge_cases a with h | ⟨h0, h⟩ <;> rw [h]
  · exact Variance.sameStats_refl a
  · exact Variance.sameStats_of_empty _ a rfl h0

/-- `Variance`: lengths add; `is_empty ↔ len = 0`. -/
theorem variance_len (a b : Variance α) : (a.merge b).len = a.len + b.len ∧ (a.isEmpty = true ↔ a.len = 0) :=
  ⟨Variance.len_merge a b, by simp [Variance.isEmpty, Mean.isEmpty, Variance.len]⟩

/-- `Skewness`: structure identities of merge with an empty estimator. -/
theorem skewness_merge_identity (a : Skewness α) :
    a.merge Skewness.new = a ∧ (a.avg.avg.n ≠ 0 → Skewness.new.merge a = a)
    ∧ (a.avg.avg.n = 0 → Skewness.new.merge a = Skewness.new) :=
  ⟨Skewness.merge_empty a _ rfl, Skewness.empty_merge _ a rfl, Skewness.merge_empty _ a⟩

/-- `Skewness`: every accessor of `new.merge(a)` equals that accessor of `a`, for every `a`. -/
theorem skewness_new_merge_stats (a : Skewness α) : (Skewness.new.merge a).SameStats a := by
  rcases Skewness.new_merge_cases a with h | ⟨h0, h⟩ <;> rw [h]
  · exact Skewness.sameStats_refl a
  · exact Skewness.sameStats_of_empty _ a rfl h0

/-- `Skewness`: lengths add; `is_empty ↔ len = 0`. -/
theorem skewness_len (a b : Skewness α) : (a.merge b).len = a.len + b.len ∧ (a.isEmpty = true ↔ a.len = 0) :=
  ⟨Skewness.len_merge a b, by simp [Skewness.isEmpty, Variance.isEmpty, Mean.isEmpty, Skewness.len]⟩

/-- `Kurtosis`: structure identities of merge with an empty estimator. -/
theorem kurtosis_merge_identity (a : Kurtosis α) :
    a.merge Kurtosis.new = a ∧ (a.avg.avg.avg.n ≠ 0 → Kurtosis.new.merge a = a)
    ∧ (a.avg.avg.avg.n = 0 → Kurtosis.new.merge a = Kurtosis.new) :=
  ⟨Kurtosis.merge_empty a _ rfl, Kurtosis.empty_merge _ a rfl, Kurtosis.merge_empty _ a⟩

/-- `Kurtosis`: every accessor of `new.merge(a)` equals that accessor of `a`, for every `a`. -/
theorem kurtosis_new_merge_stats (a : Kurtosis α) : (Kurtosis.new.merge a).SameStats a := by
  rcases Kurtosis.new_merge_cases a with h | ⟨h0, h⟩ <;> rw [h]
  · exact Kurtosis.sameStats_refl a
  · exact Kurtosis.sameStats_of_empty _ a rfl h0

/-- `Kurtosis`: lengths add; `is_empty ↔ len = 0`. -/
theorem kurtosis_len (a b : Kurtosis α) : (a.merge b).len = a.len + b.len ∧ (a.isEmpty = true ↔ a.len = 0) :=
  ⟨Kurtosis.len_merge a b,
   by simp [Kurtosis.isEmpty, Skewness.isEmpty, Variance.isEmpty, Mean.isEmpty, Kurtosis.len]⟩

/-! ## `define_moments!(_, N)` for every `N` -/
section moments
variable [Neg α]

/-- `Moments N`: structure identities of merge with an empty estimator (the empty estimator may even have been
built for another order `M`: only its count is looked at). -/
theorem moments_merge_identity (N M : Nat) (a : Moments α) :
    Moments.merge N a (Moments.new M) = a ∧ (a.n ≠ 0 → Moments.merge N (Moments.new M) a = a)
    ∧ (a.n = 0 → Moments.merge N (Moments.new M) a = Moments.new M) :=
  ⟨Moments.merge_empty N a _ rfl, Moments.empty_merge N _ a rfl, Moments.merge_empty N _ a⟩

/-- `Moments N`: every accessor of `new.merge(a)` - `central_moment(p)`, `standardized_moment(p)` for every `p`
with their panics, sample statistics - equals that accessor of `a`, for every `a`. -/
theorem moments_new_merge_stats (N : Nat) (a : Moments α) :
    Moments.SameStats N (Moments.merge N (Moments.new N) a) a := by
  rcases Moments.new_merge_cases N N a with h | ⟨h0, h⟩ <;> rw [h]
  · exact Moments.sameStats_refl N a
  · exact Moments.sameStats_of_empty N _ a rfl h0

/-- `Moments N`: lengths add; `is_empty ↔ len = 0`. -/
theorem moments_len (N : Nat) (a b : Moments α) :
    (Moments.merge N a b).len = a.len + b.len ∧ (a.isEmpty = true ↔ a.len = 0) :=
  ⟨Moments.len_merge N a b, by simp [Moments.isEmpty, Moments.len]⟩

end moments

/-! ## Covariance -/

/-- `Covariance`: structure identities of merge with an empty estimator. -/
theorem covariance_merge_identity (a : Covariance α) :
    a.merge Covariance.new = a ∧ (a.n ≠ 0 → Covariance.new.merge a = a)
    ∧ (a.n = 0 → Covariance.new.merge a = Covariance.new) :=
  ⟨Covariance.merge_empty a _ rfl, Covariance.empty_merge _ a rfl, Covariance.merge_empty _ a⟩

/-- `Covariance`: all eleven accessors of `new.merge(a)` equal those of `a`, for every `a`. -/
theorem covariance_new_merge_stats (a : Covariance α) : (Covariance.new.merge a).SameStats a := by
  rcases Covariance.new_merge_cases a with h | ⟨h0, h⟩ <;> rw [h]
  · exact Covariance.sameStats_refl a
  · exact Covariance.sameStats_of_empty _ a rfl h0

/-- `Covariance`: lengths add; `is_empty ↔ len = 0`. -/
theorem covariance_len (a b : Covariance α) : (a.merge b).len = a.len + b.len ∧ (a.isEmpty = true ↔ a.len = 0) :=
  ⟨Covariance.len_merge a b, by simp [Covariance.isEmpty, Covariance.len]⟩

/-! ## WeightedMean (emptiness is `weight_sum == 0`, a floating-point comparison) -/

/-- `WeightedMean`: given only that `0 == 0` on the carrier, merging a fresh estimator into any `a` returns
`a` itself; merging a non-empty `a` (`weight_sum != 0`) into a fresh one returns `a` itself; merging an empty
`a` (`weight_sum == 0`, which includes states with weight sum -0.0 or with cancelled weights) into a fresh
one returns the fresh estimator. -/
theorem weightedMean_merge_identity (h00 : FloatOps.eqb ((0:Nat):α) ((0:Nat):α) = true) (a : WeightedMean α) :
    a.merge WeightedMean.new = a ∧ (a.isEmpty = false → WeightedMean.new.merge a = a)
    ∧ (a.isEmpty = true → WeightedMean.new.merge a = WeightedMean.new) :=
  ⟨WeightedMean.merge_empty a _ (WeightedMean.new_isEmpty h00),
   WeightedMean.empty_merge _ a (WeightedMean.new_isEmpty h00), WeightedMean.merge_empty _ a⟩

/-- `WeightedMean`, accessor level, for every `a`: `mean` and `is_empty` of `new.merge(a)` equal those of `a`;
`sum_weights` equals `a`'s when `a` is not empty, and otherwise is the `0` of `new`, which compares equal
(`==`) to `a`'s weight sum (bitwise equal unless `a`'s weight sum is `-0.0`, which no history of `add`/`merge`
from `new()` produces under round-to-nearest). -/
theorem weightedMean_new_merge_stats (h00 : FloatOps.eqb ((0:Nat):α) ((0:Nat):α) = true) (a : WeightedMean α) :
    (WeightedMean.new.merge a).mean = a.mean ∧ (WeightedMean.new.merge a).isEmpty = a.isEmpty
    ∧ (a.isEmpty = false → (WeightedMean.new.merge a).sumWeights = a.sumWeights)
    ∧ (a.isEmpty = true → (WeightedMean.new.merge a).sumWeights = ((0:Nat):α)
        ∧ FloatOps.eqb a.sumWeights (WeightedMean.new.merge a).sumWeights = true) := by
  rcases WeightedMean.new_merge_cases h00 a with h | ⟨h0, h⟩ <;> rw [h]
  · refine ⟨rfl, rfl, fun _ => rfl, fun he => ⟨?_, ?_⟩⟩
    · have := (weightedMean_merge_identity h00 a).2.2 he
      rw [h] at this; rw [this]; rfl
    · have := (weightedMean_merge_identity h00 a).2.2 he
      rw [h] at this; rw [this]; exact h00
  · refine ⟨?_, ?_, fun hf => ?_, fun _ => ⟨rfl, h0⟩⟩
    · rw [WeightedMean.mean_empty _ (WeightedMean.new_isEmpty h00), WeightedMean.mean_empty a h0]
    · rw [WeightedMean.new_isEmpty h00, h0]
    · rw [h0] at hf; exact absurd hf (by decide)

/-! ## WeightedMeanWithError (no early return of its own) -/

/-- `WeightedMeanWithError`: `a.merge(new) = a` for every `a` for which `weight_sum_sq + 0 = weight_sum_sq`
(true in IEEE arithmetic for every value except `-0.0`; `weight_sum_sq` is a sum of squares starting from `+0`
and is never `-0.0`), given `0 == 0`. -/
theorem wmwe_merge_new (h00 : FloatOps.eqb ((0:Nat):α) ((0:Nat):α) = true) (a : WeightedMeanWithError α)
    (hz : a.weight_sum_sq + ((0:Nat):α) = a.weight_sum_sq) : a.merge WeightedMeanWithError.new = a := by
  unfold WeightedMeanWithError.merge
  show (⟨a.weight_sum_sq + ((0:Nat):α), a.weighted_avg.merge WeightedMean.new,
      a.unweighted_avg.merge Variance.new⟩ : WeightedMeanWithError α) = a
  rw [hz, WeightedMean.merge_empty _ _ (WeightedMean.new_isEmpty h00), Variance.merge_empty _ _ rfl]

/-- `WeightedMeanWithError`: `new.merge(a) = a` as structures when `0 + weight_sum_sq = weight_sum_sq`, `a` has
observations and its weight sum is not `== 0`. -/
theorem wmwe_new_merge (h00 : FloatOps.eqb ((0:Nat):α) ((0:Nat):α) = true) (a : WeightedMeanWithError α)
    (hz : ((0:Nat):α) + a.weight_sum_sq = a.weight_sum_sq) (hn : a.unweighted_avg.avg.n ≠ 0)
    (hw : a.weighted_avg.isEmpty = false) : WeightedMeanWithError.new.merge a = a := by
  unfold WeightedMeanWithError.merge
  show (⟨((0:Nat):α) + a.weight_sum_sq, WeightedMean.new.merge a.weighted_avg,
      Variance.new.merge a.unweighted_avg⟩ : WeightedMeanWithError α) = a
  rw [hz, WeightedMean.empty_merge _ _ (WeightedMean.new_isEmpty h00) hw, Variance.empty_merge _ _ rfl hn]

/-- `WeightedMeanWithError`, accessor level, for EVERY `a` with `0 + weight_sum_sq = weight_sum_sq`: `len`,
`is_empty`, `sum_weights_sq`, `weighted_mean`, `unweighted_mean`, `population_variance`, `sample_variance`,
`variance_of_weighted_mean` and `error` of `new.merge(a)` equal those of `a`. `sum_weights` and `effective_len`
are equal as well provided the weight sum of `a`, when it compares equal to 0, is the `0` of `new`
(i.e. is not `-0.0`). -/
theorem wmwe_new_merge_stats (h00 : FloatOps.eqb ((0:Nat):α) ((0:Nat):α) = true) (a : WeightedMeanWithError α)
    (hz : ((0:Nat):α) + a.weight_sum_sq = a.weight_sum_sq) :
    let m := WeightedMeanWithError.new.merge a
    m.len = a.len ∧ m.isEmpty = a.isEmpty ∧ m.sumWeightsSq = a.sumWeightsSq ∧ m.weightedMean = a.weightedMean
    ∧ m.unweightedMean = a.unweightedMean ∧ m.populationVariance = a.populationVariance
    ∧ m.sampleVariance = a.sampleVariance ∧ m.varianceOfWeightedMean = a.varianceOfWeightedMean
    ∧ m.error = a.error
    ∧ ((a.weighted_avg.isEmpty = true → a.weighted_avg.weight_sum = ((0:Nat):α)) →
        m.sumWeights = a.sumWeights ∧ m.effectiveLen = a.effectiveLen) := by
  intro m
  have hm : m = ⟨a.weight_sum_sq, WeightedMean.new.merge a.weighted_avg, Variance.new.merge a.unweighted_avg⟩ := by
    show (⟨((0:Nat):α) + a.weight_sum_sq, WeightedMean.new.merge a.weighted_avg,
      Variance.new.merge a.unweighted_avg⟩ : WeightedMeanWithError α) = _
    rw [hz]
  obtain ⟨v1, v2, v3, v4, v5, v6, v7, v8⟩ := variance_new_merge_stats a.unweighted_avg
  obtain ⟨w1, w2, w3, w4⟩ := weightedMean_new_merge_stats h00 a.weighted_avg
  have hvar : m.varianceOfWeightedMean = a.varianceOfWeightedMean := by
    rw [hm]
    cases he : a.weighted_avg.isEmpty
    · have := (weightedMean_merge_identity h00 a.weighted_avg).2.1 he
      unfold WeightedMeanWithError.varianceOfWeightedMean WeightedMeanWithError.sampleVariance
      simp only [this, v4]
    · rw [WeightedMeanWithError.varianceOfWeightedMean_empty a he,
        WeightedMeanWithError.varianceOfWeightedMean_empty _ (by
          show (WeightedMean.new.merge a.weighted_avg).isEmpty = true
          rw [w2]; exact he)]
  refine ⟨?_, ?_, ?_, ?_, ?_, ?_, ?_, hvar, ?_, fun hws => ?_⟩
  · rw [hm]; exact v2
  · rw [hm]; exact v3
  · rw [hm]; rfl
  · rw [hm]; exact w1
  · rw [hm]; exact v1
  · rw [hm]; exact v5
  · rw [hm]; exact v4
  · unfold WeightedMeanWithError.error; rw [hvar]
  · have hsw : m.sumWeights = a.sumWeights := by
      rw [hm]
      cases he : a.weighted_avg.isEmpty
      · exact w3 he
      · exact ((w4 he).1).trans (hws he).symm
    refine ⟨hsw, ?_⟩
    have hsw' : m.weighted_avg.sumWeights = a.weighted_avg.sumWeights := hsw
    have hie : m.isEmpty = a.isEmpty := by rw [hm]; exact v3
    have hss : m.weight_sum_sq = a.weight_sum_sq := by rw [hm]
    unfold WeightedMeanWithError.effectiveLen
    rw [hie, hsw', hss]

/-- `WeightedMeanWithError`: lengths add for all `a`, `b`; `is_empty ↔ len = 0`. -/
theorem wmwe_len (a b : WeightedMeanWithError α) :
    (a.merge b).len = a.len + b.len ∧ (a.isEmpty = true ↔ a.len = 0) :=
  ⟨Variance.len_merge a.unweighted_avg b.unweighted_avg,
   by simp [WeightedMeanWithError.isEmpty, WeightedMeanWithError.len, Variance.isEmpty, Mean.isEmpty, Variance.len]⟩

/-! ## Min, Max -/

/-- `Min`: merging a fresh estimator (state `+inf`) into `a` leaves `a` unchanged as soon as
`min(a, +inf) = a` for a's value; merging `a` into a fresh one gives `a` as soon as `min(+inf, a) = a`.
(`f64::min` satisfies both for every `a` that is not NaN, and a `Min` built from `new()` by adds and merges is
never NaN; `f64::min(NaN, inf) = inf`.) -/
theorem min_merge_identity (a : Avg.Min α) :
    (FloatOps.fmin a.x FloatOps.posInf = a.x → a.merge Min.new = a)
    ∧ (FloatOps.fmin FloatOps.posInf a.x = a.x → Min.new.merge a = a) := by
  constructor <;> intro h
  · show (⟨FloatOps.fmin a.x FloatOps.posInf⟩ : Avg.Min α) = a
    rw [h]
  · show (⟨FloatOps.fmin FloatOps.posInf a.x⟩ : Avg.Min α) = a
    rw [h]

/-- `Max`: the same with `-inf` and `f64::max`. -/
theorem max_merge_identity (a : Avg.Max α) :
    (FloatOps.fmax a.x FloatOps.negInf = a.x → a.merge Max.new = a)
    ∧ (FloatOps.fmax FloatOps.negInf a.x = a.x → Max.new.merge a = a) := by
  constructor <;> intro h
  · show (⟨FloatOps.fmax a.x FloatOps.negInf⟩ : Avg.Max α) = a
    rw [h]
  · show (⟨FloatOps.fmax FloatOps.negInf a.x⟩ : Avg.Max α) = a
    rw [h]

/-! ## Histograms (counts are `Nat`: `u64` overflow is outside the model) -/

/-- Merging a zero-count histogram `z` (e.g. `h.reset()`, or a fresh histogram with the same edges) into `h`:
when the edges compare equal (otherwise `merge` panics) and `z` has `LEN` bins, the result is `h` itself -
edges and every count unchanged. -/
theorem hist_merge_zero (h z : Hist α) (hs : h.sameRanges z = true)
    (hz : z.bin = List.replicate h.bin.length 0) : h.merge z = .val h := by
  unfold Hist.merge
  rw [if_pos hs, hz, zipWith_add_replicate_zero]

/-- Merging `h` into a zero-count histogram `z` with `==` edges and `LEN` bins: the counts are those of `h`,
the edges stay those of `z` (so the result is `h` itself when the edges are identical, not merely `==`:
`-0.0` and `0.0` edges compare equal). -/
theorem hist_zero_merge (h z : Hist α) (hs : z.sameRanges h = true)
    (hz : z.bin = List.replicate h.bin.length 0) :
    z.merge h = .val ⟨z.range, h.bin⟩ ∧ (z.range = h.range → z.merge h = .val h) := by
  have : z.merge h = .val ⟨z.range, h.bin⟩ := by
    unfold Hist.merge
    rw [if_pos hs, hz, zipWith_replicate_zero_add]
  exact ⟨this, fun hr => by rw [this, hr]⟩

/-- `reset()` gives a zero-count histogram with the same edges and the same number of bins, total count 0;
so `h.merge(h.reset()) = h` whenever every edge of `h` is `==` to itself (no NaN edge - the constructors
reject NaN). -/
theorem hist_merge_reset (h : Hist α) (hs : h.sameRanges h = true) :
    h.merge h.reset = .val h ∧ h.reset.merge h = .val h ∧ h.reset.total = 0 :=
  ⟨hist_merge_zero h h.reset hs rfl,
   (hist_zero_merge h h.reset hs (by simp [Hist.reset])).2 rfl,
   foldl_add_replicate_zero _⟩

/-- Total bin count of a merge = sum of the totals, for any two histograms with `==` edges and the same
number of bins (always the case for two values of one `define_histogram!` type). -/
theorem hist_total_merge (a b : Hist α) (hs : a.sameRanges b = true) (hl : a.bin.length = b.bin.length) :
    ∃ c, a.merge b = .val c ∧ c.total = a.total + b.total ∧ c.range = a.range := by
  refine ⟨⟨a.range, List.zipWith (· + ·) a.bin b.bin⟩, ?_, foldl_add_zipWith _ _ hl, rfl⟩
  unfold Hist.merge; rw [if_pos hs]

/-! ## types that report a length but do not merge -/

/-- `Quantile`: `is_empty ↔ len = 0`. -/
theorem quantile_isEmpty_iff [IntCast α] (s : Quantile α) : s.isEmpty = true ↔ s.len = 0 := by
  simp [Quantile.isEmpty]

/-! ## non-vacuity (carrier `Nat`: truncating arithmetic, all classes present) -/

private instance natFloatOps : FloatOps Nat where
  nan := 0
  posInf := 1000
  negInf := 0
  sqrt := Nat.sqrt
  pow15 := fun x => x * Nat.sqrt x
  lt := fun a b => decide (a < b)
  eqb := fun a b => a == b
  isNaN := fun _ => false
  fmin := min
  fmax := max
  ceilInt := fun x => x
  ordLt := fun a b => decide (a < b)

/-- the hypotheses of the `WeightedMeanWithError`, `Min` and histogram statements hold for concrete non-trivial
states, and the statements compute -/
example :
    let a : WeightedMeanWithError Nat := (WeightedMeanWithError.new.add 6 2).add 10 2
    a.merge WeightedMeanWithError.new = a ∧ WeightedMeanWithError.new.merge a = a
    ∧ a.weight_sum_sq = 8 ∧ a.len = 2 := by decide

example : let a : Avg.Min Nat := Min.new.add 7
    FloatOps.fmin a.x FloatOps.posInf = a.x ∧ a.merge Min.new = a ∧ a.min = 7 := by decide

example : let h : Hist Nat := ⟨[0, 10, 20], [3, 4]⟩
    h.sameRanges h = true ∧ h.merge h.reset = .val h ∧ h.merge h = .val ⟨[0, 10, 20], [6, 8]⟩
    ∧ h.total = 7 := by decide

end Props.C11

#print axioms Props.C11.mean_merge_identity
#print axioms Props.C11.mean_new_merge_stats
#print axioms Props.C11.mean_len
#print axioms Props.C11.variance_merge_identity
#print axioms Props.C11.variance_new_merge_stats
#print axioms Props.C11.variance_len
#print axioms Props.C11.skewness_merge_identity
#print axioms Props.C11.skewness_new_merge_stats
#print axioms Props.C11.skewness_len
#print axioms Props.C11.kurtosis_merge_identity
#print axioms Props.C11.kurtosis_new_merge_stats
#print axioms Props.C11.kurtosis_len
#print axioms Props.C11.moments_merge_identity
#print axioms Props.C11.moments_new_merge_stats
#print axioms Props.C11.moments_len
#print axioms Props.C11.covariance_merge_identity
#print axioms Props.C11.covariance_new_merge_stats
#print axioms Props.C11.covariance_len
#print axioms Props.C11.weightedMean_merge_identity
#print axioms Props.C11.weightedMean_new_merge_stats
#print axioms Props.C11.wmwe_merge_new
#print axioms Props.C11.wmwe_new_merge
#print axioms Props.C11.wmwe_new_merge_stats
#print axioms Props.C11.wmwe_len
#print axioms Props.C11.min_merge_identity
#print axioms Props.C11.max_merge_identity
#print axioms Props.C11.hist_merge_zero
#print axioms Props.C11.hist_zero_merge
#print axioms Props.C11.hist_merge_reset
#print axioms Props.C11.hist_total_merge
#print axioms Props.C11.quantile_isEmpty_iff
