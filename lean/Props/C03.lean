import AvgProofs.StdMoments

/-!
# C03 - Skewness and Kurtosis equal the exact standardized moments

Carrier E (field of characteristic 0) for the states; an ordered field whose `FloatOps.eqb` is exact
equality for `kurtosis()` (the order is needed: it is what makes the `sum_4 == 0` shortcut harmless);
ℝ (`realFloatOps`: `sqrt = Real.sqrt`, `eqb a b = decide (a = b)`) for `skewness()`.
`MSpec.mean xs = Σx/n`, `MSpec.sumPow xs c p = Σ (x-c)^p`, so the central moment of order p is
`m_p = sumPow xs (mean xs) p / n`.

What holds exactly, given the code's shortcuts (`if sum_3 == 0 {0}`, `if sum_4 == 0 {0}`):
* non-zero spread (`Σ(x-μ)² ≠ 0`, which forces n ≥ 2): `skewness() = m₃/m₂^{3/2}` in both branches of
  its shortcut (when `Σ(x-μ)³ = 0` the formula is 0 too), and `kurtosis() = m₄/m₂² - 3`; its shortcut
  cannot fire because over an ordered field `Σ(x-μ)⁴ = 0 ↔ Σ(x-μ)² = 0`;
* zero spread, n ≥ 1 (all observations equal): both return 0 - not NaN, and not the `0/0` of the
  formulas (`zero_spread`).
The forward-error envelope in floating point is measured by the harness, not proved (DESIGN.md
section 6, C03 "Partial").
-/
open Avg MSpec

namespace Props.C03

/-! ## states (E) -/
section E
variable {K : Type} [Field K] [CharZero K]

/-- Every stream, any length: the state of `Skewness` after adding the observations one at a time is
exactly (count, mean, Σ(x-mean)², Σ(x-mean)³). -/
theorem skewness_fold (xs : List K) :
    xs.foldl Skewness.add Skewness.new
      = ⟨⟨⟨mean xs, xs.length⟩, sumPow xs (mean xs) 2⟩, sumPow xs (mean xs) 3⟩ :=
  MSpec.skewness_fold xs

/-- Every stream, any length: the state of `Kurtosis` is exactly
(count, mean, Σ(x-mean)², Σ(x-mean)³, Σ(x-mean)⁴). -/
theorem kurtosis_fold (xs : List K) :
    xs.foldl Kurtosis.add Kurtosis.new
      = ⟨⟨⟨⟨mean xs, xs.length⟩, sumPow xs (mean xs) 2⟩, sumPow xs (mean xs) 3⟩,
          sumPow xs (mean xs) 4⟩ :=
  MSpec.kurtosis_fold xs

/-- One more observation takes the canonical state of `xs` to the canonical state of `xs ++ [x]`
(Terriberry's update with the OLD lower sums, in the code's order). -/
theorem kurtosis_add_canon (xs : List K) (x : K) : (canonK xs).add x = canonK (xs ++ [x]) :=
  kurtosis_add xs x

end E

/-! ## re-exported accessors -/

/-- Any carrier (floating point included), bit for bit: `len`, `mean`, `sample_variance`,
`population_variance`, `error_mean` of `Skewness` and of `Kurtosis`, and `Kurtosis::skewness`, are
those of `Variance` (resp. `Skewness`) fed the same data. -/
theorem reexports_bitwise {α : Type} [Add α] [Sub α] [Mul α] [Div α] [NatCast α] [FloatOps α]
    (xs : List α) :
    let v := xs.foldl Variance.add Variance.new
    let s := xs.foldl Skewness.add Skewness.new
    let k := xs.foldl Kurtosis.add Kurtosis.new
    (s.len = v.len ∧ s.mean = v.mean ∧ s.sampleVariance = v.sampleVariance
      ∧ s.populationVariance = v.populationVariance ∧ s.errorMean = v.error)
    ∧ (k.len = v.len ∧ k.mean = v.mean ∧ k.sampleVariance = v.sampleVariance
      ∧ k.populationVariance = v.populationVariance ∧ k.errorMean = v.error
      ∧ k.skewness = s.skewness) := by
  intro v s k
  have hs : s.avg = v := Skewness.fold_avg xs Skewness.new
  have hk : k.avg = s := Kurtosis.fold_avg xs Kurtosis.new
  have hkv : k.avg.avg = v := by rw [hk, hs]
  refine ⟨⟨?_, ?_, ?_, ?_, ?_⟩, ⟨?_, ?_, ?_, ?_, ?_, ?_⟩⟩
  · show s.avg.len = v.len; rw [hs]
  · show s.avg.mean = v.mean; rw [hs]
  · show s.avg.sampleVariance = _; rw [hs]
  · show s.avg.populationVariance = _; rw [hs]
  · show s.avg.error = _; rw [hs]
  · show k.avg.avg.len = v.len; rw [hkv]
  · show k.avg.avg.mean = v.mean; rw [hkv]
  · show k.avg.avg.sampleVariance = _; rw [hkv]
  · show k.avg.avg.populationVariance = _; rw [hkv]
  · show k.avg.avg.error = _; rw [hkv]
  · show k.avg.skewness = _; rw [hk]

/-- The same through any merge tree (any carrier, bit for bit). -/
theorem reexports_bitwise_mtree {α : Type} [Add α] [Sub α] [Mul α] [Div α] [NatCast α] [FloatOps α]
    (t : MTree α) :
    let v := t.eval Variance.new Variance.add Variance.merge
    let s := t.eval Skewness.new Skewness.add Skewness.merge
    let k := t.eval Kurtosis.new Kurtosis.add Kurtosis.merge
    (s.len = v.len ∧ s.mean = v.mean ∧ s.sampleVariance = v.sampleVariance
      ∧ s.populationVariance = v.populationVariance ∧ s.errorMean = v.error)
    ∧ (k.len = v.len ∧ k.mean = v.mean ∧ k.sampleVariance = v.sampleVariance
      ∧ k.populationVariance = v.populationVariance ∧ k.errorMean = v.error
      ∧ k.skewness = s.skewness) := by
  intro v s k
  have hs : s.avg = v := Skewness.mtree_avg t
  have hk : k.avg = s := Kurtosis.mtree_avg t
  have hkv : k.avg.avg = v := by rw [hk, hs]
  refine ⟨⟨?_, ?_, ?_, ?_, ?_⟩, ⟨?_, ?_, ?_, ?_, ?_, ?_⟩⟩
  · show s.avg.len = v.len; rw [hs]
  · show s.avg.mean = v.mean; rw [hs]
  · show s.avg.sampleVariance = _; rw [hs]
  · show s.avg.populationVariance = _; rw [hs]
  · show s.avg.error = _; rw [hs]
  · show k.avg.avg.len = v.len; rw [hkv]
  · show k.avg.avg.mean = v.mean; rw [hkv]
  · show k.avg.avg.sampleVariance = _; rw [hkv]
  · show k.avg.avg.populationVariance = _; rw [hkv]
  · show k.avg.avg.error = _; rw [hkv]
  · show k.avg.skewness = _; rw [hk]

section E'
variable {K : Type} [Field K] [CharZero K] [FloatOps K]

/-- Exact values of the re-exported accessors of `Kurtosis` (hence, by `reexports_bitwise`, of
`Skewness`): `len = n`; for n ≥ 1 `mean = Σx/n` and `population_variance = Σ(x-μ)²/n`; for n ≥ 2
`sample_variance = Σ(x-μ)²/(n-1)`. -/
theorem kurtosis_reexports_exact (xs : List K) :
    let k := xs.foldl Kurtosis.add Kurtosis.new
    k.len = xs.length
    ∧ (xs ≠ [] → k.mean = xs.sum / xs.length
        ∧ k.populationVariance = sumPow xs (mean xs) 2 / xs.length)
    ∧ (2 ≤ xs.length → k.sampleVariance = sumPow xs (mean xs) 2 / ((xs.length - 1 : Nat) : K)) := by
  intro k
  have hk : k = canonK xs := MSpec.kurtosis_fold xs
  rw [hk]
  refine ⟨rfl, fun h => ?_, fun h => ?_⟩
  · have : 0 < xs.length := List.length_pos_of_ne_nil h
    simp [Kurtosis.mean, Skewness.mean, Variance.mean, Mean.mean, Kurtosis.populationVariance,
      Skewness.populationVariance, Variance.populationVariance, canonK, this, h, mean]
  · have : ¬ xs.length < 2 := by omega
    simp [Kurtosis.sampleVariance, Skewness.sampleVariance, Variance.sampleVariance, canonK, this]

/-- The same for `Skewness`. -/
theorem skewness_reexports_exact (xs : List K) :
    let s := xs.foldl Skewness.add Skewness.new
    s.len = xs.length
    ∧ (xs ≠ [] → s.mean = xs.sum / xs.length
        ∧ s.populationVariance = sumPow xs (mean xs) 2 / xs.length)
    ∧ (2 ≤ xs.length → s.sampleVariance = sumPow xs (mean xs) 2 / ((xs.length - 1 : Nat) : K)) := by
  intro s
  have hs : s = canonS xs := MSpec.skewness_fold xs
  rw [hs]
  refine ⟨rfl, fun h => ?_, fun h => ?_⟩
  · have : 0 < xs.length := List.length_pos_of_ne_nil h
    simp [Skewness.mean, Variance.mean, Mean.mean,
      Skewness.populationVariance, Variance.populationVariance, canonS, canonK, this, h, mean]
  · have : ¬ xs.length < 2 := by omega
    simp [Skewness.sampleVariance, Variance.sampleVariance, canonS, canonK, this]

end E'

/-- `error_mean()` of `Skewness` and `Kurtosis` over ℝ, n ≥ 2: `sqrt(Σ(x-μ)²/(n-1)/n)`. -/
theorem error_mean_eq (xs : List ℝ) (h : 2 ≤ xs.length) :
    (xs.foldl Skewness.add Skewness.new).errorMean
      = Real.sqrt (sumPow xs (mean xs) 2 / ((xs.length - 1 : Nat) : ℝ) / xs.length)
    ∧ (xs.foldl Kurtosis.add Kurtosis.new).errorMean
      = Real.sqrt (sumPow xs (mean xs) 2 / ((xs.length - 1 : Nat) : ℝ) / xs.length) := by
  have h0 : ¬ xs.length = 0 := by omega
  have h1 : ¬ xs.length = 1 := by omega
  have h2 : ¬ xs.length < 2 := by omega
  rw [MSpec.skewness_fold, MSpec.kurtosis_fold]
  constructor <;>
    simp [Kurtosis.errorMean, Skewness.errorMean, Variance.error, Variance.varianceOfMean,
      Variance.sampleVariance, canonS, canonK, h0, h1, h2, FloatOps.sqrt]

/-! ## kurtosis -/
section Kurt
variable {K : Type} [Field K] [LinearOrder K] [IsStrictOrderedRing K] [FloatOps K]

/-- Every stream with non-zero spread, over any ordered field with exact `==`:
`kurtosis() = m₄/m₂² - 3`, the exact excess kurtosis. (The `sum_4 == 0` shortcut does not fire:
`Σ(x-μ)⁴ = 0` would force `Σ(x-μ)² = 0`.) -/
theorem kurtosis_eq (heqb : ∀ a b : K, FloatOps.eqb a b = decide (a = b))
    (xs : List K) (h : sumPow xs (mean xs) 2 ≠ 0) :
    (xs.foldl Kurtosis.add Kurtosis.new).kurtosis
      = (sumPow xs (mean xs) 4 / xs.length) / (sumPow xs (mean xs) 2 / xs.length)^2 - 3 := by
  rw [MSpec.kurtosis_fold]; exact canonK_kurtosis heqb xs h

omit [FloatOps K] in
/-- The hypothesis "non-zero spread" means: not all observations are equal (so n ≥ 2); and it is
equivalent to `Σ(x-μ)² > 0` and to `Σ(x-μ)⁴ ≠ 0`. -/
theorem spread_ne_zero_iff (xs : List K) :
    (sumPow xs (mean xs) 2 ≠ 0 ↔ ¬ ∀ x ∈ xs, x = mean xs)
    ∧ (sumPow xs (mean xs) 2 ≠ 0 ↔ 0 < sumPow xs (mean xs) 2)
    ∧ (sumPow xs (mean xs) 2 ≠ 0 ↔ sumPow xs (mean xs) 4 ≠ 0)
    ∧ (sumPow xs (mean xs) 2 ≠ 0 → 2 ≤ xs.length) := by
  refine ⟨not_congr (sumPow_two_eq_zero_iff xs _), ?_, not_congr (sumPow_four_eq_zero_iff_two xs _).symm, ?_⟩
  · exact ⟨fun h => lt_of_le_of_ne (sumPow_two_nonneg xs _) (Ne.symm h), fun h => ne_of_gt h⟩
  · intro h
    match xs, h with
    | [], h => simp at h
    | [x], h => simp [mean] at h
    | _ :: _ :: _, _ => simp

/-- Zero spread, n ≥ 1 (all observations equal; a single observation): `skewness()` and
`kurtosis()` both return 0 through their shortcuts. -/
theorem zero_spread (heqb : ∀ a b : K, FloatOps.eqb a b = decide (a = b))
    (xs : List K) (hne : xs ≠ []) (h : sumPow xs (mean xs) 2 = 0) :
    (xs.foldl Skewness.add Skewness.new).skewness = 0
    ∧ (xs.foldl Kurtosis.add Kurtosis.new).skewness = 0
    ∧ (xs.foldl Kurtosis.add Kurtosis.new).kurtosis = 0 := by
  rw [MSpec.skewness_fold, MSpec.kurtosis_fold]
  exact ⟨canonS_skewness_degenerate heqb xs hne h, canonS_skewness_degenerate heqb xs hne h,
    canonK_kurtosis_degenerate heqb xs hne h⟩

/-- Through any merge tree whose data have non-zero spread: `kurtosis() = m₄/m₂² - 3` of the whole
data. -/
theorem mtree_kurtosis_eq (heqb : ∀ a b : K, FloatOps.eqb a b = decide (a = b))
    (t : MTree K) (h : sumPow t.flatten (mean t.flatten) 2 ≠ 0) :
    (t.eval Kurtosis.new Kurtosis.add Kurtosis.merge).kurtosis
      = (sumPow t.flatten (mean t.flatten) 4 / t.flatten.length)
        / (sumPow t.flatten (mean t.flatten) 2 / t.flatten.length)^2 - 3 := by
  have := kurtosis_mtree t
  unfold Kurtosis.evalTree at this
  rw [this]; exact canonK_kurtosis heqb _ h

end Kurt

/-- `kurtosis()` over ℝ. -/
theorem kurtosis_eq_real (xs : List ℝ) (h : sumPow xs (mean xs) 2 ≠ 0) :
    (xs.foldl Kurtosis.add Kurtosis.new).kurtosis
      = (sumPow xs (mean xs) 4 / xs.length) / (sumPow xs (mean xs) 2 / xs.length)^2 - 3 :=
  kurtosis_eq (fun _ _ => rfl) xs h

/-! ## skewness (ℝ) -/

/-- Every real stream with non-zero spread: `skewness() = m₃ / (m₂·√m₂)`, the exact population
skewness - in both branches of the `sum_3 == 0` shortcut. Same value from `Kurtosis::skewness`. -/
theorem skewness_eq (xs : List ℝ) (h : sumPow xs (mean xs) 2 ≠ 0) :
    (xs.foldl Skewness.add Skewness.new).skewness
      = (sumPow xs (mean xs) 3 / xs.length)
        / ((sumPow xs (mean xs) 2 / xs.length) * Real.sqrt (sumPow xs (mean xs) 2 / xs.length))
    ∧ (xs.foldl Kurtosis.add Kurtosis.new).skewness
      = (sumPow xs (mean xs) 3 / xs.length)
        / ((sumPow xs (mean xs) 2 / xs.length) * Real.sqrt (sumPow xs (mean xs) 2 / xs.length)) := by
  rw [MSpec.skewness_fold, MSpec.kurtosis_fold]
  exact ⟨canonS_skewness xs h, canonS_skewness xs h⟩

/-- `m₂·√m₂ = m₂^{3/2}` (real power) for `m₂ ≥ 0`; a population variance is `≥ 0`. -/
theorem m2_mul_sqrt_eq_rpow (xs : List ℝ) :
    (sumPow xs (mean xs) 2 / xs.length) * Real.sqrt (sumPow xs (mean xs) 2 / xs.length)
      = (sumPow xs (mean xs) 2 / xs.length) ^ ((3:ℝ)/2) :=
  mul_sqrt_eq_rpow _ (div_nonneg (sumPow_two_nonneg xs _) (Nat.cast_nonneg _))

/-- `skewness() = m₃ / m₂^{3/2}` with the real power. -/
theorem skewness_eq_rpow (xs : List ℝ) (h : sumPow xs (mean xs) 2 ≠ 0) :
    (xs.foldl Skewness.add Skewness.new).skewness
      = (sumPow xs (mean xs) 3 / xs.length) / (sumPow xs (mean xs) 2 / xs.length) ^ ((3:ℝ)/2)
    ∧ (xs.foldl Kurtosis.add Kurtosis.new).skewness
      = (sumPow xs (mean xs) 3 / xs.length) / (sumPow xs (mean xs) 2 / xs.length) ^ ((3:ℝ)/2) := by
  rw [← m2_mul_sqrt_eq_rpow]; exact skewness_eq xs h

/-- Through any merge tree whose data have non-zero spread: `skewness() = m₃/m₂^{3/2}` of the whole
data, for `Skewness` and for `Kurtosis`. -/
theorem mtree_skewness_eq (t : MTree ℝ) (h : sumPow t.flatten (mean t.flatten) 2 ≠ 0) :
    (t.eval Skewness.new Skewness.add Skewness.merge).skewness
      = (sumPow t.flatten (mean t.flatten) 3 / t.flatten.length)
        / (sumPow t.flatten (mean t.flatten) 2 / t.flatten.length) ^ ((3:ℝ)/2)
    ∧ (t.eval Kurtosis.new Kurtosis.add Kurtosis.merge).skewness
      = (sumPow t.flatten (mean t.flatten) 3 / t.flatten.length)
        / (sumPow t.flatten (mean t.flatten) 2 / t.flatten.length) ^ ((3:ℝ)/2) := by
  have hs := skewness_mtree t
  have hk := kurtosis_mtree t
  unfold Skewness.evalTree at hs
  unfold Kurtosis.evalTree at hk
  rw [hs, hk, ← m2_mul_sqrt_eq_rpow]
  exact ⟨canonS_skewness _ h, canonS_skewness _ h⟩

/-- non-vacuity: a skewed stream with non-zero spread; m₂ = 7/2, m₃ = 9/2, m₄ = 49/2 -/
example : sumPow ([1, 2, 3, 6] : List ℝ) (mean [1, 2, 3, 6]) 2 ≠ 0
    ∧ (([1, 2, 3, 6] : List ℝ).foldl Kurtosis.add Kurtosis.new).kurtosis = -1 := by
  have h : sumPow ([1, 2, 3, 6] : List ℝ) (mean [1, 2, 3, 6]) 2 ≠ 0 := by norm_num [mean, sumPow]
  refine ⟨h, ?_⟩
  rw [kurtosis_eq_real _ h]; norm_num [mean, sumPow]

/-- non-vacuity for the skewness branch `sum_3 = 0` with non-zero spread (symmetric data) -/
example : (([1, 2, 3] : List ℝ).foldl Skewness.add Skewness.new).skewness = 0 := by
  have h : sumPow ([1, 2, 3] : List ℝ) (mean [1, 2, 3]) 2 ≠ 0 := by norm_num [mean, sumPow]
  rw [(skewness_eq _ h).1]; norm_num [mean, sumPow]

end Props.C03

#print axioms Props.C03.skewness_fold
#print axioms Props.C03.kurtosis_fold
#print axioms Props.C03.kurtosis_add_canon
#print axioms Props.C03.reexports_bitwise
#print axioms Props.C03.reexports_bitwise_mtree
#print axioms Props.C03.kurtosis_reexports_exact
#print axioms Props.C03.skewness_reexports_exact
#print axioms Props.C03.error_mean_eq
#print axioms Props.C03.kurtosis_eq
#print axioms Props.C03.spread_ne_zero_iff
#print axioms Props.C03.zero_spread
#print axioms Props.C03.mtree_kurtosis_eq
#print axioms Props.C03.kurtosis_eq_real
#print axioms Props.C03.skewness_eq
#print axioms Props.C03.m2_mul_sqrt_eq_rpow
#print axioms Props.C03.skewness_eq_rpow
#print axioms Props.C03.mtree_skewness_eq
