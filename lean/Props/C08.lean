import AvgProofs.WeightedCanon
import Props.C01

/-!
# C08 - weighted mean and its error equal the exact weighted statistics

Carrier: E with order - any ordered field `K` (`ℝ` where `sqrt` appears) with any `FloatOps K`
whose `eqb` is exact equality (`ExactEqb K`: that is what the emptiness tests `weight_sum == 0` see).
Streams of pairs `p = (x, w)` (sample, weight) with all weights `≥ 0` (`NonnegW ps`);
`W ps = Σw`, `WX ps = Σ w·x`, `W2 ps = Σ w²`, `xs = ps.map Prod.fst` the samples.

`canonW ps  = ⟨Σw, Σwx/Σw⟩` (average still `0` while `Σw = 0`);
`canonWE ps = ⟨Σw², canonW ps, ⟨⟨mean xs, n⟩, Σ(x-mean)²⟩⟩`.

The model is the FIXED crate (`WeightedMean::add` skips the division while the running weight sum
is zero; on the unchanged crate `add(1,0); add(2,1)` gives NaN). The floating-point envelopes of
the property are measured by the harness; here the exact-arithmetic identities are proved for
every stream and every merge tree.
-/
open Avg MSpec

namespace Props.C08

/-! ## a zero-weight observation - any field, any `FloatOps`, ANY state -/
section zero_weight
variable {K : Type} [Field K] [FloatOps K]

/-- **Zero weight is neutral for the weighted part.** For every state `s` whatsoever (the initial
state `new` included - the first observation of the stream) and every sample `x`:
`s.add x 0 = s`. Both branches of the fixed `add` (running weight sum zero or not) leave
`weight_sum` and `weighted_avg` unchanged. -/
theorem zero_weight_neutral (s : WeightedMean K) (x : K) : s.add x 0 = s := by
  cases s with
  | mk ws wa =>
    unfold WeightedMean.add
    simp only [add_zero, zero_div, zero_mul]
    split <;> rfl

/-- For `WeightedMeanWithError`, a zero-weight observation changes only the embedded unweighted
`Variance` (hence `len()`, `unweighted_mean`, the variances): `weight_sum_sq` and the weighted part
stay as they were. Any state, `new` included. -/
theorem wmwe_zero_weight (s : WeightedMeanWithError K) (x : K) :
    s.add x 0 = ⟨s.weight_sum_sq, s.weighted_avg, s.unweighted_avg.add x⟩ := by
  unfold WeightedMeanWithError.add
  rw [zero_weight_neutral, mul_zero, add_zero]

/-- ... wherever it occurs in the stream (first, in a prefix, last), whatever the other weights:
the final `WeightedMean` state is that of the stream without it. -/
theorem zero_weight_anywhere (ps qs : List (K × K)) (x : K) :
    (ps ++ (x, 0) :: qs).foldl WeightedMean.addP WeightedMean.new
      = (ps ++ qs).foldl WeightedMean.addP WeightedMean.new := by
  rw [List.foldl_append, List.foldl_cons, List.foldl_append]
  show List.foldl _ (WeightedMean.add _ x 0) qs = _
  rw [zero_weight_neutral]

/-- ... and the final `WeightedMeanWithError` state differs from that of the stream without it only
in the embedded `Variance`, which is the `Variance` estimator run on all samples, `x` included. -/
theorem wmwe_zero_weight_anywhere (ps qs : List (K × K)) (x : K) :
    let s := (ps ++ (x, 0) :: qs).foldl WeightedMeanWithError.addP WeightedMeanWithError.new
    let s' := (ps ++ qs).foldl WeightedMeanWithError.addP WeightedMeanWithError.new
    s.weighted_avg = s'.weighted_avg ∧ s.weight_sum_sq = s'.weight_sum_sq
    ∧ s.unweighted_avg
        = ((ps.map Prod.fst) ++ x :: (qs.map Prod.fst)).foldl Variance.add Variance.new := by
  refine ⟨?_, ?_, ?_⟩
  · rw [WeightedMeanWithError.fold_weighted_avg, WeightedMeanWithError.fold_weighted_avg]
    exact zero_weight_anywhere ps qs x
  · rw [WeightedMeanWithError.fold_weight_sum_sq, WeightedMeanWithError.fold_weight_sum_sq,
      List.foldl_append, List.foldl_cons, List.foldl_append]
    simp only [mul_zero, add_zero]
  · rw [WeightedMeanWithError.fold_unweighted_avg]
    simp only [List.map_append, List.map_cons]
    rfl

end zero_weight

variable {K : Type} [Field K] [LinearOrder K] [IsStrictOrderedRing K] [FloatOps K] [ExactEqb K]

/-! ## WeightedMean -/

/-- Every stream with non-negative weights, of any length, zero weights anywhere: the state after
adding the pairs one by one is exactly `⟨Σw, Σwx/Σw⟩` (average `0` while `Σw = 0`). -/
theorem wmean_fold (ps : List (K × K)) (h : NonnegW ps) :
    ps.foldl WeightedMean.addP WeightedMean.new = canonW ps :=
  MSpec.wmean_fold ps h

/-- Merging the exact states of two streams with non-negative weights (either may be empty or have
total weight zero - the early returns) gives the exact state of the concatenation. -/
theorem wmean_merge (ps qs : List (K × K)) (hp : NonnegW ps) (hq : NonnegW qs) :
    (canonW ps).merge (canonW qs) = canonW (ps ++ qs) :=
  MSpec.wmean_merge ps qs hp hq

/-- **Every history.** Every merge tree over every chunking (empty chunks and chunks of total
weight zero included) gives exactly the single-pass state of the flattened stream. -/
theorem wmean_mtree (t : MTree (K × K)) (h : NonnegW t.flatten) :
    t.eval WeightedMean.new WeightedMean.addP WeightedMean.merge = canonW t.flatten :=
  MSpec.wmean_mtree t h

/-- The observable statistics after any history: `sum_weights = Σw`; the invariant
`weighted_avg · Σw = Σwx` always; if `Σw > 0`: not empty and `mean = Σwx/Σw`; if `Σw = 0`
(all weights zero): empty, `mean = NaN`, stored average untouched (`0`). -/
theorem wmean_statistics (t : MTree (K × K)) (h : NonnegW t.flatten) :
    let s := t.eval WeightedMean.new WeightedMean.addP WeightedMean.merge
    let ps := t.flatten
    s.sumWeights = W ps ∧ s.weighted_avg * W ps = WX ps
    ∧ (0 < W ps → s.isEmpty = false ∧ s.mean = WX ps / W ps)
    ∧ (W ps = 0 → s.isEmpty = true ∧ s.mean = nan ∧ s.weighted_avg = 0) := by
  intro s ps
  have hs : s = canonW ps := wmean_mtree t h
  rw [hs]
  refine ⟨rfl, ?_, ?_, ?_⟩
  · show (if W ps = 0 then 0 else WX ps / W ps) * W ps = WX ps
    by_cases h0 : W ps = 0
    · rw [if_pos h0, (W_eq_zero h h0).1, zero_mul]
    · rw [if_neg h0]; field_simp
  · intro hpos
    have hne : W ps ≠ 0 := hpos.ne'
    have he : (canonW ps).isEmpty = false := eqb_zero_false hne
    refine ⟨he, ?_⟩
    rw [show (canonW ps).mean = (canonW ps).weighted_avg by
      simp only [WeightedMean.mean, he, Bool.not_false, if_true]]
    show (if W ps = 0 then 0 else WX ps / W ps) = _
    rw [if_neg hne]
  · intro h0
    have he : (canonW ps).isEmpty = true := eqb_zero_true h0
    refine ⟨he, ?_, ?_⟩
    · simp only [WeightedMean.mean, he, Bool.not_true, Bool.false_eq_true, if_false]
    · simp only [canonW, h0, if_true]

/-! ## WeightedMeanWithError -/

/-- Every stream with non-negative weights: the state is exactly
`⟨Σw², ⟨Σw, Σwx/Σw⟩, ⟨⟨mean x, n⟩, Σ(x-mean)²⟩⟩`. -/
theorem wmwe_fold (ps : List (K × K)) (h : NonnegW ps) :
    ps.foldl WeightedMeanWithError.addP WeightedMeanWithError.new = canonWE ps :=
  MSpec.wmwe_fold ps h

theorem wmwe_merge (ps qs : List (K × K)) (hp : NonnegW ps) (hq : NonnegW qs) :
    (canonWE ps).merge (canonWE qs) = canonWE (ps ++ qs) :=
  MSpec.wmwe_merge ps qs hp hq

/-- **Every history.** Every merge tree over every chunking gives exactly the single-pass state. -/
theorem wmwe_mtree (t : MTree (K × K)) (h : NonnegW t.flatten) :
    t.eval WeightedMeanWithError.new WeightedMeanWithError.addP WeightedMeanWithError.merge
      = canonWE t.flatten :=
  MSpec.wmwe_mtree t h

/-- After any history, the embedded unweighted estimator is exactly the `Variance` estimator run
on the samples alone - so `unweighted_mean`, `population_variance`, `sample_variance`, `len()` are
the statistics of C01 (`Props.C01.mean_eq`, `population_variance_eq`, `sample_variance_eq`,
`len_exact` apply verbatim). -/
theorem wmwe_unweighted (t : MTree (K × K)) (h : NonnegW t.flatten) :
    let s := t.eval WeightedMeanWithError.new WeightedMeanWithError.addP WeightedMeanWithError.merge
    let v := (t.flatten.map Prod.fst).foldl Variance.add Variance.new
    s.unweighted_avg = v ∧ s.len = t.flatten.length ∧ s.unweightedMean = v.mean
    ∧ s.populationVariance = v.populationVariance ∧ s.sampleVariance = v.sampleVariance := by
  intro s v
  have hs : s = canonWE t.flatten := wmwe_mtree t h
  have hv : s.unweighted_avg = v := by
    rw [hs]; show canonV _ = _
    rw [show v = _ from Props.C01.variance_fold _]; rfl
  refine ⟨hv, ?_, ?_, ?_, ?_⟩
  · rw [hs]; show (t.flatten.map Prod.fst).length = _; exact List.length_map _
  · show s.unweighted_avg.mean = _; rw [hv]
  · show s.unweighted_avg.populationVariance = _; rw [hv]
  · show s.unweighted_avg.sampleVariance = _; rw [hv]

/-- The weighted statistics after any history: `sum_weights = Σw`, `sum_weights_sq = Σw²`;
if `Σw > 0`: `weighted_mean = Σwx/Σw` and `Σw² > 0`; for a non-empty stream
`effective_len = (Σw)²/Σw²` (the crate's expression `Σw·Σw/Σw²`). -/
theorem wmwe_weighted_statistics (t : MTree (K × K)) (h : NonnegW t.flatten) :
    let s := t.eval WeightedMeanWithError.new WeightedMeanWithError.addP WeightedMeanWithError.merge
    let ps := t.flatten
    s.sumWeights = W ps ∧ s.sumWeightsSq = W2 ps
    ∧ (0 < W ps → s.weightedMean = WX ps / W ps ∧ 0 < W2 ps)
    ∧ (ps ≠ [] → s.effectiveLen = W ps * W ps / W2 ps) := by
  intro s ps
  have hs : s = canonWE ps := wmwe_mtree t h
  have hw := wmean_statistics t h
  have hwa : s.weighted_avg = t.eval WeightedMean.new WeightedMean.addP WeightedMean.merge := by
    rw [hs, wmean_mtree t h]; rfl
  refine ⟨?_, ?_, ?_, ?_⟩
  · rw [hs]; rfl
  · rw [hs]; rfl
  · intro hpos
    refine ⟨?_, W2_pos hpos.ne'⟩
    show s.weighted_avg.mean = _
    rw [hwa]; exact (hw.2.2.1 hpos).2
  · intro hne
    rw [hs]
    have hl : ¬ ((ps.map Prod.fst).length = 0) := by
      rw [List.length_map]; exact fun h0 => hne (List.length_eq_zero_iff.mp h0)
    have he : (canonWE ps).isEmpty = false := by
      show ((ps.map Prod.fst).length == 0) = false
      simpa using hl
    simp only [WeightedMeanWithError.effectiveLen, he, Bool.false_eq_true, if_false]
    rfl

/-- `variance_of_weighted_mean = sample_variance · Σw²/(Σw)²` with
`sample_variance = Σ(x-mean)²/(n-1)`, for `Σw > 0` and `n ≥ 2`, after any history. -/
theorem variance_of_weighted_mean_eq (t : MTree (K × K)) (h : NonnegW t.flatten)
    (hpos : 0 < W t.flatten) (hn : 2 ≤ t.flatten.length) :
    (t.eval WeightedMeanWithError.new WeightedMeanWithError.addP
        WeightedMeanWithError.merge).varianceOfWeightedMean
      = sumPow (t.flatten.map Prod.fst) (mean (t.flatten.map Prod.fst)) 2
          / ((t.flatten.length - 1 : Nat) : K)
        * (W2 t.flatten / (W t.flatten * W t.flatten)) := by
  rw [wmwe_mtree t h]
  have he : FloatOps.eqb (canonWE t.flatten).weighted_avg.sumWeights ((0:Nat):K) = false :=
    eqb_zero_false hpos.ne'
  have hl : ¬ (t.flatten.map Prod.fst).length < 2 := by rw [List.length_map]; omega
  simp only [WeightedMeanWithError.varianceOfWeightedMean, he, Bool.false_eq_true, if_false]
  show (canonV (t.flatten.map Prod.fst)).sampleVariance * _ = _
  have hsv : (canonV (t.flatten.map Prod.fst)).sampleVariance
      = sumPow (t.flatten.map Prod.fst) (mean (t.flatten.map Prod.fst)) 2
          / ((t.flatten.length - 1 : Nat) : K) := by
    show (if (t.flatten.map Prod.fst).length < 2 then nan else _) = _
    rw [if_neg hl]
    show sumPow _ _ 2 / (((t.flatten.map Prod.fst).length - 1 : Nat) : K) = _
    rw [List.length_map]
  rw [hsv]; rfl

/-- `error()` is the square root of that (ℝ). -/
theorem error_eq (t : MTree (ℝ × ℝ)) (h : NonnegW t.flatten)
    (hpos : 0 < W t.flatten) (hn : 2 ≤ t.flatten.length) :
    (t.eval WeightedMeanWithError.new WeightedMeanWithError.addP WeightedMeanWithError.merge).error
      = Real.sqrt (sumPow (t.flatten.map Prod.fst) (mean (t.flatten.map Prod.fst)) 2
          / ((t.flatten.length - 1 : Nat) : ℝ)
        * (W2 t.flatten / (W t.flatten * W t.flatten))) := by
  unfold WeightedMeanWithError.error
  rw [variance_of_weighted_mean_eq t h hpos hn]
  rfl

section example_
attribute [local instance] fieldFloatOps
local instance : ExactEqb ℚ := fieldFloatOps_exact ℚ

/-- non-vacuity: a zero weight FIRST, a chunk of total weight zero, unequal weights. -/
example : (MTree.node (MTree.leaf [((1 : ℚ), (0 : ℚ))]) (MTree.leaf [(2, 1), (4, 3)])).eval
    WeightedMean.new WeightedMean.addP WeightedMean.merge = ⟨4, 7 / 2⟩ := by
  rw [wmean_mtree _ (by intro p hp; simp at hp; rcases hp with rfl | rfl | rfl <;> norm_num)]
  norm_num [canonW, W, WX]

/-- the hypotheses of `variance_of_weighted_mean_eq` / `error_eq` hold for that stream, and the
`WeightedMeanWithError` state computes: `Σw² = 10`, unweighted mean `7/3`, `Σ(x-mean)² = 14/3`. -/
example : NonnegW ([((1 : ℚ), (0 : ℚ)), (2, 1), (4, 3)]) ∧ 0 < W ([((1 : ℚ), (0 : ℚ)), (2, 1), (4, 3)])
    ∧ 2 ≤ ([((1 : ℚ), (0 : ℚ)), (2, 1), (4, 3)]).length := by
  refine ⟨?_, by norm_num [W], by simp⟩
  intro p hp; simp at hp; rcases hp with rfl | rfl | rfl <;> norm_num
example : (MTree.node (MTree.leaf [((1 : ℚ), (0 : ℚ))]) (MTree.leaf [(2, 1), (4, 3)])).eval
    WeightedMeanWithError.new WeightedMeanWithError.addP WeightedMeanWithError.merge
      = ⟨10, ⟨4, 7 / 2⟩, ⟨⟨7 / 3, 3⟩, 14 / 3⟩⟩ := by
  rw [wmwe_mtree _ (by intro p hp; simp at hp; rcases hp with rfl | rfl | rfl <;> norm_num)]
  norm_num [canonWE, canonW, canonV, canonK, W, WX, W2, mean, sumPow]

end example_

end Props.C08

#print axioms Props.C08.zero_weight_neutral
#print axioms Props.C08.wmwe_zero_weight
#print axioms Props.C08.zero_weight_anywhere
#print axioms Props.C08.wmwe_zero_weight_anywhere
#print axioms Props.C08.wmean_fold
#print axioms Props.C08.wmean_merge
#print axioms Props.C08.wmean_mtree
#print axioms Props.C08.wmean_statistics
#print axioms Props.C08.wmwe_fold
#print axioms Props.C08.wmwe_merge
#print axioms Props.C08.wmwe_mtree
#print axioms Props.C08.wmwe_unweighted
#print axioms Props.C08.wmwe_weighted_statistics
#print axioms Props.C08.variance_of_weighted_mean_eq
#print axioms Props.C08.error_eq
