import AvgProofs.WeightedSumsErr
import AvgProofs.WeightedSumsTree
import AvgProofs.WeightedErrSqrt
import AvgProofs.EffLen
import Props.C02b
import Props.C01c
import Mathlib.Analysis.Real.Sqrt
import Mathlib.Tactic.NormNum

/-!
# C08 / C17 (addendum) - `WeightedMeanWithError`: `sum_weights`, `sum_weights_sq`, `effective_len`,
# `variance_of_weighted_mean` in floating point, proved for add-only streams

Carrier **R2** (`RF2 r`, `AvgProofs/MeanErr2.lean`): every `+ - * /` is followed by a rounding `r.fl` with
`|fl t - t| ≤ u·|t|` (standard model: no overflow, no underflow); counts are converted exactly.
Observations are pairs `(x, w)` with `w ≥ 0`; `pairVals` maps them to their exact values; `W`, `W2` are
the exact `Σw`, `Σw²`; `n` is the number of observations.

All accumulators here are sums of non-negative terms, so every bound is *relative and free of any
conditioning number*. The calculus (`AvgProofs/WeightedSumsErr.lean`) is two-sided and multiplicative:
`MB lo hi a' a : lo·a ≤ a' ≤ hi·a`; one rounding multiplies `lo` by `1-u` and `hi` by `1+u`.

What the code computes:
* `weight_sum' = fl(weight_sum + w)` - `n` roundings;
* `weight_sum_sq' = fl(weight_sum_sq + fl(w·w))` - `n + 1` roundings;
* `effective_len = fl(fl(Ŵ·Ŵ)/Ŵ2)` - `2n + 2` roundings in the numerator, `n + 1` in the denominator;
* `variance_of_weighted_mean = fl(sample_variance · fl(Ŵ2/fl(Ŵ·Ŵ)))`.

Results (all for `n·u ≤ 1/64`; `E = (Σw)²/Σw²`, `φ = 1/E`):
* `sum_weights_forward_error`: `|Ŵ - Σw| ≤ ((1+u)^n - 1)·Σw ≤ (64/63)·n·u·Σw`;
* `sum_weights_sq_forward_error`: `|Ŵ2 - Σw²| ≤ ((1+u)^(n+1) - 1)·Σw² ≤ (32/31)·(n+1)·u·Σw² ≤ (64/31)·n·u·Σw²`;
* `effective_len_two_sided`: `(1-u)^(2n+2)/(1+u)^(n+1) ≤ effective_len/E ≤ (1+u)^(2n+2)/(1-u)^(n+1)`;
  `effective_len_forward_error`: `|effective_len - E| ≤ 8·n·u·E` (the clause of C08: "within `8·n·2^-53` relative");
* `effective_len_range` (C17): `1 - 8·n·u ≤ effective_len ≤ #{w > 0}·(1 + 8·n·u) ≤ n·(1 + 8·n·u)`;
* `variance_of_weighted_mean_forward_error`: `|vwm - s²·φ| ≤ (16·n·u·s² + 9·n·u·M·σ + 9·n²·u²·M²)·φ`,
  and `≤ 16·n·κ·u·(s²·φ)`, `κ = 1 + M/σ`, when `2·n·u·M ≤ σ` (`variance_of_weighted_mean_envelope_kappa`;
  DESIGN.md section 5: scale = exact value, constant 16).

* `weighted_error_envelope_kappa`: with a correctly rounded square root (`RndSqrt`, `SqrtIs`,
  `AvgProofs/SqrtErr.lean`) `error() = sqrtfl(variance_of_weighted_mean)` is within `16·n·κ·u·√V` of `√V`,
  `V = s²·φ`, under the same hypotheses; `variance_of_weighted_mean_nonneg`: the radicand is `≥ 0`.

**Merge trees.** `|Ŵ - Σw| ≤ 2·n·u·Σw` for every merge tree is `Props.C08b.wmwe_weighted_mean_mtree_forward_error`.
`weight_sum_sq` merges by a plain rounded addition *without* the early return for an empty operand, so in the
standard model - where `fl(a + 0)` need not be `a` - the number of roundings is not a function of `n` alone
(a tree may contain any number of empty chunks). The measure is `R = MTree.rounds t`: `|chunk| + 1` at a leaf,
one more per merge level (`rounds_le`: `R ≤ n + merges + 1`; balanced tree over `p` chunks:
`n/p + 1 + ⌈log₂ p⌉`). For every merge tree with weights `≥ 0`, `R·u ≤ 1/64`:
* `sums_mtree_forward_error`: both sums within `((1+u)^R - 1) ≤ (64/63)·R·u` relative;
* `effective_len_mtree_forward_error`: `|effective_len - E| ≤ 8·R·u·E`;
  `effective_len_mtree_range`: `1 - 8·R·u ≤ effective_len ≤ n·(1 + 8·R·u)`.
Not covered: `variance_of_weighted_mean` through merges (needs the variance merge bound of `Props.C02c`).
-/
open Avg MSpec

namespace Props.C08c
variable {F : Type} [Field F] [LinearOrder F] [IsStrictOrderedRing F] {r : Rnd2 F}

/-! ## the two running sums -/

/-- **Running sum of non-negative terms** (any rounding with `u ≤ 1`): if every computed term `c p` lies
between `(1-u)^j` and `(1+u)^j` times its exact value `e p ≥ 0`, the computed running sum
`fl(…fl(fl(0 + c p₁) + c p₂)… + c pₙ)` lies between `(1-u)^(j+n)` and `(1+u)^(j+n)` times `Σ e p`. -/
theorem running_sum_two_sided {β : Type} (r : Rnd2 F) (hu1 : r.u ≤ 1) (c e : β → F) (j : ℕ) (ps : List β)
    (h : ∀ p ∈ ps, 0 ≤ e p ∧ MB ((1 - r.u)^j) ((1 + r.u)^j) (c p) (e p)) :
    MB ((1 - r.u)^(j + ps.length)) ((1 + r.u)^(j + ps.length))
      (ps.foldl (fun a p => r.fl (a + c p)) 0) (ps.map e).sum :=
  (runsum_MB r.fl r.u r.u_nonneg hu1 r.err c e j ps h).2

section fold
variable [FloatOps (RF2 r)]

/-- **`sum_weights`, add-only streams.** After `n` observations with weights `≥ 0` and `n·u ≤ 1/64`:
`(1-u)^n·Σw ≤ sum_weights ≤ (1+u)^n·Σw`, hence `|sum_weights - Σw| ≤ ((1+u)^n - 1)·Σw ≤ (64/63)·n·u·Σw`.
(Every merge tree: `Props.C08b.wmwe_weighted_mean_mtree_forward_error`, constant 2.) -/
theorem sum_weights_forward_error (ps : List (RF2 r × RF2 r)) (hw : ∀ p ∈ ps, 0 ≤ p.2.val)
    (hsmall : (ps.length : F) * r.u ≤ 1/64) :
    MB ((1 - r.u)^ps.length) ((1 + r.u)^ps.length)
      (ps.foldl WeightedMeanWithError.addP WeightedMeanWithError.new).sumWeights.val (W (pairVals ps)) ∧
    |(ps.foldl WeightedMeanWithError.addP WeightedMeanWithError.new).sumWeights.val - W (pairVals ps)|
      ≤ ((1 + r.u)^ps.length - 1) * W (pairVals ps) ∧
    |(ps.foldl WeightedMeanWithError.addP WeightedMeanWithError.new).sumWeights.val - W (pairVals ps)|
      ≤ 64/63 * ps.length * r.u * W (pairVals ps) := by
  have hu0 := r.u_nonneg
  have hn0 : (0:F) ≤ (ps.length : F) := Nat.cast_nonneg _
  have h0F : ((0:ℕ) : F) = 0 := Nat.cast_zero
  by_cases hnil : ps = []
  · subst hnil
    have e1 : (([] : List (RF2 r × RF2 r)).foldl WeightedMeanWithError.addP
        WeightedMeanWithError.new).sumWeights.val = 0 := h0F
    have e2 : W (pairVals ([] : List (RF2 r × RF2 r))) = 0 := by simp [pairVals]
    rw [e1, e2]
    exact ⟨MB.zero _ _, by simp, by simp⟩
  have hu1 : r.u ≤ 1 := by
    have : (1:F) ≤ (ps.length : F) := by exact_mod_cast List.length_pos_of_ne_nil hnil
    nlinarith
  have hval : (ps.foldl WeightedMeanWithError.addP WeightedMeanWithError.new).sumWeights
      = (ps.foldl WeightedMean.addP WeightedMean.new).weight_sum := by
    unfold WeightedMeanWithError.sumWeights WeightedMean.sumWeights
    rw [wmwe_fold_wsum]
  obtain ⟨hW0, hMB⟩ := wsum_fold_MB hu1 ps hw
  rw [hval]
  have h1 := hMB.abs_sub_le_pow hu0 hu1 hW0
  refine ⟨hMB, h1, le_trans h1 ?_⟩
  have hlt : (ps.length : F) * r.u < 1 := by linarith
  have h2 := pow_one_add_sub_one_le r.u hu0 ps.length hlt
  have h3 : (ps.length : F) * r.u / (1 - (ps.length : F) * r.u) ≤ 64/63 * ((ps.length : F) * r.u) := by
    rw [div_le_iff₀ (by linarith)]
    nlinarith [mul_nonneg hn0 hu0]
  calc ((1 + r.u)^ps.length - 1) * W (pairVals ps)
      ≤ (64/63 * ((ps.length : F) * r.u)) * W (pairVals ps) := by gcongr; linarith
    _ = _ := by ring

/-- **`sum_weights_sq`, add-only streams.** After `n` observations with `n·u ≤ 1/64` (`n ≥ 1`; any signs of
the weights - only their squares enter):
`(1-u)^(n+1)·Σw² ≤ sum_weights_sq ≤ (1+u)^(n+1)·Σw²`, hence
`|sum_weights_sq - Σw²| ≤ ((1+u)^(n+1) - 1)·Σw² ≤ (32/31)·(n+1)·u·Σw² ≤ (64/31)·n·u·Σw²`. -/
theorem sum_weights_sq_forward_error (ps : List (RF2 r × RF2 r)) (hne : ps ≠ [])
    (hsmall : (ps.length : F) * r.u ≤ 1/64) :
    MB ((1 - r.u)^(ps.length + 1)) ((1 + r.u)^(ps.length + 1))
      (ps.foldl WeightedMeanWithError.addP WeightedMeanWithError.new).sumWeightsSq.val (W2 (pairVals ps)) ∧
    |(ps.foldl WeightedMeanWithError.addP WeightedMeanWithError.new).sumWeightsSq.val - W2 (pairVals ps)|
      ≤ ((1 + r.u)^(ps.length + 1) - 1) * W2 (pairVals ps) ∧
    |(ps.foldl WeightedMeanWithError.addP WeightedMeanWithError.new).sumWeightsSq.val - W2 (pairVals ps)|
      ≤ 32/31 * ((ps.length : F) + 1) * r.u * W2 (pairVals ps) ∧
    |(ps.foldl WeightedMeanWithError.addP WeightedMeanWithError.new).sumWeightsSq.val - W2 (pairVals ps)|
      ≤ 64/31 * (ps.length : F) * r.u * W2 (pairVals ps) := by
  have hu0 := r.u_nonneg
  have hn1 : (1:F) ≤ (ps.length : F) := by exact_mod_cast List.length_pos_of_ne_nil hne
  have hu1 : r.u ≤ 1 := by nlinarith
  obtain ⟨hW0, hMB⟩ := wsumsq_fold_MB hu1 ps
  unfold WeightedMeanWithError.sumWeightsSq
  have h1 := hMB.abs_sub_le_pow hu0 hu1 hW0
  have hm : ((ps.length + 1 : ℕ) : F) * r.u ≤ 1/32 := by push_cast; nlinarith
  have h2 := pow_one_add_sub_one_le r.u hu0 (ps.length + 1) (by linarith)
  have hm0 : 0 ≤ ((ps.length + 1 : ℕ) : F) * r.u := mul_nonneg (Nat.cast_nonneg _) hu0
  have h3 : ((ps.length + 1 : ℕ) : F) * r.u / (1 - ((ps.length + 1 : ℕ) : F) * r.u)
      ≤ 32/31 * (((ps.length + 1 : ℕ) : F) * r.u) := by
    rw [div_le_iff₀ (by linarith)]
    nlinarith
  have h4 : |(ps.foldl WeightedMeanWithError.addP WeightedMeanWithError.new).weight_sum_sq.val
      - W2 (pairVals ps)| ≤ 32/31 * ((ps.length : F) + 1) * r.u * W2 (pairVals ps) := by
    refine le_trans h1 ?_
    calc ((1 + r.u)^(ps.length + 1) - 1) * W2 (pairVals ps)
        ≤ (32/31 * (((ps.length + 1 : ℕ) : F) * r.u)) * W2 (pairVals ps) := by gcongr; linarith
      _ = _ := by push_cast; ring
  refine ⟨hMB, h1, h4, le_trans h4 ?_⟩
  have : 32/31 * ((ps.length : F) + 1) * r.u ≤ 64/31 * (ps.length : F) * r.u := by nlinarith
  exact mul_le_mul_of_nonneg_right this hW0

/-! ## `effective_len` -/

/-- **`effective_len`, two-sided.** `n ≥ 1` observations with weights `≥ 0`, `Σw > 0`, `u < 1`; with
`E = (Σw)²/Σw²`:  `(1-u)^(2n+2)/(1+u)^(n+1)·E ≤ effective_len ≤ (1+u)^(2n+2)/(1-u)^(n+1)·E`. -/
theorem effective_len_two_sided (hu1 : r.u < 1) (ps : List (RF2 r × RF2 r)) (hw : ∀ p ∈ ps, 0 ≤ p.2.val)
    (hpos : 0 < W (pairVals ps)) :
    MB ((1 - r.u)^(2 * ps.length + 2) / (1 + r.u)^(ps.length + 1))
       ((1 + r.u)^(2 * ps.length + 2) / (1 - r.u)^(ps.length + 1))
       (ps.foldl WeightedMeanWithError.addP WeightedMeanWithError.new).effectiveLen.val
       (W (pairVals ps) * W (pairVals ps) / W2 (pairVals ps)) :=
  efflen_fold_MB hu1 ps hw hpos

omit [FloatOps (RF2 r)] in
/-- a positive total weight needs an observation -/
theorem length_pos_of_W_pos (ps : List (RF2 r × RF2 r)) (hpos : 0 < W (pairVals ps)) :
    (1:F) ≤ (ps.length : F) := by
  have hne : ps ≠ [] := by rintro rfl; simp [pairVals] at hpos
  exact_mod_cast List.length_pos_of_ne_nil hne

/-- **`effective_len`, the clause of C08.** `n` observations with weights `≥ 0`, `Σw > 0`, `n·u ≤ 1/64`:
`|effective_len - (Σw)²/Σw²| ≤ 8·n·u·(Σw)²/Σw²`. -/
theorem effective_len_forward_error (ps : List (RF2 r × RF2 r)) (hw : ∀ p ∈ ps, 0 ≤ p.2.val)
    (hpos : 0 < W (pairVals ps)) (hsmall : (ps.length : F) * r.u ≤ 1/64) :
    |(ps.foldl WeightedMeanWithError.addP WeightedMeanWithError.new).effectiveLen.val
        - W (pairVals ps) * W (pairVals ps) / W2 (pairVals ps)|
      ≤ 8 * (ps.length : F) * r.u * (W (pairVals ps) * W (pairVals ps) / W2 (pairVals ps)) := by
  have hu0 := r.u_nonneg
  have hn1 := length_pos_of_W_pos ps hpos
  have hu1 : r.u < 1 := by nlinarith
  have hE0 : 0 ≤ W (pairVals ps) * W (pairVals ps) / W2 (pairVals ps) :=
    div_nonneg (mul_nonneg hpos.le hpos.le) (W2_nonneg _)
  have hrat := ratio_within_8 r.u ((ps.length : F) * r.u) hu0 hu1.le (2 * ps.length + 2) (ps.length + 1)
    (by push_cast; nlinarith) (by linarith)
  have := (efflen_fold_MB hu1 ps hw hpos).abs_sub_le hE0 (ε := 8 * ((ps.length : F) * r.u)) hrat.1 hrat.2
  calc _ ≤ _ := this
    _ = _ := by ring

omit [FloatOps (RF2 r)] in
/-- the exact effective sample size of the weights: `1 ≤ (Σw)²/Σw² ≤ #{w > 0} ≤ n` -/
theorem effective_len_exact_range (ps : List (RF2 r × RF2 r)) (hw : ∀ p ∈ ps, 0 ≤ p.2.val)
    (hpos : 0 < W (pairVals ps)) :
    1 ≤ W (pairVals ps) * W (pairVals ps) / W2 (pairVals ps)
    ∧ W (pairVals ps) * W (pairVals ps) / W2 (pairVals ps)
        ≤ (((ps.filter (fun p => 0 < p.2.val)).length : ℕ) : F)
    ∧ (ps.filter (fun p => 0 < p.2.val)).length ≤ ps.length := by
  have e1 : W (pairVals ps) = (ps.map (fun p => p.2.val)).sum := W_pairVals ps
  have e2 : W2 (pairVals ps) = sqSum (ps.map (fun p => p.2.val)) := by
    rw [W2_pairVals]; unfold sqSum; rw [List.map_map]; rfl
  have hws : ∀ w ∈ ps.map (fun p => p.2.val), 0 ≤ w := by
    intro w hw'
    rw [List.mem_map] at hw'
    obtain ⟨p, hp, rfl⟩ := hw'
    exact hw p hp
  obtain ⟨b1, b2, _⟩ := effective_len_bounds (ps.map (fun p => p.2.val)) hws (by rw [← e1]; exact hpos)
  have e3 : ((ps.map (fun p => p.2.val)).filter (fun w => 0 < w)).length
      = (ps.filter (fun p => 0 < p.2.val)).length := by
    rw [List.filter_map, List.length_map]; rfl
  rw [e1, e2]
  rw [e3] at b2
  exact ⟨b1, b2, List.length_filter_le _ _⟩

/-- **`effective_len` lies in `[1, len]` up to rounding (the clause of C17).** `n` observations with weights
`≥ 0`, `Σw > 0`, `n·u ≤ 1/64`:  `1 - 8·n·u ≤ effective_len ≤ #{w > 0}·(1 + 8·n·u) ≤ n·(1 + 8·n·u)`
(`8·n·u = n·2^-50` for `u = 2^-53`: exactly the tolerance of the property). -/
theorem effective_len_range (ps : List (RF2 r × RF2 r)) (hw : ∀ p ∈ ps, 0 ≤ p.2.val)
    (hpos : 0 < W (pairVals ps)) (hsmall : (ps.length : F) * r.u ≤ 1/64) :
    1 - 8 * (ps.length : F) * r.u
      ≤ (ps.foldl WeightedMeanWithError.addP WeightedMeanWithError.new).effectiveLen.val
    ∧ (ps.foldl WeightedMeanWithError.addP WeightedMeanWithError.new).effectiveLen.val
      ≤ (((ps.filter (fun p => 0 < p.2.val)).length : ℕ) : F) * (1 + 8 * (ps.length : F) * r.u)
    ∧ (ps.foldl WeightedMeanWithError.addP WeightedMeanWithError.new).effectiveLen.val
      ≤ (ps.length : F) * (1 + 8 * (ps.length : F) * r.u) := by
  have hu0 := r.u_nonneg
  have hn0 : (0:F) ≤ (ps.length : F) := Nat.cast_nonneg _
  obtain ⟨b1, b2, b3⟩ := effective_len_exact_range ps hw hpos
  have b3' : (((ps.filter (fun p => 0 < p.2.val)).length : ℕ) : F) ≤ (ps.length : F) := by exact_mod_cast b3
  have h := abs_le.mp (effective_len_forward_error ps hw hpos hsmall)
  have hx : 0 ≤ 8 * (ps.length : F) * r.u := by positivity
  have hx1 : 8 * (ps.length : F) * r.u ≤ 1 := by linarith
  set E := W (pairVals ps) * W (pairVals ps) / W2 (pairVals ps) with hE
  have hup : (ps.foldl WeightedMeanWithError.addP WeightedMeanWithError.new).effectiveLen.val
      ≤ (((ps.filter (fun p => 0 < p.2.val)).length : ℕ) : F) * (1 + 8 * (ps.length : F) * r.u) := by
    calc _ ≤ E * (1 + 8 * (ps.length : F) * r.u) := by linarith [h.2]
      _ ≤ _ := by gcongr
  refine ⟨?_, hup, le_trans hup (by gcongr)⟩
  calc 1 - 8 * (ps.length : F) * r.u ≤ E * (1 - 8 * (ps.length : F) * r.u) := by nlinarith
    _ ≤ _ := by linarith [h.1]

/-! ## `variance_of_weighted_mean` -/

/-- the factor `fl(Ŵ2/fl(Ŵ·Ŵ))`: within `8·n·u` relative of `φ = Σw²/(Σw)²` -/
theorem inv_effective_len_forward_error (ps : List (RF2 r × RF2 r)) (hw : ∀ p ∈ ps, 0 ≤ p.2.val)
    (hpos : 0 < W (pairVals ps)) (hsmall : (ps.length : F) * r.u ≤ 1/64) :
    |r.fl ((ps.foldl WeightedMeanWithError.addP WeightedMeanWithError.new).weight_sum_sq.val
          / r.fl ((ps.foldl WeightedMean.addP WeightedMean.new).weight_sum.val
                    * (ps.foldl WeightedMean.addP WeightedMean.new).weight_sum.val))
        - W2 (pairVals ps) / (W (pairVals ps) * W (pairVals ps))|
      ≤ 8 * (ps.length : F) * r.u * (W2 (pairVals ps) / (W (pairVals ps) * W (pairVals ps))) := by
  have hu0 := r.u_nonneg
  have hn1 := length_pos_of_W_pos ps hpos
  have hu1 : r.u < 1 := by nlinarith
  have hφ0 : 0 ≤ W2 (pairVals ps) / (W (pairVals ps) * W (pairVals ps)) :=
    div_nonneg (W2_nonneg _) (mul_nonneg hpos.le hpos.le)
  have hrat := ratio_within_8 r.u ((ps.length : F) * r.u) hu0 hu1.le (ps.length + 2) (2 * ps.length + 1)
    (by push_cast; nlinarith) (by linarith)
  have := (invefflen_MB hu1 ps hw hpos).abs_sub_le hφ0 (ε := 8 * ((ps.length : F) * r.u)) hrat.1 hrat.2
  calc _ ≤ _ := this
    _ = _ := by ring

/-- **`variance_of_weighted_mean`, add-only streams.** `n ≥ 2` observations `(x, w)` with `w ≥ 0`, `Σw > 0`,
`|x| ≤ M` for all samples (the unweighted variance sees them all, also those of weight 0),
`(n+28)·u ≤ 1/64`; `s² = T/(n-1)` the exact sample variance of the samples, any `σ ≥ 0` with `s² ≤ σ²`,
`φ = Σw²/(Σw)²`:
`|variance_of_weighted_mean - s²·φ| ≤ (16·n·u·s² + 9·n·u·M·σ + 9·n²·u²·M²)·φ`. -/
theorem variance_of_weighted_mean_forward_error (heq : ValEqb r) (M : F) (hM : 0 ≤ M)
    (ps : List (RF2 r × RF2 r)) (h2 : 2 ≤ ps.length) (hw : ∀ p ∈ ps, 0 ≤ p.2.val)
    (hpos : 0 < W (pairVals ps)) (hb : ∀ p ∈ ps, |p.1.val| ≤ M)
    (hsmall : ((ps.length : F) + 28) * r.u ≤ 1/64) (σ : F) (hσ : 0 ≤ σ)
    (hvar : VarSpec.T ((ps.map Prod.fst).map RF2.val) / ((ps.length - 1 : ℕ) : F) ≤ σ^2) :
    |(ps.foldl WeightedMeanWithError.addP WeightedMeanWithError.new).varianceOfWeightedMean.val
        - VarSpec.T ((ps.map Prod.fst).map RF2.val) / ((ps.length - 1 : ℕ) : F)
            * (W2 (pairVals ps) / (W (pairVals ps) * W (pairVals ps)))|
      ≤ (16 * ps.length * r.u * (VarSpec.T ((ps.map Prod.fst).map RF2.val) / ((ps.length - 1 : ℕ) : F))
          + 9 * ps.length * r.u * M * σ + 9 * (ps.length : F)^2 * r.u^2 * M^2)
        * (W2 (pairVals ps) / (W (pairVals ps) * W (pairVals ps))) := by
  refine le_trans (vwm_fold_error heq M hM ps h2 hw hpos hb hsmall σ hσ hvar) ?_
  have hφ0 : 0 ≤ W2 (pairVals ps) / (W (pairVals ps) * W (pairVals ps)) :=
    div_nonneg (W2_nonneg _) (mul_nonneg hpos.le hpos.le)
  apply mul_le_mul_of_nonneg_right _ hφ0
  have : 0 ≤ (ps.length : F) * r.u
      * (VarSpec.T ((ps.map Prod.fst).map RF2.val) / ((ps.length - 1 : ℕ) : F)) :=
    mul_nonneg (mul_nonneg (Nat.cast_nonneg _) r.u_nonneg)
      (div_nonneg (VarSpec.T_nonneg _) (Nat.cast_nonneg _))
  linarith

/-- **Inside the envelope of DESIGN.md section 5 (scale: the exact value, constant 16).** If moreover
`2·n·u·M ≤ σ`:  `|variance_of_weighted_mean - s²·φ| ≤ 16·n·u·(s² + M·σ)·φ`. -/
theorem variance_of_weighted_mean_envelope (heq : ValEqb r) (M : F) (hM : 0 ≤ M)
    (ps : List (RF2 r × RF2 r)) (h2 : 2 ≤ ps.length) (hw : ∀ p ∈ ps, 0 ≤ p.2.val)
    (hpos : 0 < W (pairVals ps)) (hb : ∀ p ∈ ps, |p.1.val| ≤ M)
    (hsmall : ((ps.length : F) + 28) * r.u ≤ 1/64) (σ : F) (hσ : 0 ≤ σ)
    (hvar : VarSpec.T ((ps.map Prod.fst).map RF2.val) / ((ps.length - 1 : ℕ) : F) ≤ σ^2)
    (hcond : 2 * (ps.length : F) * r.u * M ≤ σ) :
    |(ps.foldl WeightedMeanWithError.addP WeightedMeanWithError.new).varianceOfWeightedMean.val
        - VarSpec.T ((ps.map Prod.fst).map RF2.val) / ((ps.length - 1 : ℕ) : F)
            * (W2 (pairVals ps) / (W (pairVals ps) * W (pairVals ps)))|
      ≤ 16 * ps.length * r.u
          * (VarSpec.T ((ps.map Prod.fst).map RF2.val) / ((ps.length - 1 : ℕ) : F) + M * σ)
          * (W2 (pairVals ps) / (W (pairVals ps) * W (pairVals ps))) := by
  have hu0 := r.u_nonneg
  have hn0 : (0:F) ≤ (ps.length : F) := Nat.cast_nonneg _
  refine le_trans (vwm_fold_error heq M hM ps h2 hw hpos hb hsmall σ hσ hvar) ?_
  have hφ0 : 0 ≤ W2 (pairVals ps) / (W (pairVals ps) * W (pairVals ps)) :=
    div_nonneg (W2_nonneg _) (mul_nonneg hpos.le hpos.le)
  apply mul_le_mul_of_nonneg_right _ hφ0
  have hnuM : 0 ≤ (ps.length : F) * r.u * M := by positivity
  have h1 : 9 * (ps.length : F)^2 * r.u^2 * M^2 ≤ 9/2 * ((ps.length : F) * r.u * M) * σ := by
    have : (ps.length : F) * r.u * M * (2 * ((ps.length : F) * r.u * M)) ≤ (ps.length : F) * r.u * M * σ :=
      mul_le_mul_of_nonneg_left (by linarith) hnuM
    nlinarith
  have h2' : 0 ≤ (ps.length : F) * r.u * M * σ := by positivity
  have h3 : 0 ≤ (ps.length : F) * r.u
      * (VarSpec.T ((ps.map Prod.fst).map RF2.val) / ((ps.length - 1 : ℕ) : F)) :=
    mul_nonneg (mul_nonneg hn0 hu0) (div_nonneg (VarSpec.T_nonneg _) (Nat.cast_nonneg _))
  nlinarith

end fold

/-- **The envelope clause for `variance_of_weighted_mean`, in the words of DESIGN.md section 5.** Over ℝ,
`n ≥ 2` observations `(x, w)`, `w ≥ 0`, `Σw > 0`, `|x| ≤ M`, exact sample variance `s² > 0`, `σ = sqrt(s²)`,
`κ = 1 + M/σ`, `(n+28)·u ≤ 1/64` and `2·n·u·M ≤ σ`; `V = s²·Σw²/(Σw)²` the exact value:
`|variance_of_weighted_mean - V| ≤ 16·n·κ·u·V`. -/
theorem variance_of_weighted_mean_envelope_kappa {r : Rnd2 ℝ} [FloatOps (RF2 r)] (heq : ValEqb r)
    (M : ℝ) (hM : 0 ≤ M) (ps : List (RF2 r × RF2 r)) (h2 : 2 ≤ ps.length)
    (hw : ∀ p ∈ ps, 0 ≤ p.2.val) (hpos : 0 < W (pairVals ps)) (hb : ∀ p ∈ ps, |p.1.val| ≤ M)
    (hsmall : ((ps.length : ℝ) + 28) * r.u ≤ 1/64)
    (hs : 0 < VarSpec.T ((ps.map Prod.fst).map RF2.val) / ((ps.length - 1 : ℕ) : ℝ))
    (hcond : 2 * (ps.length : ℝ) * r.u * M
      ≤ Real.sqrt (VarSpec.T ((ps.map Prod.fst).map RF2.val) / ((ps.length - 1 : ℕ) : ℝ))) :
    |(ps.foldl WeightedMeanWithError.addP WeightedMeanWithError.new).varianceOfWeightedMean.val
        - VarSpec.T ((ps.map Prod.fst).map RF2.val) / ((ps.length - 1 : ℕ) : ℝ)
            * (W2 (pairVals ps) / (W (pairVals ps) * W (pairVals ps)))|
      ≤ 16 * ps.length
          * (1 + M / Real.sqrt (VarSpec.T ((ps.map Prod.fst).map RF2.val) / ((ps.length - 1 : ℕ) : ℝ)))
          * r.u
          * (VarSpec.T ((ps.map Prod.fst).map RF2.val) / ((ps.length - 1 : ℕ) : ℝ)
              * (W2 (pairVals ps) / (W (pairVals ps) * W (pairVals ps)))) := by
  set v := VarSpec.T ((ps.map Prod.fst).map RF2.val) / ((ps.length - 1 : ℕ) : ℝ) with hv
  have hσpos : 0 < Real.sqrt v := Real.sqrt_pos.mpr hs
  have hsq : Real.sqrt v ^ 2 = v := Real.sq_sqrt hs.le
  have h := variance_of_weighted_mean_envelope heq M hM ps h2 hw hpos hb hsmall (Real.sqrt v) hσpos.le
    (le_of_eq hsq.symm) hcond
  refine le_trans h (le_of_eq ?_)
  have : (1 + M / Real.sqrt v) * v = v + M * Real.sqrt v := by
    have hne' : Real.sqrt v ≠ 0 := hσpos.ne'
    field_simp
    nlinarith [hsq]
  calc 16 * (ps.length : ℝ) * r.u * (v + M * Real.sqrt v) * _
      = 16 * (ps.length : ℝ) * r.u * ((1 + M / Real.sqrt v) * v) * _ := by rw [this]
    _ = _ := by ring

/-! ## `error()` of the weighted mean -/

section sqrt
variable {r : Rnd2 ℝ} [FloatOps (RF2 r)]

/-- At R2 (`u < 1`) the computed `variance_of_weighted_mean` of an add-only stream with weights `≥ 0`,
positive total weight and `n ≥ 2` is `≥ 0` (any samples), so `error()` takes the root of a non-negative
number. -/
theorem variance_of_weighted_mean_nonneg {F : Type} [Field F] [LinearOrder F] [IsStrictOrderedRing F]
    {r : Rnd2 F} [FloatOps (RF2 r)] (heq : ValEqb r) (hu1 : r.u < 1) (ps : List (RF2 r × RF2 r))
    (h2 : 2 ≤ ps.length) (hw : ∀ p ∈ ps, 0 ≤ p.2.val) (hpos : 0 < W (pairVals ps)) :
    0 ≤ (ps.foldl WeightedMeanWithError.addP WeightedMeanWithError.new).varianceOfWeightedMean.val :=
  vwm_nonneg heq hu1 ps h2 hw hpos

/-- What `error()` computes when the instance takes square roots with `q.sqrtfl`. -/
theorem weighted_error_computed (q : RndSqrt r) (hs : SqrtIs q) (s : WeightedMeanWithError (RF2 r)) :
    s.error.val = q.sqrtfl s.varianceOfWeightedMean.val :=
  wmwe_error_val q hs s

/-- **The envelope clause for `WeightedMeanWithError::error`** (DESIGN.md section 5: scale the exact value,
constant 16). Over ℝ with a correctly rounded square root: `n ≥ 2` observations `(x, w)`, `w ≥ 0`, `Σw > 0`,
`|x| ≤ M`, `s² = T/(n-1) > 0`, `σ = √(s²)`, `κ = 1 + M/σ`, `(n+28)·u ≤ 1/64`, `2·n·u·M ≤ σ`;
`V = s²·Σw²/(Σw)²`:   `|error - √V| ≤ 16·n·κ·u·√V`. -/
theorem weighted_error_envelope_kappa (q : RndSqrt r) (hs : SqrtIs q) (heq : ValEqb r) (M : ℝ) (hM : 0 ≤ M)
    (ps : List (RF2 r × RF2 r)) (h2 : 2 ≤ ps.length) (hw : ∀ p ∈ ps, 0 ≤ p.2.val)
    (hpos : 0 < W (pairVals ps)) (hb : ∀ p ∈ ps, |p.1.val| ≤ M)
    (hsmall : ((ps.length : ℝ) + 28) * r.u ≤ 1/64)
    (hs2 : 0 < VarSpec.T ((ps.map Prod.fst).map RF2.val) / ((ps.length - 1 : ℕ) : ℝ))
    (hcond : 2 * (ps.length : ℝ) * r.u * M
      ≤ Real.sqrt (VarSpec.T ((ps.map Prod.fst).map RF2.val) / ((ps.length - 1 : ℕ) : ℝ))) :
    |(ps.foldl WeightedMeanWithError.addP WeightedMeanWithError.new).error.val
        - Real.sqrt (VarSpec.T ((ps.map Prod.fst).map RF2.val) / ((ps.length - 1 : ℕ) : ℝ)
            * (W2 (pairVals ps) / (W (pairVals ps) * W (pairVals ps))))|
      ≤ 16 * ps.length
          * (1 + M / Real.sqrt (VarSpec.T ((ps.map Prod.fst).map RF2.val) / ((ps.length - 1 : ℕ) : ℝ)))
          * r.u
          * Real.sqrt (VarSpec.T ((ps.map Prod.fst).map RF2.val) / ((ps.length - 1 : ℕ) : ℝ)
              * (W2 (pairVals ps) / (W (pairVals ps) * W (pairVals ps)))) :=
  wmwe_error_envelope q hs heq M hM ps h2 hw hpos hb hsmall hs2 hcond

end sqrt

/-! ## merge trees -/

section tree
variable {r : Rnd2 F} [FloatOps (RF2 r)]

omit [FloatOps (RF2 r)] in
/-- `rounds t ≤ n + merges + 1`, and `rounds t ≥ 1`. -/
theorem rounds_le (t : MTree (RF2 r × RF2 r)) :
    1 ≤ t.rounds ∧ t.rounds ≤ t.flatten.length + t.merges + 1 :=
  ⟨t.rounds_pos, t.rounds_le⟩

/-- **`sum_weights` and `sum_weights_sq`, every merge tree.** Weights `≥ 0`, `R = rounds t`, `R·u ≤ 1/64`:
both stored sums lie between `(1-u)^R` and `(1+u)^R` times the exact `Σw`, `Σw²`; hence
`|sum - exact| ≤ ((1+u)^R - 1)·exact ≤ (64/63)·R·u·exact`. -/
theorem sums_mtree_forward_error (heq : ValEqb r) (t : MTree (RF2 r × RF2 r))
    (hw : ∀ p ∈ t.flatten, 0 ≤ p.2.val) (hsmall : (t.rounds : F) * r.u ≤ 1/64) :
    (MB ((1 - r.u)^t.rounds) ((1 + r.u)^t.rounds)
        (WeightedMeanWithError.evalTree t).sumWeights.val (W (pairVals t.flatten)) ∧
      |(WeightedMeanWithError.evalTree t).sumWeights.val - W (pairVals t.flatten)|
        ≤ 64/63 * t.rounds * r.u * W (pairVals t.flatten)) ∧
    (MB ((1 - r.u)^t.rounds) ((1 + r.u)^t.rounds)
        (WeightedMeanWithError.evalTree t).sumWeightsSq.val (W2 (pairVals t.flatten)) ∧
      |(WeightedMeanWithError.evalTree t).sumWeightsSq.val - W2 (pairVals t.flatten)|
        ≤ 64/63 * t.rounds * r.u * W2 (pairVals t.flatten)) := by
  have hu0 := r.u_nonneg
  have hR1 : (1:F) ≤ (t.rounds : F) := by exact_mod_cast t.rounds_pos
  have hu1 : r.u < 1 := by nlinarith
  obtain ⟨hW0, hW20, hW, hW2⟩ := tree_sums_MB heq hu1 t hw
  have hlt : (t.rounds : F) * r.u < 1 := by linarith
  have h2 := pow_one_add_sub_one_le r.u hu0 t.rounds hlt
  have h3 : (t.rounds : F) * r.u / (1 - (t.rounds : F) * r.u) ≤ 64/63 * ((t.rounds : F) * r.u) := by
    rw [div_le_iff₀ (by linarith)]
    nlinarith [mul_nonneg (le_trans zero_le_one hR1) hu0]
  have hlin : ∀ (c X : F), 0 ≤ X → MB ((1 - r.u)^t.rounds) ((1 + r.u)^t.rounds) c X →
      |c - X| ≤ 64/63 * t.rounds * r.u * X := by
    intro c X hX h
    refine le_trans (h.abs_sub_le_pow hu0 hu1.le hX) ?_
    calc ((1 + r.u)^t.rounds - 1) * X ≤ (64/63 * ((t.rounds : F) * r.u)) * X := by gcongr; linarith
      _ = _ := by ring
  exact ⟨⟨hW, hlin _ _ hW0 hW⟩, ⟨hW2, hlin _ _ hW20 hW2⟩⟩

/-- **`effective_len`, every merge tree.** Weights `≥ 0`, `Σw > 0`, `R = rounds t`, `R·u ≤ 1/64`:
`|effective_len - (Σw)²/Σw²| ≤ 8·R·u·(Σw)²/Σw²`. -/
theorem effective_len_mtree_forward_error (heq : ValEqb r) (t : MTree (RF2 r × RF2 r))
    (hw : ∀ p ∈ t.flatten, 0 ≤ p.2.val) (hpos : 0 < W (pairVals t.flatten))
    (hsmall : (t.rounds : F) * r.u ≤ 1/64) :
    |(WeightedMeanWithError.evalTree t).effectiveLen.val
        - W (pairVals t.flatten) * W (pairVals t.flatten) / W2 (pairVals t.flatten)|
      ≤ 8 * (t.rounds : F) * r.u
          * (W (pairVals t.flatten) * W (pairVals t.flatten) / W2 (pairVals t.flatten)) := by
  have hu0 := r.u_nonneg
  have hR1 : (1:F) ≤ (t.rounds : F) := by exact_mod_cast t.rounds_pos
  have hu1 : r.u < 1 := by nlinarith
  have hE0 : 0 ≤ W (pairVals t.flatten) * W (pairVals t.flatten) / W2 (pairVals t.flatten) :=
    div_nonneg (mul_nonneg hpos.le hpos.le) (W2_nonneg _)
  have hrat := ratio_within_8 r.u ((t.rounds : F) * r.u) hu0 hu1.le (2 * t.rounds + 2) t.rounds
    (by push_cast; nlinarith) (by linarith)
  have := (efflen_tree_MB heq hu1 t hw hpos).abs_sub_le hE0 (ε := 8 * ((t.rounds : F) * r.u)) hrat.1 hrat.2
  calc _ ≤ _ := this
    _ = _ := by ring

/-- **`effective_len ∈ [1, len]` up to rounding, every merge tree (C17).**
`1 - 8·R·u ≤ effective_len ≤ n·(1 + 8·R·u)`. -/
theorem effective_len_mtree_range (heq : ValEqb r) (t : MTree (RF2 r × RF2 r))
    (hw : ∀ p ∈ t.flatten, 0 ≤ p.2.val) (hpos : 0 < W (pairVals t.flatten))
    (hsmall : (t.rounds : F) * r.u ≤ 1/64) :
    1 - 8 * (t.rounds : F) * r.u ≤ (WeightedMeanWithError.evalTree t).effectiveLen.val
    ∧ (WeightedMeanWithError.evalTree t).effectiveLen.val
        ≤ (t.flatten.length : F) * (1 + 8 * (t.rounds : F) * r.u) := by
  have hu0 := r.u_nonneg
  have hR0 : (0:F) ≤ (t.rounds : F) := Nat.cast_nonneg _
  obtain ⟨b1, b2, b3⟩ := effective_len_exact_range t.flatten hw hpos
  have b3' : (((t.flatten.filter (fun p => 0 < p.2.val)).length : ℕ) : F) ≤ (t.flatten.length : F) := by
    exact_mod_cast b3
  have h := abs_le.mp (effective_len_mtree_forward_error heq t hw hpos hsmall)
  have hx : 0 ≤ 8 * (t.rounds : F) * r.u := by positivity
  have hx1 : 8 * (t.rounds : F) * r.u ≤ 1 := by linarith
  set E := W (pairVals t.flatten) * W (pairVals t.flatten) / W2 (pairVals t.flatten) with hE
  constructor
  · calc 1 - 8 * (t.rounds : F) * r.u ≤ E * (1 - 8 * (t.rounds : F) * r.u) := by nlinarith
      _ ≤ _ := by linarith [h.1]
  · calc _ ≤ E * (1 + 8 * (t.rounds : F) * r.u) := by linarith [h.2]
      _ ≤ _ := by gcongr; exact le_trans b2 b3'

end tree

/-! ## Non-vacuity -/

/-- the comparisons of the values: an instance with `ValEqb` -/
local instance : FloatOps (RF2 Props.C02b.awayRnd) := rf2FloatOps Props.C02b.awayRnd

/-- four observations under the rounding `awayRnd` (never exact, `u = 2^-53`): a leading zero-weight
observation with a large sample, a non-integer weight -/
def exObs : List (RF2 Props.C02b.awayRnd × RF2 Props.C02b.awayRnd) :=
  [(⟨1000⟩, ⟨0⟩), (⟨1⟩, ⟨2⟩), (⟨-6⟩, ⟨1⟩), (⟨3⟩, ⟨1/2⟩)]

theorem exObs_W : W (pairVals exObs) = 7/2 := by norm_num [exObs, pairVals, W]
theorem exObs_W2 : W2 (pairVals exObs) = 21/4 := by norm_num [exObs, pairVals, W2]
theorem exObs_T : VarSpec.T ((exObs.map Prod.fst).map RF2.val) = 751045 := by
  norm_num [exObs, VarSpec.T, sumPow, mean]

theorem exObs_w : ∀ p ∈ exObs, 0 ≤ p.2.val := by
  intro p hp
  simp only [exObs, List.mem_cons, List.not_mem_nil, or_false] at hp
  rcases hp with rfl | rfl | rfl | rfl <;> norm_num

theorem exObs_x : ∀ p ∈ exObs, |p.1.val| ≤ (1000:ℚ) := by
  intro p hp
  simp only [exObs, List.mem_cons, List.not_mem_nil, or_false] at hp
  rcases hp with rfl | rfl | rfl | rfl <;> norm_num

/-- the hypotheses of every theorem above are met by `exObs` with `M = 1000`, `σ = 501`
(`s² = 751045/3 ≤ 501²`), `u = 2^-53` -/
example : ValEqb Props.C02b.awayRnd ∧ 2 ≤ exObs.length ∧ (∀ p ∈ exObs, 0 ≤ p.2.val)
    ∧ 0 < W (pairVals exObs) ∧ (∀ p ∈ exObs, |p.1.val| ≤ (1000:ℚ))
    ∧ ((exObs.length : ℚ) + 28) * Props.C02b.awayRnd.u ≤ 1/64
    ∧ (exObs.length : ℚ) * Props.C02b.awayRnd.u ≤ 1/64
    ∧ VarSpec.T ((exObs.map Prod.fst).map RF2.val) / ((exObs.length - 1 : ℕ) : ℚ) ≤ 501^2
    ∧ 2 * (exObs.length : ℚ) * Props.C02b.awayRnd.u * 1000 ≤ 501 := by
  refine ⟨rf2FloatOps_valEqb _, by decide, exObs_w, by rw [exObs_W]; norm_num, exObs_x, ?_, ?_, ?_, ?_⟩
  · norm_num [exObs, Props.C02b.awayRnd]
  · norm_num [exObs, Props.C02b.awayRnd]
  · rw [exObs_T]; norm_num [exObs]
  · norm_num [exObs, Props.C02b.awayRnd]

/-- and the conclusions are concrete statements about computations under a rounding that is never exact:
`effective_len` is within `8·4·2^-53·(7/3)` of the exact `(7/2)²/(21/4) = 7/3` and lies in
`[1 - 2^-48, 3·(1 + 2^-48)]` (three observations have positive weight) -/
example : |(exObs.foldl WeightedMeanWithError.addP WeightedMeanWithError.new).effectiveLen.val - 7/3|
      ≤ 8 * 4 * (1/2^53) * (7/3)
    ∧ (exObs.foldl WeightedMeanWithError.addP WeightedMeanWithError.new).effectiveLen.val
      ≤ 3 * (1 + 8 * 4 * (1/2^53)) := by
  have hs : (exObs.length : ℚ) * Props.C02b.awayRnd.u ≤ 1/64 := by
    norm_num [exObs, Props.C02b.awayRnd]
  have h := effective_len_forward_error exObs exObs_w (by rw [exObs_W]; norm_num) hs
  have h' := (effective_len_range exObs exObs_w (by rw [exObs_W]; norm_num) hs).2.1
  have hl : (exObs.length : ℚ) = 4 := by norm_num [exObs]
  have hu : Props.C02b.awayRnd.u = 1/2^53 := rfl
  have hf : (((exObs.filter (fun p => 0 < p.2.val)).length : ℕ) : ℚ) = 3 := by
    have : (exObs.filter (fun p => 0 < p.2.val)).length = 3 := by
      simp [exObs, List.filter]
    rw [this]; norm_num
  have e : (7/2 : ℚ) * (7/2) / (21/4) = 7/3 := by norm_num
  rw [exObs_W, exObs_W2, hl, hu, e] at h
  rw [hl, hu, hf] at h'
  exact ⟨h, h'⟩

/-- a merge tree over the same observations: a nested merge, an empty chunk in the middle, unequal chunk
sizes; `rounds = 5` (the left leaf has three observations: `3 + 1`, plus the root merge) -/
def exTree : MTree (RF2 Props.C02b.awayRnd × RF2 Props.C02b.awayRnd) :=
  .node (.leaf [(⟨1000⟩, ⟨0⟩), (⟨1⟩, ⟨2⟩), (⟨-6⟩, ⟨1⟩)]) (.node (.leaf []) (.leaf [(⟨3⟩, ⟨1/2⟩)]))

theorem exTree_flatten : exTree.flatten = exObs := rfl
theorem exTree_rounds : exTree.rounds = 5 := by decide

/-- the hypotheses of the tree theorems hold for `exTree`, and the conclusion is concrete: through this merge
tree `effective_len` is within `8·5·2^-53·(7/3)` of `7/3` -/
example : |(WeightedMeanWithError.evalTree exTree).effectiveLen.val - 7/3| ≤ 8 * 5 * (1/2^53) * (7/3) := by
  have hs : (exTree.rounds : ℚ) * Props.C02b.awayRnd.u ≤ 1/64 := by
    rw [exTree_rounds]; norm_num [Props.C02b.awayRnd]
  have h := effective_len_mtree_forward_error (rf2FloatOps_valEqb _) exTree
    (by rw [exTree_flatten]; exact exObs_w) (by rw [exTree_flatten, exObs_W]; norm_num) hs
  have hu : Props.C02b.awayRnd.u = 1/2^53 := rfl
  have e : (7/2 : ℚ) * (7/2) / (21/4) = 7/3 := by norm_num
  rw [exTree_flatten, exObs_W, exObs_W2, exTree_rounds, hu, e] at h
  exact_mod_cast h

open Props.C01c (awayRndR awaySqrt) in
/-- the hypotheses of `weighted_error_envelope_kappa` are satisfiable: the same four observations over ℝ
under `awayRndR` with the rounded square root `awaySqrt` (`s² = 751045/3`, so `σ > 500 ≥ 2·4·2^-53·1000`) -/
example :
    let ps : List (RF2 awayRndR × RF2 awayRndR) := [(⟨1000⟩, ⟨0⟩), (⟨1⟩, ⟨2⟩), (⟨-6⟩, ⟨1⟩), (⟨3⟩, ⟨1/2⟩)]
    @SqrtIs awayRndR awaySqrt (rf2SqrtFloatOps awayRndR awaySqrt)
    ∧ @ValEqb ℝ _ _ _ awayRndR (rf2SqrtFloatOps awayRndR awaySqrt)
    ∧ 2 ≤ ps.length ∧ (∀ p ∈ ps, 0 ≤ p.2.val) ∧ 0 < W (pairVals ps) ∧ (∀ p ∈ ps, |p.1.val| ≤ (1000:ℝ))
    ∧ ((ps.length : ℝ) + 28) * awayRndR.u ≤ 1/64
    ∧ 0 < VarSpec.T ((ps.map Prod.fst).map RF2.val) / ((ps.length - 1 : ℕ) : ℝ)
    ∧ 2 * (ps.length : ℝ) * awayRndR.u * 1000
        ≤ Real.sqrt (VarSpec.T ((ps.map Prod.fst).map RF2.val) / ((ps.length - 1 : ℕ) : ℝ)) := by
  intro ps
  have hT : VarSpec.T ((ps.map Prod.fst).map RF2.val) = 751045 := by
    norm_num [ps, VarSpec.T, sumPow, mean]
  have hl : ((ps.length - 1 : ℕ) : ℝ) = 3 := by norm_num [ps]
  refine ⟨rf2SqrtFloatOps_sqrtIs _ _, rf2SqrtFloatOps_valEqb _ _, by simp [ps], ?_, ?_, ?_, ?_, ?_, ?_⟩
  · intro p hp
    simp only [ps, List.mem_cons, List.not_mem_nil, or_false] at hp
    rcases hp with rfl | rfl | rfl | rfl <;> norm_num
  · norm_num [ps, pairVals, W]
  · intro p hp
    simp only [ps, List.mem_cons, List.not_mem_nil, or_false] at hp
    rcases hp with rfl | rfl | rfl | rfl <;> norm_num
  · norm_num [ps, awayRndR]
  · rw [hT, hl]; norm_num
  · rw [hT, hl]
    apply Real.le_sqrt_of_sq_le
    norm_num [ps, awayRndR]

end Props.C08c

#print axioms Props.C08c.running_sum_two_sided
#print axioms Props.C08c.sum_weights_forward_error
#print axioms Props.C08c.sum_weights_sq_forward_error
#print axioms Props.C08c.effective_len_two_sided
#print axioms Props.C08c.effective_len_forward_error
#print axioms Props.C08c.effective_len_exact_range
#print axioms Props.C08c.effective_len_range
#print axioms Props.C08c.inv_effective_len_forward_error
#print axioms Props.C08c.variance_of_weighted_mean_forward_error
#print axioms Props.C08c.variance_of_weighted_mean_envelope
#print axioms Props.C08c.variance_of_weighted_mean_envelope_kappa
#print axioms Props.C08c.variance_of_weighted_mean_nonneg
#print axioms Props.C08c.weighted_error_computed
#print axioms Props.C08c.weighted_error_envelope_kappa
#print axioms Props.C08c.rounds_le
#print axioms Props.C08c.sums_mtree_forward_error
#print axioms Props.C08c.effective_len_mtree_forward_error
#print axioms Props.C08c.effective_len_mtree_range
