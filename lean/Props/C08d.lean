import AvgProofs.WeightedMergeErrVwm
import AvgProofs.WeightedMergeErrLower
import Props.C08b
import Props.C08c
import Props.C02c
import Mathlib.Analysis.Real.Sqrt
import Mathlib.Tactic.NormNum

/-!
# C08 (third addendum) - `WeightedMean` / `WeightedMeanWithError` in floating point THROUGH EVERY MERGE TREE

Carrier **R2** (`RF2 r`, `AvgProofs/MeanErr2.lean`): an ordered field `F` in which every `+ - * /` is followed
by a rounding `r.fl` with `|fl t - t| ≤ u·|t|` (standard model: no overflow, no underflow); counts are
converted exactly. `FloatOps (RF2 r)` is any instance whose `==` compares the values (`ValEqb r`).
Observations are pairs `(x, w)` with `w ≥ 0`. `MTree` is an arbitrary order-preserving binary merge tree over
contiguous chunks (empty chunks, one-element chunks, chunks of total weight zero allowed): every leaf is
folded with `add` from `new`, the summaries are combined with `merge` along the tree.

Notation: `n = t.flatten.length` the number of observations, `e = t.emptyLeaves` the number of EMPTY chunks,
`W = Σw`, `W2 = Σw²`, `E = (Σw)²/Σw²`, `φ = 1/E`, `T = Σ(x - mean)²` of the samples (unweighted, all of
them), `s² = T/(n-1)`.

What the code computes, read off the model (`AvgModel/Weighted.lean`):
* `weight_sum`: a leaf of `k` observations performs `k` rounded additions `fl(Ŵ + w)`; `WeightedMean.merge`
  returns an operand UNCHANGED when the other has stored weight sum `0` (empty chunk, or chunk of total
  weight zero) and otherwise stores `fl(Ŵ_a + Ŵ_b)`. A rounding merge therefore has two operands with at
  least one observation each: **at most `n` roundings on any path, whatever the tree**
  (`sum_weights_mtree_forward_error`: relative error `(1+u)^n - 1 ≤ (64/63)·n·u`; sharper than the constant
  `2` of `Props.C08b`).
* `weight_sum_sq`: a leaf performs `fl(Ŵ2 + fl(w·w))`; `WeightedMeanWithError.merge` stores
  `fl(Ŵ2_a + Ŵ2_b)` ALWAYS - there is no early return for an empty operand. In the standard model
  `fl(a + 0)` need not be `a`, so each merge with an empty chunk may cost a rounding: **at most `n + e + 1`
  roundings** (`sum_weights_sq_mtree_forward_error`), and a bound in `n` alone is FALSE in this model
  (`sum_weights_sq_not_bounded_by_n`: one observation, `k` empty chunks, error `≥ (k+2)·u·w²`). Without
  empty chunks (`e = 0`) the count is that of the add-only stream, `n + 1`. (The depth-type count
  `MTree.rounds` of `Props.C08c.sums_mtree_forward_error` is `≤ n + e + 1`: `MTree.rounds_le_obs_empty`.)
* `effective_len = fl(fl(Ŵ·Ŵ)/Ŵ2)`: `|effective_len - E| ≤ 8·(n+e)·u·E`.
* `weighted_mean`: `Props.C08b.wmwe_weighted_mean_mtree_forward_error`, `|weighted_mean - Σwx/Σw| ≤ 8·n·u·M`,
  restated here (`weighted_mean_mtree_forward_error`).
* the inner `Variance` (`unweighted_avg`) of a `WeightedMeanWithError` tree evaluation is BIT FOR BIT, on any
  carrier, the `Variance` evaluation of the same tree over the samples (`inner_variance_mtree`), so
  `Props.C02c.sample_variance_mtree_forward_error` applies to `sample_variance`;
* `variance_of_weighted_mean = fl(sample_variance · fl(Ŵ2/fl(Ŵ·Ŵ)))`:
  `|vwm - s²·φ| ≤ ((14·n + 9·(n+e))·u·s² + 40·n·u·M·σ + 105·n²·u²·M²)·φ` for `(n+e)·u ≤ 1/64`
  (`variance_of_weighted_mean_mtree_forward_error`; add-only stream, `Props.C08c`: `16, 9, 9` - the larger
  numerals are those of the variance merge bound of `Props.C02c`: `12, 35, 92`);
  `≤ (23·(n+e) + 93·n·M/σ)·u·V`, `V = s²·φ`, when `2·n·u·M ≤ σ = √(s²)`;
* `error = sqrtfl(vwm)`: `|error - √V| ≤ (24·(n+e) + 94·n·M/σ)·u·√V` (`weighted_error_mtree_envelope`).
-/
open Avg MSpec

namespace Props.C08d

/-! ## any carrier: the components of a `WeightedMeanWithError` tree evaluation -/

section any
variable {α : Type} [Add α] [Sub α] [Mul α] [Div α] [NatCast α] [FloatOps α]

/-- **Bit for bit, any carrier.** After any merge tree over pairs `(x, w)`: the `WeightedMean` inside
`WeightedMeanWithError` is the `WeightedMean` evaluation of the same tree, and the inner `Variance`
(`MeanWithError`) is the `Variance` evaluation of the same tree (same shape, same chunks) over the samples
alone - whose data are the samples in their original order. -/
theorem inner_variance_mtree (t : MTree (α × α)) :
    (WeightedMeanWithError.evalTree t).weighted_avg = WeightedMean.evalTree t
    ∧ (WeightedMeanWithError.evalTree t).unweighted_avg = Variance.evalTree (t.map Prod.fst)
    ∧ (t.map Prod.fst).flatten = t.flatten.map Prod.fst
    ∧ (t.map Prod.fst).emptyLeaves = t.emptyLeaves :=
  ⟨WeightedMeanWithError.mtree_weighted_avg t, WeightedMeanWithError.mtree_unweighted_avg t,
    MTree.flatten_map _ _, MTree.emptyLeaves_map _ _⟩

/-- Hence `len`, `is_empty`, `unweighted_mean`, `population_variance`, `sample_variance` of a
`WeightedMeanWithError` after any merge tree are those of `Variance` after the same tree over the samples:
the theorems of `Props.C02b` / `Props.C02c` apply verbatim. -/
theorem inner_statistics_mtree (t : MTree (α × α)) :
    (WeightedMeanWithError.evalTree t).len = (Variance.evalTree (t.map Prod.fst)).len
    ∧ (WeightedMeanWithError.evalTree t).isEmpty = (Variance.evalTree (t.map Prod.fst)).isEmpty
    ∧ (WeightedMeanWithError.evalTree t).unweightedMean = (Variance.evalTree (t.map Prod.fst)).mean
    ∧ (WeightedMeanWithError.evalTree t).populationVariance
        = (Variance.evalTree (t.map Prod.fst)).populationVariance
    ∧ (WeightedMeanWithError.evalTree t).sampleVariance
        = (Variance.evalTree (t.map Prod.fst)).sampleVariance := by
  have h := WeightedMeanWithError.mtree_unweighted_avg t
  refine ⟨?_, ?_, ?_, ?_, ?_⟩
  · show (WeightedMeanWithError.evalTree t).unweighted_avg.len = _; rw [h]
  · show (WeightedMeanWithError.evalTree t).unweighted_avg.isEmpty = _; rw [h]
  · show (WeightedMeanWithError.evalTree t).unweighted_avg.mean = _; rw [h]
  · show (WeightedMeanWithError.evalTree t).unweighted_avg.populationVariance = _; rw [h]
  · show (WeightedMeanWithError.evalTree t).unweighted_avg.sampleVariance = _; rw [h]

end any

variable {F : Type} [Field F] [LinearOrder F] [IsStrictOrderedRing F] {r : Rnd2 F}

/-! ## the measure of `sum_weights_sq` -/

/-- Every tree has a chunk, empty or not: `1 ≤ n + e`; and the depth-type count `rounds` of `Props.C08c` is at
most `n + e + 1` (`n + 1` for a tree without empty chunks). -/
theorem rounds_le_obs_empty {β : Type} (t : MTree β) :
    1 ≤ t.flatten.length + t.emptyLeaves ∧ t.rounds ≤ t.flatten.length + t.emptyLeaves + 1
    ∧ (t.emptyLeaves = 0 → t.rounds ≤ t.flatten.length + 1) :=
  ⟨t.one_le_length_add_emptyLeaves, t.rounds_le_obs_empty, t.rounds_le_of_no_empty⟩

section sums
variable [FloatOps (RF2 r)]

/-! ## `sum_weights` -/

/-- **`sum_weights` of `WeightedMean`, every merge tree.** Weights `≥ 0`, `n·u ≤ 1/64`, any tree shape, any
chunking (empty chunks and chunks of total weight zero included):
`(1-u)^n·Σw ≤ sum_weights ≤ (1+u)^n·Σw`, hence
`|sum_weights - Σw| ≤ ((1+u)^n - 1)·Σw ≤ (64/63)·n·u·Σw`. No cancellation: the bound is relative. -/
theorem sum_weights_mtree_forward_error (heq : ValEqb r) (t : MTree (RF2 r × RF2 r))
    (hw : ∀ p ∈ t.flatten, 0 ≤ p.2.val) (hsmall : (t.flatten.length : F) * r.u ≤ 1/64) :
    MB ((1 - r.u)^t.flatten.length) ((1 + r.u)^t.flatten.length)
      (WeightedMean.evalTree t).sumWeights.val (W (pairVals t.flatten)) ∧
    |(WeightedMean.evalTree t).sumWeights.val - W (pairVals t.flatten)|
      ≤ ((1 + r.u)^t.flatten.length - 1) * W (pairVals t.flatten) ∧
    |(WeightedMean.evalTree t).sumWeights.val - W (pairVals t.flatten)|
      ≤ 64/63 * t.flatten.length * r.u * W (pairVals t.flatten) := by
  have hu0 := r.u_nonneg
  have hn0 : (0:F) ≤ (t.flatten.length : F) := Nat.cast_nonneg _
  show MB _ _ (WeightedMean.evalTree t).weight_sum.val _ ∧
    |(WeightedMean.evalTree t).weight_sum.val - _| ≤ _ ∧
    |(WeightedMean.evalTree t).weight_sum.val - _| ≤ _
  by_cases hnil : t.flatten = []
  · have e1 : (WeightedMean.evalTree t).weight_sum.val = 0 :=
      (Props.C08b.weighted_total_weight_zero heq t (by rw [hnil]; intro p hp; simp at hp) hsmall).1
    have e2 : W (pairVals t.flatten) = 0 := by rw [hnil]; simp [pairVals]
    rw [e1, e2]
    exact ⟨MB.zero _ _, by simp, by simp⟩
  have hn1 : (1:F) ≤ (t.flatten.length : F) := by exact_mod_cast List.length_pos_of_ne_nil hnil
  have hu1 : r.u < 1 := by nlinarith
  obtain ⟨hW0, hMB⟩ := WMergeErr.tree_wsum_MB heq hu1 t hw
  have h1 := hMB.abs_sub_le_pow hu0 hu1.le hW0
  refine ⟨hMB, h1, le_trans h1 ?_⟩
  have hlt : (t.flatten.length : F) * r.u < 1 := by linarith
  have h2 := pow_one_add_sub_one_le r.u hu0 t.flatten.length hlt
  have h3 : (t.flatten.length : F) * r.u / (1 - (t.flatten.length : F) * r.u)
      ≤ 64/63 * ((t.flatten.length : F) * r.u) := by
    rw [div_le_iff₀ (by linarith)]
    nlinarith [mul_nonneg hn0 hu0]
  calc ((1 + r.u)^t.flatten.length - 1) * W (pairVals t.flatten)
      ≤ (64/63 * ((t.flatten.length : F) * r.u)) * W (pairVals t.flatten) := by gcongr; linarith
    _ = _ := by ring

/-- **`sum_weights` of `WeightedMeanWithError`, every merge tree**: the same accumulator, the same bound
`|sum_weights - Σw| ≤ ((1+u)^n - 1)·Σw ≤ (64/63)·n·u·Σw`. -/
theorem wmwe_sum_weights_mtree_forward_error (heq : ValEqb r) (t : MTree (RF2 r × RF2 r))
    (hw : ∀ p ∈ t.flatten, 0 ≤ p.2.val) (hsmall : (t.flatten.length : F) * r.u ≤ 1/64) :
    MB ((1 - r.u)^t.flatten.length) ((1 + r.u)^t.flatten.length)
      (WeightedMeanWithError.evalTree t).sumWeights.val (W (pairVals t.flatten)) ∧
    |(WeightedMeanWithError.evalTree t).sumWeights.val - W (pairVals t.flatten)|
      ≤ ((1 + r.u)^t.flatten.length - 1) * W (pairVals t.flatten) ∧
    |(WeightedMeanWithError.evalTree t).sumWeights.val - W (pairVals t.flatten)|
      ≤ 64/63 * t.flatten.length * r.u * W (pairVals t.flatten) := by
  unfold WeightedMeanWithError.sumWeights
  rw [WeightedMeanWithError.mtree_weighted_avg]
  exact sum_weights_mtree_forward_error heq t hw hsmall

/-! ## `sum_weights_sq` -/

/-- **`sum_weights_sq`, every merge tree.** Weights `≥ 0`, `n` observations, `e` empty chunks,
`(n+e)·u ≤ 1/64`: `(1-u)^(n+e+1)·Σw² ≤ sum_weights_sq ≤ (1+u)^(n+e+1)·Σw²`, hence
`|sum_weights_sq - Σw²| ≤ ((1+u)^(n+e+1) - 1)·Σw² ≤ (32/31)·(n+e+1)·u·Σw² ≤ (64/31)·(n+e)·u·Σw²`.
(For `e = 0` these are the numbers of the add-only stream, `Props.C08c.sum_weights_sq_forward_error`.) -/
theorem sum_weights_sq_mtree_forward_error (heq : ValEqb r) (t : MTree (RF2 r × RF2 r))
    (hw : ∀ p ∈ t.flatten, 0 ≤ p.2.val)
    (hsmall : ((t.flatten.length : F) + (t.emptyLeaves : F)) * r.u ≤ 1/64) :
    MB ((1 - r.u)^(t.flatten.length + t.emptyLeaves + 1)) ((1 + r.u)^(t.flatten.length + t.emptyLeaves + 1))
      (WeightedMeanWithError.evalTree t).sumWeightsSq.val (W2 (pairVals t.flatten)) ∧
    |(WeightedMeanWithError.evalTree t).sumWeightsSq.val - W2 (pairVals t.flatten)|
      ≤ ((1 + r.u)^(t.flatten.length + t.emptyLeaves + 1) - 1) * W2 (pairVals t.flatten) ∧
    |(WeightedMeanWithError.evalTree t).sumWeightsSq.val - W2 (pairVals t.flatten)|
      ≤ 32/31 * ((t.flatten.length : F) + (t.emptyLeaves : F) + 1) * r.u * W2 (pairVals t.flatten) ∧
    |(WeightedMeanWithError.evalTree t).sumWeightsSq.val - W2 (pairVals t.flatten)|
      ≤ 64/31 * ((t.flatten.length : F) + (t.emptyLeaves : F)) * r.u * W2 (pairVals t.flatten) := by
  have hu0 := r.u_nonneg
  have hN1 : (1:F) ≤ (t.flatten.length : F) + (t.emptyLeaves : F) := by
    exact_mod_cast t.one_le_length_add_emptyLeaves
  have hu1 : r.u < 1 := by nlinarith
  obtain ⟨hW0, hMB⟩ := WMergeErr.tree_wsumsq_MB heq hu1 t hw
  unfold WeightedMeanWithError.sumWeightsSq
  have h1 := hMB.abs_sub_le_pow hu0 hu1.le hW0
  have hcast : ((t.flatten.length + t.emptyLeaves + 1 : ℕ) : F)
      = (t.flatten.length : F) + (t.emptyLeaves : F) + 1 := by push_cast; ring
  have hm : ((t.flatten.length + t.emptyLeaves + 1 : ℕ) : F) * r.u ≤ 1/32 := by rw [hcast]; nlinarith
  have h2 := pow_one_add_sub_one_le r.u hu0 (t.flatten.length + t.emptyLeaves + 1) (by linarith)
  have hm0 : 0 ≤ ((t.flatten.length + t.emptyLeaves + 1 : ℕ) : F) * r.u :=
    mul_nonneg (Nat.cast_nonneg _) hu0
  have h3 : ((t.flatten.length + t.emptyLeaves + 1 : ℕ) : F) * r.u
        / (1 - ((t.flatten.length + t.emptyLeaves + 1 : ℕ) : F) * r.u)
      ≤ 32/31 * (((t.flatten.length + t.emptyLeaves + 1 : ℕ) : F) * r.u) := by
    rw [div_le_iff₀ (by linarith)]
    nlinarith
  have h4 : |(WeightedMeanWithError.evalTree t).weight_sum_sq.val - W2 (pairVals t.flatten)|
      ≤ 32/31 * ((t.flatten.length : F) + (t.emptyLeaves : F) + 1) * r.u * W2 (pairVals t.flatten) := by
    refine le_trans h1 ?_
    calc ((1 + r.u)^(t.flatten.length + t.emptyLeaves + 1) - 1) * W2 (pairVals t.flatten)
        ≤ (32/31 * (((t.flatten.length + t.emptyLeaves + 1 : ℕ) : F) * r.u)) * W2 (pairVals t.flatten) := by
          gcongr; linarith
      _ = _ := by rw [hcast]; ring
  refine ⟨hMB, h1, h4, le_trans h4 ?_⟩
  have : 32/31 * ((t.flatten.length : F) + (t.emptyLeaves : F) + 1) * r.u
      ≤ 64/31 * ((t.flatten.length : F) + (t.emptyLeaves : F)) * r.u := by nlinarith
  exact mul_le_mul_of_nonneg_right this hW0

/-! ## `effective_len` -/

/-- **`effective_len`, every merge tree, two-sided.** Weights `≥ 0`, `Σw > 0`, `u < 1`; `E = (Σw)²/Σw²`:
`(1-u)^(2n+2)/(1+u)^(n+e+1)·E ≤ effective_len ≤ (1+u)^(2n+2)/(1-u)^(n+e+1)·E`. -/
theorem effective_len_mtree_two_sided (heq : ValEqb r) (hu1 : r.u < 1) (t : MTree (RF2 r × RF2 r))
    (hw : ∀ p ∈ t.flatten, 0 ≤ p.2.val) (hpos : 0 < W (pairVals t.flatten)) :
    MB ((1 - r.u)^(2 * t.flatten.length + 2) / (1 + r.u)^(t.flatten.length + t.emptyLeaves + 1))
       ((1 + r.u)^(2 * t.flatten.length + 2) / (1 - r.u)^(t.flatten.length + t.emptyLeaves + 1))
       (WeightedMeanWithError.evalTree t).effectiveLen.val
       (W (pairVals t.flatten) * W (pairVals t.flatten) / W2 (pairVals t.flatten)) :=
  WMergeErr.efflen_tree_MB_n heq hu1 t hw hpos

/-- **`effective_len`, every merge tree.** Weights `≥ 0`, `Σw > 0`, `n` observations, `e` empty chunks,
`(n+e)·u ≤ 1/64`:  `|effective_len - (Σw)²/Σw²| ≤ 8·(n+e)·u·(Σw)²/Σw²`
(`e = 0`: the constant `8·n·u` of the add-only stream). -/
theorem effective_len_mtree_forward_error (heq : ValEqb r) (t : MTree (RF2 r × RF2 r))
    (hw : ∀ p ∈ t.flatten, 0 ≤ p.2.val) (hpos : 0 < W (pairVals t.flatten))
    (hsmall : ((t.flatten.length : F) + (t.emptyLeaves : F)) * r.u ≤ 1/64) :
    |(WeightedMeanWithError.evalTree t).effectiveLen.val
        - W (pairVals t.flatten) * W (pairVals t.flatten) / W2 (pairVals t.flatten)|
      ≤ 8 * ((t.flatten.length : F) + (t.emptyLeaves : F)) * r.u
          * (W (pairVals t.flatten) * W (pairVals t.flatten) / W2 (pairVals t.flatten)) := by
  have hu0 := r.u_nonneg
  have hn1 := Props.C08c.length_pos_of_W_pos t.flatten hpos
  have he0 : (0:F) ≤ (t.emptyLeaves : F) := Nat.cast_nonneg _
  have hu1 : r.u < 1 := by nlinarith
  have hE0 : 0 ≤ W (pairVals t.flatten) * W (pairVals t.flatten) / W2 (pairVals t.flatten) :=
    div_nonneg (mul_nonneg hpos.le hpos.le) (W2_nonneg _)
  have hrat := ratio_within_8 r.u (((t.flatten.length : F) + (t.emptyLeaves : F)) * r.u) hu0 hu1.le
    (2 * t.flatten.length + 2) (t.flatten.length + t.emptyLeaves + 1)
    (by push_cast; nlinarith) (by linarith)
  have := (WMergeErr.efflen_tree_MB_n heq hu1 t hw hpos).abs_sub_le hE0
    (ε := 8 * (((t.flatten.length : F) + (t.emptyLeaves : F)) * r.u)) hrat.1 hrat.2
  calc _ ≤ _ := this
    _ = _ := by ring

/-- **`effective_len ∈ [1, len]` up to rounding, every merge tree (the clause of C17).**
`1 - 8·(n+e)·u ≤ effective_len ≤ n·(1 + 8·(n+e)·u)`. -/
theorem effective_len_mtree_range (heq : ValEqb r) (t : MTree (RF2 r × RF2 r))
    (hw : ∀ p ∈ t.flatten, 0 ≤ p.2.val) (hpos : 0 < W (pairVals t.flatten))
    (hsmall : ((t.flatten.length : F) + (t.emptyLeaves : F)) * r.u ≤ 1/64) :
    1 - 8 * ((t.flatten.length : F) + (t.emptyLeaves : F)) * r.u
      ≤ (WeightedMeanWithError.evalTree t).effectiveLen.val
    ∧ (WeightedMeanWithError.evalTree t).effectiveLen.val
        ≤ (t.flatten.length : F) * (1 + 8 * ((t.flatten.length : F) + (t.emptyLeaves : F)) * r.u) := by
  have hu0 := r.u_nonneg
  have hN0 : (0:F) ≤ (t.flatten.length : F) + (t.emptyLeaves : F) :=
    add_nonneg (Nat.cast_nonneg _) (Nat.cast_nonneg _)
  obtain ⟨b1, b2, b3⟩ := Props.C08c.effective_len_exact_range t.flatten hw hpos
  have b3' : (((t.flatten.filter (fun p => 0 < p.2.val)).length : ℕ) : F) ≤ (t.flatten.length : F) := by
    exact_mod_cast b3
  have h := abs_le.mp (effective_len_mtree_forward_error heq t hw hpos hsmall)
  have hx : 0 ≤ 8 * ((t.flatten.length : F) + (t.emptyLeaves : F)) * r.u := by positivity
  have hx1 : 8 * ((t.flatten.length : F) + (t.emptyLeaves : F)) * r.u ≤ 1 := by linarith
  set E := W (pairVals t.flatten) * W (pairVals t.flatten) / W2 (pairVals t.flatten) with hE
  constructor
  · calc 1 - 8 * ((t.flatten.length : F) + (t.emptyLeaves : F)) * r.u
        ≤ E * (1 - 8 * ((t.flatten.length : F) + (t.emptyLeaves : F)) * r.u) := by nlinarith
      _ ≤ _ := by linarith [h.1]
  · calc _ ≤ E * (1 + 8 * ((t.flatten.length : F) + (t.emptyLeaves : F)) * r.u) := by linarith [h.2]
      _ ≤ _ := by gcongr; exact le_trans b2 b3'

/-! ## `weighted_mean` -/

/-- **`weighted_mean`, every merge tree** (proved in `Props.C08b`; restated). Observations `(x, w)` with
`w ≥ 0` and `|x| ≤ M` where `w > 0` (the sample of a zero-weight observation is unrestricted: `add` does not
touch the average while the running weight sum is zero, and adds `fl(fl(0/Ŵ)·fl(x - avg)) = 0` afterwards; `merge` returns
the other operand when a chunk has stored weight sum zero), positive total weight, `n·u ≤ 1/64`:
`|weighted_mean - Σwx/Σw| ≤ 8·u·M·n`, for `WeightedMeanWithError` and for `WeightedMean`. -/
theorem weighted_mean_mtree_forward_error (heq : ValEqb r) {M : F} (hM : 0 ≤ M)
    (t : MTree (RF2 r × RF2 r)) (hobs : ∀ p ∈ t.flatten, WObs M (p.1.val, p.2.val))
    (hsmall : (t.flatten.length : F) * r.u ≤ 1/64) (hpos : 0 < W (pairVals t.flatten)) :
    |(WeightedMeanWithError.evalTree t).weightedMean.val
        - WX (pairVals t.flatten) / W (pairVals t.flatten)| ≤ 8 * r.u * M * (t.flatten.length : F) ∧
    |(WeightedMean.evalTree t).mean.val
        - WX (pairVals t.flatten) / W (pairVals t.flatten)| ≤ 8 * r.u * M * (t.flatten.length : F) :=
  ⟨(Props.C08b.wmwe_weighted_mean_mtree_forward_error heq hM t hobs hsmall hpos).1,
    (Props.C08b.weighted_mean_mtree_forward_error heq hM t hobs hsmall hpos).1⟩

/-! ## `variance_of_weighted_mean` -/

/-- **`sample_variance` of `WeightedMeanWithError`, every merge tree** - `Props.C02c` imported through
`inner_variance_mtree`. `n ≥ 2` observations, `|x| ≤ M` for ALL samples (the unweighted estimator sees the
zero-weight observations too), `n·u ≤ 1/64`, `s² = T/(n-1)`, any `σ ≥ 0` with `s² ≤ σ²`:
`|sample_variance - s²| ≤ 12·n·u·s² + 35·n·u·M·σ + 92·n²·u²·M²`. No hypothesis on the weights. -/
theorem sample_variance_mtree_forward_error (M : F) (hM : 0 ≤ M) (t : MTree (RF2 r × RF2 r))
    (h2 : 2 ≤ t.flatten.length) (hb : ∀ p ∈ t.flatten, |p.1.val| ≤ M)
    (hsmall : (t.flatten.length : F) * r.u ≤ 1/64) (σ : F) (hσ : 0 ≤ σ)
    (hvar : VarSpec.T ((t.flatten.map Prod.fst).map RF2.val) / ((t.flatten.length - 1 : ℕ) : F) ≤ σ^2) :
    |(WeightedMeanWithError.evalTree t).sampleVariance.val
        - VarSpec.T ((t.flatten.map Prod.fst).map RF2.val) / ((t.flatten.length - 1 : ℕ) : F)|
      ≤ 12 * (t.flatten.length : F) * r.u
            * (VarSpec.T ((t.flatten.map Prod.fst).map RF2.val) / ((t.flatten.length - 1 : ℕ) : F))
        + 35 * (t.flatten.length : F) * r.u * M * σ + 92 * (t.flatten.length : F)^2 * r.u^2 * M^2 := by
  have hfl : (t.map Prod.fst).flatten = t.flatten.map Prod.fst := MTree.flatten_map _ _
  have hb' : ∀ x ∈ (t.map Prod.fst).flatten, |x.val| ≤ M := by
    intro x hx
    rw [hfl, List.mem_map] at hx
    obtain ⟨p, hp, rfl⟩ := hx
    exact hb p hp
  have hsv := (Props.C02c.sample_variance_mtree_forward_error M hM (t.map Prod.fst)
    (by rw [hfl, List.length_map]; exact h2) hb' (by rw [hfl, List.length_map]; exact hsmall) σ hσ
    (by rw [hfl, List.length_map]; exact hvar)).2
  rw [hfl, List.length_map] at hsv
  rw [(inner_statistics_mtree t).2.2.2.2]
  exact hsv

/-- What `variance_of_weighted_mean` computes after a merge tree whose stored weight sum is not zero:
`fl(sample_variance · fl(Ŵ2/fl(Ŵ·Ŵ)))`; and it is `≥ 0` (weights `≥ 0`, `Σw > 0`, `n ≥ 2`, `u < 1`, any
samples), so `error` takes the root of a non-negative number. -/
theorem variance_of_weighted_mean_mtree_computed (heq : ValEqb r) (hu1 : r.u < 1)
    (t : MTree (RF2 r × RF2 r)) (h2 : 2 ≤ t.flatten.length) (hw : ∀ p ∈ t.flatten, 0 ≤ p.2.val)
    (hpos : 0 < W (pairVals t.flatten)) :
    (WeightedMeanWithError.evalTree t).varianceOfWeightedMean.val
      = r.fl ((Variance.evalTree (t.map Prod.fst)).sampleVariance.val
          * r.fl ((WeightedMeanWithError.evalTree t).weight_sum_sq.val
              / r.fl ((WeightedMean.evalTree t).weight_sum.val
                    * (WeightedMean.evalTree t).weight_sum.val)))
    ∧ 0 ≤ (WeightedMeanWithError.evalTree t).varianceOfWeightedMean.val := by
  obtain ⟨_, hW⟩ := WMergeErr.tree_wsum_MB heq hu1 t hw
  have hŴpos := hW.pos (pow_pos (by linarith) _) hpos
  exact ⟨WMergeErr.vwm_tree_val heq t hŴpos.ne', WMergeErr.vwm_tree_nonneg heq hu1 t h2 hw hpos⟩

/-- **`variance_of_weighted_mean`, every merge tree.** `n ≥ 2` observations `(x, w)` with `w ≥ 0`, `Σw > 0`,
`|x| ≤ M` for all samples, `e` empty chunks, `(n+e)·u ≤ 1/64`; `s² = T/(n-1)` the exact sample variance of the
samples, any `σ ≥ 0` with `s² ≤ σ²`, `φ = Σw²/(Σw)²`:
`|variance_of_weighted_mean - s²·φ| ≤ ((14·n + 9·(n+e))·u·s² + 40·n·u·M·σ + 105·n²·u²·M²)·φ`. -/
theorem variance_of_weighted_mean_mtree_forward_error (heq : ValEqb r) (M : F) (hM : 0 ≤ M)
    (t : MTree (RF2 r × RF2 r)) (h2 : 2 ≤ t.flatten.length) (hw : ∀ p ∈ t.flatten, 0 ≤ p.2.val)
    (hpos : 0 < W (pairVals t.flatten)) (hb : ∀ p ∈ t.flatten, |p.1.val| ≤ M)
    (hsmall : ((t.flatten.length : F) + (t.emptyLeaves : F)) * r.u ≤ 1/64) (σ : F) (hσ : 0 ≤ σ)
    (hvar : VarSpec.T ((t.flatten.map Prod.fst).map RF2.val) / ((t.flatten.length - 1 : ℕ) : F) ≤ σ^2) :
    |(WeightedMeanWithError.evalTree t).varianceOfWeightedMean.val
        - VarSpec.T ((t.flatten.map Prod.fst).map RF2.val) / ((t.flatten.length - 1 : ℕ) : F)
            * (W2 (pairVals t.flatten) / (W (pairVals t.flatten) * W (pairVals t.flatten)))|
      ≤ ((14 * (t.flatten.length : F) + 9 * ((t.flatten.length : F) + (t.emptyLeaves : F))) * r.u
            * (VarSpec.T ((t.flatten.map Prod.fst).map RF2.val) / ((t.flatten.length - 1 : ℕ) : F))
          + 40 * (t.flatten.length : F) * r.u * M * σ + 105 * (t.flatten.length : F)^2 * r.u^2 * M^2)
        * (W2 (pairVals t.flatten) / (W (pairVals t.flatten) * W (pairVals t.flatten))) :=
  WMergeErr.vwm_tree_error heq M hM t h2 hw hpos hb hsmall σ hσ hvar

/-- **Relative to `s² + M·σ`.** If moreover `2·n·u·M ≤ σ`:
`|variance_of_weighted_mean - s²·φ| ≤ (23·(n+e)·u·s² + 93·n·u·M·σ)·φ`. -/
theorem variance_of_weighted_mean_mtree_envelope (heq : ValEqb r) (M : F) (hM : 0 ≤ M)
    (t : MTree (RF2 r × RF2 r)) (h2 : 2 ≤ t.flatten.length) (hw : ∀ p ∈ t.flatten, 0 ≤ p.2.val)
    (hpos : 0 < W (pairVals t.flatten)) (hb : ∀ p ∈ t.flatten, |p.1.val| ≤ M)
    (hsmall : ((t.flatten.length : F) + (t.emptyLeaves : F)) * r.u ≤ 1/64) (σ : F) (hσ : 0 ≤ σ)
    (hvar : VarSpec.T ((t.flatten.map Prod.fst).map RF2.val) / ((t.flatten.length - 1 : ℕ) : F) ≤ σ^2)
    (hcond : 2 * (t.flatten.length : F) * r.u * M ≤ σ) :
    |(WeightedMeanWithError.evalTree t).varianceOfWeightedMean.val
        - VarSpec.T ((t.flatten.map Prod.fst).map RF2.val) / ((t.flatten.length - 1 : ℕ) : F)
            * (W2 (pairVals t.flatten) / (W (pairVals t.flatten) * W (pairVals t.flatten)))|
      ≤ (23 * ((t.flatten.length : F) + (t.emptyLeaves : F)) * r.u
            * (VarSpec.T ((t.flatten.map Prod.fst).map RF2.val) / ((t.flatten.length - 1 : ℕ) : F))
          + 93 * (t.flatten.length : F) * r.u * M * σ)
        * (W2 (pairVals t.flatten) / (W (pairVals t.flatten) * W (pairVals t.flatten))) :=
  WMergeErr.vwm_tree_envelope heq M hM t h2 hw hpos hb hsmall σ hσ hvar hcond

end sums

/-! ## `variance_of_weighted_mean` relative to its exact value, and `error()`, over ℝ -/

section sqrt
variable {r : Rnd2 ℝ} [FloatOps (RF2 r)]

/-- **`variance_of_weighted_mean` and `error()` through every merge tree, relative form.** Over ℝ with a
correctly rounded square root (`RndSqrt`, `SqrtIs`): `n ≥ 2` observations `(x, w)`, `w ≥ 0`, `Σw > 0`,
`|x| ≤ M`, `e` empty chunks, `(n+e)·u ≤ 1/64`, `s² = T/(n-1) > 0`, `σ = √(s²)`, `2·n·u·M ≤ σ`;
`V = s²·Σw²/(Σw)²` the exact value:
`|variance_of_weighted_mean - V| ≤ (23·(n+e) + 93·n·M/σ)·u·V` and
`|error - √V| ≤ (24·(n+e) + 94·n·M/σ)·u·√V`. -/
theorem weighted_error_mtree_envelope (q : RndSqrt r) (hs : SqrtIs q) (heq : ValEqb r) (M : ℝ) (hM : 0 ≤ M)
    (t : MTree (RF2 r × RF2 r)) (h2 : 2 ≤ t.flatten.length) (hw : ∀ p ∈ t.flatten, 0 ≤ p.2.val)
    (hpos : 0 < W (pairVals t.flatten)) (hb : ∀ p ∈ t.flatten, |p.1.val| ≤ M)
    (hsmall : ((t.flatten.length : ℝ) + (t.emptyLeaves : ℝ)) * r.u ≤ 1/64)
    (hs2 : 0 < VarSpec.T ((t.flatten.map Prod.fst).map RF2.val) / ((t.flatten.length - 1 : ℕ) : ℝ))
    (hcond : 2 * (t.flatten.length : ℝ) * r.u * M
      ≤ Real.sqrt (VarSpec.T ((t.flatten.map Prod.fst).map RF2.val) / ((t.flatten.length - 1 : ℕ) : ℝ))) :
    |(WeightedMeanWithError.evalTree t).varianceOfWeightedMean.val
        - VarSpec.T ((t.flatten.map Prod.fst).map RF2.val) / ((t.flatten.length - 1 : ℕ) : ℝ)
            * (W2 (pairVals t.flatten) / (W (pairVals t.flatten) * W (pairVals t.flatten)))|
      ≤ (23 * ((t.flatten.length : ℝ) + (t.emptyLeaves : ℝ)) + 93 * (t.flatten.length : ℝ)
            * (M / Real.sqrt (VarSpec.T ((t.flatten.map Prod.fst).map RF2.val)
                / ((t.flatten.length - 1 : ℕ) : ℝ))))
          * r.u
          * (VarSpec.T ((t.flatten.map Prod.fst).map RF2.val) / ((t.flatten.length - 1 : ℕ) : ℝ)
            * (W2 (pairVals t.flatten) / (W (pairVals t.flatten) * W (pairVals t.flatten))))
    ∧ |(WeightedMeanWithError.evalTree t).error.val
        - Real.sqrt (VarSpec.T ((t.flatten.map Prod.fst).map RF2.val) / ((t.flatten.length - 1 : ℕ) : ℝ)
            * (W2 (pairVals t.flatten) / (W (pairVals t.flatten) * W (pairVals t.flatten))))|
      ≤ (24 * ((t.flatten.length : ℝ) + (t.emptyLeaves : ℝ)) + 94 * (t.flatten.length : ℝ)
            * (M / Real.sqrt (VarSpec.T ((t.flatten.map Prod.fst).map RF2.val)
                / ((t.flatten.length - 1 : ℕ) : ℝ))))
          * r.u
          * Real.sqrt (VarSpec.T ((t.flatten.map Prod.fst).map RF2.val) / ((t.flatten.length - 1 : ℕ) : ℝ)
              * (W2 (pairVals t.flatten) / (W (pairVals t.flatten) * W (pairVals t.flatten)))) :=
  WMergeErr.wmwe_tree_error_envelope q hs heq M hM t h2 hw hpos hb hsmall hs2 hcond

end sqrt

/-! ## a bound of `sum_weights_sq` in `n` alone is false in the standard model -/

/-- the comparisons of the values: an instance with `ValEqb` -/
local instance : FloatOps (RF2 Props.C02b.awayRnd) := rf2FloatOps Props.C02b.awayRnd

/-- **The empty chunks cannot be dropped from the bound of `sum_weights_sq`** (standard model of rounding).
Under the rounding `awayRnd` (`fl t = t·(1 + 2^-53)`, never exact) for every constant `C` there is a merge
tree over ONE observation `(5, 3)` - merged with `k` empty chunks one after the other - that meets every
hypothesis of `sum_weights_sq_mtree_forward_error` except that `e = k` is large, with
`|sum_weights_sq - Σw²| > C·n·u·Σw²`. (Each `merge` computes `fl(Ŵ2 + 0)`, which the standard model allows
to differ from `Ŵ2`. IEEE addition of `0` is exact, so no implementation exhibits this; it is the model that
cannot prove better.) -/
theorem sum_weights_sq_not_bounded_by_n (C : ℚ) :
    ∃ t : MTree (RF2 Props.C02b.awayRnd × RF2 Props.C02b.awayRnd),
      t.flatten.length = 1 ∧ (∀ p ∈ t.flatten, 0 ≤ p.2.val) ∧ 0 < W (pairVals t.flatten)
      ∧ (t.flatten.length : ℚ) * Props.C02b.awayRnd.u ≤ 1/64
      ∧ C * (t.flatten.length : ℚ) * Props.C02b.awayRnd.u * W2 (pairVals t.flatten)
          < |(WeightedMeanWithError.evalTree t).sumWeightsSq.val - W2 (pairVals t.flatten)| := by
  obtain ⟨k, hk⟩ := exists_nat_gt C
  have hfl : ∀ t : ℚ, Props.C02b.awayRnd.fl t = t * (1 + Props.C02b.awayRnd.u) := fun _ => rfl
  have hu : Props.C02b.awayRnd.u = 1/2^53 := rfl
  refine ⟨WMergeErr.emptyChain (⟨5⟩, ⟨3⟩) k, ?_, ?_, ?_, ?_, ?_⟩
  · rw [WMergeErr.emptyChain_flatten]; rfl
  · rw [WMergeErr.emptyChain_flatten]; intro p hp
    simp only [List.mem_cons, List.not_mem_nil, or_false] at hp
    subst hp; norm_num
  · rw [WMergeErr.emptyChain_flatten]; norm_num [pairVals]
  · rw [WMergeErr.emptyChain_flatten, hu]; norm_num
  · have h := WMergeErr.emptyChain_wsumsq_err hfl ((⟨5⟩, ⟨3⟩) : RF2 Props.C02b.awayRnd × _) k
    have hW2 : W2 (pairVals (WMergeErr.emptyChain
        ((⟨5⟩, ⟨3⟩) : RF2 Props.C02b.awayRnd × RF2 Props.C02b.awayRnd) k).flatten) = 9 := by
      rw [WMergeErr.emptyChain_flatten]; norm_num [pairVals]
    have hlen : ((WMergeErr.emptyChain
        ((⟨5⟩, ⟨3⟩) : RF2 Props.C02b.awayRnd × RF2 Props.C02b.awayRnd) k).flatten.length : ℚ) = 1 := by
      rw [WMergeErr.emptyChain_flatten]; norm_num
    rw [hW2] at h ⊢
    rw [hlen]
    refine lt_of_lt_of_le ?_ (le_trans h (le_abs_self _))
    rw [hu]
    have : C < (k : ℚ) + 2 := by linarith
    nlinarith

/-! ## Non-vacuity -/

/-- the merge tree of `Props.C08c.exTree` over the four observations `exObs`: a leading ZERO-WEIGHT observation
with a large sample, a nested merge, an EMPTY chunk in the middle, unequal chunk sizes, a non-integer weight;
the rounding `awayRnd` is never exact. `n = 4`, `e = 1`. -/
theorem exTree_shape : Props.C08c.exTree.flatten = Props.C08c.exObs
    ∧ Props.C08c.exTree.flatten.length = 4 ∧ Props.C08c.exTree.emptyLeaves = 1 :=
  ⟨rfl, rfl, by decide⟩

/-- the hypotheses of every theorem above are met by that tree with `M = 1000`, `σ = 501`
(`s² = 751045/3 ≤ 501²`), `u = 2^-53` -/
example : ValEqb Props.C02b.awayRnd ∧ 2 ≤ Props.C08c.exTree.flatten.length
    ∧ (∀ p ∈ Props.C08c.exTree.flatten, 0 ≤ p.2.val) ∧ 0 < W (pairVals Props.C08c.exTree.flatten)
    ∧ (∀ p ∈ Props.C08c.exTree.flatten, |p.1.val| ≤ (1000:ℚ))
    ∧ (∀ p ∈ Props.C08c.exTree.flatten, WObs (1000:ℚ) (p.1.val, p.2.val))
    ∧ ((Props.C08c.exTree.flatten.length : ℚ) + (Props.C08c.exTree.emptyLeaves : ℚ))
        * Props.C02b.awayRnd.u ≤ 1/64
    ∧ VarSpec.T ((Props.C08c.exTree.flatten.map Prod.fst).map RF2.val)
        / ((Props.C08c.exTree.flatten.length - 1 : ℕ) : ℚ) ≤ 501^2
    ∧ 2 * (Props.C08c.exTree.flatten.length : ℚ) * Props.C02b.awayRnd.u * 1000 ≤ 501 := by
  have hu : Props.C02b.awayRnd.u = 1/2^53 := rfl
  rw [exTree_shape.2.2, Props.C08c.exTree_flatten]
  refine ⟨rf2FloatOps_valEqb _, by decide, Props.C08c.exObs_w, by rw [Props.C08c.exObs_W]; norm_num,
    Props.C08c.exObs_x, fun p hp => ⟨Props.C08c.exObs_w p hp, fun _ => Props.C08c.exObs_x p hp⟩, ?_, ?_, ?_⟩
  · rw [hu]; norm_num [Props.C08c.exObs]
  · rw [Props.C08c.exObs_T]; norm_num [Props.C08c.exObs]
  · rw [hu]; norm_num [Props.C08c.exObs]

/-- and the conclusions are concrete statements about a computation through that tree under a rounding that is
never exact: `sum_weights` within `(64/63)·4·u·(7/2)` of `7/2`, `sum_weights_sq` within `(64/31)·5·u·(21/4)` of
`21/4`, `effective_len` within `8·5·u·(7/3)` of `7/3`, and `variance_of_weighted_mean` within
`((14·4 + 9·5)·u·s² + 40·4·u·1000·501 + 105·16·u²·1000²)·(3/7)` of `s²·(3/7)`, `s² = 751045/3`. -/
example :
    |(WeightedMeanWithError.evalTree Props.C08c.exTree).sumWeights.val - 7/2| ≤ 64/63 * 4 * (1/2^53) * (7/2)
    ∧ |(WeightedMeanWithError.evalTree Props.C08c.exTree).sumWeightsSq.val - 21/4|
        ≤ 64/31 * (4 + 1) * (1/2^53) * (21/4)
    ∧ |(WeightedMeanWithError.evalTree Props.C08c.exTree).effectiveLen.val - 7/3|
        ≤ 8 * (4 + 1) * (1/2^53) * (7/3)
    ∧ |(WeightedMeanWithError.evalTree Props.C08c.exTree).varianceOfWeightedMean.val - 751045/3 * (3/7)|
        ≤ ((14 * 4 + 9 * (4 + 1)) * (1/2^53) * (751045/3) + 40 * 4 * (1/2^53) * 1000 * 501
            + 105 * 4^2 * (1/2^53)^2 * 1000^2) * (3/7) := by
  have hu : Props.C02b.awayRnd.u = 1/2^53 := rfl
  have heq := rf2FloatOps_valEqb Props.C02b.awayRnd
  have hl : (Props.C08c.exTree.flatten.length : ℚ) = 4 := by norm_num [exTree_shape.2.1]
  have he : (Props.C08c.exTree.emptyLeaves : ℚ) = 1 := by norm_num [exTree_shape.2.2]
  have hl1 : ((Props.C08c.exTree.flatten.length - 1 : ℕ) : ℚ) = 3 := by norm_num [exTree_shape.2.1]
  have hw : ∀ p ∈ Props.C08c.exTree.flatten, 0 ≤ p.2.val := Props.C08c.exObs_w
  have hpos : 0 < W (pairVals Props.C08c.exTree.flatten) := by
    rw [Props.C08c.exTree_flatten, Props.C08c.exObs_W]; norm_num
  have hs1 : (Props.C08c.exTree.flatten.length : ℚ) * Props.C02b.awayRnd.u ≤ 1/64 := by
    rw [hl, hu]; norm_num
  have hs2 : ((Props.C08c.exTree.flatten.length : ℚ) + (Props.C08c.exTree.emptyLeaves : ℚ))
      * Props.C02b.awayRnd.u ≤ 1/64 := by rw [hl, he, hu]; norm_num
  have hT : VarSpec.T ((Props.C08c.exTree.flatten.map Prod.fst).map RF2.val) = 751045 :=
    Props.C08c.exObs_T
  have hW : W (pairVals Props.C08c.exTree.flatten) = 7/2 := Props.C08c.exObs_W
  have hW2 : W2 (pairVals Props.C08c.exTree.flatten) = 21/4 := Props.C08c.exObs_W2
  have h1 := (wmwe_sum_weights_mtree_forward_error heq Props.C08c.exTree hw hs1).2.2
  have h2 := (sum_weights_sq_mtree_forward_error heq Props.C08c.exTree hw hs2).2.2.2
  have h3 := effective_len_mtree_forward_error heq Props.C08c.exTree hw hpos hs2
  have h4 := variance_of_weighted_mean_mtree_forward_error heq 1000 (by norm_num) Props.C08c.exTree
    (by decide) hw hpos Props.C08c.exObs_x hs2 501 (by norm_num) (by rw [hT, hl1]; norm_num)
  rw [hW, hl, hu] at h1
  rw [hW2, hl, he, hu] at h2
  rw [hW, hW2, hl, he, hu] at h3
  rw [hT, hW, hW2, hl, he, hl1, hu] at h4
  refine ⟨h1, h2, ?_, ?_⟩
  · have e : (7/2 : ℚ) * (7/2) / (21/4) = 7/3 := by norm_num
    rw [e] at h3; exact h3
  · have e : (21/4 : ℚ) / (7/2 * (7/2)) = 3/7 := by norm_num
    rw [e] at h4; exact h4

open Props.C01c (awayRndR awaySqrt) in
/-- the hypotheses of `weighted_error_mtree_envelope` are satisfiable: the same tree over ℝ under `awayRndR`
with the rounded square root `awaySqrt` (`s² = 751045/3`, so `σ > 500 ≥ 2·4·2^-53·1000`) -/
example :
    let t : MTree (RF2 awayRndR × RF2 awayRndR) :=
      .node (.leaf [(⟨1000⟩, ⟨0⟩), (⟨1⟩, ⟨2⟩), (⟨-6⟩, ⟨1⟩)]) (.node (.leaf []) (.leaf [(⟨3⟩, ⟨1/2⟩)]))
    @SqrtIs awayRndR awaySqrt (rf2SqrtFloatOps awayRndR awaySqrt)
    ∧ @ValEqb ℝ _ _ _ awayRndR (rf2SqrtFloatOps awayRndR awaySqrt)
    ∧ 2 ≤ t.flatten.length ∧ (∀ p ∈ t.flatten, 0 ≤ p.2.val) ∧ 0 < W (pairVals t.flatten)
    ∧ (∀ p ∈ t.flatten, |p.1.val| ≤ (1000:ℝ))
    ∧ ((t.flatten.length : ℝ) + (t.emptyLeaves : ℝ)) * awayRndR.u ≤ 1/64
    ∧ 0 < VarSpec.T ((t.flatten.map Prod.fst).map RF2.val) / ((t.flatten.length - 1 : ℕ) : ℝ)
    ∧ 2 * (t.flatten.length : ℝ) * awayRndR.u * 1000
        ≤ Real.sqrt (VarSpec.T ((t.flatten.map Prod.fst).map RF2.val) / ((t.flatten.length - 1 : ℕ) : ℝ)) := by
  intro t
  have hf : t.flatten = [(⟨1000⟩, ⟨0⟩), (⟨1⟩, ⟨2⟩), (⟨-6⟩, ⟨1⟩), (⟨3⟩, ⟨1/2⟩)] := rfl
  have he : t.emptyLeaves = 1 := by decide
  rw [hf, he]
  have hT : VarSpec.T ((([(⟨1000⟩, ⟨0⟩), (⟨1⟩, ⟨2⟩), (⟨-6⟩, ⟨1⟩), (⟨3⟩, ⟨1/2⟩)] :
      List (RF2 awayRndR × RF2 awayRndR)).map Prod.fst).map RF2.val) = 751045 := by
    norm_num [VarSpec.T, sumPow, mean]
  have hl : (((([(⟨1000⟩, ⟨0⟩), (⟨1⟩, ⟨2⟩), (⟨-6⟩, ⟨1⟩), (⟨3⟩, ⟨1/2⟩)] :
      List (RF2 awayRndR × RF2 awayRndR)).length - 1 : ℕ)) : ℝ) = 3 := by norm_num
  refine ⟨rf2SqrtFloatOps_sqrtIs _ _, rf2SqrtFloatOps_valEqb _ _, by simp, ?_, ?_, ?_, ?_, ?_, ?_⟩
  · intro p hp
    simp only [List.mem_cons, List.not_mem_nil, or_false] at hp
    rcases hp with rfl | rfl | rfl | rfl <;> norm_num
  · norm_num [pairVals, W]
  · intro p hp
    simp only [List.mem_cons, List.not_mem_nil, or_false] at hp
    rcases hp with rfl | rfl | rfl | rfl <;> norm_num
  · norm_num [awayRndR]
  · rw [hT, hl]; norm_num
  · rw [hT, hl]
    apply Real.le_sqrt_of_sq_le
    norm_num [awayRndR]

end Props.C08d

#print axioms Props.C08d.inner_variance_mtree
#print axioms Props.C08d.inner_statistics_mtree
#print axioms Props.C08d.rounds_le_obs_empty
#print axioms Props.C08d.sum_weights_mtree_forward_error
#print axioms Props.C08d.wmwe_sum_weights_mtree_forward_error
#print axioms Props.C08d.sum_weights_sq_mtree_forward_error
#print axioms Props.C08d.effective_len_mtree_two_sided
#print axioms Props.C08d.effective_len_mtree_forward_error
#print axioms Props.C08d.effective_len_mtree_range
#print axioms Props.C08d.weighted_mean_mtree_forward_error
#print axioms Props.C08d.sample_variance_mtree_forward_error
#print axioms Props.C08d.variance_of_weighted_mean_mtree_computed
#print axioms Props.C08d.variance_of_weighted_mean_mtree_forward_error
#print axioms Props.C08d.variance_of_weighted_mean_mtree_envelope
#print axioms Props.C08d.weighted_error_mtree_envelope
#print axioms Props.C08d.sum_weights_sq_not_bounded_by_n
#print axioms Props.C08d.exTree_shape
