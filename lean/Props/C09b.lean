import AvgProofs.CovErrSample
import Props.C02b
import Mathlib.Tactic.NormNum

/-!
# C09 (addendum) - forward error of `Covariance` for add-only streams of pairs, all stream lengths,
# linear in the conditioning

The envelope clause of C09, *proved* for add-only streams (no `merge`), for `sum_x_2`, `sum_y_2`,
`sum_prod`, the four variances and the two covariances (not `pearson`).

Carrier **R2** (`RF2 r`, `AvgProofs/MeanErr2.lean`): an ordered field `F` in which every `+ - * /` is
followed by a rounding `r.fl` with `|fl t - t| ≤ u·|t|` (standard model: no overflow, no underflow);
conversions of counts are exact. Notation for a stream `ps` of `n` pairs: `vals ps` the exact values,
`fsts`/`snds` the coordinates, `|x_i| ≤ Mx`, `|y_i| ≤ My`, `T_x = Σ(x - mean x)²` (`VarSpec.T (fsts _)`),
`T_y`, `C = Σ(x - mean x)(y - mean y)` (`CovSpec.Cxy`; by `Props.C09.cov_fold` these are what `sum_x_2`,
`sum_y_2`, `sum_prod` hold in exact arithmetic, see `spec_is_exact_run`).

**1. The x and y parts are `Variance` folds** (any carrier, `rfl`): `x_part_is_variance`,
`y_part_is_variance`, `variance_accessors`. Hence every bound of `Props.C01b` holds for `sum_x_2`,
`sum_y_2`, `population_variance_x/y`, `sample_variance_x/y` (`sum_x_2_forward_error`, ...,
`population_variance_x_envelope`: `8·n·u·(var + M·σ)`).

**2. `sum_prod`.** `Covariance.add` computes `S_k = fl(S_{k-1} + fl(fl(x_k - a)·fl(y_k - b')))`, `a` the
computed `x`-mean *before* the step, `b'` the computed `y`-mean *after* it (`sum_prod_computed_update`).
The exact recurrence is `C_k = C_{k-1} + (x_k - mean x_{<k})(y_k - mean y_{≤k})`
(`sum_prod_exact_recurrence`). The increments have no sign, so the roundings are measured against
`G = Σ_k |increment_k|`, and `|C| ≤ G ≤ sqrt(T_x·T_y)` (`co_moment_le_abs_increments`,
`abs_increments_cauchy_schwarz`) - the natural scale of DESIGN.md section 5.
Results (`Rxy ≥ sqrt(T_x T_y)`, `Rx ≥ sqrt(n T_x)`, `Ry ≥ sqrt(n T_y)`, stated square-root free):

* `sum_prod_forward_error` (`n·u ≤ 1/64`):
  `|sum_prod - C| ≤ 5·n·u·Rxy + 7·n·u·Mx·Ry + 16·n·u·My·Rx + 38·n³u²·Mx·My + 12·u·Mx·My`.
* `sum_prod_forward_error_sharp_std` (`(n+28)·u ≤ 1/64`):
  `(21/5)·n·u·Rxy + (79/40)·n·u·Mx·Ry + (21/5)·n·u·My·Rx + (39/10)·n³u²·Mx·My + (13/4)·u·Mx·My`.
* `sum_prod_forward_error_sharp_exact`: the same without the last term, if the `y`-mean after the
  first pair is exactly `y_0` (`FirstExact`: `fl(0 + fl(fl(y_0 - 0)/1)) = y_0`, true of IEEE arithmetic).

**The term `u·Mx·My` is genuine in the standard model** (`first_pair_term_is_genuine`): the `y`-mean of
the first pair costs three roundings there, so `sum_prod ≈ -3u·x_0·y_0` after one pair, while
`C = T_x = T_y = 0`. A bound of the form `c₁nu·sqrt(T_xT_y) + c₂nu(Mx·sqrt(nT_y) + My·sqrt(nT_x)) + c₃n³u²MxMy`
is therefore *false* for the carrier R2 (it is second order in `u` for one pair); it holds under
`FirstExact`. This is a property of the rounding model, not a defect of the crate.

**3. Accessors** (one more rounded division; `var_x = T_x/n ≤ σx²`, `var_y ≤ σy²`):
`population_covariance_forward_error_exact`:
`(21/4)·n·u·σx·σy + 2·n·u·Mx·σy + (17/4)·n·u·My·σx + 4·n²u²·Mx·My` (`_std`: `+ (7/2)·u·Mx·My/n`);
`sample_covariance_forward_error_exact`: `(21/4), 4, (17/2), 8` (with `σ² ≥ T/(n-1)`);
`sample_covariance_forward_error_pop`: the population bound times `n/(n-1)` (with `σ² ≥ T/n`);
`population_covariance_envelope(_kappa)`: `≤ 8·n·κ·u·sqrt(S_xx·S_yy)/n`, `κ = 1 + max(Mx/σx, My/σy)`, when
`FirstExact` and (`4nu·Mx ≤ σx` or `4nu·My ≤ σy`) - the envelope of DESIGN.md section 5, constant 8;
`sample_covariance_envelope(_kappa)`: `≤ 8·n·κ·u·sqrt(S_xx·S_yy)/(n-1)` under the same hypotheses.

How: the errors `e_x = a - mean x_{<k}`, `e_y = b' - mean y_{≤k}` of the computed means perturb the
increment by `-e_x(y_k - mean y_{≤k}) - e_y(x_k - mean x_{<k}) + e_x·e_y`, linear in the *deviations*;
`Σ|e_x||y_k - mean y_{≤k}|` and `Σ|e_y||x_k - mean x_{<k}|` are bounded by Cauchy-Schwarz against `T_y`
and `T_x` (`Σ_k (x_k - mean x_{<k})²(k-1)/k = T_x`; the second sum needs the weight `k/(k-1) ≤ 2`, `k ≥ 2`,
and leaves the first pair as the separate term above).

Not covered: merge trees (only the means, `Props.C02b`), `pearson`.
-/
open Avg MSpec Finset VarSpec CovSpec CovErr

namespace Props.C09b

/-- `add` of one pair as a step function on streams of pairs -/
abbrev addP {α : Type} [Add α] [Sub α] [Mul α] [Div α] [NatCast α] (s : Covariance α) (p : α × α) :
    Covariance α := s.add p.1 p.2

/-! ## 1. the x and y parts are `Variance` folds (any carrier) -/

section anycarrier
variable {α : Type} [Add α] [Sub α] [Mul α] [Div α] [NatCast α]

/-- Any carrier, bit for bit: after any add-only stream of pairs the fields `(avg_x, n, sum_x_2)` of
`Covariance` are the fields `(avg, n, sum_2)` of `Variance` after the stream of the first components. -/
theorem x_part_is_variance (ps : List (α × α)) :
    (ps.foldl addP Covariance.new).varXState = (ps.map Prod.fst).foldl Variance.add Variance.new :=
  Covariance.fold_varX ps

/-- Likewise `(avg_y, n, sum_y_2)` and the second components. -/
theorem y_part_is_variance (ps : List (α × α)) :
    (ps.foldl addP Covariance.new).varYState = (ps.map Prod.snd).foldl Variance.add Variance.new :=
  Covariance.fold_varY ps

omit [Add α] [Sub α] [Mul α] in
/-- Any carrier: the four variance accessors of `Covariance` are the accessors of `Variance` applied to
the x / y part (same guards `n = 0`, `n < 2`, same division). -/
theorem variance_accessors [FloatOps α] (s : Covariance α) :
    s.populationVarianceX = s.varXState.populationVariance
    ∧ s.populationVarianceY = s.varYState.populationVariance
    ∧ s.sampleVarianceX = s.varXState.sampleVariance
    ∧ s.sampleVarianceY = s.varYState.sampleVariance :=
  ⟨rfl, rfl, rfl, rfl⟩

/-- Any carrier: the count is the number of pairs added. -/
theorem count_exact (ps : List (α × α)) : (ps.foldl addP (Covariance.new : Covariance α)).n = ps.length :=
  Covariance.fold_n_new ps

/-- Any carrier: the text of the `sum_prod` update - old `x`-mean, *new* `y`-mean. -/
theorem sum_prod_update_text (s : Covariance α) (x y : α) :
    (s.add x y).sum_prod = s.sum_prod + (x - s.avg_x) * (y - (s.add x y).avg_y) := rfl

end anycarrier

variable {F : Type} [Field F] [LinearOrder F] [IsStrictOrderedRing F]

/-! ## the exact side -/

omit [LinearOrder F] [IsStrictOrderedRing F] in
/-- `Cxy` is the exact co-moment, `T (fsts _)`, `T (snds _)` the exact sums of squares. -/
theorem spec_def (vs : List (F × F)) :
    Cxy vs = coSum vs (mean (fsts vs)) (mean (snds vs))
    ∧ T (fsts vs) = sumPow (fsts vs) (mean (fsts vs)) 2
    ∧ T (snds vs) = sumPow (snds vs) (mean (snds vs)) 2 := ⟨rfl, rfl, rfl⟩

/-- They are what the algorithm holds in exact arithmetic (`Props.C09.cov_fold`): running
`Covariance.add` over the exact values in the field `F` gives `sum_x_2 = T_x`, `sum_y_2 = T_y`,
`sum_prod = C`. -/
theorem spec_is_exact_run (vs : List (F × F)) :
    (vs.foldl addP Covariance.new).sum_x_2 = T (fsts vs)
    ∧ (vs.foldl addP Covariance.new).sum_y_2 = T (snds vs)
    ∧ (vs.foldl addP Covariance.new).sum_prod = Cxy vs := by
  have h : vs.foldl addP Covariance.new = canonC vs := MSpec.cov_fold vs
  rw [h]; exact ⟨rfl, rfl, rfl⟩

/-- Exact recurrence of the co-moment: one more pair `(x, y)` after the pairs `vs` adds
`(x - mean x(vs))·(y - mean y(vs ++ [y]))` - old `x`-mean, new `y`-mean. -/
theorem sum_prod_exact_recurrence (vs : List (F × F)) (x y : F) :
    Cxy (vs ++ [(x, y)]) = Cxy vs + (x - mean (fsts vs)) * (y - mean (snds vs ++ [y])) :=
  Cxy_snoc' vs x y

/-- The same with the new `y`-mean eliminated: the increment is
`(x - mean x)(y - mean y)·n/(n+1)`, `n = |vs|`. -/
theorem sum_prod_exact_recurrence' (vs : List (F × F)) (x y : F) :
    Cxy (vs ++ [(x, y)]) = Cxy vs
      + (x - mean (fsts vs)) * (y - mean (snds vs)) * ((vs.length : F) / ((vs.length : F) + 1)) :=
  Cxy_snoc vs x y

/-- `G = Σ_i |dev_x i|·|dev_y i|·i/(i+1)` is the sum of the absolute values of the exact increments;
the co-moment is at most `G` in absolute value, and `G` never decreases. -/
theorem co_moment_le_abs_increments (vs : List (F × F)) (x y : F) :
    |Cxy vs| ≤ Gxy vs ∧ 0 ≤ Gxy vs ∧ Gxy vs ≤ Gxy (vs ++ [(x, y)]) :=
  ⟨abs_Cxy_le_Gxy vs, Gxy_nonneg vs, Gxy_mono vs x y⟩

/-- Cauchy-Schwarz: `G² ≤ T_x·T_y`. -/
theorem abs_increments_cauchy_schwarz (vs : List (F × F)) :
    (Gxy vs)^2 ≤ T (fsts vs) * T (snds vs) :=
  Gxy_sq_le vs

/-! ## one step -/

/-- What `Covariance.add` computes for `sum_prod` at the carrier R2, operation by operation: three
rounded operations for the increment, one for the sum; `(s.add x y).avg_y` is the updated `y`-mean
`fl(avg_y + fl(fl(y - avg_y)/k))`. -/
theorem sum_prod_computed_update (r : Rnd2 F) (s : Covariance (RF2 r)) (x y : RF2 r) :
    (s.add x y).sum_prod.val =
      r.fl (s.sum_prod.val
        + r.fl (r.fl (x.val - s.avg_x.val) * r.fl (y.val - (s.add x y).avg_y.val))) :=
  sum_prod_add_val r s x y

/-- The computed increment `fl(fl(x-a)·fl(y-b))` is within relative error `(1+u)³ - 1` of
`(x-a)(y-b)`. -/
theorem increment_rounding_error (r : Rnd2 F) (x a y b : F) :
    |r.fl (r.fl (x - a) * r.fl (y - b)) - (x - a) * (y - b)|
      ≤ ((1 + r.u)^3 - 1) * |(x - a) * (y - b)| :=
  cov_incr_error r.fl r.u r.u_nonneg r.err x a y b

/-- `(1+u)³ - 1 ≤ (49/16)·u` for `u ≤ 1/64`. -/
theorem three_roundings (u : F) (hu : 0 ≤ u) (h : u ≤ 1/64) : (1 + u)^3 - 1 ≤ 49/16 * u :=
  gam3_le u hu h

/-- One step of the error recurrence. `S`, `a`: computed co-moment and `x`-mean before the step, `b`:
computed `y`-mean after the step; `C`, `μ`, `ν` their exact counterparts; `J = (x-μ)(y-ν)` the exact
increment; `γ₃ = (1+u)³ - 1`:
`|S' - (C+J)| ≤ (1+u)·(|S-C| + γ₃·|J| + (1+γ₃)·(|a-μ||y-ν| + |b-ν||x-μ| + |a-μ||b-ν|)) + u·|C+J|`. -/
theorem sum_prod_step_error (r : Rnd2 F) (x a μ y b ν S C : F) :
    |r.fl (S + r.fl (r.fl (x - a) * r.fl (y - b))) - (C + (x - μ) * (y - ν))|
      ≤ (1 + r.u) * (|S - C| + ((1 + r.u)^3 - 1) * |(x - μ) * (y - ν)|
            + (1 + ((1 + r.u)^3 - 1))
              * (|a - μ| * |y - ν| + |b - ν| * |x - μ| + |a - μ| * |b - ν|))
        + r.u * |C + (x - μ) * (y - ν)| :=
  cov_step_error r.fl r.u r.u_nonneg r.err x a μ y b ν S C

/-! ## all stream lengths: general forms -/

/-- **General form, before Cauchy-Schwarz.** For every stream `ps` of pairs: if `Ex i`, `Ey i ≥ 0` bound
the errors of the computed `x`- and `y`-means after `i` pairs (for every prefix of `ps`), then with
`γ₃ = (1+u)³ - 1`
`|sum_prod - C| ≤ (1+u)^n·((γ₃ + n·u)·G
    + (1+γ₃)·Σ_{i<n} (Ex_i·|dev_y i|·i/(i+1) + Ey_{i+1}·|dev_x i| + Ex_i·Ey_{i+1}))`.
No bound on the data is needed here. -/
theorem sum_prod_forward_error_general (r : Rnd2 F) (Ex Ey : ℕ → F) (hEx0 : ∀ i, 0 ≤ Ex i)
    (hEy0 : ∀ i, 0 ≤ Ey i) (ps : List (RF2 r × RF2 r))
    (hEx : ∀ qs, qs <+: ps →
      |(qs.foldl addP Covariance.new).avg_x.val - mean (fsts (vals qs))| ≤ Ex qs.length)
    (hEy : ∀ qs, qs <+: ps →
      |(qs.foldl addP Covariance.new).avg_y.val - mean (snds (vals qs))| ≤ Ey qs.length) :
    |(ps.foldl addP Covariance.new).sum_prod.val - Cxy (vals ps)|
      ≤ (1 + r.u)^ps.length *
          ((((1 + r.u)^3 - 1) + ps.length * r.u) * Gxy (vals ps)
            + (1 + ((1 + r.u)^3 - 1)) *
              ∑ i ∈ range (vals ps).length,
                (Ex i * |dev (snds (vals ps)) i| * ((i : F) / ((i : F) + 1))
                  + Ey (i + 1) * |dev (fsts (vals ps)) i| + Ex i * Ey (i + 1))) :=
  cov_fold_error_gen r Ex Ey hEx0 hEy0 ps hEx hEy

/-- The hypotheses `hEx`, `hEy` of the general forms are statements about `Mean` folds: the `avg_x`
(`avg_y`) of `Covariance` after a stream of pairs is bit for bit the `avg` of `Mean` after the first
(second) components, and `fsts (vals _)`, `snds (vals _)` are their exact values. -/
theorem means_are_mean_folds (r : Rnd2 F) (qs : List (RF2 r × RF2 r)) :
    (qs.foldl addP Covariance.new).avg_x = ((qs.map Prod.fst).foldl Mean.add Mean.new).avg
    ∧ (qs.foldl addP Covariance.new).avg_y = ((qs.map Prod.snd).foldl Mean.add Mean.new).avg
    ∧ fsts (vals qs) = (qs.map Prod.fst).map RF2.val
    ∧ snds (vals qs) = (qs.map Prod.snd).map RF2.val :=
  ⟨Covariance.fold_avg_x qs, Covariance.fold_avg_y qs, fsts_vals qs, snds_vals qs⟩

/-- **General form, after Cauchy-Schwarz** (square-root free): for all `Rxy, RA, RB ≥ 0` with
`T_x·T_y ≤ Rxy²`, `(Σ_{i<n} Ex_i²)·T_y ≤ RA²`, `(Σ_{1≤i<n} (Ey_{i+1}·(i+1)/i)²)·T_x ≤ RB²`
(`lift E i = E i·(i+1)/i` for `i ≥ 1`, `0` for `i = 0`):
`|sum_prod - C| ≤ (1+u)^n·((γ₃ + n·u)·Rxy + (1+γ₃)·(RA + RB + Ey_1·|x_0| + Σ_{i<n} Ex_i·Ey_{i+1}))`. -/
theorem sum_prod_forward_error_general_cs (r : Rnd2 F) (Ex Ey : ℕ → F) (hEx0 : ∀ i, 0 ≤ Ex i)
    (hEy0 : ∀ i, 0 ≤ Ey i) (ps : List (RF2 r × RF2 r))
    (hEx : ∀ qs, qs <+: ps →
      |(qs.foldl addP Covariance.new).avg_x.val - mean (fsts (vals qs))| ≤ Ex qs.length)
    (hEy : ∀ qs, qs <+: ps →
      |(qs.foldl addP Covariance.new).avg_y.val - mean (snds (vals qs))| ≤ Ey qs.length)
    (Rxy RA RB : F) (hRxy : 0 ≤ Rxy) (hRA : 0 ≤ RA) (hRB : 0 ≤ RB)
    (hxy : T (fsts (vals ps)) * T (snds (vals ps)) ≤ Rxy^2)
    (hA : (∑ i ∈ range ps.length, (Ex i)^2) * T (snds (vals ps)) ≤ RA^2)
    (hB : (∑ i ∈ range ps.length, (lift (fun i => Ey (i + 1)) i)^2) * T (fsts (vals ps)) ≤ RB^2) :
    |(ps.foldl addP Covariance.new).sum_prod.val - Cxy (vals ps)|
      ≤ (1 + r.u)^ps.length *
          ((((1 + r.u)^3 - 1) + ps.length * r.u) * Rxy
            + (1 + ((1 + r.u)^3 - 1)) * (RA + RB + Ey 1 * |dev (fsts (vals ps)) 0|
                + ∑ i ∈ range ps.length, Ex i * Ey (i + 1))) :=
  cov_fold_error_cs r Ex Ey hEx0 hEy0 ps hEx hEy Rxy RA RB hRxy hRA hRB hxy hA hB

/-- **Symbolic in `u` (form A).** `|x_i| ≤ Mx`, `|y_i| ≤ My`, `w + n·u ≤ 1/2` (`w = (2u+u²)(1+u)`),
`Bm u M = 2M(2w+u)` the per-observation error of the running mean (`Props.C01.mean_forward_error`); for all
`Rxy, RA, RB ≥ 0` with `T_x·T_y ≤ Rxy²`, `Bx²·(n³/3)·T_y ≤ RA²`, `By²·2n³·T_x ≤ RB²`:
`|sum_prod - C| ≤ (1+u)^n·((γ₃ + n·u)·Rxy + (1+γ₃)·(RA + RB + By·Mx + Bx·By·n³/3))`. -/
theorem sum_prod_forward_error_symbolic (r : Rnd2 F) (Mx My : F) (hMx : 0 ≤ Mx) (hMy : 0 ≤ My)
    (ps : List (RF2 r × RF2 r))
    (hbx : ∀ p ∈ ps, |p.1.val| ≤ Mx) (hby : ∀ p ∈ ps, |p.2.val| ≤ My)
    (hsmall : (2*r.u + r.u^2) * (1 + r.u) + ps.length * r.u ≤ 1/2)
    (Rxy RA RB : F) (hRxy : 0 ≤ Rxy) (hRA : 0 ≤ RA) (hRB : 0 ≤ RB)
    (hxy : T (fsts (vals ps)) * T (snds (vals ps)) ≤ Rxy^2)
    (hA : (2 * Mx * (2 * ((2*r.u + r.u^2) * (1 + r.u)) + r.u))^2 * ((ps.length : F)^3 / 3)
            * T (snds (vals ps)) ≤ RA^2)
    (hB : (2 * My * (2 * ((2*r.u + r.u^2) * (1 + r.u)) + r.u))^2 * (2 * (ps.length : F)^3)
            * T (fsts (vals ps)) ≤ RB^2) :
    |(ps.foldl addP Covariance.new).sum_prod.val - Cxy (vals ps)|
      ≤ (1 + r.u)^ps.length *
          ((((1 + r.u)^3 - 1) + ps.length * r.u) * Rxy
            + (1 + ((1 + r.u)^3 - 1)) * (RA + RB
                + 2 * My * (2 * ((2*r.u + r.u^2) * (1 + r.u)) + r.u) * Mx
                + 2 * Mx * (2 * ((2*r.u + r.u^2) * (1 + r.u)) + r.u)
                  * (2 * My * (2 * ((2*r.u + r.u^2) * (1 + r.u)) + r.u))
                  * ((ps.length : F)^3 / 3))) :=
  cov_fold_error_B r Mx My hMx hMy ps hbx hby hsmall Rxy RA RB hRxy hRA hRB hxy hA hB

/-- **Sharp symbolic form.** `n ≥ 1`, `(n+28)·u ≤ 1/64`, `βx = (65/128)·u·Mx`, `βy = (65/128)·u·My` (the
running means are within `β(k + 37/4)` of the exact means, `Props.C01b.mean_forward_error_sharp`),
`ε ≥ 0` a bound on the error of the `y`-mean after the first pair,
`Q = n³/3 + 35n²/4 + 3671n/48 - 1369/16` (`= Σ_{1≤i<n}(i+37/4)²`); for all `Rxy, RA, RB ≥ 0` with
`T_x·T_y ≤ Rxy²`, `βx²·Q·T_y ≤ RA²`, `βy²·64n³·T_x ≤ RB²`:
`|sum_prod - C| ≤ (1+u)^n·((γ₃+n·u)·Rxy + (1+γ₃)·(RA + RB + ε·Mx + βx·βy·(29/2)·n³))`. (The
constant 64 bounds `Σ_{1≤i<n}((i+41/4)(i+1)/i)²/n³`; it is attained at `n = 2`, for large `n` the ratio
tends to `1/3`.) -/
theorem sum_prod_forward_error_sharp_symbolic (r : Rnd2 F) (Mx My : F) (hMx : 0 ≤ Mx)
    (hMy : 0 ≤ My) (ps : List (RF2 r × RF2 r)) (hne : ps ≠ [])
    (hbx : ∀ p ∈ ps, |p.1.val| ≤ Mx) (hby : ∀ p ∈ ps, |p.2.val| ≤ My)
    (hsmall : ((ps.length : F) + 28) * r.u ≤ 1/64)
    (ε : F) (hε : 0 ≤ ε)
    (h1 : ∀ p, ps.head? = some p →
      |((Covariance.new : Covariance (RF2 r)).add p.1 p.2).avg_y.val - p.2.val| ≤ ε)
    (Rxy RA RB : F) (hRxy : 0 ≤ Rxy) (hRA : 0 ≤ RA) (hRB : 0 ≤ RB)
    (hxy : T (fsts (vals ps)) * T (snds (vals ps)) ≤ Rxy^2)
    (hA : (65/128 * r.u * Mx)^2
        * ((ps.length : F)^3 / 3 + 35/4 * (ps.length : F)^2 + 3671/48 * (ps.length : F) - 1369/16)
        * T (snds (vals ps)) ≤ RA^2)
    (hB : (65/128 * r.u * My)^2 * (64 * (ps.length : F)^3) * T (fsts (vals ps)) ≤ RB^2) :
    |(ps.foldl addP Covariance.new).sum_prod.val - Cxy (vals ps)|
      ≤ (1 + r.u)^ps.length *
          ((((1 + r.u)^3 - 1) + ps.length * r.u) * Rxy
            + (1 + ((1 + r.u)^3 - 1)) * (RA + RB + ε * Mx
                + (65/128 * r.u * Mx) * (65/128 * r.u * My) * (29/2 * (ps.length : F)^3))) :=
  cov_fold_error_sharp r Mx My hMx hMy ps hne hbx hby hsmall ε hε h1 Rxy RA RB hRxy hRA hRB hxy hA hB

/-! ## all stream lengths: numerals -/

/-- **Forward error of `sum_prod`, linear in the conditioning (form A).** Every stream of `n` pairs with
`|x_i| ≤ Mx`, `|y_i| ≤ My` and `n·u ≤ 1/64`; any `Rxy, Rx, Ry ≥ 0` with `T_x·T_y ≤ Rxy²`, `n·T_x ≤ Rx²`,
`n·T_y ≤ Ry²`:
`|sum_prod - C| ≤ 5·n·u·Rxy + 7·n·u·Mx·Ry + 16·n·u·My·Rx + 38·n³·u²·Mx·My + 12·u·Mx·My`. -/
theorem sum_prod_forward_error (r : Rnd2 F) (Mx My : F) (hMx : 0 ≤ Mx) (hMy : 0 ≤ My)
    (ps : List (RF2 r × RF2 r))
    (hbx : ∀ p ∈ ps, |p.1.val| ≤ Mx) (hby : ∀ p ∈ ps, |p.2.val| ≤ My)
    (hsmall : (ps.length : F) * r.u ≤ 1/64)
    (Rxy Rx Ry : F) (hRxy : 0 ≤ Rxy) (hRx : 0 ≤ Rx) (hRy : 0 ≤ Ry)
    (hxy : T (fsts (vals ps)) * T (snds (vals ps)) ≤ Rxy^2)
    (hx : (ps.length : F) * T (fsts (vals ps)) ≤ Rx^2)
    (hy : (ps.length : F) * T (snds (vals ps)) ≤ Ry^2) :
    |(ps.foldl addP Covariance.new).sum_prod.val - Cxy (vals ps)|
      ≤ 5 * ps.length * r.u * Rxy + 7 * ps.length * r.u * Mx * Ry + 16 * ps.length * r.u * My * Rx
        + 38 * (ps.length : F)^3 * r.u^2 * Mx * My + 12 * r.u * Mx * My :=
  cov_fold_error_lin r Mx My hMx hMy ps hbx hby hsmall Rxy Rx Ry hRxy hRx hRy hxy hx hy

/-- The same with `sqrt(T_x·T_y)` replaced by `(T_x + T_y)/2` (no auxiliary `Rxy`). -/
theorem sum_prod_forward_error_amgm (r : Rnd2 F) (Mx My : F) (hMx : 0 ≤ Mx) (hMy : 0 ≤ My)
    (ps : List (RF2 r × RF2 r))
    (hbx : ∀ p ∈ ps, |p.1.val| ≤ Mx) (hby : ∀ p ∈ ps, |p.2.val| ≤ My)
    (hsmall : (ps.length : F) * r.u ≤ 1/64)
    (Rx Ry : F) (hRx : 0 ≤ Rx) (hRy : 0 ≤ Ry)
    (hx : (ps.length : F) * T (fsts (vals ps)) ≤ Rx^2)
    (hy : (ps.length : F) * T (snds (vals ps)) ≤ Ry^2) :
    |(ps.foldl addP Covariance.new).sum_prod.val - Cxy (vals ps)|
      ≤ 5 * ps.length * r.u * ((T (fsts (vals ps)) + T (snds (vals ps))) / 2)
        + 7 * ps.length * r.u * Mx * Ry + 16 * ps.length * r.u * My * Rx
        + 38 * (ps.length : F)^3 * r.u^2 * Mx * My + 12 * r.u * Mx * My := by
  have h1 := T_nonneg (fsts (vals ps))
  have h2 := T_nonneg (snds (vals ps))
  exact cov_fold_error_lin r Mx My hMx hMy ps hbx hby hsmall _ Rx Ry (by positivity) hRx hRy
    (by nlinarith [sq_nonneg (T (fsts (vals ps)) - T (snds (vals ps)))]) hx hy

/-- The same over ℝ with square roots:
`|sum_prod - C| ≤ 5·n·u·sqrt(T_x·T_y) + 7·n·u·Mx·sqrt(n·T_y) + 16·n·u·My·sqrt(n·T_x) + 38·n³·u²·Mx·My
    + 12·u·Mx·My`. -/
theorem sum_prod_forward_error_sqrt (r : Rnd2 ℝ) (Mx My : ℝ) (hMx : 0 ≤ Mx) (hMy : 0 ≤ My)
    (ps : List (RF2 r × RF2 r))
    (hbx : ∀ p ∈ ps, |p.1.val| ≤ Mx) (hby : ∀ p ∈ ps, |p.2.val| ≤ My)
    (hsmall : (ps.length : ℝ) * r.u ≤ 1/64) :
    |(ps.foldl addP Covariance.new).sum_prod.val - Cxy (vals ps)|
      ≤ 5 * ps.length * r.u * Real.sqrt (T (fsts (vals ps)) * T (snds (vals ps)))
        + 7 * ps.length * r.u * Mx * Real.sqrt (ps.length * T (snds (vals ps)))
        + 16 * ps.length * r.u * My * Real.sqrt (ps.length * T (fsts (vals ps)))
        + 38 * (ps.length : ℝ)^3 * r.u^2 * Mx * My + 12 * r.u * Mx * My :=
  cov_fold_error_lin r Mx My hMx hMy ps hbx hby hsmall _ _ _ (Real.sqrt_nonneg _)
    (Real.sqrt_nonneg _) (Real.sqrt_nonneg _)
    (le_of_eq (Real.sq_sqrt (mul_nonneg (T_nonneg _) (T_nonneg _))).symm)
    (le_of_eq (Real.sq_sqrt (mul_nonneg (Nat.cast_nonneg _) (T_nonneg _))).symm)
    (le_of_eq (Real.sq_sqrt (mul_nonneg (Nat.cast_nonneg _) (T_nonneg _))).symm)

/-! ## the first pair -/

/-- In the standard model the `y`-mean after the first pair `(x, y)` is `fl(0 + fl(fl(y - 0)/1))`, three
roundings away from `y`: `|avg_y - y| ≤ ((1+u)³ - 1)·|y|`. (In IEEE arithmetic the three operations are
exact.) -/
theorem first_pair_error (r : Rnd2 F) (x y : RF2 r) :
    ((Covariance.new : Covariance (RF2 r)).add x y).avg_y.val = r.fl (0 + r.fl (r.fl (y.val - 0) / 1))
    ∧ |((Covariance.new : Covariance (RF2 r)).add x y).avg_y.val - y.val|
        ≤ ((1 + r.u)^3 - 1) * |y.val| :=
  ⟨first_avg_y_val r x y, first_y_error r x y⟩

/-- `FirstExact ps`: the `y`-mean after the first pair of `ps` is the `y` of that pair, i.e.
`fl(0 + fl(fl(y₀ - 0)/1)) = y₀`. -/
theorem firstExact_def (r : Rnd2 F) (ps : List (RF2 r × RF2 r)) :
    FirstExact ps ↔ ∀ p, ps.head? = some p → r.fl (0 + r.fl (r.fl (p.2.val - 0) / 1)) = p.2.val :=
  firstExact_iff ps

/-- **Sharper numerals, any bound `ε` for the first pair.** `|x_i| ≤ Mx`, `|y_i| ≤ My`,
`(n+28)·u ≤ 1/64`, `ε ≥ 0` with `|avg_y after the first pair - y_0| ≤ ε`:
`|sum_prod - C| ≤ (21/5)·n·u·Rxy + (79/40)·n·u·Mx·Ry + (21/5)·n·u·My·Rx + (39/10)·n³·u²·Mx·My
    + (21/20)·ε·Mx`. -/
theorem sum_prod_forward_error_sharp (r : Rnd2 F) (Mx My : F) (hMx : 0 ≤ Mx) (hMy : 0 ≤ My)
    (ps : List (RF2 r × RF2 r))
    (hbx : ∀ p ∈ ps, |p.1.val| ≤ Mx) (hby : ∀ p ∈ ps, |p.2.val| ≤ My)
    (hsmall : ((ps.length : F) + 28) * r.u ≤ 1/64)
    (ε : F) (hε : 0 ≤ ε)
    (h1 : ∀ p, ps.head? = some p →
      |((Covariance.new : Covariance (RF2 r)).add p.1 p.2).avg_y.val - p.2.val| ≤ ε)
    (Rxy Rx Ry : F) (hRxy : 0 ≤ Rxy) (hRx : 0 ≤ Rx) (hRy : 0 ≤ Ry)
    (hxy : T (fsts (vals ps)) * T (snds (vals ps)) ≤ Rxy^2)
    (hx : (ps.length : F) * T (fsts (vals ps)) ≤ Rx^2)
    (hy : (ps.length : F) * T (snds (vals ps)) ≤ Ry^2) :
    |(ps.foldl addP Covariance.new).sum_prod.val - Cxy (vals ps)|
      ≤ 21/5 * ps.length * r.u * Rxy + 79/40 * ps.length * r.u * Mx * Ry
        + 21/5 * ps.length * r.u * My * Rx + 39/10 * (ps.length : F)^3 * r.u^2 * Mx * My
        + 21/20 * ε * Mx :=
  cov_fold_error_sharp_num r Mx My hMx hMy ps hbx hby hsmall ε hε h1 Rxy Rx Ry hRxy hRx hRy hxy hx hy

/-- **`sum_prod`, first pair exact (the target form).**
`|sum_prod - C| ≤ (21/5)·n·u·Rxy + (79/40)·n·u·Mx·Ry + (21/5)·n·u·My·Rx + (39/10)·n³·u²·Mx·My`. -/
theorem sum_prod_forward_error_sharp_exact (r : Rnd2 F) (Mx My : F) (hMx : 0 ≤ Mx) (hMy : 0 ≤ My)
    (ps : List (RF2 r × RF2 r))
    (hbx : ∀ p ∈ ps, |p.1.val| ≤ Mx) (hby : ∀ p ∈ ps, |p.2.val| ≤ My)
    (hsmall : ((ps.length : F) + 28) * r.u ≤ 1/64) (hfirst : FirstExact ps)
    (Rxy Rx Ry : F) (hRxy : 0 ≤ Rxy) (hRx : 0 ≤ Rx) (hRy : 0 ≤ Ry)
    (hxy : T (fsts (vals ps)) * T (snds (vals ps)) ≤ Rxy^2)
    (hx : (ps.length : F) * T (fsts (vals ps)) ≤ Rx^2)
    (hy : (ps.length : F) * T (snds (vals ps)) ≤ Ry^2) :
    |(ps.foldl addP Covariance.new).sum_prod.val - Cxy (vals ps)|
      ≤ 21/5 * ps.length * r.u * Rxy + 79/40 * ps.length * r.u * Mx * Ry
        + 21/5 * ps.length * r.u * My * Rx + 39/10 * (ps.length : F)^3 * r.u^2 * Mx * My :=
  cov_fold_error_sharp_exact r Mx My hMx hMy ps hbx hby hsmall hfirst Rxy Rx Ry hRxy hRx hRy hxy hx hy

/-- The same over ℝ with square roots:
`|sum_prod - C| ≤ (21/5)·n·u·sqrt(T_x·T_y) + (79/40)·n·u·Mx·sqrt(n·T_y) + (21/5)·n·u·My·sqrt(n·T_x)
    + (39/10)·n³·u²·Mx·My`. -/
theorem sum_prod_forward_error_sharp_exact_sqrt (r : Rnd2 ℝ) (Mx My : ℝ) (hMx : 0 ≤ Mx)
    (hMy : 0 ≤ My) (ps : List (RF2 r × RF2 r))
    (hbx : ∀ p ∈ ps, |p.1.val| ≤ Mx) (hby : ∀ p ∈ ps, |p.2.val| ≤ My)
    (hsmall : ((ps.length : ℝ) + 28) * r.u ≤ 1/64) (hfirst : FirstExact ps) :
    |(ps.foldl addP Covariance.new).sum_prod.val - Cxy (vals ps)|
      ≤ 21/5 * ps.length * r.u * Real.sqrt (T (fsts (vals ps)) * T (snds (vals ps)))
        + 79/40 * ps.length * r.u * Mx * Real.sqrt (ps.length * T (snds (vals ps)))
        + 21/5 * ps.length * r.u * My * Real.sqrt (ps.length * T (fsts (vals ps)))
        + 39/10 * (ps.length : ℝ)^3 * r.u^2 * Mx * My :=
  cov_fold_error_sharp_exact r Mx My hMx hMy ps hbx hby hsmall hfirst _ _ _ (Real.sqrt_nonneg _)
    (Real.sqrt_nonneg _) (Real.sqrt_nonneg _)
    (le_of_eq (Real.sq_sqrt (mul_nonneg (T_nonneg _) (T_nonneg _))).symm)
    (le_of_eq (Real.sq_sqrt (mul_nonneg (Nat.cast_nonneg _) (T_nonneg _))).symm)
    (le_of_eq (Real.sq_sqrt (mul_nonneg (Nat.cast_nonneg _) (T_nonneg _))).symm)

/-- **`sum_prod`, standard model only**: the same `+ (13/4)·u·Mx·My` (the first pair). -/
theorem sum_prod_forward_error_sharp_std (r : Rnd2 F) (Mx My : F) (hMx : 0 ≤ Mx) (hMy : 0 ≤ My)
    (ps : List (RF2 r × RF2 r))
    (hbx : ∀ p ∈ ps, |p.1.val| ≤ Mx) (hby : ∀ p ∈ ps, |p.2.val| ≤ My)
    (hsmall : ((ps.length : F) + 28) * r.u ≤ 1/64)
    (Rxy Rx Ry : F) (hRxy : 0 ≤ Rxy) (hRx : 0 ≤ Rx) (hRy : 0 ≤ Ry)
    (hxy : T (fsts (vals ps)) * T (snds (vals ps)) ≤ Rxy^2)
    (hx : (ps.length : F) * T (fsts (vals ps)) ≤ Rx^2)
    (hy : (ps.length : F) * T (snds (vals ps)) ≤ Ry^2) :
    |(ps.foldl addP Covariance.new).sum_prod.val - Cxy (vals ps)|
      ≤ 21/5 * ps.length * r.u * Rxy + 79/40 * ps.length * r.u * Mx * Ry
        + 21/5 * ps.length * r.u * My * Rx + 39/10 * (ps.length : F)^3 * r.u^2 * Mx * My
        + 13/4 * r.u * Mx * My :=
  cov_fold_error_sharp_std r Mx My hMx hMy ps hbx hby hsmall Rxy Rx Ry hRxy hRx hRy hxy hx hy

/-! ## `sum_x_2`, `sum_y_2` and the four variances: the bounds of `Props.C01b`, transferred -/

/-- `sum_x_2` (`n·u ≤ 1/64`, `n·T_x ≤ R₀²`): `|sum_x_2 - T_x| ≤ 10·n·u·T_x + 14·n·u·Mx·R₀ + 41·n³·u²·Mx²`. -/
theorem sum_x_2_forward_error (r : Rnd2 F) (M : F) (hM : 0 ≤ M) (ps : List (RF2 r × RF2 r))
    (hb : ∀ p ∈ ps, |p.1.val| ≤ M) (hsmall : (ps.length : F) * r.u ≤ 1/64)
    (R₀ : F) (hR : 0 ≤ R₀) (hRT : (ps.length : F) * T (fsts (vals ps)) ≤ R₀^2) :
    |(ps.foldl addP Covariance.new).sum_x_2.val - T (fsts (vals ps))|
      ≤ 10 * ps.length * r.u * T (fsts (vals ps)) + 14 * ps.length * r.u * M * R₀
        + 41 * (ps.length : F)^3 * r.u^2 * M^2 :=
  sum_x_2_error_lin r M hM ps hb hsmall R₀ hR hRT

/-- `sum_y_2` (`n·u ≤ 1/64`, `n·T_y ≤ R₀²`): `|sum_y_2 - T_y| ≤ 10·n·u·T_y + 14·n·u·My·R₀ + 41·n³·u²·My²`. -/
theorem sum_y_2_forward_error (r : Rnd2 F) (M : F) (hM : 0 ≤ M) (ps : List (RF2 r × RF2 r))
    (hb : ∀ p ∈ ps, |p.2.val| ≤ M) (hsmall : (ps.length : F) * r.u ≤ 1/64)
    (R₀ : F) (hR : 0 ≤ R₀) (hRT : (ps.length : F) * T (snds (vals ps)) ≤ R₀^2) :
    |(ps.foldl addP Covariance.new).sum_y_2.val - T (snds (vals ps))|
      ≤ 10 * ps.length * r.u * T (snds (vals ps)) + 14 * ps.length * r.u * M * R₀
        + 41 * (ps.length : F)^3 * r.u^2 * M^2 :=
  sum_y_2_error_lin r M hM ps hb hsmall R₀ hR hRT

/-- `sum_x_2` (`(n+28)·u ≤ 1/64`): `(109/20)·n·u·T_x + (79/20)·n·u·Mx·R₀ + (15/4)·n³·u²·Mx²`. -/
theorem sum_x_2_forward_error_sharp (r : Rnd2 F) (M : F) (hM : 0 ≤ M) (ps : List (RF2 r × RF2 r))
    (hb : ∀ p ∈ ps, |p.1.val| ≤ M) (hsmall : ((ps.length : F) + 28) * r.u ≤ 1/64)
    (R₀ : F) (hR : 0 ≤ R₀) (hRT : (ps.length : F) * T (fsts (vals ps)) ≤ R₀^2) :
    |(ps.foldl addP Covariance.new).sum_x_2.val - T (fsts (vals ps))|
      ≤ 109/20 * ps.length * r.u * T (fsts (vals ps)) + 79/20 * ps.length * r.u * M * R₀
        + 15/4 * (ps.length : F)^3 * r.u^2 * M^2 :=
  sum_x_2_error_sharp r M hM ps hb hsmall R₀ hR hRT

/-- `sum_y_2` (`(n+28)·u ≤ 1/64`): `(109/20)·n·u·T_y + (79/20)·n·u·My·R₀ + (15/4)·n³·u²·My²`. -/
theorem sum_y_2_forward_error_sharp (r : Rnd2 F) (M : F) (hM : 0 ≤ M) (ps : List (RF2 r × RF2 r))
    (hb : ∀ p ∈ ps, |p.2.val| ≤ M) (hsmall : ((ps.length : F) + 28) * r.u ≤ 1/64)
    (R₀ : F) (hR : 0 ≤ R₀) (hRT : (ps.length : F) * T (snds (vals ps)) ≤ R₀^2) :
    |(ps.foldl addP Covariance.new).sum_y_2.val - T (snds (vals ps))|
      ≤ 109/20 * ps.length * r.u * T (snds (vals ps)) + 79/20 * ps.length * r.u * M * R₀
        + 15/4 * (ps.length : F)^3 * r.u^2 * M^2 :=
  sum_y_2_error_sharp r M hM ps hb hsmall R₀ hR hRT

section access
variable {r : Rnd2 F} [FloatOps (RF2 r)]

/-- `population_variance_x`, `n ≥ 1`, `(n+28)·u ≤ 1/64`, `var_x = T_x/n ≤ σ²`:
`|population_variance_x - var_x| ≤ 6·n·u·var_x + 4·n·u·Mx·σ + 4·n²·u²·Mx²`. -/
theorem population_variance_x_forward_error (M : F) (hM : 0 ≤ M) (ps : List (RF2 r × RF2 r))
    (hne : ps ≠ []) (hb : ∀ p ∈ ps, |p.1.val| ≤ M) (hsmall : ((ps.length : F) + 28) * r.u ≤ 1/64)
    (σ : F) (hσ : 0 ≤ σ) (hvar : T (fsts (vals ps)) / (ps.length : F) ≤ σ^2) :
    |(ps.foldl addP Covariance.new).populationVarianceX.val - T (fsts (vals ps)) / (ps.length : F)|
      ≤ 6 * ps.length * r.u * (T (fsts (vals ps)) / (ps.length : F))
        + 4 * ps.length * r.u * M * σ + 4 * (ps.length : F)^2 * r.u^2 * M^2 :=
  popvar_x_error_sharp M hM ps hne hb hsmall σ hσ hvar

/-- `population_variance_y`: `6·n·u·var_y + 4·n·u·My·σ + 4·n²·u²·My²`. -/
theorem population_variance_y_forward_error (M : F) (hM : 0 ≤ M) (ps : List (RF2 r × RF2 r))
    (hne : ps ≠ []) (hb : ∀ p ∈ ps, |p.2.val| ≤ M) (hsmall : ((ps.length : F) + 28) * r.u ≤ 1/64)
    (σ : F) (hσ : 0 ≤ σ) (hvar : T (snds (vals ps)) / (ps.length : F) ≤ σ^2) :
    |(ps.foldl addP Covariance.new).populationVarianceY.val - T (snds (vals ps)) / (ps.length : F)|
      ≤ 6 * ps.length * r.u * (T (snds (vals ps)) / (ps.length : F))
        + 4 * ps.length * r.u * M * σ + 4 * (ps.length : F)^2 * r.u^2 * M^2 :=
  popvar_y_error_sharp M hM ps hne hb hsmall σ hσ hvar

/-- `population_variance_x` inside the envelope of DESIGN.md section 5 (constant 8): if moreover
`n·u·Mx ≤ σ`, then `|population_variance_x - var_x| ≤ 8·n·u·(var_x + Mx·σ)` (`= 8·n·κ·u·var_x` when
`σ² = var_x`, `κ = 1 + Mx/σ`). -/
theorem population_variance_x_envelope (M : F) (hM : 0 ≤ M) (ps : List (RF2 r × RF2 r))
    (hne : ps ≠ []) (hb : ∀ p ∈ ps, |p.1.val| ≤ M) (hsmall : ((ps.length : F) + 28) * r.u ≤ 1/64)
    (σ : F) (hσ : 0 ≤ σ) (hvar : T (fsts (vals ps)) / (ps.length : F) ≤ σ^2)
    (hcond : (ps.length : F) * r.u * M ≤ σ) :
    |(ps.foldl addP Covariance.new).populationVarianceX.val - T (fsts (vals ps)) / (ps.length : F)|
      ≤ 8 * ps.length * r.u * (T (fsts (vals ps)) / (ps.length : F) + M * σ) :=
  popvar_x_error_envelope M hM ps hne hb hsmall σ hσ hvar hcond

/-- `population_variance_y` inside the envelope: `8·n·u·(var_y + My·σ)` when `n·u·My ≤ σ`. -/
theorem population_variance_y_envelope (M : F) (hM : 0 ≤ M) (ps : List (RF2 r × RF2 r))
    (hne : ps ≠ []) (hb : ∀ p ∈ ps, |p.2.val| ≤ M) (hsmall : ((ps.length : F) + 28) * r.u ≤ 1/64)
    (σ : F) (hσ : 0 ≤ σ) (hvar : T (snds (vals ps)) / (ps.length : F) ≤ σ^2)
    (hcond : (ps.length : F) * r.u * M ≤ σ) :
    |(ps.foldl addP Covariance.new).populationVarianceY.val - T (snds (vals ps)) / (ps.length : F)|
      ≤ 8 * ps.length * r.u * (T (snds (vals ps)) / (ps.length : F) + M * σ) :=
  popvar_y_error_envelope M hM ps hne hb hsmall σ hσ hvar hcond

/-- `sample_variance_x`, `n ≥ 2`, `s² = T_x/(n-1) ≤ σ²`:
`|sample_variance_x - s²| ≤ 6·n·u·s² + 8·n·u·Mx·σ + 8·n²·u²·Mx²`. -/
theorem sample_variance_x_forward_error (M : F) (hM : 0 ≤ M) (ps : List (RF2 r × RF2 r))
    (h2 : 2 ≤ ps.length) (hb : ∀ p ∈ ps, |p.1.val| ≤ M)
    (hsmall : ((ps.length : F) + 28) * r.u ≤ 1/64)
    (σ : F) (hσ : 0 ≤ σ) (hvar : T (fsts (vals ps)) / ((ps.length - 1 : ℕ) : F) ≤ σ^2) :
    |(ps.foldl addP Covariance.new).sampleVarianceX.val
        - T (fsts (vals ps)) / ((ps.length - 1 : ℕ) : F)|
      ≤ 6 * ps.length * r.u * (T (fsts (vals ps)) / ((ps.length - 1 : ℕ) : F))
        + 8 * ps.length * r.u * M * σ + 8 * (ps.length : F)^2 * r.u^2 * M^2 :=
  samplevar_x_error_sharp M hM ps h2 hb hsmall σ hσ hvar

/-- `sample_variance_y`: `6·n·u·s² + 8·n·u·My·σ + 8·n²·u²·My²`. -/
theorem sample_variance_y_forward_error (M : F) (hM : 0 ≤ M) (ps : List (RF2 r × RF2 r))
    (h2 : 2 ≤ ps.length) (hb : ∀ p ∈ ps, |p.2.val| ≤ M)
    (hsmall : ((ps.length : F) + 28) * r.u ≤ 1/64)
    (σ : F) (hσ : 0 ≤ σ) (hvar : T (snds (vals ps)) / ((ps.length - 1 : ℕ) : F) ≤ σ^2) :
    |(ps.foldl addP Covariance.new).sampleVarianceY.val
        - T (snds (vals ps)) / ((ps.length - 1 : ℕ) : F)|
      ≤ 6 * ps.length * r.u * (T (snds (vals ps)) / ((ps.length - 1 : ℕ) : F))
        + 8 * ps.length * r.u * M * σ + 8 * (ps.length : F)^2 * r.u^2 * M^2 :=
  samplevar_y_error_sharp M hM ps h2 hb hsmall σ hσ hvar

/-! ## the covariances -/

/-- **Population covariance, first pair exact.** Whatever the non-arithmetic operations of the carrier
are, `n ≥ 1` pairs, `(n+28)·u ≤ 1/64`, `cov = C/n`, any `σx, σy ≥ 0` with `T_x/n ≤ σx²`, `T_y/n ≤ σy²`:
`|population_covariance - cov| ≤ (21/4)·n·u·σx·σy + 2·n·u·Mx·σy + (17/4)·n·u·My·σx + 4·n²·u²·Mx·My`. -/
theorem population_covariance_forward_error_exact (Mx My : F) (hMx : 0 ≤ Mx) (hMy : 0 ≤ My)
    (ps : List (RF2 r × RF2 r)) (hne : ps ≠ [])
    (hbx : ∀ p ∈ ps, |p.1.val| ≤ Mx) (hby : ∀ p ∈ ps, |p.2.val| ≤ My)
    (hsmall : ((ps.length : F) + 28) * r.u ≤ 1/64) (hfirst : FirstExact ps)
    (σx σy : F) (hσx : 0 ≤ σx) (hσy : 0 ≤ σy)
    (hvx : T (fsts (vals ps)) / (ps.length : F) ≤ σx^2)
    (hvy : T (snds (vals ps)) / (ps.length : F) ≤ σy^2) :
    |(ps.foldl addP Covariance.new).populationCovariance.val - Cxy (vals ps) / (ps.length : F)|
      ≤ 21/4 * ps.length * r.u * σx * σy + 2 * ps.length * r.u * Mx * σy
        + 17/4 * ps.length * r.u * My * σx + 4 * (ps.length : F)^2 * r.u^2 * Mx * My :=
  popcov_error_sharp_exact Mx My hMx hMy ps hne hbx hby hsmall hfirst σx σy hσx hσy hvx hvy

/-- **Population covariance, standard model only**: the same `+ (7/2)·u·Mx·My/n`. -/
theorem population_covariance_forward_error_std (Mx My : F) (hMx : 0 ≤ Mx) (hMy : 0 ≤ My)
    (ps : List (RF2 r × RF2 r)) (hne : ps ≠ [])
    (hbx : ∀ p ∈ ps, |p.1.val| ≤ Mx) (hby : ∀ p ∈ ps, |p.2.val| ≤ My)
    (hsmall : ((ps.length : F) + 28) * r.u ≤ 1/64)
    (σx σy : F) (hσx : 0 ≤ σx) (hσy : 0 ≤ σy)
    (hvx : T (fsts (vals ps)) / (ps.length : F) ≤ σx^2)
    (hvy : T (snds (vals ps)) / (ps.length : F) ≤ σy^2) :
    |(ps.foldl addP Covariance.new).populationCovariance.val - Cxy (vals ps) / (ps.length : F)|
      ≤ 21/4 * ps.length * r.u * σx * σy + 2 * ps.length * r.u * Mx * σy
        + 17/4 * ps.length * r.u * My * σx + 4 * (ps.length : F)^2 * r.u^2 * Mx * My
        + 7/2 * r.u * Mx * My / (ps.length : F) :=
  popcov_error_sharp_std Mx My hMx hMy ps hne hbx hby hsmall σx σy hσx hσy hvx hvy

/-- Population covariance under the weaker hypothesis `n·u ≤ 1/64` (constants of form A):
`7·n·u·σx·σy + 8·n·u·Mx·σy + 17·n·u·My·σx + 39·n²·u²·Mx·My + 13·u·Mx·My/n`. -/
theorem population_covariance_forward_error_A (Mx My : F) (hMx : 0 ≤ Mx) (hMy : 0 ≤ My)
    (ps : List (RF2 r × RF2 r)) (hne : ps ≠ [])
    (hbx : ∀ p ∈ ps, |p.1.val| ≤ Mx) (hby : ∀ p ∈ ps, |p.2.val| ≤ My)
    (hsmall : (ps.length : F) * r.u ≤ 1/64)
    (σx σy : F) (hσx : 0 ≤ σx) (hσy : 0 ≤ σy)
    (hvx : T (fsts (vals ps)) / (ps.length : F) ≤ σx^2)
    (hvy : T (snds (vals ps)) / (ps.length : F) ≤ σy^2) :
    |(ps.foldl addP Covariance.new).populationCovariance.val - Cxy (vals ps) / (ps.length : F)|
      ≤ 7 * ps.length * r.u * σx * σy + 8 * ps.length * r.u * Mx * σy
        + 17 * ps.length * r.u * My * σx + 39 * (ps.length : F)^2 * r.u^2 * Mx * My
        + 13 * r.u * Mx * My / (ps.length : F) :=
  popcov_error_lin Mx My hMx hMy ps hne hbx hby hsmall σx σy hσx hσy hvx hvy

/-- **Sample covariance, first pair exact.** `n ≥ 2`, `cov = C/(n-1)`, `T_x/(n-1) ≤ σx²`,
`T_y/(n-1) ≤ σy²`:
`|sample_covariance - cov| ≤ (21/4)·n·u·σx·σy + 4·n·u·Mx·σy + (17/2)·n·u·My·σx + 8·n²·u²·Mx·My`. -/
theorem sample_covariance_forward_error_exact (Mx My : F) (hMx : 0 ≤ Mx) (hMy : 0 ≤ My)
    (ps : List (RF2 r × RF2 r)) (h2 : 2 ≤ ps.length)
    (hbx : ∀ p ∈ ps, |p.1.val| ≤ Mx) (hby : ∀ p ∈ ps, |p.2.val| ≤ My)
    (hsmall : ((ps.length : F) + 28) * r.u ≤ 1/64) (hfirst : FirstExact ps)
    (σx σy : F) (hσx : 0 ≤ σx) (hσy : 0 ≤ σy)
    (hvx : T (fsts (vals ps)) / ((ps.length - 1 : ℕ) : F) ≤ σx^2)
    (hvy : T (snds (vals ps)) / ((ps.length - 1 : ℕ) : F) ≤ σy^2) :
    |(ps.foldl addP Covariance.new).sampleCovariance.val
        - Cxy (vals ps) / ((ps.length - 1 : ℕ) : F)|
      ≤ 21/4 * ps.length * r.u * σx * σy + 4 * ps.length * r.u * Mx * σy
        + 17/2 * ps.length * r.u * My * σx + 8 * (ps.length : F)^2 * r.u^2 * Mx * My :=
  samplecov_error_sharp_exact Mx My hMx hMy ps h2 hbx hby hsmall hfirst σx σy hσx hσy hvx hvy

/-- **Sample covariance, standard model only**: the same `+ (7/2)·u·Mx·My/(n-1)`. -/
theorem sample_covariance_forward_error_std (Mx My : F) (hMx : 0 ≤ Mx) (hMy : 0 ≤ My)
    (ps : List (RF2 r × RF2 r)) (h2 : 2 ≤ ps.length)
    (hbx : ∀ p ∈ ps, |p.1.val| ≤ Mx) (hby : ∀ p ∈ ps, |p.2.val| ≤ My)
    (hsmall : ((ps.length : F) + 28) * r.u ≤ 1/64)
    (σx σy : F) (hσx : 0 ≤ σx) (hσy : 0 ≤ σy)
    (hvx : T (fsts (vals ps)) / ((ps.length - 1 : ℕ) : F) ≤ σx^2)
    (hvy : T (snds (vals ps)) / ((ps.length - 1 : ℕ) : F) ≤ σy^2) :
    |(ps.foldl addP Covariance.new).sampleCovariance.val
        - Cxy (vals ps) / ((ps.length - 1 : ℕ) : F)|
      ≤ 21/4 * ps.length * r.u * σx * σy + 4 * ps.length * r.u * Mx * σy
        + 17/2 * ps.length * r.u * My * σx + 8 * (ps.length : F)^2 * r.u^2 * Mx * My
        + 7/2 * r.u * Mx * My / ((ps.length - 1 : ℕ) : F) :=
  samplecov_error_sharp_std Mx My hMx hMy ps h2 hbx hby hsmall σx σy hσx hσy hvx hvy

/-- **Population covariance inside the envelope of DESIGN.md section 5.** First pair exact and
`4·n·u·Mx ≤ σx` or `4·n·u·My ≤ σy`:
`|population_covariance - cov| ≤ 8·n·u·(σx·σy + max(Mx·σy, My·σx))`. -/
theorem population_covariance_envelope (Mx My : F) (hMx : 0 ≤ Mx) (hMy : 0 ≤ My)
    (ps : List (RF2 r × RF2 r)) (hne : ps ≠ [])
    (hbx : ∀ p ∈ ps, |p.1.val| ≤ Mx) (hby : ∀ p ∈ ps, |p.2.val| ≤ My)
    (hsmall : ((ps.length : F) + 28) * r.u ≤ 1/64) (hfirst : FirstExact ps)
    (σx σy : F) (hσx : 0 ≤ σx) (hσy : 0 ≤ σy)
    (hvx : T (fsts (vals ps)) / (ps.length : F) ≤ σx^2)
    (hvy : T (snds (vals ps)) / (ps.length : F) ≤ σy^2)
    (hcond : 4 * (ps.length : F) * r.u * Mx ≤ σx ∨ 4 * (ps.length : F) * r.u * My ≤ σy) :
    |(ps.foldl addP Covariance.new).populationCovariance.val - Cxy (vals ps) / (ps.length : F)|
      ≤ 8 * ps.length * r.u * (σx * σy + max (Mx * σy) (My * σx)) :=
  popcov_error_envelope Mx My hMx hMy ps hne hbx hby hsmall hfirst σx σy hσx hσy hvx hvy hcond

/-- **Sample covariance in terms of the population standard deviations** (as DESIGN.md section 5 measures
the conditioning), any bound `ε` for the first pair: `n ≥ 2`, `T_x/n ≤ σx²`, `T_y/n ≤ σy²`: the bound of
`population_covariance` times `n/(n-1)`,
`|sample_covariance - C/(n-1)| ≤ ((21/4)·n·u·σx·σy + 2·n·u·Mx·σy + (17/4)·n·u·My·σx + 4·n²·u²·Mx·My
    + (11/10)·ε·Mx/n)·n/(n-1)`. -/
theorem sample_covariance_forward_error_pop (Mx My : F) (hMx : 0 ≤ Mx) (hMy : 0 ≤ My)
    (ps : List (RF2 r × RF2 r)) (h2 : 2 ≤ ps.length)
    (hbx : ∀ p ∈ ps, |p.1.val| ≤ Mx) (hby : ∀ p ∈ ps, |p.2.val| ≤ My)
    (hsmall : ((ps.length : F) + 28) * r.u ≤ 1/64)
    (ε : F) (hε : 0 ≤ ε)
    (h1 : ∀ p, ps.head? = some p →
      |((Covariance.new : Covariance (RF2 r)).add p.1 p.2).avg_y.val - p.2.val| ≤ ε)
    (σx σy : F) (hσx : 0 ≤ σx) (hσy : 0 ≤ σy)
    (hvx : T (fsts (vals ps)) / (ps.length : F) ≤ σx^2)
    (hvy : T (snds (vals ps)) / (ps.length : F) ≤ σy^2) :
    |(ps.foldl addP Covariance.new).sampleCovariance.val
        - Cxy (vals ps) / ((ps.length - 1 : ℕ) : F)|
      ≤ (21/4 * ps.length * r.u * σx * σy + 2 * ps.length * r.u * Mx * σy
          + 17/4 * ps.length * r.u * My * σx + 4 * (ps.length : F)^2 * r.u^2 * Mx * My
          + 11/10 * ε * Mx / (ps.length : F))
        * ((ps.length : F) / ((ps.length - 1 : ℕ) : F)) :=
  samplecov_error_sharp_pop Mx My hMx hMy ps h2 hbx hby hsmall ε hε h1 σx σy hσx hσy hvx hvy

/-- **Sample covariance inside the envelope of DESIGN.md section 5** (population `σ`s, scale
`sqrt(S_xx·S_yy)/(n-1)`): first pair exact and `4·n·u·Mx ≤ σx` or `4·n·u·My ≤ σy`:
`|sample_covariance - C/(n-1)| ≤ 8·n·u·(σx·σy + max(Mx·σy, My·σx))·n/(n-1)`. -/
theorem sample_covariance_envelope (Mx My : F) (hMx : 0 ≤ Mx) (hMy : 0 ≤ My)
    (ps : List (RF2 r × RF2 r)) (h2 : 2 ≤ ps.length)
    (hbx : ∀ p ∈ ps, |p.1.val| ≤ Mx) (hby : ∀ p ∈ ps, |p.2.val| ≤ My)
    (hsmall : ((ps.length : F) + 28) * r.u ≤ 1/64) (hfirst : FirstExact ps)
    (σx σy : F) (hσx : 0 ≤ σx) (hσy : 0 ≤ σy)
    (hvx : T (fsts (vals ps)) / (ps.length : F) ≤ σx^2)
    (hvy : T (snds (vals ps)) / (ps.length : F) ≤ σy^2)
    (hcond : 4 * (ps.length : F) * r.u * Mx ≤ σx ∨ 4 * (ps.length : F) * r.u * My ≤ σy) :
    |(ps.foldl addP Covariance.new).sampleCovariance.val
        - Cxy (vals ps) / ((ps.length - 1 : ℕ) : F)|
      ≤ 8 * ps.length * r.u * (σx * σy + max (Mx * σy) (My * σx))
        * ((ps.length : F) / ((ps.length - 1 : ℕ) : F)) :=
  samplecov_error_envelope Mx My hMx hMy ps h2 hbx hby hsmall hfirst σx σy hσx hσy hvx hvy hcond

end access

/-- **The envelope clause of C09 for `population_covariance`, in the words of DESIGN.md section 5.** Over ℝ,
`n ≥ 1` pairs with `|x_i| ≤ Mx`, `|y_i| ≤ My`, exact variances `var_x, var_y > 0`, `σx = sqrt(var_x)`,
`σy = sqrt(var_y)`, `κ = 1 + max(Mx/σx, My/σy)`, `(n+28)·u ≤ 1/64`, first pair exact, and
`4·n·u·Mx ≤ σx` or `4·n·u·My ≤ σy`:
`|population_covariance - cov| ≤ 8·n·κ·u·sqrt(S_xx·S_yy)/n`. -/
theorem population_covariance_envelope_kappa {r : Rnd2 ℝ} [FloatOps (RF2 r)] (Mx My : ℝ)
    (hMx : 0 ≤ Mx) (hMy : 0 ≤ My) (ps : List (RF2 r × RF2 r)) (hne : ps ≠ [])
    (hbx : ∀ p ∈ ps, |p.1.val| ≤ Mx) (hby : ∀ p ∈ ps, |p.2.val| ≤ My)
    (hsmall : ((ps.length : ℝ) + 28) * r.u ≤ 1/64) (hfirst : FirstExact ps)
    (hposx : 0 < T (fsts (vals ps)) / (ps.length : ℝ))
    (hposy : 0 < T (snds (vals ps)) / (ps.length : ℝ))
    (hcond : 4 * (ps.length : ℝ) * r.u * Mx ≤ Real.sqrt (T (fsts (vals ps)) / (ps.length : ℝ))
      ∨ 4 * (ps.length : ℝ) * r.u * My ≤ Real.sqrt (T (snds (vals ps)) / (ps.length : ℝ))) :
    |(ps.foldl addP Covariance.new).populationCovariance.val - Cxy (vals ps) / (ps.length : ℝ)|
      ≤ 8 * ps.length
          * (1 + max (Mx / Real.sqrt (T (fsts (vals ps)) / (ps.length : ℝ)))
                     (My / Real.sqrt (T (snds (vals ps)) / (ps.length : ℝ)))) * r.u
          * (Real.sqrt (T (fsts (vals ps)) * T (snds (vals ps))) / (ps.length : ℝ)) :=
  popcov_envelope_kappa Mx My hMx hMy ps hne hbx hby hsmall hfirst hposx hposy hcond

/-- **The envelope clause of C09 for `sample_covariance`, in the words of DESIGN.md section 5.** Over ℝ,
`n ≥ 2` pairs, population variances `var_x, var_y > 0`, `σx = sqrt(var_x)`, `σy = sqrt(var_y)`,
`κ = 1 + max(Mx/σx, My/σy)`, `(n+28)·u ≤ 1/64`, first pair exact, `4·n·u·Mx ≤ σx` or `4·n·u·My ≤ σy`:
`|sample_covariance - C/(n-1)| ≤ 8·n·κ·u·sqrt(S_xx·S_yy)/(n-1)`. -/
theorem sample_covariance_envelope_kappa {r : Rnd2 ℝ} [FloatOps (RF2 r)] (Mx My : ℝ)
    (hMx : 0 ≤ Mx) (hMy : 0 ≤ My) (ps : List (RF2 r × RF2 r)) (h2 : 2 ≤ ps.length)
    (hbx : ∀ p ∈ ps, |p.1.val| ≤ Mx) (hby : ∀ p ∈ ps, |p.2.val| ≤ My)
    (hsmall : ((ps.length : ℝ) + 28) * r.u ≤ 1/64) (hfirst : FirstExact ps)
    (hposx : 0 < T (fsts (vals ps)) / (ps.length : ℝ))
    (hposy : 0 < T (snds (vals ps)) / (ps.length : ℝ))
    (hcond : 4 * (ps.length : ℝ) * r.u * Mx ≤ Real.sqrt (T (fsts (vals ps)) / (ps.length : ℝ))
      ∨ 4 * (ps.length : ℝ) * r.u * My ≤ Real.sqrt (T (snds (vals ps)) / (ps.length : ℝ))) :
    |(ps.foldl addP Covariance.new).sampleCovariance.val
        - Cxy (vals ps) / ((ps.length - 1 : ℕ) : ℝ)|
      ≤ 8 * ps.length
          * (1 + max (Mx / Real.sqrt (T (fsts (vals ps)) / (ps.length : ℝ)))
                     (My / Real.sqrt (T (snds (vals ps)) / (ps.length : ℝ)))) * r.u
          * (Real.sqrt (T (fsts (vals ps)) * T (snds (vals ps))) / ((ps.length - 1 : ℕ) : ℝ)) :=
  samplecov_envelope_kappa Mx My hMx hMy ps h2 hbx hby hsmall hfirst hposx hposy hcond

/-! ## Non-vacuity -/

open Props.C02b (awayRnd)

/-- a rounding that is exact on the integers and moves everything else away from zero by the full
relative amount `u = 2^-53` -/
def intRnd : Rnd2 ℚ :=
  ⟨fun t => if t.den = 1 then t else t * (1 + 1/2^53), 1/2^53, by norm_num, fun t => by
    split
    · simp only [sub_self, abs_zero]; positivity
    · have : t * (1 + 1/2^53) - t = (1/2^53) * t := by ring
      rw [this, abs_mul, abs_of_pos (by norm_num : (0:ℚ) < 1/2^53)]⟩

/-- an ill-conditioned stream of pairs: offsets 1000 and 5000, spreads 4 -/
def exPairs (r : Rnd2 ℚ) : List (RF2 r × RF2 r) :=
  [(⟨1001⟩, ⟨5007⟩), (⟨999⟩, ⟨5003⟩), (⟨1002⟩, ⟨5006⟩), (⟨998⟩, ⟨5004⟩)]

theorem exPairs_spec (r : Rnd2 ℚ) :
    T (fsts (vals (exPairs r))) = 10 ∧ T (snds (vals (exPairs r))) = 10
    ∧ Cxy (vals (exPairs r)) = 8 := by
  refine ⟨?_, ?_, ?_⟩ <;> norm_num [exPairs, vals, fsts, snds, T, Cxy, coSum, sumPow, mean]

theorem exPairs_bounds (r : Rnd2 ℚ) :
    (∀ p ∈ exPairs r, |p.1.val| ≤ 1002) ∧ (∀ p ∈ exPairs r, |p.2.val| ≤ 5007) := by
  constructor <;>
  · intro p hp
    simp only [exPairs, List.mem_cons, List.not_mem_nil, or_false] at hp
    rcases hp with rfl | rfl | rfl | rfl <;> norm_num

/-- the first pair of `exPairs` is exact under `intRnd` (its `y` is an integer) -/
theorem exPairs_firstExact : FirstExact (exPairs intRnd) := by
  rw [firstExact_iff]
  intro p hp
  simp only [exPairs, List.head?_cons, Option.some.injEq] at hp
  subst hp
  norm_num [intRnd]

/-- the hypotheses of `sum_prod_forward_error_sharp_exact` are met by `exPairs intRnd` with `Mx = 1002`,
`My = 5007`, `u = 2^-53`, `Rxy = 10`, `Rx = Ry = 7` (`n·T = 40 ≤ 49`), and the conclusion is a concrete
statement about a computation (9 rounded operations per pair feed `sum_prod`; those with a non-integer
result are never exact): the computed `sum_prod` is within about `6.4·10^5·u` of the exact `C = 8`; a
bound quadratic in the offsets, `n²·u·Mx·My`, would be `8·10^7·u`. -/
example : |((exPairs intRnd).foldl addP Covariance.new).sum_prod.val - 8|
    ≤ 21/5 * 4 * (1/2^53) * 10 + 79/40 * 4 * (1/2^53) * 1002 * 7 + 21/5 * 4 * (1/2^53) * 5007 * 7
      + 39/10 * (4:ℚ)^3 * (1/2^53)^2 * 1002 * 5007 := by
  obtain ⟨hTx, hTy, hC⟩ := exPairs_spec intRnd
  obtain ⟨hbx, hby⟩ := exPairs_bounds intRnd
  have hl : ((exPairs intRnd).length : ℚ) = 4 := by norm_num [exPairs]
  have hu : intRnd.u = 1/2^53 := rfl
  have h := sum_prod_forward_error_sharp_exact intRnd 1002 5007 (by norm_num) (by norm_num)
    (exPairs intRnd) hbx hby (by rw [hl, hu]; norm_num) exPairs_firstExact 10 7 7
    (by norm_num) (by norm_num) (by norm_num)
    (by rw [hTx, hTy]; norm_num) (by rw [hTx, hl]; norm_num) (by rw [hTy, hl]; norm_num)
  rw [hC, hl, hu] at h
  exact h

/-- under `awayRnd` (never exact) no `FirstExact` is available; `sum_prod_forward_error_sharp_std`
applies and gives the same bound `+ (13/4)·u·1002·5007` (the first pair: about `1.6·10^7·u`, and indeed
the computed `sum_prod` is off by about `3u·1001·5007` after the first pair, see
`first_pair_term_is_genuine`) -/
example : |((exPairs awayRnd).foldl addP Covariance.new).sum_prod.val - 8|
    ≤ 21/5 * 4 * (1/2^53) * 10 + 79/40 * 4 * (1/2^53) * 1002 * 7 + 21/5 * 4 * (1/2^53) * 5007 * 7
      + 39/10 * (4:ℚ)^3 * (1/2^53)^2 * 1002 * 5007 + 13/4 * (1/2^53) * 1002 * 5007 := by
  obtain ⟨hTx, hTy, hC⟩ := exPairs_spec awayRnd
  obtain ⟨hbx, hby⟩ := exPairs_bounds awayRnd
  have hl : ((exPairs awayRnd).length : ℚ) = 4 := by norm_num [exPairs]
  have hu : awayRnd.u = 1/2^53 := rfl
  have h := sum_prod_forward_error_sharp_std awayRnd 1002 5007 (by norm_num) (by norm_num)
    (exPairs awayRnd) hbx hby (by rw [hl, hu]; norm_num) 10 7 7
    (by norm_num) (by norm_num) (by norm_num)
    (by rw [hTx, hTy]; norm_num) (by rw [hTx, hl]; norm_num) (by rw [hTy, hl]; norm_num)
  rw [hC, hl, hu] at h
  exact h

/-- the hypotheses of `population_covariance_envelope` are met by `exPairs intRnd` (any `FloatOps`
instance) with `σx = σy = 2` (`var = 10/4 ≤ 4`): `4·n·u·Mx = 16032·u ≤ 2` -/
example [FloatOps (RF2 intRnd)] :
    |((exPairs intRnd).foldl addP Covariance.new).populationCovariance.val - 8 / 4|
      ≤ 8 * 4 * (1/2^53) * (2 * 2 + max (1002 * 2) (5007 * 2)) := by
  obtain ⟨hTx, hTy, hC⟩ := exPairs_spec intRnd
  obtain ⟨hbx, hby⟩ := exPairs_bounds intRnd
  have hl : ((exPairs intRnd).length : ℚ) = 4 := by norm_num [exPairs]
  have hu : intRnd.u = 1/2^53 := rfl
  have h := population_covariance_envelope 1002 5007 (by norm_num) (by norm_num)
    (exPairs intRnd) (by simp [exPairs]) hbx hby (by rw [hl, hu]; norm_num) exPairs_firstExact 2 2
    (by norm_num) (by norm_num)
    (by rw [hTx, hl]; norm_num) (by rw [hTy, hl]; norm_num) (Or.inl (by rw [hl, hu]; norm_num))
  rw [hC, hl, hu] at h
  exact h

/-- **The term `u·Mx·My` cannot be dropped in the standard model.** Under `awayRnd` the single pair
`(1, 1)` gives `sum_prod = -(1+u)⁴((1+u)³ - 1)`, so `|sum_prod - C| ≥ 3u` while `C = T_x = T_y = 0`: every
bound that vanishes with `T_x, T_y` up to `O(u²)` is false for this carrier. -/
theorem first_pair_term_is_genuine :
    Cxy (vals ([(⟨1⟩, ⟨1⟩)] : List (RF2 awayRnd × RF2 awayRnd))) = 0
    ∧ T (fsts (vals ([(⟨1⟩, ⟨1⟩)] : List (RF2 awayRnd × RF2 awayRnd)))) = 0
    ∧ T (snds (vals ([(⟨1⟩, ⟨1⟩)] : List (RF2 awayRnd × RF2 awayRnd)))) = 0
    ∧ 3 * awayRnd.u ≤
        |(([(⟨1⟩, ⟨1⟩)] : List (RF2 awayRnd × RF2 awayRnd)).foldl addP Covariance.new).sum_prod.val
          - Cxy (vals ([(⟨1⟩, ⟨1⟩)] : List (RF2 awayRnd × RF2 awayRnd)))| := by
  have hC : Cxy (vals ([(⟨1⟩, ⟨1⟩)] : List (RF2 awayRnd × RF2 awayRnd))) = 0 := by
    norm_num [vals, fsts, snds, Cxy, coSum, mean]
  refine ⟨hC, ?_, ?_, ?_⟩
  · norm_num [vals, fsts, T, sumPow, mean]
  · norm_num [vals, snds, T, sumPow, mean]
  · rw [hC, sub_zero]
    have hfl : ∀ t, awayRnd.fl t = t * (1 + 1/2^53) := fun _ => rfl
    have h0 : (Covariance.new : Covariance (RF2 awayRnd)).sum_prod.val = 0 :=
      (Nat.cast_zero : ((0 : ℕ) : ℚ) = 0)
    have h0x : (Covariance.new : Covariance (RF2 awayRnd)).avg_x.val = 0 :=
      (Nat.cast_zero : ((0 : ℕ) : ℚ) = 0)
    have hval : (([(⟨1⟩, ⟨1⟩)] : List (RF2 awayRnd × RF2 awayRnd)).foldl addP
        Covariance.new).sum_prod.val = -((1 + 1/2^53)^4 * ((1 + 1/2^53)^3 - 1)) := by
      simp only [List.foldl_cons, List.foldl_nil, addP]
      rw [sum_prod_add_val, first_avg_y_val, h0, h0x]
      simp only [hfl]
      ring
    rw [hval, abs_neg, abs_of_nonneg (by norm_num)]
    norm_num [awayRnd]

end Props.C09b

#print axioms Props.C09b.x_part_is_variance
#print axioms Props.C09b.y_part_is_variance
#print axioms Props.C09b.variance_accessors
#print axioms Props.C09b.count_exact
#print axioms Props.C09b.sum_prod_update_text
#print axioms Props.C09b.spec_def
#print axioms Props.C09b.spec_is_exact_run
#print axioms Props.C09b.sum_prod_exact_recurrence
#print axioms Props.C09b.sum_prod_exact_recurrence'
#print axioms Props.C09b.co_moment_le_abs_increments
#print axioms Props.C09b.abs_increments_cauchy_schwarz
#print axioms Props.C09b.sum_prod_computed_update
#print axioms Props.C09b.increment_rounding_error
#print axioms Props.C09b.three_roundings
#print axioms Props.C09b.sum_prod_step_error
#print axioms Props.C09b.sum_prod_forward_error_general
#print axioms Props.C09b.means_are_mean_folds
#print axioms Props.C09b.sum_prod_forward_error_general_cs
#print axioms Props.C09b.sum_prod_forward_error_symbolic
#print axioms Props.C09b.sum_prod_forward_error_sharp_symbolic
#print axioms Props.C09b.sum_prod_forward_error
#print axioms Props.C09b.sum_prod_forward_error_amgm
#print axioms Props.C09b.sum_prod_forward_error_sqrt
#print axioms Props.C09b.first_pair_error
#print axioms Props.C09b.firstExact_def
#print axioms Props.C09b.sum_prod_forward_error_sharp
#print axioms Props.C09b.sum_prod_forward_error_sharp_exact
#print axioms Props.C09b.sum_prod_forward_error_sharp_exact_sqrt
#print axioms Props.C09b.sum_prod_forward_error_sharp_std
#print axioms Props.C09b.sum_x_2_forward_error
#print axioms Props.C09b.sum_y_2_forward_error
#print axioms Props.C09b.sum_x_2_forward_error_sharp
#print axioms Props.C09b.sum_y_2_forward_error_sharp
#print axioms Props.C09b.population_variance_x_forward_error
#print axioms Props.C09b.population_variance_y_forward_error
#print axioms Props.C09b.population_variance_x_envelope
#print axioms Props.C09b.population_variance_y_envelope
#print axioms Props.C09b.sample_variance_x_forward_error
#print axioms Props.C09b.sample_variance_y_forward_error
#print axioms Props.C09b.population_covariance_forward_error_exact
#print axioms Props.C09b.population_covariance_forward_error_std
#print axioms Props.C09b.population_covariance_forward_error_A
#print axioms Props.C09b.sample_covariance_forward_error_exact
#print axioms Props.C09b.sample_covariance_forward_error_std
#print axioms Props.C09b.sample_covariance_forward_error_pop
#print axioms Props.C09b.sample_covariance_envelope
#print axioms Props.C09b.population_covariance_envelope
#print axioms Props.C09b.population_covariance_envelope_kappa
#print axioms Props.C09b.sample_covariance_envelope_kappa
#print axioms Props.C09b.first_pair_term_is_genuine
