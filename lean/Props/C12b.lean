import AvgProofs.HistConstWidthErr

/-!
# C12b - `with_const_width`: the edges are within a few ulps of the exact ones

Carrier R2 (`RF2 r`): every `+ - * /` is followed by a rounding `fl` with
`|fl t - t| ≤ u |t|` (standard model, no underflow/overflow), `u ≥ 0`; the integer-to-float casts of
`LEN` and `i` are exact (both are below `2^53`). Edge `i` is then
`fl(start + fl(fl(fl(end - start) / LEN) * i))`: four roundings.

With `M = max |start| |end|` the error of edge `i` against `start + i (end - start) / LEN` is at most
`M (7u + 12u² + 8u³ + 2u⁴)` for every `u`; this polynomial is attained in the model, so it cannot be
improved. It is at most `8 u M` when `u ≤ 1/16` (binary64: `u = 2^-53`); `u ≤ 1/8` is not enough
(`edge_error_8u_fails_at_eighth`). No ordering of `start` and `end` is assumed.
-/
open Avg

namespace Props.C12b
variable {K : Type} [Field K] [LinearOrder K] [IsStrictOrderedRing K] {r : Rnd2 K}

/-- **Every unit roundoff.** For every `LEN ≥ 1`, every `i ≤ LEN` and all `start`, `end`: edge `i`
exists and differs from the exact `start + i (end - start) / LEN` by at most
`max(|start|,|end|) · (7u + 12u² + 8u³ + 2u⁴)`. -/
theorem edge_error_poly (LEN : Nat) (hLEN : 1 ≤ LEN) (start end_ : RF2 r) (i : Nat) (hi : i ≤ LEN) :
    ∃ v, (Hist.withConstWidth LEN start end_).range[i]? = some v ∧
      |v.val - (start.val + (i : K) * (end_.val - start.val) / (LEN : K))|
        ≤ max |start.val| |end_.val| * (7 * r.u + 12 * r.u ^ 2 + 8 * r.u ^ 3 + 2 * r.u ^ 4) :=
  withConstWidth_edge_err LEN hLEN start end_ i hi

/-- **Edge `i` is within `8u·max(|start|,|end|)` of the exact edge** whenever `u ≤ 1/16`
(every `LEN ≥ 1`, every `i ≤ LEN`, every `start`, `end` in either order). -/
theorem edge_error (hu : r.u ≤ 1 / 16) (LEN : Nat) (hLEN : 1 ≤ LEN) (start end_ : RF2 r) (i : Nat)
    (hi : i ≤ LEN) :
    ∃ v, (Hist.withConstWidth LEN start end_).range[i]? = some v ∧
      |v.val - (start.val + (i : K) * (end_.val - start.val) / (LEN : K))|
        ≤ 8 * r.u * max |start.val| |end_.val| := by
  obtain ⟨v, hv, hb⟩ := withConstWidth_edge_err LEN hLEN start end_ i hi
  refine ⟨v, hv, le_trans hb ?_⟩
  have hM : 0 ≤ max |start.val| |end_.val| := le_trans (abs_nonneg _) (le_max_left _ _)
  have := cwPoly_le_8u r.u r.u_nonneg hu
  calc max |start.val| |end_.val| * cwPoly r.u ≤ max |start.val| |end_.val| * (8 * r.u) := by gcongr
    _ = 8 * r.u * max |start.val| |end_.val| := by ring

/-- **The last edge is within `8u·max(|start|,|end|)` of `end`** (`u ≤ 1/16`, `LEN ≥ 1`). -/
theorem last_edge_error (hu : r.u ≤ 1 / 16) (LEN : Nat) (hLEN : 1 ≤ LEN) (start end_ : RF2 r) :
    ∃ v, (Hist.withConstWidth LEN start end_).range[LEN]? = some v ∧
      |v.val - end_.val| ≤ 8 * r.u * max |start.val| |end_.val| := by
  obtain ⟨v, hv, hb⟩ := edge_error hu LEN hLEN start end_ LEN (le_refl _)
  refine ⟨v, hv, ?_⟩
  have hL : (LEN : K) ≠ 0 := Nat.cast_ne_zero.mpr (by omega)
  have : start.val + (LEN : K) * (end_.val - start.val) / (LEN : K) = end_.val := by
    field_simp; ring
  rwa [this] at hb

/-- **Edge 0 is `fl(start)`**: within `u·|start|` of `start` (every `u`, every `LEN`, also `LEN = 0`),
and exactly `start` when `start` is representable (`fl start = start`, as every `f64` argument is). -/
theorem first_edge (LEN : Nat) (start end_ : RF2 r) :
    (∃ v, (Hist.withConstWidth LEN start end_).range[0]? = some v ∧ v.val = r.fl start.val
        ∧ |v.val - start.val| ≤ r.u * |start.val|)
    ∧ (r.fl start.val = start.val → (Hist.withConstWidth LEN start end_).range[0]? = some start) := by
  obtain ⟨v, hv, hval⟩ := withConstWidth_first2 LEN start end_
  refine ⟨⟨v, hv, hval, by rw [hval]; exact r.err _⟩, fun hs => ?_⟩
  rw [hv]; congr 1; exact RF2.ext' (by rw [hval, hs])

/-- **The polynomial bound is attained** (so `edge_error_poly` cannot be improved): on `ℚ` with
`fl t = (1+u) t`, `start = -1`, `end = 1`, `LEN = 1`, the last edge is exactly
`1 + (7u + 12u² + 8u³ + 2u⁴)`. -/
theorem edge_error_poly_sharp (u : ℚ) (hu : 0 ≤ u) :
    ∃ v, (Hist.withConstWidth 1 (⟨-1⟩ : RF2 (scaleRnd u hu)) ⟨1⟩).range[1]? = some v ∧
      v.val - 1 = 7 * u + 12 * u ^ 2 + 8 * u ^ 3 + 2 * u ^ 4 :=
  cw_edge_err_sharp u hu

/-- **`u ≤ 1/8` is not enough for the constant 8**: there is a rounding with `u = 1/8` for which the
last edge is further than `8u·max(|start|,|end|)` from `end`. -/
theorem edge_error_8u_fails_at_eighth :
    ∃ (r : Rnd2 ℚ) (s e v : RF2 r), r.u = 1 / 8 ∧
      (Hist.withConstWidth 1 s e).range[1]? = some v ∧
      8 * r.u * max |s.val| |e.val| < |v.val - (s.val + (1 : ℚ) * (e.val - s.val) / 1)| :=
  cw_edge_not_8u_at_eighth

/-! ## non-vacuity -/

/-- the hypotheses are satisfiable by a rounding that does round: `fl t = (1 + 2^-10) t` on `ℚ`,
`u = 2^-10 ≤ 1/16`, `LEN = 4`, `i = 3`, `start = -3`, `end = 5` -/
example : ∃ (r : Rnd2 ℚ) (s e : RF2 r) (LEN i : Nat), r.u ≤ 1 / 16 ∧ 0 < r.u ∧ 1 ≤ LEN ∧ i ≤ LEN ∧
    s.val ≠ e.val ∧ r.fl s.val ≠ s.val :=
  ⟨scaleRnd (1 / 1024) (by norm_num), ⟨-3⟩, ⟨5⟩, 4, 3, by norm_num [scaleRnd], by norm_num [scaleRnd],
    by decide, by decide, by norm_num, by norm_num [scaleRnd]⟩

end Props.C12b

#print axioms Props.C12b.edge_error_poly
#print axioms Props.C12b.edge_error
#print axioms Props.C12b.last_edge_error
#print axioms Props.C12b.first_edge
#print axioms Props.C12b.edge_error_poly_sharp
#print axioms Props.C12b.edge_error_8u_fails_at_eighth
