import AvgProofs.SqrtErr
import Mathlib.Tactic.NormNum

/-!
# C01 / C03 / C10 (addendum) - `variance_of_mean` and `error` in floating point, proved for add-only streams

Carrier **R2** (`RF2 r`, `AvgProofs/MeanErr2.lean`): every `+ - * /` is followed by a rounding `r.fl` with
`|fl t - t| ≤ u·|t|` (standard model: no overflow, no underflow); counts are converted exactly. For the
square root the model is extended by `RndSqrt r` (`AvgProofs/SqrtErr.lean`): a function `sqrtfl` with
`|sqrtfl t - √t| ≤ u·√t` for `t ≥ 0` - IEEE-754 `sqrt` is correctly rounded. `SqrtIs q` says that the
`FloatOps (RF2 r)` instance takes square roots with `q.sqrtfl` (`rf2SqrtFloatOps r q` is such an instance;
its comparisons compare the values).

Notation: `n ≥ 2` observations, `|x_i| ≤ M`, `T = Σ(x - mean)²` (`VarSpec.T`), `v = T/((n-1)·n)` the exact
variance of the mean, `e = √v` the exact standard error, `σ² ≥ T/n` (population variance).

What the code computes: `variance_of_mean = fl(fl(sum_2/(n-1))/n)` (`variance_of_mean_computed`),
`error = sqrtfl(variance_of_mean)` (`error_computed`). `Skewness::error_mean`, `Kurtosis::error_mean` and the
`define_moments!` structs delegate to the same code.

Results (`(n+28)·u ≤ 1/64`):
* `variance_of_mean_nonneg`: the computed value is `≥ 0` (so `error` is the square root of a non-negative
  number in this model as well; `Props.C17` has the same for monotone roundings and every history).
* `variance_of_mean_forward_error`:
  `|variance_of_mean - v| ≤ (13/2)·n·u·v + (4·n·u·M·σ + 4·n²·u²·M²)/(n-1)`;
* `variance_of_mean_envelope`: `≤ 8·n·u·(v + M·σ/(n-1))` when `n·u·M ≤ σ`;
  `variance_of_mean_envelope_kappa` (ℝ, `σ = √(T/n)`, `κ = 1 + M/σ`): `≤ 8·n·κ·u·v` - the envelope of
  DESIGN.md section 5 (scale: the exact value, constant 8);
* `error_forward_error` (no side condition, second-order term explicit):
  `|error - e| ≤ (1+u)·B/e + u·e`, `B` the bound of `variance_of_mean_forward_error`;
* `error_envelope_kappa`: `|error - e| ≤ 8·n·κ·u·e` when `n·u·M ≤ σ` - DESIGN.md section 5 (`error()`:
  scale its exact value, constant 8).

The square root halves a *small* relative error; no use is made of that (it would need `n·κ·u ≪ 1`): the
constant `8` is inherited from the variance with room for the two extra roundings.
Not covered: merge trees (for `sum_2` see `Props.C02c`).
-/
open Avg MSpec VarSpec

namespace Props.C01c
variable {F : Type} [Field F] [LinearOrder F] [IsStrictOrderedRing F]

section general
variable {r : Rnd2 F} [FloatOps (RF2 r)]

/-- What `variance_of_mean` computes at R2 for `n ≥ 2`: `fl(fl(sum_2/(n-1))/n)` (two rounded divisions by
exactly converted counts). -/
theorem variance_of_mean_computed (xs : List (RF2 r)) (h2 : 2 ≤ xs.length) :
    (xs.foldl Variance.add Variance.new).varianceOfMean.val
      = r.fl (r.fl ((xs.foldl Variance.add Variance.new).sum_2.val / ((xs.length - 1 : ℕ) : F))
          / (xs.length : F)) :=
  vom_val xs h2

omit [FloatOps (RF2 r)] in
/-- At R2 with `u ≤ 1` the stored sum of squares is `≥ 0` after every add-only stream (no hypothesis on the
data). -/
theorem sum2_nonneg (hu1 : r.u ≤ 1) (xs : List (RF2 r)) :
    0 ≤ (xs.foldl Variance.add Variance.new).sum_2.val :=
  var_fold_sum2_nonneg r hu1 xs

/-- Hence `variance_of_mean ≥ 0` (`n ≥ 2`, `u ≤ 1`, any data). -/
theorem variance_of_mean_nonneg (hu1 : r.u ≤ 1) (xs : List (RF2 r)) (h2 : 2 ≤ xs.length) :
    0 ≤ (xs.foldl Variance.add Variance.new).varianceOfMean.val :=
  vom_nonneg hu1 xs h2

/-- **`variance_of_mean`, sharp numerals.** `n ≥ 2`, `|x_i| ≤ M`, `(n+28)·u ≤ 1/64`, `v = T/((n-1)n)`, any
`σ ≥ 0` with `T/n ≤ σ²`:
`|variance_of_mean - v| ≤ (13/2)·n·u·v + ((99/25)·n·u·M·σ + (94/25)·n²·u²·M²)/(n-1)`. -/
theorem variance_of_mean_forward_error_sharp (M : F) (hM : 0 ≤ M) (xs : List (RF2 r)) (h2 : 2 ≤ xs.length)
    (hb : ∀ x ∈ xs, |x.val| ≤ M) (hsmall : ((xs.length : F) + 28) * r.u ≤ 1/64)
    (σ : F) (hσ : 0 ≤ σ) (hvar : T (xs.map RF2.val) / (xs.length : F) ≤ σ^2) :
    |(xs.foldl Variance.add Variance.new).varianceOfMean.val
        - T (xs.map RF2.val) / ((xs.length - 1 : ℕ) : F) / (xs.length : F)|
      ≤ 13/2 * xs.length * r.u * (T (xs.map RF2.val) / ((xs.length - 1 : ℕ) : F) / (xs.length : F))
        + (99/25 * xs.length * r.u * M * σ + 94/25 * (xs.length : F)^2 * r.u^2 * M^2)
            / ((xs.length - 1 : ℕ) : F) :=
  vom_error_sharp M hM xs h2 hb hsmall σ hσ hvar

/-- **`variance_of_mean`.** The same with integer numerals:
`|variance_of_mean - v| ≤ (13/2)·n·u·v + (4·n·u·M·σ + 4·n²·u²·M²)/(n-1)`. -/
theorem variance_of_mean_forward_error (M : F) (hM : 0 ≤ M) (xs : List (RF2 r)) (h2 : 2 ≤ xs.length)
    (hb : ∀ x ∈ xs, |x.val| ≤ M) (hsmall : ((xs.length : F) + 28) * r.u ≤ 1/64)
    (σ : F) (hσ : 0 ≤ σ) (hvar : T (xs.map RF2.val) / (xs.length : F) ≤ σ^2) :
    |(xs.foldl Variance.add Variance.new).varianceOfMean.val
        - T (xs.map RF2.val) / ((xs.length - 1 : ℕ) : F) / (xs.length : F)|
      ≤ 13/2 * xs.length * r.u * (T (xs.map RF2.val) / ((xs.length - 1 : ℕ) : F) / (xs.length : F))
        + (4 * xs.length * r.u * M * σ + 4 * (xs.length : F)^2 * r.u^2 * M^2)
            / ((xs.length - 1 : ℕ) : F) := by
  refine le_trans (vom_error_sharp M hM xs h2 hb hsmall σ hσ hvar) ?_
  have hu := r.u_nonneg
  have hn0 : (0:F) ≤ (xs.length : F) := Nat.cast_nonneg _
  have hm0 : (0:F) ≤ ((xs.length - 1 : ℕ) : F) := Nat.cast_nonneg _
  have a1 : 0 ≤ (xs.length : F) * r.u * M * σ := by positivity
  have a2 : 0 ≤ (xs.length : F)^2 * r.u^2 * M^2 := by positivity
  gcongr <;> linarith

/-- **Inside the envelope of DESIGN.md section 5.** If moreover `n·u·M ≤ σ`:
`|variance_of_mean - v| ≤ (13/2)·n·u·v + (193/25)·n·u·M·σ/(n-1) ≤ 8·n·u·(v + M·σ/(n-1))`. -/
theorem variance_of_mean_envelope (M : F) (hM : 0 ≤ M) (xs : List (RF2 r)) (h2 : 2 ≤ xs.length)
    (hb : ∀ x ∈ xs, |x.val| ≤ M) (hsmall : ((xs.length : F) + 28) * r.u ≤ 1/64)
    (σ : F) (hσ : 0 ≤ σ) (hvar : T (xs.map RF2.val) / (xs.length : F) ≤ σ^2)
    (hcond : (xs.length : F) * r.u * M ≤ σ) :
    |(xs.foldl Variance.add Variance.new).varianceOfMean.val
        - T (xs.map RF2.val) / ((xs.length - 1 : ℕ) : F) / (xs.length : F)|
      ≤ 13/2 * xs.length * r.u * (T (xs.map RF2.val) / ((xs.length - 1 : ℕ) : F) / (xs.length : F))
        + 193/25 * xs.length * r.u * (M * σ / ((xs.length - 1 : ℕ) : F)) ∧
    |(xs.foldl Variance.add Variance.new).varianceOfMean.val
        - T (xs.map RF2.val) / ((xs.length - 1 : ℕ) : F) / (xs.length : F)|
      ≤ 8 * xs.length * r.u * (T (xs.map RF2.val) / ((xs.length - 1 : ℕ) : F) / (xs.length : F)
          + M * σ / ((xs.length - 1 : ℕ) : F)) := by
  have hu := r.u_nonneg
  have hn0 : (0:F) ≤ (xs.length : F) := Nat.cast_nonneg _
  have hm0 : (0:F) ≤ ((xs.length - 1 : ℕ) : F) := Nat.cast_nonneg _
  have hv0 : 0 ≤ T (xs.map RF2.val) / ((xs.length - 1 : ℕ) : F) / (xs.length : F) :=
    div_nonneg (div_nonneg (T_nonneg _) hm0) hn0
  have hnuM : 0 ≤ (xs.length : F) * r.u * M := by positivity
  have h2' : 94/25 * (xs.length : F)^2 * r.u^2 * M^2 ≤ 94/25 * xs.length * r.u * M * σ := by
    calc 94/25 * (xs.length : F)^2 * r.u^2 * M^2
        = 94/25 * ((xs.length : F) * r.u * M) * ((xs.length : F) * r.u * M) := by ring
      _ ≤ 94/25 * ((xs.length : F) * r.u * M) * σ := by gcongr
      _ = _ := by ring
  have first : |(xs.foldl Variance.add Variance.new).varianceOfMean.val
        - T (xs.map RF2.val) / ((xs.length - 1 : ℕ) : F) / (xs.length : F)|
      ≤ 13/2 * xs.length * r.u * (T (xs.map RF2.val) / ((xs.length - 1 : ℕ) : F) / (xs.length : F))
        + 193/25 * xs.length * r.u * (M * σ / ((xs.length - 1 : ℕ) : F)) := by
    refine le_trans (vom_error_sharp M hM xs h2 hb hsmall σ hσ hvar) ?_
    have : (99/25 * xs.length * r.u * M * σ + 94/25 * (xs.length : F)^2 * r.u^2 * M^2)
          / ((xs.length - 1 : ℕ) : F)
        ≤ (193/25 * xs.length * r.u * (M * σ)) / ((xs.length - 1 : ℕ) : F) := by
      gcongr; linarith
    calc _ ≤ 13/2 * xs.length * r.u * (T (xs.map RF2.val) / ((xs.length - 1 : ℕ) : F) / (xs.length : F))
          + (193/25 * xs.length * r.u * (M * σ)) / ((xs.length - 1 : ℕ) : F) := by linarith
      _ = _ := by rw [mul_div_assoc]
  refine ⟨first, le_trans first ?_⟩
  have a1 : 0 ≤ (xs.length : F) * r.u
      * (T (xs.map RF2.val) / ((xs.length - 1 : ℕ) : F) / (xs.length : F)) := by positivity
  have a2 : 0 ≤ (xs.length : F) * r.u * (M * σ / ((xs.length - 1 : ℕ) : F)) := by positivity
  nlinarith

end general

/-! ## over ℝ: the envelope in the words of DESIGN.md, and `error` -/

section real
variable {r : Rnd2 ℝ} [FloatOps (RF2 r)]

/-- with `σ² = T/n`: `v = σ²/(n-1)` and `M·σ/(n-1) = (M/σ)·v` -/
theorem v_eq (Tn n σ M : ℝ) (hn : 2 ≤ n) (hσ : 0 < σ) (hσ2 : σ^2 = Tn / n) :
    Tn / (n - 1) / n = σ^2 / (n - 1) ∧ M * σ / (n - 1) = M / σ * (Tn / (n - 1) / n) := by
  have hn0 : n ≠ 0 := by linarith
  have hm0 : n - 1 ≠ 0 := by linarith
  have hT : Tn = n * σ^2 := by rw [hσ2]; field_simp
  constructor
  · rw [hT]; field_simp
  · rw [hT]; field_simp

/-- **The envelope clause for `variance_of_mean`, in the words of DESIGN.md section 5.** Over ℝ: `n ≥ 2`,
`|x_i| ≤ M`, `T > 0`, `σ = √(T/n)`, `κ = 1 + M/σ`, `(n+28)·u ≤ 1/64`, `n·u·M ≤ σ`; `v = T/((n-1)n)`:
`|variance_of_mean - v| ≤ (13/2 + (193/25)·M/σ)·n·u·v ≤ 8·n·κ·u·v`. -/
theorem variance_of_mean_envelope_kappa (M : ℝ) (hM : 0 ≤ M) (xs : List (RF2 r)) (h2 : 2 ≤ xs.length)
    (hb : ∀ x ∈ xs, |x.val| ≤ M) (hsmall : ((xs.length : ℝ) + 28) * r.u ≤ 1/64)
    (hpos : 0 < T (xs.map RF2.val))
    (hcond : (xs.length : ℝ) * r.u * M ≤ Real.sqrt (T (xs.map RF2.val) / (xs.length : ℝ))) :
    |(xs.foldl Variance.add Variance.new).varianceOfMean.val
        - T (xs.map RF2.val) / ((xs.length - 1 : ℕ) : ℝ) / (xs.length : ℝ)|
      ≤ (13/2 + 193/25 * (M / Real.sqrt (T (xs.map RF2.val) / (xs.length : ℝ)))) * xs.length * r.u
          * (T (xs.map RF2.val) / ((xs.length - 1 : ℕ) : ℝ) / (xs.length : ℝ)) ∧
    |(xs.foldl Variance.add Variance.new).varianceOfMean.val
        - T (xs.map RF2.val) / ((xs.length - 1 : ℕ) : ℝ) / (xs.length : ℝ)|
      ≤ 8 * xs.length * (1 + M / Real.sqrt (T (xs.map RF2.val) / (xs.length : ℝ))) * r.u
          * (T (xs.map RF2.val) / ((xs.length - 1 : ℕ) : ℝ) / (xs.length : ℝ)) := by
  have hu := r.u_nonneg
  have hn2 : (2:ℝ) ≤ (xs.length : ℝ) := by exact_mod_cast h2
  have hm : ((xs.length - 1 : ℕ) : ℝ) = (xs.length : ℝ) - 1 := by
    rw [Nat.cast_sub (by omega)]; simp
  have hpv : 0 < T (xs.map RF2.val) / (xs.length : ℝ) := div_pos hpos (by linarith)
  set σ := Real.sqrt (T (xs.map RF2.val) / (xs.length : ℝ)) with hσdef
  have hσpos : 0 < σ := Real.sqrt_pos.mpr hpv
  have hsq : σ^2 = T (xs.map RF2.val) / (xs.length : ℝ) := Real.sq_sqrt hpv.le
  obtain ⟨h1, _⟩ := variance_of_mean_envelope M hM xs h2 hb hsmall σ hσpos.le (le_of_eq hsq.symm) hcond
  rw [hm] at h1 ⊢
  obtain ⟨_, e2⟩ := v_eq (T (xs.map RF2.val)) (xs.length : ℝ) σ M hn2 hσpos hsq
  rw [e2] at h1
  set v := T (xs.map RF2.val) / ((xs.length : ℝ) - 1) / (xs.length : ℝ) with hv
  have hv0 : 0 ≤ v := by
    apply div_nonneg (div_nonneg hpos.le (by linarith)) (by linarith)
  have hκ0 : 0 ≤ M / σ := div_nonneg hM hσpos.le
  have first : |(xs.foldl Variance.add Variance.new).varianceOfMean.val - v|
      ≤ (13/2 + 193/25 * (M / σ)) * xs.length * r.u * v := by
    refine le_trans h1 (le_of_eq ?_); ring
  refine ⟨first, le_trans first ?_⟩
  have a1 : 0 ≤ (xs.length : ℝ) * r.u * v := by positivity
  have a2 : 0 ≤ (xs.length : ℝ) * r.u * v * (M / σ) := by positivity
  nlinarith

/-- What `error` computes when the instance takes square roots with `q.sqrtfl`:
`sqrtfl(variance_of_mean)`. -/
theorem error_computed (q : RndSqrt r) (hs : SqrtIs q) (s : Variance (RF2 r)) :
    s.error.val = q.sqrtfl s.varianceOfMean.val :=
  variance_error_val q hs s

/-- **`error`, general form** (no side condition; the second-order term is explicit). Over ℝ: `n ≥ 2`,
`|x_i| ≤ M`, `(n+28)·u ≤ 1/64`, `T > 0`, `v = T/((n-1)n)`, `e = √v`, any `σ ≥ 0` with `T/n ≤ σ²`:
`|error - e| ≤ (1+u)·((13/2)·n·u·v + (4·n·u·M·σ + 4·n²·u²·M²)/(n-1))/e + u·e`. -/
theorem error_forward_error (q : RndSqrt r) (hs : SqrtIs q) (M : ℝ) (hM : 0 ≤ M) (xs : List (RF2 r))
    (h2 : 2 ≤ xs.length) (hb : ∀ x ∈ xs, |x.val| ≤ M) (hsmall : ((xs.length : ℝ) + 28) * r.u ≤ 1/64)
    (hpos : 0 < T (xs.map RF2.val)) (σ : ℝ) (hσ : 0 ≤ σ)
    (hvar : T (xs.map RF2.val) / (xs.length : ℝ) ≤ σ^2) :
    |(xs.foldl Variance.add Variance.new).error.val
        - Real.sqrt (T (xs.map RF2.val) / ((xs.length - 1 : ℕ) : ℝ) / (xs.length : ℝ))|
      ≤ (1 + r.u) * ((13/2 * xs.length * r.u
              * (T (xs.map RF2.val) / ((xs.length - 1 : ℕ) : ℝ) / (xs.length : ℝ))
            + (4 * xs.length * r.u * M * σ + 4 * (xs.length : ℝ)^2 * r.u^2 * M^2)
                / ((xs.length - 1 : ℕ) : ℝ))
          / Real.sqrt (T (xs.map RF2.val) / ((xs.length - 1 : ℕ) : ℝ) / (xs.length : ℝ)))
        + r.u * Real.sqrt (T (xs.map RF2.val) / ((xs.length - 1 : ℕ) : ℝ) / (xs.length : ℝ)) := by
  have hu := r.u_nonneg
  have hn2 : (2:ℝ) ≤ (xs.length : ℝ) := by exact_mod_cast h2
  have hu1 : r.u ≤ 1 := by nlinarith
  have hmpos : (0:ℝ) < ((xs.length - 1 : ℕ) : ℝ) := by
    have : 0 < xs.length - 1 := by omega
    exact_mod_cast this
  have hvpos : 0 < T (xs.map RF2.val) / ((xs.length - 1 : ℕ) : ℝ) / (xs.length : ℝ) :=
    div_pos (div_pos hpos hmpos) (by linarith)
  rw [error_computed q hs]
  exact sqrtfl_error_abs q _ _ _ (variance_of_mean_nonneg hu1 xs h2) hvpos
    (variance_of_mean_forward_error M hM xs h2 hb hsmall σ hσ hvar)

/-- **The envelope clause for `error()`, in the words of DESIGN.md section 5** (scale: its exact value,
constant 8). Over ℝ: `n ≥ 2`, `|x_i| ≤ M`, `T > 0`, `σ = √(T/n)`, `κ = 1 + M/σ`, `(n+28)·u ≤ 1/64`,
`n·u·M ≤ σ`; `e = √(T/((n-1)n))` the exact standard error of the mean:
`|error - e| ≤ 8·n·κ·u·e`. -/
theorem error_envelope_kappa (q : RndSqrt r) (hs : SqrtIs q) (M : ℝ) (hM : 0 ≤ M) (xs : List (RF2 r))
    (h2 : 2 ≤ xs.length) (hb : ∀ x ∈ xs, |x.val| ≤ M) (hsmall : ((xs.length : ℝ) + 28) * r.u ≤ 1/64)
    (hpos : 0 < T (xs.map RF2.val))
    (hcond : (xs.length : ℝ) * r.u * M ≤ Real.sqrt (T (xs.map RF2.val) / (xs.length : ℝ))) :
    |(xs.foldl Variance.add Variance.new).error.val
        - Real.sqrt (T (xs.map RF2.val) / ((xs.length - 1 : ℕ) : ℝ) / (xs.length : ℝ))|
      ≤ 8 * xs.length * (1 + M / Real.sqrt (T (xs.map RF2.val) / (xs.length : ℝ))) * r.u
          * Real.sqrt (T (xs.map RF2.val) / ((xs.length - 1 : ℕ) : ℝ) / (xs.length : ℝ)) := by
  have hu := r.u_nonneg
  have hn2 : (2:ℝ) ≤ (xs.length : ℝ) := by exact_mod_cast h2
  have hu1920 : r.u ≤ 1/1920 := by
    have := mul_le_mul_of_nonneg_right (by linarith : (30:ℝ) ≤ (xs.length : ℝ) + 28) hu
    linarith
  have hmpos : (0:ℝ) < ((xs.length - 1 : ℕ) : ℝ) := by
    have : 0 < xs.length - 1 := by omega
    exact_mod_cast this
  have hvpos : 0 < T (xs.map RF2.val) / ((xs.length - 1 : ℕ) : ℝ) / (xs.length : ℝ) :=
    div_pos (div_pos hpos hmpos) (by linarith)
  obtain ⟨h1, _⟩ := variance_of_mean_envelope_kappa M hM xs h2 hb hsmall hpos hcond
  rw [error_computed q hs]
  have hκ0 : 0 ≤ M / Real.sqrt (T (xs.map RF2.val) / (xs.length : ℝ)) :=
    div_nonneg hM (Real.sqrt_nonneg _)
  set k := M / Real.sqrt (T (xs.map RF2.val) / (xs.length : ℝ)) with hk
  have h3 := sqrtfl_error_rel q _ _ ((13/2 + 193/25 * k) * xs.length * r.u)
    (variance_of_mean_nonneg (by linarith) xs h2) hvpos h1
  refine le_trans h3 ?_
  apply mul_le_mul_of_nonneg_right _ (Real.sqrt_nonneg _)
  have hnu2 : 2 * r.u ≤ (xs.length : ℝ) * r.u := mul_le_mul_of_nonneg_right hn2 hu
  have a1 : 0 ≤ (xs.length : ℝ) * r.u := by positivity
  have a2 : 0 ≤ (xs.length : ℝ) * r.u * k := by positivity
  have b1 : r.u * ((xs.length : ℝ) * r.u) ≤ 1/1920 * ((xs.length : ℝ) * r.u) :=
    mul_le_mul_of_nonneg_right hu1920 a1
  have b2 : r.u * ((xs.length : ℝ) * r.u * k) ≤ 1/1920 * ((xs.length : ℝ) * r.u * k) :=
    mul_le_mul_of_nonneg_right hu1920 a2
  nlinarith

end real

/-! ## Non-vacuity -/

/-- a rounding over ℝ that is never exact (except at 0): always away from zero by the full `u = 2^-53` -/
noncomputable def awayRndR : Rnd2 ℝ :=
  ⟨fun t => t * (1 + 1/2^53), 1/2^53, by norm_num, fun t => by
    have : t * (1 + 1/2^53) - t = (1/2^53) * t := by ring
    rw [this, abs_mul, abs_of_pos (by norm_num : (0:ℝ) < 1/2^53)]⟩

/-- the square root followed by that rounding: never exact either -/
noncomputable def awaySqrt : RndSqrt awayRndR := flSqrt awayRndR

/-- an ill-conditioned stream: offset 1000, spread 4 -/
noncomputable def exStream : List (RF2 awayRndR) := [⟨1001⟩, ⟨999⟩, ⟨1002⟩, ⟨998⟩]

theorem exStream_T : T (exStream.map RF2.val) = 10 := by
  norm_num [exStream, T, sumPow, mean]

/-- the hypotheses of `error_envelope_kappa` are met by `exStream` with `M = 1002`, `u = 2^-53`, the
instance `rf2SqrtFloatOps awayRndR awaySqrt`: `T = 10 > 0`, `n·u·M = 4008·2^-53 ≤ √(10/4)` -/
example : @SqrtIs awayRndR awaySqrt (rf2SqrtFloatOps awayRndR awaySqrt) ∧ 2 ≤ exStream.length
    ∧ (∀ x ∈ exStream, |x.val| ≤ 1002) ∧ ((exStream.length : ℝ) + 28) * awayRndR.u ≤ 1/64
    ∧ 0 < T (exStream.map RF2.val)
    ∧ (exStream.length : ℝ) * awayRndR.u * 1002
        ≤ Real.sqrt (T (exStream.map RF2.val) / (exStream.length : ℝ)) := by
  refine ⟨rf2SqrtFloatOps_sqrtIs _ _, by simp [exStream], ?_, ?_, ?_, ?_⟩
  · intro x hx
    simp only [exStream, List.mem_cons, List.not_mem_nil, or_false] at hx
    rcases hx with rfl | rfl | rfl | rfl <;> norm_num
  · norm_num [exStream, awayRndR]
  · rw [exStream_T]; norm_num
  · rw [exStream_T]
    apply Real.le_sqrt_of_sq_le
    norm_num [exStream, awayRndR]

/-- and the conclusion is a concrete statement about a computation (34 rounded operations and a rounded
square root, none of them exact): `error()` is within `8·4·(1 + 1002/√(5/2))·2^-53·e` of the exact standard
error `e = √(10/3/4)` -/
example :
    letI : FloatOps (RF2 awayRndR) := rf2SqrtFloatOps awayRndR awaySqrt
    |(exStream.foldl Variance.add Variance.new).error.val - Real.sqrt (10 / 3 / 4)|
      ≤ 8 * 4 * (1 + 1002 / Real.sqrt (10 / 4)) * (1/2^53) * Real.sqrt (10 / 3 / 4) := by
  let _ : FloatOps (RF2 awayRndR) := rf2SqrtFloatOps awayRndR awaySqrt
  have h := error_envelope_kappa awaySqrt (rf2SqrtFloatOps_sqrtIs _ _) 1002 (by norm_num) exStream
    (by simp [exStream])
    (by intro x hx
        simp only [exStream, List.mem_cons, List.not_mem_nil, or_false] at hx
        rcases hx with rfl | rfl | rfl | rfl <;> norm_num)
    (by norm_num [exStream, awayRndR]) (by rw [exStream_T]; norm_num)
    (by rw [exStream_T]
        apply Real.le_sqrt_of_sq_le
        norm_num [exStream, awayRndR])
  rw [exStream_T] at h
  have hl : (exStream.length : ℝ) = 4 := by norm_num [exStream]
  have hl' : ((exStream.length - 1 : ℕ) : ℝ) = 3 := by norm_num [exStream]
  have hu : awayRndR.u = 1/2^53 := rfl
  rw [hl, hl', hu] at h
  exact h

end Props.C01c

#print axioms Props.C01c.variance_of_mean_computed
#print axioms Props.C01c.sum2_nonneg
#print axioms Props.C01c.variance_of_mean_nonneg
#print axioms Props.C01c.variance_of_mean_forward_error_sharp
#print axioms Props.C01c.variance_of_mean_forward_error
#print axioms Props.C01c.variance_of_mean_envelope
#print axioms Props.C01c.variance_of_mean_envelope_kappa
#print axioms Props.C01c.error_computed
#print axioms Props.C01c.error_forward_error
#print axioms Props.C01c.error_envelope_kappa
