import AvgProofs.VomMergeErr
import Props.C02c
import Props.C01c
import Mathlib.Tactic.NormNum

/-!
# C02 / C10 (addendum) - `variance_of_mean` and `error` in floating point through every merge tree

Carrier **R2** (`RF2 r`, `AvgProofs/MeanErr2.lean`): every `+ - * /` is followed by a rounding `r.fl` with
`|fl t - t| ≤ u·|t|` (standard model: no overflow, no underflow); counts are converted exactly; for the square
root the model is extended by `RndSqrt r` (`|sqrtfl t - √t| ≤ u·√t` for `t ≥ 0`, as IEEE-754 `sqrt`), `SqrtIs q`:
the `FloatOps (RF2 r)` instance takes square roots with `q.sqrtfl` (`AvgProofs/SqrtErr.lean`).
`MTree` is an arbitrary order-preserving binary merge tree over contiguous chunks (empty and one-element
chunks allowed); `Variance.evalTree t` folds every leaf with `Variance.add` from `Variance.new` and combines
the summaries with `Variance.merge` along the tree.

Notation: `n ≥ 2` observations (all chunks together), `|x_i| ≤ M`, `T = Σ(x - mean)²` of the whole data,
`v = T/((n-1)·n)` the exact variance of the mean, `e = √v` the exact standard error, `σ² ≥ T/n`.

What the code computes after any tree (`variance_of_mean_mtree_computed`, `error_mtree_computed`):
`variance_of_mean = fl(fl(sum_2/(n-1))/n)`, `error = sqrtfl(variance_of_mean)`.

Results (`n·u ≤ 1/64`), for EVERY merge tree:
* `sum2_mtree_nonneg`, `variance_of_mean_mtree_nonneg`: the stored `sum_2` and `variance_of_mean` are `≥ 0`
  (no hypothesis on the data beyond what makes the count exact) - `error` is the square root of a
  non-negative number;
* `variance_of_mean_mtree_forward_error`: the count is exact and
  `|variance_of_mean - v| ≤ 12·n·u·v + (18·n·u·M·σ + 46·n²·u²·M²)/(n-1)`
  (add-only stream, `Props.C01c`: `13/2, 4, 4`);
* `variance_of_mean_mtree_envelope`: `≤ 12·n·u·v + 64·n·u·M·σ/(n-1) ≤ 64·n·u·(v + M·σ/(n-1))` when `n·u·M ≤ σ`;
  `variance_of_mean_mtree_envelope_kappa` (ℝ, `σ = √(T/n)`, `κ = 1 + M/σ`):
  `≤ (12 + 64·M/σ)·n·u·v ≤ 64·n·κ·u·v` - the shape of the envelope of DESIGN.md section 5 (scale: the exact
  value; the constant is `18 + 46` of `Props.C02c.sum2_mtree_forward_error` carried through two divisions);
* `error_mtree_forward_error` (no side condition): `|error - e| ≤ (1+u)·B/e + u·e`, `B` the bound above;
* `error_mtree_envelope_kappa`: `|error - e| ≤ (13 + 65·M/σ)·n·u·e ≤ 65·n·κ·u·e` when `n·u·M ≤ σ`;
* `skewness_error_mean_mtree_envelope_kappa`, `kurtosis_error_mean_mtree_envelope_kappa`: the same for
  `Skewness::error_mean`, `Kurtosis::error_mean` after any merge tree (they delegate to the inner
  `Variance`, which is bit for bit `Variance.evalTree t`).
* `variance_of_mean_mtree_single`: one observation in the whole tree - the accessor returns `0`.

The square root halves a *small* relative error; no use is made of that.
-/
open Avg MSpec VarSpec VarMerge VomMerge

namespace Props.C02d
variable {F : Type} [Field F] [LinearOrder F] [IsStrictOrderedRing F]

/-- At R2 with `u ≤ 1` the stored sum of squares is `≥ 0` after EVERY merge tree (no hypothesis on the data):
the cross term of `Variance.merge` is a rounded quotient of rounded products of non-negative factors. -/
theorem sum2_mtree_nonneg (r : Rnd2 F) (hu1 : r.u ≤ 1) (t : MTree (RF2 r)) :
    0 ≤ (Variance.evalTree t).sum_2.val :=
  mtree_sum2_nonneg r hu1 t

section general
variable {r : Rnd2 F} [FloatOps (RF2 r)]

/-- What `variance_of_mean` computes at R2 after any merge tree over `n ≥ 2` observations (`|x| ≤ M`,
`n·u ≤ 1/64` make the count exact): `fl(fl(sum_2/(n-1))/n)`. -/
theorem variance_of_mean_mtree_computed (M : F) (hM : 0 ≤ M) (t : MTree (RF2 r))
    (h2 : 2 ≤ t.flatten.length) (hb : ∀ x ∈ t.flatten, |x.val| ≤ M)
    (hsmall : (t.flatten.length : F) * r.u ≤ 1/64) :
    (Variance.evalTree t).varianceOfMean.val
      = r.fl (r.fl ((Variance.evalTree t).sum_2.val / ((t.flatten.length - 1 : ℕ) : F))
          / (t.flatten.length : F)) :=
  vom_mtree_val t h2 (mtree_count M hM t hb hsmall)

/-- A tree holding a single observation (in any chunk, the other chunks empty): `variance_of_mean` returns
`0` (the early return of the Rust code), bit for bit. -/
theorem variance_of_mean_mtree_single (M : F) (hM : 0 ≤ M) (t : MTree (RF2 r))
    (h1 : t.flatten.length = 1) (hb : ∀ x ∈ t.flatten, |x.val| ≤ M)
    (hsmall : (t.flatten.length : F) * r.u ≤ 1/64) :
    (Variance.evalTree t).varianceOfMean = ((0 : ℕ) : RF2 r) := by
  unfold Variance.varianceOfMean
  rw [mtree_count M hM t hb hsmall, h1, if_neg (by omega), if_pos rfl]

/-- Hence `variance_of_mean ≥ 0` after every merge tree over `n ≥ 2` observations. -/
theorem variance_of_mean_mtree_nonneg (M : F) (hM : 0 ≤ M) (t : MTree (RF2 r))
    (h2 : 2 ≤ t.flatten.length) (hb : ∀ x ∈ t.flatten, |x.val| ≤ M)
    (hsmall : (t.flatten.length : F) * r.u ≤ 1/64) :
    0 ≤ (Variance.evalTree t).varianceOfMean.val := by
  have hu := r.u_nonneg
  have hn2 : (2 : F) ≤ t.flatten.length := by exact_mod_cast h2
  exact vom_mtree_nonneg (by nlinarith) t h2 (mtree_count M hM t hb hsmall)

/-- **`variance_of_mean` through every merge tree.** Standard model of rounding with unit roundoff `u`; every
merge tree `t` (any shape, any chunk sizes, empty and one-element chunks included) over `n ≥ 2` observations
with `|x| ≤ M`, `n·u ≤ 1/64`; `v = T/((n-1)·n)`; any `σ ≥ 0` with `T/n ≤ σ²`. The count is exact and
`|variance_of_mean - v| ≤ 12·n·u·v + (18·n·u·M·σ + 46·n²·u²·M²)/(n-1)`. -/
theorem variance_of_mean_mtree_forward_error (M : F) (hM : 0 ≤ M) (t : MTree (RF2 r))
    (h2 : 2 ≤ t.flatten.length) (hb : ∀ x ∈ t.flatten, |x.val| ≤ M)
    (hsmall : (t.flatten.length : F) * r.u ≤ 1/64)
    (σ : F) (hσ : 0 ≤ σ) (hvar : T (t.flatten.map RF2.val) / (t.flatten.length : F) ≤ σ^2) :
    (Variance.evalTree t).avg.n = t.flatten.length ∧
    |(Variance.evalTree t).varianceOfMean.val
        - T (t.flatten.map RF2.val) / ((t.flatten.length - 1 : ℕ) : F) / (t.flatten.length : F)|
      ≤ 12 * (t.flatten.length : F) * r.u
            * (T (t.flatten.map RF2.val) / ((t.flatten.length - 1 : ℕ) : F) / (t.flatten.length : F))
        + (18 * (t.flatten.length : F) * r.u * M * σ
            + 46 * (t.flatten.length : F)^2 * r.u^2 * M^2) / ((t.flatten.length - 1 : ℕ) : F) :=
  ⟨mtree_count M hM t hb hsmall, vom_mtree_error M hM t h2 hb hsmall σ hσ hvar⟩

/-- **Inside an envelope linear in the conditioning.** If moreover `n·u·M ≤ σ`:
`|variance_of_mean - v| ≤ 12·n·u·v + 64·n·u·M·σ/(n-1) ≤ 64·n·u·(v + M·σ/(n-1))`. -/
theorem variance_of_mean_mtree_envelope (M : F) (hM : 0 ≤ M) (t : MTree (RF2 r))
    (h2 : 2 ≤ t.flatten.length) (hb : ∀ x ∈ t.flatten, |x.val| ≤ M)
    (hsmall : (t.flatten.length : F) * r.u ≤ 1/64)
    (σ : F) (hσ : 0 ≤ σ) (hvar : T (t.flatten.map RF2.val) / (t.flatten.length : F) ≤ σ^2)
    (hcond : (t.flatten.length : F) * r.u * M ≤ σ) :
    |(Variance.evalTree t).varianceOfMean.val
        - T (t.flatten.map RF2.val) / ((t.flatten.length - 1 : ℕ) : F) / (t.flatten.length : F)|
      ≤ 12 * (t.flatten.length : F) * r.u
            * (T (t.flatten.map RF2.val) / ((t.flatten.length - 1 : ℕ) : F) / (t.flatten.length : F))
        + 64 * (t.flatten.length : F) * r.u * (M * σ / ((t.flatten.length - 1 : ℕ) : F)) ∧
    |(Variance.evalTree t).varianceOfMean.val
        - T (t.flatten.map RF2.val) / ((t.flatten.length - 1 : ℕ) : F) / (t.flatten.length : F)|
      ≤ 64 * (t.flatten.length : F) * r.u
          * (T (t.flatten.map RF2.val) / ((t.flatten.length - 1 : ℕ) : F) / (t.flatten.length : F)
            + M * σ / ((t.flatten.length - 1 : ℕ) : F)) := by
  have hu := r.u_nonneg
  have hn0 : (0:F) ≤ (t.flatten.length : F) := Nat.cast_nonneg _
  have hm0 : (0:F) ≤ ((t.flatten.length - 1 : ℕ) : F) := Nat.cast_nonneg _
  have hv0 : 0 ≤ T (t.flatten.map RF2.val) / ((t.flatten.length - 1 : ℕ) : F)
      / (t.flatten.length : F) := div_nonneg (div_nonneg (T_nonneg _) hm0) hn0
  have hnuM : 0 ≤ (t.flatten.length : F) * r.u * M := by positivity
  have h2' : 46 * (t.flatten.length : F)^2 * r.u^2 * M^2
      ≤ 46 * (t.flatten.length : F) * r.u * M * σ := by
    calc 46 * (t.flatten.length : F)^2 * r.u^2 * M^2
        = 46 * ((t.flatten.length : F) * r.u * M) * ((t.flatten.length : F) * r.u * M) := by ring
      _ ≤ 46 * ((t.flatten.length : F) * r.u * M) * σ := by gcongr
      _ = _ := by ring
  have first : |(Variance.evalTree t).varianceOfMean.val
        - T (t.flatten.map RF2.val) / ((t.flatten.length - 1 : ℕ) : F) / (t.flatten.length : F)|
      ≤ 12 * (t.flatten.length : F) * r.u
            * (T (t.flatten.map RF2.val) / ((t.flatten.length - 1 : ℕ) : F) / (t.flatten.length : F))
        + 64 * (t.flatten.length : F) * r.u * (M * σ / ((t.flatten.length - 1 : ℕ) : F)) := by
    refine le_trans (vom_mtree_error M hM t h2 hb hsmall σ hσ hvar) ?_
    have : (18 * (t.flatten.length : F) * r.u * M * σ
          + 46 * (t.flatten.length : F)^2 * r.u^2 * M^2) / ((t.flatten.length - 1 : ℕ) : F)
        ≤ (64 * (t.flatten.length : F) * r.u * (M * σ)) / ((t.flatten.length - 1 : ℕ) : F) := by
      gcongr; linarith
    calc _ ≤ 12 * (t.flatten.length : F) * r.u
              * (T (t.flatten.map RF2.val) / ((t.flatten.length - 1 : ℕ) : F)
                  / (t.flatten.length : F))
          + (64 * (t.flatten.length : F) * r.u * (M * σ)) / ((t.flatten.length - 1 : ℕ) : F) := by
          linarith
      _ = _ := by rw [mul_div_assoc]
  refine ⟨first, le_trans first ?_⟩
  have a1 : 0 ≤ (t.flatten.length : F) * r.u
      * (T (t.flatten.map RF2.val) / ((t.flatten.length - 1 : ℕ) : F) / (t.flatten.length : F)) := by
    positivity
  nlinarith

end general

/-! ## over ℝ: the envelope in the words of DESIGN.md, and `error` -/

section real
variable {r : Rnd2 ℝ} [FloatOps (RF2 r)]

/-- **The envelope clause for `variance_of_mean`, every merge tree.** Over ℝ: `n ≥ 2`, `|x| ≤ M`, `T > 0`,
`σ = √(T/n)`, `κ = 1 + M/σ`, `n·u ≤ 1/64`, `n·u·M ≤ σ`; `v = T/((n-1)n)`:
`|variance_of_mean - v| ≤ (12 + 64·M/σ)·n·u·v ≤ 64·n·κ·u·v`. -/
theorem variance_of_mean_mtree_envelope_kappa (M : ℝ) (hM : 0 ≤ M) (t : MTree (RF2 r))
    (h2 : 2 ≤ t.flatten.length) (hb : ∀ x ∈ t.flatten, |x.val| ≤ M)
    (hsmall : (t.flatten.length : ℝ) * r.u ≤ 1/64) (hpos : 0 < T (t.flatten.map RF2.val))
    (hcond : (t.flatten.length : ℝ) * r.u * M
      ≤ Real.sqrt (T (t.flatten.map RF2.val) / (t.flatten.length : ℝ))) :
    |(Variance.evalTree t).varianceOfMean.val
        - T (t.flatten.map RF2.val) / ((t.flatten.length - 1 : ℕ) : ℝ) / (t.flatten.length : ℝ)|
      ≤ (12 + 64 * (M / Real.sqrt (T (t.flatten.map RF2.val) / (t.flatten.length : ℝ))))
          * (t.flatten.length : ℝ) * r.u
          * (T (t.flatten.map RF2.val) / ((t.flatten.length - 1 : ℕ) : ℝ) / (t.flatten.length : ℝ)) ∧
    |(Variance.evalTree t).varianceOfMean.val
        - T (t.flatten.map RF2.val) / ((t.flatten.length - 1 : ℕ) : ℝ) / (t.flatten.length : ℝ)|
      ≤ 64 * (t.flatten.length : ℝ)
          * (1 + M / Real.sqrt (T (t.flatten.map RF2.val) / (t.flatten.length : ℝ))) * r.u
          * (T (t.flatten.map RF2.val) / ((t.flatten.length - 1 : ℕ) : ℝ) / (t.flatten.length : ℝ)) := by
  have hu := r.u_nonneg
  have hn2 : (2:ℝ) ≤ (t.flatten.length : ℝ) := by exact_mod_cast h2
  have hm : ((t.flatten.length - 1 : ℕ) : ℝ) = (t.flatten.length : ℝ) - 1 := by
    rw [Nat.cast_sub (by omega)]; simp
  have hpv : 0 < T (t.flatten.map RF2.val) / (t.flatten.length : ℝ) := div_pos hpos (by linarith)
  set σ := Real.sqrt (T (t.flatten.map RF2.val) / (t.flatten.length : ℝ)) with hσdef
  have hσpos : 0 < σ := Real.sqrt_pos.mpr hpv
  have hsq : σ^2 = T (t.flatten.map RF2.val) / (t.flatten.length : ℝ) := Real.sq_sqrt hpv.le
  obtain ⟨h1, _⟩ := variance_of_mean_mtree_envelope M hM t h2 hb hsmall σ hσpos.le
    (le_of_eq hsq.symm) hcond
  rw [hm] at h1 ⊢
  obtain ⟨_, e2⟩ := Props.C01c.v_eq (T (t.flatten.map RF2.val)) (t.flatten.length : ℝ) σ M hn2
    hσpos hsq
  rw [e2] at h1
  set v := T (t.flatten.map RF2.val) / ((t.flatten.length : ℝ) - 1) / (t.flatten.length : ℝ) with hv
  have hv0 : 0 ≤ v := by
    apply div_nonneg (div_nonneg hpos.le (by linarith)) (by linarith)
  have hκ0 : 0 ≤ M / σ := div_nonneg hM hσpos.le
  have first : |(Variance.evalTree t).varianceOfMean.val - v|
      ≤ (12 + 64 * (M / σ)) * (t.flatten.length : ℝ) * r.u * v := by
    refine le_trans h1 (le_of_eq ?_); ring
  refine ⟨first, le_trans first ?_⟩
  have a1 : 0 ≤ (t.flatten.length : ℝ) * r.u * v := by positivity
  nlinarith

/-- What `error` computes when the instance takes square roots with `q.sqrtfl`: `sqrtfl(variance_of_mean)`,
the latter as in `variance_of_mean_mtree_computed`. -/
theorem error_mtree_computed (q : RndSqrt r) (hs : SqrtIs q) (t : MTree (RF2 r)) :
    (Variance.evalTree t).error.val = q.sqrtfl (Variance.evalTree t).varianceOfMean.val :=
  variance_error_val q hs _

/-- **`error` through every merge tree, general form** (no side condition; the second-order term is explicit).
Over ℝ: `n ≥ 2`, `|x| ≤ M`, `n·u ≤ 1/64`, `T > 0`, `v = T/((n-1)n)`, `e = √v`, any `σ ≥ 0` with `T/n ≤ σ²`:
`|error - e| ≤ (1+u)·(12·n·u·v + (18·n·u·M·σ + 46·n²·u²·M²)/(n-1))/e + u·e`. -/
theorem error_mtree_forward_error (q : RndSqrt r) (hs : SqrtIs q) (M : ℝ) (hM : 0 ≤ M)
    (t : MTree (RF2 r)) (h2 : 2 ≤ t.flatten.length) (hb : ∀ x ∈ t.flatten, |x.val| ≤ M)
    (hsmall : (t.flatten.length : ℝ) * r.u ≤ 1/64) (hpos : 0 < T (t.flatten.map RF2.val))
    (σ : ℝ) (hσ : 0 ≤ σ) (hvar : T (t.flatten.map RF2.val) / (t.flatten.length : ℝ) ≤ σ^2) :
    |(Variance.evalTree t).error.val
        - Real.sqrt (T (t.flatten.map RF2.val) / ((t.flatten.length - 1 : ℕ) : ℝ)
            / (t.flatten.length : ℝ))|
      ≤ (1 + r.u) * ((12 * (t.flatten.length : ℝ) * r.u
              * (T (t.flatten.map RF2.val) / ((t.flatten.length - 1 : ℕ) : ℝ)
                  / (t.flatten.length : ℝ))
            + (18 * (t.flatten.length : ℝ) * r.u * M * σ
                + 46 * (t.flatten.length : ℝ)^2 * r.u^2 * M^2) / ((t.flatten.length - 1 : ℕ) : ℝ))
          / Real.sqrt (T (t.flatten.map RF2.val) / ((t.flatten.length - 1 : ℕ) : ℝ)
              / (t.flatten.length : ℝ)))
        + r.u * Real.sqrt (T (t.flatten.map RF2.val) / ((t.flatten.length - 1 : ℕ) : ℝ)
            / (t.flatten.length : ℝ)) :=
  error_mtree_error q hs M hM t h2 hb hsmall hpos σ hσ hvar

/-- **The envelope clause for `error()`, every merge tree** (scale: its exact value). Over ℝ: `n ≥ 2`,
`|x| ≤ M`, `T > 0`, `σ = √(T/n)`, `κ = 1 + M/σ`, `n·u ≤ 1/64`, `n·u·M ≤ σ`; `e = √(T/((n-1)n))` the exact
standard error of the mean:  `|error - e| ≤ (13 + 65·M/σ)·n·u·e ≤ 65·n·κ·u·e`. -/
theorem error_mtree_envelope_kappa (q : RndSqrt r) (hs : SqrtIs q) (M : ℝ) (hM : 0 ≤ M)
    (t : MTree (RF2 r)) (h2 : 2 ≤ t.flatten.length) (hb : ∀ x ∈ t.flatten, |x.val| ≤ M)
    (hsmall : (t.flatten.length : ℝ) * r.u ≤ 1/64) (hpos : 0 < T (t.flatten.map RF2.val))
    (hcond : (t.flatten.length : ℝ) * r.u * M
      ≤ Real.sqrt (T (t.flatten.map RF2.val) / (t.flatten.length : ℝ))) :
    |(Variance.evalTree t).error.val
        - Real.sqrt (T (t.flatten.map RF2.val) / ((t.flatten.length - 1 : ℕ) : ℝ)
            / (t.flatten.length : ℝ))|
      ≤ (13 + 65 * (M / Real.sqrt (T (t.flatten.map RF2.val) / (t.flatten.length : ℝ))))
          * (t.flatten.length : ℝ) * r.u
          * Real.sqrt (T (t.flatten.map RF2.val) / ((t.flatten.length - 1 : ℕ) : ℝ)
              / (t.flatten.length : ℝ)) ∧
    |(Variance.evalTree t).error.val
        - Real.sqrt (T (t.flatten.map RF2.val) / ((t.flatten.length - 1 : ℕ) : ℝ)
            / (t.flatten.length : ℝ))|
      ≤ 65 * (t.flatten.length : ℝ)
          * (1 + M / Real.sqrt (T (t.flatten.map RF2.val) / (t.flatten.length : ℝ))) * r.u
          * Real.sqrt (T (t.flatten.map RF2.val) / ((t.flatten.length - 1 : ℕ) : ℝ)
              / (t.flatten.length : ℝ)) := by
  have hu := r.u_nonneg
  have hn2 : (2:ℝ) ≤ (t.flatten.length : ℝ) := by exact_mod_cast h2
  have hu128 : r.u ≤ 1/128 := by nlinarith
  have hmpos : (0:ℝ) < ((t.flatten.length - 1 : ℕ) : ℝ) := by
    have : 0 < t.flatten.length - 1 := by omega
    exact_mod_cast this
  have hvpos : 0 < T (t.flatten.map RF2.val) / ((t.flatten.length - 1 : ℕ) : ℝ)
      / (t.flatten.length : ℝ) := div_pos (div_pos hpos hmpos) (by linarith)
  obtain ⟨h1, _⟩ := variance_of_mean_mtree_envelope_kappa M hM t h2 hb hsmall hpos hcond
  rw [error_mtree_computed q hs]
  have hκ0 : 0 ≤ M / Real.sqrt (T (t.flatten.map RF2.val) / (t.flatten.length : ℝ)) :=
    div_nonneg hM (Real.sqrt_nonneg _)
  set k := M / Real.sqrt (T (t.flatten.map RF2.val) / (t.flatten.length : ℝ)) with hk
  have h3 := sqrtfl_error_rel q _ _ ((12 + 64 * k) * (t.flatten.length : ℝ) * r.u)
    (variance_of_mean_mtree_nonneg M hM t h2 hb hsmall) hvpos h1
  set e := Real.sqrt (T (t.flatten.map RF2.val) / ((t.flatten.length - 1 : ℕ) : ℝ)
      / (t.flatten.length : ℝ)) with he
  have he0 : 0 ≤ e := Real.sqrt_nonneg _
  have hnu2 : 2 * r.u ≤ (t.flatten.length : ℝ) * r.u := mul_le_mul_of_nonneg_right hn2 hu
  have a1 : 0 ≤ (t.flatten.length : ℝ) * r.u := by positivity
  have a2 : 0 ≤ (t.flatten.length : ℝ) * r.u * k := by positivity
  have b1 : r.u * ((t.flatten.length : ℝ) * r.u) ≤ 1/128 * ((t.flatten.length : ℝ) * r.u) :=
    mul_le_mul_of_nonneg_right hu128 a1
  have b2 : r.u * ((t.flatten.length : ℝ) * r.u * k) ≤ 1/128 * ((t.flatten.length : ℝ) * r.u * k) :=
    mul_le_mul_of_nonneg_right hu128 a2
  have first : |q.sqrtfl (Variance.evalTree t).varianceOfMean.val - e|
      ≤ (13 + 65 * k) * (t.flatten.length : ℝ) * r.u * e := by
    refine le_trans h3 ?_
    apply mul_le_mul_of_nonneg_right _ he0
    nlinarith
  refine ⟨first, le_trans first ?_⟩
  apply mul_le_mul_of_nonneg_right _ he0
  nlinarith

/-- `Skewness::error_mean` after any merge tree: the inner `Variance` is bit for bit `Variance.evalTree t`
(`Skewness.mtree_avg`), so `|error_mean - e| ≤ 65·n·κ·u·e` under the hypotheses of
`error_mtree_envelope_kappa`. -/
theorem skewness_error_mean_mtree_envelope_kappa (q : RndSqrt r) (hs : SqrtIs q) (M : ℝ) (hM : 0 ≤ M)
    (t : MTree (RF2 r)) (h2 : 2 ≤ t.flatten.length) (hb : ∀ x ∈ t.flatten, |x.val| ≤ M)
    (hsmall : (t.flatten.length : ℝ) * r.u ≤ 1/64) (hpos : 0 < T (t.flatten.map RF2.val))
    (hcond : (t.flatten.length : ℝ) * r.u * M
      ≤ Real.sqrt (T (t.flatten.map RF2.val) / (t.flatten.length : ℝ))) :
    |(Skewness.evalTree t).errorMean.val
        - Real.sqrt (T (t.flatten.map RF2.val) / ((t.flatten.length - 1 : ℕ) : ℝ)
            / (t.flatten.length : ℝ))|
      ≤ 65 * (t.flatten.length : ℝ)
          * (1 + M / Real.sqrt (T (t.flatten.map RF2.val) / (t.flatten.length : ℝ))) * r.u
          * Real.sqrt (T (t.flatten.map RF2.val) / ((t.flatten.length - 1 : ℕ) : ℝ)
              / (t.flatten.length : ℝ)) := by
  unfold Skewness.errorMean
  rw [Skewness.mtree_avg]
  exact (error_mtree_envelope_kappa q hs M hM t h2 hb hsmall hpos hcond).2

/-- `Kurtosis::error_mean` after any merge tree: the same. -/
theorem kurtosis_error_mean_mtree_envelope_kappa (q : RndSqrt r) (hs : SqrtIs q) (M : ℝ) (hM : 0 ≤ M)
    (t : MTree (RF2 r)) (h2 : 2 ≤ t.flatten.length) (hb : ∀ x ∈ t.flatten, |x.val| ≤ M)
    (hsmall : (t.flatten.length : ℝ) * r.u ≤ 1/64) (hpos : 0 < T (t.flatten.map RF2.val))
    (hcond : (t.flatten.length : ℝ) * r.u * M
      ≤ Real.sqrt (T (t.flatten.map RF2.val) / (t.flatten.length : ℝ))) :
    |(Kurtosis.evalTree t).errorMean.val
        - Real.sqrt (T (t.flatten.map RF2.val) / ((t.flatten.length - 1 : ℕ) : ℝ)
            / (t.flatten.length : ℝ))|
      ≤ 65 * (t.flatten.length : ℝ)
          * (1 + M / Real.sqrt (T (t.flatten.map RF2.val) / (t.flatten.length : ℝ))) * r.u
          * Real.sqrt (T (t.flatten.map RF2.val) / ((t.flatten.length - 1 : ℕ) : ℝ)
              / (t.flatten.length : ℝ)) := by
  unfold Kurtosis.errorMean
  rw [Kurtosis.mtree_avg]
  exact skewness_error_mean_mtree_envelope_kappa q hs M hM t h2 hb hsmall hpos hcond

end real

/-! ## Non-vacuity -/

/-- the hypotheses of `variance_of_mean_mtree_forward_error` are met by `Props.C02c.exTree` (ill-conditioned
data `1001, 999, 1002 | (empty) | 998`, a nested merge, an empty chunk, a one-element chunk) with `M = 1002`,
`u = 2^-53`, `σ = 2` (`T/n = 10/4 ≤ 4`), and the conclusion is a concrete statement about a computation under a
rounding that is never exact: `variance_of_mean` is within
`12·4·u·(10/3/4) + (18·4·u·1002·2 + 46·16·u²·1002²)/3` of the exact `10/3/4`. -/
example :
    letI : FloatOps (RF2 Props.C02b.awayRnd) := rf2FloatOps Props.C02b.awayRnd
    |(Variance.evalTree Props.C02c.exTree).varianceOfMean.val - 10 / 3 / 4|
      ≤ 12 * 4 * (1/2^53) * (10 / 3 / 4)
        + (18 * 4 * (1/2^53) * 1002 * 2 + 46 * (4:ℚ)^2 * (1/2^53)^2 * 1002^2) / 3 := by
  let _ : FloatOps (RF2 Props.C02b.awayRnd) := rf2FloatOps Props.C02b.awayRnd
  have hl : (Props.C02c.exTree.flatten.length : ℚ) = 4 := by
    norm_num [Props.C02c.exTree, MTree.flatten]
  have hl' : ((Props.C02c.exTree.flatten.length - 1 : ℕ) : ℚ) = 3 := by
    norm_num [Props.C02c.exTree, MTree.flatten]
  have hu : Props.C02b.awayRnd.u = 1/2^53 := rfl
  have h := (variance_of_mean_mtree_forward_error 1002 (by norm_num) Props.C02c.exTree
    (by simp [Props.C02c.exTree, MTree.flatten])
    (by intro x hx
        simp only [Props.C02c.exTree, MTree.flatten, List.nil_append, List.mem_append, List.mem_cons,
          List.not_mem_nil, or_false] at hx
        rcases hx with (rfl | rfl | rfl) | rfl <;> norm_num)
    (by rw [hl, hu]; norm_num) 2 (by norm_num)
    (by rw [Props.C02c.exTree_T, hl]; norm_num)).2
  rw [Props.C02c.exTree_T, hl, hl', hu] at h
  exact h

/-- the same tree over ℝ with the rounding `Props.C01c.awayRndR` and the square root `Props.C01c.awaySqrt`,
neither ever exact -/
noncomputable def exTreeR : MTree (RF2 Props.C01c.awayRndR) :=
  .node (.leaf [⟨1001⟩, ⟨999⟩, ⟨1002⟩]) (.node (.leaf []) (.leaf [⟨998⟩]))

theorem exTreeR_T : T (exTreeR.flatten.map RF2.val) = 10 := by
  norm_num [exTreeR, MTree.flatten, T, sumPow, mean]

/-- the hypotheses of `error_mtree_envelope_kappa` are met by `exTreeR` with `M = 1002`, `u = 2^-53`, the
instance `rf2SqrtFloatOps awayRndR awaySqrt`: `T = 10 > 0`, `n·u·M = 4008·2^-53 ≤ √(10/4)` -/
example : @SqrtIs Props.C01c.awayRndR Props.C01c.awaySqrt
      (rf2SqrtFloatOps Props.C01c.awayRndR Props.C01c.awaySqrt)
    ∧ 2 ≤ exTreeR.flatten.length ∧ (∀ x ∈ exTreeR.flatten, |x.val| ≤ 1002)
    ∧ (exTreeR.flatten.length : ℝ) * Props.C01c.awayRndR.u ≤ 1/64
    ∧ 0 < T (exTreeR.flatten.map RF2.val)
    ∧ (exTreeR.flatten.length : ℝ) * Props.C01c.awayRndR.u * 1002
        ≤ Real.sqrt (T (exTreeR.flatten.map RF2.val) / (exTreeR.flatten.length : ℝ)) := by
  refine ⟨rf2SqrtFloatOps_sqrtIs _ _, by simp [exTreeR, MTree.flatten], ?_, ?_, ?_, ?_⟩
  · intro x hx
    simp only [exTreeR, MTree.flatten, List.nil_append, List.mem_append, List.mem_cons,
      List.not_mem_nil, or_false] at hx
    rcases hx with (rfl | rfl | rfl) | rfl <;> norm_num
  · norm_num [exTreeR, MTree.flatten, Props.C01c.awayRndR]
  · rw [exTreeR_T]; norm_num
  · rw [exTreeR_T]
    apply Real.le_sqrt_of_sq_le
    norm_num [exTreeR, MTree.flatten, Props.C01c.awayRndR]

/-- and the conclusion is a concrete statement about a computation (45 rounded operations for the state, two
rounded divisions and a rounded square root, none of them exact): `error()` of the merged state is within
`65·4·(1 + 1002/√(10/4))·2^-53·e` of the exact standard error `e = √(10/3/4)` -/
example :
    letI : FloatOps (RF2 Props.C01c.awayRndR) :=
      rf2SqrtFloatOps Props.C01c.awayRndR Props.C01c.awaySqrt
    |(Variance.evalTree exTreeR).error.val - Real.sqrt (10 / 3 / 4)|
      ≤ 65 * 4 * (1 + 1002 / Real.sqrt (10 / 4)) * (1/2^53) * Real.sqrt (10 / 3 / 4) := by
  let _ : FloatOps (RF2 Props.C01c.awayRndR) :=
    rf2SqrtFloatOps Props.C01c.awayRndR Props.C01c.awaySqrt
  have h := (error_mtree_envelope_kappa Props.C01c.awaySqrt (rf2SqrtFloatOps_sqrtIs _ _) 1002
    (by norm_num) exTreeR (by simp [exTreeR, MTree.flatten])
    (by intro x hx
        simp only [exTreeR, MTree.flatten, List.nil_append, List.mem_append, List.mem_cons,
          List.not_mem_nil, or_false] at hx
        rcases hx with (rfl | rfl | rfl) | rfl <;> norm_num)
    (by norm_num [exTreeR, MTree.flatten, Props.C01c.awayRndR]) (by rw [exTreeR_T]; norm_num)
    (by rw [exTreeR_T]
        apply Real.le_sqrt_of_sq_le
        norm_num [exTreeR, MTree.flatten, Props.C01c.awayRndR])).2
  rw [exTreeR_T] at h
  have hl : (exTreeR.flatten.length : ℝ) = 4 := by norm_num [exTreeR, MTree.flatten]
  have hl' : ((exTreeR.flatten.length - 1 : ℕ) : ℝ) = 3 := by norm_num [exTreeR, MTree.flatten]
  have hu : Props.C01c.awayRndR.u = 1/2^53 := rfl
  rw [hl, hl', hu] at h
  exact h

end Props.C02d

#print axioms Props.C02d.sum2_mtree_nonneg
#print axioms Props.C02d.variance_of_mean_mtree_computed
#print axioms Props.C02d.variance_of_mean_mtree_single
#print axioms Props.C02d.variance_of_mean_mtree_nonneg
#print axioms Props.C02d.variance_of_mean_mtree_forward_error
#print axioms Props.C02d.variance_of_mean_mtree_envelope
#print axioms Props.C02d.variance_of_mean_mtree_envelope_kappa
#print axioms Props.C02d.error_mtree_computed
#print axioms Props.C02d.error_mtree_forward_error
#print axioms Props.C02d.error_mtree_envelope_kappa
#print axioms Props.C02d.skewness_error_mean_mtree_envelope_kappa
#print axioms Props.C02d.kurtosis_error_mean_mtree_envelope_kappa
